/-
  Model of mp4san/src/parse/header.rs: BoxHeader / BoxSize / BoxType, decoding, encoding, sizes,
  the two constructors.  Core Lean only.
-/
import MediaSan.Bytes
namespace MediaSan.Mp4
open MediaSan

def u32Max : Nat := 4294967295
def u64Max : Nat := 18446744073709551615

/-- `ParseError` of mp4san, without payloads (properties observe the kind only). -/
inductive PErr where
  | invalidBoxLayout | invalidInput | missingRequiredBox | truncatedBox
  | unsupportedBox | unsupportedBoxLayout | unsupportedFormat
  deriving DecidableEq, Repr

def PErr.name : PErr → String
  | .invalidBoxLayout => "InvalidBoxLayout" | .invalidInput => "InvalidInput"
  | .missingRequiredBox => "MissingRequiredBox" | .truncatedBox => "TruncatedBox"
  | .unsupportedBox => "UnsupportedBox" | .unsupportedBoxLayout => "UnsupportedBoxLayout"
  | .unsupportedFormat => "UnsupportedFormat"

/-- result of pure (non-I/O) code: value, parse error, or a panic site (overflow checks / unwrap / unreachable) -/
inductive PureRes (α : Type) where
  | ok (a : α)
  | err (e : PErr)
  | panic (site : String)
  deriving Repr, DecidableEq

instance : Monad PureRes where
  pure := .ok
  bind m f := match m with
    | .ok a => f a
    | .err e => .err e
    | .panic s => .panic s

inductive BoxSize where
  | untilEof
  | size (n : Nat)   -- 32-bit size field (whole box)
  | ext (n : Nat)    -- 64-bit size field (whole box)
  deriving DecidableEq, Repr

inductive BoxType where
  | fourcc (b : Bytes)   -- 4 bytes
  | uuid (b : Bytes)     -- 16 bytes
  deriving DecidableEq, Repr

structure BoxHeader where
  ty : BoxType
  sz : BoxSize
  deriving DecidableEq, Repr

def fcc (s : String) : Bytes := s.toUTF8.toList

def FTYP := BoxType.fourcc [0x66, 0x74, 0x79, 0x70]
def MOOV := BoxType.fourcc [0x6d, 0x6f, 0x6f, 0x76]
def MDAT := BoxType.fourcc [0x6d, 0x64, 0x61, 0x74]
def FREE := BoxType.fourcc [0x66, 0x72, 0x65, 0x65]
def SKIP := BoxType.fourcc [0x73, 0x6b, 0x69, 0x70]
def META := BoxType.fourcc [0x6d, 0x65, 0x74, 0x61]
def MECO := BoxType.fourcc [0x6d, 0x65, 0x63, 0x6f]
def TRAK := BoxType.fourcc [0x74, 0x72, 0x61, 0x6b]
def MDIA := BoxType.fourcc [0x6d, 0x64, 0x69, 0x61]
def MINF := BoxType.fourcc [0x6d, 0x69, 0x6e, 0x66]
def STBL := BoxType.fourcc [0x73, 0x74, 0x62, 0x6c]
def STCO := BoxType.fourcc [0x73, 0x74, 0x63, 0x6f]
def CO64 := BoxType.fourcc [0x63, 0x6f, 0x36, 0x34]
def uuidName : Bytes := [0x75, 0x75, 0x69, 0x64]
def isomBrand : Bytes := [0x69, 0x73, 0x6f, 0x6d]

def BoxHeader.encodedLen (h : BoxHeader) : Nat :=
  8 + (match h.sz with | .ext _ => 8 | _ => 0) + (match h.ty with | .uuid _ => 16 | _ => 0)

def BoxSize.toNat? : BoxSize → Option Nat
  | .untilEof => none
  | .size n => some n
  | .ext n => some n

/-- `box_data_size`: `Ok(None)` for until-EOF, `Err(InvalidInput)` when the size is below the header length. -/
def BoxHeader.dataSize (h : BoxHeader) : Except PErr (Option Nat) :=
  match h.sz.toNat? with
  | none => .ok none
  | some s => if h.encodedLen ≤ s then .ok (some (s - h.encodedLen)) else .error .invalidInput

/-- `BoxHeader::read` / `BoxHeader::parse` over a byte string; `none` = ran out of bytes (TruncatedBox). -/
def decodeHeader (bs : Bytes) : Option (BoxHeader × Bytes) :=
  if bs.length < 8 then none else
  let sz32 := beToNat (bs.take 4)
  let name := (bs.drop 4).take 4
  let rest := bs.drop 8
  let szr : Option (BoxSize × Bytes) :=
    if sz32 = 0 then some (.untilEof, rest)
    else if sz32 = 1 then
      if rest.length < 8 then none else some (.ext (beToNat (rest.take 8)), rest.drop 8)
    else some (.size sz32, rest)
  match szr with
  | none => none
  | some (sz, rest1) =>
    if name = uuidName then
      if rest1.length < 16 then none else some (⟨.uuid (rest1.take 16), sz⟩, rest1.drop 16)
    else some (⟨.fourcc name, sz⟩, rest1)

/-- `BoxHeader::put_buf` -/
def encodeHeader (h : BoxHeader) : Bytes :=
  (match h.sz with
    | .untilEof => natToBE 4 0
    | .ext _ => natToBE 4 1
    | .size n => natToBE 4 n)
  ++ (match h.ty with
    | .fourcc b => b
    | .uuid _ => uuidName)
  ++ (match h.sz with
    | .ext n => natToBE 8 n
    | _ => [])
  ++ (match h.ty with
    | .uuid u => u
    | _ => [])

/-- `BoxHeader::with_u32_data_size` (precondition in Rust: data_size : u32) -/
def withU32DataSize (ty : BoxType) (n : Nat) : BoxHeader :=
  let hl := (BoxHeader.mk ty (.size 0)).encodedLen
  if n + hl ≤ u32Max then ⟨ty, .size (n + hl)⟩
  else ⟨ty, .ext (n + (BoxHeader.mk ty (.ext 0)).encodedLen)⟩

/-- `BoxHeader::with_data_size` -/
def withDataSize (ty : BoxType) (n : Nat) : Except PErr BoxHeader :=
  if n ≤ u32Max then .ok (withU32DataSize ty n)
  else
    let hl := (BoxHeader.mk ty (.ext 0)).encodedLen
    if n + hl ≤ u64Max then .ok ⟨ty, .ext (n + hl)⟩ else .error .invalidInput

/-- headers that `decodeHeader` or the constructors can produce -/
def BoxHeader.WF (h : BoxHeader) : Prop :=
  (match h.ty with
    | .fourcc b => b.length = 4 ∧ b ≠ uuidName
    | .uuid u => u.length = 16) ∧
  (match h.sz with
    | .untilEof => True
    | .size n => 2 ≤ n ∧ n ≤ u32Max
    | .ext n => n ≤ u64Max)

end MediaSan.Mp4
