/-
  Model of `mp4san::sanitize_async_with_config` (mp4san/src/lib.rs:271-472) as an I/O program.
  Statement-by-statement: see the comments citing the Rust lines.
-/
import MediaSan.Stream
import MediaSan.Mp4.Tree
namespace MediaSan.Mp4
open MediaSan

structure Config where
  maxMetadataSize : Nat := 1073741824
  cumulativeMdatBoxSize : Option Nat := none
  deriving Repr

structure Span where
  offset : Nat
  len : Nat
  deriving Repr, DecidableEq

structure Sanitized where
  metadata : Option Bytes
  data : Span
  deriving Repr, DecidableEq

abbrev P := Prog PErr

def maxFtypSize : Nat := 1024
def headerMaxSize : Nat := 32

def liftPure {α} : PureRes α → P α
  | .ok a => .done a
  | .err e => .fail e
  | .panic s => .panic s

def liftExcept {α} : Except PErr α → P α
  | .ok a => .done a
  | .error e => .fail e

/-- checked u64 arithmetic of a debug / overflow-checks build -/
def addU64 (site : String) (a b : Nat) : P Nat :=
  if a + b ≤ u64Max then .done (a + b) else .panic site
def subU64 (site : String) (a b : Nat) : P Nat :=
  if b ≤ a then .done (a - b) else .panic site

/-- `BoxHeader::read` over the reader: 4+4 bytes, then 8 more for size==1, then 16 more for `uuid`.
    Every read is a `map_eof` site → TruncatedBox (lib.rs:286-288). -/
def readHeader : P BoxHeader :=
  .readExact 4 (some .truncatedBox) fun szb =>
  .readExact 4 (some .truncatedBox) fun name =>
  let sz32 := beToNat szb
  let contSize (k : BoxSize → P BoxHeader) : P BoxHeader :=
    if sz32 = 0 then k .untilEof
    else if sz32 = 1 then .readExact 8 (some .truncatedBox) fun e => k (.ext (beToNat e))
    else k (.size sz32)
  contSize fun sz =>
    if name = uuidName then .readExact 16 (some .truncatedBox) fun u => .done ⟨.uuid u, sz⟩
    else .done ⟨.fourcc name, sz⟩

/-- `box_data_size` or, for until-EOF, `stream_len - stream_position` (lib.rs:515-518, mp4box.rs:88-91) -/
def boxDataSize (h : BoxHeader) : P Nat :=
  match h.dataSize with
  | .error e => .fail e
  | .ok (some n) => .done n
  | .ok none => .streamLen fun l => .position fun p => subU64 "stream_len - stream_position" l p

/-- `skip_box` (lib.rs:511-526); returns the amount skipped -/
def skipBox (h : BoxHeader) : P Nat := do
  let n ← boxDataSize h
  Prog.skip n (some .truncatedBox) fun _ => .done n

/-- `Mp4Box::read_data` (mp4box.rs:78-108): size, limit check *before* allocation and read, read_exact -/
def readData (h : BoxHeader) (maxSize : Nat) : P Bytes := do
  let n ← boxDataSize h
  if n ≤ maxSize then Prog.readExact n (some .truncatedBox) fun b => .done b
  else .fail .invalidInput

structure ScanState where
  ftyp : Option (Box Ftyp) := none
  moov : Option (Box L5) := none
  moovOffset : Option Nat := none
  data : Option Span := none

/-- "Try to extend any already accumulated data" (lib.rs:296-300, 374-378) -/
def extendData (data : Option Span) (startPos boxSize : Nat) : P (Option Span) :=
  match data with
  | none => .done none
  | some d => do
    let e ← addU64 "data.offset + data.len" d.offset d.len
    if e = startPos then do
      let l ← addU64 "data.len += box_size" d.len boxSize
      pure (some ⟨d.offset, l⟩)
    else pure (some d)

/-- `cumulative_mdat_box_size` (lib.rs: "if let (Some(size), Ok(None)) = (config.cumulative_mdat_box_size, header.box_data_size())
    { header.overwrite_size(size) }"): the only use of the option -/
def applyCum (cfg : Config) (header : BoxHeader) : BoxHeader :=
  match header.dataSize, cfg.cumulativeMdatBoxSize with
  | .ok none, some t => { header with sz := .size t }     -- overwrite_size
  | _, _ => header

/-- the `match header.box_type()` of one iteration (lib.rs:294-385), after the header was read -/
def scanBody (cfg : Config) (st : ScanState) (startPos : Nat) (header : BoxHeader) : P ScanState :=
  let ty := header.ty
  if ty = FREE ∨ ty = SKIP then do
    let n ← skipBox header
    let boxSize ← addU64 "skip_box + encoded_len" n header.encodedLen
    let d ← extendData st.data startPos boxSize
    pure { st with data := d }
  else if ty = FTYP then
    if st.ftyp.isSome then .fail .invalidBoxLayout
    else do
      let payload ← readData header maxFtypSize
      let f ← liftPure (parseFtyp payload)
      if f.hasIsom then pure { st with ftyp := some ⟨header, .parsed f⟩ }
      else .fail .unsupportedFormat
  else if st.ftyp.isNone then .fail .invalidBoxLayout
  else if ty = MDAT then do
    let header : BoxHeader := applyCum cfg header
    let n ← skipBox header
    let boxSize ← addU64 "skip_box + encoded_len" n header.encodedLen
    match st.data with
    | some d => do
      let e ← addU64 "data.offset + data.len" d.offset d.len
      if e = startPos then do
        let l ← addU64 "data.len += box_size" d.len boxSize
        pure { st with data := some ⟨d.offset, l⟩ }
      else .fail .unsupportedBoxLayout
    | none => pure { st with data := some ⟨startPos, boxSize⟩ }
  else if ty = MOOV then do
    let payload ← readData header cfg.maxMetadataSize
    let (d, _chunks) ← liftPure (validateMoov (.bytes payload))
    pure { st with moov := some ⟨header, d⟩, moovOffset := some startPos }
  else if ty = META ∨ ty = MECO then do
    let n ← skipBox header
    let boxSize ← addU64 "skip_box + encoded_len" n header.encodedLen
    let d ← extendData st.data startPos boxSize
    pure { st with data := d }
  else do
    let n ← skipBox header
    let _ ← addU64 "skip_box + encoded_len" n header.encodedLen
    .fail .unsupportedBox

/-- one iteration of the `while` body, after `fill_buf` said there is more input (lib.rs:284-386) -/
def scanBox (cfg : Config) (st : ScanState) : P ScanState :=
  .position fun startPos => readHeader.bind fun header => scanBody cfg st startPos header

/-- the `while !reader.fill_buf().await?.is_empty()` loop, with fuel -/
def scan (cfg : Config) : Nat → ScanState → Prog PErr (Option ScanState)
  | 0, _ => .done none
  | fuel + 1, st =>
    .isEof fun eof =>
      if eof then .done (some st)
      else (scanBox cfg st).bind fun st' => scan cfg fuel st'

def padHeaderSize : Nat := 8
def maxPadSize : Nat := u32Max - padHeaderSize
def i32Min : Int := -2147483648
def i32Max : Int := 2147483647

/-- what to do with the chunk offsets (lib.rs:411-435), from the re-encoded metadata length and the media
    offset: `(pad, disp)` — pad bytes of `free` box to append (0 = none) and the displacement to apply
    (`none` = leave the offsets alone).  A gap larger than the metadata itself is not padded. -/
def planRewrite (metadataLen dataOffset : Nat) : Except PErr (Nat × Option Int) :=
  if metadataLen ≤ dataOffset then
    let gap := dataOffset - metadataLen
    if gap = 0 then .ok (0, none)
    else if padHeaderSize ≤ gap ∧ gap ≤ maxPadSize ∧ gap ≤ metadataLen then .ok (gap, none)
    else if gap ≤ 2147483648 then .ok (0, some (-(gap : Int)))   -- i64::try_from(gap).and_then(|d| i32::try_from(-d)): -2^31 fits
    else .error .unsupportedBoxLayout
  else
    let fwd := metadataLen - dataOffset
    if fwd ≤ 2147483647 then .ok (0, some (fwd : Int)) else .error .unsupportedBoxLayout

/-- output assembly (lib.rs:462-469) -/
def assemble (ftyp : Box Ftyp) (moov : Box L5) (metadataLen padSize : Nat) : Bytes :=
  let body := ftyp.ser ftypSer ++ moov.ser ser5
  if padSize ≠ 0 then
    let padHeader := withU32DataSize FREE (padSize - padHeaderSize)
    let withHdr := body ++ encodeHeader padHeader
    -- `metadata.resize(metadata_len + pad_size, 0)`
    withHdr ++ List.replicate (metadataLen + padSize - withHdr.length) 0
  else body

/-- everything after the loop (lib.rs:397-471): pure -/
def finish (st : ScanState) : PureRes Sanitized :=
  match st.ftyp with
  | none => .err .missingRequiredBox
  | some ftyp =>
  match st.moov, st.moovOffset with
  | some moov, some moovOffset =>
    match st.data with
    | none => .err .missingRequiredBox
    | some data =>
      if moovOffset < data.offset then .ok ⟨none, data⟩
      else
        -- Mp4Box::with_data: headers re-derived from the data lengths
        match withDataSize FTYP (ftyp.data.len ftypSer), withDataSize MOOV (moov.data.len ser5) with
        | .error e, _ => .err e
        | _, .error e => .err e
        | .ok fh, .ok mh =>
          let ftyp' : Box Ftyp := ⟨fh, ftyp.data⟩
          let moov' : Box L5 := ⟨mh, moov.data⟩
          let metadataLen := ftyp'.len ftypSer + moov'.len ser5
          if metadataLen > u64Max then .panic "ftyp.encoded_len() + moov.encoded_len()" else
          match planRewrite metadataLen data.offset with
          | .error e => .err e
          | .ok (pad, none) => .ok ⟨some (assemble ftyp' moov' metadataLen pad), data⟩
          | .ok (pad, some disp) =>
            match displaceMoov disp moov.data with
            | .ok d => .ok ⟨some (assemble ftyp' ⟨mh, d⟩ metadataLen pad), data⟩
            | .err e => .err e
            | .panic s => .panic s
  | _, _ => .err .missingRequiredBox

/-- the check after the loop (lib.rs:389-395): a seek-based skip may have moved past the end -/
def checkEnd : P Unit :=
  .position fun pos => .streamLen fun len =>
    if pos ≤ len then .done () else .fail .truncatedBox

def sanitizeP (cfg : Config) (fuel : Nat) : Prog PErr (Option Sanitized) :=
  (scan cfg fuel {}).bind fun
    | none => .done none
    | some st => checkEnd.bind fun _ => (liftPure (finish st)).bind fun r => .done (some r)

/-- the whole sanitizer on a cursor; `outOfFuel` never happens with the fuel used here (`scan_fuel_enough`) -/
def sanitizeWith {σ} (ops : CursorOps σ) (st : σ) (cfg : Config) (fuel : Nat) : Outcome PErr Sanitized :=
  match (sanitizeP cfg fuel).run ops st with
  | .ok (some r) => .ok r
  | .ok none => .outOfFuel
  | .parseErr e => .parseErr e
  | .ioErr k => .ioErr k
  | .panic s => .panic s
  | .outOfFuel => .outOfFuel

/-- every iteration consumes at least 8 bytes of a stream of `len` bytes -/
def fuelFor (s : Stream) : Nat := s.len / 8 + 2

def sanitize (s : Stream) (kind : SkipKind) (cfg : Config) : Outcome PErr Sanitized :=
  sanitizeWith (idealOps s kind) 0 cfg (fuelFor s)

end MediaSan.Mp4
