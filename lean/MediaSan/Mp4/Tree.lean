/-
  Model of mp4san's lazily parsed box tree (mp4san/src/parse/{mp4box,array,stco,co64,stbl,minf,mdia,trak,
  moov,ftyp}.rs and the derive macros) — only as deep as the sanitizer ever parses it:

      moov ─ children ─ trak ─ children ─ mdia ─ children ─ minf ─ children ─ stbl ─ children ─ stco | co64

  `Box C` is a box whose payload is either still raw bytes or has been parsed into a `C`
  (`BoxData::{Bytes,Parsed}`); the five nesting levels are five instances of the same polymorphic type,
  so there is no recursive datatype and every function is plain list recursion.
-/
import MediaSan.Mp4.Header
namespace MediaSan.Mp4
open MediaSan

inductive Data (C : Type) where
  | bytes (b : Bytes)
  | parsed (c : C)
  deriving Repr, DecidableEq

structure Box (C : Type) where
  hdr : BoxHeader        -- parsed_header
  data : Data C
  deriving Repr, DecidableEq

/-- serialisation side of a parsed payload type (`ParsedBox::{encoded_len, put_buf}`) -/
structure Ser (C : Type) where
  ser : C → Bytes
  len : C → Nat

def Data.len {C} (K : Ser C) : Data C → Nat
  | .bytes b => b.length
  | .parsed c => K.len c

def Data.ser {C} (K : Ser C) : Data C → Bytes
  | .bytes b => b
  | .parsed c => K.ser c

/-- `Mp4Box::calculated_header`: keep the parsed header unless it declares a data size different from the
    current data length.  (`with_data_size` cannot fail there for in-memory data; see DESIGN trusted base.) -/
def Box.calcHeader {C} (K : Ser C) (b : Box C) : BoxHeader :=
  match b.hdr.dataSize with
  | .ok (some n) =>
    if n ≠ b.data.len K then
      match withDataSize b.hdr.ty (b.data.len K) with
      | .ok h => h
      | .error _ => b.hdr
    else b.hdr
  | _ => b.hdr

def Box.ser {C} (K : Ser C) (b : Box C) : Bytes := encodeHeader (b.calcHeader K) ++ b.data.ser K
def Box.len {C} (K : Ser C) (b : Box C) : Nat := (b.calcHeader K).encodedLen + b.data.len K

/-- `Boxes`: `put_buf` / `encoded_len` of a list of boxes -/
def listSer {C} (K : Ser C) : Ser (List (Box C)) where
  ser cs := (cs.map (Box.ser K)).flatten
  len cs := (cs.map (Box.len K)).sum

/-- `Boxes::parse`: repeatedly `Mp4Box::parse` until the buffer is empty; every child starts as raw bytes. -/
def parseBoxes {C} : Nat → Bytes → PureRes (List (Box C))
  | 0, _ => .ok []        -- fuel exhausted: unreachable with fuel = length (see `parseBoxes_fuel`)
  | fuel + 1, bs =>
    if bs.isEmpty then .ok [] else
    match decodeHeader bs with
    | none => .err .truncatedBox
    | some (h, rest) =>
      match h.dataSize with
      | .error e => .err e
      | .ok none => .ok [⟨h, .bytes rest⟩]
      | .ok (some n) =>
        if n ≤ rest.length then
          match parseBoxes fuel (rest.drop n) with
          | .ok cs => .ok (⟨h, .bytes (rest.take n)⟩ :: cs)
          | .err e => .err e
          | .panic s => .panic s
        else .err .truncatedBox

def parseContainer {C} (bs : Bytes) : PureRes (List (Box C)) := parseBoxes bs.length bs

def hasType {C} (ty : BoxType) (cs : List (Box C)) : Bool := cs.any (·.hdr.ty == ty)
def countType {C} (ty : BoxType) (cs : List (Box C)) : Nat := (cs.filter (·.hdr.ty == ty)).length

/-- `BoxData::parse_as` followed by a mutation: parse lazily if still bytes, then apply `f`. -/
def Data.modify {C α} (parse : Bytes → PureRes C) (f : C → PureRes (C × α)) : Data C → PureRes (Data C × α)
  | .bytes b => do
    let c ← parse b
    let (c', a) ← f c
    pure (.parsed c', a)
  | .parsed c => do
    let (c', a) ← f c
    pure (.parsed c', a)

/-- `Boxes::get_mut::<T>().next()` + mutation of the first box of type `ty`; MissingRequiredBox if none. -/
def modifyFirst {C α} (ty : BoxType) (parse : Bytes → PureRes C) (f : C → PureRes (C × α)) :
    List (Box C) → PureRes (List (Box C) × α)
  | [] => .err .missingRequiredBox
  | b :: bs =>
    if b.hdr.ty == ty then do
      let (d, a) ← b.data.modify parse f
      pure (⟨b.hdr, d⟩ :: bs, a)
    else do
      let (bs', a) ← modifyFirst ty parse f bs
      pure (b :: bs', a)

/-- `Boxes::get_one_mut::<T>()` -/
def getOneMut {C α} (ty : BoxType) (parse : Bytes → PureRes C) (f : C → PureRes (C × α))
    (cs : List (Box C)) : PureRes (List (Box C) × α) :=
  if countType ty cs ≤ 1 then modifyFirst ty parse f cs else .err .invalidBoxLayout

/-- iterate `Boxes::get_mut::<T>()` over every box of type `ty`, in order; first error wins. -/
def forEachOfType {C α} (ty : BoxType) (parse : Bytes → PureRes C) (f : C → PureRes (C × α)) :
    List (Box C) → PureRes (List (Box C) × List α)
  | [] => .ok ([], [])
  | b :: bs =>
    if b.hdr.ty == ty then do
      let (d, a) ← b.data.modify parse f
      let (bs', as) ← forEachOfType ty parse f bs
      pure (⟨b.hdr, d⟩ :: bs', a :: as)
    else do
      let (bs', as) ← forEachOfType ty parse f bs
      pure (b :: bs', as)

/-! ### stco / co64 -/

/-- parsed `StcoBox` (width 4) / `Co64Box` (width 8): `ConstFullBoxHeader<0,0>` + `BoundedArray<u32, uN>` -/
structure Co where
  width : Nat
  count : Nat        -- the entry_count field as read
  entries : Bytes    -- the array bytes
  deriving Repr, DecidableEq

def coSer : Ser Co where
  ser c := [0, 0, 0, 0] ++ natToBE 4 c.count ++ c.entries
  len c := 4 + (4 + c.entries.length)

/-- `StcoBox::parse` / `Co64Box::parse` as derived: full-box header (version 0, flags 0), bounded array, no extra data -/
def parseCo (width : Nat) (b : Bytes) : PureRes Co :=
  if b.length < 4 then .err .truncatedBox
  else if b.take 1 ≠ [0] then .err .invalidInput            -- version
  else if (b.drop 1).take 3 ≠ [0, 0, 0] then .err .invalidInput   -- flags
  else if b.length < 8 then .err .truncatedBox
  else
    let count := beToNat ((b.drop 4).take 4)
    let entriesLen := width * count
    if entriesLen > u32Max then .err .invalidInput          -- checked_mul
    else
      let remaining := b.length - 8
      if remaining % 4294967296 < entriesLen then .err .truncatedBox    -- `buf.remaining() as u32 >= entries_len`
      else if remaining ≠ entriesLen then .err .invalidInput           -- "extra unparsed data"
      else .ok ⟨width, count, b.drop 8⟩

/-! ### the nesting levels -/

abbrev B0 := Box Co
abbrev L1 := List B0     -- children of stbl
abbrev B1 := Box L1
abbrev L2 := List B1     -- children of minf
abbrev B2 := Box L2
abbrev L3 := List B2     -- children of mdia
abbrev B3 := Box L3
abbrev L4 := List B3     -- children of trak
abbrev B4 := Box L4
abbrev L5 := List B4     -- children of moov

def ser1 : Ser L1 := listSer coSer
def ser2 : Ser L2 := listSer ser1
def ser3 : Ser L3 := listSer ser2
def ser4 : Ser L4 := listSer ser3
def ser5 : Ser L5 := listSer ser4

/-- `StblBox::co_mut` + mutation of the chunk-offset box -/
def coMutStbl {α} (f : Co → PureRes (Co × α)) (cs : L1) : PureRes (L1 × α) :=
  let haveStco := hasType STCO cs
  let haveCo64 := hasType CO64 cs
  if haveStco && haveCo64 then .err .invalidBoxLayout
  else if haveStco then getOneMut STCO (parseCo 4) f cs
  else getOneMut CO64 (parseCo 8) f cs

/-- `TrakBox::co_mut` = mdia_mut()?.minf_mut()?.stbl_mut()?.co_mut() + mutation -/
def coMutTrak {α} (f : Co → PureRes (Co × α)) (cs : L4) : PureRes (L4 × α) :=
  getOneMut MDIA parseContainer
    (fun (l3 : L3) => getOneMut MINF parseContainer
      (fun (l2 : L2) => getOneMut STBL parseContainer (coMutStbl f) l2) l3) cs

/-- `for trak in moov.traks() { trak?.co_mut()? ... }` -/
def forTraks {α} (f : Co → PureRes (Co × α)) (cs : L5) : PureRes (L5 × List α) :=
  forEachOfType TRAK parseContainer (coMutTrak f) cs

/-- `MoovBox::parse` (derived) with `MoovChildrenValidator`: at least one trak -/
def parseMoov (b : Bytes) : PureRes L5 := do
  let cs : L5 ← parseContainer b
  if hasType TRAK cs then pure cs else .err .missingRequiredBox

/-- u32 sum with overflow check (`a? + b?` in the reduce at lib.rs:361, debug/overflow-checks build) -/
def sumU32 : Nat → List Nat → PureRes Nat
  | acc, [] => .ok acc
  | acc, c :: cs => if acc + c ≤ u32Max then sumU32 (acc + c) cs else .panic "lib.rs:361 chunk_count u32 add overflow"

/-- the eager validation of a moov box during the scan (lib.rs:357-362): returns the (now partly parsed) tree -/
def validateMoov (d : Data L5) : PureRes (Data L5 × Nat) := do
  let (d', counts) ← d.modify parseMoov (forTraks (fun co => .ok (co, co.count)))
  -- the reduce adds left to right; an error in a later trak is reported unless an earlier partial sum overflowed
  match counts with
  | [] => pure (d', 0)
  | c :: cs =>
    let total ← sumU32 c cs
    pure (d', total)

/-- big-endian entries of `width` bytes each, shifted by `disp`; `InvalidInput` when a result leaves the field -/
def displaceEntries (width : Nat) (disp : Int) : Nat → Bytes → PureRes Bytes
  | 0, bs => .ok bs
  | fuel + 1, bs =>
    if width = 0 ∨ bs.length < width then .ok bs     -- chunks_exact: a short tail is left untouched
    else
      let v : Int := beToNat (bs.take width)
      let v' := v + disp
      if v' < 0 ∨ v' ≥ (256 : Int) ^ width then .err .invalidInput
      else
        match displaceEntries width disp fuel (bs.drop width) with
        | .ok rest => .ok (natToBE width v'.toNat ++ rest)
        | .err e => .err e
        | .panic s => .panic s

/-- the same function without the linear-time `length` test per entry (what the compiled driver runs: a table of
    65536 entries otherwise costs 2^34 list steps); proved equal below, so nothing is trusted -/
def displaceEntriesFast (width : Nat) (disp : Int) : Nat → Bytes → PureRes Bytes
  | 0, bs => .ok bs
  | fuel + 1, bs =>
    if width = 0 ∨ (bs.take width).length < width then .ok bs
    else
      let v : Int := beToNat (bs.take width)
      let v' := v + disp
      if v' < 0 ∨ v' ≥ (256 : Int) ^ width then .err .invalidInput
      else
        match displaceEntriesFast width disp fuel (bs.drop width) with
        | .ok rest => .ok (natToBE width v'.toNat ++ rest)
        | .err e => .err e
        | .panic s => .panic s

@[csimp] theorem displaceEntries_eq_fast : @displaceEntries = @displaceEntriesFast := by
  funext width disp fuel bs
  induction fuel generalizing bs with
  | zero => rfl
  | succ n ih =>
    have e : ((bs.take width).length < width) = (bs.length < width) := by
      rw [List.length_take]; apply propext; omega
    simp only [displaceEntries, displaceEntriesFast, ih, e]

def displaceCo (disp : Int) (c : Co) : PureRes (Co × Unit) :=
  match displaceEntries c.width disp c.entries.length c.entries with
  | .ok e => .ok ({ c with entries := e }, ())
  | .err e => .err e
  | .panic s => .panic s

/-- the rewrite loop of lib.rs:437-458 -/
def displaceMoov (disp : Int) (d : Data L5) : PureRes (Data L5) := do
  let (d', _) ← d.modify parseMoov (forTraks (displaceCo disp))
  pure d'

/-! ### ftyp -/

/-- parsed `FtypBox`: major brand, minor version, compatible-brand bytes (`UnboundedArray<FourCC>`) -/
structure Ftyp where
  major : Bytes
  minor : Nat
  brands : Bytes
  deriving Repr, DecidableEq

def ftypSer : Ser Ftyp where
  ser f := f.major ++ natToBE 4 f.minor ++ f.brands
  len f := 4 + (4 + f.brands.length)

def parseFtyp (b : Bytes) : PureRes Ftyp :=
  if b.length < 4 then .err .truncatedBox
  else if b.length < 8 then .err .truncatedBox
  else .ok ⟨b.take 4, beToNat ((b.drop 4).take 4), b.drop 8⟩

/-- `chunks_exact(4)` over the brand bytes -/
def brandList : Nat → Bytes → List Bytes
  | 0, _ => []
  | fuel + 1, bs => if bs.length < 4 then [] else bs.take 4 :: brandList fuel (bs.drop 4)

def Ftyp.hasIsom (f : Ftyp) : Bool := (brandList f.brands.length f.brands).any (· == isomBrand)

end MediaSan.Mp4
