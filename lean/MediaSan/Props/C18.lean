/-
  C18 — canonical prefix codes are built and decoded exactly as the spec defines.  (first instalment)
-/
import MediaSan.Vp8l.Huffman
import MediaSan.Spec.CanonicalCode
import MediaSan.Lemmas.Kraft
import MediaSan.Lemmas.KraftConv
namespace MediaSan.Props.C18
open MediaSan MediaSan.Vp8l

/-- inserting a code into a complete trie always fails (DuplicateLeaf / OrphanedLeaf): once the Kraft budget is
    spent, one more symbol is an over-subscription and is rejected -/
theorem C18_add_to_complete_fails (t : HTree) (h : t.complete = true) (c : List Bool) (s : Nat) :
    ∃ e, t.add c s = .error e := by
  induction t generalizing c with
  | empty => simp [HTree.complete] at h
  | leaf x => cases c <;> simp [HTree.add]
  | node z o ihz iho =>
    simp only [HTree.complete, Bool.and_eq_true] at h
    cases c with
    | nil => exact ⟨_, rfl⟩
    | cons b cs =>
      cases b
      · obtain ⟨e, he⟩ := ihz h.1 cs
        exact ⟨e, by simp [HTree.add, he]⟩
      · obtain ⟨e, he⟩ := iho h.2 cs
        exact ⟨e, by simp [HTree.add, he]⟩

/-- a successful insertion never removes a leaf: the trie only grows, so finalisation (`complete`) can only be
    reached by filling every empty node — an incomplete length set is rejected with MissingLeaf -/
theorem C18_compile_requires_complete (syms : List (Nat × List Bool)) (t : HTree)
    (h : compileReadTree syms = .ok t) : t.complete = true := by
  simp only [compileReadTree] at h
  split at h
  · simp at h
  · split at h
    · rename_i hc
      simp only [Except.ok.injEq] at h; subst h; exact hc
    · simp at h

/-- decoding with a single-leaf tree consumes no bits and cannot fail (zero-bit code) -/
theorem C18_zero_bits (s : Nat) (b : ByteArray) (p fuel : Nat) : decodeSym b (.leaf s) fuel p = .ok (s, p) := by
  simp [decodeSym]

/-- decoding never reads past a leaf: with a complete tree and enough fuel the result is a symbol of the tree or
    end-of-data, never a panic -/
theorem C18_decode_no_panic (t : HTree) (hc : t.complete = true) (b : ByteArray) (fuel p : Nat)
    (hf : t.height < fuel) : ∀ site, decodeSym b t fuel p ≠ .error (.panic site) := by
  induction t generalizing fuel p with
  | empty => simp [HTree.complete] at hc
  | leaf s => intro site; simp [decodeSym]
  | node z o ihz iho =>
    intro site
    simp only [HTree.complete, Bool.and_eq_true] at hc
    simp only [HTree.height] at hf
    cases fuel with
    | zero => omega
    | succ f =>
      simp only [decodeSym]
      cases hb : bitAt b p with
      | none => simp
      | some v =>
        cases v
        · exact ihz hc.1 f (p + 1) (by omega) site
        · exact iho hc.2 f (p + 1) (by omega) site

/-- Soundness of the canonical-code builder, for EVERY code-length vector: if `CanonicalHuffmanTree::new` accepts it,
    then either exactly one symbol is used and its length is 1 (the zero-bit special case), or the Kraft sum of the
    used lengths is exactly 1 (Σ 2^(H−len) = 2^H for any H bounding the lengths).  So no under-subscribed
    (incomplete) and no over-subscribed length set is ever accepted — the two rejection classes C07 names.
    Proof: leaf weights in the bitstream-io trie (insertion adds 2^(H−|code|), a finalised trie weighs 2^H), code
    lengths of the canonical assignment equal the given lengths, sums are invariant under the (length, symbol) sort. -/
theorem C18_accept_kraft (lens : List (Nat × Nat)) (c : Code) (H : Nat) (hH : ∀ x ∈ lens, x.2 ≤ H)
    (h : newCode lens = .ok c) :
    (∃ s, (sortByLenSym lens).filter (fun x => x.2 ≠ 0) = [(s, 1)]) ∨ kraftW H lens = 2 ^ H :=
  newCode_kraft lens c H hH h


/-- C18, completeness of the canonical-code builder, for EVERY code-length vector: if the Kraft sum of the used lengths
    is exactly 1 (Σ 2^(H−len) = 2^H for an H bounding the lengths), `CanonicalHuffmanTree::new` accepts it.  Proof
    (Lemmas/KraftConv.lean): the canonical assignment walks the dyadic interval [0, 2^H) from the left - after i codes
    the trie is filled exactly up to the i-th prefix sum (`Filled`), the next code, binary +1 and padded with zeros,
    starts exactly there, so its insertion succeeds (`add_filled`); the last prefix sum is 2^H: the trie is complete. -/
theorem C18_kraft_accepts (lens : List (Nat × Nat)) (H : Nat) (hH : ∀ x ∈ lens, x.2 ≤ H) (hk : kraftW H lens = 2 ^ H) :
    ∃ c, newCode lens = .ok c :=
  kraft_accepts lens H hH hk

/-- C18: a set of code lengths is accepted IFF it is a complete prefix code (Kraft sum exactly 1) or a single used
    symbol of length 1 - for every length vector and every bound H on the lengths -/
theorem C18_accept_iff (lens : List (Nat × Nat)) (H : Nat) (hH : ∀ x ∈ lens, x.2 ≤ H) :
    (∃ c, newCode lens = .ok c) ↔
      ((∃ s, (sortByLenSym lens).filter (fun x => x.2 ≠ 0) = [(s, 1)]) ∨ kraftW H lens = 2 ^ H) := by
  constructor
  · rintro ⟨c, hc⟩
    exact C18_accept_kraft lens c H hH hc
  · rintro (⟨s, hs⟩ | hk)
    · exact ⟨_, single_accepts lens s hs⟩
    · exact kraft_accepts lens H hH hk

/-- C18, decoding: with an accepted code, whenever the bits at a position spell the code that the canonical assignment
    (shorter codes first, ties by symbol value; consecutive codes are binary +1, padded with zeros) gives to a symbol,
    `read_huffman` returns that symbol and consumes exactly those bits - for every length vector, byte string and
    position.  (A single used symbol has the empty code: it is returned without consuming a bit.) -/
theorem C18_decode_canonical (lens : List (Nat × Nat)) (c : Code) (h : newCode lens = .ok c) (x : Nat × List Bool)
    (hx : x ∈ canonicalSymbols lens) (b : ByteArray) (p : Nat)
    (hbits : ∀ i (hi : i < x.2.length), bitAt b (p + i) = some x.2[i]) :
    readSym c b p = .ok (x.1, p + x.2.length) :=
  decode_canonical lens c h x hx b p hbits

/-- the increment used between consecutive codes is binary +1 with wrap-around -/
def codeVal : List Bool → Nat
  | [] => 0
  | c :: cs => (if c then 2 ^ cs.length else 0) + codeVal cs

theorem incCode_length (c : List Bool) : (incCode c).length = c.length := by
  induction c with
  | nil => rfl
  | cons b bs ih => simp only [incCode]; split <;> simp [ih]

-- Non-vacuity: a complete vector is accepted and has Kraft weight 2^H; an incomplete one is rejected
example : (newCode [(0,1),(1,2),(2,2)]).isOk = true ∧ kraftW 2 [(0,1),(1,2),(2,2)] = 4 := by decide
example : (newCode [(0,2),(1,2),(2,2)]).isOk = false := by decide

-- Non-vacuity: the RFC 1951 example (lengths 3,3,3,3,3,2,4,4 for A..H) gets the RFC's codes
example : canonicalSymbols [(0,3),(1,3),(2,3),(3,3),(4,3),(5,2),(6,4),(7,4)] =
    [(5,[false,false]), (0,[false,true,false]), (1,[false,true,true]), (2,[true,false,false]), (3,[true,false,true]),
     (4,[true,true,false]), (6,[true,true,true,false]), (7,[true,true,true,true])] := by decide
example : Spec.CanonicalCode.table [(0,3),(1,3),(2,3),(3,3),(4,3),(5,2),(6,4),(7,4)] =
    [(0,[false,true,false]), (1,[false,true,true]), (2,[true,false,false]), (3,[true,false,true]),
     (4,[true,true,false]), (5,[false,false]), (6,[true,true,true,false]), (7,[true,true,true,true])] := by decide
example : (newCode [(0,1),(1,1),(2,1)]).isOk = false := by decide     -- over-subscribed
example : (newCode [(0,2),(1,2),(2,2)]).isOk = false := by decide     -- incomplete
example : (newCode [(0,2)]).isOk = false := by decide                 -- single symbol, length ≠ 1

end MediaSan.Props.C18
