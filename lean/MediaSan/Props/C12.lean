/-
  C12 — the async result is independent of the Pending schedule.
-/
import MediaSan.Lemmas.Async
import MediaSan.Lemmas.Adapters
import MediaSan.Mp4.Sanitize
namespace MediaSan.Props.C12
open MediaSan

/-- Native `AsyncSkip` readers: for EVERY schedule of `Pending`s, every reader, every BufReader capacity and every
    configuration, the sanitizer over the suspended reader returns what it returns over the never-suspended reader
    (the synchronous call).  Each awaited operation, polled until ready, returns the synchronous operation's result
    and leaves the synchronous state: nothing is lost, duplicated or performed twice. -/
theorem C12_native {ρ : Type} (raw : RawOps ρ) (r : ρ) (sched : Sched) (cap : Nat) (buf : Bytes)
    (cfg : Mp4.Config) (fuel : Nat) :
    Mp4.sanitizeWith (bufOps cap (pendRaw raw)) ⟨(r, sched), buf⟩ cfg fuel =
    Mp4.sanitizeWith (bufOps cap raw) ⟨r, buf⟩ cfg fuel := by
  have sim := (bufOps_lift (pendRaw_sim raw) cap).toSim
  simp only [Mp4.sanitizeWith]
  rw [run_sim sim _ ⟨r, buf⟩ ⟨(r, sched), buf⟩ ⟨rfl, rfl⟩]

/-- … and hence the ideal-cursor answer, for the reader stack the sanitizer builds (any capacity, any read chunking) -/
theorem C12_native_ideal (s : Stream) (kind : SkipKind) (sched : Sched) (cap chunk : Nat) (hcap : 1 ≤ cap)
    (hlen : s.len < 4611686018427387904) (cfg : Mp4.Config) :
    Mp4.sanitizeWith (bufOps cap (pendRaw (idealRaw s kind chunk))) ⟨(0, sched), []⟩ cfg (Mp4.fuelFor s) =
    Mp4.sanitize s kind cfg := by
  rw [C12_native]
  exact C11_param_mp4' (bufOps_sim s kind cap chunk hcap hlen) _ _ (bufRel_init s kind) cfg _
where
  C11_param_mp4' {σ₁ σ₂} {o₁ : CursorOps σ₁} {o₂ : CursorOps σ₂} {R : σ₁ → σ₂ → Prop} (sim : Sim o₁ o₂ R)
      (a : σ₁) (b : σ₂) (h : R a b) (cfg : Mp4.Config) (fuel : Nat) :
      Mp4.sanitizeWith o₁ a cfg fuel = Mp4.sanitizeWith o₂ b cfg fuel := by
    simp only [Mp4.sanitizeWith, run_sim sim _ a b h]

/-- `SeekSkipAdapter::poll_skip` over a suspended `AsyncSeek`: restartable under every schedule, for every amount
    (including the two-seek branch for amounts above i64::MAX): the cursor advances exactly once. -/
theorem C12_seek_skip_restartable (len amount : Nat) (st : SeekSt) :
    match seekSkip len st.pos amount with
    | .ok p => ∃ st', driveA (fun st => pollSkipA len st amount) st = .ok ((), st') ∧ st'.pos = p ∧
        st'.restoreSuspended = st.restoreSuspended
    | .error e => driveA (fun st => pollSkipA len st amount) st = .error e := by
  have := driveA_spec (pollSkipA_restartable len amount) st
  cases h : seekSkip len st.pos amount with
  | ok p => rw [h] at this; exact this
  | error e => rw [h] at this; exact this

/-- `poll_stream_position`: restartable, position unchanged -/
theorem C12_seek_position_restartable (len : Nat) (st : SeekSt) (hp : st.pos < u64Lim) :
    ∃ st', driveA (pollPositionA len) st = .ok (st.pos, st') ∧ st'.pos = st.pos := by
  have := driveA_spec (pollPositionA_restartable len) st
  simp only [syncSeek, cursorSeek, Nat.add_zero, hp, if_true, Except.map] at this
  obtain ⟨st', e, h, _⟩ := this
  exact ⟨st', e, h⟩

/-- `poll_stream_len` (partial): under every schedule it returns the length; the position is unchanged UNLESS the
    restoring `SeekFrom::Start` was suspended (ghost flag) -/
theorem C12_seek_stream_len_partial (len : Nat) (hl : len < u64Lim) (st : SeekSt) (hp : st.pos < u64Lim) :
    ∃ st', driveA (pollLenA len) st = .ok (len, st') ∧ (st'.restoreSuspended = true ∨ st'.pos = st.pos) := by
  obtain ⟨st', e, _, h3, _, _⟩ := drive_len len hl (st.sched.length + 1) st (by omega) hp
  refine ⟨st', by simp only [driveA, e], ?_⟩
  rcases h3 with h | h
  · exact Or.inl h
  · exact Or.inr h.1

/-- `poll_stream_len` is NOT restartable (finding F5): with the third seek suspended once, the operation returns the
    right length but leaves the cursor at the end of the stream instead of at position 3. -/
theorem C12_seek_stream_len_witness :
    driveA (pollLenA 10) ⟨3, [false, false, true], false⟩ = .ok (10, ⟨10, [], true⟩) := by decide

/-- Whole sanitizer over `SeekSkipAdapter(AsyncSeek)` (partial): for every schedule the async outcome equals the
    synchronous outcome, unless a restoring seek of `poll_stream_len` was suspended during the run. -/
theorem C12_seek_partial (s : Stream) (sched : Sched) (cap chunk : Nat) (hcap : 1 ≤ cap)
    (hlen : s.len < 4611686018427387904) (cfg : Mp4.Config) :
    Mp4.sanitizeWith (bufOps cap (asyncSeekRaw s chunk)) ⟨⟨0, sched, false⟩, []⟩ cfg (Mp4.fuelFor s) =
      Mp4.sanitize s .seekable cfg ∨
    (Mp4.sanitizeP cfg (Mp4.fuelFor s)).everBad (bufOps cap (asyncSeekRaw s chunk))
      (fun b => b.inner.restoreSuspended) ⟨⟨0, sched, false⟩, []⟩ = true := by
  have hl : s.len < u64Lim := by unfold u64Lim; omega
  have simU := bufOps_lift (asyncSeekRaw_sim s chunk hl) cap
  have hR : BufR SeekR (⟨0, []⟩ : BufState Nat) ⟨⟨0, sched, false⟩, []⟩ := ⟨⟨rfl, by decide⟩, rfl⟩
  rcases run_sim_unless simU (Mp4.sanitizeP cfg (Mp4.fuelFor s)) _ _ hR with h | h
  · left
    have h2 := C12_native_ideal.C11_param_mp4' (bufOps_sim s .seekable cap chunk hcap hlen) _ _ (bufRel_init s .seekable) cfg
      (Mp4.fuelFor s)
    rw [Mp4.sanitize, ← h2]
    simp only [Mp4.sanitizeWith, h]
  · right; exact h

-- Non-vacuity: a schedule that bites (the first two polls are suspended), and the sync answer is reproduced
example : Mp4.sanitizeWith (bufOps 3 (pendRaw (idealRaw (Stream.ofBytes [0,0,0,8,0x66,0x72,0x65,0x65]) .seekable 1)))
    ⟨(0, [true, true, false, true]), []⟩ {} 3 = .parseErr .missingRequiredBox := by decide

end MediaSan.Props.C12
