/-
  C03 — the media span lies inside the input and is exactly the media run.

  Proved here (ideal cursor, both kinds of `skip`):
   * the end-of-scan check passes exactly when the cursor is not past the end, otherwise TruncatedBox
     (this is what rejects a box overrunning the input on seekable readers — the repaired defect F1);
   * on a strict reader no successful skip or read ever leaves the stream;
   * span bookkeeping: extending the span by a box that starts where it ends keeps the span contiguous and
     ending at the end of that box; a box that does not start there leaves it untouched.
   * `C03_span_within_input`: for EVERY input and configuration, on seek-based and strict cursors alike, a returned
     span satisfies offset + len ≤ input length — proved with the program logic of Lemmas/Hoare.lean over the scan
     loop (invariant: the collected span lies behind the cursor; the end-of-scan check bounds the cursor by the
     length).
   * `C03_media_run` / `C03_spec_holds`: for EVERY input and configuration, a returned result means that the
     INDEPENDENT walker (Spec/Mp4Walk.lean) finds the whole input to be a clean sequence of top-level boxes (so a box
     overrunning the input is never accepted, on seek-based cursors too), that the span starts at the first mdat, ends
     where the maximal run of mdat/free/skip/meta/meco boxes starting there ends, and contains every mdat: the
     executable specification `Spec_C03` returns "no complaint" on the model's result.  Proved with partial-correctness
     triples (Lemmas/Tri.lean) over the scan loop relating every header the loop reads to the walker's `headerAt`
     (Lemmas/ScanRel.lean), and a list lemma about the span bookkeeping (Lemmas/MediaRun.lean).
-/
import MediaSan.Lemmas.Prog
import MediaSan.Lemmas.ScanSafe
import MediaSan.Mp4.Sanitize
import MediaSan.Lemmas.MediaRun
namespace MediaSan.Props.C03
open MediaSan MediaSan.Mp4 MediaSan.Spec.Mp4Walk MediaSan.Spec.Mp4Rules

/-- The end-of-scan check: ok iff position ≤ length, else the run ends with TruncatedBox — for either kind. -/
theorem C03_checkEnd (s : Stream) (kind : SkipKind) (pos : Nat) :
    checkEnd.run (idealOps s kind) pos = if pos ≤ s.len then .ok () else .parseErr .truncatedBox := by
  cases kind <;> by_cases h : pos ≤ s.len <;> simp [checkEnd, Prog.run, idealOps, h]

/-- A strict reader never moves past the end. -/
theorem C03_strict_skip_within (s : Stream) (pos n pos' : Nat)
    (h : (idealOps s .strict).skip pos n = .ok pos') : pos' = pos + n ∧ pos' ≤ s.len := by
  simp only [idealOps] at h
  split at h
  · simp only [Except.ok.injEq] at h; subst h; exact ⟨rfl, by assumption⟩
  · simp at h

/-- A successful read lies inside the stream, for either kind (this is what makes a truncated ftyp/moov
    payload or header a TruncatedBox). -/
theorem C03_read_within (s : Stream) (kind : SkipKind) (pos n : Nat) (b : Bytes) (pos' : Nat)
    (h : (idealOps s kind).readExact pos n = .ok (b, pos')) :
    pos' = pos + n ∧ (n = 0 ∨ pos' ≤ s.len) ∧ b = (if n = 0 then [] else s.read pos n) := by
  simp only [idealOps] at h
  split at h
  · rename_i h0
    simp only [Except.ok.injEq, Prod.mk.injEq] at h
    obtain ⟨rfl, rfl⟩ := h
    exact ⟨by omega, Or.inl h0, by simp [h0]⟩
  · rename_i h0
    split at h
    · rename_i hle
      simp only [Except.ok.injEq, Prod.mk.injEq] at h
      obtain ⟨rfl, rfl⟩ := h
      exact ⟨rfl, Or.inr hle, by simp [h0]⟩
    · simp at h

/-- A seekable skip never wraps: it lands exactly at pos + n (possibly past the end) or fails. -/
theorem C03_seekable_skip_exact (s : Stream) (pos n pos' : Nat)
    (h : (idealOps s .seekable).skip pos n = .ok pos') : pos' = pos + n ∧ (n = 0 ∨ pos' < u64Lim) := by
  simp only [idealOps] at h
  split at h
  · rename_i h0
    simp only [Except.ok.injEq] at h; subst h; exact ⟨by omega, Or.inl h0⟩
  · split at h
    · rename_i hlt
      simp only [Except.ok.injEq] at h; subst h; exact ⟨rfl, Or.inr hlt⟩
    · split at h <;> simp at h

/-- Span bookkeeping for free/skip/meta/meco: if the box starts where the span ends, the span grows by the
    whole box and still ends where the box ends; otherwise it is unchanged.  No arithmetic panic while the
    box end fits u64. -/
theorem C03_extend (d : Span) (startPos boxSize : Nat) (hfit : startPos + boxSize ≤ u64Max)
    (hinv : d.offset + d.len ≤ startPos) :
    extendData (some d) startPos boxSize =
      .done (some (if d.offset + d.len = startPos then ⟨d.offset, d.len + boxSize⟩ else d)) := by
  have h1 : d.offset + d.len ≤ u64Max := by omega
  simp only [extendData, addU64, h1, if_true]
  by_cases he : d.offset + d.len = startPos
  · have h2 : d.len + boxSize ≤ u64Max := by omega
    simp only [he, h2, bind, Prog.bind, if_true]; rfl
  · simp only [he, bind, Prog.bind, if_false]; rfl

/-- On success the returned span lies inside the input: offset + len ≤ input length — for every stream below 2^64
    bytes, seek-based or strict `skip`, every configuration with a 32-bit cumulative size and a limit ≤ 4·(2^32−1).
    (On a seek-based cursor this is exactly what the repaired defect F1 violated.) -/
theorem C03_span_within_input (s : Stream) (kind : SkipKind) (cfg : Config) (hlen : s.len < u64Lim)
    (hcum : ∀ t, cfg.cumulativeMdatBoxSize = some t → t ≤ Mp4.u32Max) (hmax : cfg.maxMetadataSize ≤ 4 * Mp4.u32Max)
    (r : Sanitized) (h : Mp4.sanitize s kind cfg = .ok r) : r.data.offset + r.data.len ≤ s.len := by
  have hs := sanitizeP_span s kind hlen cfg hcum hmax
  unfold Safe at hs
  simp only [Mp4.sanitize, Mp4.sanitizeWith, run_eq_runF] at h
  cases hr : (sanitizeP cfg (fuelFor s)).runF (idealOps s kind) 0 with
  | ok x =>
    obtain ⟨a, p⟩ := x
    rw [hr] at hs h
    cases a with
    | none => simp [Outcome.fst] at h
    | some r' =>
      simp only [Outcome.fst, Outcome.ok.injEq] at h
      subst h
      exact hs r' rfl
  | parseErr e => rw [hr] at h; simp [Outcome.fst] at h
  | ioErr k => rw [hr] at h; simp [Outcome.fst] at h
  | panic site => rw [hr] at h; simp [Outcome.fst] at h
  | outOfFuel => rw [hr] at h; simp [Outcome.fst] at h

/-- the whole-run facts behind `Spec_C03`, stated outright -/
theorem C03_media_run (s : Stream) (kind : SkipKind) (cfg : Config) (r : Sanitized)
    (h : Mp4.sanitize s kind cfg = .ok r) :
    ∃ bs, walkAll s 0 s.len cfg.cumulativeMdatBoxSize = .clean bs ∧
      r.data.offset + r.data.len ≤ s.len ∧
      (∃ m, firstMdat bs = some m ∧ r.data.offset = m.offset) ∧
      (∃ l, (mediaRun bs).getLast? = some l ∧ r.data.offset + r.data.len = l.endOff) ∧
      (∀ b ∈ bs, b.name = mdatN → r.data.offset ≤ b.offset ∧ b.endOff ≤ r.data.offset + r.data.len) := by
  have hs := sanitizeP_rel s kind cfg (fuelFor s)
  unfold Tri at hs
  simp only [Mp4.sanitize, Mp4.sanitizeWith, run_eq_runF] at h
  cases hr : (sanitizeP cfg (fuelFor s)).runF (idealOps s kind) 0 with
  | ok x =>
    obtain ⟨a, p⟩ := x
    rw [hr] at hs h
    cases a with
    | none => simp [Outcome.fst] at h
    | some r' =>
      simp only [Outcome.fst, Outcome.ok.injEq] at h
      subst h
      obtain ⟨bs, hw, hg, he, hf⟩ := hs r' rfl
      obtain ⟨f1, f2, f3⟩ := span_is_media_run bs 0 r'.data hg hf
      refine ⟨bs, hw, ?_, f1, f2, f3⟩
      obtain ⟨l, hl, hle⟩ := f2
      rw [hle]
      have hmem : l ∈ mediaRun bs := List.mem_of_getLast? hl
      have : l ∈ bs := by
        unfold mediaRun at hmem
        exact (List.dropWhile_sublist _).subset ((List.takeWhile_sublist _).subset hmem)
      exact he l this
  | parseErr e => rw [hr] at h; simp [Outcome.fst] at h
  | ioErr k => rw [hr] at h; simp [Outcome.fst] at h
  | panic site => rw [hr] at h; simp [Outcome.fst] at h
  | outOfFuel => rw [hr] at h; simp [Outcome.fst] at h

/-- C03 as the executable specification states it: `Spec_C03` has no complaint about any result the model returns,
    for every input, configuration and kind of cursor — whether or not metadata is returned with the span. -/
theorem C03_spec_holds (s : Stream) (kind : SkipKind) (cfg : Config) (r : Sanitized)
    (h : Mp4.sanitize s kind cfg = .ok r) (md : Stream) :
    Spec_C03 s ⟨cfg.maxMetadataSize, cfg.cumulativeMdatBoxSize⟩ (.noop r.data.offset r.data.len) = none ∧
    Spec_C03 s ⟨cfg.maxMetadataSize, cfg.cumulativeMdatBoxSize⟩ (.rewritten md r.data.offset r.data.len) = none := by
  obtain ⟨bs, hw, hle, ⟨m, hm1, hm2⟩, ⟨l, hl1, hl2⟩, hall⟩ := C03_media_run s kind cfg r h
  have hnot : ¬ (r.data.offset + r.data.len > s.len) := by omega
  have hfilter : ((bs.filter (·.name = (cc 'm' 'd' 'a' 't'))).all
      (fun m => decide (r.data.offset ≤ m.offset ∧ m.endOff ≤ r.data.offset + r.data.len))) = true := by
    rw [List.all_eq_true]
    intro b hb
    have hb' := List.mem_filter.mp hb
    have hn : b.name = mdatN := by
      have := hb'.2
      simp only [decide_eq_true_eq] at this
      rw [← cc_mdat]; exact this
    simp only [decide_eq_true_eq]
    exact hall b hb'.1 hn
  have key : (if r.data.offset + r.data.len > s.len then some "span-exceeds-input"
      else if ¬ (Walk.clean bs).isClean = true then some "accepted-input-with-box-overrunning-or-malformed"
      else match firstMdat (Walk.clean bs).boxes with
        | none => some "span-without-mdat"
        | some d =>
          if r.data.offset ≠ d.offset then some "span-does-not-start-at-first-mdat"
          else match (mediaRun (Walk.clean bs).boxes).getLast? with
            | none => some "empty-run"
            | some l =>
              if r.data.offset + r.data.len ≠ l.endOff then some "span-does-not-end-with-media-run"
              else if ¬ (((Walk.clean bs).boxes.filter (·.name = (cc 'm' 'd' 'a' 't'))).all
                  (fun m => r.data.offset ≤ m.offset ∧ m.endOff ≤ r.data.offset + r.data.len)) = true then
                some "mdat-outside-span"
              else none) = (none : Option String) := by
    rw [if_neg hnot, if_neg (by simp [Walk.isClean])]
    simp only [Walk.boxes]
    rw [hm1]
    dsimp only
    rw [if_neg (by simp [hm2]), hl1]
    dsimp only
    rw [if_neg (by simp [hl2])]
    simp only [hfilter, not_true_eq_false, if_false]
  constructor
  · simp only [Spec_C03, top, hw]
    exact key
  · simp only [Spec_C03, top, hw]
    exact key

-- Non-vacuity: a complete file (ftyp, moov>trak>mdia>minf>stbl>stco, mdat) is accepted with the span of its mdat,
-- so the hypothesis of C03_media_run / C03_spec_holds is met
def tinyMp4 : Bytes :=
  [0,0,0,20, 0x66,0x74,0x79,0x70, 0x69,0x73,0x6f,0x6d, 0,0,0,0, 0x69,0x73,0x6f,0x6d,
   0,0,0,56, 0x6d,0x6f,0x6f,0x76,
   0,0,0,48, 0x74,0x72,0x61,0x6b,
   0,0,0,40, 0x6d,0x64,0x69,0x61,
   0,0,0,32, 0x6d,0x69,0x6e,0x66,
   0,0,0,24, 0x73,0x74,0x62,0x6c,
   0,0,0,16, 0x73,0x74,0x63,0x6f, 0,0,0,0, 0,0,0,0,
   0,0,0,8, 0x6d,0x64,0x61,0x74]
example : Mp4.sanitize (Stream.ofBytes tinyMp4) .seekable {} = .ok ⟨none, ⟨76, 8⟩⟩ := by decide +kernel

-- Non-vacuity
example : checkEnd.run (idealOps (Stream.ofBytes [1,2,3]) .seekable) 1000 = .parseErr .truncatedBox := by decide
example : (idealOps (Stream.ofBytes [1,2,3]) .seekable).skip 1 996 = .ok 997 := by decide
example : (idealOps (Stream.ofBytes [1,2,3]) .strict).skip 1 996 = .error .unexpectedEof := by decide

end MediaSan.Props.C03
