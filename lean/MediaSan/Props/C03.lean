/-
  C03 — the media span lies inside the input and is exactly the media run.

  Proved here (ideal cursor, both kinds of `skip`):
   * the end-of-scan check passes exactly when the cursor is not past the end, otherwise TruncatedBox
     (this is what rejects a box overrunning the input on seekable readers — the repaired defect F1);
   * on a strict reader no successful skip or read ever leaves the stream;
   * span bookkeeping: extending the span by a box that starts where it ends keeps the span contiguous and
     ending at the end of that box; a box that does not start there leaves it untouched.
   * `C03_span_within_input`: for EVERY input and configuration, on seek-based and strict cursors alike, a returned
     span satisfies offset + len ≤ input length — proved with the program logic of Lemmas/Hoare.lean over the scan
     loop (invariant: the collected span lies behind the cursor; the end-of-scan check bounds the cursor by the
     length).
  The "maximal media run" half of the statement is established per generated case by `Spec_C03` on the real output.
-/
import MediaSan.Lemmas.Prog
import MediaSan.Lemmas.ScanSafe
import MediaSan.Mp4.Sanitize
namespace MediaSan.Props.C03
open MediaSan MediaSan.Mp4

/-- The end-of-scan check: ok iff position ≤ length, else the run ends with TruncatedBox — for either kind. -/
theorem C03_checkEnd (s : Stream) (kind : SkipKind) (pos : Nat) :
    checkEnd.run (idealOps s kind) pos = if pos ≤ s.len then .ok () else .parseErr .truncatedBox := by
  cases kind <;> by_cases h : pos ≤ s.len <;> simp [checkEnd, Prog.run, idealOps, h]

/-- A strict reader never moves past the end. -/
theorem C03_strict_skip_within (s : Stream) (pos n pos' : Nat)
    (h : (idealOps s .strict).skip pos n = .ok pos') : pos' = pos + n ∧ pos' ≤ s.len := by
  simp only [idealOps] at h
  split at h
  · simp only [Except.ok.injEq] at h; subst h; exact ⟨rfl, by assumption⟩
  · simp at h

/-- A successful read lies inside the stream, for either kind (this is what makes a truncated ftyp/moov
    payload or header a TruncatedBox). -/
theorem C03_read_within (s : Stream) (kind : SkipKind) (pos n : Nat) (b : Bytes) (pos' : Nat)
    (h : (idealOps s kind).readExact pos n = .ok (b, pos')) :
    pos' = pos + n ∧ (n = 0 ∨ pos' ≤ s.len) ∧ b = (if n = 0 then [] else s.read pos n) := by
  simp only [idealOps] at h
  split at h
  · rename_i h0
    simp only [Except.ok.injEq, Prod.mk.injEq] at h
    obtain ⟨rfl, rfl⟩ := h
    exact ⟨by omega, Or.inl h0, by simp [h0]⟩
  · rename_i h0
    split at h
    · rename_i hle
      simp only [Except.ok.injEq, Prod.mk.injEq] at h
      obtain ⟨rfl, rfl⟩ := h
      exact ⟨rfl, Or.inr hle, by simp [h0]⟩
    · simp at h

/-- A seekable skip never wraps: it lands exactly at pos + n (possibly past the end) or fails. -/
theorem C03_seekable_skip_exact (s : Stream) (pos n pos' : Nat)
    (h : (idealOps s .seekable).skip pos n = .ok pos') : pos' = pos + n ∧ (n = 0 ∨ pos' < u64Lim) := by
  simp only [idealOps] at h
  split at h
  · rename_i h0
    simp only [Except.ok.injEq] at h; subst h; exact ⟨by omega, Or.inl h0⟩
  · split at h
    · rename_i hlt
      simp only [Except.ok.injEq] at h; subst h; exact ⟨rfl, Or.inr hlt⟩
    · split at h <;> simp at h

/-- Span bookkeeping for free/skip/meta/meco: if the box starts where the span ends, the span grows by the
    whole box and still ends where the box ends; otherwise it is unchanged.  No arithmetic panic while the
    box end fits u64. -/
theorem C03_extend (d : Span) (startPos boxSize : Nat) (hfit : startPos + boxSize ≤ u64Max)
    (hinv : d.offset + d.len ≤ startPos) :
    extendData (some d) startPos boxSize =
      .done (some (if d.offset + d.len = startPos then ⟨d.offset, d.len + boxSize⟩ else d)) := by
  have h1 : d.offset + d.len ≤ u64Max := by omega
  simp only [extendData, addU64, h1, if_true]
  by_cases he : d.offset + d.len = startPos
  · have h2 : d.len + boxSize ≤ u64Max := by omega
    simp only [he, h2, bind, Prog.bind, if_true]; rfl
  · simp only [he, bind, Prog.bind, if_false]; rfl

/-- On success the returned span lies inside the input: offset + len ≤ input length — for every stream below 2^64
    bytes, seek-based or strict `skip`, every configuration with a 32-bit cumulative size and a limit ≤ 4·(2^32−1).
    (On a seek-based cursor this is exactly what the repaired defect F1 violated.) -/
theorem C03_span_within_input (s : Stream) (kind : SkipKind) (cfg : Config) (hlen : s.len < u64Lim)
    (hcum : ∀ t, cfg.cumulativeMdatBoxSize = some t → t ≤ u32Max) (hmax : cfg.maxMetadataSize ≤ 4 * u32Max)
    (r : Sanitized) (h : Mp4.sanitize s kind cfg = .ok r) : r.data.offset + r.data.len ≤ s.len := by
  have hs := sanitizeP_span s kind hlen cfg hcum hmax
  unfold Safe at hs
  simp only [Mp4.sanitize, Mp4.sanitizeWith, run_eq_runF] at h
  cases hr : (sanitizeP cfg (fuelFor s)).runF (idealOps s kind) 0 with
  | ok x =>
    obtain ⟨a, p⟩ := x
    rw [hr] at hs h
    cases a with
    | none => simp [Outcome.fst] at h
    | some r' =>
      simp only [Outcome.fst, Outcome.ok.injEq] at h
      subst h
      exact hs r' rfl
  | parseErr e => rw [hr] at h; simp [Outcome.fst] at h
  | ioErr k => rw [hr] at h; simp [Outcome.fst] at h
  | panic site => rw [hr] at h; simp [Outcome.fst] at h
  | outOfFuel => rw [hr] at h; simp [Outcome.fst] at h

-- Non-vacuity
example : checkEnd.run (idealOps (Stream.ofBytes [1,2,3]) .seekable) 1000 = .parseErr .truncatedBox := by decide
example : (idealOps (Stream.ofBytes [1,2,3]) .seekable).skip 1 996 = .ok 997 := by decide
example : (idealOps (Stream.ofBytes [1,2,3]) .strict).skip 1 996 = .error .unexpectedEof := by decide

end MediaSan.Props.C03
