/-
  C13 — I/O failures are propagated; truncation is a parse error.
-/
import MediaSan.Lemmas.WebpMapped
import MediaSan.Lemmas.EofMapped
import MediaSan.Webp.Sanitize
namespace MediaSan.Props.C13
open MediaSan

/-- Fault propagation for the MP4 sanitizer, for every cursor implementation, configuration, fault position and
    error kind: with operation `k` failing with `e`, the outcome is the fault-free one (the run ends before
    operation k), or `Io(e)`, or — for UnexpectedEof only — a parse error of a `map_eof` site.  Never success with
    the fault consumed, never a panic caused by the fault. -/
theorem C13_fault_mp4 {σ} (ops : CursorOps σ) (st : σ) (cfg : Mp4.Config) (fuel k : Nat) (e : IoKind) :
    (Mp4.sanitizeP cfg fuel).run (faultyOps ops k e) (st, 0) = (Mp4.sanitizeP cfg fuel).run ops st ∨
    FaultOutcome e ((Mp4.sanitizeP cfg fuel).run (faultyOps ops k e) (st, 0)) :=
  run_faulty ops k e _ st 0 (Nat.zero_le _)

/-- the same for the WebP sanitizer -/
theorem C13_fault_webp {σ} (ops : CursorOps σ) (st : σ) (cfg : Webp.Config) (fuel k : Nat) (e : IoKind) :
    (Webp.sanitizeP cfg fuel).run (faultyOps ops k e) (st, 0) = (Webp.sanitizeP cfg fuel).run ops st ∨
    FaultOutcome e ((Webp.sanitizeP cfg fuel).run (faultyOps ops k e) (st, 0)) :=
  run_faulty ops k e _ st 0 (Nat.zero_le _)

/-- the only way UnexpectedEof is converted: every read/skip of the MP4 sanitizer is a `map_eof` site -/
theorem C13_mp4_eof_sites (cfg : Mp4.Config) (fuel : Nat) : EofMapped (Mp4.sanitizeP cfg fuel) :=
  Mp4.sanitizeP_mapped cfg fuel

/-- errors of the ideal in-memory cursor: reads fail only with UnexpectedEof; a strict skip likewise; a seek-based
    skip fails only when the target position leaves u64 (InvalidInput from the seek, InvalidData from the adapter's
    checked add); position, length and emptiness queries never fail -/
theorem C13_ideal_errors (s : Stream) (kind : SkipKind) (pos n : Nat) :
    (∀ e, (idealOps s kind).readExact pos n = .error e → e = .unexpectedEof) ∧
    (∀ e, (idealOps s kind).skip pos n = .error e →
      (kind = .strict ∧ e = .unexpectedEof) ∨
      (kind = .seekable ∧ u64Lim ≤ pos + n ∧ (e = .invalidInput ∨ e = .invalidData))) ∧
    (∀ e, (idealOps s kind).isEof pos ≠ .error e) ∧ (∀ e, (idealOps s kind).position pos ≠ .error e) ∧
    (∀ e, (idealOps s kind).streamLen pos ≠ .error e) ∧ (∀ e, (idealOps s kind).readUpTo pos n ≠ .error e) := by
  refine ⟨?_, ?_, ?_, ?_, ?_, ?_⟩
  · intro e h
    simp only [idealOps] at h
    split at h
    · simp at h
    · split at h
      · simp at h
      · simp only [Except.error.injEq] at h; exact h.symm
  · intro e h
    cases kind with
    | strict =>
      left
      simp only [idealOps] at h
      split at h
      · simp at h
      · simp only [Except.error.injEq] at h; exact ⟨rfl, h.symm⟩
    | seekable =>
      right
      simp only [idealOps] at h
      split at h
      · simp at h
      · split at h
        · simp at h
        · rename_i hlt
          split at h <;> simp only [Except.error.injEq] at h
          · exact ⟨rfl, by omega, Or.inl h.symm⟩
          · exact ⟨rfl, by omega, Or.inr h.symm⟩
  · intro e; simp [idealOps]
  · intro e; simp [idealOps]
  · intro e; simp [idealOps]
  · intro e; simp [idealOps]

/-- On fault-free in-memory inputs the MP4 sanitizer never returns `Error::Io`, except — on seek-based readers
    only — InvalidInput/InvalidData for a skip whose target leaves u64.  In particular a short file is a Parse
    error (TruncatedBox or a layout error), never Io. -/
theorem C13_memory_mp4 (s : Stream) (kind : SkipKind) (cfg : Mp4.Config) (k : IoKind)
    (h : Mp4.sanitize s kind cfg = .ioErr k) :
    kind = .seekable ∧ (k = .invalidInput ∨ k = .invalidData) := by
  have hrun : (Mp4.sanitizeP cfg (Mp4.fuelFor s)).run (idealOps s kind) 0 = .ioErr k := by
    simp only [Mp4.sanitize, Mp4.sanitizeWith] at h
    split at h <;> simp_all
  have E := fun pos n => C13_ideal_errors s kind pos n
  refine run_io_of_mapped (idealOps s kind) (fun k => kind = .seekable ∧ (k = .invalidInput ∨ k = .invalidData))
    ?_ ?_ ?_ ?_ ?_ ?_ _ (Mp4.sanitizeP_mapped cfg _) 0 k hrun
  · intro st e ⟨x, hx, _⟩; exact absurd hx ((E st 0).2.2.1 e)
  · intro st e hx; exact absurd hx ((E st 0).2.2.2.1 e)
  · intro st e hx; exact absurd hx ((E st 0).2.2.2.2.1 e)
  · intro st n e hx; left; exact (E st n).1 e hx
  · intro st n e hx
    rcases (E st n).2.1 e hx with ⟨_, he⟩ | ⟨hk, _, he⟩
    · left; exact he
    · right; exact ⟨hk, he⟩
  · intro st n e hx; exact absurd hx ((E st n).2.2.2.2.2 e)

/-- On fault-free in-memory inputs the WebP sanitizer never returns `Error::Io` either, except — on seek-based readers
    only — InvalidInput/InvalidData for a skip whose target leaves u64: every `read_exact` / `skip` of the WebP
    program is a `map_eof` site (`Webp.sanitizeP_mapped`, structural), so a short file is a Parse error, never Io. -/
theorem C13_memory_webp (s : Stream) (kind : SkipKind) (cfg : Webp.Config) (k : IoKind)
    (h : Webp.sanitize s kind cfg = .ioErr k) :
    kind = .seekable ∧ (k = .invalidInput ∨ k = .invalidData) := by
  have hrun : (Webp.sanitizeP cfg (s.len / 8 + 2)).run (idealOps s kind) 0 = .ioErr k := by
    simp only [Webp.sanitize, Webp.sanitizeWith] at h
    split at h <;> simp_all
  have E := fun pos n => C13_ideal_errors s kind pos n
  refine run_io_of_mapped (idealOps s kind) (fun k => kind = .seekable ∧ (k = .invalidInput ∨ k = .invalidData))
    ?_ ?_ ?_ ?_ ?_ ?_ _ (Webp.sanitizeP_mapped cfg _) 0 k hrun
  · intro st e ⟨x, hx, _⟩; exact absurd hx ((E st 0).2.2.1 e)
  · intro st e hx; exact absurd hx ((E st 0).2.2.2.1 e)
  · intro st e hx; exact absurd hx ((E st 0).2.2.2.2.1 e)
  · intro st n e hx; left; exact (E st n).1 e hx
  · intro st n e hx
    rcases (E st n).2.1 e hx with ⟨_, he⟩ | ⟨hk, _, he⟩
    · left; exact he
    · right; exact ⟨hk, he⟩
  · intro st n e hx; exact absurd hx ((E st n).2.2.2.2.2 e)

-- Non-vacuity: a truncated file is a parse error on both kinds; a fault at operation 0 surfaces as Io
example : Mp4.sanitize (Stream.ofBytes [0, 0, 0, 16, 0x66, 0x74, 0x79]) .seekable {} = .parseErr .truncatedBox := by decide
example : (Mp4.sanitizeP {} 3).run (faultyOps (idealOps (Stream.ofBytes [1, 2, 3]) .strict) 0 .timedOut) (0, 0) =
    .ioErr .timedOut := by decide

end MediaSan.Props.C13
