/-
  C04 — all metadata is carried over unchanged except chunk-offset values.

  Proved here: the only mutation the rewrite performs on a parsed table (`displaceCo`) keeps the width, the
  entry count, the array length, hence the serialized length and the eight bytes in front of the array
  (full-box header and count); ftyp payloads re-serialize to their bytes whatever their length (the
  `UnboundedArray` keeps an unaligned tail); the header codec round-trips (C16) so re-encoding the two
  top-level headers is the only other change.
  `C04_carried` (for every input): the ftyp payload in the returned metadata is the input's, byte for byte, and the
  moov payload in it is the input's last moov payload with every byte outside the tables the independent walker finds
  in the INPUT unchanged (the frame over the five nesting levels: Lemmas/Splice.lean, Fusion.lean, KeepRel.lean).
  `C04_spec_holds` (for every input): the executable specification `Spec_C04` itself (the walker run on input and
  output: ftyp payload identical, moov payload of the same length and identical outside the tables) has no complaint
  about any result the model returns (Lemmas/WalkFrame.lean, SpecHolds.lean).
-/
import MediaSan.Lemmas.Mp4Displace
import MediaSan.Lemmas.RelocateFinal
import MediaSan.Lemmas.SpecHolds
namespace MediaSan.Props.C04
open MediaSan MediaSan.Mp4

/-- The table rewrite changes nothing but the entry bytes: same width, count, array length; the serialized
    box payload has the same length and the same first eight bytes. -/
theorem C04_table_frame (c c' : Co) (disp : Int) (hw : 0 < c.width)
    (h : displaceCo disp c = .ok (c', ())) :
    c'.width = c.width ∧ c'.count = c.count ∧ c'.entries.length = c.entries.length ∧
    coSer.len c' = coSer.len c ∧ (coSer.ser c').length = (coSer.ser c).length ∧
    (coSer.ser c').take 8 = (coSer.ser c).take 8 := by
  unfold displaceCo at h
  split at h
  · rename_i e he
    simp only [PureRes.ok.injEq, Prod.mk.injEq, and_true] at h
    subst h
    obtain ⟨hl, _⟩ := displaceEntries_ok c.width hw disp _ c.entries e (Nat.le_refl _) he
    refine ⟨rfl, rfl, hl, ?_, ?_, ?_⟩
    · simp [coSer, hl]
    · simp [coSer, hl]
    · simp [coSer]
  · simp at h
  · simp at h

/-- A parsed ftyp payload serializes back to exactly the bytes it was parsed from, for every length ≥ 8
    (including lengths not divisible by 4). -/
theorem C04_ftyp_identical (b : Bytes) (f : Ftyp) (h : parseFtyp b = .ok f) :
    ftypSer.ser f = b ∧ ftypSer.len f = b.length := by
  unfold parseFtyp at h
  split at h
  · simp at h
  · split at h
    · simp at h
    · rename_i h4 h8
      simp only [PureRes.ok.injEq] at h
      subst h
      have hl : ((b.drop 4).take 4).length = 4 := by simp; omega
      have e := natToBE_beToNat ((b.drop 4).take 4)
      rw [hl] at e
      constructor
      · simp only [ftypSer, e]
        have : b.drop 8 = (b.drop 4).drop 4 := by rw [List.drop_drop]
        rw [this, List.append_assoc, List.take_append_drop, List.take_append_drop]
      · simp only [ftypSer, List.length_drop]; omega

-- Non-vacuity
example : parseFtyp [0x6d,0x70,0x34,0x32, 0,0,0,1, 0x69,0x73,0x6f,0x6d, 7,7] =
    .ok ⟨[0x6d,0x70,0x34,0x32], 1, [0x69,0x73,0x6f,0x6d, 7,7]⟩ := by decide
example : (Ftyp.mk [0x6d,0x70,0x34,0x32] 1 [0x69,0x73,0x6f,0x6d, 7,7]).hasIsom = true := by decide

section Carried
open MediaSan.Spec.Mp4Walk MediaSan.Spec.Mp4Rules

/-- C04 for EVERY input, configuration and cursor kind, on the returned bytes: the ftyp payload inside the returned
    metadata is the payload of the input's ftyp box byte for byte, and the moov payload inside it is the payload of the
    input's last moov with every byte OUTSIDE the chunk-offset tables the independent walker finds (`moovTables`)
    unchanged, at the same place, in the same length. -/
theorem C04_carried (s : Stream) (kind : SkipKind) (cfg : Config) (r : Sanitized) (md : Bytes)
    (h : Mp4.sanitize s kind cfg = .ok r) (hmd : r.metadata = some md) :
    ∃ (bs : List TopBox) (f m : TopBox) (rs : List Region) (fo mo : Nat),
      walkAll s 0 s.len cfg.cumulativeMdatBoxSize = .clean bs ∧
      bs.find? (fun b => decide (b.name = cc 'f' 't' 'y' 'p')) = some f ∧ lastMoov bs = some m ∧ moovTables s m = some rs ∧
      fo + f.payloadLen ≤ md.length ∧ (md.drop fo).take f.payloadLen = s.read f.payloadOff f.payloadLen ∧
      mo + m.payloadLen ≤ md.length ∧
      ∀ i, i < m.payloadLen → inRegions rs (m.payloadOff + i) = false → md.getD (mo + i) 0 = s.get (m.payloadOff + i) := by
  obtain ⟨bs, m, T, mo, hw, hlm, hmt, hle, ho, hfit, hlen, hsl, hent⟩ := C01R.relocated s kind cfg r md h hmd
  obtain ⟨p1, _⟩ := C01R.relocated_pointwise s m T mo md _ hle ho hfit hsl (fun x hx i hi => (hent x hx i hi).1)
  obtain ⟨bs', f, fo, hw', hf, hfl, hfe⟩ := C01R.ftyp_carried s kind cfg r md h hmd
  have : bs' = bs := by rw [hw] at hw'; cases hw'; rfl
  subst this
  refine ⟨bs', f, m, T.map (·.1), fo, mo, hw, ?_, hlm, hmt, hfl, hfe, hlen, p1⟩
  rw [cc_ftyp]; exact hf


/-- C04 as the executable specification states it, for EVERY input, configuration and cursor kind: `Spec_C04` - the
    independent walker locates ftyp and the last moov in the input and in the returned metadata; the ftyp payloads are
    identical, the moov payloads have the same length and are identical at every byte outside the chunk-offset tables
    - has no complaint about any result the model returns with metadata. -/
theorem C04_spec_holds (s : Stream) (kind : SkipKind) (cfg : Config) (r : Sanitized) (md : Bytes)
    (h : Mp4.sanitize s kind cfg = .ok r) (hmd : r.metadata = some md) :
    Spec_C04 s ⟨cfg.maxMetadataSize, cfg.cumulativeMdatBoxSize⟩ (.rewritten (Stream.ofBytes md) r.data.offset r.data.len) = none :=
  C01R.spec_C04_holds s kind cfg r md h hmd

end Carried

end MediaSan.Props.C04
