/-
  C04 — all metadata is carried over unchanged except chunk-offset values.

  Proved here: the only mutation the rewrite performs on a parsed table (`displaceCo`) keeps the width, the
  entry count, the array length, hence the serialized length and the eight bytes in front of the array
  (full-box header and count); ftyp payloads re-serialize to their bytes whatever their length (the
  `UnboundedArray` keeps an unaligned tail); the header codec round-trips (C16) so re-encoding the two
  top-level headers is the only other change.
  The whole-tree frame statement is evaluated per generated case on the real output by `Spec_C04` (byte
  comparison outside the walker's tables); its proof over the five nesting levels is future work (DESIGN.md).
-/
import MediaSan.Lemmas.Mp4Displace
namespace MediaSan.Props.C04
open MediaSan MediaSan.Mp4

/-- The table rewrite changes nothing but the entry bytes: same width, count, array length; the serialized
    box payload has the same length and the same first eight bytes. -/
theorem C04_table_frame (c c' : Co) (disp : Int) (hw : 0 < c.width)
    (h : displaceCo disp c = .ok (c', ())) :
    c'.width = c.width ∧ c'.count = c.count ∧ c'.entries.length = c.entries.length ∧
    coSer.len c' = coSer.len c ∧ (coSer.ser c').length = (coSer.ser c).length ∧
    (coSer.ser c').take 8 = (coSer.ser c).take 8 := by
  unfold displaceCo at h
  split at h
  · rename_i e he
    simp only [PureRes.ok.injEq, Prod.mk.injEq, and_true] at h
    subst h
    obtain ⟨hl, _⟩ := displaceEntries_ok c.width hw disp _ c.entries e (Nat.le_refl _) he
    refine ⟨rfl, rfl, hl, ?_, ?_, ?_⟩
    · simp [coSer, hl]
    · simp [coSer, hl]
    · simp [coSer]
  · simp at h
  · simp at h

/-- A parsed ftyp payload serializes back to exactly the bytes it was parsed from, for every length ≥ 8
    (including lengths not divisible by 4). -/
theorem C04_ftyp_identical (b : Bytes) (f : Ftyp) (h : parseFtyp b = .ok f) :
    ftypSer.ser f = b ∧ ftypSer.len f = b.length := by
  unfold parseFtyp at h
  split at h
  · simp at h
  · split at h
    · simp at h
    · rename_i h4 h8
      simp only [PureRes.ok.injEq] at h
      subst h
      have hl : ((b.drop 4).take 4).length = 4 := by simp; omega
      have e := natToBE_beToNat ((b.drop 4).take 4)
      rw [hl] at e
      constructor
      · simp only [ftypSer, e]
        have : b.drop 8 = (b.drop 4).drop 4 := by rw [List.drop_drop]
        rw [this, List.append_assoc, List.take_append_drop, List.take_append_drop]
      · simp only [ftypSer, List.length_drop]; omega

-- Non-vacuity
example : parseFtyp [0x6d,0x70,0x34,0x32, 0,0,0,1, 0x69,0x73,0x6f,0x6d, 7,7] =
    .ok ⟨[0x6d,0x70,0x34,0x32], 1, [0x69,0x73,0x6f,0x6d, 7,7]⟩ := by decide
example : (Ftyp.mk [0x6d,0x70,0x34,0x32] 1 [0x69,0x73,0x6f,0x6d, 7,7]).hasIsom = true := by decide

end MediaSan.Props.C04
