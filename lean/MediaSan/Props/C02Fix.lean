/-
  C02, the fixpoint half - kept in its own file because its proof (Lemmas/Fixpoint.lean) builds on the structure half
  of Props/C02.lean.  `./check C02` builds and audits both.
-/
import MediaSan.Lemmas.Fixpoint
namespace MediaSan.Props.C02
open MediaSan MediaSan.Mp4

/-- C02, the fixpoint half, for EVERY input, configuration with a sane limit (max_metadata_size ≤ 4·(2^32−1), ~16 GiB)
    and cursor kind: whenever the model returns metadata, the file "metadata ++ bytes of the returned media span" is
    accepted by the model with 'nothing to do' (no metadata) and the media span {offset = |metadata|, len = the original
    span length} - provided the new file still fits the format's 64-bit offsets.
    Proof (Lemmas/Fixpoint.lean): the independent walker finds in the new file the boxes of the metadata (ftyp, moov,
    optional free: Lemmas/MetaWalk.lean) followed by the media run of the input, moved (the run is a chain of walker
    boxes inside the span: Lemmas/MediaRun.lean; the walker's headers move with the bytes, also under the mdat size
    override); both top-level state machines admit that sequence; the ftyp payload is the input's; the walker finds
    the moov's tables again (frame property, Lemmas/WalkFrame.lean), so the eager validation accepts it
    (Lemmas/TreeConv.lean: what the walker calls well-formed the lazily parsing tree code accepts); hence every
    iteration of the scan loop returns (total-correctness triples, Lemmas/Tot.lean, ScanTot.lean), and since the moov
    now precedes the media the answer is 'nothing to do' with the span the bookkeeping computes (SanTot.lean). -/
theorem C02_fixpoint (s : Stream) (kind : SkipKind) (cfg : Config) (r : Sanitized) (md : Bytes)
    (h : Mp4.sanitize s kind cfg = .ok r) (hmd : r.metadata = some md)
    (hmax : cfg.maxMetadataSize ≤ 4 * Mp4.u32Max) (hlen : md.length + r.data.len < u64Lim) :
    Mp4.sanitize (Stream.ofBytes (md ++ s.read r.data.offset r.data.len)) kind cfg = .ok ⟨none, ⟨md.length, r.data.len⟩⟩ :=
  fixpoint s kind cfg r md h hmd hmax hlen

-- Non-vacuity: the hypotheses are met by the one-entry file of Props/C01 (metadata 80 bytes, span {20, 12}):
-- re-sanitizing metadata ++ media says "nothing to do" with the span {80, 12}
example : (match Mp4.sanitize (Stream.ofBytes MediaSan.Props.C02.tinyRemux) .seekable {} with
    | .ok r => (match r.metadata with
      | some md => decide (Mp4.sanitize (Stream.ofBytes (md ++ (Stream.ofBytes MediaSan.Props.C02.tinyRemux).read r.data.offset r.data.len)) .seekable {} =
          .ok ⟨none, ⟨md.length, r.data.len⟩⟩)
      | none => false)
    | _ => false) = true := by decide +kernel

end MediaSan.Props.C02
