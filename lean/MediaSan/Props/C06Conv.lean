/-
  C06 — "WebP accepted iff RIFF framing and the chunk grammar are exactly right": the CONVERSE of `C06_sound`, and with
  it the equivalence, for every input, both configurations and both kinds of cursor.

   * `C06_complete`    every stream the independent recogniser `Grammar` (Spec/WebpGrammar.lean) accepts is accepted by
                       the model of webpsan;
   * `C06_accept_iff`  accepted ⇔ Grammar.

  Proof of completeness (Lemmas/WebpTot.lean, WebpComplete.lean, WebpFrames.lean): every operation of the three-level
  chunk-reader stack RETURNS when the stream holds what it is about to read (total-correctness triples, Lemmas/Tot.lean;
  what it leaves behind is known from the partial-correctness side, Lemmas/WebpRel.lean, through `Tot.and_tri`); the
  recogniser's tokenizer yields a tiling of each region (`cchain_of_chunks`), along which a level of the stack walks
  (next header / skip the rest / more chunks?, from closed and from peeked boundaries); the fixed-size records the
  recogniser checks are the ones the codec accepts (`vp8x_parse_ok`, `anmf_parse_ok`, `alph_parse_ok`,
  `anim_parse_ok`); a lossless payload the recogniser validates is handed to the validator byte for byte; and the
  structure of the recogniser (`imageData`, `frameOk`, `optChunk`, `extendedOk`, trailing unknown chunks) is followed
  case by case: still images, every frame of an animation with its inner chunk list at the third level, the optional
  ICCP / EXIF / XMP chunks, the trailing loop, the end of the RIFF chunk and of the file.
-/
import MediaSan.Props.C06
import MediaSan.Lemmas.WebpFrames
namespace MediaSan.Props.C06
open MediaSan MediaSan.Webp

/-- Completeness: whatever the independent recogniser accepts, the model accepts. -/
theorem C06_complete (s : Stream) (kind : SkipKind) (cfg : Webp.Config)
    (h : Spec.WebpGrammar.Grammar s cfg.allowUnknownChunks = true) : Webp.sanitize s kind cfg = .ok () :=
  sanitize_of_grammar s kind cfg h

/-- C06 as an equivalence. -/
theorem C06_accept_iff (s : Stream) (kind : SkipKind) (cfg : Webp.Config) :
    Webp.sanitize s kind cfg = .ok () ↔ Spec.WebpGrammar.Grammar s cfg.allowUnknownChunks = true :=
  ⟨C06_sound s kind cfg, C06_complete s kind cfg⟩

/-- ... hence the verdict does not depend on the kind of cursor (seek-based or strict) -/
theorem C06_kind_irrelevant (s : Stream) (cfg : Webp.Config) :
    Webp.sanitize s .seekable cfg = .ok () ↔ Webp.sanitize s .strict cfg = .ok () := by
  rw [C06_accept_iff, C06_accept_iff]

-- Non-vacuity: the documentation's example file satisfies the hypothesis of `C06_complete`
example : Spec.WebpGrammar.Grammar (Stream.ofBytes docExample) ({} : Webp.Config).allowUnknownChunks = true := by decide

end MediaSan.Props.C06
