/-
  C02 — returned metadata is self-contained; re-sanitizing is a no-op.

  Proved here: the re-derived ftyp/moov headers always carry an explicit size (never until-EOF) that declares
  exactly header + payload; the padding box declares exactly the pad size with the 32-bit form; the assembled
  metadata is body ++ pad header ++ zeros and has length metadata_len + pad.
  `C02_structure` (for every input): whenever the model returns metadata, the INDEPENDENT walker and structure check
  of Spec/Mp4Rules.lean (`Spec_C02_structure`, the very function the check evaluates on the real output) finds
  exactly [ftyp, moov] or [ftyp, moov, free], every box with an explicit size, the sizes tiling the metadata, the
  padding zero.  (Lemmas/MetaWalk.lean: the encoded header is what the walker reads back; the kept ftyp / moov
  serialise to `encoded_len` bytes - an invariant of the scan; displacement keeps lengths.)
  `C02_fixpoint` (for every input; Props/C02Fix.lean, because its proof uses this file): re-sanitizing
  metadata ++ media span gives "nothing to do" with the span {|metadata|, len}.  The harness also really concatenates
  and re-runs the real code on every rewritten output.
-/
import MediaSan.Lemmas.Mp4Header
import MediaSan.Mp4.Sanitize
import MediaSan.Generated.Mp4Consts
import MediaSan.Lemmas.MetaWalk
import MediaSan.Spec.Mp4Rules
namespace MediaSan.Props.C02
open MediaSan MediaSan.Mp4

theorem FTYP_wf : FTYP.WF := by simp [FTYP, BoxType.WF, uuidName]
theorem MOOV_wf : MOOV.WF := by simp [MOOV, BoxType.WF, uuidName]
theorem FREE_wf : FREE.WF := by simp [FREE, BoxType.WF, uuidName]

/-- `Mp4Box::with_data` (used for the returned ftyp and moov) never produces an until-EOF size, declares exactly
    header + payload, and the header is well-formed (so it decodes back to itself, C16). -/
theorem C02_headers_explicit (ty : BoxType) (hty : ty.WF) (n : Nat) (h : BoxHeader)
    (hh : withDataSize ty n = .ok h) :
    h.sz ≠ .untilEof ∧ h.dataSize = .ok (some n) ∧ h.WF ∧ h.ty = ty := by
  have := withDataSize_spec ty hty n
  rw [hh] at this
  obtain ⟨h1, h2, h3, h4⟩ := this
  refine ⟨?_, h3, h2, h1⟩
  intro hs; rw [hs] at h4; exact h4

/-- The padding box: for every pad the sanitizer uses (8 … 2^32−9) the `free` header is the 32-bit form and
    declares exactly `pad` bytes. -/
theorem C02_pad_header (pad : Nat) (h1 : 8 ≤ pad) (h2 : pad ≤ 4294967287) :
    withU32DataSize FREE (pad - padHeaderSize) = ⟨FREE, .size pad⟩ := by
  have e : padHeaderSize = 8 := rfl
  simp only [withU32DataSize, BoxHeader.encodedLen, FREE, e]
  have : pad - 8 + (8 + 0 + 0) ≤ u32Max := by unfold u32Max; omega
  rw [if_pos this]
  congr 2; omega

/-- Shape and length of the assembled metadata: body, then (if padded) an 8-byte `free` header declaring
    `pad`, then zeros up to metadata_len + pad. -/
theorem C02_assemble (ftyp : Box Ftyp) (moov : Box L5) (ml pad : Nat)
    (hbody : (ftyp.ser ftypSer ++ moov.ser ser5).length = ml)
    (hpad : pad = 0 ∨ (8 ≤ pad ∧ pad ≤ 4294967287)) :
    (assemble ftyp moov ml pad).length = ml + pad ∧
    (pad ≠ 0 → assemble ftyp moov ml pad =
      (ftyp.ser ftypSer ++ moov.ser ser5) ++ encodeHeader ⟨FREE, .size pad⟩ ++ List.replicate (pad - 8) 0) := by
  rcases hpad with h0 | ⟨h1, h2⟩
  · subst h0
    simp [assemble, hbody]
  · have hne : pad ≠ 0 := by omega
    have hh := C02_pad_header pad h1 h2
    have hw : (BoxHeader.mk FREE (.size pad)).WF := ⟨FREE_wf, by omega, by unfold u32Max; omega⟩
    have hl := encodeHeader_length _ hw
    simp only [BoxHeader.encodedLen, FREE] at hl
    simp only [assemble, hne, ne_eq, not_false_eq_true, if_true, hh]
    have e : ml + pad - ((ftyp.ser ftypSer ++ moov.ser ser5) ++ encodeHeader ⟨FREE, .size pad⟩).length = pad - 8 := by
      rw [List.length_append, hbody]
      simp only [FREE] at hl ⊢
      rw [hl]; omega
    constructor
    · rw [e, List.length_append, List.length_append, hbody, List.length_replicate]
      simp only [FREE] at hl ⊢
      rw [hl]; omega
    · intro _; rw [e]

-- Non-vacuity
example : withDataSize MOOV 100 = .ok ⟨MOOV, .size 108⟩ := by decide
example : withDataSize MOOV 4294967288 = .ok ⟨MOOV, .ext 4294967304⟩ := by decide
example : withU32DataSize FREE (13 - padHeaderSize) = ⟨FREE, .size 13⟩ := by decide


/-! ### the structure of the returned metadata, as the independent walker reads it -/
section Structure
open MediaSan.Spec.Mp4Walk MediaSan.Spec.Mp4Rules

/-- the boxes the assembled metadata consists of -/
def mdBoxes (fh mh : BoxHeader) (fp mp : Bytes) (pad : Nat) : List (BoxHeader × Bytes) :=
  [(fh, fp), (mh, mp)] ++ (if pad = 0 then [] else [(⟨FREE, .size pad⟩, List.replicate (pad - 8) 0)])

theorem box_ser_eq {C} (K : Ser C) (h : BoxHeader) (d : Data C) (hd : h.dataSize = .ok (some (d.len K))) :
    Box.ser K ⟨h, d⟩ = encodeHeader h ++ d.ser K ∧ Box.len K ⟨h, d⟩ = h.encodedLen + d.len K := by
  have := calcHeader_same K ⟨h, d⟩ (d.len K) hd rfl
  simp only [Box.ser, Box.len, this]
  exact ⟨trivial, trivial⟩

theorem assemble_boxes (fh mh : BoxHeader) (fd : Data Ftyp) (md : Data L5) (ml pad : Nat)
    (hf : withDataSize FTYP (fd.len ftypSer) = .ok fh) (hm : withDataSize MOOV (md.len ser5) = .ok mh)
    (hfs : (fd.ser ftypSer).length = fd.len ftypSer) (hms : (md.ser ser5).length = md.len ser5)
    (hml : ml = Box.len ftypSer ⟨fh, fd⟩ + Box.len ser5 ⟨mh, md⟩)
    (hpad : pad = 0 ∨ (8 ≤ pad ∧ pad ≤ 4294967287)) :
    assemble ⟨fh, fd⟩ ⟨mh, md⟩ ml pad = serBoxes (mdBoxes fh mh (fd.ser ftypSer) (md.ser ser5) pad) ∧
    (∀ hp ∈ mdBoxes fh mh (fd.ser ftypSer) (md.ser ser5) pad, hp.1.WF ∧ hp.1.dataSize = .ok (some hp.2.length)) ∧
    fh.ty = FTYP ∧ mh.ty = MOOV := by
  obtain ⟨f1, f2, f3, f4⟩ := C02_headers_explicit FTYP FTYP_wf _ fh hf
  obtain ⟨m1, m2, m3, m4⟩ := C02_headers_explicit MOOV MOOV_wf _ mh hm
  obtain ⟨fs, fl⟩ := box_ser_eq ftypSer fh fd f2
  obtain ⟨ms, mlen⟩ := box_ser_eq ser5 mh md m2
  have hbody : (Box.ser ftypSer ⟨fh, fd⟩ ++ Box.ser ser5 ⟨mh, md⟩).length = ml := by
    rw [hml, fs, ms, fl, mlen]
    simp only [List.length_append, encodeHeader_length _ f3, encodeHeader_length _ m3, hfs, hms]
  obtain ⟨_, hshape⟩ := C02_assemble ⟨fh, fd⟩ ⟨mh, md⟩ ml pad hbody hpad
  refine ⟨?_, ?_, f4, m4⟩
  · by_cases hp0 : pad = 0
    · subst hp0
      simp [assemble, mdBoxes, serBoxes, fs, ms]
    · rw [hshape hp0, fs, ms]
      simp [mdBoxes, hp0, serBoxes, List.append_assoc]
  · intro hp hmem
    simp only [mdBoxes, List.mem_append, List.mem_cons, List.not_mem_nil, or_false] at hmem
    rcases hmem with (h | h) | h
    · subst h; exact ⟨f3, by rw [hfs]; exact f2⟩
    · subst h; exact ⟨m3, by rw [hms]; exact m2⟩
    · split at h
      · cases h
      · rename_i hp0
        simp only [List.mem_cons, List.not_mem_nil, or_false] at h
        subst h
        have hb : 8 ≤ pad ∧ pad ≤ 4294967287 := by rcases hpad with h | h; exact absurd h hp0; exact h
        refine ⟨⟨FREE_wf, by omega, by unfold Mp4.u32Max; omega⟩, ?_⟩
        simp only [BoxHeader.dataSize, BoxSize.toNat?, BoxHeader.encodedLen, FREE, List.length_replicate]
        have : 8 + 0 + 0 ≤ pad := by omega
        simp only [this, if_true]


theorem getD_append_replicate (A : Bytes) (n k i : Nat) (hk : k = A.length) :
    (A ++ List.replicate n (0 : UInt8)).getD (k + i) 0 = 0 := by
  subst hk
  rw [List.getD_eq_getElem?_getD, List.getElem?_append_right (by omega)]
  simp only [Nat.add_sub_cancel_left, List.getElem?_replicate]
  split <;> rfl

theorem name4_of_ty (h : BoxHeader) (b : Bytes) (ht : h.ty = .fourcc b) : name4 h = b := by
  unfold name4; rw [ht]

/-- the independent structure check accepts every such box sequence -/
theorem structure_of_boxes (fh mh : BoxHeader) (fp mp : Bytes) (pad : Nat)
    (hall : ∀ hp ∈ mdBoxes fh mh fp mp pad, hp.1.WF ∧ hp.1.dataSize = .ok (some hp.2.length))
    (hf : fh.ty = FTYP) (hm : mh.ty = MOOV) (off len : Nat) :
    Spec_C02_structure (.rewritten (Stream.ofBytes (serBoxes (mdBoxes fh mh fp mp pad))) off len) = none := by
  have hw := walk_ser _ hall
  have hlen : (Stream.ofBytes (serBoxes (mdBoxes fh mh fp mp pad))).len = (serBoxes (mdBoxes fh mh fp mp pad)).length := rfl
  have nf : name4 fh = cc 'f' 't' 'y' 'p' := by rw [name4_of_ty fh _ hf]; decide
  have nm : name4 mh = cc 'm' 'o' 'o' 'v' := by rw [name4_of_ty mh _ hm]; decide
  unfold Spec_C02_structure mdTop
  simp only [hlen, hw]
  by_cases hp0 : pad = 0
  · simp [mdBoxes, hp0, descr, nf, nm]
  · have nfr : name4 ⟨FREE, .size pad⟩ = cc 'f' 'r' 'e' 'e' := by rw [name4_of_ty _ _ rfl]; decide
    have hfw := (hall (fh, fp) (by simp [mdBoxes])).1
    have hmw := (hall (mh, mp) (by simp [mdBoxes])).1
    simp only [mdBoxes, hp0, if_false, List.cons_append, List.nil_append, descr, List.all_cons, List.all_nil,
      Bool.and_self, Bool.not_true, List.map_cons, List.map_nil, nf, nm, nfr, and_self, if_true,
      List.getLast?_cons_cons, List.getLast?_singleton]
    have hall0 : (List.range (min (TopBox.payloadLen ⟨0 + fh.encodedLen + fp.length + mh.encodedLen + mp.length,
          (BoxHeader.mk FREE (.size pad)).encodedLen, cc 'f' 'r' 'e' 'e',
          0 + fh.encodedLen + fp.length + mh.encodedLen + mp.length + (BoxHeader.mk FREE (.size pad)).encodedLen +
            (List.replicate (pad - 8) (0 : UInt8)).length, true⟩) 4096)).all
        (fun i => (Stream.ofBytes (serBoxes [(fh, fp), (mh, mp), (⟨FREE, .size pad⟩, List.replicate (pad - 8) 0)])).get
          (TopBox.payloadOff ⟨0 + fh.encodedLen + fp.length + mh.encodedLen + mp.length,
            (BoxHeader.mk FREE (.size pad)).encodedLen, cc 'f' 'r' 'e' 'e',
            0 + fh.encodedLen + fp.length + mh.encodedLen + mp.length + (BoxHeader.mk FREE (.size pad)).encodedLen +
              (List.replicate (pad - 8) (0 : UInt8)).length, true⟩ + i) = 0) = true := by
      rw [List.all_eq_true]
      intro i _
      simp only [TopBox.payloadOff, Stream.ofBytes]
      have e : serBoxes [(fh, fp), (mh, mp), (⟨FREE, .size pad⟩, List.replicate (pad - 8) 0)] =
          (encodeHeader fh ++ fp ++ encodeHeader mh ++ mp ++ encodeHeader ⟨FREE, .size pad⟩) ++ List.replicate (pad - 8) 0 := by
        simp [serBoxes, List.append_assoc]
      rw [e]
      apply decide_eq_true
      apply getD_append_replicate
      have hfr : (BoxHeader.mk FREE (.size pad)).WF := (hall (⟨FREE, .size pad⟩, List.replicate (pad - 8) 0) (by simp [mdBoxes, hp0])).1
      simp only [List.length_append, encodeHeader_length _ hfw, encodeHeader_length _ hmw, encodeHeader_length _ hfr]
      omega
    simp only [hall0, if_true]
    simp


theorem planRewrite_pad (ml off pad : Nat) (d : Option Int) (h : planRewrite ml off = .ok (pad, d)) :
    pad = 0 ∨ (8 ≤ pad ∧ pad ≤ 4294967287) := by
  unfold planRewrite at h
  have e1 : padHeaderSize = 8 := rfl
  have e2 : maxPadSize = 4294967287 := by decide
  split at h
  · dsimp only at h
    split at h
    · simp only [Except.ok.injEq, Prod.mk.injEq] at h; exact Or.inl h.1.symm
    · split at h
      · rename_i hc
        simp only [Except.ok.injEq, Prod.mk.injEq] at h
        rw [e1, e2] at hc
        right; rw [← h.1]; exact ⟨hc.1, hc.2.1⟩
      · split at h
        · simp only [Except.ok.injEq, Prod.mk.injEq] at h; exact Or.inl h.1.symm
        · cases h
  · dsimp only at h
    split at h
    · simp only [Except.ok.injEq, Prod.mk.injEq] at h; exact Or.inl h.1.symm
    · cases h

/-- what `finish` returns as metadata is such a box sequence -/
theorem finish_boxes (st : ScanState) (r : Sanitized) (md : Bytes) (hs : SerOk st) (h : finish st = .ok r)
    (hmd : r.metadata = some md) :
    ∃ fh mh fp mp pad, md = serBoxes (mdBoxes fh mh fp mp pad) ∧
      (∀ hp ∈ mdBoxes fh mh fp mp pad, hp.1.WF ∧ hp.1.dataSize = .ok (some hp.2.length)) ∧
      fh.ty = FTYP ∧ mh.ty = MOOV := by
  unfold finish at h
  cases hf : st.ftyp with
  | none => rw [hf] at h; cases h
  | some ftyp =>
    rw [hf] at h; dsimp only at h
    cases hm : st.moov with
    | none => rw [hm] at h; cases h
    | some moov =>
      rw [hm] at h
      cases hmo : st.moovOffset with
      | none => rw [hmo] at h; cases h
      | some mo =>
        rw [hmo] at h; dsimp only at h
        cases hd : st.data with
        | none => rw [hd] at h; cases h
        | some data =>
          rw [hd] at h; dsimp only at h
          have hfs := hs.1 ftyp hf
          have hms := hs.2 moov hm
          split at h
          · simp only [PureRes.ok.injEq] at h; rw [← h] at hmd; cases hmd
          · cases hwf : withDataSize FTYP (ftyp.data.len ftypSer) with
            | error e => rw [hwf] at h; cases h
            | ok fh =>
              cases hwm : withDataSize MOOV (moov.data.len ser5) with
              | error e => rw [hwf, hwm] at h; cases h
              | ok mh =>
                rw [hwf, hwm] at h
                dsimp only at h
                split at h
                · cases h
                · cases hpl : planRewrite (Box.len ftypSer ⟨fh, ftyp.data⟩ + Box.len ser5 ⟨mh, moov.data⟩) data.offset with
                  | error e => rw [hpl] at h; cases h
                  | ok pd =>
                    obtain ⟨pad, disp⟩ := pd
                    rw [hpl] at h
                    have hpad := planRewrite_pad _ _ _ _ hpl
                    cases disp with
                    | none =>
                      dsimp only at h
                      simp only [PureRes.ok.injEq] at h
                      rw [← h] at hmd
                      simp only [Option.some.injEq] at hmd
                      obtain ⟨h1, h2, h3, h4⟩ := assemble_boxes fh mh ftyp.data moov.data _ pad hwf hwm hfs hms rfl hpad
                      exact ⟨fh, mh, _, _, pad, by rw [← hmd, h1], h2, h3, h4⟩
                    | some dv =>
                      dsimp only at h
                      cases hdm : displaceMoov dv moov.data with
                      | err e => rw [hdm] at h; cases h
                      | panic m => rw [hdm] at h; cases h
                      | ok d =>
                        rw [hdm] at h
                        simp only [PureRes.ok.injEq] at h
                        rw [← h] at hmd
                        simp only [Option.some.injEq] at hmd
                        obtain ⟨hl1, hl2⟩ := displaceMoov_len dv moov.data d hdm
                        have hwm' : withDataSize MOOV (d.len ser5) = .ok mh := by rw [hl2]; exact hwm
                        have hms' : (d.ser ser5).length = d.len ser5 := by rw [hl1, hl2]; exact hms
                        have hml : Box.len ftypSer ⟨fh, ftyp.data⟩ + Box.len ser5 ⟨mh, moov.data⟩ =
                            Box.len ftypSer ⟨fh, ftyp.data⟩ + Box.len ser5 ⟨mh, d⟩ := by
                          simp only [Box.len, Box.calcHeader, hl2]
                        obtain ⟨h1, h2, h3, h4⟩ := assemble_boxes fh mh ftyp.data d _ pad hwf hwm' hfs hms' hml hpad
                        exact ⟨fh, mh, _, _, pad, by rw [← hmd, h1], h2, h3, h4⟩

/-- C02, structure part, for every input: whenever the model returns metadata, the independent walker finds in it
    exactly `ftyp, moov` or `ftyp, moov, free`, all with explicit sizes that tile the metadata, and a zero padding -/
theorem C02_structure (s : Stream) (kind : SkipKind) (cfg : Config) (r : Sanitized) (md : Bytes)
    (h : Mp4.sanitize s kind cfg = .ok r) (hmd : r.metadata = some md) :
    Spec_C02_structure (.rewritten (Stream.ofBytes md) r.data.offset r.data.len) = none := by
  obtain ⟨st, hs, hfin⟩ := sanitize_ser s kind cfg r h
  obtain ⟨fh, mh, fp, mp, pad, e, hall, hf, hm⟩ := finish_boxes st r md hs hfin hmd
  rw [e]
  exact structure_of_boxes fh mh fp mp pad hall hf hm _ _


-- Non-vacuity: media before the movie box, so metadata is returned (and C02_structure says something)
def tinyRemux : Bytes :=
  [0,0,0,20, 0x66,0x74,0x79,0x70, 0x69,0x73,0x6f,0x6d, 0,0,0,0, 0x69,0x73,0x6f,0x6d,
   0,0,0,12, 0x6d,0x64,0x61,0x74, 1,2,3,4,
   0,0,0,56, 0x6d,0x6f,0x6f,0x76,
   0,0,0,48, 0x74,0x72,0x61,0x6b,
   0,0,0,40, 0x6d,0x64,0x69,0x61,
   0,0,0,32, 0x6d,0x69,0x6e,0x66,
   0,0,0,24, 0x73,0x74,0x62,0x6c,
   0,0,0,16, 0x73,0x74,0x63,0x6f, 0,0,0,0, 0,0,0,0]
example : (match Mp4.sanitize (Stream.ofBytes tinyRemux) .seekable {} with
    | .ok r => r.metadata.isSome && decide (r.data = ⟨20, 12⟩) | _ => false) = true := by decide +kernel

end Structure

/-- the padding constants the model uses are the code's (extracted from `PAD_HEADER_SIZE` / `MAX_PAD_SIZE` in
    mp4san/src/lib.rs on every run).  No feasible input separates a wrong upper bound - the padding box would be
    4 GiB long - so this obligation is the tie for it. -/
theorem C02_pad_constants :
    MediaSan.Generated.mp4PadHeaderSize = MediaSan.Mp4.padHeaderSize ∧
    MediaSan.Generated.mp4MaxPadSize = MediaSan.Mp4.maxPadSize := by decide

end MediaSan.Props.C02
