/-
  C02 — returned metadata is self-contained; re-sanitizing is a no-op.

  Proved here: the re-derived ftyp/moov headers always carry an explicit size (never until-EOF) that declares
  exactly header + payload; the padding box declares exactly the pad size with the 32-bit form; the assembled
  metadata is body ++ pad header ++ zeros and has length metadata_len + pad.
  The fixpoint half (re-sanitizing md ++ media gives "nothing to do" with span {|md|, len}) is established per
  generated case on the real code (the harness really concatenates and re-runs) and compared with the model;
  its proof (`tokenize_append`) is future work — stated in DESIGN.md.
-/
import MediaSan.Lemmas.Mp4Header
import MediaSan.Mp4.Sanitize
namespace MediaSan.Props.C02
open MediaSan MediaSan.Mp4

theorem FTYP_wf : FTYP.WF := by simp [FTYP, BoxType.WF, uuidName]
theorem MOOV_wf : MOOV.WF := by simp [MOOV, BoxType.WF, uuidName]
theorem FREE_wf : FREE.WF := by simp [FREE, BoxType.WF, uuidName]

/-- `Mp4Box::with_data` (used for the returned ftyp and moov) never produces an until-EOF size, declares exactly
    header + payload, and the header is well-formed (so it decodes back to itself, C16). -/
theorem C02_headers_explicit (ty : BoxType) (hty : ty.WF) (n : Nat) (h : BoxHeader)
    (hh : withDataSize ty n = .ok h) :
    h.sz ≠ .untilEof ∧ h.dataSize = .ok (some n) ∧ h.WF ∧ h.ty = ty := by
  have := withDataSize_spec ty hty n
  rw [hh] at this
  obtain ⟨h1, h2, h3, h4⟩ := this
  refine ⟨?_, h3, h2, h1⟩
  intro hs; rw [hs] at h4; exact h4

/-- The padding box: for every pad the sanitizer uses (8 … 2^32−9) the `free` header is the 32-bit form and
    declares exactly `pad` bytes. -/
theorem C02_pad_header (pad : Nat) (h1 : 8 ≤ pad) (h2 : pad ≤ 4294967287) :
    withU32DataSize FREE (pad - padHeaderSize) = ⟨FREE, .size pad⟩ := by
  have e : padHeaderSize = 8 := rfl
  simp only [withU32DataSize, BoxHeader.encodedLen, FREE, e]
  have : pad - 8 + (8 + 0 + 0) ≤ u32Max := by unfold u32Max; omega
  rw [if_pos this]
  congr 2; omega

/-- Shape and length of the assembled metadata: body, then (if padded) an 8-byte `free` header declaring
    `pad`, then zeros up to metadata_len + pad. -/
theorem C02_assemble (ftyp : Box Ftyp) (moov : Box L5) (ml pad : Nat)
    (hbody : (ftyp.ser ftypSer ++ moov.ser ser5).length = ml)
    (hpad : pad = 0 ∨ (8 ≤ pad ∧ pad ≤ 4294967287)) :
    (assemble ftyp moov ml pad).length = ml + pad ∧
    (pad ≠ 0 → assemble ftyp moov ml pad =
      (ftyp.ser ftypSer ++ moov.ser ser5) ++ encodeHeader ⟨FREE, .size pad⟩ ++ List.replicate (pad - 8) 0) := by
  rcases hpad with h0 | ⟨h1, h2⟩
  · subst h0
    simp [assemble, hbody]
  · have hne : pad ≠ 0 := by omega
    have hh := C02_pad_header pad h1 h2
    have hw : (BoxHeader.mk FREE (.size pad)).WF := ⟨FREE_wf, by omega, by unfold u32Max; omega⟩
    have hl := encodeHeader_length _ hw
    simp only [BoxHeader.encodedLen, FREE] at hl
    simp only [assemble, hne, ne_eq, not_false_eq_true, if_true, hh]
    have e : ml + pad - ((ftyp.ser ftypSer ++ moov.ser ser5) ++ encodeHeader ⟨FREE, .size pad⟩).length = pad - 8 := by
      rw [List.length_append, hbody]
      simp only [FREE] at hl ⊢
      rw [hl]; omega
    constructor
    · rw [e, List.length_append, List.length_append, hbody, List.length_replicate]
      simp only [FREE] at hl ⊢
      rw [hl]; omega
    · intro _; rw [e]

-- Non-vacuity
example : withDataSize MOOV 100 = .ok ⟨MOOV, .size 108⟩ := by decide
example : withDataSize MOOV 4294967288 = .ok ⟨MOOV, .ext 4294967304⟩ := by decide
example : withU32DataSize FREE (13 - padHeaderSize) = ⟨FREE, .size 13⟩ := by decide

end MediaSan.Props.C02
