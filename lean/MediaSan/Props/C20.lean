/-
  C20 — Checked signed addition is exact.

  The function under proof is `MediaSan.Generated.checkedAddSigned`, regenerated from
  `common/src/util.rs` (`impl_checked_add_signed!`) by extract/extract.py on every run.
  Stated for every width `n` at once; the six Rust instances are the rows of
  `checkedAddSignedInstances` (also extracted).
-/
import MediaSan.Generated.CheckedAddSigned
namespace MediaSan.Props.C20
open MediaSan.Generated MediaSan.Rust
set_option linter.unusedSimpArgs false

/-- Full statement: the result is `some x` with `x = l + r` (mathematical sum, `r` signed) when
    that sum is representable in `n` bits, and `none` exactly otherwise. -/
theorem C20_exact {n : Nat} (l r : BitVec n) :
    match checkedAddSigned l r with
    | some x => (x.toNat : Int) = (l.toNat : Int) + r.toInt
    | none => (l.toNat : Int) + r.toInt < 0 ∨ (2:Int) ^ n ≤ (l.toNat : Int) + r.toInt := by
  unfold checkedAddSigned overflowingAdd asSelf sLtLit
  have hl := l.isLt
  have hr := r.isLt
  have hp : ((2 ^ n : Nat) : Int) = (2:Int) ^ n := by simp
  have h1 : ¬ ((r.toNat : Int) < 0) := by omega
  have h2 : ((r.toNat : Int) - ((2^n : Nat) : Int) < 0) := by omega
  simp only [BitVec.toInt]
  by_cases hc : 2 ^ n ≤ l.toNat + r.toNat <;> by_cases hs : 2 * r.toNat < 2 ^ n <;>
    simp only [hc, hs, h1, h2, decide_true, decide_false, if_true, if_false, Bool.xor_false, Bool.xor_true,
      Bool.not_true, Bool.not_false, Bool.false_eq_true, Bool.true_xor, Bool.false_xor, BitVec.toNat_add]
  · right; rw [← hp]; omega
  · rw [Nat.mod_eq_sub_mod hc, Nat.mod_eq_of_lt (by omega)]; omega
  · rw [Nat.mod_eq_of_lt (by omega)]; omega
  · left; omega

/-- `some` is returned exactly when the sum is representable, and then it is the sum. -/
theorem C20_some_iff {n : Nat} (l r : BitVec n) (x : BitVec n) :
    checkedAddSigned l r = some x ↔
      (0 ≤ (l.toNat : Int) + r.toInt ∧ (l.toNat : Int) + r.toInt < (2:Int) ^ n ∧
        (x.toNat : Int) = (l.toNat : Int) + r.toInt) := by
  have h := C20_exact l r
  have hx := x.isLt
  have hp : ((2 ^ n : Nat) : Int) = (2:Int) ^ n := by simp
  constructor
  · intro he
    rw [he] at h
    simp only at h
    refine ⟨by omega, ?_, h⟩
    rw [← h, ← hp]; omega
  · rintro ⟨h0, h1, h2⟩
    cases hc : checkedAddSigned l r with
    | none => rw [hc] at h; simp only at h; omega
    | some y =>
      rw [hc] at h; simp only at h
      congr 1
      apply BitVec.eq_of_toNat_eq
      omega

/-- `none` is returned exactly when the sum is not representable (never a wrapped/saturated value). -/
theorem C20_none_iff {n : Nat} (l r : BitVec n) :
    checkedAddSigned l r = none ↔
      ((l.toNat : Int) + r.toInt < 0 ∨ (2:Int) ^ n ≤ (l.toNat : Int) + r.toInt) := by
  have h := C20_exact l r
  constructor
  · intro he; rw [he] at h; exact h
  · intro hn
    cases hc : checkedAddSigned l r with
    | none => rfl
    | some y =>
      have := (C20_some_iff l r y).1 hc
      omega

/-- Every macro instance pairs an unsigned type with the signed type of the same width, so the
    generic statement applies to it (`rhs as Self` is a same-width reinterpretation). -/
theorem C20_instances :
    ∀ row ∈ checkedAddSignedInstances,
      row.2.1 = row.2.2.2.2.1 ∧ row.2.2.1 = true ∧ row.2.2.2.2.2 = true := by
  decide

/-- All six widths the property names are present among the instances. -/
theorem C20_instances_cover :
    ∀ w ∈ [8, 16, 32, 64, 128], ∃ row ∈ checkedAddSignedInstances, row.2.1 = w := by
  decide

-- Non-vacuity / sanity: concrete evaluations at three widths, both outcomes.
example : checkedAddSigned (200 : BitVec 8) (100 : BitVec 8) = none := by decide          -- 200 + 100 ≥ 256
example : checkedAddSigned (200 : BitVec 8) (0x9c : BitVec 8) = some 100 := by decide     -- 200 + (-100)
example : checkedAddSigned (5 : BitVec 8) (0xf0 : BitVec 8) = none := by decide           -- 5 + (-16) < 0
example : checkedAddSigned (0xffffffff : BitVec 32) (0xffffffff : BitVec 32) = some 0xfffffffe := by decide
example : checkedAddSigned (0 : BitVec 64) (0x8000000000000000 : BitVec 64) = none := by decide

end MediaSan.Props.C20
