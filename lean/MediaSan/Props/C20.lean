/-
  C20 — Checked signed addition is exact.

  The function under proof is `MediaSan.Generated.checkedAddSigned`, regenerated from
  `common/src/util.rs` (`impl_checked_add_signed!`) by extract/extract.py on every run.
  Stated for every width `n` at once; the six Rust instances are the rows of
  `checkedAddSignedInstances` (also extracted).

  The proof of `C20_eq_spec` does not follow the shape of the extracted body: it splits the operands into the
  regions on which every test such a body can make is constant (sign of `rhs`, carry of `self + rhs`, `rhs = 0`,
  `rhs = MIN`), lets `omega` decide every `if` / `decide` / `match` there, and compares what is left with the
  mathematical checked sum.  A rewrite of the macro body that means the same (wrapping_add + carry test + match,
  checked_add / checked_sub on unsigned_abs, an early return, renamed locals, ...) is proved by the same script; one
  that does not is not.
-/
import MediaSan.Generated.CheckedAddSigned
namespace MediaSan.Props.C20
open MediaSan.Generated MediaSan.Rust
set_option linter.unusedSimpArgs false

/-- mathematical checked addition of an unsigned `l` and a signed (two's complement) `r` of width `n` -/
def spec {n : Nat} (l r : BitVec n) : Option (BitVec n) :=
  if 0 ≤ (l.toNat : Int) + r.toInt ∧ (l.toNat : Int) + r.toInt < ((2 ^ n : Nat) : Int)
  then some (BitVec.ofNat n ((l.toNat : Int) + r.toInt).toNat) else none

/-- the extracted macro body IS mathematical checked addition, for every width and all operands -/
theorem C20_eq_spec {n : Nat} (l r : BitVec n) : checkedAddSigned l r = spec l r := by
  have hl := l.isLt; have hr := r.isLt
  unfold checkedAddSigned spec
  (try unfold overflowingAdd); (try unfold overflowingSub); (try unfold wrappingAdd); (try unfold wrappingSub)
  (try unfold checkedAdd); (try unfold checkedSub); (try unfold saturatingAdd); (try unfold saturatingSub)
  (try unfold unsignedAbs); (try unfold wrappingNeg); (try unfold saturatingNeg); (try unfold wrappingAbs)
  (try unfold isNegative); (try unfold isPositive); (try unfold uMax); (try unfold asSelf)
  (try unfold sLtLit); (try unfold sLeLit); (try unfold sGtLit); (try unfold sGeLit); (try unfold sEqLit); (try unfold sNeLit)
  (try unfold uLtLit); (try unfold uLeLit); (try unfold uGtLit); (try unfold uGeLit); (try unfold uEqLit); (try unfold uNeLit)
  (try unfold uLt); (try unfold uLe); (try unfold uGt); (try unfold uGe); (try unfold uEq); (try unfold uNe)
  (try unfold sLt); (try unfold sLe); (try unfold sGt); (try unfold sGe); (try unfold sEq); (try unfold sNe)
  simp only [toInt']
  by_cases hs : 2 * r.toNat < 2 ^ n <;> by_cases hc : 2 ^ n ≤ l.toNat + r.toNat <;> by_cases hz : r.toNat = 0 <;>
    by_cases hm : 2 * r.toNat = 2 ^ n
  all_goals (
    (try simp (disch := omega) only [if_pos, if_neg, decide_eq_true, decide_eq_false, toNat_add', toNat_sub', toNat_neg',
      toNat_allOnes', toNat_zero', toNat_ofNat_lt,
      Bool.xor_true, Bool.xor_false, Bool.true_xor, Bool.false_xor, Bool.not_true, Bool.not_false, Bool.false_eq_true,
      Bool.true_and, Bool.and_true, Bool.false_and, Bool.and_false, Bool.true_or, Bool.or_true, Bool.false_or, Bool.or_false,
      bne_self_eq_false, beq_self_eq_true, Bool.true_bne, Bool.false_bne, Bool.bne_true, Bool.bne_false,
      and_self, and_true, true_and, not_true_eq_false, not_false_eq_true, if_true, if_false]) <;>
    first
    | (exfalso; omega)
    | rfl
    | (congr 1; apply BitVec.eq_of_toNat_eq
       (try simp (disch := omega) only [toNat_add', toNat_sub', toNat_neg', toNat_allOnes', toNat_zero', toNat_ofNat_lt,
         if_pos, if_neg]) <;> omega))

/-- Full statement: the result is `some x` with `x = l + r` (mathematical sum, `r` signed) when
    that sum is representable in `n` bits, and `none` exactly otherwise. -/
theorem C20_exact {n : Nat} (l r : BitVec n) :
    match checkedAddSigned l r with
    | some x => (x.toNat : Int) = (l.toNat : Int) + r.toInt
    | none => (l.toNat : Int) + r.toInt < 0 ∨ (2:Int) ^ n ≤ (l.toNat : Int) + r.toInt := by
  rw [C20_eq_spec]
  have hp : ((2 ^ n : Nat) : Int) = (2:Int) ^ n := by simp
  have hl := l.isLt
  unfold spec
  by_cases h : 0 ≤ (l.toNat : Int) + r.toInt ∧ (l.toNat : Int) + r.toInt < ((2 ^ n : Nat) : Int)
  · rw [if_pos h]
    show ((BitVec.ofNat n ((l.toNat : Int) + r.toInt).toNat).toNat : Int) = _
    rw [toNat_ofNat_lt _ (by omega)]
    omega
  · rw [if_neg h]
    show _ ∨ _
    rw [← hp]
    omega

/-- `some` is returned exactly when the sum is representable, and then it is the sum. -/
theorem C20_some_iff {n : Nat} (l r : BitVec n) (x : BitVec n) :
    checkedAddSigned l r = some x ↔
      (0 ≤ (l.toNat : Int) + r.toInt ∧ (l.toNat : Int) + r.toInt < (2:Int) ^ n ∧
        (x.toNat : Int) = (l.toNat : Int) + r.toInt) := by
  have h := C20_exact l r
  have hx := x.isLt
  have hp : ((2 ^ n : Nat) : Int) = (2:Int) ^ n := by simp
  constructor
  · intro he
    rw [he] at h
    simp only at h
    refine ⟨by omega, ?_, h⟩
    rw [← h, ← hp]; omega
  · rintro ⟨h0, h1, h2⟩
    cases hc : checkedAddSigned l r with
    | none => rw [hc] at h; simp only at h; omega
    | some y =>
      rw [hc] at h; simp only at h
      congr 1
      apply BitVec.eq_of_toNat_eq
      omega

/-- `none` is returned exactly when the sum is not representable (never a wrapped/saturated value). -/
theorem C20_none_iff {n : Nat} (l r : BitVec n) :
    checkedAddSigned l r = none ↔
      ((l.toNat : Int) + r.toInt < 0 ∨ (2:Int) ^ n ≤ (l.toNat : Int) + r.toInt) := by
  have h := C20_exact l r
  constructor
  · intro he; rw [he] at h; exact h
  · intro hn
    cases hc : checkedAddSigned l r with
    | none => rfl
    | some y =>
      have := (C20_some_iff l r y).1 hc
      omega

/-- Every macro instance pairs an unsigned type with the signed type of the same width, so the
    generic statement applies to it (`rhs as Self` is a same-width reinterpretation). -/
theorem C20_instances :
    ∀ row ∈ checkedAddSignedInstances,
      row.2.1 = row.2.2.2.2.1 ∧ row.2.2.1 = true ∧ row.2.2.2.2.2 = true := by
  decide

/-- All six widths the property names are present among the instances. -/
theorem C20_instances_cover :
    ∀ w ∈ [8, 16, 32, 64, 128], ∃ row ∈ checkedAddSignedInstances, row.2.1 = w := by
  decide

-- Non-vacuity / sanity: concrete evaluations at three widths, both outcomes.
example : checkedAddSigned (200 : BitVec 8) (100 : BitVec 8) = none := by decide          -- 200 + 100 ≥ 256
example : checkedAddSigned (200 : BitVec 8) (0x9c : BitVec 8) = some 100 := by decide     -- 200 + (-100)
example : checkedAddSigned (5 : BitVec 8) (0xf0 : BitVec 8) = none := by decide           -- 5 + (-16) < 0
example : checkedAddSigned (0xffffffff : BitVec 32) (0xffffffff : BitVec 32) = some 0xfffffffe := by decide
example : checkedAddSigned (0 : BitVec 64) (0x8000000000000000 : BitVec 64) = none := by decide

end MediaSan.Props.C20
