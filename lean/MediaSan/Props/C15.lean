/-
  C15 — Skip/AsyncSkip adapters behave as a forward-only cursor over the same bytes.
-/
import MediaSan.Lemmas.Adapters
import MediaSan.Lemmas.ChunkData
namespace MediaSan.Props.C15
open MediaSan

/-- operations of a history -/
inductive Op where
  | read (n : Nat) | skip (n : Nat) | pos | len | readToEnd (n : Nat) | isEof
  deriving Repr

/-- what a history observes -/
inductive Obs where
  | bytes (b : Bytes) | unit | nat (n : Nat) | bool (b : Bool)
  deriving DecidableEq, Repr

/-- a history as an I/O program that returns everything it observed -/
def hist : List Op → List Obs → Prog Unit (List Obs)
  | [], acc => .done acc.reverse
  | .read n :: rest, acc => .readExact n none fun b => hist rest (.bytes b :: acc)
  | .skip n :: rest, acc => .skip n none fun _ => hist rest (.unit :: acc)
  | .pos :: rest, acc => .position fun p => hist rest (.nat p :: acc)
  | .len :: rest, acc => .streamLen fun p => hist rest (.nat p :: acc)
  | .readToEnd n :: rest, acc => .readUpTo n fun b => hist rest (.bytes b :: acc)
  | .isEof :: rest, acc => .isEof fun b => hist rest (.bool b :: acc)

/-- C15 for the buffered adapters: for every stream shorter than 2^62 bytes, every kind of underlying `skip`
    (seek-based or strict), every capacity ≥ 1, every read chunking and EVERY history of read / skip /
    stream_position / stream_len (/ fill_buf / read_to_end) calls — of any length, including those that run into
    the end or overflow — `BufReader(cap)` with the Skip impl of common/src/skip.rs returns exactly the bytes,
    positions, lengths and errors of the ideal cursor over the same data. -/
theorem C15_refines (s : Stream) (kind : SkipKind) (cap chunk : Nat) (hcap : 1 ≤ cap)
    (hlen : s.len < 4611686018427387904) (ops : List Op) :
    (hist ops []).run (bufOps cap (idealRaw s kind chunk)) ⟨0, []⟩ = (hist ops []).run (idealOps s kind) 0 :=
  run_sim (bufOps_sim s kind cap chunk hcap hlen) _ _ _ (bufRel_init s kind)

/-- the simulation itself (per operation), with the abstraction: ideal position = inner position − buffered,
    buffer = the stream's bytes at the ideal position -/
theorem C15_simulation (s : Stream) (kind : SkipKind) (cap chunk : Nat) (hcap : 1 ≤ cap)
    (hlen : s.len < 4611686018427387904) :
    Sim (bufOps cap (idealRaw s kind chunk)) (idealOps s kind) (BufRel s kind) :=
  bufOps_sim s kind cap chunk hcap hlen

/-- `SeekSkipAdapter::stream_len` does not move the cursor, wherever it is (also past the end) -/
theorem C15_stream_len_restores (len pos : Nat) (hl : len < u64Lim) (hp : pos < u64Lim) :
    seekStreamLen len pos = .ok (len, pos) := by
  simp only [seekStreamLen, cursorSeek, Nat.add_zero, hp, hl, if_true]
  by_cases h : pos = len
  · simp [h]
  · simp [h]

/-- `SeekSkipAdapter::skip` is the ideal seek-based skip: exact target, InvalidInput / InvalidData on u64 overflow,
    for every amount including those above i64::MAX -/
theorem C15_seek_skip (s : Stream) (pos n : Nat) (hp : pos < u64Lim) :
    seekSkip s.len pos n = (idealOps s .seekable).skip pos n := by
  simp only [seekSkip, idealOps, cursorSeek, Nat.add_zero, hp, if_true]
  by_cases hle : n ≤ i64Max
  · rw [if_pos hle]
    by_cases h0 : n = 0
    · simp [h0]
    · rw [if_neg h0, if_neg h0]
      by_cases hlt : pos + n < u64Lim
      · rw [if_pos hlt, if_pos hlt]
      · rw [if_neg hlt, if_neg hlt, if_pos hle]
  · rw [if_neg hle]
    have h0 : ¬ n = 0 := by
      intro h; subst h; exact hle (Nat.zero_le _)
    rw [if_neg h0]
    by_cases hlt : pos + n < u64Lim
    · simp [hlt]
    · simp [hlt, hle]

/-- C15 for webpsan's `ChunkDataReader` (webpsan/src/reader.rs), at nesting depth `k` = 1 (a chunk of the file) or 2 (a
    chunk inside an animation frame): for every stream, either kind of underlying skip, every state of the reader
    stack in which `rem` bytes of body remain below the data reader, and EVERY history of read / skip /
    stream_position / stream_len calls that stays inside those `rem` bytes (which lie inside the stream), the model
    of the data reader (`rawRead` / `rawSkip`: what `Webp.sanitize` itself is built from) observes exactly the bytes,
    positions and length of the ideal cursor over the same data, and ends `cost ops` bytes further.  Zero-length
    reads and skips succeed also when the body is exhausted; beyond the body nothing is handed out
    (`C15_chunk_data_beyond`). -/
theorem C15_chunk_data_reader (s : Stream) (kind : SkipKind) (hl : s.len < u64Lim) (k : Nat) (hk : k = 1 ∨ k = 2)
    (r : Webp.RS) (rem pos : Nat) (hb : r.bound k = some rem) (hfit : pos + rem ≤ s.len)
    (ops : List Webp.DOp) (hin : Webp.cost ops ≤ rem) :
    (Webp.histD k ops r []).run (idealOps s kind) pos = .ok (Webp.expected s ops pos []) := by
  rw [run_eq_runF, Webp.histD_run s kind k hk hl ops r rem pos [] hb hin hfit]
  rfl

theorem C15_chunk_data_beyond (s : Stream) (kind : SkipKind) (k : Nat) (r : Webp.RS) (rem n pos : Nat)
    (hb : r.bound k = some rem) (h : rem < n) :
    (Webp.rawSkip r k n).run (idealOps s kind) pos = .parseErr .truncatedChunk ∧
    (Webp.rawRead r k n).run (idealOps s kind) pos = .parseErr .truncatedChunk := by
  rw [run_eq_runF, run_eq_runF, Webp.rawSkip_beyond s kind r k rem n hb h, Webp.rawRead_beyond s kind r k rem n hb h]
  exact ⟨rfl, rfl⟩

-- Non-vacuity: a 5-byte body at offset 8 of a 16-byte stream, read and skipped to exhaustion, then zero-length calls
example : (Webp.histD 1 [.read 2, .pos, .skip 3, .skip 0, .read 0, .len, .pos] { l0 := .body [65,66,67,68] 5 5 } []).run
    (idealOps (Stream.ofBytes [0,0,0,0,0,0,0,0, 1,2,3,4,5, 0, 9,9]) .seekable) 8 =
    .ok [.bytes [1,2], .nat 10, .unit, .unit, .bytes [], .nat 16, .nat 13] := by decide

-- Non-vacuity: a 3-byte buffer over an 8-byte stream with 2-byte reads underneath
example : (hist [.read 2, .skip 1, .pos, .read 4, .len, .pos, .skip 1, .isEof] []).run
    (bufOps 3 (idealRaw (Stream.ofBytes [1,2,3,4,5,6,7,8]) .seekable 2)) ⟨0, []⟩ =
    .ok [.bytes [1,2], .unit, .nat 3, .bytes [4,5,6,7], .nat 8, .nat 7, .unit, .bool true] := by decide

end MediaSan.Props.C15
