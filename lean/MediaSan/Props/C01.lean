/-
  C01 — relocated chunk offsets still address the same media bytes.

  Proved here (about the model in MediaSan/Mp4):
   * the arithmetic of the rewrite decision (`planRewrite`): whenever a rewrite is produced, the shift applied to
     the chunk offsets is exactly |metadata| − span.offset, it fits i32, and padding is only used when it makes
     the shift zero;
   * exactness of the table rewrite (`displaceEntries`): every entry becomes entry + shift, the table keeps its
     length, and a refusal happens exactly when some entry would leave its field;
   * the per-entry decision is the extracted `checked_add_signed` (C20) at 32 and 64 bits.
   * `C01_relocated` (for every input): the traversal reaches exactly the tables the independent walker finds in the
     last moov of the INPUT, and every entry of them, read from the returned metadata at the same place relative to
     the moov payload, is the input entry shifted by |metadata| − span.offset, inside its field.
  Tied to the code by the correspondence (remux generator) and by `Spec_C01` evaluated on the real output.
   * `C01_spec_holds` (for every input): the executable specification `Spec_C01` itself - the independent walker run on
     the input AND on the returned metadata: same tables (number, order, width, count, place), every entry shifted by
     |metadata| − span.offset, shift within i32 - has no complaint about any result the model returns
     (Lemmas/WalkFrame.lean: the walker reads nothing of a table's entries, so it finds the same tables in the
     metadata, moved; Lemmas/SpecHolds.lean).
-/
import MediaSan.Lemmas.Mp4Displace
import MediaSan.Lemmas.RelocateFinal
import MediaSan.Lemmas.SpecHolds
import MediaSan.Generated.Mp4Consts
namespace MediaSan.Props.C01
open MediaSan MediaSan.Mp4 MediaSan.Generated

/-- When a rewrite is planned, (metadata length incl. padding) − media offset = the displacement applied
    (0 when none), padding is 0 or a whole `free` box of 8 … 2^32−9 bytes, and a displacement fits i32 and
    is never combined with padding. -/
theorem C01_plan_shift (ml off pad : Nat) (disp : Option Int)
    (h : planRewrite ml off = .ok (pad, disp)) :
    ((ml + pad : Nat) : Int) - (off : Int) = disp.getD 0 ∧
    (pad = 0 ∨ (8 ≤ pad ∧ pad ≤ 4294967287 ∧ pad ≤ ml)) ∧
    (∀ d, disp = some d → pad = 0 ∧ d ≠ 0 ∧ -2147483648 ≤ d ∧ d ≤ 2147483647) := by
  unfold planRewrite at h
  dsimp only at h
  have e1 : padHeaderSize = 8 := rfl
  have e2 : maxPadSize = 4294967287 := rfl
  split at h
  · rename_i hle
    split at h
    · rename_i h0
      simp only [Except.ok.injEq, Prod.mk.injEq] at h
      obtain ⟨rfl, rfl⟩ := h
      refine ⟨by simp; omega, Or.inl rfl, by intro d hd; simp at hd⟩
    · rename_i h0
      split at h
      · rename_i hpad
        simp only [Except.ok.injEq, Prod.mk.injEq] at h
        obtain ⟨rfl, rfl⟩ := h
        refine ⟨by simp; omega, Or.inr ⟨by omega, by omega, by omega⟩, by intro d hd; simp at hd⟩
      · split at h
        · rename_i hi32
          simp only [Except.ok.injEq, Prod.mk.injEq] at h
          obtain ⟨rfl, rfl⟩ := h
          refine ⟨by simp; omega, Or.inl rfl, ?_⟩
          intro d hd
          simp only [Option.some.injEq] at hd
          subst hd
          refine ⟨rfl, by omega, by omega, by omega⟩
        · simp at h
  · rename_i hgt
    split at h
    · rename_i hi32
      simp only [Except.ok.injEq, Prod.mk.injEq] at h
      obtain ⟨rfl, rfl⟩ := h
      refine ⟨by simp; omega, Or.inl rfl, ?_⟩
      intro d hd
      simp only [Option.some.injEq] at hd
      subst hd
      refine ⟨rfl, by omega, by omega, by omega⟩
    · simp at h

/-- The rewrite is refused (UnsupportedBoxLayout) exactly when no `free` box fits the gap (or it would be larger than
    the metadata itself) and the shift does not fit a signed 32-bit value. -/
theorem C01_plan_refused (ml off : Nat) :
    (∃ e, planRewrite ml off = .error e) ↔
      ((ml ≤ off ∧ 2147483648 < off - ml ∧ (4294967287 < off - ml ∨ ml < off - ml)) ∨
       (off < ml ∧ 2147483647 < ml - off)) := by
  unfold planRewrite
  dsimp only
  have e1 : padHeaderSize = 8 := rfl
  have e2 : maxPadSize = 4294967287 := rfl
  constructor
  · rintro ⟨e, h⟩
    split at h
    · split at h
      · simp at h
      · split at h
        · simp at h
        · split at h
          · simp at h
          · left; omega
    · split at h
      · simp at h
      · right; omega
  · rintro (⟨h1, h2, h3⟩ | ⟨h1, h2⟩)
    · refine ⟨.unsupportedBoxLayout, ?_⟩
      rw [if_pos h1, if_neg (by omega), if_neg (by omega), if_neg (by omega)]
    · refine ⟨.unsupportedBoxLayout, ?_⟩
      rw [if_neg (by omega), if_neg (by omega)]

/-- Exactness of the table rewrite for every width, count and displacement (from `displaceEntries_ok`). -/
theorem C01_entries_shifted (c c' : Co) (disp : Int) (hw : 0 < c.width)
    (h : displaceCo disp c = .ok (c', ())) :
    c'.width = c.width ∧ c'.count = c.count ∧ c'.entries.length = c.entries.length ∧
    ∀ i, c.width * (i + 1) ≤ c.entries.length →
      (entryAt c.width c'.entries i : Int) = (entryAt c.width c.entries i : Int) + disp ∧
      0 ≤ (entryAt c.width c.entries i : Int) + disp ∧
      (entryAt c.width c.entries i : Int) + disp < (256 : Int) ^ c.width := by
  unfold displaceCo at h
  split at h
  · rename_i e he
    simp only [PureRes.ok.injEq, Prod.mk.injEq, and_true] at h
    subst h
    obtain ⟨hl, hes⟩ := displaceEntries_ok c.width hw disp _ c.entries e (Nat.le_refl _) he
    exact ⟨rfl, rfl, hl, hes⟩
  · simp at h
  · simp at h

/-- A refused table rewrite is InvalidInput and is caused by an entry that would not fit its field. -/
theorem C01_entries_refused (c : Co) (disp : Int) (hw : 0 < c.width) (e : PErr)
    (h : displaceCo disp c = .err e) :
    e = .invalidInput ∧ ∃ i, c.width * (i + 1) ≤ c.entries.length ∧
      ((entryAt c.width c.entries i : Int) + disp < 0 ∨
        (256 : Int) ^ c.width ≤ (entryAt c.width c.entries i : Int) + disp) := by
  unfold displaceCo at h
  split at h
  · simp at h
  · rename_i e' he
    simp only [PureRes.err.injEq] at h
    subst h
    exact displaceEntries_err c.width hw disp _ c.entries e' he
  · simp at h

/-- The table rewrite never panics. -/
theorem C01_entries_no_panic (c : Co) (disp : Int) (s : String) : displaceCo disp c ≠ .panic s := by
  unfold displaceCo
  split
  · simp
  · simp
  · rename_i s' hs; exact absurd hs (displaceEntries_no_panic _ _ _ _ _)

/-- C20 call sites: the model's per-entry range test is the extracted `checked_add_signed` at the width of
    the field (u32 + i32 for stco; u64 + i64 for co64, the i32 displacement sign-extended). -/
theorem C01_callsite (n : Nat) (v : BitVec n) (d : BitVec n) :
    (checkedAddSigned v d).isSome = decide (0 ≤ (v.toNat : Int) + d.toInt ∧ (v.toNat : Int) + d.toInt < (2:Int) ^ n) := by
  cases hc : checkedAddSigned v d with
  | none =>
    have := (C20.C20_none_iff v d).1 hc
    simp only [Option.isSome_none]
    symm; rw [decide_eq_false_iff_not]; omega
  | some x =>
    have := (C20.C20_some_iff v d x).1 hc
    simp only [Option.isSome_some]
    symm; rw [decide_eq_true_iff]; omega

-- Non-vacuity: concrete evaluations of the plan and of a table rewrite.
example : planRewrite 100 95 = .ok (0, some 5) := by decide                 -- forward move
example : planRewrite 100 105 = .ok (0, some (-5)) := by decide             -- gap 5: no free box fits
example : planRewrite 100 108 = .ok (8, none) := by decide                  -- gap 8: padded
example : planRewrite 100 100 = .ok (0, none) := by decide
example : planRewrite 100 201 = .ok (0, some (-101)) := by decide           -- gap 101 larger than the metadata (100): displaced, not padded
example : planRewrite 100 200 = .ok (100, none) := by decide
example : planRewrite 100 (100 + 4294967288) = .error .unsupportedBoxLayout := by decide
example : displaceCo (-5) ⟨4, 2, [0,0,0,5, 0,0,1,0]⟩ = .ok (⟨4, 2, [0,0,0,0, 0,0,0,251]⟩, ()) := by decide
example : displaceCo (-6) ⟨4, 2, [0,0,0,5, 0,0,1,0]⟩ = .err .invalidInput := by decide
example : displaceCo 1 ⟨4, 1, [255,255,255,255]⟩ = .err .invalidInput := by decide

section Relocated
open MediaSan.Spec.Mp4Walk MediaSan.Spec.Mp4Rules

/-- C01 for EVERY input, configuration and cursor kind, on the returned bytes: whenever the model returns metadata, the
    independent walker (Spec/Mp4Walk.lean) finds the input to be a clean top-level box sequence `bs` with a last moov `m`
    whose chunk-offset tables are `rs` (`moovTables`: one per trak, stco or co64); the moov payload sits in the returned
    metadata at offset `mo`, and EVERY entry of EVERY one of those tables, read from the metadata at the same place
    relative to the payload, equals the input entry plus (|metadata| − span.offset) - exactly, inside its field (no wrap,
    no truncation).  (Lemmas/Splice.lean: what a table mutation does to the serialised tree, against the walker's
    geometry; Fusion.lean: laziness of the tree does not matter; KeepRel.lean: the kept moov is the walker's last moov;
    Mp4Displace.lean: the entry arithmetic.) -/
theorem C01_relocated (s : Stream) (kind : SkipKind) (cfg : Config) (r : Sanitized) (md : Bytes)
    (h : Mp4.sanitize s kind cfg = .ok r) (hmd : r.metadata = some md) :
    ∃ (bs : List TopBox) (m : TopBox) (rs : List Region) (mo : Nat),
      walkAll s 0 s.len cfg.cumulativeMdatBoxSize = .clean bs ∧ lastMoov bs = some m ∧ moovTables s m = some rs ∧
      mo + m.payloadLen ≤ md.length ∧
      ∀ t ∈ rs, ∀ i, i < t.count →
        (beToNat ((md.drop (mo + (t.off - m.payloadOff) + t.width * i)).take t.width) : Int) =
          (entryAt s t i : Int) + ((md.length : Int) - (r.data.offset : Int)) ∧
        0 ≤ (entryAt s t i : Int) + ((md.length : Int) - (r.data.offset : Int)) ∧
        (entryAt s t i : Int) + ((md.length : Int) - (r.data.offset : Int)) < (256 : Int) ^ t.width := by
  obtain ⟨bs, m, T, mo, hw, hlm, hmt, hle, ho, hfit, hlen, hsl, hent⟩ := C01R.relocated s kind cfg r md h hmd
  obtain ⟨_, p2⟩ := C01R.relocated_pointwise s m T mo md _ hle ho hfit hsl (fun x hx i hi => (hent x hx i hi).1)
  refine ⟨bs, m, T.map (·.1), mo, hw, hlm, hmt, hlen, ?_⟩
  intro t ht i hi
  obtain ⟨x, hx, rfl⟩ := List.mem_map.mp ht
  exact ⟨p2 x hx i hi, (hent x hx i hi).2.1, (hent x hx i hi).2.2⟩


/-- C01 as the executable specification states it, for EVERY input, configuration and cursor kind: `Spec_C01` (Spec/
    Mp4Rules.lean - the function the check evaluates on the real output; the independent walker run on the input and
    on the returned metadata) has no complaint about any result the model returns with metadata: the walker finds the
    same chunk-offset tables in the metadata as in the input's last moov (number, order, width, count, place relative
    to the payload), every entry is the input entry shifted by |metadata| − span.offset, and the shift fits i32. -/
theorem C01_spec_holds (s : Stream) (kind : SkipKind) (cfg : Config) (r : Sanitized) (md : Bytes)
    (h : Mp4.sanitize s kind cfg = .ok r) (hmd : r.metadata = some md) :
    Spec_C01 s ⟨cfg.maxMetadataSize, cfg.cumulativeMdatBoxSize⟩ (.rewritten (Stream.ofBytes md) r.data.offset r.data.len) = none :=
  C01R.spec_C01_holds s kind cfg r md h hmd

-- Non-vacuity: media before the movie box: metadata of 76 bytes is returned for a span at 20, the shift is 56
example : (match Mp4.sanitize (Stream.ofBytes MediaSan.Props.C02.tinyRemux) .seekable {} with
    | .ok r => r.metadata.map (fun md => ((md.length : Int) - (r.data.offset : Int), (md.drop 68).take 8)) | _ => none) =
    some (56, [0, 0, 0, 0, 0, 0, 0, 0]) := by decide +kernel


-- Non-vacuity with an entry: one stco entry 28 (inside the mdat payload at 28..32); the metadata is 80 bytes, the span
-- starts at 20, so the entry reads 28 + 60 = 88 in the returned metadata
def oneEntryRemux : Bytes :=
  [0,0,0,20, 0x66,0x74,0x79,0x70, 0x69,0x73,0x6f,0x6d, 0,0,0,0, 0x69,0x73,0x6f,0x6d,
   0,0,0,12, 0x6d,0x64,0x61,0x74, 1,2,3,4,
   0,0,0,60, 0x6d,0x6f,0x6f,0x76,
   0,0,0,52, 0x74,0x72,0x61,0x6b,
   0,0,0,44, 0x6d,0x64,0x69,0x61,
   0,0,0,36, 0x6d,0x69,0x6e,0x66,
   0,0,0,28, 0x73,0x74,0x62,0x6c,
   0,0,0,20, 0x73,0x74,0x63,0x6f, 0,0,0,0, 0,0,0,1, 0,0,0,28]
example : (match Mp4.sanitize (Stream.ofBytes oneEntryRemux) .seekable {} with
    | .ok r => r.metadata.map (fun md => ((md.length : Int) - (r.data.offset : Int), (md.drop 76).take 4)) | _ => none) =
    some (60, [0, 0, 0, 88]) := by decide +kernel

end Relocated

/-- the padding constants the model uses are the code's (extracted from `PAD_HEADER_SIZE` / `MAX_PAD_SIZE` in
    mp4san/src/lib.rs on every run).  No feasible input separates a wrong upper bound - the padding box would be
    4 GiB long - so this obligation is the tie for it. -/
theorem C01_pad_constants :
    MediaSan.Generated.mp4PadHeaderSize = MediaSan.Mp4.padHeaderSize ∧
    MediaSan.Generated.mp4MaxPadSize = MediaSan.Mp4.maxPadSize := by decide

end MediaSan.Props.C01
