/-
  C05 — a file is accepted iff it meets the documented structural rules.

  Proved here (decision logic of the model, stated outright):
   * a chunk-offset table is accepted iff it is a version-0/flags-0 full box whose entry count exactly fills
     the box (and the table is below 4 GiB) — with the error kind of each violation;
   * after the scan: missing ftyp/moov/mdat is MissingRequiredBox; "nothing to do" is returned iff the (last)
     moov starts before the first mdat; otherwise a rewrite is attempted;
   * an ftyp payload shorter than 8 bytes is TruncatedBox.
   * `C05_accept_top_rules` (soundness of the top-level rules, for EVERY input, configuration and cursor kind): a
     returned result means that the INDEPENDENT walker finds a clean sequence of complete top-level boxes in which only
     free/skip precede the single ftyp, the ftyp payload has 8..1024 bytes and lists the isom brand, every box is
     ftyp/moov/mdat/free/skip/meta/meco, at least one moov (payload within max_metadata_size) and one mdat exist and
     every mdat lies in the one media run; and "no metadata" is returned exactly when the last moov starts before the
     first mdat.  Proved with the relational program logic of Lemmas/Tri.lean (Lemmas/ScanRel.lean, TopRel.lean).
   * `C05_accept_rules` (soundness in full): every accepted input satisfies `Rules` of the independent specification,
     including the moov-tree clause — each moov's children are a clean box sequence with at least one trak, each trak
     has exactly one mdia > minf > stbl chain with exactly one version-0 stco xor co64 whose count fills its box, below
     4 GiB (Lemmas/TreeRel.lean relates the model's lazily parsed tree to the walker region by region).
  The converse direction (every file meeting the rules is accepted unless a rewrite overflows), the overflow-refusal
  clause, the equivalence `C05_accept_iff` and `C05_spec_holds` are in Props/C05Conv.lean (they build on this file).
  `Spec_C05` is also evaluated on the real code for every generated case (exhaustive top-level layouts up to length 4/5
  over a 9-letter alphabet, header pathologies, every moov-tree rule broken in turn, all truncation points of selected
  files).
-/
import MediaSan.Mp4.Sanitize
import MediaSan.Generated.Mp4Consts
import MediaSan.Lemmas.TopRel
import MediaSan.Lemmas.RulesAll
namespace MediaSan.Props.C05
open MediaSan MediaSan.Mp4

/-- stco/co64 acceptance, with every rejection reason (payload `b`, entry width `w`, payload below 4 GiB). -/
theorem take4_split (b : Bytes) : b.take 4 = b.take 1 ++ (b.drop 1).take 3 := by
  have : (4 : Nat) = 1 + 3 := rfl
  rw [this, List.take_add]

theorem take4_zero_iff (b : Bytes) (h4 : 4 ≤ b.length) :
    b.take 4 = [0, 0, 0, 0] ↔ (b.take 1 = [0] ∧ (b.drop 1).take 3 = [0, 0, 0]) := by
  rw [take4_split]
  have l1 : (b.take 1).length = 1 := by simp; omega
  constructor
  · intro h
    have h' : b.take 1 ++ (b.drop 1).take 3 = [0] ++ [0, 0, 0] := h
    exact List.append_inj h' (by simp [l1])
  · rintro ⟨h1, h2⟩; rw [h1, h2]; rfl

theorem C05_table_iff (w : Nat) (b : Bytes) (hb : b.length < 4294967296) :
    (∃ c, parseCo w b = .ok c) ↔
      (8 ≤ b.length ∧ b.take 4 = [0, 0, 0, 0] ∧ w * beToNat ((b.drop 4).take 4) ≤ u32Max ∧
        b.length = 8 + w * beToNat ((b.drop 4).take 4)) := by
  unfold parseCo
  by_cases h4 : b.length < 4
  · rw [if_pos h4]
    constructor
    · rintro ⟨c, h⟩; simp at h
    · rintro ⟨h8, _⟩; omega
  · rw [if_neg h4]
    have hz := take4_zero_iff b (by omega)
    by_cases hv : b.take 1 = [0]
    · rw [if_neg (by simp [hv])]
      by_cases hf : (b.drop 1).take 3 = [0, 0, 0]
      · rw [if_neg (by intro hc; exact hc hf)]
        have hz' : b.take 4 = [0, 0, 0, 0] := hz.2 ⟨hv, hf⟩
        by_cases h8 : b.length < 8
        · rw [if_pos h8]
          constructor
          · rintro ⟨c, h⟩; simp at h
          · rintro ⟨h8', _⟩; omega
        · rw [if_neg h8]
          simp only
          by_cases hov : w * beToNat ((b.drop 4).take 4) > u32Max
          · rw [if_pos hov]
            constructor
            · rintro ⟨c, h⟩; simp at h
            · rintro ⟨_, _, h, _⟩; omega
          · rw [if_neg hov]
            have hmod : (b.length - 8) % 4294967296 = b.length - 8 := Nat.mod_eq_of_lt (by omega)
            rw [hmod]
            by_cases htr : b.length - 8 < w * beToNat ((b.drop 4).take 4)
            · rw [if_pos htr]
              constructor
              · rintro ⟨c, h⟩; simp at h
              · rintro ⟨_, _, _, h⟩; omega
            · rw [if_neg htr]
              by_cases hex : b.length - 8 ≠ w * beToNat ((b.drop 4).take 4)
              · rw [if_pos hex]
                constructor
                · rintro ⟨c, h⟩; simp at h
                · rintro ⟨_, _, _, h⟩; omega
              · rw [if_neg hex]
                constructor
                · intro _; exact ⟨by omega, hz', by omega, by omega⟩
                · intro _; exact ⟨_, rfl⟩
      · rw [if_pos (by exact hf)]
        constructor
        · rintro ⟨c, h⟩; simp at h
        · rintro ⟨_, h, _⟩; exact absurd (hz.1 h).2 hf
    · rw [if_pos (by simp [hv])]
      constructor
      · rintro ⟨c, h⟩; simp at h
      · rintro ⟨_, h, _⟩; exact absurd (hz.1 h).1 hv

/-- the error kind of each table violation -/
theorem C05_table_errors (w : Nat) (b : Bytes) :
    (b.length < 4 → parseCo w b = .err .truncatedBox) ∧
    (4 ≤ b.length → b.take 4 ≠ [0, 0, 0, 0] → parseCo w b = .err .invalidInput) := by
  constructor
  · intro h; simp [parseCo, h]
  · intro h4 hz
    have hzz := take4_zero_iff b h4
    unfold parseCo
    rw [if_neg (by omega)]
    by_cases hv : b.take 1 = [0]
    · rw [if_neg (by simp [hv])]
      have : (b.drop 1).take 3 ≠ [0, 0, 0] := fun hf => hz (hzz.2 ⟨hv, hf⟩)
      rw [if_pos this]
    · rw [if_pos hv]

/-- After the scan: which boxes are required, and when "nothing to do" is reported. -/
theorem C05_finish_required (st : ScanState) :
    (st.ftyp = none → finish st = .err .missingRequiredBox) ∧
    (st.ftyp.isSome → (st.moov = none ∨ st.moovOffset = none) → finish st = .err .missingRequiredBox) ∧
    (st.ftyp.isSome → st.moov.isSome → st.moovOffset.isSome → st.data = none →
      finish st = .err .missingRequiredBox) := by
  refine ⟨?_, ?_, ?_⟩
  · intro h; simp [finish, h]
  · intro hf hm
    cases hfy : st.ftyp with
    | none => simp [hfy] at hf
    | some f =>
      rcases hm with hm | hm
      · simp [finish, hfy, hm]
      · cases hmv : st.moov <;> simp [finish, hfy, hm, hmv]
  · intro hf hm hmo hd
    cases hfy : st.ftyp with
    | none => simp [hfy] at hf
    | some f =>
      cases hmv : st.moov with
      | none => simp [hmv] at hm
      | some m =>
        cases hmo' : st.moovOffset with
        | none => simp [hmo'] at hmo
        | some o => simp [finish, hfy, hmv, hmo', hd]

/-- "No metadata" is reported exactly when the (last) moov starts before the first mdat. -/
theorem C05_noop_iff (st : ScanState) (f : Box Ftyp) (m : Box L5) (mo : Nat) (d : Span)
    (hf : st.ftyp = some f) (hm : st.moov = some m) (hmo : st.moovOffset = some mo) (hd : st.data = some d) :
    (mo < d.offset → finish st = .ok ⟨none, d⟩) ∧
    (¬ mo < d.offset → ∀ r, finish st = .ok r → r.metadata.isSome ∧ r.data = d) := by
  constructor
  · intro h; simp [finish, hf, hm, hmo, hd, h]
  · intro h r hr
    simp only [finish, hf, hm, hmo, hd, h, if_false] at hr
    split at hr
    · simp at hr
    · simp at hr
    · split at hr
      · simp at hr
      · split at hr
        · simp at hr
        · simp only [PureRes.ok.injEq] at hr; subst hr; exact ⟨rfl, rfl⟩
        · split at hr
          · simp only [PureRes.ok.injEq] at hr; subst hr; exact ⟨rfl, rfl⟩
          · simp at hr
          · simp at hr

/-- An ftyp payload shorter than 8 bytes is TruncatedBox; one of ≥ 8 bytes always parses. -/
theorem C05_ftyp_len (b : Bytes) :
    (b.length < 8 → parseFtyp b = .err .truncatedBox) ∧ (8 ≤ b.length → ∃ f, parseFtyp b = .ok f) := by
  constructor
  · intro h
    unfold parseFtyp
    by_cases h4 : b.length < 4
    · rw [if_pos h4]
    · rw [if_neg h4, if_pos h]
  · intro h
    unfold parseFtyp
    rw [if_neg (by omega), if_neg (by omega)]
    exact ⟨_, rfl⟩

/-- Soundness of the documented top-level rules: nothing outside them is accepted — for every stream, configuration
    and kind of cursor.  `RulesTop` is `Rules` of Spec/Mp4Rules.lean as propositions; the walker's verdict `clean` is the
    "sequence of complete top-level boxes". -/
theorem C05_accept_top_rules (s : Stream) (kind : SkipKind) (cfg : Config) (r : Sanitized)
    (h : Mp4.sanitize s kind cfg = .ok r) :
    ∃ bs, Spec.Mp4Walk.walkAll s 0 s.len cfg.cumulativeMdatBoxSize = .clean bs ∧
      RulesTop s ⟨cfg.maxMetadataSize, cfg.cumulativeMdatBoxSize⟩ bs ∧
      (∃ m d, Spec.Mp4Rules.lastMoov bs = some m ∧ Spec.Mp4Rules.firstMdat bs = some d ∧
        (r.metadata = none ↔ m.offset < d.offset)) := by
  have hs := sanitizeP_rel2 s kind cfg (fuelFor s)
  unfold Tri at hs
  simp only [Mp4.sanitize, Mp4.sanitizeWith, run_eq_runF] at h
  cases hr : (sanitizeP cfg (fuelFor s)).runF (idealOps s kind) 0 with
  | ok x =>
    obtain ⟨a, p⟩ := x
    rw [hr] at hs h
    cases a with
    | none => simp [Outcome.fst] at h
    | some r' =>
      simp only [Outcome.fst, Outcome.ok.injEq] at h
      subst h
      exact hs r' rfl
  | parseErr e => rw [hr] at h; simp [Outcome.fst] at h
  | ioErr k => rw [hr] at h; simp [Outcome.fst] at h
  | panic site => rw [hr] at h; simp [Outcome.fst] at h
  | outOfFuel => rw [hr] at h; simp [Outcome.fst] at h

/-- "no metadata" in the Spec's words: `NoMetadata` holds of the input exactly when the model returns none -/
theorem C05_nometadata_iff (s : Stream) (kind : SkipKind) (cfg : Config) (r : Sanitized)
    (h : Mp4.sanitize s kind cfg = .ok r) :
    (r.metadata = none ↔ Spec.Mp4Rules.NoMetadata s ⟨cfg.maxMetadataSize, cfg.cumulativeMdatBoxSize⟩ = true) := by
  obtain ⟨bs, hw, _, m, d, hm, hd, hiff⟩ := C05_accept_top_rules s kind cfg r h
  unfold Spec.Mp4Rules.NoMetadata Spec.Mp4Rules.top
  simp only [hw, Spec.Mp4Walk.Walk.boxes, hm, hd, decide_eq_true_eq]
  exact hiff

/-- Soundness of the documented rules, in full: whatever the model accepts meets `Rules` of the independent
    specification (Spec/Mp4Rules.lean) — for every stream, configuration and kind of cursor. -/
theorem C05_accept_rules (s : Stream) (kind : SkipKind) (cfg : Config) (r : Sanitized)
    (h : Mp4.sanitize s kind cfg = .ok r) :
    Spec.Mp4Rules.Rules s ⟨cfg.maxMetadataSize, cfg.cumulativeMdatBoxSize⟩ = true := by
  obtain ⟨bs, hw, hr, _⟩ := C05_accept_top_rules s kind cfg r h
  exact rules_of_top s _ bs (by unfold Spec.Mp4Rules.top; exact hw) hr

/-- `Spec_C05` has no complaint about a "nothing to do" answer of the model -/
theorem C05_spec_noop (s : Stream) (kind : SkipKind) (cfg : Config) (r : Sanitized)
    (h : Mp4.sanitize s kind cfg = .ok r) (hm : r.metadata = none) :
    Spec.Mp4Rules.Spec_C05 s ⟨cfg.maxMetadataSize, cfg.cumulativeMdatBoxSize⟩ (.noop r.data.offset r.data.len) = none := by
  have h1 := C05_accept_rules s kind cfg r h
  have h2 := (C05_nometadata_iff s kind cfg r h).mp hm
  unfold Spec.Mp4Rules.Spec_C05
  simp [h1, h2]

/-- The constants the model uses are the ones in the source (extracted on every run): the ftyp limit, the
    default metadata limit, the compatible brand and the reader's look-ahead. -/
theorem C05_constants :
    maxFtypSize = Generated.mp4MaxFtypSize ∧ ({} : Config).maxMetadataSize = Generated.mp4DefaultMaxMetadataSize ∧
    isomBrand = Generated.mp4CompatibleBrand ∧ headerMaxSize = Generated.mp4HeaderMaxSize := by decide

-- Non-vacuity
example : parseCo 4 [0,0,0,0, 0,0,0,2, 0,0,0,1, 0,0,0,2] = .ok ⟨4, 2, [0,0,0,1, 0,0,0,2]⟩ := by decide
example : parseCo 4 [0,0,0,0, 0,0,0,3, 0,0,0,1, 0,0,0,2] = .err .truncatedBox := by decide
example : parseCo 4 [0,0,0,0, 0,0,0,1, 0,0,0,1, 0,0,0,2] = .err .invalidInput := by decide
example : parseCo 8 [1,0,0,0, 0,0,0,0] = .err .invalidInput := by decide

end MediaSan.Props.C05
