/-
  C08 — valid images (reference-encoder output and spec corner cases) are accepted.  
-/
import MediaSan.Vp8l.Lossless
import MediaSan.Lemmas.KraftConv
namespace MediaSan.Props.C08
open MediaSan MediaSan.Vp8l MediaSan.Generated

theorem sort_single (s : Nat) : sortByLenSym [(s, 1)] = [(s, 1)] := by rfl
theorem sort_zero_first (s z : Nat) : sortByLenSym [(z, 0), (s, 1)] = [(z, 0), (s, 1)] := by rfl
theorem sort_zero_last (s z : Nat) : sortByLenSym [(s, 1), (z, 0)] = [(z, 0), (s, 1)] := by rfl
theorem sort_pair (a b : Nat) (h : a < b) :
    sortByLenSym [(a, 1), (b, 1)] = [(a, 1), (b, 1)] ∧ sortByLenSym [(b, 1), (a, 1)] = [(a, 1), (b, 1)] := by
  have h1 : a ≤ b := by omega
  have h2 : ¬ b ≤ a := by omega
  constructor
  · show (List.range 2).flatMap _ = _
    simp [List.range_succ, sortBySym, insertBySym, h1]
  · show (List.range 2).flatMap _ = _
    simp [List.range_succ, sortBySym, insertBySym, h2]

/-- single-leaf codes: a code with exactly one used symbol of length 1 is accepted and its symbol is decoded
    without consuming any bit, at every position (even at the end of the data) -/
theorem C08_single_leaf_zero_bits (s : Nat) (b : ByteArray) (p : Nat) :
    ∃ c, newCode [(s, 1)] = .ok c ∧ c.longest = 0 ∧ readSym c b p = .ok (s, p) := by
  refine ⟨⟨.leaf s, 0⟩, ?_, rfl, ?_⟩
  · simp [newCode, canonicalSymbols, sort_single, fromSymbols, compileReadTree, buildTree, HTree.add, HTree.complete]
  · simp [readSym, decodeSym]

/-- zero-length entries do not matter: a length vector whose only non-zero entry is (s, 1) gives the same
    single-leaf code -/
theorem C08_single_leaf_with_zeros (s z : Nat) :
    newCode [(z, 0), (s, 1)] = .ok ⟨.leaf s, 0⟩ ∧ newCode [(s, 1), (z, 0)] = .ok ⟨.leaf s, 0⟩ := by
  constructor
  · simp [newCode, canonicalSymbols, sort_zero_first, fromSymbols, compileReadTree, buildTree, HTree.add, HTree.complete]
  · simp [newCode, canonicalSymbols, sort_zero_last, fromSymbols, compileReadTree, buildTree, HTree.add, HTree.complete]

/-- the two-symbol complete code: lengths (1, 1) are accepted and the smaller symbol gets code 0, whichever
    order the symbols were named in (canonical, not stream, order) -/
theorem C08_two_symbols (a b : Nat) (h : a < b) :
    newCode [(a, 1), (b, 1)] = .ok ⟨.node (.leaf a) (.leaf b), 1⟩ ∧
    newCode [(b, 1), (a, 1)] = .ok ⟨.node (.leaf a) (.leaf b), 1⟩ := by
  obtain ⟨s1, s2⟩ := sort_pair a b h
  constructor
  · simp [newCode, canonicalSymbols, s1, fromSymbols, compileReadTree, buildTree, HTree.add, HTree.complete,
      assignCodes, incCode, resizeCode]
  · simp [newCode, canonicalSymbols, s2, fromSymbols, compileReadTree, buildTree, HTree.add, HTree.complete,
      assignCodes, incCode, resizeCode]

/-- a two-symbol simple code naming the same symbol twice is that symbol's single-leaf (zero-bit) code, and a
    named symbol outside the alphabet is not part of the code -/
theorem C08_simple_same_symbol_twice (s alphabet : Nat) (h : s < alphabet) :
    (dedupNamed ([s, s].filter (· < alphabet))).map (fun x => (x, 1)) = [(s, 1)] := by
  simp [dedupNamed, h]

theorem C08_simple_outside_alphabet (s t alphabet : Nat) (h : s < alphabet) (ht : ¬ t < alphabet) :
    (dedupNamed ([s, t].filter (· < alphabet))).map (fun x => (x, 1)) = [(s, 1)] ∧
    (dedupNamed ([t, s].filter (· < alphabet))).map (fun x => (x, 1)) = [(s, 1)] := by
  simp [dedupNamed, h, ht]

/-- every order of distinct transforms passes the duplicate check; only a repeated type is refused -/
theorem C08_transform_orders (seen : List TransformType) (ty : TransformType) :
    (ensure (!seen.contains ty) .invalidInput : BR Unit) = (if ty ∈ seen then BR.fail .invalidInput else BR.pure ()) := by
  by_cases h : ty ∈ seen
  · simp [ensure, h]
  · simp [ensure, h]

/-- every order of distinct transforms, on the transform loop of `LosslessImage::read` itself: a transform whose
    type has not been seen passes the duplicate check and the loop goes on with the width it returns -/
theorem C08_transform_loop_continues (cfg : LCfg) (height fuel width : Nat) (seen : List TransformType)
    (b : ByteArray) (p p1 p2 : Nat) (ty : TransformType) (width' : Nat)
    (hbit : readBit b p = .ok (true, p1)) (ht : readTransform cfg width height b p1 = .ok ((ty, width'), p2))
    (hnew : ty ∉ seen) :
    readTransforms cfg height (fuel + 1) width seen b p = readTransforms cfg height fuel width' (ty :: seen) b p2 := by
  simp [readTransforms, hbit, ht, ensure, hnew]

/-- the loop ends at the first 0 bit, with the current width -/
theorem C08_transform_loop_ends (cfg : LCfg) (height fuel width : Nat) (seen : List TransformType)
    (b : ByteArray) (p p1 : Nat) (hbit : readBit b p = .ok (false, p1)) :
    readTransforms cfg height (fuel + 1) width seen b p = .ok (width, p1) := by
  simp [readTransforms, hbit, pure, BR.pure]

/-- a prefix code written according to the specification - ANY code-length vector whose used lengths satisfy Kraft's
    equality - is accepted by the builder (the completeness half of C18, Lemmas/KraftConv.lean) -/
theorem C08_complete_code_accepted (lens : List (Nat × Nat)) (H : Nat) (hH : ∀ x ∈ lens, x.2 ≤ H)
    (hk : kraftW H lens = 2 ^ H) : ∃ c, newCode lens = .ok c :=
  kraft_accepts lens H hH hk

/-- maximal repeat runs: the code-length repeat codes reach exactly 6, 10 and 138 repetitions -/
theorem C08_max_repeat_runs :
    repeatBase16 + (2 ^ repeatBits16 - 1) = 6 ∧ repeatBase17 + (2 ^ repeatBits17 - 1) = 10 ∧
    repeatBase18 + (2 ^ repeatBits18 - 1) = 138 := by decide

-- Non-vacuity
example : validate (ByteArray.mk #[0x88, 0x88, 0x08]) 1 1 = .ok () := by decide

end MediaSan.Props.C08
