/-
  C11 — same bytes, same answer: entry points, adapters and read chunking.
-/
import MediaSan.Lemmas.Adapters
import MediaSan.Mp4.Sanitize
import MediaSan.Webp.Sanitize
namespace MediaSan.Props.C11
open MediaSan

/-- Parametricity (mp4): two cursor implementations related by a simulation — every operation returns the same
    answer and leaves related states — give the same sanitizer outcome, for every configuration. -/
theorem C11_param_mp4 {σ₁ σ₂} {o₁ : CursorOps σ₁} {o₂ : CursorOps σ₂} {R : σ₁ → σ₂ → Prop} (sim : Sim o₁ o₂ R)
    (a : σ₁) (b : σ₂) (h : R a b) (cfg : Mp4.Config) (fuel : Nat) :
    Mp4.sanitizeWith o₁ a cfg fuel = Mp4.sanitizeWith o₂ b cfg fuel := by
  simp only [Mp4.sanitizeWith, run_sim sim _ a b h]

/-- Parametricity (webp) -/
theorem C11_param_webp {σ₁ σ₂} {o₁ : CursorOps σ₁} {o₂ : CursorOps σ₂} {R : σ₁ → σ₂ → Prop} (sim : Sim o₁ o₂ R)
    (a : σ₁) (b : σ₂) (h : R a b) (cfg : Webp.Config) (fuel : Nat) :
    Webp.sanitizeWith o₁ a cfg fuel = Webp.sanitizeWith o₂ b cfg fuel := by
  simp only [Webp.sanitizeWith, run_sim sim _ a b h]

/-- BufReader of any capacity over any read chunking changes nothing (mp4): the sanitizer's outcome on
    `BufReader(cap)` over a seek-based or strict input that returns at most `chunk` bytes per read equals its
    outcome on the ideal cursor — for every stream below 2^62 bytes, capacity ≥ 1, chunk size, configuration. -/
theorem C11_adapters_mp4 (s : Stream) (kind : SkipKind) (cap chunk : Nat) (hcap : 1 ≤ cap)
    (hlen : s.len < 4611686018427387904) (cfg : Mp4.Config) :
    Mp4.sanitizeWith (bufOps cap (idealRaw s kind chunk)) ⟨0, []⟩ cfg (Mp4.fuelFor s) = Mp4.sanitize s kind cfg :=
  C11_param_mp4 (bufOps_sim s kind cap chunk hcap hlen) _ _ (bufRel_init s kind) cfg _

/-- the same for webpsan's outermost reader -/
theorem C11_adapters_webp (s : Stream) (kind : SkipKind) (cap chunk : Nat) (hcap : 1 ≤ cap)
    (hlen : s.len < 4611686018427387904) (cfg : Webp.Config) :
    Webp.sanitizeWith (bufOps cap (idealRaw s kind chunk)) ⟨0, []⟩ cfg (s.len / 8 + 2) = Webp.sanitize s kind cfg :=
  C11_param_webp (bufOps_sim s kind cap chunk hcap hlen) _ _ (bufRel_init s kind) cfg _

/-- consequently the capacity and the chunking are irrelevant: any two buffered stacks agree -/
theorem C11_capacity_chunking_irrelevant (s : Stream) (kind : SkipKind) (cap₁ cap₂ chunk₁ chunk₂ : Nat)
    (h1 : 1 ≤ cap₁) (h2 : 1 ≤ cap₂) (hlen : s.len < 4611686018427387904) (cfg : Mp4.Config) :
    Mp4.sanitizeWith (bufOps cap₁ (idealRaw s kind chunk₁)) ⟨0, []⟩ cfg (Mp4.fuelFor s) =
    Mp4.sanitizeWith (bufOps cap₂ (idealRaw s kind chunk₂)) ⟨0, []⟩ cfg (Mp4.fuelFor s) := by
  rw [C11_adapters_mp4 s kind cap₁ chunk₁ h1 hlen, C11_adapters_mp4 s kind cap₂ chunk₂ h2 hlen]

-- Non-vacuity: a 3-byte buffer over single-byte reads on a real (tiny, invalid) input
example : Mp4.sanitizeWith (bufOps 3 (idealRaw (Stream.ofBytes [0,0,0,8,0x66,0x72,0x65,0x65]) .seekable 1)) ⟨0, []⟩ {} 3
    = .parseErr .missingRequiredBox := by decide

end MediaSan.Props.C11
