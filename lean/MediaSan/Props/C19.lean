/-
  C19 — bit-buffer refills are transparent.

  `BitBuf` (MediaSan/Vp8l/BitBuf.lean) models `BitBufReader`; the ideal reader is the same bit-level function run
  on the whole byte string.  The refinement is a simulation through the abstraction
  "absolute bit index = 8·(bytes dropped) + position in buffer;  buffer ++ unread input = remaining bytes".
-/
import MediaSan.Lemmas.BitBuf
import MediaSan.Lemmas.BitTrace
import MediaSan.Lemmas.BufOnly
import MediaSan.Lemmas.BitBridge
import MediaSan.Lemmas.BufLoop
import MediaSan.Lemmas.CodeHeight
import MediaSan.Lemmas.BufValidator
import MediaSan.Generated.Vp8lTables
namespace MediaSan.Props.C19
open MediaSan MediaSan.Vp8l

/-- the abstraction holds initially, for every capacity and input -/
theorem C19_init (cap : Nat) (input : Bytes) : Abs (BitBuf.new cap input) input 0 := abs_new cap input

/-- refills are invisible: `fill_buf` keeps the abstraction and the absolute bit position, and afterwards the buffer
    holds ≥ 8·cap − 7 bits or all that is left of the input -/
theorem C19_fill (s : BitBuf) (orig : Bytes) (d : Nat) (h : Abs s orig d)
    (hroom : s.buf.length - s.bitPos / 8 < s.cap) :
    ∃ d', Abs s.fill orig d' ∧ s.fill.absPos d' = s.absPos d ∧ s.fill.cap = s.cap ∧
      (8 * s.cap ≤ s.fill.bufBits + 7 ∨ s.fill.rest = []) := fill_abs s orig d h hroom

/-- fixed-width fields and single bits (n ≤ 32 needs capacity ≥ 5): same value as the whole-string reader, end of
    data reported iff the whole string is exhausted, abstraction re-established at position + n -/
theorem C19_read (s : BitBuf) (orig : Bytes) (d : Nat) (h : Abs s orig d) (n : Nat) (hcap : n + 8 ≤ 8 * s.cap) :
    match s.read n with
    | some (v, s') =>
        bufReadAux orig n 0 0 (s.absPos d) = some v ∧
        ∃ d', Abs s' orig d' ∧ s'.absPos d' = s.absPos d + n ∧ s'.cap = s.cap
    | none => bufReadAux orig n 0 0 (s.absPos d) = none := read_refines s orig d h n hcap

/-- prefix-coded symbols (codes ≤ 15 bits need capacity ≥ 3) -/
theorem C19_read_huffman (s : BitBuf) (orig : Bytes) (d : Nat) (h : Abs s orig d) (c : Code)
    (hh : c.tree.height ≤ c.longest) (hcap : c.longest + 8 ≤ 8 * s.cap) :
    match s.readSym c with
    | some (sym, s') =>
        ∃ d', bufDecode orig c.tree (c.tree.height + 1) (s.absPos d) = some (sym, s'.absPos d') ∧
          Abs s' orig d' ∧ s'.cap = s.cap
    | none => bufDecode orig c.tree (c.tree.height + 1) (s.absPos d) = none :=
  readSym_refines s orig d h c hh hcap

/-- the read-ahead of one iteration of the sub-image loop (lossless.rs:303-313): with every code at most 15 bits
    long it never exceeds 81 bits, so after the guarded `fill_buf` a buffer of ≥ 16 bytes (≥ 121 bits) serves the
    buffer-only accessors of the whole iteration -/
theorem C19_readahead (green red blue alpha dist : Nat)
    (hg : green ≤ 15) (hr : red ≤ 15) (hb : blue ≤ 15) (ha : alpha ≤ 15) (hd : dist ≤ 15) :
    green + max (alpha + red + blue) (green + (2 * ((Generated.lz77MaxSymbol - 2) / 2) + dist)) + 8 ≤ 8 * 16 := by
  have : Generated.lz77MaxSymbol = 39 := rfl
  rw [this]
  omega

/-- the list-level bit accessor used above is the one the validator model reads through -/
theorem C19_bitAt_agree (l : Bytes) (i : Nat) : bitAt (ByteArray.mk l.toArray) i = bitAtL l i := by
  unfold bitAt bitAtL
  by_cases h : i / 8 < l.length
  · have hs : i / 8 < (ByteArray.mk l.toArray).size := by simpa [ByteArray.size] using h
    rw [if_pos hs]
    have : (ByteArray.mk l.toArray).get! (i / 8) = l[i / 8] := by
      simp [ByteArray.get!, getElem!_pos, h]
    rw [this, List.getElem?_eq_getElem h]
  · have hs : ¬ i / 8 < (ByteArray.mk l.toArray).size := by simpa [ByteArray.size] using h
    rw [if_neg hs, List.getElem?_eq_none (by omega)]

/-- C19 for whole runs (what the property says): for EVERY capacity, input and sequence of reader operations that the
    capacity can serve (fields of n ≤ 8·cap − 8 bits; codes no longer than 8·cap − 8 bits), the buffered reader returns
    exactly the values the whole-string reader returns and reports the end of data at the same operation - wherever the
    refills happen to fall.  `runBufOps` / `runIdealOps` (Vp8l/BitTrace.lean) are the two functions the driver
    executes against the real `BitBufReader` for every generated operation sequence. -/
theorem C19_trace (cap : Nat) (input : Bytes) (ops : List BOp) (hfit : ∀ op ∈ ops, op.fits cap) :
    runBufOps ops (BitBuf.new cap input) = runIdealOps input ops 0 :=
  runOps_refines ops (BitBuf.new cap input) input 0 (abs_new cap input) hfit

/-- ... and for an ADAPTIVE client, which chooses each operation from the values read so far (a validator): same
    values, same end-of-data verdict, for every strategy and any number of steps -/
theorem C19_adaptive (cap : Nat) (input : Bytes) (next : List Nat → Option BOp) (fuel : Nat)
    (hfit : ∀ hs op, next hs = some op → op.fits cap) :
    runBufStrat next fuel (BitBuf.new cap input) [] = runIdealStrat input next fuel 0 [] :=
  runStrat_refines next fuel (BitBuf.new cap input) input 0 (abs_new cap input) [] hfit

/-! ### the buffer-only accessors of the sub-image loop (`buf_read`, `buf_read_huffman`, `buf_read_lz77`)

  `read` and `read_huffman` refill on demand (theorems above).  The sub-image loop instead refills ONCE per iteration,
  `if buf_bits() < readahead_bits { fill_buf() }`, and then reads from the buffer only: that is transparent exactly
  when the iteration never asks for more than `readahead_bits`. -/

/-- after the guarded refill with threshold `r` (r + 7 ≤ 8·cap), EVERY adaptive client of the buffer-only accessors
    that asks for at most `r` bits in total (`spentOf`: the cost of the operations chosen so far, a code counting with
    its longest length) gets the whole-string reader's values and end-of-data verdict - for every capacity, input,
    buffer state and number of steps -/
theorem C19_guarded_run (s : BitBuf) (orig : Bytes) (d : Nat) (h : Abs s orig d) (r : Nat) (hr : r + 7 ≤ 8 * s.cap)
    (next : List Nat → Option BOp)
    (hfit : ∀ hs op, next hs = some op → op.wellFormed ∧ spentOf next hs + op.cost ≤ r) (fuel : Nat) :
    runBufOnlyStrat next fuel (s.guardedFill r) [] = runIdealStrat orig next fuel (s.absPos d) [] :=
  guarded_run_refines s orig d h r hr next hfit fuel

/-- the reads of one iteration of the sub-image loop (`iterNext`: green symbol, then red/blue/alpha, or length extra
    bits + distance symbol + distance extra bits) never ask for more than `readahead_bits` of lossless.rs:303-306,
    whatever values are read and whatever the five codes are -/
theorem C19_iteration_within_readahead (g : Group) (hg : g.wellFormed) (hs : List Nat) (op : BOp)
    (hn : iterNext g hs = some op) : op.wellFormed ∧ spentOf (iterNext g) hs + op.cost ≤ readaheadBits g :=
  iterNext_within g hg hs op hn

/-- with codes of at most 15 bits the bound is at most 81 bits: every capacity ≥ 11 bytes (the code uses 4096, the
    hook goes down to 16) satisfies the side condition of `C19_guarded_run` -/
theorem C19_readahead_le (g : Group) (h1 : g.green.longest ≤ 15) (h2 : g.red.longest ≤ 15) (h3 : g.blue.longest ≤ 15)
    (h4 : g.alpha.longest ≤ 15) (h5 : g.dist.longest ≤ 15) : readaheadBits g ≤ 81 := by
  have e : Generated.lz77MaxSymbol = 39 := rfl
  simp only [readaheadBits, e]
  omega

/-- **one iteration of the sub-image loop is transparent**: for every buffer state reachable under the abstraction,
    every capacity that holds the read-ahead, every group of codes and every input, the guarded refill followed by the
    iteration's buffer-only reads returns what the whole-string reader returns -/
theorem C19_subimage_iteration (s : BitBuf) (orig : Bytes) (d : Nat) (h : Abs s orig d) (g : Group) (hg : g.wellFormed)
    (hcap : readaheadBits g + 7 ≤ 8 * s.cap) (fuel : Nat) :
    runBufOnlyStrat (iterNext g) fuel (s.guardedFill (readaheadBits g)) [] =
      runIdealStrat orig (iterNext g) fuel (s.absPos d) [] :=
  guarded_run_refines s orig d h _ hcap (iterNext g) (iterNext_within g hg) fuel

-- the budget hypothesis is what makes it true: a client that asks for 24 bits behind a threshold of 8 is told
-- "end of data" by a 2-byte buffer while the input has the bits (what an under-estimated read-ahead does)
example : runBufOnlyStrat (fun hs => if hs.length < 3 then some (.read 8) else none) 4
      ((BitBuf.new 2 [255, 255, 255]).guardedFill 8) [] = ([255, 255], true) ∧
    runIdealStrat [255, 255, 255] (fun hs => if hs.length < 3 then some (.read 8) else none) 4 0 [] =
      ([255, 255, 255], false) := by decide
-- Non-vacuity: a well-formed group (two-symbol green code, zero-bit others) and its read-ahead
example : (match newCode [(0, 1), (1, 1)], newCode [(0, 1)] with
    | .ok c2, .ok c1 => decide (Group.wellFormed ⟨c2, c1, c1, c1, c1⟩) && readaheadBits ⟨c2, c1, c1, c1, c1⟩ == 38
    | _, _ => false) = true := by decide

/-! ### the whole-string reader of these theorems is the reader the validator model runs on -/

/-- `idealStep` (byte lists; the right-hand side of `C19_trace`, `C19_adaptive`, `C19_guarded_run`) and the bit reader
    of the lossless validator model (`readBits` / `readSym` over `ByteArray`, Vp8l/Bits.lean, Huffman.lean) are the same
    function: same value, same new position, end of data as `truncated` - every byte string, position and width ... -/
theorem C19_ideal_is_model_read (l : Bytes) (n p : Nat) :
    readBits n (ByteArray.mk l.toArray) p =
      match idealStep l p (.read n) with
      | some r => .ok r
      | none => .error .truncated := readBits_eq_idealStep l n p

/-- ... and every finalized prefix code (`compile_read_tree` only returns complete tries) -/
theorem C19_ideal_is_model_sym (l : Bytes) (c : Code) (hc : c.tree.complete = true) (p : Nat) :
    readSym c (ByteArray.mk l.toArray) p =
      match idealStep l p (.sym c) with
      | some r => .ok r
      | none => .error .truncated := readSym_eq_idealStep l c hc p

/-- hence `read(n)` through the buffer, at any capacity and buffer state, is the validator model's `readBits n` at the
    absolute position: same value and position, `TruncatedChunk` exactly when the model says so -/
theorem C19_read_model (s : BitBuf) (orig : Bytes) (d : Nat) (h : Abs s orig d) (n : Nat) (hcap : n + 8 ≤ 8 * s.cap) :
    match s.read n with
    | some (v, _) => readBits n (ByteArray.mk orig.toArray) (s.absPos d) = .ok (v, s.absPos d + n)
    | none => readBits n (ByteArray.mk orig.toArray) (s.absPos d) = .error .truncated := by
  have key := read_refines s orig d h n hcap
  rw [readBits_eq_idealStep]
  simp only [idealStep]
  cases hr : s.read n with
  | none => rw [hr] at key; simp only at key; rw [key]; rfl
  | some r => obtain ⟨v, s'⟩ := r; rw [hr] at key; simp only at key; rw [key.1]; rfl

/-- ... and `read_huffman` through the buffer is the model's `readSym`, for every finalized code the capacity holds -/
theorem C19_read_huffman_model (s : BitBuf) (orig : Bytes) (d : Nat) (h : Abs s orig d) (c : Code)
    (hc : c.tree.complete = true) (hh : c.tree.height ≤ c.longest) (hcap : c.longest + 8 ≤ 8 * s.cap) :
    match s.readSym c with
    | some (sym, s') => ∃ d', readSym c (ByteArray.mk orig.toArray) (s.absPos d) = .ok (sym, s'.absPos d')
    | none => readSym c (ByteArray.mk orig.toArray) (s.absPos d) = .error .truncated := by
  have key := readSym_refines s orig d h c hh hcap
  rw [readSym_eq_idealStep orig c hc]
  simp only [idealStep]
  cases hr : s.readSym c with
  | none => rw [hr] at key; simp only at key; rw [key]
  | some r =>
    obtain ⟨v, s'⟩ := r
    rw [hr] at key; simp only at key
    obtain ⟨d', hk, _⟩ := key
    exact ⟨d', by rw [hk]⟩

/-! ### the sub-image loop as the code runs it -/

/-- **The sub-image loop over the buffered reader is the validator model's loop.**  `pixelLoopBuf` (Vp8l/BufLoop.lean)
    is `EntropyCodedImage::read`'s pixel loop as lossless.rs:308-356 runs it: one guarded refill at the head of every
    iteration, then `buf_read_huffman` / `buf_read_lz77` on the buffer only.  `pixelLoop` (Vp8l/Lossless.lean) is the loop
    of the validator model, over the whole byte string - the one every C07 / C08 / C09 theorem speaks about.  For EVERY
    group of finalized codes, capacity that holds the read-ahead (`readaheadBits g + 7 ≤ 8·cap`: 11 bytes suffice for
    15-bit codes), input, buffer state under the abstraction, sub-image size, pixel callback and number of iterations:
    the buffered loop returns the model's result at the model's bit position, or fails with the model's error -
    wherever the refills fall (`BA orig` is the byte list as the `ByteArray` the model reads).  (Relational logic of Lemmas/BufLoop.lean: `RelW` inside an iteration, where the window
    of secured bits shrinks by each read's cost and `readaheadBits` is shown to cover green + red + blue + alpha and
    green + length extra + distance symbol + distance extra; `RelL` across iterations.) -/
theorem C19_pixel_loop_buffered (g : Group) (hg : g.ready) (cache : Option Nat) (width total : Nat) (chk : Nat → Bool)
    (orig : Bytes) (fuel idx acc : Nat) (s : BitBuf) (d : Nat) (h : Abs s orig d)
    (hcap : readaheadBits g + 7 ≤ 8 * s.cap) :
    match pixelLoopBuf g cache width total chk fuel idx acc s with
    | .ok (a, s') =>
        ∃ d', pixelLoop g cache width total chk fuel idx acc (BA orig) (s.absPos d) =
          .ok (a, s'.absPos d') ∧ Abs s' orig d' ∧ s'.cap = s.cap
    | .error e =>
        pixelLoop g cache width total chk fuel idx acc (BA orig) (s.absPos d) = .error e :=
  by
  have key := pixelLoop_refines g hg cache width total chk orig fuel idx acc s d h hcap
  cases hr : pixelLoopBuf g cache width total chk fuel idx acc s with
  | error e => rw [hr] at key; exact key
  | ok x => obtain ⟨a, s'⟩ := x; rw [hr] at key; exact key

/-- the hypothesis `g.ready` of `C19_pixel_loop_buffered` holds for EVERY prefix-code group the validator model reads,
    from every payload and bit position: each of the five codes is a finalized trie (`compile_read_tree`) no deeper than
    its `longest_code_len` (an insertion deepens the trie by at most the code's length; a single-symbol code is a
    leaf).  (`BSafe m Q`: `m` returns a value with `Q`, or a non-panic error.) -/
theorem C19_groups_ready (cfg : LCfg) (cache : Option Nat) : BSafe (readGroup cfg cache) Group.ready :=
  readGroup_ready cfg cache

/-- every code `CanonicalHuffmanTree::new` returns is within its `longest_code_len` -/
theorem C19_code_height (lens : List (Nat × Nat)) (lenient : Bool) (c : Code) (h : newCode lens lenient = .ok c) :
    c.tree.height ≤ c.longest := newCode_height lens lenient c h

/-! ### the whole validator -/

/-- every prefix code the validator model reads - any payload, position, alphabet - is finalized, within its depth
    and at most 15 bits long (lengths come from 3-bit fields, code-length symbols 0..15 or the last non-zero length;
    the canonical assignment gives every symbol a code of exactly its length): what `read_huffman` needs of the
    capacity, and what bounds the read-ahead of the sub-image loop by 81 bits -/
theorem C19_codes_at_most_15_bits (cfg : LCfg) (alphabet : Nat) :
    BSafe (readPrefixCode cfg alphabet) (CodeFits 15) := readPrefixCode_fits cfg alphabet

/-- **Bit-buffer refills are transparent to the validator.**  `validateBuf cap` (Vp8l/BufValidator.lean) is the
    lossless header-phase validator with EVERY read going through the model of `BitBufReader` with a buffer of `cap`
    bytes - `read` / `read_bit` / `read_huffman` refilling on demand, the sub-image loop with its guarded refill and
    buffer-only accessors; `validate` is the validator model over the whole byte string, the subject of the C07 / C08 /
    C09 theorems.  For EVERY capacity of at least 11 bytes (the code uses 4096; the hook goes down to 16), every payload,
    every declared size and configuration they give the same verdict: Ok, or the same error.  (Relation `RelL`,
    function by function through all twelve functions of the validator, Lemmas/BufValidator.lean; the executable
    `validateBuf` is also run by the driver against webpsan at every in-situ capacity.) -/
theorem C19_validator_buffered (cap : Nat) (hcap : 11 ≤ cap) (data : Bytes) (width height : Nat) (cfg : LCfg) :
    validateBuf cap data width height cfg = validate (BA data) width height cfg :=
  validateBuf_eq cap hcap data width height cfg

-- Non-vacuity: the 1x1 stream of the documentation example through a 16-byte buffer
example : validateBuf 16 [0x88, 0x88, 0x08] 1 1 = .ok () := by decide +kernel

-- Non-vacuity: a ready group, and the buffered loop really running over a 16-byte buffer (two literal pixels of a
-- two-symbol green code, then the sub-image is complete)
example : (match newCode [(0, 1), (1, 1)], newCode [(0, 1)] with
    | .ok c2, .ok c1 =>
      (match pixelLoopBuf ⟨c2, c1, c1, c1, c1⟩ none 2 2 (fun _ => true) 3 0 0 (BitBuf.new 16 [0b10, 0, 0]) with
        | .ok (a, s') => a == 1 && s'.bitPos == 2
        | .error _ => false)
    | _, _ => false) = true := by decide +kernel

-- Why `C19_fill` asks for room in the buffer (`hroom`), and why the code only ever refills when it is short of bits: a
-- refill of a FULL buffer from which no whole byte has been consumed adds nothing, and `fill_buf` takes "nothing new
-- arrived" for the end of the input - the reader is dead although two bytes are still unread (what an unconditional
-- `fill_buf()` before the sub-image loop would do; the seeded change RAC19)
example : let s : BitBuf := { (BitBuf.new 2 [1, 2, 3, 4]).fill with bitPos := 3 }
    s.fill.live = false ∧ s.fill.rest = [3, 4] ∧ (s.fill.read 16).isNone = true := by decide

-- Non-vacuity: a run of four fields over a 2-byte buffer (refills in between), ending past the end of data
example : runBufOps [.read 3, .read 7, .read 8, .read 8, .read 8, .read 8] (BitBuf.new 2 [0xA5, 0x3C, 0xFF, 0x01, 0x80]) =
    [some 5, some 20, some 207, some 127, some 0, none] := by decide
example : ∀ op ∈ [BOp.read 3, .read 7, .read 8], op.fits 2 := by
  intro op h; simp only [List.mem_cons, List.not_mem_nil, or_false] at h
  rcases h with rfl | rfl | rfl <;> simp [BOp.fits]

-- Non-vacuity: a 2-byte buffer over a 5-byte stream, reading 3 + 7 + 9 bits across refills
example : ((BitBuf.new 2 [0xA5, 0x3C, 0xFF, 0x01, 0x80]).read 3).map (·.1) = some 5 := by decide
example : (do let (_, s) ← (BitBuf.new 2 [0xA5, 0x3C, 0xFF, 0x01, 0x80]).read 3
              let (v, _) ← s.read 7
              pure v) = bufReadAux [0xA5, 0x3C, 0xFF, 0x01, 0x80] 7 0 0 3 := by decide

end MediaSan.Props.C19
