/-
  C06 — WebP accepted iff RIFF framing and the chunk grammar are exactly right.

  `C06_sound` (soundness, for EVERY stream, both configurations, both kinds of cursor): whatever the model accepts, the
  independent recogniser `Grammar` accepts — one RIFF/WEBP container whose declared size accounts for every input byte,
  every chunk inside its parent with zero pad bytes, the chunk sequence VP8 | VP8L | VP8X [ICCP] (ANIM ANMF+ | [ALPH]
  VP8|VP8L) [EXIF] [XMP] unknown*, flags matching the chunks present, VP8X/ANIM of their exact size, reserved bits zero,
  ALPH never with VP8L, lossless images and alpha planes valid for the canvas (still) or the frame (animated).  Proved
  with partial-correctness triples over the three-level reader stack in absolute stream offsets (Lemmas/WebpRel.lean:
  every reader operation, the tiling of a region by chunks, Open/Closed/Peeked states of a level, the frame loop) and
  a pure half matching the established facts with the recogniser (Lemmas/WebpGrammarRel.lean).  The proof attempt is
  what exposed defect F10 (a frame's lossless alpha validated against the canvas dimensions).

  Proved here about the reader-stack model (MediaSan/Webp/Sanitize.lean): a read or skip at a nested level never
  crosses the remaining body of an enclosing chunk; consumed bytes are accounted on every enclosing level; the
  pad byte of an odd-sized chunk must be zero; the extracted constants (file-length limit, chunk names) are the
  ones the model uses.  The converse (`Grammar` with valid lossless payloads ⇒ accepted) and `accepted ⇒ Grammar`
  again are evaluated on the real code for every generated
  case (exhaustive chunk sequences × 32 flag sets, frame-level sequences, framing/size/padding/truncation
  families, libwebp encoder + muxer output).
-/
import MediaSan.Webp.Sanitize
import MediaSan.Spec.WebpGrammar
import MediaSan.Lemmas.WebpGrammarRel
namespace MediaSan.Props.C06
open MediaSan MediaSan.Webp

/-- a nested read that would cross the remaining body of an enclosing chunk is TruncatedChunk without touching
    the input -/
theorem C06_read_bounded (r : RS) (k n : Nat) (hn : n ≠ 0) (m : Nat) (hb : r.bound k = some m) (h : m < n) :
    rawRead r k n = .fail .truncatedChunk := by
  have : ¬ n ≤ m := by omega
  simp [rawRead, hn, within, hb, this]

/-- the same for skips (`ChunkDataReader::skip`, reader.rs:276) -/
theorem C06_skip_bounded (r : RS) (k n : Nat) (m : Nat) (hb : r.bound k = some m) (h : m < n) :
    rawSkip r k n = .fail .truncatedChunk := by
  have : ¬ n ≤ m := by omega
  simp [rawSkip, within, hb, this]

/-- bytes consumed by a nested reader are subtracted from the enclosing chunk; when the body is used up the
    enclosing reader moves on to its padding -/
theorem C06_consume_accounting (name : Bytes) (len rem n : Nat) (h : n ≤ rem) :
    consumeState (.body name len rem) n =
      (if rem - n = 0 then .padding name len else .body name len (rem - n)) := by
  simp [consumeState]

/-- the level bounds: level 1 is bounded by the RIFF body, level 2 by the ANMF body and the RIFF body -/
theorem C06_bounds (r : RS) :
    r.bound 0 = none ∧ r.bound 1 = some (bodyRemaining r.l0) ∧
    r.bound 2 = some (min (bodyRemaining r.l1) (bodyRemaining r.l0)) := ⟨rfl, rfl, rfl⟩

/-- the constants the model uses are the extracted ones, and the chunk FourCCs are the source's names padded
    with spaces -/
theorem C06_constants :
    Generated.webpChunkTypes = ["ALPH", "ANIM", "ANMF", "EXIF", "ICCP", "RIFF", "VP8", "VP8L", "VP8X", "XMP"] ∧
    FVP8 = (Spec.WebpGrammar.cc 'V' 'P' '8' ' ') ∧ FXMP = (Spec.WebpGrammar.cc 'X' 'M' 'P' ' ') ∧ FVP8L = (Spec.WebpGrammar.cc 'V' 'P' '8' 'L') ∧
    FVP8X = (Spec.WebpGrammar.cc 'V' 'P' '8' 'X') ∧ FALPH = (Spec.WebpGrammar.cc 'A' 'L' 'P' 'H') ∧ FANIM = (Spec.WebpGrammar.cc 'A' 'N' 'I' 'M') ∧
    FANMF = (Spec.WebpGrammar.cc 'A' 'N' 'M' 'F') ∧ FEXIF = (Spec.WebpGrammar.cc 'E' 'X' 'I' 'F') ∧ FICCP = (Spec.WebpGrammar.cc 'I' 'C' 'C' 'P') ∧
    FRIFF = (Spec.WebpGrammar.cc 'R' 'I' 'F' 'F') ∧ FWEBP = (Spec.WebpGrammar.cc 'W' 'E' 'B' 'P') := by decide

-- Non-vacuity: the documentation's 26-byte example file is accepted by the model and by the grammar
def docExample : Bytes :=
  [0x52,0x49,0x46,0x46, 0x14,0,0,0, 0x57,0x45,0x42,0x50, 0x56,0x50,0x38,0x4c, 8,0,0,0, 0x2f,0,0,0,0,0x88,0x88,0x08]
/-- SOUNDNESS of the WebP container grammar: whatever the model of webpsan accepts, the independent recogniser
    `Grammar` (Spec/WebpGrammar.lean, written from the property text and the container specification) accepts too —
    for EVERY stream, both configurations and both kinds of cursor. -/
theorem C06_sound (s : Stream) (kind : SkipKind) (cfg : Webp.Config) (h : Webp.sanitize s kind cfg = .ok ()) :
    Spec.WebpGrammar.Grammar s cfg.allowUnknownChunks = true := by
  have hs := sanitizeP_rel s kind cfg (s.len / 8 + 2)
  unfold Tri at hs
  simp only [Webp.sanitize, Webp.sanitizeWith, run_eq_runF] at h
  cases hr : (Webp.sanitizeP cfg (s.len / 8 + 2)).runF (idealOps s kind) 0 with
  | ok x =>
    obtain ⟨a, p⟩ := x
    rw [hr] at hs h
    cases a with
    | none => simp [Outcome.fst] at h
    | some u => exact grammar_of_facts s _ (hs rfl)
  | parseErr e => rw [hr] at h; simp [Outcome.fst] at h
  | ioErr k => rw [hr] at h; simp [Outcome.fst] at h
  | panic site => rw [hr] at h; simp [Outcome.fst] at h
  | outOfFuel => rw [hr] at h; simp [Outcome.fst] at h

example : sanitize (Stream.ofBytes docExample) .seekable {} = .ok () := by decide
example : Spec.WebpGrammar.Grammar (Stream.ofBytes docExample) false = true := by decide

end MediaSan.Props.C06
