/-
  C05 — "a file is accepted iff it meets the documented structural rules": the CONVERSE of `C05_accept_rules`, and
  with it the equivalence, for every input, configuration (with a sane metadata limit) and cursor kind.

   * `C05_complete`   every file that meets `Rules` of the independent specification (Spec/Mp4Rules.lean) is accepted,
                      unless a rewrite is needed (`NoMetadata` false) and the specification's `Overflow` holds;
   * `C05_refuses_overflow`  an accepted file that needed a rewrite has no `Overflow`;
   * `C05_accept_iff` accepted  ⇔  Rules ∧ ¬(¬NoMetadata ∧ Overflow);
   * `C05_spec_holds` `Spec_C05` - the function the check evaluates on the real crate's outcome - has no complaint
                      about ANY outcome of the model (returned with or without metadata, or refused).

  Proof of completeness (Lemmas/RulesConv.lean, RulesRewrite.lean): `Rules` gives a clean walk = a chain of walker boxes
  that both top-level state machines admit (free/skip*, the one ftyp, then known boxes, the mdats in one run); the scan
  loop then returns on it (total-correctness triples, Lemmas/Tot.lean, ScanTot.lean, SanTot.lean) with the ftyp kept, the
  last moov validated (TreeConv.lean: what the walker calls well-formed the lazily parsing tree code accepts) and the
  span the bookkeeping computes; after the loop the header re-encoding cannot fail at these sizes, the plan is the
  specification's `neededShift` (`plan_of_shift`, `shift_of_plan`), and when no shifted entry leaves its field the
  displacement of every table succeeds on the payload as read (TreeConv.moov_of_tables) and therefore on the validated,
  partly parsed tree the scan kept (FusionRev.lean, fusion in the reverse direction).
-/
import MediaSan.Props.C05
import MediaSan.Lemmas.RulesRewrite
namespace MediaSan.Props.C05
open MediaSan MediaSan.Mp4 MediaSan.Spec.Mp4Rules

/-- Completeness: whatever meets the rules is accepted, unless the rewrite it needs overflows. -/
theorem C05_complete (s : Stream) (kind : SkipKind) (cfg : Config)
    (hlen : s.len < u64Lim) (hmax : cfg.maxMetadataSize ≤ 4 * Mp4.u32Max)
    (hrules : Rules s ⟨cfg.maxMetadataSize, cfg.cumulativeMdatBoxSize⟩ = true)
    (hov : ¬ (NoMetadata s ⟨cfg.maxMetadataSize, cfg.cumulativeMdatBoxSize⟩ = false ∧
      Overflow s ⟨cfg.maxMetadataSize, cfg.cumulativeMdatBoxSize⟩ = true)) :
    ∃ r, Mp4.sanitize s kind cfg = .ok r := by
  cases hn : NoMetadata s ⟨cfg.maxMetadataSize, cfg.cumulativeMdatBoxSize⟩ with
  | true =>
    obtain ⟨d, h⟩ := sanitize_of_rules_noop s kind cfg hlen hmax hrules hn
    exact ⟨_, h⟩
  | false =>
    cases ho : Overflow s ⟨cfg.maxMetadataSize, cfg.cumulativeMdatBoxSize⟩ with
    | true => exact absurd ⟨hn, ho⟩ hov
    | false =>
      obtain ⟨r, h, _⟩ := sanitize_of_rules_rewrite s kind cfg hlen hmax hrules hn ho
      exact ⟨r, h⟩

/-- The refusal clause, soundness: what is accepted with rewritten metadata has no overflow. -/
theorem C05_refuses_overflow (s : Stream) (kind : SkipKind) (cfg : Config) (hmax : cfg.maxMetadataSize ≤ 4 * Mp4.u32Max)
    (r : Sanitized) (md : Bytes) (h : Mp4.sanitize s kind cfg = .ok r) (hmd : r.metadata = some md) :
    Overflow s ⟨cfg.maxMetadataSize, cfg.cumulativeMdatBoxSize⟩ = false :=
  no_overflow_of_accept s kind cfg hmax r md h hmd (C05_accept_rules s kind cfg r h)

/-- C05 as an equivalence. -/
theorem C05_accept_iff (s : Stream) (kind : SkipKind) (cfg : Config)
    (hlen : s.len < u64Lim) (hmax : cfg.maxMetadataSize ≤ 4 * Mp4.u32Max) :
    (∃ r, Mp4.sanitize s kind cfg = .ok r) ↔
      (Rules s ⟨cfg.maxMetadataSize, cfg.cumulativeMdatBoxSize⟩ = true ∧
        ¬ (NoMetadata s ⟨cfg.maxMetadataSize, cfg.cumulativeMdatBoxSize⟩ = false ∧
          Overflow s ⟨cfg.maxMetadataSize, cfg.cumulativeMdatBoxSize⟩ = true)) := by
  constructor
  · rintro ⟨r, h⟩
    refine ⟨C05_accept_rules s kind cfg r h, ?_⟩
    rintro ⟨hn, ho⟩
    cases hmd : r.metadata with
    | none =>
      rw [(C05_nometadata_iff s kind cfg r h).mp hmd] at hn
      cases hn
    | some md =>
      rw [C05_refuses_overflow s kind cfg hmax r md h hmd] at ho
      cases ho
  · rintro ⟨hr, ho⟩
    exact C05_complete s kind cfg hlen hmax hr ho

/-- `Spec_C05` has no complaint about a rewritten answer of the model. -/
theorem C05_spec_rewritten (s : Stream) (kind : SkipKind) (cfg : Config) (hmax : cfg.maxMetadataSize ≤ 4 * Mp4.u32Max)
    (r : Sanitized) (md : Bytes) (h : Mp4.sanitize s kind cfg = .ok r) (hmd : r.metadata = some md) :
    Spec_C05 s ⟨cfg.maxMetadataSize, cfg.cumulativeMdatBoxSize⟩ (.rewritten (Stream.ofBytes md) r.data.offset r.data.len) = none := by
  have h1 := C05_accept_rules s kind cfg r h
  have h2 : NoMetadata s ⟨cfg.maxMetadataSize, cfg.cumulativeMdatBoxSize⟩ = false := by
    cases hq : NoMetadata s ⟨cfg.maxMetadataSize, cfg.cumulativeMdatBoxSize⟩ with
    | false => rfl
    | true =>
      have := (C05_nometadata_iff s kind cfg r h).mpr hq
      rw [hmd] at this; cases this
  have h3 := C05_refuses_overflow s kind cfg hmax r md h hmd
  unfold Spec_C05
  simp [h1, h2, h3]

/-- C05 as the executable specification states it: `Spec_C05` has no complaint about any outcome of the model -
    "nothing to do", rewritten, or refused (every outcome that is not a returned result is shown to it as `err`). -/
theorem C05_spec_holds (s : Stream) (kind : SkipKind) (cfg : Config)
    (hlen : s.len < u64Lim) (hmax : cfg.maxMetadataSize ≤ 4 * Mp4.u32Max) :
    (∀ r, Mp4.sanitize s kind cfg = .ok r → r.metadata = none →
      Spec_C05 s ⟨cfg.maxMetadataSize, cfg.cumulativeMdatBoxSize⟩ (.noop r.data.offset r.data.len) = none) ∧
    (∀ r md, Mp4.sanitize s kind cfg = .ok r → r.metadata = some md →
      Spec_C05 s ⟨cfg.maxMetadataSize, cfg.cumulativeMdatBoxSize⟩ (.rewritten (Stream.ofBytes md) r.data.offset r.data.len) = none) ∧
    ((¬ ∃ r, Mp4.sanitize s kind cfg = .ok r) →
      Spec_C05 s ⟨cfg.maxMetadataSize, cfg.cumulativeMdatBoxSize⟩ .err = none) := by
  refine ⟨fun r h hm => C05_spec_noop s kind cfg r h hm, fun r md h hm => C05_spec_rewritten s kind cfg hmax r md h hm, ?_⟩
  intro hno
  have hiff := C05_accept_iff s kind cfg hlen hmax
  have hc : ¬ (Rules s ⟨cfg.maxMetadataSize, cfg.cumulativeMdatBoxSize⟩ = true ∧
        ¬ (NoMetadata s ⟨cfg.maxMetadataSize, cfg.cumulativeMdatBoxSize⟩ = false ∧
          Overflow s ⟨cfg.maxMetadataSize, cfg.cumulativeMdatBoxSize⟩ = true)) := fun hc => hno (hiff.mpr hc)
  unfold Spec_C05
  generalize Rules s ⟨cfg.maxMetadataSize, cfg.cumulativeMdatBoxSize⟩ = a at hc ⊢
  generalize NoMetadata s ⟨cfg.maxMetadataSize, cfg.cumulativeMdatBoxSize⟩ = b at hc ⊢
  generalize Overflow s ⟨cfg.maxMetadataSize, cfg.cumulativeMdatBoxSize⟩ = c at hc ⊢
  cases a <;> cases b <;> cases c <;> simp at hc ⊢

-- Non-vacuity: the remuxed one-entry file of Props/C02 meets the rules, needs a rewrite and has no overflow; the
-- model accepts it
example : Rules (Stream.ofBytes MediaSan.Props.C02.tinyRemux) ⟨({} : Config).maxMetadataSize, none⟩ = true ∧
    NoMetadata (Stream.ofBytes MediaSan.Props.C02.tinyRemux) ⟨({} : Config).maxMetadataSize, none⟩ = false ∧
    Overflow (Stream.ofBytes MediaSan.Props.C02.tinyRemux) ⟨({} : Config).maxMetadataSize, none⟩ = false := by
  decide +kernel

end MediaSan.Props.C05
