/-
  C14 — config options change exactly what they document.
-/
import MediaSan.Lemmas.Agree
import MediaSan.Mp4.Sanitize
import MediaSan.Webp.Sanitize
namespace MediaSan.Props.C14
open MediaSan

theorem agree_ite {E α} {e : E} (c : Prop) [Decidable c] {a a' b b' : Prog E α}
    (h1 : c → AgreeUnless e a a') (h2 : ¬ c → AgreeUnless e b b') :
    AgreeUnless e (if c then a else b) (if c then a' else b') := by
  by_cases h : c
  · simp only [h, if_true]; exact h1 h
  · simp only [h, if_false]; exact h2 h

section Mp4Limit
open MediaSan.Mp4

/-- the only place the limit is consulted: `Mp4Box::read_data` -/
theorem readData_agree (h : BoxHeader) (L L' : Nat) (hle : L ≤ L') :
    AgreeUnless .invalidInput (readData h L) (readData h L') := by
  unfold readData
  apply AgreeUnless.bind (AgreeUnless.refl _ _)
  intro n
  by_cases h1 : n ≤ L
  · have h2 : n ≤ L' := by omega
    simp only [h1, h2, if_true]; exact AgreeUnless.refl _ _
  · simp only [h1, if_false]; exact .stop _

theorem scanBody_agree (cfg : Config) (L L' : Nat) (hle : L ≤ L') (st : ScanState) (startPos : Nat) (header : BoxHeader) :
    AgreeUnless .invalidInput (scanBody { cfg with maxMetadataSize := L } st startPos header)
      (scanBody { cfg with maxMetadataSize := L' } st startPos header) := by
  unfold scanBody
  dsimp only
  apply agree_ite; · intro _; exact AgreeUnless.refl _ _
  intro _
  apply agree_ite; · intro _; exact AgreeUnless.refl _ _
  intro _
  apply agree_ite; · intro _; exact AgreeUnless.refl _ _
  intro _
  apply agree_ite; · intro _; exact AgreeUnless.refl _ _
  intro _
  apply agree_ite
  · intro _
    apply AgreeUnless.bind (readData_agree header L L' hle)
    intro payload; exact AgreeUnless.refl _ _
  intro _
  exact AgreeUnless.refl _ _

theorem scanBox_agree (cfg : Config) (L L' : Nat) (hle : L ≤ L') (st : ScanState) :
    AgreeUnless .invalidInput (scanBox { cfg with maxMetadataSize := L } st) (scanBox { cfg with maxMetadataSize := L' } st) := by
  unfold scanBox
  apply AgreeUnless.position; intro startPos
  exact AgreeUnless.bind (AgreeUnless.refl _ _) (fun header => scanBody_agree cfg L L' hle st startPos header)

theorem scan_agree (cfg : Config) (L L' : Nat) (hle : L ≤ L') (fuel : Nat) (st : ScanState) :
    AgreeUnless .invalidInput (scan { cfg with maxMetadataSize := L } fuel st) (scan { cfg with maxMetadataSize := L' } fuel st) := by
  induction fuel generalizing st with
  | zero => exact AgreeUnless.refl _ _
  | succ n ih =>
    unfold scan
    apply AgreeUnless.isEof; intro eof
    apply agree_ite
    · intro _; exact AgreeUnless.refl _ _
    · intro _; exact AgreeUnless.bind (scanBox_agree cfg L L' hle st) (fun st' => ih st')

theorem mp4_sanitizeP_agree (cfg : Config) (L L' : Nat) (hle : L ≤ L') (fuel : Nat) :
    AgreeUnless .invalidInput (sanitizeP { cfg with maxMetadataSize := L } fuel) (sanitizeP { cfg with maxMetadataSize := L' } fuel) := by
  unfold sanitizeP
  apply AgreeUnless.bind (scan_agree cfg L L' hle fuel {})
  intro r; exact AgreeUnless.refl _ _

end Mp4Limit

/-- max_metadata_size: for limits L ≤ L' and every cursor, the run with the smaller limit either ends in
    InvalidInput (a moov payload above L was met) or returns exactly what the run with the larger limit returns. -/
theorem C14_limit {σ} (ops : CursorOps σ) (st : σ) (cfg : Mp4.Config) (L L' : Nat) (hle : L ≤ L') (fuel : Nat) :
    Mp4.sanitizeWith ops st { cfg with maxMetadataSize := L } fuel = .parseErr .invalidInput ∨
    Mp4.sanitizeWith ops st { cfg with maxMetadataSize := L } fuel = Mp4.sanitizeWith ops st { cfg with maxMetadataSize := L' } fuel := by
  rcases run_agree (mp4_sanitizeP_agree cfg L L' hle fuel) ops st with h | h
  · left; simp only [Mp4.sanitizeWith, h]
  · right; simp only [Mp4.sanitizeWith, h]

/-- the limit is compared before anything is allocated or read (C10 `limit_before_alloc`): a payload above the
    limit yields InvalidInput without a `read_exact` -/
theorem C14_limit_before_read (h : Mp4.BoxHeader) (n L : Nat) (hd : h.dataSize = .ok (some n)) (hn : L < n) :
    Mp4.readData h L = .fail .invalidInput := by
  have : ¬ n ≤ L := by omega
  simp [Mp4.readData, Mp4.boxDataSize, hd, bind, Prog.bind, this]

open MediaSan.Mp4 (applyCum) in
/-- cumulative_mdat_box_size: the option rewrites the header of an until-EOF mdat to the 32-bit size `t` and
    touches no other header -/
theorem C14_cumulative_header (cfg : Mp4.Config) (header : Mp4.BoxHeader) :
    (cfg.cumulativeMdatBoxSize = none → applyCum cfg header = header) ∧
    (header.sz ≠ .untilEof → applyCum cfg header = header) ∧
    (∀ t, cfg.cumulativeMdatBoxSize = some t → header.sz = .untilEof → applyCum cfg header = ⟨header.ty, .size t⟩) ∧
    (∀ t, t < 8 → (Mp4.BoxHeader.mk Mp4.MDAT (.size t)).dataSize = .error .invalidInput) := by
  refine ⟨?_, ?_, ?_, ?_⟩
  · intro h; simp only [Mp4.applyCum, h]; split <;> simp_all
  · intro h
    have hd : header.dataSize ≠ .ok none := by
      cases hs : header.sz with
      | untilEof => exact absurd hs h
      | size n => simp only [Mp4.BoxHeader.dataSize, hs, Mp4.BoxSize.toNat?]; split <;> simp
      | ext n => simp only [Mp4.BoxHeader.dataSize, hs, Mp4.BoxSize.toNat?]; split <;> simp
    simp only [Mp4.applyCum]; split
    · rename_i h1 _; exact absurd h1 hd
    · rfl
  · intro t ht hs
    simp [Mp4.applyCum, Mp4.BoxHeader.dataSize, hs, Mp4.BoxSize.toNat?, ht]
  · intro t ht
    have : ¬ (8 + 0 + 0 ≤ t) := by omega
    simp [Mp4.BoxHeader.dataSize, Mp4.BoxSize.toNat?, Mp4.BoxHeader.encodedLen, Mp4.MDAT, this]

section WebpUnknown
open MediaSan.Webp

theorem trailingLoop_agree (k : Nat) (inAnmf : Bool) (fuel : Nat) (r : RS) :
    AgreeUnless .unsupportedChunk (trailingLoop ⟨false⟩ k inAnmf fuel r) (trailingLoop ⟨true⟩ k inAnmf fuel r) := by
  induction fuel generalizing r with
  | zero => exact AgreeUnless.refl _ _
  | succ n ih =>
    unfold trailingLoop
    apply AgreeUnless.bind (AgreeUnless.refl _ _); intro x
    apply agree_ite; · intro _; exact AgreeUnless.refl _ _
    intro _
    apply AgreeUnless.bind (AgreeUnless.refl _ _); intro y
    apply agree_ite; · intro _; exact AgreeUnless.refl _ _
    intro _
    -- `ensure_attach!(config.allow_unknown_chunks, UnsupportedChunk)`: the only use of the option
    show AgreeUnless _ (if (!false) = true then _ else _) (if (!true) = true then _ else _)
    simp only [Bool.not_false, Bool.not_true, if_true, Bool.false_eq_true, if_false]
    exact .stop _

theorem agree_optk {α β} {e : WErr} (f g : α → WP (Option β)) (h : ∀ a, AgreeUnless e (f a) (g a)) (x : Option α) :
    AgreeUnless e (match x with | none => Prog.done none | some r => f r) (match x with | none => Prog.done none | some r => g r) := by
  cases x with
  | none => exact AgreeUnless.refl _ _
  | some a => exact h a

theorem sanitizeFrame_agree (r : RS) (flags cw ch fuel : Nat) :
    AgreeUnless .unsupportedChunk (sanitizeFrame ⟨false⟩ r flags cw ch fuel) (sanitizeFrame ⟨true⟩ r flags cw ch fuel) := by
  unfold sanitizeFrame
  apply AgreeUnless.bind (AgreeUnless.refl _ _); intro r1
  apply AgreeUnless.bind (AgreeUnless.refl _ _); intro x
  dsimp only
  apply AgreeUnless.bind (AgreeUnless.refl _ _); intro y
  apply AgreeUnless.bind (AgreeUnless.refl _ _); intro z
  apply AgreeUnless.bind (AgreeUnless.refl _ _); intro r2
  exact trailingLoop_agree 2 true fuel r2

theorem framesLoop_agree (flags cw ch fuel n : Nat) (r : RS) :
    AgreeUnless .unsupportedChunk (framesLoop ⟨false⟩ flags cw ch fuel n r) (framesLoop ⟨true⟩ flags cw ch fuel n r) := by
  induction n generalizing r with
  | zero => exact AgreeUnless.refl _ _
  | succ n ih =>
    unfold framesLoop
    apply AgreeUnless.bind (AgreeUnless.refl _ _); intro x
    apply agree_ite
    · intro _
      apply AgreeUnless.bind (sanitizeFrame_agree _ flags cw ch fuel)
      intro o
      cases o with
      | none => exact AgreeUnless.refl _ _
      | some r' => exact ih r'
    · intro _; exact AgreeUnless.refl _ _

theorem sanitizeAnimated_agree (r : RS) (flags cw ch fuel : Nat) :
    AgreeUnless .unsupportedChunk (sanitizeAnimated ⟨false⟩ r flags cw ch fuel) (sanitizeAnimated ⟨true⟩ r flags cw ch fuel) := by
  unfold sanitizeAnimated
  apply AgreeUnless.bind (AgreeUnless.refl _ _); intro r1
  apply AgreeUnless.bind (AgreeUnless.refl _ _); intro x
  apply AgreeUnless.bind (AgreeUnless.refl _ _); intro y
  apply agree_ite
  · intro _; exact framesLoop_agree flags cw ch fuel fuel _
  · intro _; exact AgreeUnless.refl _ _

theorem sanitizeExtended_agree (r : RS) (flags cw ch fuel : Nat) :
    AgreeUnless .unsupportedChunk (sanitizeExtended ⟨false⟩ r flags cw ch fuel) (sanitizeExtended ⟨true⟩ r flags cw ch fuel) := by
  unfold sanitizeExtended
  apply AgreeUnless.bind (AgreeUnless.refl _ _); intro r1
  refine AgreeUnless.bind ?_ (fun o => AgreeUnless.refl _ _)
  apply agree_ite
  · intro _; exact sanitizeAnimated_agree _ flags cw ch fuel
  · intro _; exact AgreeUnless.refl _ _

theorem webp_sanitizeP_agree (fuel : Nat) :
    AgreeUnless .unsupportedChunk (sanitizeP ⟨false⟩ fuel) (sanitizeP ⟨true⟩ fuel) := by
  unfold sanitizeP
  dsimp only
  apply AgreeUnless.bind (AgreeUnless.refl _ _); intro r1
  apply AgreeUnless.bind (AgreeUnless.refl _ _); intro x
  apply agree_ite; · intro _; exact AgreeUnless.refl _ _
  intro _
  apply agree_ite; · intro _; exact AgreeUnless.refl _ _
  intro _
  apply AgreeUnless.bind (AgreeUnless.refl _ _); intro y
  refine AgreeUnless.bind ?_ ?_
  · apply agree_ite; · intro _; exact AgreeUnless.refl _ _
    intro _
    apply agree_ite; · intro _; exact AgreeUnless.refl _ _
    intro _
    apply agree_ite
    · intro _
      apply AgreeUnless.bind (AgreeUnless.refl _ _); intro z
      exact sanitizeExtended_agree _ _ _ _ fuel
    · intro _; exact AgreeUnless.refl _ _
  · intro o
    cases o with
    | none => exact AgreeUnless.refl _ _
    | some r' =>
      dsimp only
      exact AgreeUnless.bind (trailingLoop_agree 1 false fuel r') (fun o => AgreeUnless.refl _ _)

end WebpUnknown

/-- allow_unknown_chunks: for every cursor, the run with the option off either ends in UnsupportedChunk (an
    unknown chunk was met where unknown chunks may appear) or returns exactly what the run with the option on returns;
    in particular the option never turns any other error into acceptance, and never changes an accepted input's
    result. -/
theorem C14_unknown {σ} (ops : CursorOps σ) (st : σ) (fuel : Nat) :
    Webp.sanitizeWith ops st ⟨false⟩ fuel = .parseErr .unsupportedChunk ∨
    Webp.sanitizeWith ops st ⟨false⟩ fuel = Webp.sanitizeWith ops st ⟨true⟩ fuel := by
  rcases run_agree (webp_sanitizeP_agree fuel) ops st with h | h
  · left; simp only [Webp.sanitizeWith, h]
  · right; simp only [Webp.sanitizeWith, h]

/-- corollary: what the strict configuration accepts, the permissive one accepts -/
theorem C14_unknown_monotone {σ} (ops : CursorOps σ) (st : σ) (fuel : Nat)
    (h : Webp.sanitizeWith ops st ⟨false⟩ fuel = .ok ()) : Webp.sanitizeWith ops st ⟨true⟩ fuel = .ok () := by
  rcases C14_unknown ops st fuel with h1 | h1
  · rw [h1] at h; cases h
  · rw [← h1]; exact h

/-- corollary: the error kinds other than UnsupportedChunk are configuration-independent -/
theorem C14_unknown_other_errors {σ} (ops : CursorOps σ) (st : σ) (fuel : Nat) (o : Outcome Webp.WErr Unit)
    (h : Webp.sanitizeWith ops st ⟨false⟩ fuel = o) (hne : o ≠ .parseErr .unsupportedChunk) :
    Webp.sanitizeWith ops st ⟨true⟩ fuel = o := by
  rcases C14_unknown ops st fuel with h1 | h1
  · rw [h1] at h; exact absurd h.symm hne
  · rw [← h1]; exact h

/-- corollary of C14_limit: an accepted input's result does not depend on the limit, as long as it is accepted -/
theorem C14_limit_monotone {σ} (ops : CursorOps σ) (st : σ) (cfg : Mp4.Config) (L L' : Nat) (hle : L ≤ L') (fuel : Nat)
    (r : Mp4.Sanitized) (h : Mp4.sanitizeWith ops st { cfg with maxMetadataSize := L } fuel = .ok r) :
    Mp4.sanitizeWith ops st { cfg with maxMetadataSize := L' } fuel = .ok r := by
  rcases C14_limit ops st cfg L L' hle fuel with h1 | h1
  · rw [h1] at h; cases h
  · rw [← h1]; exact h

-- Non-vacuity
example : Mp4.readData ⟨Mp4.MOOV, .size 108⟩ 99 = .fail .invalidInput :=
  C14_limit_before_read _ 100 99 (by decide) (by decide)
example : Mp4.applyCum { cumulativeMdatBoxSize := some 20 } ⟨Mp4.MDAT, .untilEof⟩ = ⟨Mp4.MDAT, .size 20⟩ := by decide

end MediaSan.Props.C14
