/-
  C09 — totality: every input yields Ok or Err, never a panic, abort or hang.

  Termination: every function of the model is accepted by Lean's termination checker (structural recursion, loops
  carry fuel), and no `partial`/`unsafe` definition occurs outside the protocol driver.  What is proved here are the
  panic sites that can be discharged locally; that the whole model never returns `panic` or `outOfFuel` is in
  addition required of every generated case by the correspondence check (a `panic` of the model is a DIFF).
-/
import MediaSan.Mp4.Sanitize
import MediaSan.Lemmas.Prog
namespace MediaSan.Props.C09
open MediaSan MediaSan.Mp4

/-- the chunk-offset rewrite never panics, for any table bytes, width and displacement (the `entry.get().unwrap()`
    and `unreachable!` of lib.rs:440-455 are dead: `chunks_exact` only yields whole entries) -/
theorem C09_displace_no_panic (width : Nat) (disp : Int) (fuel : Nat) (bs : Bytes) :
    ∀ site, displaceEntries width disp fuel bs ≠ .panic site := by
  induction fuel generalizing bs with
  | zero => simp [displaceEntries]
  | succ n ih =>
    intro site
    unfold displaceEntries
    split
    · simp
    · dsimp only
      split
      · simp
      ·         cases h : displaceEntries width disp n (List.drop width bs) with
        | ok r => simp
        | err e => simp
        | panic s => exact absurd h (ih _ s)

theorem sumU32_ok (acc : Nat) (cs : List Nat) (h : acc + cs.sum ≤ u32Max) : sumU32 acc cs = .ok (acc + cs.sum) := by
  induction cs generalizing acc with
  | nil => simp [sumU32]
  | cons c cs ih =>
    simp only [List.sum_cons] at h
    have h1 : acc + c ≤ u32Max := by omega
    simp only [sumU32, h1, if_true, List.sum_cons]
    rw [ih (acc + c) (by omega)]
    congr 1; omega

/-- the u32 sum of the per-track chunk counts (lib.rs:361) cannot overflow when the counts fit the moov payload:
    each table of `c` entries occupies at least 4·c bytes of a payload of at most 2^30 bytes -/
theorem C09_chunk_count_no_overflow (c : Nat) (cs : List Nat) (payload : Nat) (hp : payload ≤ 1073741824)
    (hfit : 4 * (c + cs.sum) ≤ payload) : sumU32 c cs = .ok (c + cs.sum) :=
  sumU32_ok c cs (by unfold u32Max; omega)

/-- `skip_box(..) + header.encoded_len()` (lib.rs:295, 338, 371) cannot overflow for an explicitly sized box: the
    data size is the declared size minus the header length, and the declared size is a u32 or u64 field -/
theorem C09_sized_box_add (h : BoxHeader) (n d : Nat) (hs : h.sz.toNat? = some n) (hn : n ≤ u64Max)
    (hd : h.dataSize = .ok (some d)) : addU64 "skip_box + encoded_len" d h.encodedLen = .done n := by
  have : d + h.encodedLen = n := by
    simp only [BoxHeader.dataSize, hs] at hd
    split at hd
    · simp only [Except.ok.injEq, Option.some.injEq] at hd; omega
    · cases hd
  simp only [addU64, this, hn, if_true]

-- Non-vacuity
example : displaceEntries 4 (-1) 1 [0, 0, 0, 0] = .err .invalidInput := by decide
example : sumU32 3 [4, 5] = .ok 12 := by decide

end MediaSan.Props.C09
