/-
  C09 — totality: every input yields Ok or Err, never a panic, abort or hang.

  Termination: every function of the model is accepted by Lean's termination checker (structural recursion, loops
  carry fuel), and no `partial`/`unsafe` definition occurs outside the protocol driver.  What is proved here are the
  panic sites that can be discharged locally; that the whole model never returns `panic` or `outOfFuel` is in
  addition required of every generated case by the correspondence check (a `panic` of the model is a DIFF).
-/
import MediaSan.Mp4.Sanitize
import MediaSan.Lemmas.Prog
import MediaSan.Lemmas.ScanSafe
import MediaSan.Lemmas.WebpSafe
import MediaSan.Lemmas.Vp8lSafe
import MediaSan.Lemmas.WebpTerm
import MediaSan.Lemmas.BufValidator
namespace MediaSan.Props.C09
open MediaSan MediaSan.Mp4

/-- the chunk-offset rewrite never panics, for any table bytes, width and displacement (the `entry.get().unwrap()`
    and `unreachable!` of lib.rs:440-455 are dead: `chunks_exact` only yields whole entries) -/
theorem C09_displace_no_panic (width : Nat) (disp : Int) (fuel : Nat) (bs : Bytes) :
    ∀ site, displaceEntries width disp fuel bs ≠ .panic site := by
  induction fuel generalizing bs with
  | zero => simp [displaceEntries]
  | succ n ih =>
    intro site
    unfold displaceEntries
    split
    · simp
    · dsimp only
      split
      · simp
      ·         cases h : displaceEntries width disp n (List.drop width bs) with
        | ok r => simp
        | err e => simp
        | panic s => exact absurd h (ih _ s)

/-- the u32 sum of the per-track chunk counts (lib.rs:361) cannot overflow when the counts fit the moov payload:
    each table of `c` entries occupies at least 4·c bytes of a payload of at most 2^30 bytes -/
theorem C09_chunk_count_no_overflow (c : Nat) (cs : List Nat) (payload : Nat) (hp : payload ≤ 1073741824)
    (hfit : 4 * (c + cs.sum) ≤ payload) : sumU32 c cs = .ok (c + cs.sum) :=
  sumU32_ok c cs (by unfold u32Max; omega)

/-- `skip_box(..) + header.encoded_len()` (lib.rs:295, 338, 371) cannot overflow for an explicitly sized box: the
    data size is the declared size minus the header length, and the declared size is a u32 or u64 field -/
theorem C09_sized_box_add (h : BoxHeader) (n d : Nat) (hs : h.sz.toNat? = some n) (hn : n ≤ u64Max)
    (hd : h.dataSize = .ok (some d)) : addU64 "skip_box + encoded_len" d h.encodedLen = .done n := by
  have : d + h.encodedLen = n := by
    simp only [BoxHeader.dataSize, hs] at hd
    split at hd
    · simp only [Except.ok.injEq, Option.some.injEq] at hd; omega
    · cases hd
  simp only [addU64, this, hn, if_true]

/-- MP4 totality on the ideal cursor (seek-based or strict), for EVERY stream shorter than 2^64 bytes and every
    configuration with max_metadata_size ≤ 4·(2^32−1) (≈ 16 GiB; the property asks for ≤ 1 GiB) and a 32-bit cumulative
    size: the model of `sanitize` returns a value, a parse error or an I/O error — it never panics (no u64/u32
    arithmetic overflow, no unreachable!/unwrap site) and never exhausts its loop fuel (the scan loop terminates within
    len/8 + 2 iterations because every iteration consumes at least a box header).  Proved with a program logic over
    I/O programs (`Safe`): loop invariant "the cursor is a u64, the collected media span lies behind it, the kept
    ftyp/moov payloads are within their limits". -/
theorem C09_mp4_total (s : Stream) (kind : SkipKind) (cfg : Config) (hlen : s.len < u64Lim)
    (hcum : ∀ t, cfg.cumulativeMdatBoxSize = some t → t ≤ u32Max) (hmax : cfg.maxMetadataSize ≤ 4 * u32Max) :
    (∃ r, Mp4.sanitize s kind cfg = .ok r) ∨ (∃ e, Mp4.sanitize s kind cfg = .parseErr e) ∨
    (∃ k, Mp4.sanitize s kind cfg = .ioErr k) := by
  have h := sanitizeP_safe s kind hlen cfg hcum hmax
  unfold Safe at h
  simp only [Mp4.sanitize, Mp4.sanitizeWith, run_eq_runF]
  cases hr : (sanitizeP cfg (fuelFor s)).runF (idealOps s kind) 0 with
  | ok x =>
    obtain ⟨a, p⟩ := x
    rw [hr] at h
    cases a with
    | none => exact absurd rfl h
    | some r => left; exact ⟨r, rfl⟩
  | parseErr e => right; left; exact ⟨e, rfl⟩
  | ioErr k => right; right; exact ⟨k, rfl⟩
  | panic site => rw [hr] at h; exact h.elim
  | outOfFuel => rw [hr] at h; exact h.elim

/-- the eager moov validation never panics for payloads up to 4·(2^32−1) bytes: the chunk counts are paid for by the
    payload bytes (4·Σcounts ≤ |payload|), so their u32 sum cannot overflow -/
theorem C09_validate_no_panic (payload : Bytes) (hp : payload.length ≤ 4 * u32Max) (site : String) :
    validateMoov (.bytes payload) ≠ .panic site :=
  validateMoov_np payload hp site

/-- the rewrite after the loop never panics for any moov tree and displacement -/
theorem C09_displaceMoov_no_panic (disp : Int) (d : Data L5) (site : String) : displaceMoov disp d ≠ .panic site :=
  displaceMoov_np disp d site

/-- the lossless (VP8L / lossless ALPH) validator never panics, for EVERY payload, every declared size and both
    strictness settings: `read_huffman` never meets an empty node or runs out of depth (every code handed to it comes
    out of `compile_read_tree`, which only returns complete tries, and the walk is bounded by the height), and the
    `unreachable!` for a code-length symbol ≥ 19 (lossless.rs:586) is dead because the code-length code only ever
    names the 19 entries of CODE_ORDER (table regenerated from the source) -/
theorem C09_vp8l_no_panic (data : ByteArray) (width height : Nat) (cfg : Vp8l.LCfg) (site : String) :
    Vp8l.validate data width height cfg ≠ .error (.panic site) :=
  Vp8l.validate_np data width height cfg site

/-- ... and neither does the validator as the code runs it, through the bit buffer: for every capacity of at least
    11 bytes `validateBuf cap` is `validate` (`C19_validator_buffered`), so no payload, declared size or placement of
    the refills reaches a panic site -/
theorem C09_vp8l_buffered_no_panic (cap : Nat) (hcap : 11 ≤ cap) (data : Bytes) (width height : Nat)
    (cfg : Vp8l.LCfg) (site : String) : Vp8l.validateBuf cap data width height cfg ≠ .error (.panic site) := by
  rw [Vp8l.validateBuf_eq cap hcap]
  exact Vp8l.validate_np _ width height cfg site

/-- the whole WebP sanitizer on the ideal cursor (seek-based or strict skip) never panics, for EVERY stream and
    configuration: no chunk-reader protocol assertion ("read_header must be read after peek_header"), no unreachable
    padding state, no `stream_position() - 8` underflow, no codec read on a buffer shorter than the codec needs, no
    panic site of the lossless validator.  Proved with the program logic `Safe` and the reader-stack invariant
    `PeekInv` (a peeked header was read from the stream, so the position is at least 8). -/
theorem C09_webp_no_panic (s : Stream) (kind : SkipKind) (cfg : Webp.Config) (site : String) :
    Webp.sanitize s kind cfg ≠ .panic site := by
  have hV : Webp.ValidateNP := fun data w h site => Vp8l.validate_np data w h .strict site
  have h := Webp.sanitizeP_safe s kind hV cfg (s.len / 8 + 2)
  unfold Safe at h
  simp only [Webp.sanitize, Webp.sanitizeWith, run_eq_runF]
  cases hr : (Webp.sanitizeP cfg (s.len / 8 + 2)).runF (idealOps s kind) 0 with
  | ok x => obtain ⟨a, p⟩ := x; cases a <;> (intro hh; cases hh)
  | parseErr e => intro hh; cases hh
  | ioErr k => intro hh; cases hh
  | panic st => rw [hr] at h; exact h.elim
  | outOfFuel => rw [hr] at h; exact h.elim

/-- WebP totality on the ideal cursor (seek-based or strict), for EVERY stream and configuration: the model of
    webpsan's `sanitize` returns Ok, a parse error or an I/O error — it never panics and never exhausts its loop fuel
    (a header read from the stream costs 8 bytes that must exist, an ANMF body 16, so the unknown-chunk loops and the
    frame loop end within len/8 + 2 iterations wherever in the stream they start). -/
theorem C09_webp_total (s : Stream) (kind : SkipKind) (cfg : Webp.Config) :
    Webp.sanitize s kind cfg = .ok () ∨ (∃ e, Webp.sanitize s kind cfg = .parseErr e) ∨
    (∃ k, Webp.sanitize s kind cfg = .ioErr k) := by
  have hV : Webp.ValidateNP := fun data w h site => Vp8l.validate_np data w h .strict site
  have h := Webp.sanitizeP_total s kind hV cfg (s.len / 8 + 2) (Webp.fuelOK_default s)
  unfold Safe at h
  simp only [Webp.sanitize, Webp.sanitizeWith, run_eq_runF]
  cases hr : (Webp.sanitizeP cfg (s.len / 8 + 2)).runF (idealOps s kind) 0 with
  | ok x =>
    obtain ⟨a, p⟩ := x
    rw [hr] at h
    dsimp only at h
    subst h
    left; rfl
  | parseErr e => right; left; exact ⟨e, rfl⟩
  | ioErr k => right; right; exact ⟨k, rfl⟩
  | panic st => rw [hr] at h; exact h.elim
  | outOfFuel => rw [hr] at h; exact h.elim

-- Non-vacuity
example : displaceEntries 4 (-1) 1 [0, 0, 0, 0] = .err .invalidInput := by decide
example : sumU32 3 [4, 5] = .ok 12 := by decide

end MediaSan.Props.C09
