/-
  C16 — MP4 box codec: parse/serialize round-trip and length agreement.
-/
import MediaSan.Lemmas.Mp4Tree
import MediaSan.Lemmas.Mp4Displace
import MediaSan.Lemmas.WebpCodec
import MediaSan.Generated.Mp4Consts
namespace MediaSan.Props.C16
open MediaSan MediaSan.Mp4

/-- A well-formed header (anything `decodeHeader` or the constructors produce) decodes back to itself and
    leaves the rest of the buffer untouched. -/
theorem C16_header_roundtrip (h : BoxHeader) (hw : h.WF) (r : Bytes) :
    decodeHeader (encodeHeader h ++ r) = some (h, r) := decode_encode h hw r

/-- `put_buf` of a header writes exactly `encoded_len` bytes. -/
theorem C16_header_len (h : BoxHeader) (hw : h.WF) : (encodeHeader h).length = h.encodedLen :=
  encodeHeader_length h hw

/-- Whatever `decodeHeader` accepts is well-formed, and re-encoding it reproduces the bytes consumed. -/
theorem C16_header_decode (bs : Bytes) (h : BoxHeader) (r : Bytes) (hd : decodeHeader bs = some (h, r)) :
    h.WF ∧ encodeHeader h ++ r = bs ∧ r.length + h.encodedLen = bs.length :=
  ⟨(decode_wf bs h r hd).1, (decode_wf bs h r hd).2, decode_length bs h r hd⟩

/-- Constructed headers declare exactly header + payload, use the 64-bit form only when the 32-bit form
    cannot hold the size, are never until-EOF, decode back to themselves, and construction fails exactly
    when the size would leave u64. -/
theorem C16_withDataSize (ty : BoxType) (hty : ty.WF) (n : Nat) :
    match withDataSize ty n with
    | .ok h => h.ty = ty ∧ h.WF ∧ h.dataSize = .ok (some n) ∧
        (match h.sz with
          | .size _ => n + 8 + tyLen ty ≤ u32Max
          | .ext _ => u32Max < n + 8 + tyLen ty
          | .untilEof => False)
    | .error e => e = .invalidInput ∧ u64Max < n + 16 + tyLen ty :=
  withDataSize_spec ty hty n

theorem C16_withDataSize_decodes (ty : BoxType) (hty : ty.WF) (n : Nat) (h : BoxHeader)
    (hh : withDataSize ty n = .ok h) (r : Bytes) : decodeHeader (encodeHeader h ++ r) = some (h, r) := by
  have := withDataSize_spec ty hty n
  rw [hh] at this
  exact decode_encode h this.2.1 r

/-- Parsing a sequence of boxes and serializing it again reproduces the bytes, and `encoded_len` is their
    length — for every byte string `Boxes::parse` accepts (any nesting serializer for the children). -/
theorem C16_box_roundtrip {C} (K : Ser C) (b : Bytes) (cs : List (Box C))
    (h : parseContainer b = .ok cs) : (listSer K).ser cs = b ∧ (listSer K).len cs = b.length :=
  rt_container K b cs h

/-- The typed accessors the sanitizer uses (moov → every trak → mdia → minf → stbl → stco|co64, parsing each
    lazily on the way) leave the serialization of the moov payload, and its `encoded_len`, unchanged. -/
theorem C16_lazy_parse_invariant (payload : Bytes) (d : Data L5) (n : Nat)
    (h : validateMoov (.bytes payload) = .ok (d, n)) :
    d.ser ser5 = payload ∧ d.len ser5 = payload.length := by
  simp only [validateMoov, bind] at h
  cases hm : (Data.bytes payload : Data L5).modify parseMoov (forTraks (fun co => .ok (co, co.count))) with
  | ok r =>
    obtain ⟨d', counts⟩ := r
    have hp : PresR (fun a b => a = b) coSer (fun (co : Co) => (PureRes.ok (co, co.count) : PureRes (Co × Nat))) := by
      intro c c' a hc
      simp only [PureRes.ok.injEq, Prod.mk.injEq] at hc
      obtain ⟨rfl, _⟩ := hc; exact ⟨rfl, rfl⟩
    have := modify_pres congr_eq ser5 parseMoov _ rt_moov (forTraks_pres congr_eq _ hp) _ d' counts hm
    simp only [hm] at h
    cases counts with
    | nil =>
      simp only [pure, PureRes.ok.injEq, Prod.mk.injEq] at h
      obtain ⟨rfl, _⟩ := h; exact this
    | cons c cs =>
      simp only at h
      cases hs : sumU32 c cs with
      | ok t =>
        simp only [hs, pure, PureRes.ok.injEq, Prod.mk.injEq] at h
        obtain ⟨rfl, _⟩ := h; exact this
      | err e => simp [hs] at h
      | panic s => simp [hs] at h
  | err e => simp [hm] at h
  | panic s => simp [hm] at h

/-- Table obligation over the extracted `mp4_int!` rows: every integer primitive reads and writes with the
    same byte order, and that order is big-endian (single-byte types are order-free). -/
theorem C16_prims_table :
    ∀ row ∈ Generated.mp4Ints, row.2.Coherent ∧ (row.2.bytes ≤ 1 ∨ (row.2.get = .be ∧ row.2.put = .be)) := by
  decide

/-- Every row of the extracted table round-trips both ways. -/
theorem C16_prims (row : String × Webp.IntCodec) (h : row ∈ Generated.mp4Ints) :
    (∀ v, v < 256 ^ row.2.bytes → toNatE row.2.get (ofNatE row.2.put row.2.bytes v) = v) ∧
    (∀ bs : Bytes, bs.length = row.2.bytes → ofNatE row.2.put row.2.bytes (toNatE row.2.get bs) = bs) :=
  ⟨fun v hv => Webp.toNatE_ofNatE_coh row.2 (C16_prims_table row h).1 v hv,
   fun bs hl => Webp.ofNatE_toNatE_coh row.2 (C16_prims_table row h).1 bs hl⟩

-- Non-vacuity
example : decodeHeader (encodeHeader ⟨MOOV, .ext 4294967304⟩ ++ [1, 2]) = some (⟨MOOV, .ext 4294967304⟩, [1, 2]) := by decide
example : decodeHeader [0,0,0,16, 0x75,0x75,0x69,0x64, 1,2,3,4,5,6,7,8] = none := by decide   -- uuid cut short
example : (parseContainer [0,0,0,9, 0x66,0x72,0x65,0x65, 7, 0,0,0,0, 0x61,0x62,0x63,0x64, 1] : PureRes (List (Box Co))) =
    .ok [⟨⟨.fourcc [0x66,0x72,0x65,0x65], .size 9⟩, .bytes [7]⟩, ⟨⟨.fourcc [0x61,0x62,0x63,0x64], .untilEof⟩, .bytes [1]⟩] := by decide

end MediaSan.Props.C16
