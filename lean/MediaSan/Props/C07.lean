/-
  C07 — no lossless stream is accepted that the reference decoder rejects.  
-/
import MediaSan.Vp8l.Lossless
import MediaSan.Lemmas.Kraft
namespace MediaSan.Props.C07
open MediaSan MediaSan.Vp8l MediaSan.Generated

/-- Table obligation: the extracted DISTANCE_MAP is the table of RFC 9649 §5.2.2 (120 rows). -/
def rfc9649DistanceMap : List (Int × Nat) :=
  [(0, 1), (1, 0), (1, 1), (-1, 1), (0, 2), (2, 0), (1, 2), (-1, 2), (2, 1), (-2, 1), (2, 2), (-2, 2), (0, 3), (3, 0),
   (1, 3), (-1, 3), (3, 1), (-3, 1), (2, 3), (-2, 3), (3, 2), (-3, 2), (0, 4), (4, 0), (1, 4), (-1, 4), (4, 1), (-4, 1),
   (3, 3), (-3, 3), (2, 4), (-2, 4), (4, 2), (-4, 2), (0, 5), (3, 4), (-3, 4), (4, 3), (-4, 3), (5, 0), (1, 5), (-1, 5),
   (5, 1), (-5, 1), (2, 5), (-2, 5), (5, 2), (-5, 2), (4, 4), (-4, 4), (3, 5), (-3, 5), (5, 3), (-5, 3), (0, 6), (6, 0),
   (1, 6), (-1, 6), (6, 1), (-6, 1), (2, 6), (-2, 6), (6, 2), (-6, 2), (4, 5), (-4, 5), (5, 4), (-5, 4), (3, 6), (-3, 6),
   (6, 3), (-6, 3), (0, 7), (7, 0), (1, 7), (-1, 7), (5, 5), (-5, 5), (7, 1), (-7, 1), (4, 6), (-4, 6), (6, 4), (-6, 4),
   (2, 7), (-2, 7), (7, 2), (-7, 2), (3, 7), (-3, 7), (7, 3), (-7, 3), (5, 6), (-5, 6), (6, 5), (-6, 5), (8, 0), (4, 7),
   (-4, 7), (7, 4), (-7, 4), (8, 1), (8, 2), (6, 6), (-6, 6), (8, 3), (5, 7), (-5, 7), (7, 5), (-7, 5), (8, 4), (6, 7),
   (-6, 7), (7, 6), (-7, 6), (8, 5), (7, 7), (-7, 7), (8, 6), (8, 7)]

theorem C07_distance_map : distanceMap = rfc9649DistanceMap := by decide

/-- Table obligation: the code-length code order, alphabet sizes and numeric bounds are the specification's. -/
theorem C07_tables :
    codeOrder = [17, 18, 0, 1, 2, 3, 4, 5, 16, 6, 7, 8, 9, 10, 11, 12, 13, 14, 15] ∧
    lz77MaxSymbol = 39 ∧ cacheOrderMax = 11 ∧ predictorMax = 13 ∧ distAlphabet = 40 ∧
    (colorIndex8, colorIndex4, colorIndex2) = (2, 4, 16) ∧
    (repeatBase16, repeatBits16, repeatBase17, repeatBits17, repeatBase18, repeatBits18) = (3, 2, 3, 3, 11, 7) := by
  decide

/-- bad cache size: a colour-cache order of 0 or above 11 is rejected (InvalidInput), whatever follows -/
theorem C07_reject_cache_bits (b : ByteArray) (p : Nat) (order : Nat) (p' : Nat)
    (h1 : readBit b p = .ok (true, p')) (p'' : Nat) (h2 : readBits 4 b p' = .ok (order, p''))
    (hbad : order = 0 ∨ cacheOrderMax < order) : readColorCache b p = .error .invalidInput := by
  rcases hbad with h0 | hgt
  · subst h0
    simp [readColorCache, h1, h2, ensure, cacheOrderMax]
  · have : ¬ order ≤ cacheOrderMax := by omega
    simp [readColorCache, h1, h2, ensure, this]

/-- back-reference before the start or past the end of a sub-image: rejected (InvalidInput) -/
theorem C07_reject_backref_range (dist idx len total : Nat) (h : idx < dist ∨ total - idx < len) :
    ((do ensure (decide (dist ≤ idx)) .invalidInput
         ensure (decide (len ≤ total - idx)) .invalidInput) : BR Unit) = BR.fail .invalidInput := by
  funext b p
  rcases h with h1 | h2
  · have : ¬ dist ≤ idx := by omega
    simp [ensure, this]
  · by_cases hd : dist ≤ idx
    · have : ¬ len ≤ total - idx := by omega
      simp [ensure, hd, this]
    · simp [ensure, hd]

/-- an LZ77 prefix code above 39 (e.g. a distance symbol outside its alphabet) is rejected when used -/
theorem C07_reject_lz77_symbol (s : Nat) (h : lz77MaxSymbol < s) : readLz77 s = BR.fail .invalidInput := by
  have h3 : ¬ s ≤ 3 := by unfold lz77MaxSymbol at h; omega
  have h4 : ¬ s ≤ lz77MaxSymbol := by omega
  simp [readLz77, h3, h4]

theorem newCode_err (lens : List (Nat × Nat)) : (∃ c, newCode lens = .ok c) ∨ newCode lens = .error .invalidPrefixCode := by
  unfold newCode fromSymbols
  cases compileReadTree (canonicalSymbols lens) with
  | ok t => left; exact ⟨_, rfl⟩
  | error e => right; rfl

/-- incomplete or over-subscribed prefix code: EVERY code-length vector that is neither the single symbol of
    length 1 nor Kraft-complete (Σ 2^(H−len) = 2^H) is refused with InvalidVp8lPrefixCode by the builder every
    prefix code of a stream goes through (simple codes, normal codes and the code-length code alike) -/
theorem C07_reject_incomplete_or_oversubscribed (lens : List (Nat × Nat)) (H : Nat) (hH : ∀ x ∈ lens, x.2 ≤ H)
    (hsingle : ¬ ∃ s, (sortByLenSym lens).filter (fun x => x.2 ≠ 0) = [(s, 1)]) (hk : kraftW H lens ≠ 2 ^ H) :
    newCode lens = .error .invalidPrefixCode := by
  rcases newCode_err lens with ⟨c, hc⟩ | h
  · rcases newCode_kraft lens c H hH hc with h1 | h2
    · exact absurd h1 hsingle
    · exact absurd h2 hk
  · exact h

/-- duplicate transform: one round of the transform loop of `LosslessImage::read` - when the transform just read
    has a type already seen, the whole read fails with InvalidInput, whatever follows -/
theorem C07_reject_duplicate_transform (cfg : LCfg) (height fuel width : Nat) (seen : List TransformType)
    (b : ByteArray) (p p1 p2 : Nat) (ty : TransformType) (width' : Nat)
    (hbit : readBit b p = .ok (true, p1)) (ht : readTransform cfg width height b p1 = .ok ((ty, width'), p2))
    (hdup : ty ∈ seen) :
    readTransforms cfg height (fuel + 1) width seen b p = .error .invalidInput := by
  simp [readTransforms, hbit, ht, ensure, hdup]

/-- invalid predictor (and every per-pixel callback verdict): a literal pixel of a sub-image whose green value the
    callback refuses fails the pixel loop of `EntropyCodedImage::read` with InvalidInput -/
theorem C07_reject_predictor (g : Group) (cache : Option Nat) (width total fuel idx acc : Nat) (check : Nat → Bool)
    (b : ByteArray) (p p1 p2 p3 p4 sym r bl a : Nat) (hidx : idx < total)
    (h1 : readSym g.green b p = .ok (sym, p1)) (hs : sym < 256)
    (h2 : readSym g.red b p1 = .ok (r, p2)) (h3 : readSym g.blue b p2 = .ok (bl, p3))
    (h4 : readSym g.alpha b p3 = .ok (a, p4)) (hbad : check sym = false) :
    pixelLoop g cache width total check (fuel + 1) idx acc b p = .error .invalidInput := by
  have : ¬ idx ≥ total := by omega
  simp [pixelLoop, this, h1, hs, h2, h3, h4, ensure, hbad]

/-- back-reference before the start or past the end of a sub-image, on the pixel loop itself: a length/distance
    pair whose distance exceeds the pixels decoded so far, or whose length exceeds the pixels left, is InvalidInput -/
theorem C07_reject_backref (g : Group) (cache : Option Nat) (width total fuel idx acc : Nat) (check : Nat → Bool)
    (b : ByteArray) (p p1 p2 p3 p4 sym len dsym dcode : Nat) (hidx : idx < total)
    (h1 : readSym g.green b p = .ok (sym, p1)) (hs : 256 ≤ sym) (hs' : sym < 280)
    (h2 : readLz77 (sym - 256) b p1 = .ok (len, p2)) (h3 : readSym g.dist b p2 = .ok (dsym, p3))
    (h4 : readLz77 dsym b p3 = .ok (dcode, p4))
    (hbad : idx < distOf dcode width ∨ total - idx < len) :
    pixelLoop g cache width total check (fuel + 1) idx acc b p = .error .invalidInput := by
  have h0 : ¬ idx ≥ total := by omega
  have hs2 : ¬ sym < 256 := by omega
  rcases hbad with hb | hb
  · have : ¬ distOf dcode width ≤ idx := by omega
    simp [pixelLoop, h0, h1, hs2, hs', h2, h3, h4, ensure, this]
  · have : ¬ len ≤ total - idx := by omega
    by_cases hd : distOf dcode width ≤ idx
    · simp [pixelLoop, h0, h1, hs2, hs', h2, h3, h4, ensure, this, hd]
    · simp [pixelLoop, h0, h1, hs2, hs', h2, h3, h4, ensure, hd]

/-- symbol outside its alphabet (colour-cache index at or above the cache size) -/
theorem C07_reject_cache_index (g : Group) (cache : Option Nat) (width total fuel idx acc : Nat) (check : Nat → Bool)
    (b : ByteArray) (p p1 sym : Nat) (hidx : idx < total)
    (h1 : readSym g.green b p = .ok (sym, p1)) (hs : 280 ≤ sym) (hbad : cacheLen cache ≤ sym - 280) :
    pixelLoop g cache width total check (fuel + 1) idx acc b p = .error .invalidInput := by
  have h0 : ¬ idx ≥ total := by omega
  have hs2 : ¬ sym < 256 := by omega
  have hs3 : ¬ sym < 280 := by omega
  have : ¬ sym - 280 < cacheLen cache := by omega
  simp [pixelLoop, h0, h1, hs2, hs3, ensure, this]

/-- over-long repeat run: a repeat code (16/17/18) that would write past the alphabet ends the code-length loop of
    `read_prefix_code` with InvalidVp8lPrefixCode -/
theorem C07_reject_repeat_overrun (clc : Code) (maxCount reads n last : Nat) (syms : List (Nat × Nat))
    (b : ByteArray) (p p1 p2 code x : Nat) (hn : n ≠ maxCount)
    (h1 : readSym clc b p = .ok (code, p1))
    (hrep : (code = 16 ∧ readBits repeatBits16 b p1 = .ok (x, p2) ∧ maxCount < n + (repeatBase16 + x)) ∨
            (code = 17 ∧ readBits repeatBits17 b p1 = .ok (x, p2) ∧ maxCount < n + (repeatBase17 + x)) ∨
            (code = 18 ∧ readBits repeatBits18 b p1 = .ok (x, p2) ∧ maxCount < n + (repeatBase18 + x))) :
    readCodeLengths clc maxCount (reads + 1) n last syms b p = .error .invalidPrefixCode := by
  rcases hrep with ⟨hc, hx, hov⟩ | ⟨hc, hx, hov⟩ | ⟨hc, hx, hov⟩
  · have : ¬ n + (repeatBase16 + x) ≤ maxCount := by omega
    subst hc
    simp [readCodeLengths, hn, h1, hx, ensure, this, pure, BR.pure]
  · have : ¬ n + (repeatBase17 + x) ≤ maxCount := by omega
    subst hc
    simp [readCodeLengths, hn, h1, hx, ensure, this, pure, BR.pure]
  · have : ¬ n + (repeatBase18 + x) ≤ maxCount := by omega
    subst hc
    simp [readCodeLengths, hn, h1, hx, ensure, this, pure, BR.pure]

/-- over-long symbol count: an explicit max_symbol above the alphabet size is InvalidInput -/
theorem C07_reject_symbol_count (cfg : LCfg) (alphabet : Nat) (b : ByteArray) (p p1 p2 p3 p4 p5 k v : Nat) (clc : Code)
    (h1 : readBit b p = .ok (false, p1)) (h2 : readCodeLengthCode cfg b p1 = .ok (clc, p2))
    (h3 : readBit b p2 = .ok (true, p3)) (h4 : readBits 3 b p3 = .ok (k, p4))
    (h5 : readBits (2 + 2 * k) b p4 = .ok (v, p5)) (hbad : alphabet < min (2 + v) u16Max) :
    readPrefixCode cfg alphabet b p = .error .invalidInput := by
  have : ¬ min (2 + v) u16Max ≤ alphabet := by omega
  simp [readPrefixCode, h1, h2, h3, h4, h5, ensure, this, pure, BR.pure]

-- Non-vacuity: an incomplete and an over-subscribed vector meet the hypotheses of the prefix-code theorem
example : (sortByLenSym [(0,2),(1,2),(2,2)]).filter (fun x => x.2 ≠ 0) = [(0,2),(1,2),(2,2)] ∧
    kraftW 2 [(0,2),(1,2),(2,2)] = 3 ∧ kraftW 1 [(0,1),(1,1),(2,1)] = 3 := by decide

-- Non-vacuity: the documentation's 1x1 example stream is accepted by the model; a flipped cache order is not
example : validate (ByteArray.mk #[0x88, 0x88, 0x08]) 1 1 = .ok () := by decide
example : parseVp8lHeader (ByteArray.mk #[0x2f, 0, 0, 0, 0]) = .ok (1, 1) := by decide
example : parseVp8lHeader (ByteArray.mk #[0x2f, 0, 0, 0, 0x20]) = .error .unsupportedVersion := by decide

end MediaSan.Props.C07
