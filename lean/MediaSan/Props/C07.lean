/-
  C07 — no lossless stream is accepted that the reference decoder rejects.  (first instalment)
-/
import MediaSan.Vp8l.Lossless
namespace MediaSan.Props.C07
open MediaSan MediaSan.Vp8l MediaSan.Generated

/-- Table obligation: the extracted DISTANCE_MAP is the table of RFC 9649 §5.2.2 (120 rows). -/
def rfc9649DistanceMap : List (Int × Nat) :=
  [(0, 1), (1, 0), (1, 1), (-1, 1), (0, 2), (2, 0), (1, 2), (-1, 2), (2, 1), (-2, 1), (2, 2), (-2, 2), (0, 3), (3, 0),
   (1, 3), (-1, 3), (3, 1), (-3, 1), (2, 3), (-2, 3), (3, 2), (-3, 2), (0, 4), (4, 0), (1, 4), (-1, 4), (4, 1), (-4, 1),
   (3, 3), (-3, 3), (2, 4), (-2, 4), (4, 2), (-4, 2), (0, 5), (3, 4), (-3, 4), (4, 3), (-4, 3), (5, 0), (1, 5), (-1, 5),
   (5, 1), (-5, 1), (2, 5), (-2, 5), (5, 2), (-5, 2), (4, 4), (-4, 4), (3, 5), (-3, 5), (5, 3), (-5, 3), (0, 6), (6, 0),
   (1, 6), (-1, 6), (6, 1), (-6, 1), (2, 6), (-2, 6), (6, 2), (-6, 2), (4, 5), (-4, 5), (5, 4), (-5, 4), (3, 6), (-3, 6),
   (6, 3), (-6, 3), (0, 7), (7, 0), (1, 7), (-1, 7), (5, 5), (-5, 5), (7, 1), (-7, 1), (4, 6), (-4, 6), (6, 4), (-6, 4),
   (2, 7), (-2, 7), (7, 2), (-7, 2), (3, 7), (-3, 7), (7, 3), (-7, 3), (5, 6), (-5, 6), (6, 5), (-6, 5), (8, 0), (4, 7),
   (-4, 7), (7, 4), (-7, 4), (8, 1), (8, 2), (6, 6), (-6, 6), (8, 3), (5, 7), (-5, 7), (7, 5), (-7, 5), (8, 4), (6, 7),
   (-6, 7), (7, 6), (-7, 6), (8, 5), (7, 7), (-7, 7), (8, 6), (8, 7)]

theorem C07_distance_map : distanceMap = rfc9649DistanceMap := by decide

/-- Table obligation: the code-length code order, alphabet sizes and numeric bounds are the specification's. -/
theorem C07_tables :
    codeOrder = [17, 18, 0, 1, 2, 3, 4, 5, 16, 6, 7, 8, 9, 10, 11, 12, 13, 14, 15] ∧
    lz77MaxSymbol = 39 ∧ cacheOrderMax = 11 ∧ predictorMax = 13 ∧ distAlphabet = 40 ∧
    (colorIndex8, colorIndex4, colorIndex2) = (2, 4, 16) ∧
    (repeatBase16, repeatBits16, repeatBase17, repeatBits17, repeatBase18, repeatBits18) = (3, 2, 3, 3, 11, 7) := by
  decide

/-- bad cache size: a colour-cache order of 0 or above 11 is rejected (InvalidInput), whatever follows -/
theorem C07_reject_cache_bits (b : ByteArray) (p : Nat) (order : Nat) (p' : Nat)
    (h1 : readBit b p = .ok (true, p')) (p'' : Nat) (h2 : readBits 4 b p' = .ok (order, p''))
    (hbad : order = 0 ∨ cacheOrderMax < order) : readColorCache b p = .error .invalidInput := by
  rcases hbad with h0 | hgt
  · subst h0
    simp [readColorCache, h1, h2, ensure, cacheOrderMax]
  · have : ¬ order ≤ cacheOrderMax := by omega
    simp [readColorCache, h1, h2, ensure, this]

/-- back-reference before the start or past the end of a sub-image: rejected (InvalidInput) -/
theorem C07_reject_backref_range (dist idx len total : Nat) (h : idx < dist ∨ total - idx < len) :
    ((do ensure (decide (dist ≤ idx)) .invalidInput
         ensure (decide (len ≤ total - idx)) .invalidInput) : BR Unit) = BR.fail .invalidInput := by
  funext b p
  rcases h with h1 | h2
  · have : ¬ dist ≤ idx := by omega
    simp [ensure, this]
  · by_cases hd : dist ≤ idx
    · have : ¬ len ≤ total - idx := by omega
      simp [ensure, hd, this]
    · simp [ensure, hd]

/-- an LZ77 prefix code above 39 (e.g. a distance symbol outside its alphabet) is rejected when used -/
theorem C07_reject_lz77_symbol (s : Nat) (h : lz77MaxSymbol < s) : readLz77 s = BR.fail .invalidInput := by
  have h3 : ¬ s ≤ 3 := by unfold lz77MaxSymbol at h; omega
  have h4 : ¬ s ≤ lz77MaxSymbol := by omega
  simp [readLz77, h3, h4]

-- Non-vacuity: the documentation's 1x1 example stream is accepted by the model; a flipped cache order is not
example : validate (ByteArray.mk #[0x88, 0x88, 0x08]) 1 1 = .ok () := by decide
example : parseVp8lHeader (ByteArray.mk #[0x2f, 0, 0, 0, 0]) = .ok (1, 1) := by decide
example : parseVp8lHeader (ByteArray.mk #[0x2f, 0, 0, 0, 0x20]) = .error .unsupportedVersion := by decide

end MediaSan.Props.C07
