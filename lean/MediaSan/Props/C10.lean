/-
  C10 — work and memory bounded by the metadata size; media never inspected.
-/
import MediaSan.Lemmas.Meter
import MediaSan.Lemmas.Account
import MediaSan.Lemmas.NonInterf
import MediaSan.Lemmas.RawSim
import MediaSan.Lemmas.ScanReads
import MediaSan.Lemmas.WebpMeter
import MediaSan.Lemmas.CodeSize
import MediaSan.Lemmas.BufBound
namespace MediaSan.Props.C10
open MediaSan

/-- The size limit is compared before the payload is read or allocated: a declared payload above the limit makes
    `read_data` fail with InvalidInput without any I/O. -/
theorem C10_limit_before_alloc (h : Mp4.BoxHeader) (n L : Nat) (hd : h.dataSize = .ok (some n)) (hn : L < n) :
    Mp4.readData h L = .fail .invalidInput := by
  have : ¬ n ≤ L := by omega
  simp [Mp4.readData, Mp4.boxDataSize, hd, bind, Prog.bind, this]

/-- Every read request the MP4 sanitizer can issue, on any input, is for at most max(max_metadata_size, 1024) bytes
    (header pieces of 4..16 bytes, the ftyp payload ≤ 1024, a moov payload ≤ the limit): no buffer larger than that
    is ever requested from the input. -/
theorem C10_request_bound (cfg : Mp4.Config) (fuel : Nat) :
    MaxRead (max cfg.maxMetadataSize 1024) (Mp4.sanitizeP cfg fuel) :=
  Mp4.sanitizeP_maxRead cfg fuel

/-- Media is never inspected: after the header of any box that is neither `ftyp` nor `moov` (mdat, free, skip, meta,
    meco, unknown types), the iteration contains no read of any kind — only position / length queries and a skip. -/
theorem C10_media_not_read (cfg : Mp4.Config) (st : Mp4.ScanState) (startPos : Nat) (header : Mp4.BoxHeader)
    (hf : header.ty ≠ Mp4.FTYP) (hm : header.ty ≠ Mp4.MOOV) : ReadFree (Mp4.scanBody cfg st startPos header) :=
  Mp4.scanBody_readFree cfg st startPos header hf hm

/-- Non-interference: the outcome of the sanitizer (of any program) on the ideal cursor depends only on the stream
    length and on the bytes in the ranges it reads.  Two inputs of equal length that agree on those ranges — in
    particular two inputs that differ only in media payload bytes, which `C10_media_not_read` shows are in no read
    range — get the same result. -/
theorem C10_noninterference (s s' : Stream) (kind : SkipKind) (cfg : Mp4.Config) (hlen : s'.len = s.len)
    (h : ∀ a n, (a, n) ∈ (Mp4.sanitizeP cfg (Mp4.fuelFor s)).readSet s kind 0 → s'.read a n = s.read a n) :
    Mp4.sanitize s' kind cfg = Mp4.sanitize s kind cfg := by
  have hf : Mp4.fuelFor s' = Mp4.fuelFor s := by simp only [Mp4.fuelFor, hlen]
  simp only [Mp4.sanitize, Mp4.sanitizeWith, hf]
  rw [run_noninterference s s' kind hlen _ 0 h]

/-- Accounting through BufReader(cap), for every underlying reader whose `read` returns at most what it is asked
    for, every program and every input: at every point between two operations,
      bytes delivered by the underlying reader ≤ (bytes returned by completed read_exact / read_to_end calls)
                                                + cap × (completed skips) + (bytes currently buffered ≤ cap).
    With `C10_media_not_read` the first term is headers + ftyp + moov payloads; the rest is the look-ahead. -/
theorem C10_physical_reads {ρ E α} (raw : RawOps ρ) (hrb : ReadBounded raw) (cap : Nat) (p : Prog E α) (r : ρ) :
    p.everBad (ghostOps cap raw)
      (fun s => !(decide (s.1.inner.2 ≤ s.2 + s.1.buf.length) && decide (s.1.buf.length ≤ cap)))
      (⟨(r, 0), []⟩, 0) = false := by
  apply everBad_of_inv (ghostOps cap raw) (AccInv cap)
  · intro s hs
    simp only [AccInv] at hs
    simp [hs.1, hs.2]
  · intro s b s' hs h; exact (ghostOps_inv raw hrb cap s hs).1 b s' h
  · intro s b s' hs h; exact (ghostOps_inv raw hrb cap s hs).2.1 b s' h
  · intro s b s' hs h; exact (ghostOps_inv raw hrb cap s hs).2.2.1 b s' h
  · intro s n b s' hs h; exact (ghostOps_inv raw hrb cap s hs).2.2.2.1 n b s' h
  · intro s n s' hs h; exact (ghostOps_inv raw hrb cap s hs).2.2.2.2.1 n s' h
  · intro s n b s' hs h; exact (ghostOps_inv raw hrb cap s hs).2.2.2.2.2 n b s' h
  · exact ⟨by simp, by simp⟩

/-- the ideal input satisfies the hypothesis of `C10_physical_reads` -/
theorem C10_ideal_read_bounded (s : Stream) (kind : SkipKind) (chunk : Nat) : ReadBounded (idealRaw s kind chunk) := by
  intro r n b r' h
  simp only [idealRaw] at h
  cases h
  simp only [Stream.read, List.length_map, List.length_range, chunkLimit]
  omega

/-- The returned metadata is the two re-encoded boxes plus a padding that is never larger than they are: its planned
    length is at most twice the metadata length (`C01_plan_shift` has the other facts about `planRewrite`). -/
theorem C10_pad_bounded (ml off pad : Nat) (disp : Option Int) (h : Mp4.planRewrite ml off = .ok (pad, disp)) :
    ml + pad ≤ 2 * ml := by
  unfold Mp4.planRewrite at h
  dsimp only at h
  split at h
  · split at h
    · cases h; omega
    · split at h
      · rename_i hp; cases h; omega
      · split at h
        · cases h; omega
        · cases h
  · split at h
    · cases h; omega
    · cases h

/-- The byte ranges a run reads, against the independent walker: for EVERY input, configuration and cursor kind, every
    range (offset, length) the MP4 sanitizer obtains from the input is disjoint from the payload of every top-level
    box - as the walker of Spec/Mp4Walk.lean finds them, whether the walk is clean or breaks off - whose type is not
    `ftyp` or `moov`: mdat, free, skip, meta, meco, unknown and uuid boxes are never read beyond their header.
    (Lemmas/Reads.lean: a logic for the ranges a run reads; ScanReads.lean: header reads stay inside the header the
    walker sees, payload reads happen only for ftyp / moov and stay inside the box, the cursor only moves forward.) -/
theorem C10_reads_avoid_media (s : Stream) (kind : SkipKind) (cfg : Mp4.Config) (a n : Nat)
    (h : (a, n) ∈ (Mp4.sanitizeP cfg (Mp4.fuelFor s)).readSet s kind 0) :
    ∀ b ∈ (Spec.Mp4Walk.walkAll s 0 s.len cfg.cumulativeMdatBoxSize).boxes, b.name ≠ Mp4.ftypN → b.name ≠ Mp4.moovN →
      a + n ≤ b.payloadOff ∨ b.endOff ≤ a :=
  (Mp4.sanitizeP_reads s kind cfg (Mp4.fuelFor s)).out a n h

/-- **Media is never inspected**, as the user sees it: two inputs of the same length that differ ONLY inside payloads of
    top-level boxes other than `ftyp` and `moov` (as found by the independent walker in the first input) get the same
    answer - the same error, or the same metadata bytes and the same media span.  For every input, configuration and
    cursor kind. -/
theorem C10_media_never_inspected (s s' : Stream) (kind : SkipKind) (cfg : Mp4.Config) (hlen : s'.len = s.len)
    (hdiff : ∀ i, s'.get i ≠ s.get i →
      ∃ b ∈ (Spec.Mp4Walk.walkAll s 0 s.len cfg.cumulativeMdatBoxSize).boxes, b.name ≠ Mp4.ftypN ∧ b.name ≠ Mp4.moovN ∧
        b.payloadOff ≤ i ∧ i < b.endOff) :
    Mp4.sanitize s' kind cfg = Mp4.sanitize s kind cfg :=
  Mp4.media_never_inspected s kind s' cfg hlen hdiff

/-- webpsan, for every input and configuration: every `read_exact` request the container code can issue is for at most
    16 bytes (chunk headers, pad bytes, the fixed-size VP8X / ANIM / ANMF / ALPH records, the 5-byte VP8L header): no
    buffer that follows a declared chunk size is ever requested.  Everything larger reaches the sanitizer only through
    the lossless validator's bit reader, which pulls through its own bounded buffer (C19). -/
theorem C10_webp_request_bound (cfg : Webp.Config) (fuel : Nat) : ReqBound 16 (Webp.sanitizeP cfg fuel) :=
  Webp.sanitizeP_req cfg fuel

/-- ... and a chunk that is only skipped - lossy `VP8 ` image data, ICCP, EXIF, XMP, unknown chunks - costs at most its
    one pad byte of reading, whatever its declared size -/
theorem C10_webp_skipped_not_read (r : Webp.RS) (k : Nat) : ReqBound 1 (Webp.skipData r k) :=
  Webp.skipData_reads_pad_only r k

/-- webpsan's lossless validator, what it holds: every prefix code it reads - for every payload, bit position and
    alphabet - is a trie of fewer than 2·max(alphabet, 2) nodes: the code-length vector is cut off at the alphabet size
    (lossless.rs:573-601), the canonical symbol table is no longer than the vector, and a finalized trie is a full
    binary tree over the table.  (`BSafe m Q`: from every payload and position, `m` returns a value with `Q` or a
    non-panic error.) -/
theorem C10_webp_code_size (cfg : Vp8l.LCfg) (alphabet : Nat) :
    Vp8l.BSafe (Vp8l.readPrefixCode cfg alphabet) (fun c => c.tree.nodes + 1 ≤ 2 * max alphabet 2) :=
  Vp8l.readPrefixCode_sized cfg alphabet

/-- ... the colour-cache order that sizes the green alphabet is at most `cacheOrderMax` = 11 whenever the validator
    goes on ... -/
theorem C10_webp_cache_order :
    Vp8l.BSafe Vp8l.readColorCache (fun c => ∀ o, c = some o → o ≤ Generated.cacheOrderMax) :=
  Vp8l.readColorCache_bounded

/-- ... so a whole prefix-code group - the only heap object besides the fixed bit buffer (C19) that the validator
    keeps between two reads; groups are read one after the other and dropped, `readGroups` - has fewer than 6272 trie
    nodes (2·(280 + 2048) + 3·2·256 + 2·40): a constant that does not depend on the declared image dimensions, on
    chunk sizes or on the number of groups the meta prefix image asks for.  The transient code-length code has at
    most 37 nodes. -/
theorem C10_webp_group_size (cfg : Vp8l.LCfg) (cache : Option Nat)
    (h : ∀ o, cache = some o → o ≤ Generated.cacheOrderMax) :
    Vp8l.BSafe (Vp8l.readGroup cfg cache) (fun g => g.nodes ≤ 6272) :=
  Vp8l.readGroup_sized cfg cache h

theorem C10_webp_clc_size (cfg : Vp8l.LCfg) :
    Vp8l.BSafe (Vp8l.readCodeLengthCode cfg) (fun c => c.tree.nodes + 1 ≤ 2 * 19) :=
  Vp8l.readCodeLengthCode_sized cfg

/-- ... and the bit buffer itself never holds more than its capacity (4096 bytes in the code): `fill_buf` tops the kept
    bytes up to `cap`, and `read`, `read_huffman` and the guarded refill of the sub-image loop keep `|buf| ≤ cap` - the
    invariant holds initially (`BitBuf.new`: an empty buffer) and after every operation of the buffered validator
    (Vp8l/BufValidator.lean).  Buffer ≤ cap bytes, one group ≤ 6272 trie nodes, one code-length code ≤ 37: that is
    everything the validator model holds, whatever the chunk declares. -/
theorem C10_webp_bitbuffer_bounded (s : Vp8l.BitBuf) (h : s.buf.length ≤ s.cap) :
    (s.fill.buf.length ≤ s.fill.cap ∧ s.fill.cap = s.cap) ∧
    (∀ r, (s.guardedFill r).buf.length ≤ (s.guardedFill r).cap ∧ (s.guardedFill r).cap = s.cap) ∧
    (∀ n v s', s.read n = some (v, s') → s'.buf.length ≤ s'.cap ∧ s'.cap = s.cap) ∧
    (∀ c v s', s.readSym c = some (v, s') → s'.buf.length ≤ s'.cap ∧ s'.cap = s.cap) :=
  ⟨Vp8l.fill_buf_le s h, fun r => Vp8l.guardedFill_buf_le s r h, fun n v s' hr => Vp8l.read_buf_le s s' n v h hr,
   fun c v s' hr => Vp8l.readSym_buf_le s s' c v h hr⟩

example (cap : Nat) (input : Bytes) : (Vp8l.BitBuf.new cap input).buf.length ≤ (Vp8l.BitBuf.new cap input).cap := by
  simp [Vp8l.BitBuf.new]

-- Non-vacuity: a two-symbol code is built (3 nodes), and a group is really returned on a concrete payload
example : (match Vp8l.newCode [(0, 1), (1, 1)] with | .ok c => c.tree.nodes | .error _ => 0) = 3 := by decide
example : (match Vp8l.readGroup {} none (ByteArray.mk #[0x13, 0x30, 0x01, 0x13, 0x30, 0x01, 0x13, 0x00]) 0 with
    | .ok (g, _) => g.nodes | .error _ => 0) = 15 := by decide +kernel

def tinyFile : Bytes :=
  [0,0,0,20, 0x66,0x74,0x79,0x70, 0x69,0x73,0x6f,0x6d, 0,0,0,0, 0x69,0x73,0x6f,0x6d,
   0,0,0,12, 0x6d,0x64,0x61,0x74, 1,2,3,4,
   0,0,0,56, 0x6d,0x6f,0x6f,0x76,
   0,0,0,48, 0x74,0x72,0x61,0x6b,
   0,0,0,40, 0x6d,0x64,0x69,0x61,
   0,0,0,32, 0x6d,0x69,0x6e,0x66,
   0,0,0,24, 0x73,0x74,0x62,0x6c,
   0,0,0,16, 0x73,0x74,0x63,0x6f, 0,0,0,0, 0,0,0,0]
-- Non-vacuity: this one-entry file (ftyp, mdat, moov) has an mdat box with a non-empty payload (offsets 28..31), so
-- `hdiff` of `C10_media_never_inspected` allows changes there; and changing those four bytes indeed changes nothing
example : (Spec.Mp4Walk.walkAll (Stream.ofBytes tinyFile) 0 88 none).boxes.any
    (fun b => decide (b.name = Mp4.mdatN ∧ b.payloadOff = 28 ∧ b.endOff = 32)) = true := by decide +kernel
def tinyFile' : Bytes :=
  [0,0,0,20, 0x66,0x74,0x79,0x70, 0x69,0x73,0x6f,0x6d, 0,0,0,0, 0x69,0x73,0x6f,0x6d,
   0,0,0,12, 0x6d,0x64,0x61,0x74, 9,9,9,9,
   0,0,0,56, 0x6d,0x6f,0x6f,0x76,
   0,0,0,48, 0x74,0x72,0x61,0x6b,
   0,0,0,40, 0x6d,0x64,0x69,0x61,
   0,0,0,32, 0x6d,0x69,0x6e,0x66,
   0,0,0,24, 0x73,0x74,0x62,0x6c,
   0,0,0,16, 0x73,0x74,0x63,0x6f, 0,0,0,0, 0,0,0,0]
example : (match Mp4.sanitize (Stream.ofBytes tinyFile') .seekable {} with
    | .ok r1 => (match Mp4.sanitize (Stream.ofBytes tinyFile) .seekable {} with
      | .ok r2 => decide (r1.data = r2.data) && r1.metadata.isSome && (r1.metadata == r2.metadata)
      | _ => false)
    | _ => false) = true := by decide +kernel

-- Non-vacuity
example : Mp4.planRewrite 100 200 = .ok (100, none) ∧ Mp4.planRewrite 100 201 = .ok (0, some (-101)) := by decide
example : ReadFree (Mp4.scanBody {} {} 0 ⟨Mp4.MDAT, .size 4000000000⟩) :=
  C10_media_not_read {} {} 0 _ (by decide) (by decide)

end MediaSan.Props.C10
