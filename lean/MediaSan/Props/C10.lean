/-
  C10 — work and memory bounded by the metadata size; media never inspected.
-/
import MediaSan.Meter
import MediaSan.Mp4.Sanitize
namespace MediaSan.Props.C10
open MediaSan

/-- the size limit is compared before the payload is read or allocated: a declared payload above the limit makes
    `read_data` fail with InvalidInput without any I/O -/
theorem C10_limit_before_alloc (h : Mp4.BoxHeader) (n L : Nat) (hd : h.dataSize = .ok (some n)) (hn : L < n) :
    Mp4.readData h L = .fail .invalidInput := by
  have : ¬ n ≤ L := by omega
  simp [Mp4.readData, Mp4.boxDataSize, hd, bind, Prog.bind, this]

end MediaSan.Props.C10
