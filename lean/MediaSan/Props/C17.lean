/-
  C17 — WebP chunk codec round-trip.

  The chunk and primitive codecs are *schemas* regenerated from webpsan/src/parse/*.rs on every run
  (`MediaSan.Generated.WebpCodec`): integer getter/putter endianness, field order of `parse` and of
  `put_buf`, flag masks, reserved lengths, declared ENCODED_LEN.  The generic round-trip theorems live in
  `MediaSan.Lemmas.WebpCodec`; here they are instantiated at the extracted tables.
-/
import MediaSan.Generated.WebpCodec
import MediaSan.Lemmas.WebpCodec
namespace MediaSan.Props.C17
open MediaSan MediaSan.Webp MediaSan.Generated

/-- Table obligation: every integer primitive reads and writes with the same byte order, and that order
    is little-endian (single-byte types are order-free). -/
theorem C17_prims_table : ∀ row ∈ webmInts, row.2.Coherent ∧ row.2.IsLE := by decide

/-- Every integer primitive round-trips: value → bytes → value. -/
theorem C17_prims (row : String × IntCodec) (h : row ∈ webmInts) (v : Nat) (hv : v < 256 ^ row.2.bytes) :
    toNatE row.2.get (ofNatE row.2.put row.2.bytes v) = v :=
  toNatE_ofNatE_coh row.2 (C17_prims_table row h).1 v hv

/-- Every integer primitive round-trips: bytes → value → bytes. -/
theorem C17_prims_bytes (row : String × IntCodec) (h : row ∈ webmInts) (bs : Bytes)
    (hl : bs.length = row.2.bytes) : ofNatE row.2.put row.2.bytes (toNatE row.2.get bs) = bs :=
  ofNatE_toNatE_coh row.2 (C17_prims_table row h).1 bs hl

/-- 24-bit and one-based 24-bit integers are 3 bytes, little-endian both ways. -/
theorem C17_u24_table : u24Codec = ⟨3, .le, .le⟩ ∧ oneBasedU24Codec = ⟨3, .le, .le⟩ := by decide

theorem C17_u24 (v : Nat) (hv : v < 2 ^ 24) (rest : Bytes) :
    parseField (.int u24Codec) (putField (.int u24Codec) v ++ rest) = .ok (v, rest) :=
  parseField_putField _ (by decide) v (by simp only [FieldTy.WF]; rw [C17_u24_table.1]; simpa using hv) rest

theorem C17_onebased (v : Nat) (h1 : 1 ≤ v) (hv : v ≤ 2 ^ 24) (rest : Bytes) :
    parseField (.oneBased oneBasedU24Codec) (putField (.oneBased oneBasedU24Codec) v ++ rest) = .ok (v, rest) :=
  parseField_putField _ (by decide) v
    (by simp only [FieldTy.WF]; rw [C17_u24_table.2]; exact ⟨h1, by simpa using hv⟩) rest

/-- Table obligation: in every chunk, every field codec is coherent and `put_buf` writes the fields in
    the order `parse` reads them. -/
theorem C17_chunks_table :
    ∀ s ∈ chunkSchemas, AllCoherent s.tys ∧ s.putOrder = s.fields.map (·.1) := by decide

/-- Little-endian throughout: every multi-byte integer field of every chunk is read and written
    little-endian (the FourCC `name` of a chunk header is an opaque 4-byte string). -/
theorem C17_le_throughout :
    ∀ s ∈ chunkSchemas, ∀ f ∈ s.fields, f.2.IsLE ∨ f.1 = "name" := by decide

/-- The declared `ENCODED_LEN` of every chunk is the sum of its fields' lengths. -/
theorem C17_declared_len : chunkSchemas.map Schema.encodedLen = declaredLens := by decide

/-- parse (put c) = c for every chunk value in the image of `parse`. -/
theorem C17_chunk_parse_put (s : Schema) (hs : s ∈ chunkSchemas) (vs : List Nat)
    (hw : WFs s.tys vs) (hp : s.post vs = true) (rest : Bytes) :
    s.parse (s.put vs ++ rest) = .ok (vs, rest) := by
  obtain ⟨hc, ho⟩ := C17_chunks_table s hs
  simp only [Schema.parse, Schema.put, ho, if_true]
  rw [parseFields_putFields s.tys hc vs hw rest]
  simp [hp]

/-- put (parse b) = b on the success domain of `parse`; and the parsed value is well-formed. -/
theorem C17_chunk_put_parse (s : Schema) (hs : s ∈ chunkSchemas) (bs : Bytes) (vs : List Nat) (rest : Bytes)
    (h : s.parse bs = .ok (vs, rest)) : s.put vs ++ rest = bs ∧ WFs s.tys vs := by
  obtain ⟨hc, ho⟩ := C17_chunks_table s hs
  simp only [Schema.parse] at h
  split at h
  · simp at h
  · rename_i vs' rest' hf
    split at h
    · simp only [Except.ok.injEq, Prod.mk.injEq] at h
      obtain ⟨h1, h2⟩ := h
      subst h1 h2
      simp only [Schema.put, ho, if_true]
      exact parseFields_ok s.tys hc bs vs' rest' hf
    · simp at h

/-- Parsing any chunk from a buffer holding at least its ENCODED_LEN bytes never panics
    (in particular not on reserved-bit violations). -/
theorem C17_reserved_no_panic (s : Schema) (bs : Bytes) (h : s.encodedLen ≤ bs.length) :
    s.parse bs ≠ .error .panic := by
  simp only [Schema.parse]
  have := parseFields_no_panic s.tys bs h
  split
  · rename_i e he; intro hc; simp only [Except.error.injEq] at hc; rw [hc] at he; exact this he
  · split <;> simp

/-- A non-zero reserved byte in VP8X is reported as InvalidInput. -/
theorem C17_reserved_rejected (b0 : UInt8) (r : Bytes) (hl : 9 ≤ r.length)
    (hf : b0.toNat &&& 62 = b0.toNat) (hnz : ∃ b ∈ r.take 3, b ≠ 0) :
    schemaVp8xChunk.parse (b0 :: r) = .error .invalidInput := by
  have hty : schemaVp8xChunk.tys =
      [.flags ⟨1, .le, .be⟩ 62, .reserved 3, .oneBased ⟨3, .le, .le⟩, .oneBased ⟨3, .le, .le⟩] := by decide
  simp only [Schema.parse, hty, parseFields, parseField]
  have h1 : ¬ ((b0 :: r).length < 1) := by simp
  have e : toNatE Endian.le (List.take 1 (b0 :: r)) = b0.toNat := by simp [toNatE, leToNat]
  simp only [h1, if_false, e, hf, if_true, List.drop_succ_cons, List.drop_zero]
  rw [parseReserved_nonzero 3 r (by omega) hnz]

-- Non-vacuity: concrete chunk values satisfy the hypotheses and round-trip by evaluation.
example : schemaVp8xChunk.parse (schemaVp8xChunk.put [0x3e, 0, 16384, 16384] ++ [7]) = .ok ([0x3e, 0, 16384, 16384], [7]) := by decide
example : schemaAnimChunk.parse (schemaAnimChunk.put [0xdeadbeef, 0x1234]) = .ok ([0xdeadbeef, 0x1234], []) := by decide
example : schemaAnmfChunk.parse (schemaAnmfChunk.put [1, 2, 3, 4, 5, 3]) = .ok ([1, 2, 3, 4, 5, 3], []) := by decide
example : schemaVp8xChunk.parse [0x40, 0, 0, 0, 0, 0, 0, 0, 0, 0] = .error .invalidInput := by decide  -- unknown flag bit
example : schemaVp8xChunk.parse [0, 0, 1, 0, 0, 0, 0, 0, 0, 0] = .error .invalidInput := by decide     -- reserved byte
example : WFs schemaAnimChunk.tys [0xdeadbeef, 0x1234] := by decide

end MediaSan.Props.C17
