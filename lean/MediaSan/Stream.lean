/-
  Streams, the ideal cursor, and the free-monad-style I/O programs the sanitizer models are written in.

  `Prog α` is a tree of I/O requests; a sanitizer is a `Prog`.  The only way a `Prog` can observe the
  input is through the five cursor operations, and the only way an I/O error can be handled is the
  `eof` annotation on a request (`map_eof` in the Rust code): every other error aborts the run with
  `ioErr`.  C11 (parametricity), C13 (fault propagation) and C10 (read set) are theorems about *all*
  `Prog`s, instantiated at the sanitizers.
-/
import MediaSan.Bytes
namespace MediaSan
open MediaSan

/-- an input: a length and a byte at every position below it (sparse-friendly) -/
structure Stream where
  len : Nat
  get : Nat → UInt8

def Stream.ofBytes (b : Bytes) : Stream := ⟨b.length, fun i => b.getD i 0⟩

def Stream.read (s : Stream) (pos n : Nat) : Bytes := (List.range n).map fun i => s.get (pos + i)

/-- the six `io::ErrorKind`s the properties name, plus InvalidInput (std's seek overflow) -/
inductive IoKind where
  | other | permissionDenied | timedOut | wouldBlock | invalidData | unexpectedEof | invalidInput
  deriving DecidableEq, Repr

def IoKind.name : IoKind → String
  | .other => "Other" | .permissionDenied => "PermissionDenied" | .timedOut => "TimedOut"
  | .wouldBlock => "WouldBlock" | .invalidData => "InvalidData" | .unexpectedEof => "UnexpectedEof"
  | .invalidInput => "InvalidInput"

/-- what a whole sanitizer run yields; `E` is the crate's parse-error type -/
inductive Outcome (E α : Type) where
  | ok (a : α)
  | parseErr (e : E)
  | ioErr (k : IoKind)
  | panic (site : String)
  | outOfFuel
  deriving Repr, DecidableEq

/-- I/O programs.  `eof := some e` marks a `map_eof` site: an UnexpectedEof from this request becomes the
    parse error `e`; any other I/O error — and UnexpectedEof where `eof = none` — ends the run with `ioErr`. -/
inductive Prog (E α : Type) where
  | done (a : α)
  | fail (e : E)
  | panic (site : String)
  | isEof (k : Bool → Prog E α)                       -- `fill_buf()?.is_empty()`
  | position (k : Nat → Prog E α)                     -- `stream_position()?`
  | streamLen (k : Nat → Prog E α)                    -- `stream_len()?`
  | readExact (n : Nat) (eof : Option E) (k : Bytes → Prog E α)
  | skip (n : Nat) (eof : Option E) (k : Unit → Prog E α)
  | readUpTo (n : Nat) (k : Bytes → Prog E α)         -- `take(n).read_to_end()`: fewer than n bytes only at the end

namespace Prog
def bind {E α β} : Prog E α → (α → Prog E β) → Prog E β
  | .done a, f => f a
  | .fail e, _ => .fail e
  | .panic s, _ => .panic s
  | .isEof k, f => .isEof fun b => (k b).bind f
  | .position k, f => .position fun p => (k p).bind f
  | .streamLen k, f => .streamLen fun p => (k p).bind f
  | .readExact n e k, f => .readExact n e fun b => (k b).bind f
  | .skip n e k, f => .skip n e fun u => (k u).bind f
  | .readUpTo n k, f => .readUpTo n fun b => (k b).bind f

instance {E} : Monad (Prog E) where
  pure := .done
  bind := Prog.bind
end Prog

/-- a cursor implementation: each operation may fail with an `io::ErrorKind` -/
structure CursorOps (σ : Type) where
  isEof : σ → Except IoKind (Bool × σ)
  position : σ → Except IoKind (Nat × σ)
  streamLen : σ → Except IoKind (Nat × σ)
  readExact : σ → Nat → Except IoKind (Bytes × σ)
  skip : σ → Nat → Except IoKind σ
  readUpTo : σ → Nat → Except IoKind (Bytes × σ)

def mapEof {E α} (eof : Option E) (k : IoKind) : Outcome E α :=
  match k, eof with
  | .unexpectedEof, some e => .parseErr e
  | k, _ => .ioErr k

/-- run a program against a cursor -/
def Prog.run {E α σ} (ops : CursorOps σ) : Prog E α → σ → Outcome E α
  | .done a, _ => .ok a
  | .fail e, _ => .parseErr e
  | .panic s, _ => .panic s
  | .isEof k, st =>
    match ops.isEof st with
    | .ok (b, st') => (k b).run ops st'
    | .error e => .ioErr e
  | .position k, st =>
    match ops.position st with
    | .ok (p, st') => (k p).run ops st'
    | .error e => .ioErr e
  | .streamLen k, st =>
    match ops.streamLen st with
    | .ok (p, st') => (k p).run ops st'
    | .error e => .ioErr e
  | .readExact n eof k, st =>
    match ops.readExact st n with
    | .ok (b, st') => (k b).run ops st'
    | .error e => mapEof eof e
  | .skip n eof k, st =>
    match ops.skip st n with
    | .ok st' => (k ()).run ops st'
    | .error e => mapEof eof e
  | .readUpTo n k, st =>
    match ops.readUpTo st n with
    | .ok (b, st') => (k b).run ops st'
    | .error e => .ioErr e

/-- how `skip` past the end behaves -/
inductive SkipKind where
  | strict     -- skip past the end fails with UnexpectedEof (e.g. the unit tests' reader)
  | seekable   -- seek-based: succeeds and leaves the position past the end (Cursor, File, SeekSkipAdapter)
  deriving DecidableEq, Repr

def u64Lim : Nat := 18446744073709551616
def i64Max : Nat := 9223372036854775807

/-- The ideal forward-only cursor over a stream; state = position.
    seekable skip: `SeekFrom::Current(n)` for n ≤ i64::MAX fails with InvalidInput on u64 overflow (std);
    larger amounts go through `checked_add` → InvalidData, else `SeekFrom::Start`. -/
def idealOps (s : Stream) (kind : SkipKind) : CursorOps Nat where
  isEof pos := .ok (decide (s.len ≤ pos), pos)
  position pos := .ok (pos, pos)
  streamLen pos := .ok (s.len, pos)
  readExact pos n :=
    if n = 0 then .ok ([], pos)
    else if pos + n ≤ s.len then .ok (s.read pos n, pos + n)
    else .error .unexpectedEof
  skip pos n :=
    match kind with
    | .strict => if pos + n ≤ s.len then .ok (pos + n) else .error .unexpectedEof
    | .seekable =>
      if n = 0 then .ok pos
      else if pos + n < u64Lim then .ok (pos + n)
      else if n ≤ i64Max then .error .invalidInput
      else .error .invalidData
  readUpTo pos n :=
    let m := min n (s.len - pos)
    .ok (s.read pos m, pos + m)

end MediaSan
