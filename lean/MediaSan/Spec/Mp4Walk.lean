/-
  Independent MP4 box walker (the oracle side of C01–C05).  Written from ISO/IEC 14496-12 box syntax, by
  plain recursive descent over a `Stream`; shares only `Bytes.lean`/`Stream` with the model.
-/
import MediaSan.Stream
namespace MediaSan.Spec.Mp4Walk
open MediaSan

structure TopBox where
  offset : Nat          -- of the box header
  hdrLen : Nat
  name : Bytes          -- 4 bytes ("uuid" for extended types)
  endOff : Nat          -- offset + declared size; stream/region end for size 0
  sized : Bool          -- false for size==0 (until end)
  deriving Repr, DecidableEq

def TopBox.payloadOff (b : TopBox) : Nat := b.offset + b.hdrLen
def TopBox.payloadLen (b : TopBox) : Nat := b.endOff - b.payloadOff
def TopBox.size (b : TopBox) : Nat := b.endOff - b.offset

def be (s : Stream) (off n : Nat) : Nat := beToNat (s.read off n)

inductive Hdr where
  | ok (b : TopBox)
  | truncated           -- not enough bytes for the header
  | tooSmall            -- declared size smaller than the header

/-- header of the box at `off` inside the region ending at `lim`.  `ovr = some t`: an `mdat` with size 0 is
    read as if it declared the 32-bit size `t` (Config::cumulative_mdat_box_size). -/
def headerAt (s : Stream) (off lim : Nat) (ovr : Option Nat := none) : Hdr :=
  if off + 8 > lim then .truncated else
  let sz32 := be s off 4
  let name := s.read (off + 4) 4
  let uuidLen := if name = [0x75, 0x75, 0x69, 0x64] then 16 else 0
  if sz32 = 1 then
    if off + 16 + uuidLen > lim then .truncated else
    let sz := be s (off + 8) 8
    if sz < 16 + uuidLen then .tooSmall else .ok ⟨off, 16 + uuidLen, name, off + sz, true⟩
  else
    if off + 8 + uuidLen > lim then .truncated else
    if sz32 = 0 then
      match ovr, decide (name = [0x6d, 0x64, 0x61, 0x74]) with
      | some t, true => if t < 8 then .tooSmall else .ok ⟨off, 8, name, off + t, true⟩
      | _, _ => .ok ⟨off, 8 + uuidLen, name, lim, false⟩
    else if sz32 < 8 + uuidLen then .tooSmall else .ok ⟨off, 8 + uuidLen, name, off + sz32, true⟩

inductive Walk where
  | clean (bs : List TopBox)                 -- the region is exactly a sequence of whole boxes
  | broken (bs : List TopBox) (why : String) -- boxes before the first malformed / overrunning one
  deriving Repr

/-- boxes of the region [off, lim) -/
def walk (s : Stream) (ovr : Option Nat := none) : Nat → Nat → Nat → Walk
  | 0, _, _ => .clean []
  | fuel + 1, off, lim =>
    if off ≥ lim then .clean [] else
    match headerAt s off lim ovr with
    | .truncated => .broken [] "truncated-header"
    | .tooSmall => .broken [] "size-below-header"
    | .ok b =>
      if b.endOff > lim then .broken [b] "box-overruns"
      else match walk s ovr fuel b.endOff lim with
        | .clean bs => .clean (b :: bs)
        | .broken bs w => .broken (b :: bs) w

def walkAll (s : Stream) (off lim : Nat) (ovr : Option Nat := none) : Walk :=
  walk s ovr ((lim - off) / 8 + 1) off lim

def Walk.boxes : Walk → List TopBox
  | .clean bs => bs
  | .broken bs _ => bs

def Walk.isClean : Walk → Bool
  | .clean _ => true
  | .broken _ _ => false

/-- a FourCC from four characters (kernel-evaluable, unlike `String.toUTF8`) -/
def cc (a b c d : Char) : Bytes := [a.toNat.toUInt8, b.toNat.toUInt8, c.toNat.toUInt8, d.toNat.toUInt8]

/-- a chunk-offset table: absolute offset of the first entry, entry width, entry count -/
structure Region where
  off : Nat
  width : Nat
  count : Nat
  deriving Repr, DecidableEq

def Region.endOff (r : Region) : Nat := r.off + r.width * r.count

/-- children of a container box payload, when the payload is a clean sequence of boxes -/
def children (s : Stream) (b : TopBox) : Option (List TopBox) :=
  match walkAll s b.payloadOff b.endOff with
  | .clean bs => some bs
  | .broken _ _ => none

/-- the table of an stco (width 4) / co64 (width 8) box, if it is a version-0, flags-0 full box whose count
    exactly fills it -/
def tableOf (s : Stream) (b : TopBox) (width : Nat) : Option Region :=
  if b.payloadLen < 8 then none else
  if be s b.payloadOff 4 ≠ 0 then none else
  let count := be s (b.payloadOff + 4) 4
  if b.payloadLen ≠ 8 + width * count then none else some ⟨b.payloadOff + 8, width, count⟩

def only (name : Bytes) (bs : List TopBox) : Option TopBox :=
  match bs.filter (·.name = name) with
  | [b] => some b
  | _ => none

/-- the chunk-offset table of one trak: exactly one mdia > minf > stbl chain with exactly one stco xor co64 -/
def trakTable (s : Stream) (trak : TopBox) : Option Region := do
  let c1 ← children s trak
  let mdia ← only (cc 'm' 'd' 'i' 'a') c1
  let c2 ← children s mdia
  let minf ← only (cc 'm' 'i' 'n' 'f') c2
  let c3 ← children s minf
  let stbl ← only (cc 's' 't' 'b' 'l') c3
  let c4 ← children s stbl
  let stcos := c4.filter (·.name = (cc 's' 't' 'c' 'o'))
  let co64s := c4.filter (·.name = (cc 'c' 'o' '6' '4'))
  match stcos, co64s with
  | [b], [] => tableOf s b 4
  | [], [b] => tableOf s b 8
  | _, _ => none

/-- all chunk-offset tables of a moov box, in track order; `none` if the moov is not well-formed
    (children not clean, no trak, or some trak without a unique well-formed table) -/
def moovTables (s : Stream) (moov : TopBox) : Option (List Region) := do
  let cs ← children s moov
  let traks := cs.filter (·.name = (cc 't' 'r' 'a' 'k'))
  if traks.isEmpty then none else traks.mapM (trakTable s)

def entryAt (s : Stream) (r : Region) (i : Nat) : Nat := be s (r.off + r.width * i) r.width

def inRegions (rs : List Region) (i : Nat) : Bool := rs.any fun r => r.off ≤ i ∧ i < r.endOff

end MediaSan.Spec.Mp4Walk
