/-
  Declarative WebP container grammar (C06), written from the property text and the WebP container
  specification as a recursive-descent recogniser over a `Stream`.  Independent of `MediaSan.Webp.Sanitize`
  (shares `Bytes`/`Stream` and, as the meaning of "valid lossless payload", the validator model of C07/C08).
-/
import MediaSan.Stream
import MediaSan.Vp8l.Lossless
namespace MediaSan.Spec.WebpGrammar
open MediaSan

/-- a FourCC from four characters (kernel-evaluable, unlike `String.toUTF8`) -/
def cc (a b c d : Char) : Bytes := [a.toNat.toUInt8, b.toNat.toUInt8, c.toNat.toUInt8, d.toNat.toUInt8]

structure Chunk where
  name : Bytes
  off : Nat        -- of the payload
  len : Nat        -- declared payload length
  deriving Repr

def Chunk.endOff (c : Chunk) : Nat := c.off + c.len + c.len % 2

def le32 (s : Stream) (off : Nat) : Nat := leToNat (s.read off 4)

/-- the chunks tiling [off, lim) exactly: every header and payload inside, odd payloads followed by a zero byte;
    `none` if the region is not exactly a sequence of chunks -/
def chunks (s : Stream) : Nat → Nat → Nat → Option (List Chunk)
  | 0, _, _ => none
  | fuel + 1, off, lim =>
    if off = lim then some []
    else if off + 8 > lim then none
    else
      let c : Chunk := ⟨s.read off 4, off + 8, le32 s (off + 4)⟩
      if c.off + c.len > lim then none
      else if c.len % 2 = 1 ∧ (c.off + c.len + 1 > lim ∨ s.get (c.off + c.len) ≠ 0) then none
      else match chunks s fuel c.endOff lim with
        | some cs => some (c :: cs)
        | none => none

def chunkList (s : Stream) (off lim : Nat) : Option (List Chunk) := chunks s ((lim - off) / 8 + 2) off lim

def known : List Bytes :=
  [(cc 'A' 'L' 'P' 'H'), (cc 'A' 'N' 'I' 'M'), (cc 'A' 'N' 'M' 'F'), (cc 'E' 'X' 'I' 'F'), (cc 'I' 'C' 'C' 'P'), (cc 'V' 'P' '8' ' '), (cc 'V' 'P' '8' 'L'), (cc 'V' 'P' '8' 'X'), (cc 'X' 'M' 'P' ' ')]

def isUnknown (c : Chunk) : Bool := !known.contains c.name

/-- a VP8L payload: header (signature 0x2f, version 0) giving the dimensions, then a valid lossless stream -/
def vp8lOk (s : Stream) (c : Chunk) (expect : Option (Nat × Nat)) : Bool :=
  if c.len < 5 then false else
  let hdr := ByteArray.mk (s.read c.off 5).toArray
  match Vp8l.parseVp8lHeader hdr with
  | .error _ => false
  | .ok (w, h) =>
    (match expect with
      | none => true
      | some (ew, eh) => decide (w = ew ∧ h = eh)) &&
    (match Vp8l.validate (ByteArray.mk (s.read (c.off + 5) (c.len - 5)).toArray) w h with
      | .ok _ => true
      | .error _ => false)

/-- an ALPH payload: header byte with only defined bits (compression ≤ 1, filter, pre-processing ≤ 1, reserved 0);
    a valid lossless stream for the given dimensions when lossless-compressed -/
def alphOk (s : Stream) (c : Chunk) (w h : Nat) : Bool :=
  if c.len < 1 then false else
  let f := (s.get c.off).toNat
  if f &&& 0x1d ≠ f then false
  else if f % 2 = 1 then
    match Vp8l.validate (ByteArray.mk (s.read (c.off + 1) (c.len - 1)).toArray) w h with
    | .ok _ => true
    | .error _ => false
  else true

/-- image data of a still image or of one frame: [ALPH] (VP8 | VP8L); returns the rest -/
def imageData (s : Stream) (cs : List Chunk) (alphaFlag : Bool) (alphRequired : Bool) (w h : Nat) : Option (List Chunk) :=
  match cs with
  | a :: rest =>
    if a.name = (cc 'A' 'L' 'P' 'H') then
      if !alphaFlag then none
      else if !alphOk s a w h then none
      else match rest with
        | img :: rest' => if img.name = (cc 'V' 'P' '8' ' ') then some rest' else none    -- ALPH is never combined with VP8L
        | [] => none
    else if alphRequired then none
    else if a.name = (cc 'V' 'P' '8' ' ') then some rest
    else if a.name = (cc 'V' 'P' '8' 'L') then (if vp8lOk s a (some (w, h)) then some rest else none)
    else none
  | [] => none

def trailingOk (cs : List Chunk) (allowUnknown : Bool) : Bool :=
  cs.all isUnknown && (cs.isEmpty || allowUnknown)

/-- one ANMF chunk: 16-byte frame header (reserved flag bits zero), then [ALPH] (VP8|VP8L) unknown* inside it;
    a lossless frame has the dimensions of the frame -/
def frameOk (s : Stream) (c : Chunk) (alphaFlag allowUnknown : Bool) : Bool :=
  if c.len < 16 then false else
  let fw := 1 + leToNat (s.read (c.off + 6) 3)
  let fh := 1 + leToNat (s.read (c.off + 9) 3)
  let flags := (s.get (c.off + 15)).toNat
  if flags &&& 3 ≠ flags then false else
  match chunkList s (c.off + 16) (c.off + c.len) with
  | none => false
  | some inner =>
    match imageData s inner alphaFlag false fw fh with
    | some rest => trailingOk rest allowUnknown
    | none => false

def optChunk (name : Bytes) (present : Bool) (cs : List Chunk) : Option (List Chunk) :=
  if present then
    match cs with
    | c :: rest => if c.name = name then some rest else none
    | [] => none
  else some cs

/-- after VP8X: [ICCP] (ANIM ANMF+ | [ALPH] (VP8|VP8L)) [EXIF] [XMP] unknown*, flags matching the chunks present -/
def extendedOk (s : Stream) (vp8x : Chunk) (cs : List Chunk) (allowUnknown : Bool) : Bool :=
  if vp8x.len ≠ 10 then false else
  let flags := (s.get vp8x.off).toNat
  if flags &&& 0x3e ≠ flags then false else
  if s.read (vp8x.off + 1) 3 ≠ [0, 0, 0] then false else
  let cw := 1 + leToNat (s.read (vp8x.off + 4) 3)
  let ch := 1 + leToNat (s.read (vp8x.off + 7) 3)
  if cw * ch > 4294967295 then false else
  let bit (b : Nat) : Bool := flags / b % 2 = 1
  match optChunk (cc 'I' 'C' 'C' 'P') (bit 32) cs with
  | none => false
  | some cs =>
    let afterImage : Option (List Chunk) :=
      if bit 2 then
        match cs with
        | anim :: rest =>
          if anim.name ≠ (cc 'A' 'N' 'I' 'M') ∨ anim.len ≠ 6 then none
          else
            let frames := rest.takeWhile (·.name = (cc 'A' 'N' 'M' 'F'))
            if frames.isEmpty then none
            else if frames.all (fun f => frameOk s f (bit 16) allowUnknown) then some (rest.drop frames.length)
            else none
        | [] => none
      else imageData s cs (bit 16) (bit 16) cw ch
    match afterImage with
    | none => false
    | some cs =>
      match optChunk (cc 'E' 'X' 'I' 'F') (bit 8) cs with
      | none => false
      | some cs =>
        match optChunk (cc 'X' 'M' 'P' ' ') (bit 4) cs with
        | none => false
        | some cs => trailingOk cs allowUnknown

/-- the whole file -/
def Grammar (s : Stream) (allowUnknown : Bool) : Bool :=
  if s.len < 12 then false else
  if s.read 0 4 ≠ (cc 'R' 'I' 'F' 'F') ∨ s.read 8 4 ≠ (cc 'W' 'E' 'B' 'P') then false else
  let size := le32 s 4
  -- the declared size accounts for every input byte (an odd size is followed by one zero pad byte)
  if size + 8 + size % 2 ≠ s.len then false else
  if size % 2 = 1 ∧ s.get (8 + size) ≠ 0 then false else
  -- the format's limit: the size field is at most 2^32 - 10
  if size > 4294967286 then false else
  if size < 4 then false else
  match chunkList s 12 (8 + size) with
  | none => false
  | some [] => false
  | some (first :: rest) =>
    if first.name = (cc 'V' 'P' '8' ' ') then trailingOk rest allowUnknown
    else if first.name = (cc 'V' 'P' '8' 'L') then vp8lOk s first none && trailingOk rest allowUnknown
    else if first.name = (cc 'V' 'P' '8' 'X') then extendedOk s first rest allowUnknown
    else false

end MediaSan.Spec.WebpGrammar
