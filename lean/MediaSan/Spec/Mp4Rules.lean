/-
  Declarative specifications of the MP4 properties C01–C05 over the independent walker.
  Each `Spec_Cxx` takes the input, the configuration and an *observed* result (the implementation's, or
  the model's) and says whether the property holds of it.
-/
import MediaSan.Spec.Mp4Walk
namespace MediaSan.Spec.Mp4Rules
open MediaSan MediaSan.Spec.Mp4Walk

structure Cfg where
  maxMetadataSize : Nat
  cumulativeMdatBoxSize : Option Nat

/-- an observed result, by kind -/
inductive Obs where
  | noop (off len : Nat)                       -- Ok { metadata: None, data }
  | rewritten (md : Stream) (off len : Nat)    -- Ok { metadata: Some(md), data }
  | err                                        -- any Err
  | panic                                      -- panic / abort / hang

def Obs.isOk : Obs → Bool
  | .noop _ _ => true
  | .rewritten _ _ _ => true
  | _ => false

def u32Max : Nat := 4294967295

def isMediaRunName (n : Bytes) : Bool :=
  n = (cc 'm' 'd' 'a' 't') ∨ n = (cc 'f' 'r' 'e' 'e') ∨ n = (cc 's' 'k' 'i' 'p') ∨ n = (cc 'm' 'e' 't' 'a') ∨ n = (cc 'm' 'e' 'c' 'o')

def isKnownTop (n : Bytes) : Bool :=
  n = (cc 'f' 't' 'y' 'p') ∨ n = (cc 'm' 'o' 'o' 'v') ∨ isMediaRunName n

def top (s : Stream) (c : Cfg) : Walk := walkAll s 0 s.len c.cumulativeMdatBoxSize

/-- brands of an ftyp payload: 4-byte aligned entries after major brand and minor version -/
def brands (s : Stream) (b : TopBox) : List Bytes :=
  (List.range ((b.payloadLen - 8) / 4)).map fun i => s.read (b.payloadOff + 8 + 4 * i) 4

def ftypOk (s : Stream) (b : TopBox) : Bool :=
  8 ≤ b.payloadLen ∧ b.payloadLen ≤ 1024 ∧ (brands s b).any (· = (cc 'i' 's' 'o' 'm'))

def moovOk (s : Stream) (c : Cfg) (b : TopBox) : Bool :=
  decide (b.payloadLen ≤ c.maxMetadataSize) &&
  match moovTables s b with
  | some rs => rs.all fun r => decide (r.width * r.count ≤ u32Max)
  | none => false

/-- the maximal run of mdat/free/skip/meta/meco boxes starting at the first mdat -/
def mediaRun (bs : List TopBox) : List TopBox :=
  (bs.dropWhile (·.name ≠ (cc 'm' 'd' 'a' 't'))).takeWhile (fun b => isMediaRunName b.name)

def firstMdat (bs : List TopBox) : Option TopBox := bs.find? (·.name = (cc 'm' 'd' 'a' 't'))
def lastMoov (bs : List TopBox) : Option TopBox := (bs.filter (·.name = (cc 'm' 'o' 'o' 'v'))).getLast?

/-- the documented structural rules (C05), minus the overflow clause -/
def Rules (s : Stream) (c : Cfg) : Bool :=
  let w := top s c
  let bs := w.boxes
  let lead := bs.takeWhile (fun b => b.name = (cc 'f' 'r' 'e' 'e') ∨ b.name = (cc 's' 'k' 'i' 'p'))
  let ftyps := bs.filter (·.name = (cc 'f' 't' 'y' 'p'))
  let moovs := bs.filter (·.name = (cc 'm' 'o' 'o' 'v'))
  let mdats := bs.filter (·.name = (cc 'm' 'd' 'a' 't'))
  w.isClean &&
  -- only free/skip precede the single ftyp
  (match bs.drop lead.length with
    | b :: _ => decide (b.name = (cc 'f' 't' 'y' 'p')) && ftypOk s b
    | [] => false) &&
  decide (ftyps.length = 1) &&
  bs.all (fun b => isKnownTop b.name) &&
  !moovs.isEmpty && moovs.all (moovOk s c) &&
  !mdats.isEmpty &&
  -- all mdat boxes lie in the one media run
  mdats.all (fun m => (mediaRun bs).any (· = m))

def NoMetadata (s : Stream) (c : Cfg) : Bool :=
  let bs := (top s c).boxes
  match lastMoov bs, firstMdat bs with
  | some m, some d => m.offset < d.offset
  | _, _ => false

def hdrLenFor (payloadLen : Nat) : Nat := if payloadLen + 8 ≤ u32Max then 8 else 16

/-- length of the rewritten metadata before padding: re-encoded ftyp and moov headers + payloads -/
def metadataLen (f m : TopBox) : Nat :=
  hdrLenFor f.payloadLen + f.payloadLen + hdrLenFor m.payloadLen + m.payloadLen

/-- the shift applied to chunk offsets when a rewrite happens: `none` when padding makes it unnecessary -/
def neededShift (s : Stream) (c : Cfg) : Option Int :=
  let bs := (top s c).boxes
  match bs.find? (·.name = (cc 'f' 't' 'y' 'p')), lastMoov bs, firstMdat bs with
  | some f, some m, some d =>
    let ml := metadataLen f m
    if ml ≤ d.offset then
      let gap := d.offset - ml
      -- a `free` box of 8 .. 2^32-9 bytes closes the gap, unless it would be larger than the metadata itself
      if gap = 0 ∨ (8 ≤ gap ∧ gap ≤ u32Max - 8 ∧ gap ≤ ml) then none else some (-(gap : Int))
    else some ((ml - d.offset : Nat) : Int)
  | _, _, _ => none

/-- the two refusal cases of C01: the shift leaves i32, or a shifted entry leaves its field -/
def Overflow (s : Stream) (c : Cfg) : Bool :=
  let bs := (top s c).boxes
  match neededShift s c, lastMoov bs with
  | some sh, some m =>
    decide (sh < -2147483648) || decide (sh > 2147483647) ||
    (match moovTables s m with
      | some rs => rs.any fun r => (List.range r.count).any fun i =>
          let v : Int := entryAt s r i
          decide (v + sh < 0 ∨ v + sh ≥ (256 : Int) ^ r.width)
      | none => false)
  | _, _ => false

/-- C05: accepted iff rules (and no overflow refusal when a rewrite is needed); "no metadata" iff moov first -/
def Spec_C05 (s : Stream) (c : Cfg) (o : Obs) : Option String :=
  let rules := Rules s c
  let nometa := NoMetadata s c
  let shouldOk := rules ∧ ¬(¬nometa ∧ Overflow s c)
  match o with
  | .panic => some "panic"
  | .err => if shouldOk then some "rejected-file-meeting-the-rules" else none
  | .noop _ _ =>
    if ¬ rules then some "accepted-file-breaking-the-rules"
    else if ¬ nometa then some "reported-no-metadata-but-moov-follows-mdat" else none
  | .rewritten _ _ _ =>
    if ¬ rules then some "accepted-file-breaking-the-rules"
    else if nometa then some "rewrote-although-moov-precedes-mdat"
    else if Overflow s c then some "rewrite-not-refused-on-overflow" else none

/-- C03: span inside the input, starts at the first mdat, ends with the maximal media run, holds every mdat;
    a box overrunning the input is never accepted -/
def Spec_C03 (s : Stream) (c : Cfg) (o : Obs) : Option String :=
  let w := top s c
  let bs := w.boxes
  let spanCheck (off len : Nat) : Option String :=
    if off + len > s.len then some "span-exceeds-input"
    else if ¬ w.isClean then some "accepted-input-with-box-overrunning-or-malformed"
    else match firstMdat bs with
      | none => some "span-without-mdat"
      | some d =>
        if off ≠ d.offset then some "span-does-not-start-at-first-mdat"
        else match (mediaRun bs).getLast? with
          | none => some "empty-run"
          | some l =>
            if off + len ≠ l.endOff then some "span-does-not-end-with-media-run"
            else if ¬ (bs.filter (·.name = (cc 'm' 'd' 'a' 't'))).all (fun m => off ≤ m.offset ∧ m.endOff ≤ off + len) then
              some "mdat-outside-span"
            else none
  match o with
  | .noop off len => spanCheck off len
  | .rewritten _ off len => spanCheck off len
  | _ => none

def mdTop (md : Stream) : Walk := walkAll md 0 md.len

/-- C01: same tables (number, order, width, count) and every entry shifted by |md| - span.offset, no wrap -/
def Spec_C01 (s : Stream) (c : Cfg) (o : Obs) : Option String :=
  match o with
  | .rewritten md off _ =>
    let bs := (top s c).boxes
    let mbs := (mdTop md).boxes
    match lastMoov bs, lastMoov mbs with
    | some m, some m' =>
      match moovTables s m, moovTables md m' with
      | some rs, some rs' =>
        let shift : Int := (md.len : Int) - (off : Int)
        if rs.length ≠ rs'.length then some "table-count-changed"
        else if ¬ (rs.zip rs').all (fun (r, r') => r.width = r'.width ∧ r.count = r'.count ∧
              r.off - m.payloadOff = r'.off - m'.payloadOff) then some "table-shape-changed"
        else if shift < -2147483648 ∨ shift > 2147483647 then some "shift-outside-i32-not-refused"
        else if ¬ (rs.zip rs').all (fun (r, r') => (List.range r.count).all fun i =>
              (entryAt md r' i : Int) = (entryAt s r i : Int) + shift) then some "entry-not-shifted-exactly"
        else none
      | _, _ => some "moov-tables-not-locatable"
    | _, _ => some "moov-not-locatable"
  | _ => none

/-- C04: ftyp payload identical; moov payload identical outside the entry tables; same length -/
def Spec_C04 (s : Stream) (c : Cfg) (o : Obs) : Option String :=
  match o with
  | .rewritten md _ _ =>
    let bs := (top s c).boxes
    let mbs := (mdTop md).boxes
    match bs.find? (·.name = (cc 'f' 't' 'y' 'p')), mbs.find? (·.name = (cc 'f' 't' 'y' 'p')), lastMoov bs, lastMoov mbs with
    | some f, some f', some m, some m' =>
      if s.read f.payloadOff f.payloadLen ≠ md.read f'.payloadOff f'.payloadLen then some "ftyp-payload-changed"
      else if m.payloadLen ≠ m'.payloadLen then some "moov-payload-length-changed"
      else
        let rs := (moovTables s m).getD []
        let bad := (List.range m.payloadLen).any fun i =>
          ¬ inRegions rs (m.payloadOff + i) ∧ s.get (m.payloadOff + i) ≠ md.get (m'.payloadOff + i)
        if bad then some "moov-byte-outside-tables-changed" else none
    | _, _, _, _ => some "ftyp-or-moov-not-locatable"
  | _ => none

/-- C02 (structure part): md is exactly [ftyp, moov] or [ftyp, moov, free], explicit sizes summing to |md|,
    padding all zero -/
def Spec_C02_structure (o : Obs) : Option String :=
  match o with
  | .rewritten md _ _ =>
    match mdTop md with
    | .broken _ w => some ("metadata-not-a-box-sequence:" ++ w)
    | .clean bs =>
      if ¬ bs.all (·.sized) then some "until-eof-size-in-metadata"
      else match bs.map (·.name) with
        | [a, b] => if a = (cc 'f' 't' 'y' 'p') ∧ b = (cc 'm' 'o' 'o' 'v') then none else some "metadata-box-types"
        | [a, b, c] =>
          if a = (cc 'f' 't' 'y' 'p') ∧ b = (cc 'm' 'o' 'o' 'v') ∧ c = (cc 'f' 'r' 'e' 'e') then
            match bs.getLast? with
            | some fr => if (List.range (min fr.payloadLen 4096)).all (fun i => md.get (fr.payloadOff + i) = 0) then none
                         else some "padding-not-zero"
            | none => none
          else some "metadata-box-types"
        | _ => some "metadata-box-count"
  | _ => none

end MediaSan.Spec.Mp4Rules
