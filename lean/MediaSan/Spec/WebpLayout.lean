/-
  Independent oracle for C17: the byte layouts of the WebP container's fixed-size chunk payloads, written
  by hand from the WebP container specification (not from the code, not from the extracted schemas).
  Little-endian throughout.  `specParse` returns `none` when the payload must be rejected.
-/
import MediaSan.Bytes
namespace MediaSan.Spec.WebpLayout
open MediaSan

inductive Kind where
  | raw            -- unsigned little-endian
  | plus1          -- 1 + unsigned little-endian ("minus-one" coded dimension)
  | zero           -- reserved: all bytes zero
  | flags (mask : Nat)   -- only the bits in `mask` may be set
  | tag            -- opaque bytes (FourCC), reported big-endian for display only

structure Field where
  off : Nat
  len : Nat
  kind : Kind

def layout : String → Option (List Field × Nat)
  | "Vp8xChunk" => some ([⟨0, 1, .flags 0x3e⟩, ⟨1, 3, .zero⟩, ⟨4, 3, .plus1⟩, ⟨7, 3, .plus1⟩], 10)
  | "AnimChunk" => some ([⟨0, 4, .raw⟩, ⟨4, 2, .raw⟩], 6)
  | "AnmfChunk" => some ([⟨0, 3, .raw⟩, ⟨3, 3, .raw⟩, ⟨6, 3, .plus1⟩, ⟨9, 3, .plus1⟩, ⟨12, 3, .raw⟩, ⟨15, 1, .flags 0x03⟩], 16)
  | "AlphChunk" => some ([⟨0, 1, .flags 0x1d⟩], 1)
  | "ChunkHeader" => some ([⟨0, 4, .tag⟩, ⟨4, 4, .raw⟩], 8)
  | _ => none

def slice (bs : Bytes) (off len : Nat) : Bytes := (bs.drop off).take len

def fieldVal (bs : Bytes) (f : Field) : Option Nat :=
  let s := slice bs f.off f.len
  match f.kind with
  | .raw => some (leToNat s)
  | .plus1 => some (leToNat s + 1)
  | .zero => if s.all (· == 0) then some 0 else none
  | .flags mask => let v := leToNat s; if v &&& mask == v then some v else none
  | .tag => some (beToNat s)

/-- values of a payload of at least the chunk's fixed size; `none` = must be rejected -/
def specParse (name : String) (bs : Bytes) : Option (List Nat) :=
  match layout name with
  | none => none
  | some (fs, n) =>
    if bs.length < n then none else
    match fs.mapM (fieldVal bs) with
    | none => none
    | some vs =>
      -- VP8X: canvas width * height must fit 32 bits
      if name == "Vp8xChunk" && vs.getD 2 0 * vs.getD 3 0 > 4294967295 then none else some vs

def fixedLen (name : String) : Nat := ((layout name).map (·.2)).getD 0

end MediaSan.Spec.WebpLayout
