/-
  Independent specification of canonical prefix codes (RFC 1951 §3.2.2 / RFC 9649 §3.7.2): Kraft completeness,
  the `next_code` assignment (shorter codes first, ties by symbol value), decoding by unique prefix match.
  Shares nothing with `MediaSan.Vp8l.Huffman`.
-/
namespace MediaSan.Spec.CanonicalCode

def maxLen : Nat := 15

/-- Kraft sum scaled by 2^15 over the used symbols -/
def kraft (lens : List (Nat × Nat)) : Nat :=
  (lens.filter (·.2 ≠ 0)).foldl (fun acc x => acc + 2 ^ (maxLen - x.2)) 0

def used (lens : List (Nat × Nat)) : List (Nat × Nat) := lens.filter (·.2 ≠ 0)

/-- a set of code lengths describes a usable code iff it is complete (Kraft sum exactly 1) or it has a single
    used symbol of length 1 (which then consumes zero bits) -/
def accepts (lens : List (Nat × Nat)) : Bool :=
  (match used lens with
   | [(_, 1)] => true
   | _ => false) || (decide (2 ≤ (used lens).length) && kraft lens == 2 ^ maxLen)

/-- RFC 1951: number of codes of each length, then the smallest code of each length -/
def blCount (lens : List (Nat × Nat)) (l : Nat) : Nat := ((used lens).filter (·.2 == l)).length

def nextCode (lens : List (Nat × Nat)) : Nat → Nat
  | 0 => 0
  | l + 1 => (nextCode lens l + blCount lens l) * 2

/-- code word (as a number of `len` bits) of symbol `s`: next_code[len] + number of smaller symbols with that length -/
def codeOf (lens : List (Nat × Nat)) (s len : Nat) : Nat :=
  nextCode lens len + ((used lens).filter (fun x => x.2 == len ∧ x.1 < s)).length

def bitsOf (v len : Nat) : List Bool := (List.range len).map fun i => v / 2 ^ (len - 1 - i) % 2 == 1

/-- (symbol, code word MSB first) for every used symbol -/
def table (lens : List (Nat × Nat)) : List (Nat × List Bool) :=
  match used lens with
  | [(s, 1)] => [(s, [])]
  | u => u.map fun (s, l) => (s, bitsOf (codeOf lens s l) l)

/-- decode one symbol: the unique entry whose code word is a prefix of the remaining bits -/
def decodeOne (tbl : List (Nat × List Bool)) (bits : List Bool) : Option (Nat × List Bool) :=
  match tbl.find? (fun e => e.2.isPrefixOf bits) with
  | some (s, c) => some (s, bits.drop c.length)
  | none => none

/-- decode up to `n` symbols; stops when no code word matches the remaining bits (end of data) -/
def decodeN (tbl : List (Nat × List Bool)) : Nat → List Bool → List Nat
  | 0, _ => []
  | n + 1, bits =>
    match decodeOne tbl bits with
    | some (s, rest) => s :: decodeN tbl n rest
    | none => []

end MediaSan.Spec.CanonicalCode
