def hello := "world"
