import MediaSan.Props.C17
open MediaSan.Props.C17
#print axioms C17_prims_table
#print axioms C17_prims
#print axioms C17_prims_bytes
#print axioms C17_u24_table
#print axioms C17_u24
#print axioms C17_onebased
#print axioms C17_chunks_table
#print axioms C17_le_throughout
#print axioms C17_declared_len
#print axioms C17_chunk_parse_put
#print axioms C17_chunk_put_parse
#print axioms C17_reserved_no_panic
#print axioms C17_reserved_rejected
