import MediaSan.Props.C20
open MediaSan.Props.C20
#print axioms C20_exact
#print axioms C20_some_iff
#print axioms C20_none_iff
#print axioms C20_instances
#print axioms C20_instances_cover
