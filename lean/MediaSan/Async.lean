/-
  The hand-written `poll_*` functions of common/src/async_skip.rs under a schedule of `Poll::Pending`s.

  A *schedule* decides, for each successive poll call on the underlying reader (`poll_read`, `poll_seek`, or the
  native `poll_skip` / `poll_stream_position` / `poll_stream_len`), whether it returns `Pending` first.  The
  underlying reader obeys the contract stated in the property: a `Pending` makes no progress (and wakes the task).
  An operation awaited by the sanitizer is the iteration of its poll function until `Ready` (`drive`): every
  re-poll re-enters the poll function *from the top* — which is where a stateless multi-step poll function such as
  `SeekSkipAdapter::poll_stream_len` can go wrong.

  What is modelled: `SeekSkipAdapter<R: AsyncSeek>::{poll_skip, poll_stream_position, poll_stream_len}`
  (async_skip.rs:107-144) over an `AsyncSeek` with `futures::io::Cursor` semantics, and a native `AsyncSkip` reader.
  `BufReader`'s poll functions (async_skip.rs:207-233: one inner poll under `ready!`, buffer consumed afterwards)
  and futures-util's `read_exact`/`fill_buf` keep their progress in the future or the buffer, so on top of driven
  inner operations they are the synchronous `bufOps` of MediaSan/Adapters.lean; that, and the compiler's lowering of
  `async fn`, is the trusted part.
-/
import MediaSan.Adapters
namespace MediaSan
open MediaSan

inductive Poll (α : Type) where
  | pending
  | ready (a : α)
  deriving Repr

/-- `true` = this poll call of the underlying reader returns `Pending` first; exhausted = always ready -/
abbrev Sched := List Bool

/-- poll `poll` until it is ready -/
def drive {S β : Type} (poll : S → Poll β × S) : Nat → S → Option (β × S)
  | 0, _ => none
  | fuel + 1, s =>
    match poll s with
    | (.ready b, s') => some (b, s')
    | (.pending, s') => drive poll fuel s'

/-! ### a native `AsyncSkip` reader: every operation is a single poll of the underlying reader -/

/-- the next schedule entry -/
def tick : Sched → Bool × Sched
  | [] => (false, [])
  | b :: r => (b, r)

def pollNative {ρ α : Type} (f : ρ → Except IoKind (α × ρ)) (st : ρ × Sched) : Poll (Except IoKind α) × (ρ × Sched) :=
  let (pend, r) := tick st.2
  if pend then (.pending, (st.1, r))
  else match f st.1 with
    | .ok (a, st') => (.ready (.ok a), (st', r))
    | .error e => (.ready (.error e), (st.1, r))

def driveNative {ρ α : Type} (f : ρ → Except IoKind (α × ρ)) (st : ρ × Sched) : Except IoKind (α × (ρ × Sched)) :=
  match drive (pollNative f) (st.2.length + 1) st with
  | some (.ok a, st') => .ok (a, st')
  | some (.error e, _) => .error e
  | none => .error .other       -- unreachable: `driveNative_spec`

/-- a raw input whose polls are suspended according to the schedule carried in its state -/
def pendRaw {ρ : Type} (raw : RawOps ρ) : RawOps (ρ × Sched) where
  read st n := driveNative (fun r => raw.read r n) st
  skip st n := (driveNative (fun r => (raw.skip r n).map fun r' => ((), r')) st).map (·.2)
  position st := driveNative raw.position st
  len st := driveNative raw.len st

/-! ### `SeekSkipAdapter` over an `AsyncSeek` with cursor semantics -/

structure SeekSt where
  pos : Nat
  sched : Sched
  /-- ghost: a `SeekFrom::Start` issued by `poll_stream_len` to restore the position was suspended -/
  restoreSuspended : Bool := false
  deriving Repr, DecidableEq

def SeekSt.tick (st : SeekSt) : Bool × SeekSt :=
  ((MediaSan.tick st.sched).1, { st with sched := (MediaSan.tick st.sched).2 })

/-- `AsyncSeek::poll_seek` of the underlying reader -/
def pollSeek (len : Nat) (st : SeekSt) (sf : SeekFrom) : Poll (Except IoKind Nat) × SeekSt :=
  let (pend, st) := st.tick
  if pend then (.pending, st)
  else match cursorSeek len st.pos sf with
    | .ok p => (.ready (.ok p), { st with pos := p })
    | .error e => (.ready (.error e), st)

/-- `poll_stream_position` (async_skip.rs:126-129) -/
def pollPositionA (len : Nat) (st : SeekSt) : Poll (Except IoKind Nat) × SeekSt :=
  pollSeek len st (.current 0)

/-- `poll_skip` (async_skip.rs:108-124) -/
def pollSkipA (len : Nat) (st : SeekSt) (amount : Nat) : Poll (Except IoKind Unit) × SeekSt :=
  if amount ≤ i64Max then
    if amount = 0 then (.ready (.ok ()), st)
    else match pollSeek len st (.current amount) with
      | (.pending, st) => (.pending, st)
      | (.ready (.error e), st) => (.ready (.error e), st)
      | (.ready (.ok _), st) => (.ready (.ok ()), st)
  else
    match pollPositionA len st with
    | (.pending, st) => (.pending, st)
    | (.ready (.error e), st) => (.ready (.error e), st)
    | (.ready (.ok p), st) =>
      if p + amount < u64Lim then
        match pollSeek len st (.start (p + amount)) with
        | (.pending, st) => (.pending, st)
        | (.ready (.error e), st) => (.ready (.error e), st)
        | (.ready (.ok _), st) => (.ready (.ok ()), st)
      else (.ready (.error .invalidData), st)

/-- `poll_stream_len` (async_skip.rs:131-143): position, seek to the end, seek back — restarted from the top after
    every `Pending` -/
def pollLenA (len : Nat) (st : SeekSt) : Poll (Except IoKind Nat) × SeekSt :=
  match pollPositionA len st with
  | (.pending, st) => (.pending, st)
  | (.ready (.error e), st) => (.ready (.error e), st)
  | (.ready (.ok p), st) =>
    match pollSeek len st (.endOff 0) with
    | (.pending, st) => (.pending, st)
    | (.ready (.error e), st) => (.ready (.error e), st)
    | (.ready (.ok l), st) =>
      if p ≠ l then
        match pollSeek len st (.start p) with
        | (.pending, st) => (.pending, { st with restoreSuspended := true })
        | (.ready (.error e), st) => (.ready (.error e), st)
        | (.ready (.ok _), st) => (.ready (.ok l), st)
      else (.ready (.ok l), st)

/-- `poll_read` of the underlying reader: at most `chunk` bytes -/
def pollReadA (s : Stream) (chunk : Nat) (st : SeekSt) (n : Nat) : Poll (Except IoKind Bytes) × SeekSt :=
  let (pend, st) := st.tick
  if pend then (.pending, st)
  else
    let m := chunkLimit chunk n (s.len - st.pos)
    (.ready (.ok (s.read st.pos m)), { st with pos := st.pos + m })

def driveA {α : Type} (poll : SeekSt → Poll (Except IoKind α) × SeekSt) (st : SeekSt) : Except IoKind (α × SeekSt) :=
  match drive poll (st.sched.length + 1) st with
  | some (.ok a, st') => .ok (a, st')
  | some (.error e, _) => .error e
  | none => .error .other       -- unreachable: `driveA_total`

/-- `SeekSkipAdapter(reader)` with `reader: AsyncRead + AsyncSeek` suspended according to the schedule -/
def asyncSeekRaw (s : Stream) (chunk : Nat) : RawOps SeekSt where
  read st n := driveA (fun st => pollReadA s chunk st n) st
  skip st n := (driveA (fun st => pollSkipA s.len st n) st).map (·.2)
  position st := driveA (pollPositionA s.len) st
  len st := driveA (pollLenA s.len) st

/-- did the run pass through a state satisfying `bad`? (decides whether the known defect was exercised) -/
def Prog.everBad {E α σ} (ops : CursorOps σ) (bad : σ → Bool) : Prog E α → σ → Bool
  | .done _, st => bad st
  | .fail _, st => bad st
  | .panic _, st => bad st
  | .isEof k, st =>
    bad st || match ops.isEof st with
    | .ok (b, st') => (k b).everBad ops bad st'
    | .error _ => false
  | .position k, st =>
    bad st || match ops.position st with
    | .ok (p, st') => (k p).everBad ops bad st'
    | .error _ => false
  | .streamLen k, st =>
    bad st || match ops.streamLen st with
    | .ok (p, st') => (k p).everBad ops bad st'
    | .error _ => false
  | .readExact m _ k, st =>
    bad st || match ops.readExact st m with
    | .ok (b, st') => (k b).everBad ops bad st'
    | .error _ => false
  | .skip m _ k, st =>
    bad st || match ops.skip st m with
    | .ok st' => (k ()).everBad ops bad st'
    | .error _ => false
  | .readUpTo m k, st =>
    bad st || match ops.readUpTo st m with
    | .ok (b, st') => (k b).everBad ops bad st'
    | .error _ => false

end MediaSan
