/-
  The provided Skip/AsyncSkip adapters as cursor transformers.

  `RawOps` is what an input type offers (`Read::read` with short reads, `Skip::{skip, stream_position, stream_len}`).
  `bufOps cap raw` is `BufReader::with_capacity(cap, raw)` (std and futures-util behave alike at this level) with the
  `Skip` impl of common/src/skip.rs:73-97 / async_skip.rs:207-233, presenting the `CursorOps` interface the sanitizer
  programs run against.  `seekSkipRaw` is `SeekSkipAdapter` over a `Seek` with `std::io::Cursor` semantics.
-/
import MediaSan.Stream
namespace MediaSan
open MediaSan

structure RawOps (ρ : Type) where
  /-- `read(buf)` with `buf.len() = n`: at most `n` bytes; no bytes only at the end of the stream or for n = 0 -/
  read : ρ → Nat → Except IoKind (Bytes × ρ)
  skip : ρ → Nat → Except IoKind ρ
  position : ρ → Except IoKind (Nat × ρ)
  len : ρ → Except IoKind (Nat × ρ)

/-- how many bytes a `read` of `n` returns when `avail` are left: an oracle with 1 ≤ chunk -/
def chunkLimit (chunk : Nat) (n avail : Nat) : Nat := min (min n avail) (max chunk 1)

/-- an input over a stream whose `read` returns at most `chunk` bytes at a time; state = position -/
def idealRaw (s : Stream) (kind : SkipKind) (chunk : Nat) : RawOps Nat where
  read pos n :=
    let m := chunkLimit chunk n (s.len - pos)
    .ok (s.read pos m, pos + m)
  skip pos n := (idealOps s kind).skip pos n
  position pos := .ok (pos, pos)
  len pos := .ok (s.len, pos)

structure BufState (ρ : Type) where
  inner : ρ
  buf : Bytes          -- unread part of the buffer

/-- `read_exact(n)` through a buffered reader: loop of `read` calls, each served from the buffer, or — when the
    buffer is empty and the request is at least the capacity — directly from the inner reader. -/
def bufReadExact {ρ} (raw : RawOps ρ) (cap : Nat) : Nat → BufState ρ → Nat → Bytes → Except IoKind (Bytes × BufState ρ)
  | 0, st, need, acc => if need = 0 then .ok (acc, st) else .error .unexpectedEof   -- fuel: unreachable
  | fuel + 1, st, need, acc =>
    if need = 0 then .ok (acc, st)
    else if st.buf.isEmpty ∧ cap ≤ need then
      match raw.read st.inner need with
      | .error e => .error e
      | .ok (b, inner') =>
        if b.isEmpty then .error .unexpectedEof
        else bufReadExact raw cap fuel ⟨inner', []⟩ (need - b.length) (acc ++ b)
    else
      let filled : Except IoKind (BufState ρ) :=
        if st.buf.isEmpty then
          match raw.read st.inner cap with
          | .error e => .error e
          | .ok (b, inner') => .ok ⟨inner', b⟩
        else .ok st
      match filled with
      | .error e => .error e
      | .ok st' =>
        if st'.buf.isEmpty then .error .unexpectedEof
        else
          let k := min need st'.buf.length
          bufReadExact raw cap fuel ⟨st'.inner, st'.buf.drop k⟩ (need - k) (acc ++ st'.buf.take k)

def bufOps {ρ} (cap : Nat) (raw : RawOps ρ) : CursorOps (BufState ρ) where
  isEof st :=
    if !st.buf.isEmpty then .ok (false, st)
    else match raw.read st.inner cap with
      | .error e => .error e
      | .ok (b, inner') => .ok (b.isEmpty, ⟨inner', b⟩)
  position st :=
    match raw.position st.inner with
    | .error e => .error e
    | .ok (p, inner') => .ok (p - st.buf.length, ⟨inner', st.buf⟩)      -- saturating_sub
  streamLen st :=
    match raw.len st.inner with
    | .error e => .error e
    | .ok (l, inner') => .ok (l, ⟨inner', st.buf⟩)
  readExact st n := bufReadExact raw cap (n + 1) st n []
  skip st n :=
    -- skip.rs:74-82: skip what is not buffered in the inner reader first, then consume the buffer
    let bufLen := st.buf.length
    if bufLen ≤ n then
      if n - bufLen ≠ 0 then
        match raw.skip st.inner (n - bufLen) with
        | .error e => .error e
        | .ok inner' => .ok ⟨inner', []⟩
      else .ok ⟨st.inner, []⟩
    else .ok ⟨st.inner, st.buf.drop n⟩
  readUpTo st n :=
    -- `take(n).read_to_end()`: repeated reads until n bytes or end of stream
    let rec go : Nat → BufState ρ → Nat → Bytes → Except IoKind (Bytes × BufState ρ)
      | 0, st, _, acc => .ok (acc, st)
      | fuel + 1, st, need, acc =>
        if need = 0 then .ok (acc, st)
        else if !st.buf.isEmpty then
          let k := min need st.buf.length
          go fuel ⟨st.inner, st.buf.drop k⟩ (need - k) (acc ++ st.buf.take k)
        else
          match raw.read st.inner (if cap ≤ need then need else cap) with
          | .error e => .error e
          | .ok (b, inner') =>
            if b.isEmpty then .ok (acc, ⟨inner', []⟩)
            else if cap ≤ need then go fuel ⟨inner', []⟩ (need - b.length) (acc ++ b)
            else go fuel ⟨inner', b⟩ need acc
    go (n + 1) st n []

/-- operation number `k` of a raw input fails with `e` (C13); state carries the operation counter -/
def faultyRaw {ρ} (raw : RawOps ρ) (k : Nat) (e : IoKind) : RawOps (ρ × Nat) where
  read s n := if s.2 = k then .error e else (raw.read s.1 n).map fun (b, r) => (b, (r, s.2 + 1))
  skip s n := if s.2 = k then .error e else (raw.skip s.1 n).map fun r => (r, s.2 + 1)
  position s := if s.2 = k then .error e else (raw.position s.1).map fun (p, r) => (p, (r, s.2 + 1))
  len s := if s.2 = k then .error e else (raw.len s.1).map fun (p, r) => (p, (r, s.2 + 1))

/-- a raw input that records how many bytes were delivered by `read` (C10 metering) -/
def meteredRaw {ρ} (raw : RawOps ρ) : RawOps (ρ × Nat) where
  read s n := (raw.read s.1 n).map fun (b, r) => (b, (r, s.2 + b.length))
  skip s n := (raw.skip s.1 n).map fun r => (r, s.2)
  position s := (raw.position s.1).map fun (p, r) => (p, (r, s.2))
  len s := (raw.len s.1).map fun (p, r) => (p, (r, s.2))

end MediaSan
