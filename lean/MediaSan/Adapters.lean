/-
  The provided Skip/AsyncSkip adapters as cursor transformers.

  `RawOps` is what an input type offers (`Read::read` with short reads, `Skip::{skip, stream_position, stream_len}`).
  `bufOps cap raw` is `BufReader::with_capacity(cap, raw)` (std and futures-util behave alike at this level) with the
  `Skip` impl of common/src/skip.rs:73-97 / async_skip.rs:207-233, presenting the `CursorOps` interface the sanitizer
  programs run against.  `seekSkipRaw` is `SeekSkipAdapter` over a `Seek` with `std::io::Cursor` semantics.
-/
import MediaSan.Stream
namespace MediaSan
open MediaSan

structure RawOps (ρ : Type) where
  /-- `read(buf)` with `buf.len() = n`: at most `n` bytes; no bytes only at the end of the stream or for n = 0 -/
  read : ρ → Nat → Except IoKind (Bytes × ρ)
  skip : ρ → Nat → Except IoKind ρ
  position : ρ → Except IoKind (Nat × ρ)
  len : ρ → Except IoKind (Nat × ρ)

/-- how many bytes a `read` of `n` returns when `avail` are left: an oracle with 1 ≤ chunk -/
def chunkLimit (chunk : Nat) (n avail : Nat) : Nat := min (min n avail) (max chunk 1)

/-- an input over a stream whose `read` returns at most `chunk` bytes at a time; state = position -/
def idealRaw (s : Stream) (kind : SkipKind) (chunk : Nat) : RawOps Nat where
  read pos n :=
    let m := chunkLimit chunk n (s.len - pos)
    .ok (s.read pos m, pos + m)
  skip pos n := (idealOps s kind).skip pos n
  position pos := .ok (pos, pos)
  len pos := .ok (s.len, pos)

structure BufState (ρ : Type) where
  inner : ρ
  buf : Bytes          -- unread part of the buffer

/-- `read_exact(n)` (`exact = true`) or `take(n).read_to_end()` (`exact = false`) through a buffered reader: a loop of
    `read` calls, each served from the buffer (filled first when empty), or — when the buffer is empty and the
    request is at least the capacity — directly from the inner reader.  At the end of the input `read_exact`
    fails with UnexpectedEof and `read_to_end` returns what it has. -/
def bufReadLoop {ρ} (raw : RawOps ρ) (cap : Nat) (exact : Bool) :
    Nat → BufState ρ → Nat → Bytes → Except IoKind (Bytes × BufState ρ)
  | 0, st, need, acc => if need = 0 ∨ !exact then .ok (acc, st) else .error .unexpectedEof   -- fuel: unreachable
  | fuel + 1, st, need, acc =>
    if need = 0 then .ok (acc, st)
    else if st.buf.isEmpty ∧ cap ≤ need then
      match raw.read st.inner need with
      | .error e => .error e
      | .ok (b, inner') =>
        if b.isEmpty then (if exact then .error .unexpectedEof else .ok (acc, ⟨inner', []⟩))
        else bufReadLoop raw cap exact fuel ⟨inner', []⟩ (need - b.length) (acc ++ b)
    else
      let filled : Except IoKind (BufState ρ) :=
        if st.buf.isEmpty then
          match raw.read st.inner cap with
          | .error e => .error e
          | .ok (b, inner') => .ok ⟨inner', b⟩
        else .ok st
      match filled with
      | .error e => .error e
      | .ok st' =>
        if st'.buf.isEmpty then (if exact then .error .unexpectedEof else .ok (acc, st'))
        else
          let k := min need st'.buf.length
          bufReadLoop raw cap exact fuel ⟨st'.inner, st'.buf.drop k⟩ (need - k) (acc ++ st'.buf.take k)

def bufOps {ρ} (cap : Nat) (raw : RawOps ρ) : CursorOps (BufState ρ) where
  isEof st :=
    if !st.buf.isEmpty then .ok (false, st)
    else match raw.read st.inner cap with
      | .error e => .error e
      | .ok (b, inner') => .ok (b.isEmpty, ⟨inner', b⟩)
  position st :=
    match raw.position st.inner with
    | .error e => .error e
    | .ok (p, inner') => .ok (p - st.buf.length, ⟨inner', st.buf⟩)      -- saturating_sub
  streamLen st :=
    match raw.len st.inner with
    | .error e => .error e
    | .ok (l, inner') => .ok (l, ⟨inner', st.buf⟩)
  readExact st n := bufReadLoop raw cap true (n + 1) st n []
  skip st n :=
    -- skip.rs:74-82: skip what is not buffered in the inner reader first, then consume the buffer
    let bufLen := st.buf.length
    if bufLen ≤ n then
      if n - bufLen ≠ 0 then
        match raw.skip st.inner (n - bufLen) with
        | .error e => .error e
        | .ok inner' => .ok ⟨inner', []⟩
      else .ok ⟨st.inner, []⟩
    else .ok ⟨st.inner, st.buf.drop n⟩
  readUpTo st n := bufReadLoop raw cap false (n + 1) st n []

/-- a buffered reader seen as an input itself (for stacks: BufReader over Box over BufReader …): one `read` call is
    served from the buffer (after a fill when empty), or bypasses it when empty and the request is ≥ capacity -/
def bufRaw {ρ} (cap : Nat) (raw : RawOps ρ) : RawOps (BufState ρ) where
  read st n :=
    if st.buf.isEmpty ∧ cap ≤ n then
      match raw.read st.inner n with
      | .error e => .error e
      | .ok (b, inner') => .ok (b, ⟨inner', []⟩)
    else
      let filled : Except IoKind (BufState ρ) :=
        if st.buf.isEmpty then
          match raw.read st.inner cap with
          | .error e => .error e
          | .ok (b, inner') => .ok ⟨inner', b⟩
        else .ok st
      match filled with
      | .error e => .error e
      | .ok st' =>
        let k := min n st'.buf.length
        .ok (st'.buf.take k, ⟨st'.inner, st'.buf.drop k⟩)
  skip st n := (bufOps cap raw).skip st n
  position st := (bufOps cap raw).position st
  len st := (bufOps cap raw).streamLen st

/-- operation number `k` of a raw input fails with `e` (C13); state carries the operation counter -/
def faultyRaw {ρ} (raw : RawOps ρ) (k : Nat) (e : IoKind) : RawOps (ρ × Nat) where
  read s n := if s.2 = k then .error e else (raw.read s.1 n).map fun (b, r) => (b, (r, s.2 + 1))
  skip s n := if s.2 = k then .error e else (raw.skip s.1 n).map fun r => (r, s.2 + 1)
  position s := if s.2 = k then .error e else (raw.position s.1).map fun (p, r) => (p, (r, s.2 + 1))
  len s := if s.2 = k then .error e else (raw.len s.1).map fun (p, r) => (p, (r, s.2 + 1))

/-- a raw input that records how many bytes were delivered by `read` (C10 metering) -/
def meteredRaw {ρ} (raw : RawOps ρ) : RawOps (ρ × Nat) where
  read s n := (raw.read s.1 n).map fun (b, r) => (b, (r, s.2 + b.length))
  skip s n := (raw.skip s.1 n).map fun r => (r, s.2)
  position s := (raw.position s.1).map fun (p, r) => (p, (r, s.2))
  len s := (raw.len s.1).map fun (p, r) => (p, (r, s.2))

end MediaSan

namespace MediaSan
open MediaSan

/-! ### `SeekSkipAdapter` over a `Seek` with `std::io::Cursor` semantics (common/src/skip.rs:103-137) -/

inductive SeekFrom where
  | start (n : Nat)
  | current (d : Nat)      -- the adapter only seeks forward (or by 0)
  | endOff (d : Nat)

/-- `Cursor::seek`: any u64 target is fine (also past the end); an overflowing one is InvalidInput -/
def cursorSeek (len : Nat) (pos : Nat) : SeekFrom → Except IoKind Nat
  | .start n => .ok n
  | .current d => if pos + d < u64Lim then .ok (pos + d) else .error .invalidInput
  | .endOff d => if len + d < u64Lim then .ok (len + d) else .error .invalidInput

/-- `SeekSkipAdapter::skip` -/
def seekSkip (len pos amount : Nat) : Except IoKind Nat :=
  if amount ≤ i64Max then
    (if amount = 0 then .ok pos else cursorSeek len pos (.current amount))
  else
    -- amount does not fit i64: stream_position, checked_add, SeekFrom::Start
    match cursorSeek len pos (.current 0) with
    | .error e => .error e
    | .ok p => if p + amount < u64Lim then cursorSeek len p (.start (p + amount)) else .error .invalidData

/-- `SeekSkipAdapter::stream_len`: position, seek to the end, seek back unless already there; returns (len, final position) -/
def seekStreamLen (len pos : Nat) : Except IoKind (Nat × Nat) :=
  match cursorSeek len pos (.current 0) with
  | .error e => .error e
  | .ok p =>
    match cursorSeek len p (.endOff 0) with
    | .error e => .error e
    | .ok l =>
      if p ≠ l then
        match cursorSeek len l (.start p) with
        | .error e => .error e
        | .ok p' => .ok (l, p')
      else .ok (l, l)

end MediaSan
