/-
  Byte strings and fixed-width integer codecs (little- and big-endian) with round-trip lemmas.
  Core Lean only.
-/
namespace MediaSan

abbrev Bytes := List UInt8

deriving instance DecidableEq for Except

inductive Endian where
  | le | be
  deriving DecidableEq, Repr

/-- little-endian value of a byte string -/
def leToNat : Bytes → Nat
  | [] => 0
  | b :: bs => b.toNat + 256 * leToNat bs

/-- `n`-byte little-endian encoding of `v mod 256^n` -/
def natToLE : Nat → Nat → Bytes
  | 0, _ => []
  | n + 1, v => UInt8.ofNat (v % 256) :: natToLE n (v / 256)

def beToNat (bs : Bytes) : Nat := leToNat bs.reverse
def natToBE (n v : Nat) : Bytes := (natToLE n v).reverse

def toNatE : Endian → Bytes → Nat
  | .le => leToNat
  | .be => beToNat

def ofNatE : Endian → Nat → Nat → Bytes
  | .le => natToLE
  | .be => natToBE

@[simp] theorem natToLE_length (n v : Nat) : (natToLE n v).length = n := by
  induction n generalizing v with
  | zero => rfl
  | succ n ih => simp [natToLE, ih]

@[simp] theorem natToBE_length (n v : Nat) : (natToBE n v).length = n := by
  simp [natToBE]

@[simp] theorem ofNatE_length (e : Endian) (n v : Nat) : (ofNatE e n v).length = n := by
  cases e <;> simp [ofNatE]

theorem leToNat_lt (bs : Bytes) : leToNat bs < 256 ^ bs.length := by
  induction bs with
  | nil => simp [leToNat]
  | cons b bs ih =>
    have hb : b.toNat < 256 := b.toNat_lt
    simp only [leToNat, List.length_cons, Nat.pow_succ]
    omega

theorem beToNat_lt (bs : Bytes) : beToNat bs < 256 ^ bs.length := by
  have := leToNat_lt bs.reverse
  simpa [beToNat] using this

theorem toNatE_lt (e : Endian) (bs : Bytes) : toNatE e bs < 256 ^ bs.length := by
  cases e
  · exact leToNat_lt bs
  · exact beToNat_lt bs

theorem leToNat_natToLE (n v : Nat) (h : v < 256 ^ n) : leToNat (natToLE n v) = v := by
  induction n generalizing v with
  | zero => simp [Nat.pow_zero] at h; simp [natToLE, leToNat, h]
  | succ n ih =>
    have h2 : v / 256 < 256 ^ n := by
      rw [Nat.pow_succ] at h
      exact Nat.div_lt_of_lt_mul (by omega)
    simp only [natToLE, leToNat, ih _ h2]
    have : (UInt8.ofNat (v % 256)).toNat = v % 256 := by
      simp [UInt8.toNat_ofNat']
    rw [this]; omega

theorem natToLE_leToNat (bs : Bytes) : natToLE bs.length (leToNat bs) = bs := by
  induction bs with
  | nil => rfl
  | cons b bs ih =>
    have hb : b.toNat < 256 := b.toNat_lt
    simp only [List.length_cons, natToLE, leToNat]
    have h1 : (b.toNat + 256 * leToNat bs) % 256 = b.toNat := by omega
    have h2 : (b.toNat + 256 * leToNat bs) / 256 = leToNat bs := by omega
    rw [h1, h2, ih]
    congr 1
    apply UInt8.toNat.inj
    simp

theorem beToNat_natToBE (n v : Nat) (h : v < 256 ^ n) : beToNat (natToBE n v) = v := by
  simp [beToNat, natToBE, leToNat_natToLE n v h]

theorem natToBE_beToNat (bs : Bytes) : natToBE bs.length (beToNat bs) = bs := by
  have := natToLE_leToNat bs.reverse
  simp only [List.length_reverse] at this
  simp [beToNat, natToBE, this]

/-- decode ∘ encode = id, for either endianness, on values that fit -/
theorem toNatE_ofNatE (e : Endian) (n v : Nat) (h : v < 256 ^ n) : toNatE e (ofNatE e n v) = v := by
  cases e
  · exact leToNat_natToLE n v h
  · exact beToNat_natToBE n v h

/-- encode ∘ decode = id, for either endianness -/
theorem ofNatE_toNatE (e : Endian) (bs : Bytes) : ofNatE e bs.length (toNatE e bs) = bs := by
  cases e
  · exact natToLE_leToNat bs
  · exact natToBE_beToNat bs

end MediaSan
