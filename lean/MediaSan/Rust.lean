/-
  Rust integer primitives used by extracted code, over `BitVec n` (generic width).
  These are the *meanings* given to the Rust method names that `extract.py` emits;
  they are part of the trusted base (Rust semantics of the integer methods / `as` / comparisons).
  `u<n>` values and `i<n>` values are both stored as `BitVec n` (two's complement); the translator
  tracks which view a term has and picks the unsigned or the signed operation accordingly.
-/
namespace MediaSan.Rust

/-- `u<n>::overflowing_add`: wrapped sum and carry-out. -/
def overflowingAdd {n : Nat} (a b : BitVec n) : BitVec n × Bool :=
  (a + b, decide (2 ^ n ≤ a.toNat + b.toNat))

/-- `u<n>::overflowing_sub`: wrapped difference and borrow. -/
def overflowingSub {n : Nat} (a b : BitVec n) : BitVec n × Bool :=
  (a - b, decide (a.toNat < b.toNat))

/-- `u<n>::wrapping_add`. -/
def wrappingAdd {n : Nat} (a b : BitVec n) : BitVec n := a + b

/-- `u<n>::wrapping_sub`. -/
def wrappingSub {n : Nat} (a b : BitVec n) : BitVec n := a - b

/-- `u<n>::checked_add`. -/
def checkedAdd {n : Nat} (a b : BitVec n) : Option (BitVec n) :=
  if 2 ^ n ≤ a.toNat + b.toNat then none else some (a + b)

/-- `u<n>::checked_sub`. -/
def checkedSub {n : Nat} (a b : BitVec n) : Option (BitVec n) :=
  if a.toNat < b.toNat then none else some (a - b)

/-- `u<n>::saturating_add`. -/
def saturatingAdd {n : Nat} (a b : BitVec n) : BitVec n :=
  if 2 ^ n ≤ a.toNat + b.toNat then BitVec.allOnes n else a + b

/-- `u<n>::saturating_sub`. -/
def saturatingSub {n : Nat} (a b : BitVec n) : BitVec n :=
  if a.toNat < b.toNat then 0 else a - b

/-- `u<n>::MAX`. -/
def uMax {n : Nat} : BitVec n := BitVec.allOnes n

/-- `i<n> as u<n>` (and `u<n> as u<n>`): two's-complement reinterpretation. -/
def asSelf {n : Nat} (a : BitVec n) : BitVec n := a

/-- `i<n>::unsigned_abs`: the magnitude as `u<n>` (2^(n-1) for `MIN`). -/
def unsignedAbs {n : Nat} (a : BitVec n) : BitVec n := if a.toInt < 0 then -a else a

/-- `i<n>::wrapping_neg` (`MIN` stays `MIN`). -/
def wrappingNeg {n : Nat} (a : BitVec n) : BitVec n := -a

/-- `i<n>::saturating_neg` (`MIN` becomes `MAX`). -/
def saturatingNeg {n : Nat} (a : BitVec n) : BitVec n :=
  if 2 * a.toNat = 2 ^ n then BitVec.ofNat n (2 ^ n / 2 - 1) else -a

/-- `i<n>::wrapping_abs` (`MIN` stays `MIN`). -/
def wrappingAbs {n : Nat} (a : BitVec n) : BitVec n := if a.toInt < 0 then -a else a

/-- `i<n>::is_negative` / `is_positive`. -/
def isNegative {n : Nat} (a : BitVec n) : Bool := decide (a.toInt < 0)
def isPositive {n : Nat} (a : BitVec n) : Bool := decide (a.toInt > 0)

/-- signed comparisons against a literal, for `i<n>` values stored as `BitVec n`. -/
def sLtLit {n : Nat} (a : BitVec n) (k : Int) : Bool := decide (a.toInt < k)
def sLeLit {n : Nat} (a : BitVec n) (k : Int) : Bool := decide (a.toInt ≤ k)
def sGtLit {n : Nat} (a : BitVec n) (k : Int) : Bool := decide (a.toInt > k)
def sGeLit {n : Nat} (a : BitVec n) (k : Int) : Bool := decide (a.toInt ≥ k)
def sEqLit {n : Nat} (a : BitVec n) (k : Int) : Bool := decide (a.toInt = k)
def sNeLit {n : Nat} (a : BitVec n) (k : Int) : Bool := decide (a.toInt ≠ k)

/-- unsigned comparisons against a literal, for `u<n>` values. -/
def uLtLit {n : Nat} (a : BitVec n) (k : Int) : Bool := decide ((a.toNat : Int) < k)
def uLeLit {n : Nat} (a : BitVec n) (k : Int) : Bool := decide ((a.toNat : Int) ≤ k)
def uGtLit {n : Nat} (a : BitVec n) (k : Int) : Bool := decide ((a.toNat : Int) > k)
def uGeLit {n : Nat} (a : BitVec n) (k : Int) : Bool := decide ((a.toNat : Int) ≥ k)
def uEqLit {n : Nat} (a : BitVec n) (k : Int) : Bool := decide ((a.toNat : Int) = k)
def uNeLit {n : Nat} (a : BitVec n) (k : Int) : Bool := decide ((a.toNat : Int) ≠ k)

/-- comparisons between two `u<n>` values. -/
def uLt {n : Nat} (a b : BitVec n) : Bool := decide (a.toNat < b.toNat)
def uLe {n : Nat} (a b : BitVec n) : Bool := decide (a.toNat ≤ b.toNat)
def uGt {n : Nat} (a b : BitVec n) : Bool := decide (a.toNat > b.toNat)
def uGe {n : Nat} (a b : BitVec n) : Bool := decide (a.toNat ≥ b.toNat)
def uEq {n : Nat} (a b : BitVec n) : Bool := decide (a.toNat = b.toNat)
def uNe {n : Nat} (a b : BitVec n) : Bool := decide (a.toNat ≠ b.toNat)

/-- comparisons between two `i<n>` values. -/
def sLt {n : Nat} (a b : BitVec n) : Bool := decide (a.toInt < b.toInt)
def sLe {n : Nat} (a b : BitVec n) : Bool := decide (a.toInt ≤ b.toInt)
def sGt {n : Nat} (a b : BitVec n) : Bool := decide (a.toInt > b.toInt)
def sGe {n : Nat} (a b : BitVec n) : Bool := decide (a.toInt ≥ b.toInt)
def sEq {n : Nat} (a b : BitVec n) : Bool := decide (a.toInt = b.toInt)
def sNe {n : Nat} (a b : BitVec n) : Bool := decide (a.toInt ≠ b.toInt)

/-! What the `BitVec` operations mean for `toNat` / `toInt`, without `%`: the form the C20 proof script
    (a region split on sign and carry, every test then decided by `omega`) works with. -/

theorem toNat_add' {n} (a b : BitVec n) :
    (a + b).toNat = if a.toNat + b.toNat < 2 ^ n then a.toNat + b.toNat else a.toNat + b.toNat - 2 ^ n := by
  have ha := a.isLt; have hb := b.isLt
  rw [BitVec.toNat_add]
  split
  · exact Nat.mod_eq_of_lt ‹_›
  · rw [Nat.mod_eq_sub_mod (by omega), Nat.mod_eq_of_lt (by omega)]

theorem toNat_sub' {n} (a b : BitVec n) :
    (a - b).toNat = if b.toNat ≤ a.toNat then a.toNat - b.toNat else a.toNat + 2 ^ n - b.toNat := by
  have ha := a.isLt; have hb := b.isLt
  rw [BitVec.toNat_sub]
  split
  · have : 2 ^ n - b.toNat + a.toNat = (a.toNat - b.toNat) + 2 ^ n := by omega
    rw [this, Nat.add_mod_right, Nat.mod_eq_of_lt (by omega)]
  · rw [Nat.mod_eq_of_lt (by omega)]; omega

theorem toNat_neg' {n} (a : BitVec n) : (-a).toNat = if a.toNat = 0 then 0 else 2 ^ n - a.toNat := by
  have ha := a.isLt
  rw [BitVec.toNat_neg]
  split
  · simp [*]
  · rw [Nat.mod_eq_of_lt (by omega)]

theorem toInt' {n} (a : BitVec n) :
    a.toInt = if 2 * a.toNat < 2 ^ n then (a.toNat : Int) else (a.toNat : Int) - ((2 ^ n : Nat) : Int) := by
  simp [BitVec.toInt]

theorem toNat_ofNat_lt {n} (k : Nat) (h : k < 2 ^ n) : (BitVec.ofNat n k).toNat = k := by
  simp [BitVec.toNat_ofNat, Nat.mod_eq_of_lt h]

theorem toNat_allOnes' {n} : (BitVec.allOnes n).toNat = 2 ^ n - 1 := BitVec.toNat_allOnes

theorem toNat_zero' {n} : (0 : BitVec n).toNat = 0 := by simp

end MediaSan.Rust
