/-
  Rust integer primitives used by extracted code, over `BitVec n` (generic width).
  These are the *meanings* given to the Rust method names that `extract.py` emits;
  they are part of the trusted base (Rust semantics of overflowing_add / `as` / comparisons).
-/
namespace MediaSan.Rust

/-- `u<n>::overflowing_add`: wrapped sum and carry-out. -/
def overflowingAdd {n : Nat} (a b : BitVec n) : BitVec n × Bool :=
  (a + b, decide (2 ^ n ≤ a.toNat + b.toNat))

/-- `u<n>::wrapping_add`. -/
def wrappingAdd {n : Nat} (a b : BitVec n) : BitVec n := a + b

/-- `u<n>::checked_add`. -/
def checkedAdd {n : Nat} (a b : BitVec n) : Option (BitVec n) :=
  if 2 ^ n ≤ a.toNat + b.toNat then none else some (a + b)

/-- `u<n>::saturating_add`. -/
def saturatingAdd {n : Nat} (a b : BitVec n) : BitVec n :=
  if 2 ^ n ≤ a.toNat + b.toNat then BitVec.allOnes n else a + b

/-- `i<n> as u<n>` (and `u<n> as u<n>`): two's-complement reinterpretation. -/
def asSelf {n : Nat} (a : BitVec n) : BitVec n := a

/-- signed `<` against a literal, for `i<n>` values stored as `BitVec n`. -/
def sLtLit {n : Nat} (a : BitVec n) (k : Int) : Bool := decide (a.toInt < k)
def sLeLit {n : Nat} (a : BitVec n) (k : Int) : Bool := decide (a.toInt ≤ k)
def sGtLit {n : Nat} (a : BitVec n) (k : Int) : Bool := decide (a.toInt > k)
def sGeLit {n : Nat} (a : BitVec n) (k : Int) : Bool := decide (a.toInt ≥ k)
def sEqLit {n : Nat} (a : BitVec n) (k : Int) : Bool := decide (a.toInt = k)
def sNeLit {n : Nat} (a : BitVec n) (k : Int) : Bool := decide (a.toInt ≠ k)

/-- unsigned comparisons against a literal, for `u<n>` values. -/
def uLtLit {n : Nat} (a : BitVec n) (k : Int) : Bool := decide ((a.toNat : Int) < k)
def uLeLit {n : Nat} (a : BitVec n) (k : Int) : Bool := decide ((a.toNat : Int) ≤ k)
def uGtLit {n : Nat} (a : BitVec n) (k : Int) : Bool := decide ((a.toNat : Int) > k)
def uGeLit {n : Nat} (a : BitVec n) (k : Int) : Bool := decide ((a.toNat : Int) ≥ k)
def uEqLit {n : Nat} (a : BitVec n) (k : Int) : Bool := decide ((a.toNat : Int) = k)
def uNeLit {n : Nat} (a : BitVec n) (k : Int) : Bool := decide ((a.toNat : Int) ≠ k)

end MediaSan.Rust
