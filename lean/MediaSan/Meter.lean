/-
  Metering (C10): a raw input that records every byte range its `read` delivers, and ghost counters for the
  accounting of physical reads against logical consumption through `BufReader`.
-/
import MediaSan.Adapters
namespace MediaSan
open MediaSan

/-- the ideal input, recording (offset, length) of every non-empty `read` (most recent first) -/
def tracedIdeal (s : Stream) (kind : SkipKind) (chunk : Nat) : RawOps (Nat × List (Nat × Nat)) where
  read st n :=
    let m := chunkLimit chunk n (s.len - st.1)
    .ok (s.read st.1 m, (st.1 + m, if m = 0 then st.2 else (st.1, m) :: st.2))
  skip st n := ((idealOps s kind).skip st.1 n).map fun p => (p, st.2)
  position st := .ok (st.1, st)
  len st := .ok (s.len, st)

/-- merge adjacent ranges of a trace given oldest-first -/
def mergeRanges : List (Nat × Nat) → List (Nat × Nat)
  | [] => []
  | (a, n) :: rest =>
    match mergeRanges rest with
    | (b, m) :: more => if a + n = b then (a, n + m) :: more else (a, n) :: (b, m) :: more
    | [] => [(a, n)]

/-- no `read_exact` / `read_to_end` / `fill_buf` anywhere in the program: it can only query and skip -/
inductive ReadFree {E α : Type} : Prog E α → Prop where
  | done (a : α) : ReadFree (.done a)
  | fail (e : E) : ReadFree (.fail e)
  | panic (s : String) : ReadFree (.panic s)
  | position {k : Nat → Prog E α} : (∀ p, ReadFree (k p)) → ReadFree (.position k)
  | streamLen {k : Nat → Prog E α} : (∀ p, ReadFree (k p)) → ReadFree (.streamLen k)
  | skip (n : Nat) (eof : Option E) {k : Unit → Prog E α} : (∀ u, ReadFree (k u)) → ReadFree (.skip n eof k)

/-- every `read_exact` request anywhere in the program is for at most `L` bytes -/
inductive MaxRead {E α : Type} (L : Nat) : Prog E α → Prop where
  | done (a : α) : MaxRead L (.done a)
  | fail (e : E) : MaxRead L (.fail e)
  | panic (s : String) : MaxRead L (.panic s)
  | isEof {k : Bool → Prog E α} : (∀ b, MaxRead L (k b)) → MaxRead L (.isEof k)
  | position {k : Nat → Prog E α} : (∀ p, MaxRead L (k p)) → MaxRead L (.position k)
  | streamLen {k : Nat → Prog E α} : (∀ p, MaxRead L (k p)) → MaxRead L (.streamLen k)
  | skip (n : Nat) (eof : Option E) {k : Unit → Prog E α} : (∀ u, MaxRead L (k u)) → MaxRead L (.skip n eof k)
  | readExact (n : Nat) (eof : Option E) {k : Bytes → Prog E α} : n ≤ L → (∀ b, MaxRead L (k b)) →
      MaxRead L (.readExact n eof k)

end MediaSan
