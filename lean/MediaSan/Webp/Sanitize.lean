/-
  Model of webpsan's container code: `ChunkReader` (webpsan/src/reader.rs) as a three-level stack of chunk
  state machines over one underlying cursor, and `sanitize_with_config` / `sanitize_extended` / `sanitize_still` /
  `sanitize_animated` (webpsan/src/lib.rs:108-334) as an I/O program.

  Levels: 0 = `file_reader` (over the input), 1 = `reader` (child of the RIFF chunk), 2 = `anmf_reader` (child of an
  ANMF chunk).  A read or skip at level k is bounded by the remaining body of the current chunk of every level
  below k (`ChunkDataReader`); the per-level `BufReader`s only prefetch within those bounds and are transparent
  (C15), so the model works on the un-buffered stack.
-/
import MediaSan.Stream
import MediaSan.Vp8l.Lossless
import MediaSan.Generated.WebpCodec
import MediaSan.Generated.WebpConsts
namespace MediaSan.Webp
open MediaSan MediaSan.Generated

/-- `ParseError` of webpsan, without payloads -/
inductive WErr where
  | invalidChunkLayout | invalidInput | invalidVp8lPrefixCode | missingRequiredChunk
  | truncatedChunk | unsupportedChunk | unsupportedVp8lVersion
  deriving DecidableEq, Repr

def WErr.name : WErr → String
  | .invalidChunkLayout => "InvalidChunkLayout" | .invalidInput => "InvalidInput"
  | .invalidVp8lPrefixCode => "InvalidVp8lPrefixCode" | .missingRequiredChunk => "MissingRequiredChunk"
  | .truncatedChunk => "TruncatedChunk" | .unsupportedChunk => "UnsupportedChunk"
  | .unsupportedVp8lVersion => "UnsupportedVp8lVersion"

abbrev WP := Prog WErr

structure Config where
  allowUnknownChunks : Bool := false
  deriving Repr

/-- chunk state machine of one `ChunkReader` (reader.rs:25-30) -/
inductive CState where
  | idle
  | peeking (name : Bytes) (len : Nat)
  | body (name : Bytes) (len : Nat) (remaining : Nat)     -- remaining > 0
  | padding (name : Bytes) (len : Nat)
  deriving Repr, DecidableEq

/-- the reader stack -/
structure RS where
  l0 : CState := .idle
  l1 : CState := .idle
  l2 : CState := .idle
  deriving Repr

def RS.get (r : RS) : Nat → CState
  | 0 => r.l0
  | 1 => r.l1
  | _ => r.l2

def RS.set (r : RS) (k : Nat) (c : CState) : RS :=
  match k with
  | 0 => { r with l0 := c }
  | 1 => { r with l1 := c }
  | _ => { r with l2 := c }

def bodyRemaining : CState → Nat
  | .body _ _ rem => rem
  | _ => 0

/-- how many bytes a read/skip at level `k` may still cover: `none` = unbounded (the file reader) -/
def RS.bound (r : RS) : Nat → Option Nat
  | 0 => none
  | 1 => some (bodyRemaining r.l0)
  | _ => some (min (bodyRemaining r.l1) (bodyRemaining r.l0))

def within (b : Option Nat) (n : Nat) : Bool :=
  match b with
  | none => true
  | some m => decide (n ≤ m)

def consumeState (c : CState) (n : Nat) : CState :=
  match c with
  | .body name len rem => if rem - n = 0 then .padding name len else .body name len (rem - n)
  | c => c

/-- account `n` consumed bytes on every level below `k` (`ChunkDataReader::{read, skip}`) -/
def RS.consume (r : RS) (k n : Nat) : RS :=
  if n = 0 then r else
  match k with
  | 0 => r
  | 1 => { r with l0 := consumeState r.l0 n }
  | _ => { r with l0 := consumeState r.l0 n, l1 := consumeState r.l1 n }

/-- `fill_buf()?.is_empty()` at level k -/
def rawIsEmpty (r : RS) (k : Nat) : WP Bool :=
  match r.bound k with
  | some 0 => .done true
  | _ => .isEof fun e => .done e

/-- `read_exact(n)` at level k; every call site maps UnexpectedEof to TruncatedChunk -/
def rawRead (r : RS) (k n : Nat) : WP (Bytes × RS) :=
  if n = 0 then .done ([], r)
  else if within (r.bound k) n then .readExact n (some .truncatedChunk) fun b => .done (b, r.consume k n)
  else .fail .truncatedChunk

/-- `skip(n)` at level k -/
def rawSkip (r : RS) (k n : Nat) : WP RS :=
  if within (r.bound k) n then
    (if n = 0 then .done r else .skip n (some .truncatedChunk) fun _ => .done (r.consume k n))
  else .fail .truncatedChunk

def FRIFF : Bytes := [0x52, 0x49, 0x46, 0x46]
def FWEBP : Bytes := [0x57, 0x45, 0x42, 0x50]
def FVP8 : Bytes := [0x56, 0x50, 0x38, 0x20]
def FVP8L : Bytes := [0x56, 0x50, 0x38, 0x4c]
def FVP8X : Bytes := [0x56, 0x50, 0x38, 0x58]
def FALPH : Bytes := [0x41, 0x4c, 0x50, 0x48]
def FANIM : Bytes := [0x41, 0x4e, 0x49, 0x4d]
def FANMF : Bytes := [0x41, 0x4e, 0x4d, 0x46]
def FEXIF : Bytes := [0x45, 0x58, 0x49, 0x46]
def FICCP : Bytes := [0x49, 0x43, 0x43, 0x50]
def FXMP : Bytes := [0x58, 0x4d, 0x50, 0x20]

/-- `read_padding` (reader.rs:216-238) -/
def readPadding (r : RS) (k : Nat) : WP RS :=
  match r.get k with
  | .padding _ len =>
    if len % 2 = 1 then
      (rawRead r k 1).bind fun (b, r') =>
        if b = [0] then .done (r'.set k .idle) else .fail .invalidInput
    else .done (r.set k .idle)
  | _ => .done r

/-- `has_remaining` (reader.rs:46-54) -/
def hasRemaining (r : RS) (k : Nat) : WP (Bool × RS) :=
  (readPadding r k).bind fun r =>
    match r.get k with
    | .idle => (rawIsEmpty r k).bind fun e => .done (!e, r)
    | _ => .done (true, r)

def parseChunkHeader (b : Bytes) : Bytes × Nat := (b.take 4, leToNat ((b.drop 4).take 4))

/-- `read_any_header` (reader.rs:101-130): returns the chunk name -/
def readAnyHeader (r : RS) (k : Nat) : WP (Bytes × RS) :=
  (readPadding r k).bind fun r =>
    let withHeader (name : Bytes) (len : Nat) (r : RS) : WP (Bytes × RS) :=
      let r' := r.set k (if len = 0 then .padding name len else .body name len len)
      -- `self.inner.stream_position()? - ENCODED_LEN`
      .position fun pos => if pos < 8 then .panic "reader.rs:127 stream_position - 8" else .done (name, r')
    match r.get k with
    | .peeking name len => withHeader name len r
    | .idle =>
      (hasRemaining r k).bind fun (more, r) =>
        if !more then .fail .invalidChunkLayout
        else (rawRead r k 8).bind fun (b, r) =>
          let (name, len) := parseChunkHeader b
          withHeader name len r
    | .body _ _ _ => .fail .invalidInput
    | .padding _ _ => .panic "unreachable: padding after read_padding"

/-- `peek_header` (reader.rs:57-81) -/
def peekHeader (r : RS) (k : Nat) : WP (Option Bytes × RS) :=
  (readPadding r k).bind fun r =>
    match r.get k with
    | .peeking name _ => .done (some name, r)
    | .idle =>
      (hasRemaining r k).bind fun (more, r) =>
        if !more then .done (none, r)
        else (rawRead r k 8).bind fun (b, r) =>
          let (name, len) := parseChunkHeader b
          .done (some name, r.set k (.peeking name len))
    | .body _ _ _ => .fail .invalidInput
    | .padding _ _ => .panic "unreachable: padding after read_padding"

/-- `read_header(name)` (reader.rs:84-98) -/
def readHeader (r : RS) (k : Nat) (name : Bytes) : WP RS :=
  (readPadding r k).bind fun r =>
    let go (r : RS) : WP RS :=
      (readAnyHeader r k).bind fun (got, r) => if got = name then .done r else .fail .invalidChunkLayout
    match r.get k with
    | .idle => (hasRemaining r k).bind fun (more, r) => if more then go r else .fail .missingRequiredChunk
    | _ => go r

/-- `read_data(len)` (reader.rs:140-171) -/
def readData (r : RS) (k n : Nat) : WP (Bytes × RS) :=
  (readPadding r k).bind fun r =>
    match r.get k with
    | .idle => .fail .truncatedChunk
    | .peeking _ _ => .panic "reader.rs:144 read_header must be read after peek_header"
    | .body name len rem =>
      if rem < n then .fail .truncatedChunk
      else (rawRead r k n).bind fun (b, r) =>
        .done (b, r.set k (if rem - n = 0 then .padding name len else .body name len (rem - n)))
    | .padding _ _ => .panic "unreachable: padding after read_padding"

/-- `skip_data` (reader.rs:174-194) -/
def skipData (r : RS) (k : Nat) : WP RS :=
  (readPadding r k).bind fun r =>
    match r.get k with
    | .idle => .done r
    | .peeking _ _ => .panic "reader.rs:178 read_header must be read after peek_header"
    | .body name len rem => (rawSkip r k rem).bind fun r => .done (r.set k (.padding name len))
    | .padding _ _ => .panic "unreachable: padding after read_padding"

def liftPrim {α} (x : Except PrimErr α) : WP α :=
  match x with
  | .ok a => .done a
  | .error .truncated => .fail .truncatedChunk
  | .error .invalidInput => .fail .invalidInput
  | .error .panic => .panic "codec parse on a short buffer"

/-- `parse_data::<T>()` for a schema-described chunk -/
def parseData (r : RS) (k : Nat) (s : Schema) : WP (List Nat × RS) :=
  (readData r k s.encodedLen).bind fun (b, r) =>
    (liftPrim (s.parse b)).bind fun (vs, _) => .done (vs, r)

def liftLossless (x : Except Vp8l.LErr Unit) : WP Unit :=
  match x with
  | .ok _ => .done ()
  | .error .truncated => .fail .truncatedChunk
  | .error .invalidInput => .fail .invalidInput
  | .error .invalidPrefixCode => .fail .invalidVp8lPrefixCode
  | .error (.panic s) => .panic s

/-- `sanitize_image_data(reader.data_reader())`: the validator pulls the chunk's remaining data (bounded by the
    chunk, by the enclosing chunks and by the end of the input) through its bit buffer -/
def sanitizeImageData (r : RS) (k : Nat) (w h : Nat) : WP RS :=
  match r.get k with
  | .body name len rem =>
    let avail := match r.bound k with
      | none => rem
      | some m => min rem m
    .readUpTo avail fun data =>
      (liftLossless (Vp8l.validate (ByteArray.mk data.toArray) w h)).bind fun _ =>
        let r' := r.consume k data.length
        let rem' := rem - data.length
        .done (r'.set k (if rem' = 0 then .padding name len else .body name len rem'))
  | _ => liftLossless (Vp8l.validate ByteArray.empty w h) |>.bind fun _ => .done r

/-- VP8L chunk: `parse_data::<Vp8lChunk>()`, optional dimension check, `sanitize_image_data`, `skip_data` -/
def vp8lChunk (r : RS) (k : Nat) (expect : Option (Nat × Nat)) : WP RS :=
  (readData r k 5).bind fun x =>
    let r := x.2
    match Vp8l.parseVp8lHeader (ByteArray.mk x.1.toArray) with
    | .error .invalidInput => .fail .invalidInput
    | .error .unsupportedVersion => .fail .unsupportedVp8lVersion
    | .ok (w, h) =>
      let dimsOk := match expect with
        | none => true
        | some (ew, eh) => decide (w = ew ∧ h = eh)
      if !dimsOk then .fail .invalidInput
      else (sanitizeImageData r k w h).bind fun r => skipData r k

/-- ALPH chunk: `parse_data::<AlphChunk>()`, lossless validation against (w, h) when COMPRESS_LOSSLESS, `skip_data` -/
def alphChunk (r : RS) (k : Nat) (w h : Nat) : WP RS :=
  (parseData r k schemaAlphChunk).bind fun (vs, r) =>
    let flags := vs.getD 0 0
    (if flags % 2 = 1 then sanitizeImageData r k w h else .done r).bind fun r => skipData r k

def knownTrailing (name : Bytes) : Bool :=
  name = FALPH ∨ name = FANIM ∨ name = FEXIF ∨ name = FICCP ∨ name = FVP8 ∨ name = FVP8L ∨ name = FVP8X ∨ name = FXMP

/-- the "unknown chunks" loops (lib.rs:155-168 and 313-331); `inAnmf` adds ANMF to the multiple-chunks arm -/
def trailingLoop (cfg : Config) (k : Nat) (inAnmf : Bool) : Nat → RS → WP (Option RS)
  | 0, _ => .done none
  | fuel + 1, r =>
    (hasRemaining r k).bind fun (more, r) =>
      if !more then .done (some r)
      else (readAnyHeader r k).bind fun (name, r) =>
        if knownTrailing name ∨ name = FANMF then .fail .invalidChunkLayout
        else if !cfg.allowUnknownChunks then .fail .unsupportedChunk
        else (skipData r k).bind fun r => trailingLoop cfg k inAnmf fuel r

def flagSet (flags bit : Nat) : Bool := flags / bit % 2 = 1

/-- `sanitize_still` (lib.rs:207-247) -/
def sanitizeStill (r : RS) (flags cw ch : Nat) : WP RS :=
  let hasAlph := flagSet flags 16
  (if hasAlph then (readHeader r 1 FALPH).bind fun r => alphChunk r 1 cw ch else .done r).bind fun r =>
  (hasRemaining r 1).bind fun (more, r) =>
    if !more then .fail .missingRequiredChunk
    else (readAnyHeader r 1).bind fun (name, r) =>
      if name = FVP8 then skipData r 1
      else if name = FVP8L then
        if hasAlph then .fail .invalidChunkLayout else vp8lChunk r 1 (some (cw, ch))
      else .fail .invalidChunkLayout

/-- one ANMF frame (lib.rs:261-331); `frameDims` says which dimensions a lossless frame is checked against -/
def sanitizeFrame (cfg : Config) (r : RS) (flags cw ch fuel : Nat) : WP (Option RS) :=
  (readHeader r 1 FANMF).bind fun r =>
  (parseData r 1 schemaAnmfChunk).bind fun (vs, r) =>
  let fw := vs.getD 2 0      -- anmf.width()
  let fh := vs.getD 3 0      -- anmf.height()
  let r := r.set 2 .idle     -- `reader.child_reader()`
  (if flagSet flags 16 then
      (peekHeader r 2).bind fun (nm, r) =>
        -- the alpha plane of a frame has the dimensions of the frame (lib.rs: `sanitize_image_data_with_dimensions`)
        if nm = some FALPH then (readHeader r 2 FALPH).bind fun r => (alphChunk r 2 fw fh).bind fun r => .done (true, r)
        else .done (false, r)
    else .done (false, r)).bind fun (sawAlph, r) =>
  (readAnyHeader r 2).bind fun (name, r) =>
    (if name = FVP8 then skipData r 2
     else if name = FVP8L then
       if sawAlph then .fail .invalidChunkLayout else vp8lChunk r 2 (some (fw, fh))
     else .fail .invalidChunkLayout).bind fun r =>
    trailingLoop cfg 2 true fuel r

/-- `while let Some(ANMF) = reader.peek_header()?` (lib.rs:260) -/
def framesLoop (cfg : Config) (flags cw ch : Nat) (fuel : Nat) : Nat → RS → WP (Option RS)
  | 0, _ => .done none
  | n + 1, r =>
    (peekHeader r 1).bind fun (nm, r) =>
      if nm = some FANMF then
        (sanitizeFrame cfg r flags cw ch fuel).bind fun
          | none => .done none
          | some r => framesLoop cfg flags cw ch fuel n r
      else .done (some r)

/-- `sanitize_animated` (lib.rs:249-334) -/
def sanitizeAnimated (cfg : Config) (r : RS) (flags cw ch fuel : Nat) : WP (Option RS) :=
  (readHeader r 1 FANIM).bind fun r =>
  (parseData r 1 schemaAnimChunk).bind fun (_, r) =>
  (peekHeader r 1).bind fun (nm, r) =>
    if nm = some FANMF then framesLoop cfg flags cw ch fuel fuel r else .fail .missingRequiredChunk

/-- `sanitize_extended` (lib.rs:179-205) -/
def sanitizeExtended (cfg : Config) (r : RS) (flags cw ch fuel : Nat) : WP (Option RS) :=
  (if flagSet flags 32 then (readHeader r 1 FICCP).bind fun r => skipData r 1 else .done r).bind fun r =>
  (if flagSet flags 2 then sanitizeAnimated cfg r flags cw ch fuel
   else (sanitizeStill r flags cw ch).bind fun r => .done (some r)).bind fun
  | none => .done none
  | some r =>
    (if flagSet flags 8 then (readHeader r 1 FEXIF).bind fun r => skipData r 1 else .done r).bind fun r =>
    (if flagSet flags 4 then (readHeader r 1 FXMP).bind fun r => skipData r 1 else .done r).bind fun r =>
    .done (some r)

/-- `8 + header.len` of the RIFF chunk the file reader is in (lib.rs:141-146) -/
def riffLen : CState → Nat
  | .body _ l _ => l + 8
  | .padding _ l => l + 8
  | _ => 8

/-- `sanitize_with_config` (lib.rs:108-177).  `none` = out of fuel. -/
def sanitizeP (cfg : Config) (fuel : Nat) : WP (Option Unit) :=
  let r : RS := {}
  (readHeader r 0 FRIFF).bind fun r =>
  let len := riffLen r.l0
  (readData r 0 4).bind fun (b, r) =>
  if b ≠ FWEBP then .fail .invalidInput
  else if len > webpMaxFileLen then .fail .invalidInput
  else
    let r := r.set 1 .idle       -- `file_reader.child_reader()`
    (readAnyHeader r 1).bind fun (name, r) =>
    (if name = FVP8 then (skipData r 1).bind fun r => .done (some r)
     else if name = FVP8L then (vp8lChunk r 1 none).bind fun r => .done (some r)
     else if name = FVP8X then
       (parseData r 1 schemaVp8xChunk).bind fun (vs, r) =>
         sanitizeExtended cfg r (vs.getD 0 0) (vs.getD 2 0) (vs.getD 3 0) fuel
     else .fail .invalidChunkLayout).bind fun
    | none => .done none
    | some r =>
      (trailingLoop cfg 1 false fuel r).bind fun
      | none => .done none
      | some r =>
        (hasRemaining r 0).bind fun (more, _) =>
          if more then .fail .invalidInput
          else
            -- `file_reader.ensure_within_input()` (lib.rs:176-177, reader.rs:57-64)
            .position fun pos => .streamLen fun len =>
              if pos ≤ len then .done (some ()) else .fail .truncatedChunk

def sanitizeWith {σ} (ops : CursorOps σ) (st : σ) (cfg : Config) (fuel : Nat) : Outcome WErr Unit :=
  match (sanitizeP cfg fuel).run ops st with
  | .ok (some r) => .ok r
  | .ok none => .outOfFuel
  | .parseErr e => .parseErr e
  | .ioErr k => .ioErr k
  | .panic s => .panic s
  | .outOfFuel => .outOfFuel

def sanitize (s : Stream) (kind : SkipKind) (cfg : Config) : Outcome WErr Unit :=
  sanitizeWith (idealOps s kind) 0 cfg (s.len / 8 + 2)

end MediaSan.Webp
