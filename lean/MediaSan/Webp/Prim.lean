/-
  Model of webpsan's primitive and chunk codecs (webpsan/src/parse/{integers,header,vp8x,anim,anmf,alph}.rs)
  as *schemas*: a chunk is a list of typed fields; parsing and writing are generic over the schema.
  The schemas themselves (field order of `parse`, field order of `put_buf`, getter/putter endianness of
  every integer primitive, flag masks, reserved lengths) are regenerated from the Rust source by
  extract/extract.py into `MediaSan/Generated/WebpCodec.lean`.
-/
import MediaSan.Bytes
namespace MediaSan.Webp

/-- errors a codec can raise: the two `ParseError` kinds used by the codecs, and a panic
    (`bytes::Buf::get_u8` on an empty buffer inside `Reserved::parse`). -/
inductive PrimErr where
  | truncated      -- ParseError::TruncatedChunk
  | invalidInput   -- ParseError::InvalidInput
  | panic          -- would panic (buffer shorter than the callers guarantee)
  deriving DecidableEq, Repr

/-- how an integer is read (`get_*`) and written (`put_*`) -/
structure IntCodec where
  bytes : Nat
  get : Endian
  put : Endian
  deriving DecidableEq, Repr

inductive FieldTy where
  | int (c : IntCodec)                 -- webm_int! row, or U24
  | oneBased (c : IntCodec)            -- OneBasedU24: value = 1 + raw (NonZeroU32::MIN.saturating_add)
  | reserved (n : Nat)                 -- Reserved<n>: n zero bytes
  | flags (c : IntCodec) (mask : Nat)  -- bitflags: from_bits (no unknown bits)
  deriving DecidableEq, Repr

def u32Max : Nat := 4294967295

def parseReserved : Nat → Bytes → Except PrimErr Bytes
  | 0, bs => .ok bs
  | _ + 1, [] => .error .panic
  | n + 1, b :: bs => if b = 0 then parseReserved n bs else .error .invalidInput

def parseField : FieldTy → Bytes → Except PrimErr (Nat × Bytes)
  | .int c, bs =>
    if bs.length < c.bytes then .error .truncated
    else .ok (toNatE c.get (bs.take c.bytes), bs.drop c.bytes)
  | .oneBased c, bs =>
    if bs.length < c.bytes then .error .truncated
    else .ok (min (1 + toNatE c.get (bs.take c.bytes)) u32Max, bs.drop c.bytes)
  | .reserved n, bs =>
    match parseReserved n bs with
    | .ok rest => .ok (0, rest)
    | .error e => .error e
  | .flags c mask, bs =>
    if bs.length < c.bytes then .error .truncated
    else
      let v := toNatE c.get (bs.take c.bytes)
      if v &&& mask = v then .ok (v, bs.drop c.bytes) else .error .invalidInput

def putField : FieldTy → Nat → Bytes
  | .int c, v => ofNatE c.put c.bytes v
  | .oneBased c, v => ofNatE c.put c.bytes (v - 1)
  | .reserved n, _ => List.replicate n 0
  | .flags c _, v => ofNatE c.put c.bytes v

def FieldTy.encodedLen : FieldTy → Nat
  | .int c => c.bytes
  | .oneBased c => c.bytes
  | .reserved n => n
  | .flags c _ => c.bytes

def parseFields : List FieldTy → Bytes → Except PrimErr (List Nat × Bytes)
  | [], bs => .ok ([], bs)
  | t :: ts, bs =>
    match parseField t bs with
    | .error e => .error e
    | .ok (v, rest) =>
      match parseFields ts rest with
      | .error e => .error e
      | .ok (vs, rest') => .ok (v :: vs, rest')

def putFields : List FieldTy → List Nat → Bytes
  | t :: ts, v :: vs => putField t v ++ putFields ts vs
  | _, _ => []

/-- A chunk's codec as read off the source. `post` is an extra check on the parsed values. -/
structure Schema where
  name : String
  fields : List (String × FieldTy)     -- in the order `parse` reads them
  putOrder : List String               -- in the order `put_buf` writes them
  post : List Nat → Bool := fun _ => true

def Schema.tys (s : Schema) : List FieldTy := s.fields.map (·.2)
def Schema.encodedLen (s : Schema) : Nat := (s.tys.map FieldTy.encodedLen).sum

def lookupVal (names : List String) (vals : List Nat) (nm : String) : Nat :=
  match names, vals with
  | n :: ns, v :: vs => if n = nm then v else lookupVal ns vs nm
  | _, _ => 0

def lookupTy (fields : List (String × FieldTy)) (nm : String) : FieldTy :=
  match fields with
  | (n, t) :: fs => if n = nm then t else lookupTy fs nm
  | [] => .reserved 0

/-- write in `put_buf` order (general: by name) -/
def putPermuted (s : Schema) (vals : List Nat) : Bytes :=
  (s.putOrder.map fun nm => putField (lookupTy s.fields nm) (lookupVal (s.fields.map (·.1)) vals nm)).flatten

def Schema.put (s : Schema) (vals : List Nat) : Bytes :=
  if s.putOrder = s.fields.map (·.1) then putFields s.tys vals else putPermuted s vals

def Schema.parse (s : Schema) (bs : Bytes) : Except PrimErr (List Nat × Bytes) :=
  match parseFields s.tys bs with
  | .error e => .error e
  | .ok (vs, rest) => if s.post vs then .ok (vs, rest) else .error .invalidInput

/-! ### well-formedness of values and coherence of codecs -/

def IntCodec.Coherent (c : IntCodec) : Prop := c.get = c.put ∨ c.bytes ≤ 1
def IntCodec.IsLE (c : IntCodec) : Prop := (c.get = .le ∧ c.put = .le) ∨ c.bytes ≤ 1

instance (c : IntCodec) : Decidable c.Coherent := by unfold IntCodec.Coherent; infer_instance
instance (c : IntCodec) : Decidable c.IsLE := by unfold IntCodec.IsLE; infer_instance

def FieldTy.Coherent : FieldTy → Prop
  | .int c => c.Coherent
  | .oneBased c => c.Coherent ∧ 256 ^ c.bytes < u32Max
  | .reserved _ => True
  | .flags c _ => c.Coherent

def FieldTy.IsLE : FieldTy → Prop
  | .int c => c.IsLE
  | .oneBased c => c.IsLE
  | .reserved _ => True
  | .flags c _ => c.IsLE

instance (t : FieldTy) : Decidable t.Coherent := by cases t <;> unfold FieldTy.Coherent <;> infer_instance
instance (t : FieldTy) : Decidable t.IsLE := by cases t <;> unfold FieldTy.IsLE <;> infer_instance

/-- values a field can hold (the image of `parseField`) -/
def FieldTy.WF : FieldTy → Nat → Prop
  | .int c, v => v < 256 ^ c.bytes
  | .oneBased c, v => 1 ≤ v ∧ v ≤ 256 ^ c.bytes
  | .reserved _, v => v = 0
  | .flags c mask, v => v < 256 ^ c.bytes ∧ v &&& mask = v

def WFs : List FieldTy → List Nat → Prop
  | [], [] => True
  | t :: ts, v :: vs => t.WF v ∧ WFs ts vs
  | _, _ => False

instance (t : FieldTy) (v : Nat) : Decidable (t.WF v) := by
  cases t <;> unfold FieldTy.WF <;> infer_instance

instance : (ts : List FieldTy) → (vs : List Nat) → Decidable (WFs ts vs)
  | [], [] => isTrue trivial
  | t :: ts, v :: vs =>
    have := instDecidableWFs ts vs
    by unfold WFs; infer_instance
  | [], _ :: _ => isFalse (by simp [WFs])
  | _ :: _, [] => isFalse (by simp [WFs])

end MediaSan.Webp
