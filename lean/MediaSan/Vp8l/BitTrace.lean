/-
  Runs of a client of the bit reader: a sequence of operations (fixed in advance, or chosen from the values read so
  far) executed on the buffered reader `BitBuf` and on the whole byte string.  Lemmas/BitTrace.lean proves the two
  runs equal; Driver/C19.lean executes exactly these two functions.
-/
import MediaSan.Vp8l.BitBuf
namespace MediaSan.Vp8l
open MediaSan

/-- the reader's public operations: a fixed-width field (`read::<T>(n)`, `read_bit`) or a prefix-coded symbol -/
inductive BOp where
  | read (n : Nat)
  | sym (c : Code)

/-- one operation on the buffered reader -/
def BitBuf.step (s : BitBuf) : BOp → Option (Nat × BitBuf)
  | .read n => s.read n
  | .sym c => s.readSym c

/-- the same operation on the whole byte string, at absolute bit position `p` -/
def idealStep (bytes : Bytes) (p : Nat) : BOp → Option (Nat × Nat)
  | .read n => (bufReadAux bytes n 0 0 p).map fun v => (v, p + n)
  | .sym c => bufDecode bytes c.tree (c.tree.height + 1) p

/-- a run over a list of operations: the values read, `none` marking the end of data (after which nothing is read) -/
def runBufOps : List BOp → BitBuf → List (Option Nat)
  | [], _ => []
  | op :: rest, s =>
    match s.step op with
    | some (v, s') => some v :: runBufOps rest s'
    | none => [none]

def runIdealOps (bytes : Bytes) : List BOp → Nat → List (Option Nat)
  | [], _ => []
  | op :: rest, p =>
    match idealStep bytes p op with
    | some (v, p') => some v :: runIdealOps bytes rest p'
    | none => [none]

/-- an adaptive client: the next operation is chosen from the values read so far (`none` = the client stops) -/
def runBufStrat (next : List Nat → Option BOp) : Nat → BitBuf → List Nat → List Nat × Bool
  | 0, _, hist => (hist, false)
  | fuel + 1, s, hist =>
    match next hist with
    | none => (hist, false)
    | some op =>
      match s.step op with
      | some (v, s') => runBufStrat next fuel s' (hist ++ [v])
      | none => (hist, true)

def runIdealStrat (bytes : Bytes) (next : List Nat → Option BOp) : Nat → Nat → List Nat → List Nat × Bool
  | 0, _, hist => (hist, false)
  | fuel + 1, p, hist =>
    match next hist with
    | none => (hist, false)
    | some op =>
      match idealStep bytes p op with
      | some (v, p') => runIdealStrat bytes next fuel p' (hist ++ [v])
      | none => (hist, true)

/-- what an operation needs of the buffer capacity (bitstream.rs: `n <= 32` with capacity ≥ 5, codes ≤ 15 bits with
    capacity ≥ 3) -/
def BOp.fits (cap : Nat) : BOp → Prop
  | .read n => n + 8 ≤ 8 * cap
  | .sym c => c.tree.height ≤ c.longest ∧ c.longest + 8 ≤ 8 * cap

end MediaSan.Vp8l
