/-
  Model of `BitBufReader` (webpsan/src/parse/bitstream.rs:17-126): a bit reader over a bounded buffer that is
  refilled from the input on demand.  Lists of bytes; `rest` is the input not yet pulled into the buffer.
-/
import MediaSan.Vp8l.Huffman
namespace MediaSan.Vp8l
open MediaSan

/-- bit `i` of a byte list, least significant bit of each byte first -/
def bitAtL (l : Bytes) (i : Nat) : Option Bool :=
  match l[i / 8]? with
  | some b => some (b.toNat / 2 ^ (i % 8) % 2 == 1)
  | none => none

structure BitBuf where
  cap : Nat
  buf : Bytes          -- the buffer's bytes (`Cursor<Vec<u8>>`)
  bitPos : Nat         -- `position_in_bits` within the buffer
  rest : Bytes         -- input not yet read
  live : Bool          -- `self.input.is_some()`
  deriving Repr

def BitBuf.new (cap : Nat) (input : Bytes) : BitBuf := ⟨cap, [], 0, input, true⟩

/-- `buf_bits` (bitstream.rs:68-70); `buf_len` is the buffer's length -/
def BitBuf.bufBits (s : BitBuf) : Nat := s.buf.length * 8 - s.bitPos

/-- `fill_buf` (bitstream.rs:45-66): drop the consumed whole bytes, top the buffer up to `cap` (read_to_end over a
    `take`: short reads are retried until the limit or the end of input), mark the input exhausted when nothing
    new arrived, and skip the bits already consumed in the first byte. -/
def BitBuf.fill (s : BitBuf) : BitBuf :=
  if !s.live then s else
  let bytePos := s.bitPos / 8
  let kept := s.buf.drop bytePos
  let want := s.cap - kept.length
  let buf' := kept ++ s.rest.take want
  { s with buf := buf', rest := s.rest.drop want, bitPos := s.bitPos % 8,
           live := !(s.buf.length - bytePos == buf'.length) }

/-- `buf_read(n)`: `n` bits from the buffer only; `none` = UnexpectedEof (TruncatedChunk) -/
def bufReadAux (l : Bytes) : Nat → Nat → Nat → Nat → Option Nat
  | 0, _, acc, _ => some acc
  | n + 1, k, acc, p =>
    match bitAtL l p with
    | some v => bufReadAux l n (k + 1) (acc + (if v then 2 ^ k else 0)) (p + 1)
    | none => none

def BitBuf.bufRead (s : BitBuf) (n : Nat) : Option (Nat × BitBuf) :=
  match bufReadAux s.buf n 0 0 s.bitPos with
  | some v => some (v, { s with bitPos := s.bitPos + n })
  | none => none

/-- `read(n)` (bitstream.rs:102-107) -/
def BitBuf.read (s : BitBuf) (n : Nat) : Option (Nat × BitBuf) :=
  let s' := if s.bufBits < n then s.fill else s
  s'.bufRead n

/-- `buf_read_huffman`: walk the tree over buffer bits only -/
def bufDecode (l : Bytes) : HTree → Nat → Nat → Option (Nat × Nat)
  | .leaf s, _, p => some (s, p)
  | .empty, _, _ => none
  | .node z o, fuel, p =>
    match fuel with
    | 0 => none
    | fuel + 1 =>
      match bitAtL l p with
      | none => none
      | some v => bufDecode l (if v then o else z) fuel (p + 1)

/-- `read_huffman` (bitstream.rs:116-121) -/
def BitBuf.readSym (s : BitBuf) (c : Code) : Option (Nat × BitBuf) :=
  let s' := if s.bufBits < c.longest then s.fill else s
  match bufDecode s'.buf c.tree (c.tree.height + 1) s'.bitPos with
  | some (sym, p) => some (sym, { s' with bitPos := p })
  | none => none

end MediaSan.Vp8l
