/-
  The sub-image loop of `EntropyCodedImage::read` (lossless.rs:308-356) over the BUFFERED reader, as the code runs it:
  one guarded refill at the head of every iteration, then buffer-only accessors.  `pixelLoop` (Lossless.lean) is the
  same loop over the whole byte string; Lemmas/BufLoop.lean proves the two equal.
-/
import MediaSan.Vp8l.BufOnly
namespace MediaSan.Vp8l
open MediaSan MediaSan.Generated

/-- an action of the buffered reader -/
abbrev BB (α : Type) := BitBuf → Except LErr (α × BitBuf)

@[inline] def BB.pure {α} (a : α) : BB α := fun s => .ok (a, s)
@[inline] def BB.bind {α β} (m : BB α) (f : α → BB β) : BB β := fun s =>
  match m s with
  | .ok (a, s') => f a s'
  | .error e => .error e
@[inline] def BB.fail {α} (e : LErr) : BB α := fun _ => .error e

instance : Monad BB where
  pure := BB.pure
  bind := BB.bind

@[simp] theorem BB.bind_eq {α β} (m : BB α) (f : α → BB β) : (m >>= f) = m.bind f := rfl
@[simp] theorem BB.pure_eq {α} (a : α) : (pure a : BB α) = BB.pure a := rfl

/-- `buf_read_huffman` / `buf_read`: UnexpectedEof becomes TruncatedChunk -/
def bbSym (c : Code) : BB Nat := fun s =>
  match s.bufSym c with
  | some r => .ok r
  | none => .error .truncated

def bbBits (n : Nat) : BB Nat := fun s =>
  match s.bufRead n with
  | some r => .ok r
  | none => .error .truncated

def bbEnsure (c : Bool) (e : LErr) : BB Unit := if c then BB.pure () else BB.fail e

/-- `buf_read_lz77` over the buffer -/
def bbLz77 (prefixCode : Nat) : BB Nat :=
  if prefixCode ≤ 3 then pure (1 + prefixCode)
  else if prefixCode ≤ lz77MaxSymbol then do
    let extraBits := (prefixCode - 2) / 2
    let offset := (2 + prefixCode % 2) * 2 ^ extraBits
    let extra ← bbBits extraBits
    pure (min (1 + (offset + extra)) u32Max)
  else BB.fail .invalidInput

/-- `if reader.buf_bits() < readahead_bits { reader.fill_buf()?; }` -/
def bbGuardedFill (r : Nat) : BB Unit := fun s => .ok ((), s.guardedFill r)

/-- the pixel loop as the code runs it -/
def pixelLoopBuf (g : Group) (cache : Option Nat) (width total : Nat) (checkGreen : Nat → Bool)
    : Nat → Nat → Nat → BB Nat
  | 0, _, acc => pure acc
  | fuel + 1, idx, acc =>
    if idx ≥ total then pure acc
    else do
      bbGuardedFill (readaheadBits g)
      let greenBits := g.green.longest
      let arbBits := g.alpha.longest + g.red.longest + g.blue.longest
      let sym ← bbSym g.green
      if sym < 256 then do
        let red ← bbSym g.red
        let _blue ← bbSym g.blue
        let _alpha ← bbSym g.alpha
        bbEnsure (checkGreen sym) .invalidInput
        let acc' := max acc (red * 256 + sym)
        let idx' := if greenBits + arbBits = 0 then total else idx + 1
        pixelLoopBuf g cache width total checkGreen fuel idx' acc'
      else if sym < 280 then do
        let len ← bbLz77 (sym - 256)
        let distSym ← bbSym g.dist
        let distCode ← bbLz77 distSym
        let dist := distOf distCode width
        bbEnsure (decide (dist ≤ idx)) .invalidInput
        bbEnsure (decide (len ≤ total - idx)) .invalidInput
        pixelLoopBuf g cache width total checkGreen fuel (idx + len) acc
      else do
        bbEnsure (decide (sym - 280 < cacheLen cache)) .invalidInput
        let idx' := if greenBits = 0 then total else idx + 1
        pixelLoopBuf g cache width total checkGreen fuel idx' acc

end MediaSan.Vp8l
