/-
  Model of webpsan/src/parse/lossless.rs (+ `buf_read_lz77` of bitstream.rs and `Vp8lChunk::parse` of vp8l.rs)
  over the ideal bit reader.  Function by function; Rust line numbers in comments.
  Tables (DISTANCE_MAP, CODE_ORDER) and numeric bounds come from `MediaSan.Generated.Vp8lTables`,
  regenerated from the source on every run.
-/
import MediaSan.Vp8l.Huffman
import MediaSan.Generated.Vp8lTables
namespace MediaSan.Vp8l
open MediaSan MediaSan.Generated

def u32Max : Nat := 4294967295
def u16Max : Nat := 65535

/-- `strict` is the code's behaviour.  The other settings exist only for the C08 oracle, which must tell a
    rejection caused by one of the two *documented* strictness choices from any other rejection. -/
structure LCfg where
  predMax : Nat := predictorMax
  lenientSingle : Bool := false

def LCfg.strict : LCfg := {}
/-- predictor check off (the property names modes 14/15; any green value above 13 in a predictor image falls under
    the same rule: the reference masks it with 0xf) and single-symbol codes of any length accepted -/
def LCfg.lenient : LCfg := { predMax := 255, lenientSingle := true }

/-- `len_in_blocks` = div_ceil -/
def lenInBlocks (len blockSize : Nat) : Nat := (len + blockSize - 1) / blockSize

/-- `buf_read_lz77` (bitstream.rs:90-100): value of an LZ77 prefix code plus its extra bits (≥ 1) -/
def readLz77 (prefixCode : Nat) : BR Nat :=
  if prefixCode ≤ 3 then pure (1 + prefixCode)
  else if prefixCode ≤ lz77MaxSymbol then do
    let extraBits := (prefixCode - 2) / 2
    let offset := (2 + prefixCode % 2) * 2 ^ extraBits
    let extra ← readBits extraBits
    pure (min (1 + (offset + extra)) u32Max)
  else BR.fail .invalidInput

/-- `ColorCache::read` (lossless.rs:460-475): `none`, or the cache order 1..=cacheOrderMax -/
def readColorCache : BR (Option Nat) := do
  let has ← readBit
  if has then do
    let order ← readBits 4
    ensure (decide (order ≤ cacheOrderMax)) .invalidInput
    ensure (decide (order ≠ 0)) .invalidInput
    pure (some order)
  else pure none

def cacheLen : Option Nat → Nat
  | none => 0
  | some o => 2 ^ o

/-- `CodeLengthPrefixCode::read` (lossless.rs:627-643) -/
def readCodeLengthCode (cfg : LCfg) : BR Code := do
  let n ← readBits 4
  let count := 4 + n
  let order := codeOrder
  let rec go : List Nat → Nat → List (Nat × Nat) → BR (List (Nat × Nat))
    | [], _, acc => pure acc
    | idx :: rest, k, acc =>
      if k < count then do
        let l ← readBits 3
        go rest (k + 1) ((idx, l) :: acc)
      else go rest (k + 1) ((idx, 0) :: acc)
  let lens ← go order 0 []
  match newCode lens cfg.lenientSingle with
  | .ok c => pure c
  | .error e => BR.fail e

/-- the code-length loop of `read_prefix_code` (lossless.rs:573-601).  `syms` accumulates (symbol, length)
    in reverse; `n` = number of lengths so far. -/
def readCodeLengths (clc : Code) (maxCount : Nat) : Nat → Nat → Nat → List (Nat × Nat) → BR (List (Nat × Nat))
  | 0, _, _, syms => pure syms
  | reads + 1, n, lastNonZero, syms =>
    if n = maxCount then pure syms
    else do
      let code ← readSym clc
      let (len, rep) ←
        (if code ≤ 15 then pure (code, 1)
         else if code = 16 then do let x ← readBits repeatBits16; pure (lastNonZero, repeatBase16 + x)
         else if code = 17 then do let x ← readBits repeatBits17; pure (0, repeatBase17 + x)
         else if code = 18 then do let x ← readBits repeatBits18; pure (0, repeatBase18 + x)
         else BR.fail (.panic "lossless.rs:586 unreachable code length code >= 19") : BR (Nat × Nat))
      let lastNonZero' := if len ≠ 0 then len else lastNonZero
      ensure (decide (n + rep ≤ maxCount)) .invalidPrefixCode
      let new := (List.range rep).map fun i => (n + i, len)
      readCodeLengths clc maxCount reads (n + rep) lastNonZero' (new.reverse ++ syms)

/-- the symbols a simple code names, each once (at most two are ever named) -/
def dedupNamed : List Nat → List Nat
  | [a, b] => if a = b then [a] else [a, b]
  | l => l

/-- `PrefixCodeGroup::read_prefix_code` (lossless.rs:528-607) for an alphabet of `alphabet` symbols;
    `symMax` = largest value of the symbol type (255 for u8 codes, 65535 for the u16 green code) -/
def readPrefixCode (cfg : LCfg) (alphabet : Nat) : BR Code := do
  let simple ← readBit
  if simple then do
    let hasSecond ← readBit
    let first8 ← readBit
    let first ← (if first8 then readBits 8 else readBits 1)
    let named ←
      (if hasSecond then do
        let second ← readBits 8
        pure [first, second]
      else pure [first] : BR (List Nat))
    -- a simple code gives length 1 to every symbol it names: a symbol named twice counts once, a symbol
    -- outside the alphabet is not part of the code (lossless.rs:548-558)
    let lens := (dedupNamed (named.filter (· < alphabet))).map fun s => (s, 1)
    match newCode lens cfg.lenientSingle with
    | .ok c => pure c
    | .error e => BR.fail e
  else do
    let clc ← readCodeLengthCode cfg
    let useMax ← readBit
    let reads ←
      (if useMax then do
        let k ← readBits 3
        let lengthBitLen := 2 + 2 * k
        let v ← readBits lengthBitLen
        pure (min (2 + v) u16Max)
      else pure alphabet : BR Nat)
    ensure (decide (reads ≤ alphabet)) .invalidInput
    let syms ← readCodeLengths clc alphabet reads 0 8 []
    match newCode syms.reverse cfg.lenientSingle with
    | .ok c => pure c
    | .error e => BR.fail e

structure Group where
  green : Code
  red : Code
  blue : Code
  alpha : Code
  dist : Code

/-- `PrefixCodeGroup::read` (lossless.rs:519-526) -/
def readGroup (cfg : LCfg) (cache : Option Nat) : BR Group := do
  let green ← readPrefixCode cfg (256 + 24 + cacheLen cache)
  let red ← readPrefixCode cfg 256
  let blue ← readPrefixCode cfg 256
  let alpha ← readPrefixCode cfg 256
  let dist ← readPrefixCode cfg distAlphabet
  pure ⟨green, red, blue, alpha, dist⟩

/-- distance code → pixel distance (lossless.rs:415-425) -/
def distOf (distCode width : Nat) : Nat :=
  if distCode ≤ distanceMap.length then
    match distanceMap[distCode - 1]? with
    | some (dx, dy) =>
      let d : Int := (dy * width : Nat) + dx
      if d ≤ 0 then 1 else d.toNat      -- checked_add_signed / NonZeroU32::new, else NonZeroU32::MIN
    | none => 1
  else distCode - distanceMap.length

/-- the pixel loop of `EntropyCodedImage::read` (lossless.rs:308-356).
    `check green` is the per-pixel callback's verdict (predictor range); `acc` folds the callback's state
    (the maximal meta prefix code). -/
def pixelLoop (g : Group) (cache : Option Nat) (width total : Nat) (checkGreen : Nat → Bool)
    : Nat → Nat → Nat → BR Nat
  | 0, _, acc => pure acc     -- unreachable with fuel = total + 1
  | fuel + 1, idx, acc =>
    if idx ≥ total then pure acc
    else do
      let greenBits := g.green.longest
      let arbBits := g.alpha.longest + g.red.longest + g.blue.longest
      let sym ← readSym g.green
      if sym < 256 then do
        let red ← readSym g.red
        let _blue ← readSym g.blue
        let _alpha ← readSym g.alpha
        ensure (checkGreen sym) .invalidInput
        let acc' := max acc (red * 256 + sym)
        let idx' := if greenBits + arbBits = 0 then total else idx + 1
        pixelLoop g cache width total checkGreen fuel idx' acc'
      else if sym < 280 then do
        let len ← readLz77 (sym - 256)
        let distSym ← readSym g.dist
        let distCode ← readLz77 distSym
        let dist := distOf distCode width
        ensure (decide (dist ≤ idx)) .invalidInput
        ensure (decide (len ≤ total - idx)) .invalidInput
        pixelLoop g cache width total checkGreen fuel (idx + len) acc
      else do
        ensure (decide (sym - 280 < cacheLen cache)) .invalidInput
        let idx' := if greenBits = 0 then total else idx + 1
        pixelLoop g cache width total checkGreen fuel idx' acc

/-- `EntropyCodedImage::read` (lossless.rs:295-358): returns the folded callback state -/
def readEntropyImage (cfg : LCfg) (width height : Nat) (checkGreen : Nat → Bool) : BR Nat := do
  let cache ← readColorCache
  let g ← readGroup cfg cache
  let total := min (width * height) u32Max
  pixelLoop g cache width total checkGreen (total + 1) 0 0

inductive TransformType where
  | predictor | color | subtractGreen | colorIndexing
  deriving DecidableEq, Repr

/-- `Transform::read` (lossless.rs:200-244): the transform type and the width after it -/
def readTransform (cfg : LCfg) (width height : Nat) : BR (TransformType × Nat) := do
  let t ← readBits 2
  if t = 0 then do
    let k ← readBits 3
    let bs := 2 ^ (2 + k)
    let _ ← readEntropyImage cfg (lenInBlocks width bs) (lenInBlocks height bs) (fun green => decide (green ≤ cfg.predMax))
    pure (.predictor, width)
  else if t = 1 then do
    let k ← readBits 3
    let bs := 2 ^ (2 + k)
    let _ ← readEntropyImage cfg (lenInBlocks width bs) (lenInBlocks height bs) (fun _ => true)
    pure (.color, width)
  else if t = 2 then pure (.subtractGreen, width)
  else do
    let n ← readBits 8
    let len := 1 + n
    let _ ← readEntropyImage cfg len 1 (fun _ => true)
    let bs := if len ≤ colorIndex8 then 8 else if len ≤ colorIndex4 then 4 else if len ≤ colorIndex2 then 2 else 1
    pure (.colorIndexing, lenInBlocks width bs)

/-- the transform loop of `LosslessImage::read` (lossless.rs:172-187); at most 4 distinct transforms, so
    the fifth iteration necessarily fails the duplicate check -/
def readTransforms (cfg : LCfg) (height : Nat) : Nat → Nat → List TransformType → BR Nat
  | 0, width, _ => pure width     -- unreachable with fuel = 5
  | fuel + 1, width, seen => do
    let more ← readBit
    if more then do
      let (ty, width') ← readTransform cfg width height
      ensure (!seen.contains ty) .invalidInput
      readTransforms cfg height fuel width' (ty :: seen)
    else pure width

def readGroups (cfg : LCfg) (cache : Option Nat) : Nat → BR Unit
  | 0 => pure ()
  | n + 1 => do
    let _ ← readGroup cfg cache
    readGroups cfg cache n

/-- `SpatiallyCodedImage::read` (lossless.rs:366-375): cache, meta prefix image, every prefix-code group -/
def readSpatial (cfg : LCfg) (width height : Nat) : BR Unit := do
  let cache ← readColorCache
  let hasMeta ← readBit
  let maxGroup ←
    (if hasMeta then do
      let k ← readBits 3
      let bs := 2 ^ (2 + k)
      readEntropyImage cfg (lenInBlocks width bs) (lenInBlocks height bs) (fun _ => true)
    else pure 0 : BR Nat)
  readGroups cfg cache (maxGroup + 1)

/-- `LosslessImage::read` (lossless.rs:167-192) -/
def readLossless (cfg : LCfg) (width height : Nat) : BR Unit := do
  let w ← readTransforms cfg height 5 width []
  readSpatial cfg w height

/-- the verdict of `LosslessImage::read` on a payload (bit position 0) -/
def validate (data : ByteArray) (width height : Nat) (cfg : LCfg := .strict) : Except LErr Unit :=
  match readLossless cfg width height data 0 with
  | .ok _ => .ok ()
  | .error e => .error e

/-- `Vp8lChunk::parse` (vp8l.rs:64-85) on the 5 header bytes: (width, height) or the error -/
inductive Vp8lHdrErr where
  | invalidInput | unsupportedVersion
  deriving DecidableEq, Repr

def parseVp8lHeader (b : ByteArray) : Except Vp8lHdrErr (Nat × Nat) :=
  let v := (List.range 5).foldl (fun acc i => acc + (b.get! i).toNat * 256 ^ i) 0
  if v % 256 ≠ 0x2f then .error .invalidInput
  else
    let w := 1 + v / 2 ^ 8 % 2 ^ 14
    let h := 1 + v / 2 ^ 22 % 2 ^ 14
    let version := v / 2 ^ 37 % 8
    if version ≠ 0 then .error .unsupportedVersion else .ok (w, h)

end MediaSan.Vp8l
