/-
  The whole lossless validator over the BUFFERED reader: a transcription of Vp8l/Lossless.lean (same functions, `B`
  suffix) in which every read goes through `BitBuf` the way the code's does - `read` / `read_bit` / `read_huffman`
  refill on demand, the sub-image loop is `pixelLoopBuf` (guarded refill + buffer-only accessors).  GENERATED from
  Lossless.lean by renaming (tools/mk_bufvalidator.py); the driver executes it at the capacities of the in-situ runs
  (C19) against webpsan's verdicts.  Proved equal to the model so far: the sub-image loop (`C19_pixel_loop_buffered`)
  and each refilling read (`C19_read_model`, `C19_read_huffman_model`).
-/
import MediaSan.Vp8l.BufLoop
namespace MediaSan.Vp8l
open MediaSan MediaSan.Generated

/-- `read(n)` / `read_huffman` / `read_bit`: refill on demand; UnexpectedEof becomes TruncatedChunk -/
def bbRead (n : Nat) : BB Nat := fun s =>
  match s.read n with
  | some r => .ok r
  | none => .error .truncated

def bbReadSym (c : Code) : BB Nat := fun s =>
  match s.readSym c with
  | some r => .ok r
  | none => .error .truncated

def bbReadBit : BB Bool := fun s =>
  match s.read 1 with
  | some (v, s') => .ok (v == 1, s')
  | none => .error .truncated

/-- `ColorCache::read` (lossless.rs:460-475): `none`, or the cache order 1..=cacheOrderMax -/
def readColorCacheB : BB (Option Nat) := do
  let has ← bbReadBit
  if has then do
    let order ← bbRead 4
    bbEnsure (decide (order ≤ cacheOrderMax)) .invalidInput
    bbEnsure (decide (order ≠ 0)) .invalidInput
    pure (some order)
  else pure none

/-- `CodeLengthPrefixCode::read` (lossless.rs:627-643) -/
def readCodeLengthCodeB (cfg : LCfg) : BB Code := do
  let n ← bbRead 4
  let count := 4 + n
  let order := codeOrder
  let rec go : List Nat → Nat → List (Nat × Nat) → BB (List (Nat × Nat))
    | [], _, acc => pure acc
    | idx :: rest, k, acc =>
      if k < count then do
        let l ← bbRead 3
        go rest (k + 1) ((idx, l) :: acc)
      else go rest (k + 1) ((idx, 0) :: acc)
  let lens ← go order 0 []
  match newCode lens cfg.lenientSingle with
  | .ok c => pure c
  | .error e => BB.fail e

/-- the code-length loop of `read_prefix_code` (lossless.rs:573-601).  `syms` accumulates (symbol, length)
    in reverse; `n` = number of lengths so far. -/
def readCodeLengthsB (clc : Code) (maxCount : Nat) : Nat → Nat → Nat → List (Nat × Nat) → BB (List (Nat × Nat))
  | 0, _, _, syms => pure syms
  | reads + 1, n, lastNonZero, syms =>
    if n = maxCount then pure syms
    else do
      let code ← bbReadSym clc
      let (len, rep) ←
        (if code ≤ 15 then pure (code, 1)
         else if code = 16 then do let x ← bbRead repeatBits16; pure (lastNonZero, repeatBase16 + x)
         else if code = 17 then do let x ← bbRead repeatBits17; pure (0, repeatBase17 + x)
         else if code = 18 then do let x ← bbRead repeatBits18; pure (0, repeatBase18 + x)
         else BB.fail (.panic "lossless.rs:586 unreachable code length code >= 19") : BB (Nat × Nat))
      let lastNonZero' := if len ≠ 0 then len else lastNonZero
      bbEnsure (decide (n + rep ≤ maxCount)) .invalidPrefixCode
      let new := (List.range rep).map fun i => (n + i, len)
      readCodeLengthsB clc maxCount reads (n + rep) lastNonZero' (new.reverse ++ syms)

/-- `PrefixCodeGroup::read_prefix_code` (lossless.rs:528-607) for an alphabet of `alphabet` symbols;
    `symMax` = largest value of the symbol type (255 for u8 codes, 65535 for the u16 green code) -/
def readPrefixCodeB (cfg : LCfg) (alphabet : Nat) : BB Code := do
  let simple ← bbReadBit
  if simple then do
    let hasSecond ← bbReadBit
    let first8 ← bbReadBit
    let first ← (if first8 then bbRead 8 else bbRead 1)
    let named ←
      (if hasSecond then do
        let second ← bbRead 8
        pure [first, second]
      else pure [first] : BB (List Nat))
    -- a simple code gives length 1 to every symbol it names: a symbol named twice counts once, a symbol
    -- outside the alphabet is not part of the code (lossless.rs:548-558)
    let lens := (dedupNamed (named.filter (· < alphabet))).map fun s => (s, 1)
    match newCode lens cfg.lenientSingle with
    | .ok c => pure c
    | .error e => BB.fail e
  else do
    let clc ← readCodeLengthCodeB cfg
    let useMax ← bbReadBit
    let reads ←
      (if useMax then do
        let k ← bbRead 3
        let lengthBitLen := 2 + 2 * k
        let v ← bbRead lengthBitLen
        pure (min (2 + v) u16Max)
      else pure alphabet : BB Nat)
    bbEnsure (decide (reads ≤ alphabet)) .invalidInput
    let syms ← readCodeLengthsB clc alphabet reads 0 8 []
    match newCode syms.reverse cfg.lenientSingle with
    | .ok c => pure c
    | .error e => BB.fail e

/-- `PrefixCodeGroup::read` (lossless.rs:519-526) -/
def readGroupB (cfg : LCfg) (cache : Option Nat) : BB Group := do
  let green ← readPrefixCodeB cfg (256 + 24 + cacheLen cache)
  let red ← readPrefixCodeB cfg 256
  let blue ← readPrefixCodeB cfg 256
  let alpha ← readPrefixCodeB cfg 256
  let dist ← readPrefixCodeB cfg distAlphabet
  pure ⟨green, red, blue, alpha, dist⟩

/-- `EntropyCodedImage::read` (lossless.rs:295-358): returns the folded callback state -/
def readEntropyImageB (cfg : LCfg) (width height : Nat) (checkGreen : Nat → Bool) : BB Nat := do
  let cache ← readColorCacheB
  let g ← readGroupB cfg cache
  let total := min (width * height) u32Max
  pixelLoopBuf g cache width total checkGreen (total + 1) 0 0

/-- `Transform::read` (lossless.rs:200-244): the transform type and the width after it -/
def readTransformB (cfg : LCfg) (width height : Nat) : BB (TransformType × Nat) := do
  let t ← bbRead 2
  if t = 0 then do
    let k ← bbRead 3
    let bs := 2 ^ (2 + k)
    let _ ← readEntropyImageB cfg (lenInBlocks width bs) (lenInBlocks height bs) (fun green => decide (green ≤ cfg.predMax))
    pure (.predictor, width)
  else if t = 1 then do
    let k ← bbRead 3
    let bs := 2 ^ (2 + k)
    let _ ← readEntropyImageB cfg (lenInBlocks width bs) (lenInBlocks height bs) (fun _ => true)
    pure (.color, width)
  else if t = 2 then pure (.subtractGreen, width)
  else do
    let n ← bbRead 8
    let len := 1 + n
    let _ ← readEntropyImageB cfg len 1 (fun _ => true)
    let bs := if len ≤ colorIndex8 then 8 else if len ≤ colorIndex4 then 4 else if len ≤ colorIndex2 then 2 else 1
    pure (.colorIndexing, lenInBlocks width bs)

/-- the transform loop of `LosslessImage::read` (lossless.rs:172-187); at most 4 distinct transforms, so
    the fifth iteration necessarily fails the duplicate check -/
def readTransformsB (cfg : LCfg) (height : Nat) : Nat → Nat → List TransformType → BB Nat
  | 0, width, _ => pure width     -- unreachable with fuel = 5
  | fuel + 1, width, seen => do
    let more ← bbReadBit
    if more then do
      let (ty, width') ← readTransformB cfg width height
      bbEnsure (!seen.contains ty) .invalidInput
      readTransformsB cfg height fuel width' (ty :: seen)
    else pure width

def readGroupsB (cfg : LCfg) (cache : Option Nat) : Nat → BB Unit
  | 0 => pure ()
  | n + 1 => do
    let _ ← readGroupB cfg cache
    readGroupsB cfg cache n

/-- `SpatiallyCodedImage::read` (lossless.rs:366-375): cache, meta prefix image, every prefix-code group -/
def readSpatialB (cfg : LCfg) (width height : Nat) : BB Unit := do
  let cache ← readColorCacheB
  let hasMeta ← bbReadBit
  let maxGroup ←
    (if hasMeta then do
      let k ← bbRead 3
      let bs := 2 ^ (2 + k)
      readEntropyImageB cfg (lenInBlocks width bs) (lenInBlocks height bs) (fun _ => true)
    else pure 0 : BB Nat)
  readGroupsB cfg cache (maxGroup + 1)

/-- `LosslessImage::read` (lossless.rs:167-192) -/
def readLosslessB (cfg : LCfg) (width height : Nat) : BB Unit := do
  let w ← readTransformsB cfg height 5 width []
  readSpatialB cfg w height


/-- the verdict of `LosslessImage::read` through a bit buffer of `cap` bytes -/
def validateBuf (cap : Nat) (data : Bytes) (width height : Nat) (cfg : LCfg := .strict) : Except LErr Unit :=
  match readLosslessB cfg width height (BitBuf.new cap data) with
  | .ok _ => .ok ()
  | .error e => .error e

end MediaSan.Vp8l
