/-
  The buffer-only accessors of `BitBufReader` (`buf_read`, `buf_read_huffman`, `buf_read_lz77`: bitstream.rs:72-100)
  and the guarded refill at the head of every iteration of the sub-image loop (lossless.rs:311-313):

      if reader.buf_bits() < readahead_bits { reader.fill_buf()?; }
      ... buffer-only reads of the iteration ...

  Unlike `read` / `read_huffman` these accessors never refill: they are right only while the iteration asks for no
  more bits than the guard has secured.  Lemmas/BufOnly.lean proves exactly that.
-/
import MediaSan.Vp8l.BitTrace
import MediaSan.Vp8l.Lossless
namespace MediaSan.Vp8l
open MediaSan MediaSan.Generated

/-- `buf_read_huffman`: decode from the buffer only -/
def BitBuf.bufSym (s : BitBuf) (c : Code) : Option (Nat × BitBuf) :=
  match bufDecode s.buf c.tree (c.tree.height + 1) s.bitPos with
  | some (sym, p) => some (sym, { s with bitPos := p })
  | none => none

/-- one buffer-only operation -/
def BitBuf.bufStep (s : BitBuf) : BOp → Option (Nat × BitBuf)
  | .read n => s.bufRead n
  | .sym c => s.bufSym c

/-- the guarded refill -/
def BitBuf.guardedFill (s : BitBuf) (readahead : Nat) : BitBuf := if s.bufBits < readahead then s.fill else s

/-- the bits an operation may take from the buffer: the field width, or the longest code of the tree -/
def BOp.cost : BOp → Nat
  | .read n => n
  | .sym c => c.longest

/-- no code of the tree is longer than `longest_code_len` says -/
def BOp.wellFormed : BOp → Prop
  | .read _ => True
  | .sym c => c.tree.height ≤ c.longest

/-- an adaptive client that uses the buffer-only accessors (one iteration of the sub-image loop: the green symbol
    decides which reads follow) -/
def runBufOnlyStrat (next : List Nat → Option BOp) : Nat → BitBuf → List Nat → List Nat × Bool
  | 0, _, hist => (hist, false)
  | fuel + 1, s, hist =>
    match next hist with
    | none => (hist, false)
    | some op =>
      match s.bufStep op with
      | some (v, s') => runBufOnlyStrat next fuel s' (hist ++ [v])
      | none => (hist, true)

/-- extra bits of an LZ77 prefix code (`buf_read_lz77`, bitstream.rs:90-100; `readLz77` of the validator model) -/
def lz77ExtraBits (prefixCode : Nat) : Nat := if prefixCode ≤ 3 then 0 else (prefixCode - 2) / 2

/-- the reads of ONE iteration of the sub-image loop (lossless.rs:314-352) as a client of the buffer-only accessors:
    the green symbol; for a literal the red, blue and alpha symbols (`Color::buf_read`); for a length symbol its extra
    bits, the distance symbol and - unless that symbol is outside the LZ77 range, which is InvalidInput without a read -
    its extra bits (`BackReference::buf_read`); nothing for a colour-cache symbol -/
def iterNext (g : Group) : List Nat → Option BOp
  | [] => some (.sym g.green)
  | [sym] =>
    if sym < 256 then some (.sym g.red)
    else if sym < 280 then some (.read (lz77ExtraBits (sym - 256))) else none
  | [sym, _] =>
    if sym < 256 then some (.sym g.blue)
    else if sym < 280 then some (.sym g.dist) else none
  | [sym, _, x] =>
    if sym < 256 then some (.sym g.alpha)
    else if sym < 280 then (if x ≤ lz77MaxSymbol then some (.read (lz77ExtraBits x)) else none) else none
  | _ => none

/-- `readahead_bits` of `EntropyCodedImage::read` (lossless.rs:303-306, 609-624, 429-431) -/
def readaheadBits (g : Group) : Nat :=
  g.green.longest +
    max (g.alpha.longest + g.red.longest + g.blue.longest)
      (g.green.longest + (2 * ((lz77MaxSymbol - 2) / 2) + g.dist.longest))

end MediaSan.Vp8l
