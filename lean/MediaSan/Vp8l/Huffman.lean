/-
  Model of `CanonicalHuffmanTree` (webpsan/src/parse/bitstream.rs:132-191) and of the `bitstream-io` trie it
  compiles to (`WipHuffmanTree::add`, `into_read_tree`, `read_huffman` bit by bit).
-/
import MediaSan.Vp8l.Bits
namespace MediaSan.Vp8l
open MediaSan

inductive HTree where
  | empty
  | leaf (sym : Nat)
  | node (zero one : HTree)
  deriving Repr, DecidableEq

inductive TreeErr where
  | missingLeaf | duplicateLeaf | orphanedLeaf
  deriving Repr, DecidableEq

/-- `WipHuffmanTree::add`: the code is given in read order (first bit first) -/
def HTree.add : HTree → List Bool → Nat → Except TreeErr HTree
  | .empty, [], s => .ok (.leaf s)
  | .empty, c :: cs, s =>
    match HTree.add .empty cs s with
    | .ok t => .ok (if c then .node .empty t else .node t .empty)
    | .error e => .error e
  | .leaf _, [], _ => .error .duplicateLeaf
  | .leaf _, _ :: _, _ => .error .orphanedLeaf
  | .node _ _, [], _ => .error .duplicateLeaf
  | .node z o, c :: cs, s =>
    if c then
      match HTree.add o cs s with
      | .ok t => .ok (.node z t)
      | .error e => .error e
    else
      match HTree.add z cs s with
      | .ok t => .ok (.node t o)
      | .error e => .error e

/-- `into_read_tree` succeeds iff there is no empty node -/
def HTree.complete : HTree → Bool
  | .empty => false
  | .leaf _ => true
  | .node z o => z.complete && o.complete

def buildTree : List (Nat × List Bool) → HTree → Except TreeErr HTree
  | [], t => .ok t
  | (s, c) :: rest, t =>
    match t.add c s with
    | .ok t' => buildTree rest t'
    | .error e => .error e

/-- `compile_read_tree`: insert every (symbol, code), then require completeness -/
def compileReadTree (symbols : List (Nat × List Bool)) : Except TreeErr HTree :=
  match buildTree symbols .empty with
  | .error e => .error e
  | .ok t => if t.complete then .ok t else .error .missingLeaf

structure Code where
  tree : HTree
  longest : Nat            -- `longest_code_len`
  deriving Repr, DecidableEq

/-- binary increment with wrap-around, most significant bit first (bitstream.rs:177-182) -/
def incCode : List Bool → List Bool
  | [] => []
  | c :: cs =>
    let cs' := incCode cs
    -- carry out of the tail iff the tail was all ones (or empty)
    if cs.all id then (!c) :: cs' else c :: cs'

def resizeCode (c : List Bool) (n : Nat) : List Bool := c.take n ++ List.replicate (n - c.length) false

/-- order by (length, symbol): what `sort_unstable_by_key(|(s, l)| (l, s))` produces (keys are distinct when
    symbols are, so the unstable sort is deterministic).  Written as a bucket pass over the lengths with an
    insertion sort by symbol inside each bucket: structural (kernel-evaluable) and linear on the symbol-ordered
    lists the callers pass. -/
def insertBySym (x : Nat × Nat) : List (Nat × Nat) → List (Nat × Nat)
  | [] => [x]
  | y :: ys => if x.1 ≤ y.1 then x :: y :: ys else y :: insertBySym x ys

def sortBySym (l : List (Nat × Nat)) : List (Nat × Nat) := l.foldr insertBySym []

def sortByLenSym (l : List (Nat × Nat)) : List (Nat × Nat) :=
  let maxLen := l.foldl (fun m x => max m x.2) 0
  (List.range (maxLen + 1)).flatMap fun len => sortBySym (l.filter (·.2 == len))

def assignCodes : List (Nat × Nat) → List Bool → List (Nat × List Bool)
  | [], _ => []
  | (s, len) :: rest, prev =>
    let code := resizeCode (incCode prev) len
    (s, code) :: assignCodes rest code

/-- `CanonicalHuffmanTree::symbols`: (symbol, length) pairs → (symbol, code) pairs.
    `lenientSingle = true` is NOT the code's behaviour: it is the documented-strictness probe used by the C08
    oracle (a single used symbol of any length is treated as a zero-bit code, as the reference decoder does). -/
def canonicalSymbols (lens : List (Nat × Nat)) (lenientSingle : Bool := false) : List (Nat × List Bool) :=
  let sorted := sortByLenSym lens
  let nonzero := sorted.filter (fun x => x.2 ≠ 0)
  match nonzero with
  | [] => []
  | [(s, 1)] => [(s, [])]
  | [(s, len)] => if lenientSingle then [(s, [])] else [(s, List.replicate len false)]
  | (s, len) :: rest =>
    let first := List.replicate len false
    (s, first) :: assignCodes rest first

/-- `CanonicalHuffmanTree::from_symbols` -/
def fromSymbols (symbols : List (Nat × List Bool)) : Except LErr Code :=
  let longest := match symbols with
    | [_] => 0
    | _ => (symbols.map (·.2.length)).foldl max 0
  match compileReadTree symbols with
  | .ok t => .ok ⟨t, longest⟩
  | .error _ => .error .invalidPrefixCode

/-- `CanonicalHuffmanTree::new` -/
def newCode (lens : List (Nat × Nat)) (lenientSingle : Bool := false) : Except LErr Code :=
  fromSymbols (canonicalSymbols lens lenientSingle)

/-- `read_huffman`, bit by bit.  Fuel bounds the depth (≤ tree height). -/
def decodeSym (b : ByteArray) : HTree → Nat → Nat → Except LErr (Nat × Nat)
  | .leaf s, _, p => .ok (s, p)
  | .empty, _, _ => .error (.panic "read_huffman: empty node in a finalized tree")
  | .node z o, fuel, p =>
    match fuel with
    | 0 => .error (.panic "read_huffman: out of fuel")
    | fuel + 1 =>
      match bitAt b p with
      | none => .error .truncated
      | some v => decodeSym b (if v then o else z) fuel (p + 1)

def HTree.height : HTree → Nat
  | .node z o => 1 + max z.height o.height
  | _ => 0

def readSym (c : Code) : BR Nat := fun b p => decodeSym b c.tree (c.tree.height + 1) p

end MediaSan.Vp8l
