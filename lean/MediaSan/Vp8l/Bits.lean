/-
  The ideal LSB-first bit reader over a whole byte string (what `bitstream_io::BitReader<_, LE>` computes
  when no buffering is involved).  C19 relates the buffered reader of webpsan to this one.
-/
import MediaSan.Bytes
namespace MediaSan.Vp8l
open MediaSan

/-- errors of the lossless validator: the three `ParseError` kinds it raises, plus a panic site -/
inductive LErr where
  | truncated            -- ParseError::TruncatedChunk (ran out of bits)
  | invalidInput         -- ParseError::InvalidInput
  | invalidPrefixCode    -- ParseError::InvalidVp8lPrefixCode
  | panic (site : String)
  deriving DecidableEq, Repr

/-- bit `i` of the stream: bit (i mod 8) of byte (i div 8), least significant first -/
def bitAt (b : ByteArray) (i : Nat) : Option Bool :=
  if i / 8 < b.size then some ((b.get! (i / 8)).toNat / 2 ^ (i % 8) % 2 == 1) else none

/-- a reader action: position in bits → value and new position -/
abbrev BR (α : Type) := ByteArray → Nat → Except LErr (α × Nat)

@[inline] def BR.pure {α} (a : α) : BR α := fun _ p => .ok (a, p)
@[inline] def BR.bind {α β} (m : BR α) (f : α → BR β) : BR β := fun b p =>
  match m b p with
  | .ok (a, p') => f a b p'
  | .error e => .error e
@[inline] def BR.fail {α} (e : LErr) : BR α := fun _ _ => .error e

instance : Monad BR where
  pure := BR.pure
  bind := BR.bind

@[simp] theorem BR.bind_apply {α β} (m : BR α) (f : α → BR β) (b : ByteArray) (p : Nat) :
    (m.bind f) b p = match m b p with
      | .ok (a, p') => f a b p'
      | .error e => .error e := rfl
@[simp] theorem BR.pure_apply {α} (a : α) (b : ByteArray) (p : Nat) : (BR.pure a) b p = .ok (a, p) := rfl
@[simp] theorem BR.fail_apply {α} (e : LErr) (b : ByteArray) (p : Nat) : (BR.fail e : BR α) b p = .error e := rfl
@[simp] theorem BR.bind_eq {α β} (m : BR α) (f : α → BR β) : (m >>= f) = m.bind f := rfl
@[simp] theorem BR.pure_eq {α} (a : α) : (pure a : BR α) = BR.pure a := rfl

def readBit : BR Bool := fun b p =>
  match bitAt b p with
  | some v => .ok (v, p + 1)
  | none => .error .truncated

/-- `read(n)`: n bits, first bit read = least significant -/
def readBitsAux (b : ByteArray) : Nat → Nat → Nat → Nat → Except LErr (Nat × Nat)
  | 0, _, acc, p => .ok (acc, p)
  | n + 1, k, acc, p =>
    match bitAt b p with
    | some v => readBitsAux b n (k + 1) (acc + (if v then 2 ^ k else 0)) (p + 1)
    | none => .error .truncated

def readBits (n : Nat) : BR Nat := fun b p => readBitsAux b n 0 0 p

def ensure (c : Bool) (e : LErr) : BR Unit := if c then BR.pure () else BR.fail e

end MediaSan.Vp8l
