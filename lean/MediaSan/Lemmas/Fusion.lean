/-
  C01 / C04: the displacement runs on the tree the scan has already partly parsed (`validateMoov` parsed every trak's
  path down to the table).  Laziness does not matter: whenever a mutation succeeds on the partly parsed tree, it
  succeeds on the freshly read payload with the same outputs and the same serialisation.
-/
import MediaSan.Lemmas.Mp4Tree
import MediaSan.Lemmas.TreeRel
namespace MediaSan.Mp4
open MediaSan

/-- `f` after an accessor `g` that only parses: success of `f` on `g`'s tree transfers to the tree before `g` -/
def Fus {C α β : Type} (K : Ser C) (g : C → PureRes (C × β)) (f : C → PureRes (C × α)) : Prop :=
  ∀ c c1 b c2 a, g c = .ok (c1, b) → f c1 = .ok (c2, a) →
    ∃ c2', f c = .ok (c2', a) ∧ K.ser c2' = K.ser c2 ∧ K.len c2' = K.len c2

theorem modify_parsed {C α : Type} (parse : Bytes → PureRes C) (g : C → PureRes (C × α)) (c : C) (d : Data C) (a : α)
    (h : (Data.parsed c).modify parse g = .ok (d, a)) : ∃ r, g c = .ok (r, a) ∧ d = .parsed r := by
  unfold Data.modify at h
  obtain ⟨ra, h3, h4⟩ := pure_bind_ok _ _ _ h
  obtain ⟨r, a'⟩ := ra
  simp only [pure, PureRes.ok.injEq, Prod.mk.injEq] at h4
  exact ⟨r, by rw [h3, h4.2], h4.1.symm⟩

theorem modify_bytes3 {C α : Type} (parse : Bytes → PureRes C) (g : C → PureRes (C × α)) (x : Bytes) (d : Data C) (a : α)
    (h : (Data.bytes x).modify parse g = .ok (d, a)) :
    ∃ inner r, parse x = .ok inner ∧ g inner = .ok (r, a) ∧ d = .parsed r := by
  unfold Data.modify at h
  obtain ⟨inner, h1, h2⟩ := pure_bind_ok _ _ _ h
  obtain ⟨ra, h3, h4⟩ := pure_bind_ok _ _ _ h2
  obtain ⟨r, a'⟩ := ra
  simp only [pure, PureRes.ok.injEq, Prod.mk.injEq] at h4
  exact ⟨inner, r, h1, by rw [h3, h4.2], h4.1.symm⟩

theorem modify_ok_of {C α : Type} (parse : Bytes → PureRes C) (f : C → PureRes (C × α)) (x : Bytes) (c r : C) (a : α)
    (h1 : parse x = .ok c) (h2 : f c = .ok (r, a)) : (Data.bytes x).modify parse f = .ok (.parsed r, a) := by
  simp only [Data.modify, bind, h1, h2, pure]

theorem modify_ok_parsed {C α : Type} (parse : Bytes → PureRes C) (f : C → PureRes (C × α)) (c r : C) (a : α)
    (h2 : f c = .ok (r, a)) : (Data.parsed c).modify parse f = .ok (.parsed r, a) := by
  simp only [Data.modify, bind, h2, pure]

/-- the data level -/
theorem fus_data {C α β : Type} (K : Ser C) (parse : Bytes → PureRes C) (g : C → PureRes (C × β)) (f : C → PureRes (C × α))
    (hF : Fus K g f) (d d1 : Data C) (b : β) (d2 : Data C) (a : α)
    (hg : d.modify parse g = .ok (d1, b)) (hf : d1.modify parse f = .ok (d2, a)) :
    ∃ d2', d.modify parse f = .ok (d2', a) ∧ d2'.ser K = d2.ser K ∧ d2'.len K = d2.len K := by
  cases d with
  | bytes x =>
    obtain ⟨c, c1, p1, p2, e1⟩ := modify_bytes3 parse g x d1 b hg
    subst e1
    obtain ⟨c2, q1, e2⟩ := modify_parsed parse f c1 d2 a hf
    subst e2
    obtain ⟨c2', r1, r2, r3⟩ := hF c c1 b c2 a p2 q1
    exact ⟨.parsed c2', modify_ok_of parse f x c c2' a p1 r1, r2, r3⟩
  | parsed c =>
    obtain ⟨c1, p2, e1⟩ := modify_parsed parse g c d1 b hg
    subst e1
    obtain ⟨c2, q1, e2⟩ := modify_parsed parse f c1 d2 a hf
    subst e2
    obtain ⟨c2', r1, r2, r3⟩ := hF c c1 b c2 a p2 q1
    exact ⟨.parsed c2', modify_ok_parsed parse f c c2' a r1, r2, r3⟩

theorem box_ser_eq_of {C : Type} (K : Ser C) (hdr : BoxHeader) (d d' : Data C) (h1 : d'.ser K = d.ser K)
    (h2 : d'.len K = d.len K) :
    (Box.mk hdr d').ser K = (Box.mk hdr d).ser K ∧ (Box.mk hdr d').len K = (Box.mk hdr d).len K := by
  simp only [Box.ser, Box.len, Box.calcHeader, h1, h2]
  exact ⟨trivial, trivial⟩

/-- `get_mut().next()` -/
theorem fus_modifyFirst {C α β : Type} (K : Ser C) (ty : BoxType) (parse : Bytes → PureRes C)
    (g : C → PureRes (C × β)) (f : C → PureRes (C × α)) (hF : Fus K g f) :
    Fus (listSer K) (modifyFirst ty parse g) (modifyFirst ty parse f) := by
  intro cs
  induction cs with
  | nil => intro c1 b c2 a hg; simp [modifyFirst] at hg
  | cons x xs ih =>
    intro c1 b c2 a hg hf
    simp only [modifyFirst] at hg
    by_cases hty : (x.hdr.ty == ty) = true
    · simp only [hty, if_true] at hg
      obtain ⟨da, hm, hx⟩ := pure_bind_ok _ _ _ hg
      obtain ⟨d1, b'⟩ := da
      simp only [pure, PureRes.ok.injEq, Prod.mk.injEq] at hx
      obtain ⟨rfl, rfl⟩ := hx
      simp only [modifyFirst, hty, if_true] at hf
      obtain ⟨da2, hm2, hx2⟩ := pure_bind_ok _ _ _ hf
      obtain ⟨d2, a'⟩ := da2
      simp only [pure, PureRes.ok.injEq, Prod.mk.injEq] at hx2
      obtain ⟨rfl, rfl⟩ := hx2
      obtain ⟨d2', r1, r2, r3⟩ := fus_data K parse g f hF x.data d1 b' d2 a' hm hm2
      refine ⟨⟨x.hdr, d2'⟩ :: xs, ?_, ?_, ?_⟩
      · simp only [modifyFirst, hty, if_true, bind, r1, pure]
      · obtain ⟨s1, _⟩ := box_ser_eq_of K x.hdr d2 d2' r2 r3
        simp only [listSer, List.map_cons, List.flatten_cons, s1]
      · obtain ⟨_, s2⟩ := box_ser_eq_of K x.hdr d2 d2' r2 r3
        simp only [listSer, List.map_cons, List.sum_cons, s2]
    · have hty' : (x.hdr.ty == ty) = false := by simpa using hty
      simp only [hty', Bool.false_eq_true, if_false] at hg
      obtain ⟨ra, hm, hx⟩ := pure_bind_ok _ _ _ hg
      obtain ⟨xs1, b'⟩ := ra
      simp only [pure, PureRes.ok.injEq, Prod.mk.injEq] at hx
      obtain ⟨rfl, rfl⟩ := hx
      simp only [modifyFirst, hty', Bool.false_eq_true, if_false] at hf
      obtain ⟨ra2, hm2, hx2⟩ := pure_bind_ok _ _ _ hf
      obtain ⟨xs2, a'⟩ := ra2
      simp only [pure, PureRes.ok.injEq, Prod.mk.injEq] at hx2
      obtain ⟨rfl, rfl⟩ := hx2
      obtain ⟨xs2', r1, r2, r3⟩ := ih xs1 b' xs2 a' hm hm2
      refine ⟨x :: xs2', ?_, ?_, ?_⟩
      · simp only [modifyFirst, hty', Bool.false_eq_true, if_false, bind, r1, pure]
      · simp only [listSer, List.map_cons, List.flatten_cons] at r2 ⊢; rw [r2]
      · simp only [listSer, List.map_cons, List.sum_cons] at r3 ⊢; rw [r3]

/-- the header types of the children are what an accessor leaves alone -/
theorem modifyFirst_types {C β : Type} (ty : BoxType) (parse : Bytes → PureRes C) (g : C → PureRes (C × β))
    (cs cs1 : List (Box C)) (b : β) (h : modifyFirst ty parse g cs = .ok (cs1, b)) :
    cs1.map (·.hdr.ty) = cs.map (·.hdr.ty) := by
  induction cs generalizing cs1 b with
  | nil => simp [modifyFirst] at h
  | cons x xs ih =>
    simp only [modifyFirst] at h
    by_cases hty : (x.hdr.ty == ty) = true
    · simp only [hty, if_true] at h
      obtain ⟨da, hm, hx⟩ := pure_bind_ok _ _ _ h
      obtain ⟨d1, b'⟩ := da
      simp only [pure, PureRes.ok.injEq, Prod.mk.injEq] at hx
      obtain ⟨rfl, rfl⟩ := hx
      rfl
    · have hty' : (x.hdr.ty == ty) = false := by simpa using hty
      simp only [hty', Bool.false_eq_true, if_false] at h
      obtain ⟨ra, hm, hx⟩ := pure_bind_ok _ _ _ h
      obtain ⟨xs1, b'⟩ := ra
      simp only [pure, PureRes.ok.injEq, Prod.mk.injEq] at hx
      obtain ⟨rfl, rfl⟩ := hx
      simp only [List.map_cons, ih xs1 b' hm]

theorem countType_of_types {C : Type} (ty : BoxType) (cs cs1 : List (Box C)) (h : cs1.map (·.hdr.ty) = cs.map (·.hdr.ty)) :
    countType ty cs1 = countType ty cs ∧ hasType ty cs1 = hasType ty cs := by
  induction cs generalizing cs1 with
  | nil => cases cs1 with | nil => exact ⟨rfl, rfl⟩ | cons y ys => simp at h
  | cons x xs ih =>
    cases cs1 with
    | nil => simp at h
    | cons y ys =>
      simp only [List.map_cons, List.cons.injEq] at h
      obtain ⟨i1, i2⟩ := ih ys h.2
      unfold countType hasType at *
      simp only [List.filter_cons, List.any_cons, h.1]
      constructor
      · split <;> simp [i1]
      · rw [i2]

/-- `get_one_mut()` -/
theorem fus_getOne {C α β : Type} (K : Ser C) (ty : BoxType) (parse : Bytes → PureRes C)
    (g : C → PureRes (C × β)) (f : C → PureRes (C × α)) (hF : Fus K g f) :
    Fus (listSer K) (getOneMut ty parse g) (getOneMut ty parse f) := by
  intro cs cs1 b cs2 a hg hf
  unfold getOneMut at hg hf ⊢
  split at hg
  · rename_i hcnt
    have ht := modifyFirst_types ty parse g cs cs1 b hg
    have hc := (countType_of_types ty cs cs1 ht).1
    rw [hc] at hf
    simp only [hcnt, if_true] at hf ⊢
    exact fus_modifyFirst K ty parse g f hF cs cs1 b cs2 a hg hf
  · cases hg

/-- `for x in get_mut()` -/
theorem fus_forEach {C α β : Type} (K : Ser C) (ty : BoxType) (parse : Bytes → PureRes C)
    (g : C → PureRes (C × β)) (f : C → PureRes (C × α)) (hF : Fus K g f) :
    Fus (listSer K) (forEachOfType ty parse g) (forEachOfType ty parse f) := by
  intro cs
  induction cs with
  | nil =>
    intro c1 b c2 a hg hf
    simp only [forEachOfType, PureRes.ok.injEq, Prod.mk.injEq] at hg
    obtain ⟨rfl, rfl⟩ := hg
    exact ⟨c2, hf, rfl, rfl⟩
  | cons x xs ih =>
    intro c1 bs c2 as hg hf
    simp only [forEachOfType] at hg
    by_cases hty : (x.hdr.ty == ty) = true
    · simp only [hty, if_true] at hg
      obtain ⟨da, hm, hx⟩ := pure_bind_ok _ _ _ hg
      obtain ⟨d1, b'⟩ := da
      obtain ⟨ra, hrec, hy⟩ := pure_bind_ok _ _ _ hx
      obtain ⟨xs1, bs'⟩ := ra
      simp only [pure, PureRes.ok.injEq, Prod.mk.injEq] at hy
      obtain ⟨rfl, rfl⟩ := hy
      simp only [forEachOfType, hty, if_true] at hf
      obtain ⟨da2, hm2, hx2⟩ := pure_bind_ok _ _ _ hf
      obtain ⟨d2, a'⟩ := da2
      obtain ⟨ra2, hrec2, hy2⟩ := pure_bind_ok _ _ _ hx2
      obtain ⟨xs2, as'⟩ := ra2
      simp only [pure, PureRes.ok.injEq, Prod.mk.injEq] at hy2
      obtain ⟨rfl, rfl⟩ := hy2
      obtain ⟨d2', r1, r2, r3⟩ := fus_data K parse g f hF x.data d1 b' d2 a' hm hm2
      obtain ⟨xs2', t1, t2, t3⟩ := ih xs1 bs' xs2 as' hrec hrec2
      refine ⟨⟨x.hdr, d2'⟩ :: xs2', ?_, ?_, ?_⟩
      · simp only [forEachOfType, hty, if_true, bind, r1, t1, pure]
      · obtain ⟨s1, _⟩ := box_ser_eq_of K x.hdr d2 d2' r2 r3
        simp only [listSer, List.map_cons, List.flatten_cons, s1] at t2 ⊢; rw [t2]
      · obtain ⟨_, s2⟩ := box_ser_eq_of K x.hdr d2 d2' r2 r3
        simp only [listSer, List.map_cons, List.sum_cons, s2] at t3 ⊢; rw [t3]
    · have hty' : (x.hdr.ty == ty) = false := by simpa using hty
      simp only [hty', Bool.false_eq_true, if_false] at hg
      obtain ⟨ra, hrec, hy⟩ := pure_bind_ok _ _ _ hg
      obtain ⟨xs1, bs'⟩ := ra
      simp only [pure, PureRes.ok.injEq, Prod.mk.injEq] at hy
      obtain ⟨rfl, rfl⟩ := hy
      simp only [forEachOfType, hty', Bool.false_eq_true, if_false] at hf
      obtain ⟨ra2, hrec2, hy2⟩ := pure_bind_ok _ _ _ hf
      obtain ⟨xs2, as'⟩ := ra2
      simp only [pure, PureRes.ok.injEq, Prod.mk.injEq] at hy2
      obtain ⟨rfl, rfl⟩ := hy2
      obtain ⟨xs2', t1, t2, t3⟩ := ih xs1 bs' xs2 as' hrec hrec2
      refine ⟨x :: xs2', ?_, ?_, ?_⟩
      · simp only [forEachOfType, hty', Bool.false_eq_true, if_false, bind, t1, pure]
      · simp only [listSer, List.map_cons, List.flatten_cons] at t2 ⊢; rw [t2]
      · simp only [listSer, List.map_cons, List.sum_cons] at t3 ⊢; rw [t3]


/-- the accessor of the scan returns the table unchanged -/
theorem fus_leaf {α : Type} (f : Co → PureRes (Co × α)) :
    Fus coSer (fun co => (.ok (co, co.count) : PureRes (Co × Nat))) f := by
  intro c c1 b c2 a hg hf
  simp only [PureRes.ok.injEq, Prod.mk.injEq] at hg
  obtain ⟨rfl, _⟩ := hg
  exact ⟨c2, hf, rfl, rfl⟩

theorem getOneMut_types {C β : Type} (ty : BoxType) (parse : Bytes → PureRes C) (g : C → PureRes (C × β))
    (cs cs1 : List (Box C)) (b : β) (h : getOneMut ty parse g cs = .ok (cs1, b)) :
    cs1.map (·.hdr.ty) = cs.map (·.hdr.ty) := by
  unfold getOneMut at h
  split at h
  · exact modifyFirst_types ty parse g cs cs1 b h
  · cases h

/-- `StblBox::co_mut` -/
theorem fus_stbl {α β : Type} (g : Co → PureRes (Co × β)) (f : Co → PureRes (Co × α)) (hF : Fus coSer g f) :
    Fus ser1 (coMutStbl g) (coMutStbl f) := by
  intro cs cs1 b cs2 a hg hf
  unfold coMutStbl at hg hf ⊢
  dsimp only at hg hf ⊢
  split at hg
  · cases hg
  rename_i hboth
  split at hg
  · rename_i hst
    have ht := getOneMut_types STCO (parseCo 4) g cs cs1 b hg
    have h1 := (countType_of_types STCO cs cs1 ht).2
    have h2 := (countType_of_types CO64 cs cs1 ht).2
    rw [h1, h2] at hf
    have hno6 : hasType CO64 cs = false := by
      cases hq : hasType CO64 cs with
      | false => rfl
      | true => rw [hst, hq] at hboth; simp at hboth
    simp only [hst, hno6, Bool.and_false, Bool.false_eq_true, if_false, if_true] at hf ⊢
    exact fus_getOne coSer STCO (parseCo 4) g f hF cs cs1 b cs2 a hg hf
  · rename_i hst
    have ht := getOneMut_types CO64 (parseCo 8) g cs cs1 b hg
    have h1 := (countType_of_types STCO cs cs1 ht).2
    have h2 := (countType_of_types CO64 cs cs1 ht).2
    rw [h1, h2] at hf
    have hst' : hasType STCO cs = false := by simpa using hst
    simp only [hst', Bool.false_and, Bool.false_eq_true, if_false] at hf ⊢
    exact fus_getOne coSer CO64 (parseCo 8) g f hF cs cs1 b cs2 a hg hf

/-- `TrakBox::co_mut` -/
theorem fus_trak {α β : Type} (g : Co → PureRes (Co × β)) (f : Co → PureRes (Co × α)) (hF : Fus coSer g f) :
    Fus ser4 (coMutTrak g) (coMutTrak f) := by
  unfold coMutTrak
  exact fus_getOne ser3 MDIA parseContainer _ _
    (fus_getOne ser2 MINF parseContainer _ _
      (fus_getOne ser1 STBL parseContainer _ _ (fus_stbl g f hF)))

theorem fus_forTraks {α β : Type} (g : Co → PureRes (Co × β)) (f : Co → PureRes (Co × α)) (hF : Fus coSer g f) :
    Fus ser5 (forTraks g) (forTraks f) := by
  unfold forTraks
  exact fus_forEach ser4 TRAK parseContainer _ _ (fus_trak g f hF)

/-- the displacement of the validated tree is the displacement of the payload as read: same serialisation and length -/
theorem displace_validated (x : Bytes) (d : Data L5) (n : Nat) (hv : validateMoov (.bytes x) = .ok (d, n))
    (disp : Int) (d' : Data L5) (hd : displaceMoov disp d = .ok d') :
    ∃ d'' us, (Data.bytes x).modify parseMoov (forTraks (displaceCo disp)) = .ok (d'', us) ∧
      d''.ser ser5 = d'.ser ser5 ∧ d''.len ser5 = d'.len ser5 := by
  unfold validateMoov at hv
  obtain ⟨dc, hm, hrest⟩ := pure_bind_ok _ _ _ hv
  obtain ⟨d0, counts⟩ := dc
  have hd0 : d = d0 := by
    cases counts with
    | nil => simp only [pure, PureRes.ok.injEq, Prod.mk.injEq] at hrest; exact hrest.1.symm
    | cons c cs =>
      dsimp only at hrest
      obtain ⟨t, _, ht⟩ := pure_bind_ok _ _ _ hrest
      simp only [pure, PureRes.ok.injEq, Prod.mk.injEq] at ht
      exact ht.1.symm
  subst hd0
  unfold displaceMoov at hd
  obtain ⟨du, hm2, hrest2⟩ := pure_bind_ok _ _ _ hd
  obtain ⟨d1, us⟩ := du
  simp only [pure, PureRes.ok.injEq] at hrest2
  subst hrest2
  obtain ⟨d2', r1, r2, r3⟩ := fus_data ser5 parseMoov (forTraks fun co => .ok (co, co.count)) (forTraks (displaceCo disp))
    (fus_forTraks _ _ (fus_leaf _)) (.bytes x) d counts d1 us hm hm2
  exact ⟨d2', us, r1, r2, r3⟩

end MediaSan.Mp4
