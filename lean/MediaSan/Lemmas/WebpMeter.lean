/-
  C10, webpsan: every `read_exact` request the container code can issue, on any input, is for at most 16 bytes (chunk
  headers, pad bytes, the fixed-size records, the 5-byte VP8L header).  Everything larger reaches the sanitizer only
  through the lossless validator's bit reader, which pulls through its own bounded buffer (`readUpTo` in the model).
  A structural fact about the program, by induction over its text (and over the fuel of its loops).
-/
import MediaSan.Lemmas.Meter
import MediaSan.Webp.Sanitize
import MediaSan.Lemmas.WebpCodecRel
namespace MediaSan

/-- every `read_exact` request anywhere in the program is for at most `L` bytes; pulls through the bit reader
    (`readUpTo`) are not requests of the container code -/
inductive ReqBound {E α : Type} (L : Nat) : Prog E α → Prop where
  | done (a : α) : ReqBound L (.done a)
  | fail (e : E) : ReqBound L (.fail e)
  | panic (s : String) : ReqBound L (.panic s)
  | isEof {k : Bool → Prog E α} : (∀ b, ReqBound L (k b)) → ReqBound L (.isEof k)
  | position {k : Nat → Prog E α} : (∀ p, ReqBound L (k p)) → ReqBound L (.position k)
  | streamLen {k : Nat → Prog E α} : (∀ p, ReqBound L (k p)) → ReqBound L (.streamLen k)
  | skip (n : Nat) (eof : Option E) {k : Unit → Prog E α} : (∀ u, ReqBound L (k u)) → ReqBound L (.skip n eof k)
  | readExact (n : Nat) (eof : Option E) {k : Bytes → Prog E α} : n ≤ L → (∀ b, ReqBound L (k b)) →
      ReqBound L (.readExact n eof k)
  | readUpTo (n : Nat) {k : Bytes → Prog E α} : (∀ b, ReqBound L (k b)) → ReqBound L (.readUpTo n k)

theorem ReqBound.bind {E α β} {L : Nat} {p : Prog E α} {f : α → Prog E β} (hp : ReqBound L p)
    (hf : ∀ a, ReqBound L (f a)) : ReqBound L (p.bind f) := by
  induction hp with
  | done a => exact hf a
  | fail e => exact .fail e
  | panic s => exact .panic s
  | isEof _ ih => exact .isEof ih
  | position _ ih => exact .position ih
  | streamLen _ ih => exact .streamLen ih
  | skip n eof _ ih => exact .skip n eof ih
  | readExact n eof hn _ ih => exact .readExact n eof hn ih
  | readUpTo n _ ih => exact .readUpTo n ih

namespace Webp
open Generated

theorem reqBound_ite {α} {L : Nat} (c : Prop) [Decidable c] {a b : WP α} (h1 : ReqBound L a) (h2 : ReqBound L b) :
    ReqBound L (if c then a else b) := by
  split
  · exact h1
  · exact h2

theorem rawRead_req (r : RS) (k n : Nat) (hn : n ≤ 16) : ReqBound 16 (rawRead r k n) := by
  unfold rawRead
  split
  · exact .done _
  · split
    · exact .readExact n _ hn fun b => .done _
    · exact .fail _

theorem rawSkip_req (r : RS) (k n : Nat) : ReqBound 16 (rawSkip r k n) := by
  unfold rawSkip
  split
  · split
    · exact .done _
    · exact .skip n _ fun _ => .done _
  · exact .fail _

theorem rawIsEmpty_req (r : RS) (k : Nat) : ReqBound 16 (rawIsEmpty r k) := by
  unfold rawIsEmpty
  split
  · exact .done _
  · exact .isEof fun e => .done _

theorem readPadding_req (r : RS) (k : Nat) : ReqBound 16 (readPadding r k) := by
  unfold readPadding
  split
  · split
    · refine ReqBound.bind (rawRead_req r k 1 (by omega)) fun x => ?_
      obtain ⟨b, r'⟩ := x
      exact reqBound_ite _ (.done _) (.fail _)
    · exact .done _
  · exact .done _

theorem hasRemaining_req (r : RS) (k : Nat) : ReqBound 16 (hasRemaining r k) := by
  unfold hasRemaining
  refine ReqBound.bind (readPadding_req r k) fun r1 => ?_
  split
  · exact ReqBound.bind (rawIsEmpty_req r1 k) fun e => .done _
  · exact .done _

theorem readAnyHeader_req (r : RS) (k : Nat) : ReqBound 16 (readAnyHeader r k) := by
  unfold readAnyHeader
  refine ReqBound.bind (readPadding_req r k) fun r1 => ?_
  have wh : ∀ (name : Bytes) (len : Nat) (r : RS), ReqBound 16
      ((.position fun pos => if pos < 8 then .panic "reader.rs:127 stream_position - 8"
        else .done (name, r.set k (if len = 0 then .padding name len else .body name len len))) : WP (Bytes × RS)) := by
    intro name len r
    exact .position fun p => reqBound_ite _ (.panic _) (.done _)
  dsimp only
  split
  · exact wh _ _ _
  · refine ReqBound.bind (hasRemaining_req r1 k) fun x => ?_
    obtain ⟨more, r2⟩ := x
    refine reqBound_ite _ (.fail _) ?_
    refine ReqBound.bind (rawRead_req _ k 8 (by omega)) fun y => ?_
    obtain ⟨b, r3⟩ := y
    exact wh _ _ _
  · exact .fail _
  · exact .panic _

theorem peekHeader_req (r : RS) (k : Nat) : ReqBound 16 (peekHeader r k) := by
  unfold peekHeader
  refine ReqBound.bind (readPadding_req r k) fun r1 => ?_
  split
  · exact .done _
  · refine ReqBound.bind (hasRemaining_req r1 k) fun x => ?_
    obtain ⟨more, r2⟩ := x
    refine reqBound_ite _ (.done _) ?_
    refine ReqBound.bind (rawRead_req _ k 8 (by omega)) fun y => ?_
    obtain ⟨b, r3⟩ := y
    exact .done _
  · exact .fail _
  · exact .panic _

theorem readHeader_req (r : RS) (k : Nat) (name : Bytes) : ReqBound 16 (readHeader r k name) := by
  unfold readHeader
  refine ReqBound.bind (readPadding_req r k) fun r1 => ?_
  have go : ∀ r : RS, ReqBound 16
      ((readAnyHeader r k).bind fun (got, r) => if got = name then (.done r : WP RS) else .fail .invalidChunkLayout) := by
    intro r
    refine ReqBound.bind (readAnyHeader_req r k) fun x => ?_
    obtain ⟨got, r2⟩ := x
    exact reqBound_ite _ (.done _) (.fail _)
  dsimp only
  split
  · refine ReqBound.bind (hasRemaining_req r1 k) fun x => ?_
    obtain ⟨more, r2⟩ := x
    exact reqBound_ite _ (go _) (.fail _)
  · exact go _

theorem readData_req (r : RS) (k n : Nat) (hn : n ≤ 16) : ReqBound 16 (readData r k n) := by
  unfold readData
  refine ReqBound.bind (readPadding_req r k) fun r1 => ?_
  split
  · exact .fail _
  · exact .panic _
  · refine reqBound_ite _ (.fail _) ?_
    refine ReqBound.bind (rawRead_req r1 k n hn) fun x => ?_
    obtain ⟨b, r2⟩ := x
    exact .done _
  · exact .panic _

theorem skipData_req (r : RS) (k : Nat) : ReqBound 16 (skipData r k) := by
  unfold skipData
  refine ReqBound.bind (readPadding_req r k) fun r1 => ?_
  split
  · exact .done _
  · exact .panic _
  · exact ReqBound.bind (rawSkip_req r1 k _) fun x => .done _
  · exact .panic _

/-- a chunk that is only skipped (lossy `VP8 ` image data, ICCP, EXIF, XMP, unknown chunks) costs at most ONE byte of
    reading - its pad byte; the payload itself goes through `skip` -/
theorem skipData_reads_pad_only (r : RS) (k : Nat) : ReqBound 1 (skipData r k) := by
  unfold skipData
  have hp : ReqBound 1 (readPadding r k) := by
    unfold readPadding
    split
    · split
      · refine ReqBound.bind ?_ fun x => ?_
        · unfold rawRead
          split
          · exact .done _
          · split
            · exact .readExact 1 _ (by omega) fun b => .done _
            · exact .fail _
        · obtain ⟨b, r'⟩ := x
          dsimp only
          split
          · exact .done _
          · exact .fail _
      · exact .done _
    · exact .done _
  refine ReqBound.bind hp fun r1 => ?_
  split
  · exact .done _
  · exact .panic _
  · refine ReqBound.bind ?_ fun x => .done _
    unfold rawSkip
    split
    · split
      · exact .done _
      · exact .skip _ _ fun _ => .done _
    · exact .fail _
  · exact .panic _

theorem liftPrim_req {α} (x : Except PrimErr α) : ReqBound 16 (liftPrim x : WP α) := by
  unfold liftPrim
  split <;> constructor

theorem parseData_req (r : RS) (k : Nat) (sc : Schema) (hn : sc.encodedLen ≤ 16) : ReqBound 16 (parseData r k sc) := by
  unfold parseData
  refine ReqBound.bind (readData_req r k _ hn) fun x => ?_
  obtain ⟨b, r2⟩ := x
  refine ReqBound.bind (liftPrim_req _) fun y => ?_
  obtain ⟨vs, rest⟩ := y
  exact .done _

theorem liftLossless_req (x : Except Vp8l.LErr Unit) : ReqBound 16 (liftLossless x) := by
  unfold liftLossless
  split <;> constructor

theorem sanitizeImageData_req (r : RS) (k w h : Nat) : ReqBound 16 (sanitizeImageData r k w h) := by
  unfold sanitizeImageData
  split
  · exact .readUpTo _ fun data => ReqBound.bind (liftLossless_req _) fun _ => .done _
  · exact ReqBound.bind (liftLossless_req _) fun _ => .done _

theorem vp8lChunk_req (r : RS) (k : Nat) (expect : Option (Nat × Nat)) : ReqBound 16 (vp8lChunk r k expect) := by
  unfold vp8lChunk
  refine ReqBound.bind (readData_req r k 5 (by omega)) fun x => ?_
  cases hp : Vp8l.parseVp8lHeader (ByteArray.mk x.1.toArray) with
  | error e => cases e <;> exact .fail _
  | ok wh =>
    obtain ⟨w, h⟩ := wh
    refine reqBound_ite _ (.fail _) ?_
    exact ReqBound.bind (sanitizeImageData_req _ k _ _) fun r2 => skipData_req r2 k

theorem alphChunk_req (r : RS) (k w h : Nat) : ReqBound 16 (alphChunk r k w h) := by
  unfold alphChunk
  refine ReqBound.bind (parseData_req r k schemaAlphChunk (by rw [alph_len]; omega)) fun x => ?_
  obtain ⟨vs, r1⟩ := x
  refine ReqBound.bind ?_ fun r2 => skipData_req r2 k
  exact reqBound_ite _ (sanitizeImageData_req _ k w h) (.done _)

theorem trailingLoop_req (cfg : Config) (k : Nat) (inAnmf : Bool) (fuel : Nat) (r : RS) :
    ReqBound 16 (trailingLoop cfg k inAnmf fuel r) := by
  induction fuel generalizing r with
  | zero => exact .done _
  | succ n ih =>
    unfold trailingLoop
    refine ReqBound.bind (hasRemaining_req r k) fun x => ?_
    obtain ⟨more, r1⟩ := x
    refine reqBound_ite _ (.done _) ?_
    refine ReqBound.bind (readAnyHeader_req _ k) fun y => ?_
    obtain ⟨name, r2⟩ := y
    refine reqBound_ite _ (.fail _) (reqBound_ite _ (.fail _) ?_)
    exact ReqBound.bind (skipData_req _ k) fun r3 => ih r3

theorem sanitizeStill_req (r : RS) (flags cw ch : Nat) : ReqBound 16 (sanitizeStill r flags cw ch) := by
  unfold sanitizeStill
  dsimp only
  refine ReqBound.bind ?_ fun r1 => ?_
  · exact reqBound_ite _ (ReqBound.bind (readHeader_req r 1 FALPH) fun r2 => alphChunk_req r2 1 cw ch) (.done _)
  · refine ReqBound.bind (hasRemaining_req r1 1) fun x => ?_
    obtain ⟨more, r2⟩ := x
    refine reqBound_ite _ (.fail _) ?_
    refine ReqBound.bind (readAnyHeader_req _ 1) fun y => ?_
    obtain ⟨name, r3⟩ := y
    exact reqBound_ite _ (skipData_req _ 1) (reqBound_ite _ (reqBound_ite _ (.fail _) (vp8lChunk_req _ 1 _)) (.fail _))

theorem sanitizeFrame_req (cfg : Config) (r : RS) (flags cw ch fuel : Nat) :
    ReqBound 16 (sanitizeFrame cfg r flags cw ch fuel) := by
  unfold sanitizeFrame
  refine ReqBound.bind (readHeader_req r 1 FANMF) fun r1 => ?_
  refine ReqBound.bind (parseData_req r1 1 schemaAnmfChunk (by rw [anmf_len']; omega)) fun x => ?_
  obtain ⟨vs, r2⟩ := x
  dsimp only
  refine ReqBound.bind ?_ fun y => ?_
  · refine reqBound_ite _ ?_ (.done _)
    refine ReqBound.bind (peekHeader_req _ 2) fun z => ?_
    obtain ⟨nm, r3⟩ := z
    refine reqBound_ite _ ?_ (.done _)
    exact ReqBound.bind (readHeader_req _ 2 FALPH) fun r4 => ReqBound.bind (alphChunk_req r4 2 _ _) fun r5 => .done _
  · obtain ⟨sawAlph, r3⟩ := y
    refine ReqBound.bind (readAnyHeader_req _ 2) fun z => ?_
    obtain ⟨name, r4⟩ := z
    refine ReqBound.bind ?_ fun r5 => trailingLoop_req cfg 2 true fuel r5
    exact reqBound_ite _ (skipData_req _ 2) (reqBound_ite _ (reqBound_ite _ (.fail _) (vp8lChunk_req _ 2 _)) (.fail _))

theorem framesLoop_req (cfg : Config) (flags cw ch fuel n : Nat) (r : RS) :
    ReqBound 16 (framesLoop cfg flags cw ch fuel n r) := by
  induction n generalizing r with
  | zero => exact .done _
  | succ m ih =>
    unfold framesLoop
    refine ReqBound.bind (peekHeader_req r 1) fun x => ?_
    obtain ⟨nm, r1⟩ := x
    refine reqBound_ite _ ?_ (.done _)
    refine ReqBound.bind (sanitizeFrame_req cfg _ flags cw ch fuel) fun o => ?_
    cases o with
    | none => exact .done _
    | some r2 => exact ih r2

theorem sanitizeAnimated_req (cfg : Config) (r : RS) (flags cw ch fuel : Nat) :
    ReqBound 16 (sanitizeAnimated cfg r flags cw ch fuel) := by
  unfold sanitizeAnimated
  refine ReqBound.bind (readHeader_req r 1 FANIM) fun r1 => ?_
  refine ReqBound.bind (parseData_req r1 1 schemaAnimChunk (by rw [anim_len]; omega)) fun x => ?_
  obtain ⟨vs, r2⟩ := x
  refine ReqBound.bind (peekHeader_req _ 1) fun y => ?_
  obtain ⟨nm, r3⟩ := y
  exact reqBound_ite _ (framesLoop_req cfg flags cw ch fuel fuel _) (.fail _)

theorem sanitizeExtended_req (cfg : Config) (r : RS) (flags cw ch fuel : Nat) :
    ReqBound 16 (sanitizeExtended cfg r flags cw ch fuel) := by
  unfold sanitizeExtended
  have opt : ∀ (b : Bool) (name : Bytes) (r : RS), ReqBound 16
      (if b = true then (readHeader r 1 name).bind fun r => skipData r 1 else (.done r : WP RS)) := by
    intro b name r
    split
    · exact ReqBound.bind (readHeader_req r 1 name) fun r2 => skipData_req r2 1
    · exact .done _
  refine ReqBound.bind (opt _ FICCP r) fun r1 => ?_
  refine ReqBound.bind ?_ fun o => ?_
  · exact reqBound_ite _ (sanitizeAnimated_req cfg r1 flags cw ch fuel)
      (ReqBound.bind (sanitizeStill_req r1 flags cw ch) fun r2 => .done _)
  · cases o with
    | none => exact .done _
    | some r2 =>
      exact ReqBound.bind (opt _ FEXIF r2) fun r3 => ReqBound.bind (opt _ FXMP r3) fun r4 => .done _

/-- every `read_exact` request of webpsan's container code is for at most 16 bytes, on every input -/
theorem sanitizeP_req (cfg : Config) (fuel : Nat) : ReqBound 16 (sanitizeP cfg fuel) := by
  unfold sanitizeP
  dsimp only
  refine ReqBound.bind (readHeader_req {} 0 FRIFF) fun r1 => ?_
  refine ReqBound.bind (readData_req r1 0 4 (by omega)) fun x => ?_
  obtain ⟨b, r2⟩ := x
  refine reqBound_ite _ (.fail _) (reqBound_ite _ (.fail _) ?_)
  refine ReqBound.bind (readAnyHeader_req _ 1) fun y => ?_
  obtain ⟨name, r3⟩ := y
  refine ReqBound.bind ?_ fun o => ?_
  · refine reqBound_ite _ (ReqBound.bind (skipData_req _ 1) fun r4 => .done _) ?_
    refine reqBound_ite _ (ReqBound.bind (vp8lChunk_req _ 1 none) fun r4 => .done _) ?_
    refine reqBound_ite _ ?_ (.fail _)
    refine ReqBound.bind (parseData_req _ 1 schemaVp8xChunk (by rw [vp8x_len]; omega)) fun z => ?_
    obtain ⟨vs, r4⟩ := z
    exact sanitizeExtended_req cfg _ _ _ _ fuel
  · cases o with
    | none => exact .done _
    | some r4 =>
      refine ReqBound.bind (trailingLoop_req cfg 1 false fuel r4) fun o2 => ?_
      cases o2 with
      | none => exact .done _
      | some r5 =>
        refine ReqBound.bind (hasRemaining_req r5 0) fun w => ?_
        obtain ⟨more, r6⟩ := w
        refine reqBound_ite _ (.fail _) ?_
        exact .position fun p => .streamLen fun l => reqBound_ite _ (.done _) (.fail _)

end Webp
end MediaSan
