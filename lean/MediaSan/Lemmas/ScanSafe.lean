/-
  C09 / C03: the MP4 scan loop on the ideal cursor never panics, keeps the media span behind the cursor, and makes
  progress — proved with the program logic of Lemmas/Hoare.lean.
-/
import MediaSan.Lemmas.Hoare
import MediaSan.Lemmas.Weight
import MediaSan.Lemmas.Mp4Tree
import MediaSan.Mp4.Sanitize
namespace MediaSan.Mp4
open MediaSan

section
variable (s : Stream) (kind : SkipKind)

/-- the size field of a header as read from the wire fits its width -/
def HdrOk (h : BoxHeader) : Prop :=
  match h.sz with
  | .untilEof => True
  | .size n => n ≤ u32Max
  | .ext n => n ≤ u64Max

theorem read_len (pos n : Nat) : (s.read pos n).length = n := by simp [Stream.read]

theorem be4_le (pos : Nat) : beToNat (s.read pos 4) ≤ u32Max := by
  have := beToNat_lt (s.read pos 4)
  rw [read_len] at this
  unfold u32Max; omega

theorem be8_le (pos : Nat) : beToNat (s.read pos 8) ≤ u64Max := by
  have := beToNat_lt (s.read pos 8)
  rw [read_len] at this
  unfold u64Max; omega

theorem skip_ok (hlen : s.len < u64Lim) {pos n pos' : Nat} (h : (idealOps s kind).skip pos n = .ok pos') :
    pos' = pos + n ∧ (pos < u64Lim → pos' < u64Lim) := by
  simp only [idealOps] at h
  cases kind with
  | strict =>
    dsimp only at h
    split at h
    · cases h; exact ⟨rfl, fun _ => by omega⟩
    · cases h
  | seekable =>
    dsimp only at h
    split at h
    · rename_i h0; cases h; exact ⟨by omega, fun hp => hp⟩
    · split at h
      · cases h; exact ⟨rfl, fun _ => by assumption⟩
      · split at h <;> cases h

/-- `BoxHeader::read`: on success the cursor is exactly behind the header, inside the stream -/
theorem readHeader_safe (pos : Nat) :
    Safe (idealOps s kind) readHeader pos (fun h pos' => pos' = pos + h.encodedLen ∧ pos' ≤ s.len ∧ HdrOk h) := by
  unfold readHeader
  apply Safe.readExact
  · intro h; cases h
  intro _ hl1
  apply Safe.readExact
  · intro h; cases h
  intro _ hl2
  dsimp only
  -- the tail after the size has been determined
  have tail : ∀ (sz : BoxSize) (p : Nat) (extra : Nat), p = pos + 8 + extra → p ≤ s.len →
      extra = (match sz with | .ext _ => 8 | _ => 0) → HdrOk ⟨.fourcc [], sz⟩ →
      Safe (idealOps s kind)
        (if s.read (pos + 4) 4 = uuidName then
          Prog.readExact 16 (some PErr.truncatedBox) fun u => (Prog.done ⟨BoxType.uuid u, sz⟩ : P BoxHeader)
         else Prog.done ⟨BoxType.fourcc (s.read (pos + 4) 4), sz⟩) p
        (fun h pos' => pos' = pos + h.encodedLen ∧ pos' ≤ s.len ∧ HdrOk h) := by
    intro sz p extra hp hle hex hok
    split
    · apply Safe.readExact
      · intro h; cases h
      intro _ hl3
      refine Safe.done ⟨?_, hl3, ?_⟩
      · simp only [BoxHeader.encodedLen]; cases sz <;> simp_all <;> omega
      · exact hok
    · refine Safe.done ⟨?_, hle, ?_⟩
      · simp only [BoxHeader.encodedLen]; cases sz <;> simp_all <;> omega
      · exact hok
  split
  · exact tail .untilEof (pos + 4 + 4) 0 (by omega) hl2 rfl trivial
  · split
    · apply Safe.readExact
      · intro h; cases h
      intro _ hl3
      exact tail (.ext _) (pos + 4 + 4 + 8) 8 (by omega) hl3 rfl (be8_le s _)
    · exact tail (.size _) (pos + 4 + 4) 0 (by omega) hl2 rfl (be4_le s _)


/-- the scan invariant: the cursor is a u64, and the media span collected so far lies behind it -/
def Inv (st : ScanState) (pos : Nat) : Prop :=
  pos < u64Lim ∧ ∀ d, st.data = some d → d.offset + d.len ≤ pos

theorem sized_total (h : BoxHeader) (n : Nat) (hok : HdrOk h) (hd : h.dataSize = .ok (some n)) :
    n + h.encodedLen ≤ u64Max := by
  unfold BoxHeader.dataSize at hd
  unfold HdrOk at hok
  cases hs : h.sz with
  | untilEof => simp [hs, BoxSize.toNat?] at hd
  | size m =>
    simp only [hs, BoxSize.toNat?] at hd hok
    split at hd
    · simp only [Except.ok.injEq, Option.some.injEq] at hd; unfold u32Max at hok; unfold u64Max; omega
    · cases hd
  | ext m =>
    simp only [hs, BoxSize.toNat?] at hd hok
    split at hd
    · simp only [Except.ok.injEq, Option.some.injEq] at hd; omega
    · cases hd

/-- what `box_data_size` / "until EOF" evaluates to -/
def SizeIs (h : BoxHeader) (pos n : Nat) : Prop :=
  h.dataSize = .ok (some n) ∨ (h.dataSize = .ok none ∧ n = s.len - pos)

theorem boxDataSize_safe (h : BoxHeader) (pos : Nat) (hp : pos ≤ s.len) :
    Safe (idealOps s kind) (boxDataSize h) pos (fun n pos' => pos' = pos ∧ SizeIs s h pos n) := by
  unfold boxDataSize
  cases hd : h.dataSize with
  | error e => exact Safe.fail
  | ok o =>
    cases o with
    | some n => exact Safe.done ⟨rfl, Or.inl hd⟩
    | none =>
      dsimp only
      apply Safe.streamLen
      apply Safe.position
      unfold subU64
      simp only [hp, if_true]
      exact Safe.done ⟨rfl, Or.inr ⟨hd, rfl⟩⟩

theorem skipBox_safe (hlen : s.len < u64Lim) (h : BoxHeader) (pos : Nat) (hp : pos ≤ s.len) :
    Safe (idealOps s kind) (skipBox h) pos
      (fun n pos' => pos' = pos + n ∧ pos' < u64Lim ∧ SizeIs s h pos n) := by
  unfold skipBox
  apply Safe.bind
  apply Safe.mono (boxDataSize_safe s kind h pos hp)
  intro n p' ⟨hp', hs⟩
  subst hp'
  apply Safe.skip
  intro p2 hk
  have := skip_ok s kind hlen hk
  exact Safe.done ⟨this.1, this.2 (by omega), hs⟩

/-- header + data = whole box, and it fits a u64 -/
theorem box_total (hlen : s.len < u64Lim) (h : BoxHeader) (startPos pos n : Nat) (hpos : pos = startPos + h.encodedLen)
    (hle : pos ≤ s.len) (hok : HdrOk h) (hs : SizeIs s h pos n) : n + h.encodedLen ≤ u64Max := by
  rcases hs with hs | ⟨_, hn⟩
  · exact sized_total h n hok hs
  · unfold u64Max; unfold u64Lim at hlen; omega

theorem extendData_safe (d0 : Option Span) (startPos boxSize pos : Nat)
    (hd : ∀ d, d0 = some d → d.offset + d.len ≤ startPos) (hs : startPos + boxSize ≤ u64Max) :
    Safe (idealOps s kind) (extendData d0 startPos boxSize) pos
      (fun d' pos' => pos' = pos ∧ ∀ d, d' = some d → d.offset + d.len ≤ startPos + boxSize) := by
  unfold extendData
  cases d0 with
  | none => exact Safe.done ⟨rfl, by intro d h; cases h⟩
  | some d =>
    have hdd := hd d rfl
    dsimp only
    apply Safe.bind
    unfold addU64
    have h1 : d.offset + d.len ≤ u64Max := by omega
    simp only [h1, if_true]
    apply Safe.done
    split
    · rename_i he
      apply Safe.bind
      have h2 : d.len + boxSize ≤ u64Max := by omega
      simp only [h2, if_true]
      apply Safe.done
      exact Safe.done ⟨rfl, by intro d' h; cases h; dsimp only; omega⟩
    · exact Safe.done ⟨rfl, by intro d' h; cases h; omega⟩


theorem encodedLen_ge (h : BoxHeader) : 8 ≤ h.encodedLen := by unfold BoxHeader.encodedLen; omega

theorem readData_safe (h : BoxHeader) (L pos : Nat) (hp : pos ≤ s.len) :
    Safe (idealOps s kind) (readData h L) pos (fun b pos' => pos ≤ pos' ∧ pos' ≤ s.len ∧ b.length ≤ L) := by
  unfold readData
  apply Safe.bind
  apply Safe.mono (boxDataSize_safe s kind h pos hp)
  intro n p' ⟨hp', _⟩
  subst hp'
  split
  · apply Safe.readExact
    · intro _; exact Safe.done ⟨Nat.le_refl _, hp, Nat.zero_le _⟩
    · intro _ hl; exact Safe.done ⟨by omega, hl, by rw [read_len]; assumption⟩
  · exact Safe.fail

/-- the metadata kept in the scan state is bounded: ftyp payload ≤ 1024, moov payload ≤ max_metadata_size -/
def Sized (cfg : Config) (st : ScanState) : Prop :=
  (∀ f, st.ftyp = some f → f.data.len ftypSer ≤ maxFtypSize) ∧
  (∀ m, st.moov = some m → m.data.len ser5 ≤ cfg.maxMetadataSize)

/-- skip the box, add header and payload sizes, extend the media span: the FREE/SKIP and META/MECO arms -/
theorem skipExtend_safe (hlen : s.len < u64Lim) (cfg : Config) (st : ScanState) (startPos : Nat) (header : BoxHeader) (pos : Nat)
    (hpos : pos = startPos + header.encodedLen) (hle : pos ≤ s.len) (hok : HdrOk header) (hinv : Inv st startPos)
    (hsz : Sized cfg st) :
    Safe (idealOps s kind)
      (do let n ← skipBox header
          let boxSize ← addU64 "skip_box + encoded_len" n header.encodedLen
          let d ← extendData st.data startPos boxSize
          pure { st with data := d } : P ScanState) pos
      (fun st' pos' => Inv st' pos' ∧ startPos + 8 ≤ pos' ∧ Sized cfg st') := by
  have h8 := encodedLen_ge header
  apply Safe.bind
  apply Safe.mono (skipBox_safe s kind hlen header pos hle)
  intro n p1 ⟨h1, h2, h3⟩
  apply Safe.bind
  have ht := box_total s hlen header startPos pos n hpos hle hok h3
  unfold addU64
  simp only [ht, if_true]
  apply Safe.done
  apply Safe.bind
  have hfit : startPos + (n + header.encodedLen) ≤ u64Max := by unfold u64Max; unfold u64Lim at h2; omega
  apply Safe.mono (extendData_safe s kind st.data startPos (n + header.encodedLen) p1 hinv.2 hfit)
  intro d' p2 ⟨e, hd'⟩
  subst e
  refine Safe.done ⟨⟨h2, ?_⟩, by omega, hsz⟩
  intro d hd
  have := hd' d hd
  omega

theorem applyCum_ok (cfg : Config) (hcum : ∀ t, cfg.cumulativeMdatBoxSize = some t → t ≤ u32Max) (h : BoxHeader)
    (hok : HdrOk h) : HdrOk (applyCum cfg h) ∧ (applyCum cfg h).encodedLen = h.encodedLen := by
  unfold applyCum
  split
  · rename_i t hd hc
    refine ⟨by simp only [HdrOk]; exact hcum t hc, ?_⟩
    -- the size was until-EOF (that is the only way `dataSize` is `ok none`)
    have : h.sz = .untilEof := by
      unfold BoxHeader.dataSize at hd
      cases hs : h.sz with
      | untilEof => rfl
      | size m => simp only [hs, BoxSize.toNat?] at hd; split at hd <;> cases hd
      | ext m => simp only [hs, BoxSize.toNat?] at hd; split at hd <;> cases hd
    simp only [BoxHeader.encodedLen, this]
  · exact ⟨hok, rfl⟩

theorem presR_countOf : PresR (fun a b => a.length = b.length) coSer (fun co => (.ok (co, co.count) : PureRes (Co × Nat))) := by
  intro c c' a h
  simp only [PureRes.ok.injEq, Prod.mk.injEq] at h
  obtain ⟨rfl, _⟩ := h
  exact ⟨rfl, rfl⟩

/-- the validated moov tree serialises to exactly as many bytes as the payload it was read from -/
theorem validateMoov_len (payload : Bytes) (d : Data L5) (n : Nat) (h : validateMoov (.bytes payload) = .ok (d, n)) :
    d.len ser5 = payload.length := by
  unfold validateMoov at h
  simp only [bind] at h
  cases hm : (Data.bytes payload : Data L5).modify parseMoov (forTraks fun co => .ok (co, co.count)) with
  | ok r =>
    obtain ⟨d', counts⟩ := r
    rw [hm] at h
    dsimp only at h
    have hp := (modify_pres congr_len ser5 parseMoov _ rt_moov (forTraks_pres congr_len _ presR_countOf) _ d' counts hm).2
    have hd : d = d' := by
      cases counts with
      | nil => simp only [pure, PureRes.ok.injEq, Prod.mk.injEq] at h; exact h.1.symm
      | cons c cs =>
        dsimp only at h
        cases hs : sumU32 c cs with
        | ok t => rw [hs] at h; simp only [pure, PureRes.ok.injEq, Prod.mk.injEq] at h; exact h.1.symm
        | err e => rw [hs] at h; cases h
        | panic s => rw [hs] at h; cases h
    rw [hd, hp]; rfl
  | err e => rw [hm] at h; cases h
  | panic s => rw [hm] at h; cases h

/-- one iteration after the header: no panic, invariant preserved, at least the header consumed -/
theorem scanBody_safe (hlen : s.len < u64Lim) (cfg : Config)
    (hcum : ∀ t, cfg.cumulativeMdatBoxSize = some t → t ≤ u32Max)
    (hmax : cfg.maxMetadataSize ≤ 4 * u32Max)
    (st : ScanState) (startPos : Nat) (header : BoxHeader) (pos : Nat)
    (hpos : pos = startPos + header.encodedLen) (hle : pos ≤ s.len) (hok : HdrOk header) (hinv : Inv st startPos)
    (hsz : Sized cfg st) :
    Safe (idealOps s kind) (scanBody cfg st startPos header) pos
      (fun st' pos' => Inv st' pos' ∧ startPos + 8 ≤ pos' ∧ Sized cfg st') := by
  have h8 := encodedLen_ge header
  have hposlt : pos < u64Lim := by omega
  unfold scanBody
  dsimp only
  split
  · exact skipExtend_safe s kind hlen cfg st startPos header pos hpos hle hok hinv hsz
  split
  · -- ftyp
    split
    · exact Safe.fail
    · apply Safe.bind
      apply Safe.mono (readData_safe s kind header maxFtypSize pos hle)
      intro payload p1 ⟨ha, hb⟩
      apply Safe.bind
      have hnp : ∀ site, parseFtyp payload ≠ .panic site := by
        intro site; unfold parseFtyp; split; · simp
        split <;> simp
      cases hpf : parseFtyp payload with
      | panic site => exact absurd hpf (hnp site)
      | err e => exact Safe.fail
      | ok f =>
        apply Safe.done
        split
        · refine Safe.done ⟨⟨by omega, fun d hd => by have := hinv.2 d hd; omega⟩, by omega, ?_, hsz.2⟩
          intro f' hf'
          simp only [Option.some.injEq] at hf'
          subst hf'
          -- the parsed ftyp re-serialises to the payload's length
          unfold parseFtyp at hpf
          split at hpf; · cases hpf
          split at hpf; · cases hpf
          simp only [PureRes.ok.injEq] at hpf
          subst hpf
          simp only [Data.len, ftypSer, List.length_drop]
          omega
        · exact Safe.fail
  split
  · exact Safe.fail
  split
  · -- mdat
    obtain ⟨hok', hlen'⟩ := applyCum_ok cfg hcum header hok
    apply Safe.bind
    apply Safe.mono (skipBox_safe s kind hlen (applyCum cfg header) pos hle)
    intro n p1 ⟨h1, h2, h3⟩
    apply Safe.bind
    have ht := box_total s hlen (applyCum cfg header) startPos pos n (by rw [hlen']; exact hpos) hle hok' h3
    unfold addU64
    simp only [ht, if_true]
    apply Safe.done
    rw [hlen']
    cases hdd : st.data with
    | none =>
      dsimp only
      refine Safe.done ⟨⟨h2, ?_⟩, by omega, hsz⟩
      intro d hd; cases hd; dsimp only; omega
    | some d =>
      dsimp only
      have hdl := hinv.2 d hdd
      apply Safe.bind
      have hsp := hinv.1
      have h1' : d.offset + d.len ≤ u64Max := by unfold u64Max; unfold u64Lim at hsp; omega
      simp only [h1', if_true]
      apply Safe.done
      split
      · rename_i he
        apply Safe.bind
        have h2' : d.len + (n + header.encodedLen) ≤ u64Max := by unfold u64Max; unfold u64Lim at h2; omega
        simp only [h2', if_true]
        apply Safe.done
        refine Safe.done ⟨⟨h2, ?_⟩, by omega, hsz⟩
        intro d' hd'; cases hd'; dsimp only; omega
      · exact Safe.fail
  split
  · -- moov
    apply Safe.bind
    apply Safe.mono (readData_safe s kind header cfg.maxMetadataSize pos hle)
    intro payload p1 ⟨ha, hb⟩
    apply Safe.bind
    cases hvm : validateMoov (.bytes payload) with
    | panic site => exact absurd hvm (validateMoov_np payload (by omega) site)
    | err e => exact Safe.fail
    | ok r =>
      apply Safe.done
      refine Safe.done ⟨⟨by omega, fun d hd => by have := hinv.2 d hd; omega⟩, by omega, hsz.1, ?_⟩
      intro m hm
      simp only [Option.some.injEq] at hm
      subst hm
      have := validateMoov_len payload r.1 r.2 (by rw [hvm])
      dsimp only
      omega
  split
  · exact skipExtend_safe s kind hlen cfg st startPos header pos hpos hle hok hinv hsz
  · -- unknown box: skipped, then rejected
    apply Safe.bind
    apply Safe.mono (skipBox_safe s kind hlen header pos hle)
    intro n p1 ⟨h1, h2, h3⟩
    apply Safe.bind
    have ht := box_total s hlen header startPos pos n hpos hle hok h3
    unfold addU64
    simp only [ht, if_true]
    apply Safe.done
    exact Safe.fail


theorem scanBox_safe (hlen : s.len < u64Lim) (cfg : Config)
    (hcum : ∀ t, cfg.cumulativeMdatBoxSize = some t → t ≤ u32Max) (hmax : cfg.maxMetadataSize ≤ 4 * u32Max)
    (st : ScanState) (pos : Nat) (hinv : Inv st pos) (hsz : Sized cfg st) :
    Safe (idealOps s kind) (scanBox cfg st) pos (fun st' pos' => Inv st' pos' ∧ pos + 8 ≤ pos' ∧ Sized cfg st') := by
  unfold scanBox
  apply Safe.position
  apply Safe.bind
  apply Safe.mono (readHeader_safe s kind pos)
  intro header p1 ⟨h1, h2, h3⟩
  exact scanBody_safe s kind hlen cfg hcum hmax st pos header p1 h1 h2 h3 hinv hsz

/-- the loop: with enough fuel for one iteration per 8 bytes it ends with a state, never out of fuel, never a panic -/
theorem scan_safe (hlen : s.len < u64Lim) (cfg : Config)
    (hcum : ∀ t, cfg.cumulativeMdatBoxSize = some t → t ≤ u32Max) (hmax : cfg.maxMetadataSize ≤ 4 * u32Max)
    (fuel : Nat) (st : ScanState) (pos : Nat) (hinv : Inv st pos) (hsz : Sized cfg st)
    (hf1 : 1 ≤ fuel) (hf2 : s.len + 8 ≤ pos + 8 * fuel) :
    Safe (idealOps s kind) (scan cfg fuel st) pos
      (fun r pos' => ∃ st', r = some st' ∧ Inv st' pos' ∧ Sized cfg st') := by
  induction fuel generalizing st pos with
  | zero => omega
  | succ n ih =>
    unfold scan
    apply Safe.isEof
    by_cases he : s.len ≤ pos
    · simp only [he, decide_true, if_true]
      exact Safe.done ⟨st, rfl, hinv, hsz⟩
    · simp only [he, decide_false, Bool.false_eq_true, if_false]
      apply Safe.bind
      apply Safe.mono (scanBox_safe s kind hlen cfg hcum hmax st pos hinv hsz)
      intro st' p' ⟨h1, h2, h3⟩
      exact ih st' p' h1 h3 (by omega) (by omega)

theorem encodedLen_le (h : BoxHeader) : h.encodedLen ≤ 32 := by
  unfold BoxHeader.encodedLen; cases h.sz <;> cases h.ty <;> simp

/-- everything after the loop is pure and cannot panic when the kept metadata is bounded -/
theorem finish_np (cfg : Config) (hmax : cfg.maxMetadataSize ≤ 4 * u32Max) (st : ScanState) (hsz : Sized cfg st) :
    NP (finish st) := by
  unfold finish
  cases hf : st.ftyp with
  | none => exact NP.err _
  | some ftyp =>
    dsimp only
    cases hm : st.moov with
    | none => exact NP.err _
    | some moov =>
      cases hmo : st.moovOffset with
      | none => exact NP.err _
      | some mo =>
        cases hd : st.data with
        | none => exact NP.err _
        | some data =>
          dsimp only
          split
          · exact NP.ok _
          · split
            · exact NP.err _
            · exact NP.err _
            · rename_i fh mh _ _
              have h1 := hsz.1 ftyp hf
              have h2 := hsz.2 moov hm
              have e1 := encodedLen_le (Box.calcHeader ftypSer ⟨fh, ftyp.data⟩)
              have e2 := encodedLen_le (Box.calcHeader ser5 ⟨mh, moov.data⟩)
              have hml : ¬ (Box.len ftypSer ⟨fh, ftyp.data⟩ + Box.len ser5 ⟨mh, moov.data⟩ > u64Max) := by
                simp only [Box.len]
                unfold maxFtypSize at h1; unfold u32Max at hmax; unfold u64Max
                omega
              simp only [hml, if_false]
              split
              · exact NP.err _
              · exact NP.ok _
              · have := displaceMoov_np ‹Int› moov.data
                revert this
                generalize displaceMoov _ moov.data = r
                intro this
                cases r with
                | ok d => exact NP.ok _
                | err e => exact NP.err _
                | panic s => exact absurd rfl (this s)

theorem checkEnd_safe (pos : Nat) : Safe (idealOps s kind) checkEnd pos (fun _ _ => True) := by
  unfold checkEnd
  apply Safe.position
  apply Safe.streamLen
  split
  · exact Safe.done trivial
  · exact Safe.fail

/-- the whole sanitizer program on the ideal cursor: a value, a parse error or an I/O error — never a panic, never
    out of fuel -/
theorem sanitizeP_safe (hlen : s.len < u64Lim) (cfg : Config)
    (hcum : ∀ t, cfg.cumulativeMdatBoxSize = some t → t ≤ u32Max) (hmax : cfg.maxMetadataSize ≤ 4 * u32Max) :
    Safe (idealOps s kind) (sanitizeP cfg (fuelFor s)) 0 (fun r _ => r ≠ none) := by
  unfold sanitizeP
  apply Safe.bind
  have h0 : Inv ({} : ScanState) 0 := ⟨(by decide), fun d h => (by cases h)⟩
  have hs0 : Sized cfg ({} : ScanState) := ⟨fun f h => (by cases h), fun m h => (by cases h)⟩
  apply Safe.mono (scan_safe s kind hlen cfg hcum hmax (fuelFor s) {} 0 h0 hs0 (by unfold fuelFor; omega)
    (by unfold fuelFor; omega))
  intro r p ⟨st', hr, hinv, hsz⟩
  subst hr
  dsimp only
  apply Safe.bind
  apply Safe.mono (checkEnd_safe s kind p)
  intro _ p2 _
  apply Safe.bind
  have := finish_np cfg hmax st' hsz
  cases hfin : finish st' with
  | ok r => exact Safe.done (Safe.done (by simp))
  | err e => exact Safe.fail
  | panic site => exact absurd hfin (this site)


theorem finish_data (st : ScanState) (r : Sanitized) (h : finish st = .ok r) : st.data = some r.data := by
  unfold finish at h
  cases hf : st.ftyp with
  | none => rw [hf] at h; cases h
  | some ftyp =>
    rw [hf] at h; dsimp only at h
    cases hm : st.moov with
    | none => rw [hm] at h; cases h
    | some moov =>
      rw [hm] at h
      cases hmo : st.moovOffset with
      | none => rw [hmo] at h; cases h
      | some mo =>
        rw [hmo] at h; dsimp only at h
        cases hd : st.data with
        | none => rw [hd] at h; cases h
        | some data =>
          rw [hd] at h; dsimp only at h
          split at h
          · simp only [PureRes.ok.injEq] at h; rw [← h]
          · split at h
            · cases h
            · cases h
            · split at h
              · cases h
              · split at h
                · cases h
                · simp only [PureRes.ok.injEq] at h; rw [← h]
                · split at h
                  · simp only [PureRes.ok.injEq] at h; rw [← h]
                  · cases h
                  · cases h

theorem checkEnd_safe' (pos : Nat) : Safe (idealOps s kind) checkEnd pos (fun _ p => p = pos ∧ pos ≤ s.len) := by
  unfold checkEnd
  apply Safe.position
  apply Safe.streamLen
  split
  · rename_i h; exact Safe.done ⟨rfl, h⟩
  · exact Safe.fail

/-- C03: whatever is returned, the media span lies inside the input -/
theorem sanitizeP_span (hlen : s.len < u64Lim) (cfg : Config)
    (hcum : ∀ t, cfg.cumulativeMdatBoxSize = some t → t ≤ u32Max) (hmax : cfg.maxMetadataSize ≤ 4 * u32Max) :
    Safe (idealOps s kind) (sanitizeP cfg (fuelFor s)) 0
      (fun r _ => ∀ x, r = some x → x.data.offset + x.data.len ≤ s.len) := by
  unfold sanitizeP
  apply Safe.bind
  have h0 : Inv ({} : ScanState) 0 := ⟨(by decide), fun d h => (by cases h)⟩
  have hs0 : Sized cfg ({} : ScanState) := ⟨fun f h => (by cases h), fun m h => (by cases h)⟩
  apply Safe.mono (scan_safe s kind hlen cfg hcum hmax (fuelFor s) {} 0 h0 hs0 (by unfold fuelFor; omega)
    (by unfold fuelFor; omega))
  intro r p ⟨st', hr, hinv, hsz⟩
  subst hr
  dsimp only
  apply Safe.bind
  apply Safe.mono (checkEnd_safe' s kind p)
  intro _ p2 ⟨hp2, hple⟩
  apply Safe.bind
  have := finish_np cfg hmax st' hsz
  cases hfin : finish st' with
  | ok r =>
    refine Safe.done (Safe.done ?_)
    intro x hx
    simp only [Option.some.injEq] at hx
    subst hx
    have := hinv.2 r.data (finish_data st' r hfin)
    omega
  | err e => exact Safe.fail
  | panic site => exact absurd hfin (this site)

end
end MediaSan.Mp4
