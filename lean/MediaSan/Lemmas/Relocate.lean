/-
  C01 / C04 for every input: the moov payload inside the returned metadata is the payload of the LAST moov the
  independent walker finds in the input, with the entries of exactly the tables the walker finds in it (`moovTables`)
  replaced by the same entries shifted by |metadata| − span.offset, and nothing else changed.
-/
import MediaSan.Lemmas.Splice
import MediaSan.Lemmas.Fusion
import MediaSan.Lemmas.KeepRel
import MediaSan.Lemmas.Mp4Displace
namespace MediaSan.Mp4
open MediaSan MediaSan.Spec.Mp4Walk MediaSan.Spec.Mp4Rules

theorem keepsShape_count : KeepsShape (fun co => (.ok (co, co.count) : PureRes (Co × Nat))) := by
  intro c c' a h
  simp only [PureRes.ok.injEq, Prod.mk.injEq] at h
  obtain ⟨rfl, _⟩ := h
  exact ⟨rfl, rfl, rfl⟩

theorem keepsShape_displace (disp : Int) : KeepsShape (displaceCo disp) := by
  intro c c' a h
  unfold displaceCo at h
  cases he : displaceEntries c.width disp c.entries.length c.entries with
  | ok e =>
    rw [he] at h
    simp only [PureRes.ok.injEq, Prod.mk.injEq] at h
    obtain ⟨rfl, _⟩ := h
    exact ⟨rfl, rfl, displaceEntries_length _ _ _ _ _ he⟩
  | err e => rw [he] at h; cases h
  | panic m => rw [he] at h; cases h

section
variable (s : Stream)

/-- the widths the walker assigns -/
theorem tableOf_shape (b : TopBox) (w : Nat) (r : Region) (h : tableOf s b w = some r) : r.width = w := by
  unfold tableOf at h
  split at h; · cases h
  split at h; · cases h
  dsimp only at h
  split at h
  · cases h
  · simp only [Option.some.injEq] at h; rw [← h]

theorem trakTable_width (t : TopBox) (r : Region) (h : trakTable s t = some r) : r.width = 4 ∨ r.width = 8 := by
  unfold trakTable at h
  simp only [Option.bind_eq_bind] at h
  cases h1 : children s t with
  | none => rw [h1] at h; cases h
  | some c1 =>
    rw [h1] at h; simp only [Option.bind_some] at h
    cases h2 : only (cc 'm' 'd' 'i' 'a') c1 with
    | none => rw [h2] at h; cases h
    | some mdia =>
      rw [h2] at h; simp only [Option.bind_some] at h
      cases h3 : children s mdia with
      | none => rw [h3] at h; cases h
      | some c2 =>
        rw [h3] at h; simp only [Option.bind_some] at h
        cases h4 : only (cc 'm' 'i' 'n' 'f') c2 with
        | none => rw [h4] at h; cases h
        | some minf =>
          rw [h4] at h; simp only [Option.bind_some] at h
          cases h5 : children s minf with
          | none => rw [h5] at h; cases h
          | some c3 =>
            rw [h5] at h; simp only [Option.bind_some] at h
            cases h6 : only (cc 's' 't' 'b' 'l') c3 with
            | none => rw [h6] at h; cases h
            | some stbl =>
              rw [h6] at h; simp only [Option.bind_some] at h
              cases h7 : children s stbl with
              | none => rw [h7] at h; cases h
              | some c4 =>
                rw [h7] at h; simp only [Option.bind_some] at h
                split at h
                · exact Or.inl (tableOf_shape s _ 4 r h)
                · exact Or.inr (tableOf_shape s _ 8 r h)
                · cases h

theorem mapM_mem {α β : Type} (g : α → Option β) (l : List α) (rs : List β) (h : l.mapM g = some rs) (r : β)
    (hr : r ∈ rs) : ∃ a ∈ l, g a = some r := by
  induction l generalizing rs with
  | nil => simp only [List.mapM_nil, pure, Option.some.injEq] at h; subst h; cases hr
  | cons a l ih =>
    rw [List.mapM_cons] at h
    cases hg : g a with
    | none => rw [hg] at h; cases h
    | some b =>
      rw [hg] at h
      simp only [Option.bind_eq_bind, Option.bind_some] at h
      cases hm : l.mapM g with
      | none => rw [hm] at h; cases h
      | some bs =>
        rw [hm] at h
        simp only [Option.bind_some, pure, Option.some.injEq] at h
        subst h
        rcases List.mem_cons.mp hr with e | e
        · exact ⟨a, by simp, by rw [hg, e]⟩
        · obtain ⟨a', m1, m2⟩ := ih bs hm e
          exact ⟨a', by simp [m1], m2⟩

theorem moovTables_width (m : TopBox) (rs : List Region) (h : moovTables s m = some rs) (r : Region) (hr : r ∈ rs) :
    r.width = 4 ∨ r.width = 8 := by
  unfold moovTables at h
  simp only [Option.bind_eq_bind] at h
  cases h1 : children s m with
  | none => rw [h1] at h; cases h
  | some cs =>
    rw [h1] at h; simp only [Option.bind_some] at h
    split at h
    · cases h
    · obtain ⟨t, _, ht⟩ := mapM_mem (trakTable s) _ rs h r hr
      exact trakTable_width s t r ht

end
end MediaSan.Mp4
