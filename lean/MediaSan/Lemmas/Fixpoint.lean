/-
  C02, the fixpoint half: the returned metadata followed by the bytes of the returned media span is a file the
  sanitizer accepts with "nothing to do" and the span {|metadata|, len}.
-/
import MediaSan.Lemmas.SanTot
import MediaSan.Lemmas.SpecHolds
namespace MediaSan.Mp4
open MediaSan MediaSan.Spec.Mp4Walk MediaSan.Spec.Mp4Rules

section
variable (s s' : Stream)

/-! ### chains: splitting, joining, moving (with the mdat size override in play) -/

theorem chain_append (lim : Nat) (ovr : Option Nat) (l1 l2 : List TopBox) (off mid pos : Nat)
    (h1 : Chain s lim ovr off mid l1) (h2 : Chain s lim ovr mid pos l2) : Chain s lim ovr off pos (l1 ++ l2) := by
  induction l1 generalizing off with
  | nil => have : off = mid := h1; subst this; exact h2
  | cons b rest ih =>
    obtain ⟨k1, k2, k3, k4⟩ := h1
    exact ⟨k1, k2, k3, ih b.endOff k4⟩

theorem chain_split (lim : Nat) (ovr : Option Nat) (l1 l2 : List TopBox) (off pos : Nat)
    (h : Chain s lim ovr off pos (l1 ++ l2)) :
    Chain s lim ovr off (runEnd off l1) l1 ∧ Chain s lim ovr (runEnd off l1) pos l2 := by
  induction l1 generalizing off with
  | nil => exact ⟨rfl, h⟩
  | cons b rest ih =>
    obtain ⟨k1, k2, k3, k4⟩ := h
    obtain ⟨i1, i2⟩ := ih b.endOff k4
    rw [runEnd_cons]
    exact ⟨⟨k1, k2, k3, i1⟩, i2⟩

/-- the walker's reading of a header, moved: sized boxes move with their offset, a box that runs to the end of the
    region ends where the moved region ends -/
theorem specHdr_move (a a' off lim lim' : Nat) (ovr : Option Nat) (h : BoxHeader) (b : TopBox) (ha : a ≤ off)
    (hsp : specHdr off lim ovr h = .ok b) (hl : b.sized = false → lim' = mv a a' lim) (hle : off ≤ lim) :
    specHdr (mv a a' off) lim' ovr h = .ok (moveBox a a' b) := by
  unfold specHdr at hsp ⊢
  cases hs : h.sz with
  | ext n =>
    rw [hs] at hsp; dsimp only at hsp ⊢
    split at hsp
    · cases hsp
    · rename_i hn
      simp only [Hdr.ok.injEq] at hsp
      subst hsp
      simp only [hn, if_false, moveBox, mv_add a a' off n ha]
  | size n =>
    rw [hs] at hsp; dsimp only at hsp ⊢
    split at hsp
    · cases hsp
    · rename_i hn
      simp only [Hdr.ok.injEq] at hsp
      subst hsp
      simp only [hn, if_false, moveBox, mv_add a a' off n ha]
  | untilEof =>
    rw [hs] at hsp; dsimp only at hsp ⊢
    split at hsp
    · rename_i t hd
      split at hsp
      · cases hsp
      · rename_i ht
        simp only [Hdr.ok.injEq] at hsp
        subst hsp
        simp only [ht, if_false, moveBox, mv_add a a' off t ha]
    · simp only [Hdr.ok.injEq] at hsp
      subst hsp
      have := hl rfl
      simp only [moveBox, this]


/-- a header the walker accepts is one `BoxHeader::read` returns: the model's header for it -/
theorem header_of_walker (off : Nat) (ovr : Option Nat) (b : TopBox) (hb : headerAt s off s.len ovr = .ok b) :
    ∃ hd, HdrAt s off hd ∧ off + hd.encodedLen ≤ s.len ∧ specHdr off s.len ovr hd = .ok b := by
  obtain ⟨a1, a2, a3⟩ := headerAt_avail s off s.len ovr b hb
  obtain ⟨hd, p', _, h1, h2, h3⟩ := readHeader_tot s .seekable off a1 a2 a3
  subst h1
  have h8 := encodedLen_ge8 hd
  have := headerAt_of s off s.len ovr hd h3 h2
  rw [this] at hb
  exact ⟨hd, h3, h2, hb⟩

/-- the header of a walker box lies inside the box -/
theorem spec_header_inside (off lim : Nat) (ovr : Option Nat) (hd : BoxHeader) (b : TopBox) (hh : HdrAt s off hd)
    (hsp : specHdr off lim ovr hd = .ok b) (hfit : off + hd.encodedLen ≤ lim) : off + hd.encodedLen ≤ b.endOff := by
  unfold specHdr at hsp
  cases hs : hd.sz with
  | ext n => rw [hs] at hsp; dsimp only at hsp; split at hsp; cases hsp; simp only [Hdr.ok.injEq] at hsp; subst hsp; dsimp only; omega
  | size n => rw [hs] at hsp; dsimp only at hsp; split at hsp; cases hsp; simp only [Hdr.ok.injEq] at hsp; subst hsp; dsimp only; omega
  | untilEof =>
    rw [hs] at hsp; dsimp only at hsp
    cases ovr with
    | none => simp only [Hdr.ok.injEq] at hsp; subst hsp; exact hfit
    | some t =>
      by_cases hnm : name4 hd = mdatN
      · have hdec : decide (name4 hd = mdatN) = true := by simp [hnm]
        rw [hdec] at hsp
        dsimp only at hsp
        -- the override applies to `mdat` only: an 8-byte header
        have hel : hd.encodedLen = 8 := by
          obtain ⟨_, hu, _⟩ := hh
          unfold name4 at hnm
          cases hty : hd.ty with
          | fourcc x => simp only [BoxHeader.encodedLen, hs, hty]
          | uuid u => rw [hty] at hnm; simp only at hnm; exact absurd hnm (by decide)
        split at hsp
        · cases hsp
        · simp only [Hdr.ok.injEq] at hsp; subst hsp; dsimp only; omega
      · have hdec : decide (name4 hd = mdatN) = false := by simp [hnm]
        rw [hdec] at hsp
        simp only [Hdr.ok.injEq] at hsp; subst hsp; exact hfit

theorem hdrAt_transfer (off off' : Nat) (hd : BoxHeader) (hh : HdrAt s off hd)
    (hag : ∀ i, i < hd.encodedLen → s'.get (off' + i) = s.get (off + i)) : HdrAt s' off' hd := by
  have h8 := encodedLen_ge8 hd
  obtain ⟨h1, h2, h3⟩ := hh
  have r4 : s'.read off' 4 = s.read off 4 := read_eq_of_get s s' off off' 4 (fun i hi => hag i (by omega))
  have n4 : s'.read (off' + 4) 4 = s.read (off + 4) 4 := read_eq_of_get s s' (off + 4) (off' + 4) 4 (fun i hi => by
    have := hag (4 + i) (by omega); rw [Nat.add_assoc, Nat.add_assoc]; exact this)
  refine ⟨by rw [n4]; exact h1, h2, ?_⟩
  cases hs : hd.sz with
  | untilEof => rw [hs] at h3; dsimp only at h3 ⊢; rw [r4]; exact h3
  | size n => rw [hs] at h3; dsimp only at h3 ⊢; rw [r4]; exact h3
  | ext n =>
    rw [hs] at h3; dsimp only at h3 ⊢
    have h16 : 16 ≤ hd.encodedLen := by simp only [BoxHeader.encodedLen, hs]; omega
    have e8 : s'.read (off' + 8) 8 = s.read (off + 8) 8 := read_eq_of_get s s' (off + 8) (off' + 8) 8 (fun i hi => by
      have := hag (8 + i) (by omega); rw [Nat.add_assoc, Nat.add_assoc]; exact this)
    rw [r4, e8]; exact h3

/-- one box of a region, found again in the moved region (the mdat size override may be in play) -/
theorem box_move_ovr (a a' : Nat) (ovr : Option Nat) (off E : Nat) (b : TopBox) (ha : a ≤ off)
    (hb : headerAt s off s.len ovr = .ok b) (hE1 : b.endOff ≤ E) (hun : b.sized = false → E = s.len)
    (hlen' : s'.len = mv a a' E) (hag : ∀ p, off ≤ p → p < b.endOff → s'.get (mv a a' p) = s.get p) :
    headerAt s' (mv a a' off) s'.len ovr = .ok (moveBox a a' b) := by
  obtain ⟨hd, hh, hfit, hsp⟩ := header_of_walker s off ovr b hb
  have hin := spec_header_inside s off s.len ovr hd b hh hsp hfit
  have hh' : HdrAt s' (mv a a' off) hd := by
    apply hdrAt_transfer s s' off _ hd hh
    intro i hi
    rw [← mv_add a a' off i ha]
    exact hag (off + i) (by omega) (by omega)
  have hfit' : mv a a' off + hd.encodedLen ≤ s'.len := by rw [hlen']; unfold mv; omega
  rw [headerAt_of s' (mv a a' off) s'.len ovr hd hh' hfit']
  apply specHdr_move a a' off s.len s'.len ovr hd b ha hsp _ (by omega)
  intro hu
  rw [hlen', hun hu]

/-- a chain of boxes inside [·, E) of `s`, found again in the moved region of `s'` that ends with `s'` -/
theorem chain_move_ovr (a a' : Nat) (ovr : Option Nat) (E : Nat) (hE : E ≤ s.len) (hlen' : s'.len = mv a a' E)
    (bs : List TopBox) (lo : Nat) (ha : a ≤ lo) (hch : Chain s s.len ovr lo E bs)
    (hun : ∀ b ∈ bs, b.sized = false → E = s.len)
    (hag : ∀ p, lo ≤ p → p < E → s'.get (mv a a' p) = s.get p) :
    Chain s' s'.len ovr (mv a a' lo) (mv a a' E) (bs.map (moveBox a a')) := by
  induction bs generalizing lo with
  | nil => have : lo = E := hch; subst this; rfl
  | cons b rest ih =>
    obtain ⟨k1, k2, k3, k4⟩ := hch
    have hle := Chain.le s k4
    have hb' := box_move_ovr s s' a a' ovr lo E b ha k1 hle (hun b (by simp)) hlen'
      (fun p h1 h2 => hag p h1 (by omega))
    have e : mv a a' b.endOff = mv a a' lo + (b.endOff - lo) := by unfold mv; omega
    refine ⟨hb', by simp only [moveBox, k2], ?_, ?_⟩
    · simp only [moveBox]; rw [e]; omega
    · exact ih b.endOff (by omega) k4 (fun x hx => hun x (by simp [hx])) (fun p h1 h2 => hag p (by omega) h2)


end

/-! ### the metadata in front of other bytes -/

theorem header_box_ovr (ovr : Option Nat) (x z payload : Bytes) (h : BoxHeader) (hw : h.WF)
    (hd : h.dataSize = .ok (some payload.length)) :
    headerAt (Stream.ofBytes (x ++ encodeHeader h ++ payload ++ z)) x.length (x ++ encodeHeader h ++ payload ++ z).length ovr
      = .ok ⟨x.length, h.encodedLen, name4 h, x.length + h.encodedLen + payload.length, true⟩ := by
  have hl := encodeHeader_length h hw
  have hh : HdrAt (Stream.ofBytes (x ++ encodeHeader h ++ payload ++ z)) x.length h := by
    have := hdrAt_encode x (payload ++ z) h hw
    simpa [List.append_assoc] using this
  rw [headerAt_of _ _ _ _ h hh (by simp [hl])]
  exact spec_sized x.length _ ovr h payload.length hd

theorem chain_ser_ovr (ovr : Option Nat) (l : List (BoxHeader × Bytes)) (x z : Bytes)
    (hall : ∀ hp ∈ l, hp.1.WF ∧ hp.1.dataSize = .ok (some hp.2.length)) :
    Chain (Stream.ofBytes (x ++ serBoxes l ++ z)) (x ++ serBoxes l ++ z).length ovr x.length
      (x.length + (serBoxes l).length) (descr x.length l) := by
  induction l generalizing x with
  | nil => simp [serBoxes, descr, Chain]
  | cons hp r ih =>
    obtain ⟨h, p⟩ := hp
    obtain ⟨hw, hd⟩ := hall (h, p) (by simp)
    have hl := encodeHeader_length h hw
    have e : x ++ serBoxes ((h, p) :: r) ++ z = (x ++ encodeHeader h ++ p) ++ serBoxes r ++ z := by
      simp [serBoxes, List.append_assoc]
    have e2 : x ++ serBoxes ((h, p) :: r) ++ z = x ++ encodeHeader h ++ p ++ (serBoxes r ++ z) := by
      simp [serBoxes, List.append_assoc]
    have ih' := ih (x ++ encodeHeader h ++ p) (fun hp hm => hall hp (by simp [hm]))
    have hlen : (x ++ encodeHeader h ++ p).length = x.length + h.encodedLen + p.length := by simp [hl]; omega
    have hser : (serBoxes ((h, p) :: r)).length = h.encodedLen + p.length + (serBoxes r).length := by
      simp [serBoxes, hl]; omega
    refine ⟨?_, rfl, ?_, ?_⟩
    · rw [e2]; exact header_box_ovr ovr x (serBoxes r ++ z) p h hw hd
    · have := encodedLen_ge8 h; dsimp only; omega
    · dsimp only
      rw [e, hser]
      rw [hlen] at ih'
      have : x.length + (h.encodedLen + p.length + (serBoxes r).length) = x.length + h.encodedLen + p.length + (serBoxes r).length := by omega
      rw [this]
      exact ih'


/-! ### the state machines over "metadata, then media" -/

theorem foldTop_run (t : TopSt) (l : List TopBox) (ht : t.ftyp = true) (hr : ∀ b ∈ l, isR b = true) : foldTop t l = some t := by
  induction l with
  | nil => rfl
  | cons b rest ih =>
    have hb := hr b (by simp)
    simp only [isR, decide_eq_true_eq] at hb
    have : topStep t b = some t := by
      rcases hb with h | h | h | h | h
      · exact topStep_media t b ht (Or.inl h)
      · exact topStep_lead t b (Or.inl h)
      · exact topStep_lead t b (Or.inr h)
      · exact topStep_media t b ht (Or.inr (Or.inl h))
      · exact topStep_media t b ht (Or.inr (Or.inr h))
    simp only [foldTop, this]
    exact ih (fun x hx => hr x (by simp [hx]))

theorem foldSpan_run_all (l : List TopBox) (off : Nat) (d : Span) (hg : Geo off l) (hr : ∀ b ∈ l, isR b = true)
    (hc : d.offset + d.len = off) :
    foldSpan (some d) l = some (some ⟨d.offset, runEnd off l - d.offset⟩) := by
  induction l generalizing off d with
  | nil => simp only [foldSpan, runEnd]; congr 2; cases d; simp at hc ⊢; omega
  | cons b rest ih =>
    obtain ⟨g1, g2, g3⟩ := hg
    have hb := hr b (by simp)
    simp only [foldSpan, spanStep_run d b hb (by omega)]
    rw [ih b.endOff ⟨d.offset, d.len + (b.endOff - b.offset)⟩ g3 (fun x hx => hr x (by simp [hx])) (by dsimp only; omega)]
    rw [runEnd_cons]

theorem isR_move (a a' : Nat) (b : TopBox) : isR (moveBox a a' b) = isR b := rfl

/-- the specification's ftyp test reads the payload only -/
theorem ftypOk_congr (s s' : Stream) (b b' : TopBox) (hl : b'.payloadLen = b.payloadLen)
    (hag : ∀ i, i < b.payloadLen → s'.get (b'.payloadOff + i) = s.get (b.payloadOff + i)) : ftypOk s' b' = ftypOk s b := by
  unfold ftypOk brands
  rw [hl]
  congr 2
  apply propext
  have hmap : (List.range ((b.payloadLen - 8) / 4)).map (fun i => s'.read (b'.payloadOff + 8 + 4 * i) 4) =
      (List.range ((b.payloadLen - 8) / 4)).map (fun i => s.read (b.payloadOff + 8 + 4 * i) 4) := by
    apply List.map_congr_left
    intro i hi
    simp only [List.mem_range] at hi
    apply read_eq_of_get
    intro j hj
    have := hag (8 + 4 * i + j) (by omega)
    rw [show b'.payloadOff + 8 + 4 * i + j = b'.payloadOff + (8 + 4 * i + j) by omega,
      show b.payloadOff + 8 + 4 * i + j = b.payloadOff + (8 + 4 * i + j) by omega]
    exact this
  rw [hmap]


section
variable (s : Stream) (kind : SkipKind)

/-- what an accepted input looks like to the walker and to the two state machines -/
theorem sanitizeP_chain (cfg : Config) (fuel : Nat) :
    Tri (idealOps s kind) (sanitizeP cfg fuel) 0
      (fun o _ => ∀ r, o = some r →
        ∃ bs mo, Chain s s.len cfg.cumulativeMdatBoxSize 0 s.len bs ∧ foldSpan none bs = some (some r.data) ∧
          foldTop ⟨false, none⟩ bs = some ⟨true, some mo⟩ ∧ (∀ b ∈ bs, BoxSide s cfg b)) := by
  unfold sanitizeP
  apply Tri.bind
  apply Tri.mono (scan_rel2 s kind cfg fuel {} 0)
  intro o p1 ho
  cases o with
  | none => exact Tri.done (by intro r h; cases h)
  | some st =>
    obtain ⟨bs, hc, hf, hft, hsd, hl⟩ := ho st rfl
    dsimp only
    apply Tri.bind
    apply Tri.mono (checkEnd_rel s kind p1)
    intro _ p2 ⟨hp2, hle⟩
    apply Tri.bind
    cases hfin : finish st with
    | panic site => exact Tri.panic
    | err e => exact Tri.fail
    | ok r =>
      apply Tri.done
      apply Tri.done
      intro r' hr'
      simp only [Option.some.injEq] at hr'
      subst hr'
      have hp : p1 = s.len := by omega
      subst hp
      obtain ⟨hfs, mo, hmo, hd, hmeta⟩ := finish_parts st r hfin
      refine ⟨bs, mo, hc, ?_, ?_, hsd⟩
      · have : ({} : ScanState).data = none := rfl
        rw [this] at hf; rw [hf, hd]
      · have e1 : topOf ({} : ScanState) = ⟨false, none⟩ := rfl
        have e2 : topOf st = ⟨true, some mo⟩ := by unfold topOf; rw [hfs, hmo]
        rw [e1, e2] at hft; exact hft

theorem sanitize_chain (cfg : Config) (r : Sanitized) (h : Mp4.sanitize s kind cfg = .ok r) :
    ∃ bs mo, Chain s s.len cfg.cumulativeMdatBoxSize 0 s.len bs ∧ foldSpan none bs = some (some r.data) ∧
      foldTop ⟨false, none⟩ bs = some ⟨true, some mo⟩ ∧ (∀ b ∈ bs, BoxSide s cfg b) := by
  have hs := sanitizeP_chain s kind cfg (fuelFor s)
  unfold Tri at hs
  simp only [Mp4.sanitize, Mp4.sanitizeWith, run_eq_runF] at h
  cases hr : (sanitizeP cfg (fuelFor s)).runF (idealOps s kind) 0 with
  | ok x =>
    obtain ⟨a, p⟩ := x
    rw [hr] at hs h
    cases a with
    | none => simp [Outcome.fst] at h
    | some r' =>
      simp only [Outcome.fst, Outcome.ok.injEq] at h
      subst h
      exact hs r' rfl
  | parseErr e => rw [hr] at h; simp [Outcome.fst] at h
  | ioErr k => rw [hr] at h; simp [Outcome.fst] at h
  | panic site => rw [hr] at h; simp [Outcome.fst] at h
  | outOfFuel => rw [hr] at h; simp [Outcome.fst] at h

theorem headerAt_unsized (off lim : Nat) (ovr : Option Nat) (b : TopBox) (h : headerAt s off lim ovr = .ok b)
    (hu : b.sized = false) : b.endOff = lim := by
  unfold headerAt at h
  split at h
  · cases h
  dsimp only at h
  generalize (if s.read (off + 4) 4 = [0x75, 0x75, 0x69, 0x64] then 16 else 0) = u at h
  split at h
  · split at h
    · cases h
    · split at h
      · cases h
      · simp only [Hdr.ok.injEq] at h; subst h; cases hu
  · split at h
    · cases h
    · split at h
      · split at h
        · split at h
          · cases h
          · simp only [Hdr.ok.injEq] at h; subst h; cases hu
        · simp only [Hdr.ok.injEq] at h; subst h; rfl
      · split at h
        · cases h
        · simp only [Hdr.ok.injEq] at h; subst h; cases hu

theorem foldTop_append (t : TopSt) (l1 l2 : List TopBox) :
    foldTop t (l1 ++ l2) = (foldTop t l1).bind (fun t' => foldTop t' l2) := by
  induction l1 generalizing t with
  | nil => rfl
  | cons b rest ih =>
    simp only [List.cons_append, foldTop]
    cases topStep t b with
    | none => rfl
    | some t' => exact ih t'

theorem foldSpan_append (d : Option Span) (l1 l2 : List TopBox) :
    foldSpan d (l1 ++ l2) = (foldSpan d l1).bind (fun d' => foldSpan d' l2) := by
  induction l1 generalizing d with
  | nil => rfl
  | cons b rest ih =>
    simp only [List.cons_append, foldSpan]
    cases spanStep d b with
    | none => rfl
    | some d' => exact ih d'


theorem mem_takeWhile_p {α : Type} (p : α → Bool) (l : List α) (x : α) (h : x ∈ l.takeWhile p) : p x = true := by
  induction l with
  | nil => cases h
  | cons y ys ih =>
    by_cases hy : p y = true
    · rw [List.takeWhile_cons_of_pos hy] at h
      rcases List.mem_cons.mp h with e | e
      · rw [e]; exact hy
      · exact ih e
    · rw [List.takeWhile_cons_of_neg hy] at h; cases h

theorem chain_runEnd (lim : Nat) (ovr : Option Nat) (l : List TopBox) (off pos : Nat) (h : Chain s lim ovr off pos l) :
    runEnd off l = pos := by
  induction l generalizing off with
  | nil => exact h
  | cons b rest ih =>
    obtain ⟨_, _, _, k4⟩ := h
    rw [runEnd_cons]; exact ih b.endOff k4

theorem chain_mem_header (lim : Nat) (ovr : Option Nat) (l : List TopBox) (off pos : Nat) (h : Chain s lim ovr off pos l) :
    ∀ x ∈ l, headerAt s x.offset lim ovr = .ok x := by
  induction l generalizing off with
  | nil => intro x hx; cases hx
  | cons b rest ih =>
    obtain ⟨k1, k2, _, k4⟩ := h
    intro x hx
    rcases List.mem_cons.mp hx with e | e
    · rw [e, k2]; exact k1
    · exact ih b.endOff k4 x e

theorem getD_append_right' (a b : Bytes) (k : Nat) : (a ++ b).getD (a.length + k) 0 = b.getD k 0 := by
  rw [List.getD_eq_getElem?_getD, List.getD_eq_getElem?_getD, List.getElem?_append_right (by omega)]
  simp

theorem getD_append_left' (a b : Bytes) (k : Nat) (h : k < a.length) : (a ++ b).getD k 0 = a.getD k 0 := by
  rw [List.getD_eq_getElem?_getD, List.getD_eq_getElem?_getD, List.getElem?_append_left h]

open MediaSan.Props.C02 MediaSan.Props.C01R in
/-- C02, the fixpoint half, for every input: the returned metadata followed by the bytes of the returned media span is
    accepted with "nothing to do" and the span {|metadata|, len} (for every sane limit, and a result that still fits
    the 64-bit offsets of the format) -/
theorem fixpoint (cfg : Config) (r : Sanitized) (md : Bytes) (h : Mp4.sanitize s kind cfg = .ok r)
    (hmd : r.metadata = some md) (hmax : cfg.maxMetadataSize ≤ 4 * Mp4.u32Max) (hlen2 : md.length + r.data.len < u64Lim) :
    Mp4.sanitize (Stream.ofBytes (md ++ s.read r.data.offset r.data.len)) kind cfg = .ok ⟨none, ⟨md.length, r.data.len⟩⟩ := by
  obtain ⟨bs, f, m, T, fh, mh, pad, mp, hw, hf, hlm, hmt, hle, ho, hfit, hmdeq, hall, hfty, hmty, hmp, hmpl, hent, hb1, hb2⟩ :=
    relocated_full s kind cfg r md h hmd
  obtain ⟨bs2, mo, hch, hfs, hft, hsd⟩ := sanitize_chain s kind cfg r h
  have hbs : bs2 = bs := by
    have w2 := walk_of_chain s s.len cfg.cumulativeMdatBoxSize bs2 0 (s.len / 8 + 1) hch (by left; omega)
    unfold walkAll at hw
    simp only [Nat.sub_zero] at hw
    rw [hw] at w2; cases w2; rfl
  subst hbs
  -- the media run of the input
  obtain ⟨pre, mm, post, e0, e1, e2, e3, e4, e5, e6, e7⟩ := fold_before bs2 0 r.data (Chain.geo s hch) hfs
  have hsplit : bs2 = pre ++ ((mm :: post.takeWhile isR) ++ post.dropWhile isR) := by
    rw [e0, List.cons_append, List.takeWhile_append_dropWhile]
  rw [hsplit] at hch
  obtain ⟨_, c2⟩ := chain_split s _ _ pre _ 0 s.len hch
  obtain ⟨c3, c4⟩ := chain_split s _ _ (mm :: post.takeWhile isR) _ _ s.len c2
  have hmo : mm.offset = runEnd 0 pre := by
    obtain ⟨_, k2, _, _⟩ := c3; exact k2
  rw [← hmo, runEnd_cons] at c3 c4
  rw [← e6] at c3 c4
  have hEle : r.data.offset + r.data.len ≤ s.len := Chain.le s c4
  have hrunR : ∀ b ∈ mm :: post.takeWhile isR, isR b = true := by
    intro b hb
    rcases List.mem_cons.mp hb with e | e
    · rw [e]; simp [isR, e2]
    · exact mem_takeWhile_p isR post b e
  have hgr : Geo mm.offset (mm :: post.takeWhile isR) := Chain.geo s c3
  have hun : ∀ b ∈ mm :: post.takeWhile isR, b.sized = false → r.data.offset + r.data.len = s.len := by
    intro b hb hu
    have hh := chain_mem_header s _ _ _ _ _ c3 b hb
    have he := headerAt_unsized s b.offset s.len _ b hh hu
    have := (geo_bounds _ _ hgr).2 b hb
    rw [runEnd_cons, ← e6] at this
    omega
  -- the new file
  have hfw := (hall (fh, s.read f.payloadOff f.payloadLen) (by simp [mdBoxes])).1
  have hmw := (hall (mh, mp) (by simp [mdBoxes])).1
  have hs2len : (Stream.ofBytes (md ++ s.read r.data.offset r.data.len)).len = md.length + r.data.len := by
    show (md ++ s.read r.data.offset r.data.len).length = _
    rw [List.length_append, read_length]
  have hget2 : ∀ q, (Stream.ofBytes (md ++ s.read r.data.offset r.data.len)).get q = (md ++ s.read r.data.offset r.data.len).getD q 0 :=
    fun _ => rfl
  have hmvE : mv r.data.offset md.length (r.data.offset + r.data.len) = md.length + r.data.len := by unfold mv; omega
  have hmv0 : mv r.data.offset md.length r.data.offset = md.length := by unfold mv; omega
  -- its chain: the boxes of the metadata, then the media run, moved
  have chA := chain_ser_ovr cfg.cumulativeMdatBoxSize (mdBoxes fh mh (s.read f.payloadOff f.payloadLen) mp pad) []
    (s.read r.data.offset r.data.len) hall
  simp only [List.nil_append, List.length_nil, Nat.zero_add] at chA
  rw [← hmdeq] at chA
  have chB := chain_move_ovr s (Stream.ofBytes (md ++ s.read r.data.offset r.data.len)) r.data.offset md.length
    cfg.cumulativeMdatBoxSize (r.data.offset + r.data.len) hEle (by rw [hs2len, hmvE]) (mm :: post.takeWhile isR) mm.offset
    (by omega) c3 hun
    (by
      intro p hp1 hp2
      rw [hget2]
      have e : mv r.data.offset md.length p = md.length + (p - r.data.offset) := by unfold mv; omega
      rw [e, getD_append_right', getD_read s _ _ _ (by omega)]
      congr 1; omega)
  rw [← e5, hmv0, hmvE] at chB
  have hlenE : (md ++ s.read r.data.offset r.data.len).length = md.length + r.data.len := by
    rw [List.length_append, read_length]
  rw [hlenE] at chA
  rw [hs2len] at chB
  have chAll := chain_append (Stream.ofBytes (md ++ s.read r.data.offset r.data.len)) (md.length + r.data.len) _ _ _ 0 md.length
    (md.length + r.data.len) chA chB
  -- the boxes of the metadata
  obtain ⟨b1, b2, rest3, hmbs, n1, po1, pl1, n2, po2, pl2, he2, hrest⟩ :=
    md_walk fh mh (s.read f.payloadOff f.payloadLen) mp pad hall hfty hmty
  have hdescr : descr 0 (mdBoxes fh mh (s.read f.payloadOff f.payloadLen) mp pad) = b1 :: b2 :: rest3 := by
    have hw' := walk_ser _ hall
    unfold mdTop at hmbs
    have : (Stream.ofBytes (serBoxes (mdBoxes fh mh (s.read f.payloadOff f.payloadLen) mp pad))).len =
        (serBoxes (mdBoxes fh mh (s.read f.payloadOff f.payloadLen) mp pad)).length := rfl
    rw [this, hw'] at hmbs
    exact hmbs
  rw [hdescr] at chAll
  have nn1 : b1.name = ftypN := by rw [n1, cc_ftyp]
  have nn2 : b2.name = moovN := by rw [n2, cc_moov]
  have nn3 : ∀ x ∈ rest3, x.name = freeN := fun x hx => by rw [hrest x hx, cc_free]
  have hrun' : ∀ b ∈ (mm :: post.takeWhile isR).map (moveBox r.data.offset md.length), isR b = true := by
    intro b hb
    obtain ⟨x, hx, rfl⟩ := List.mem_map.mp hb
    rw [isR_move]; exact hrunR x hx
  -- the top-level state machine
  have htop2 : foldTop ⟨false, none⟩ (b1 :: b2 :: rest3 ++ (mm :: post.takeWhile isR).map (moveBox r.data.offset md.length)) =
      some ⟨true, some b2.offset⟩ := by
    have s1 : topStep ⟨false, none⟩ b1 = some ⟨true, none⟩ := by
      unfold topStep
      have e1 : ¬ (b1.name = freeN ∨ b1.name = skipN) := by rw [nn1]; decide
      simp only [e1, if_false, nn1, if_true]
      rfl
    have s2' : topStep ⟨true, none⟩ b2 = some ⟨true, some b2.offset⟩ := by
      unfold topStep
      have e1 : ¬ (b2.name = freeN ∨ b2.name = skipN) := by rw [nn2]; decide
      have e2 : ¬ b2.name = ftypN := by rw [nn2]; decide
      have e3 : ¬ (b2.name = mdatN ∨ b2.name = metaN ∨ b2.name = mecoN) := by rw [nn2]; decide
      simp only [e1, e2, e3, if_false, nn2, if_true]
      rfl
    have s3 : foldTop ⟨true, some b2.offset⟩ (rest3 ++ (mm :: post.takeWhile isR).map (moveBox r.data.offset md.length)) =
        some ⟨true, some b2.offset⟩ := by
      apply foldTop_run _ _ rfl
      intro b hb
      rcases List.mem_append.mp hb with e | e
      · simp [isR, nn3 b e]
      · exact hrun' b e
    simp only [List.cons_append, foldTop, s1, s2', s3]
  -- the span bookkeeping
  have hgeo2 := Chain.geo _ chB
  have hspan2 : foldSpan none (b1 :: b2 :: rest3 ++ (mm :: post.takeWhile isR).map (moveBox r.data.offset md.length)) =
      some (some ⟨md.length, r.data.len⟩) := by
    have k1 : spanStep none b1 = some none := spanStep_keep _ b1 (by rw [nn1]; decide) (by rw [nn1]; decide)
    have k2 : spanStep none b2 = some none := spanStep_keep _ b2 (by rw [nn2]; decide) (by rw [nn2]; decide)
    have k3 : foldSpan none rest3 = some none := by
      have : ∀ l : List TopBox, (∀ x ∈ l, x.name = freeN) → foldSpan none l = some none := by
        intro l
        induction l with
        | nil => intro _; rfl
        | cons x xs ih =>
          intro hx
          have : spanStep none x = some none := by rw [spanStep_other _ x (Or.inl (hx x (by simp)))]; rfl
          simp only [foldSpan, this]
          exact ih (fun y hy => hx y (by simp [hy]))
      exact this rest3 nn3
    have hmmn : (moveBox r.data.offset md.length mm).name = mdatN := e2
    have k4 : foldSpan none ((mm :: post.takeWhile isR).map (moveBox r.data.offset md.length)) =
        some (some ⟨md.length, r.data.len⟩) := by
      simp only [List.map_cons] at hgeo2 ⊢
      obtain ⟨g1, g2, g3⟩ := hgeo2
      simp only [foldSpan, spanStep_mdat _ _ hmmn]
      rw [foldSpan_run_all _ _ ⟨_, _⟩ g3 (fun b hb => hrun' b (by simp [hb])) (by dsimp only; omega)]
      dsimp only
      have hre : runEnd (moveBox r.data.offset md.length mm).endOff ((post.takeWhile isR).map (moveBox r.data.offset md.length)) =
          md.length + r.data.len := by
        have := chain_runEnd _ _ _ _ _ _ chB
        simpa [List.map_cons, runEnd_cons] using this
      rw [hre, g1]
      congr 3; omega
    rw [show b1 :: b2 :: rest3 ++ _ = [b1, b2] ++ (rest3 ++ (mm :: post.takeWhile isR).map (moveBox r.data.offset md.length)) by simp]
    rw [foldSpan_append]
    simp only [foldSpan, k1, k2, Option.bind_some]
    rw [foldSpan_append, k3]
    exact k4
  -- the payloads the loop looks at
  have hfmem : f ∈ bs2 ∧ f.name = ftypN := by
    have h1 := List.mem_of_find?_eq_some hf
    have h2 := List.find?_some hf
    exact ⟨h1, by simpa using h2⟩
  have hmmem : m ∈ bs2 ∧ m.name = moovN := by
    unfold lastMoov at hlm
    have := List.mem_of_getLast? hlm
    have hm' := List.mem_filter.mp this
    exact ⟨hm'.1, by have := hm'.2; rw [cc_moov] at this; simpa using this⟩
  have hfok : ftypOk s f = true := (hsd f hfmem.1).1 hfmem.2
  have hmok : moovOk s ⟨cfg.maxMetadataSize, cfg.cumulativeMdatBoxSize⟩ m = true := (hsd m hmmem.1).2 hmmem.2
  have hmdpre : ∀ q, q < md.length →
      (Stream.ofBytes (md ++ s.read r.data.offset r.data.len)).get q = md.getD q 0 := by
    intro q hq; rw [hget2, getD_append_left' _ _ _ hq]
  obtain ⟨q1, q2⟩ := md_moov_payload fh mh (s.read f.payloadOff f.payloadLen) mp pad hfw hmw
  rw [← hmdeq] at q1 q2
  rw [← po2, hmpl] at q1 q2
  have hsl : (md.drop b2.payloadOff).take m.payloadLen = msplice s m.payloadOff m.endOff T := by rw [q1, hmp]
  obtain ⟨p1, _⟩ := relocated_pointwise s m T b2.payloadOff md _ hle ho hfit hsl (fun x hx i hi => (hent x hx i hi).1)
  have hpl : m.payloadLen = m.endOff - m.payloadOff := rfl
  have hside : ∀ b ∈ b1 :: b2 :: rest3 ++ (mm :: post.takeWhile isR).map (moveBox r.data.offset md.length),
      BoxSideT (Stream.ofBytes (md ++ s.read r.data.offset r.data.len)) cfg b := by
    intro b hb
    have hcases : b = b1 ∨ b = b2 ∨ (b.name ≠ ftypN ∧ b.name ≠ moovN) := by
      rcases List.mem_cons.mp hb with e | e
      · exact Or.inl e
      · rcases List.mem_cons.mp e with e | e
        · exact Or.inr (Or.inl e)
        · right; right
          rcases List.mem_append.mp e with e | e
          · rw [nn3 b e]; exact ⟨by decide, by decide⟩
          · have := hrun' b e
            simp only [isR, decide_eq_true_eq] at this
            constructor
            · rcases this with h | h | h | h | h <;> rw [h] <;> decide
            · rcases this with h | h | h | h | h <;> rw [h] <;> decide
    rcases hcases with e | e | ⟨e1', e2'⟩
    · subst e
      refine ⟨fun _ => ?_, fun hn => absurd (nn1 ▸ hn) (by decide)⟩
      rw [ftypOk_congr s _ f b (by rw [pl1, read_length])]
      · exact hfok
      · intro i hi
        rw [po1, hmdpre _ (by
          have : fh.encodedLen + (s.read f.payloadOff f.payloadLen).length ≤ md.length := by
            rw [hmdeq]
            simp only [mdBoxes, serBoxes, List.cons_append, List.nil_append, List.map_cons, List.flatten_cons, List.length_append,
              encodeHeader_length _ hfw]
            omega
          rw [read_length] at this; omega)]
        have e : ∃ tail, md = encodeHeader fh ++ (s.read f.payloadOff f.payloadLen) ++ tail := by
          rw [hmdeq]
          by_cases hp0 : pad = 0
          · exact ⟨encodeHeader mh ++ mp, by simp [mdBoxes, hp0, serBoxes, List.append_assoc]⟩
          · exact ⟨encodeHeader mh ++ mp ++ (encodeHeader ⟨FREE, .size pad⟩ ++ List.replicate (pad - 8) 0), by simp [mdBoxes, hp0, serBoxes, List.append_assoc]⟩
        obtain ⟨tail, ht⟩ := e
        have hl := encodeHeader_length _ hfw
        rw [ht, List.append_assoc, ← hl, getD_append_right', getD_append_left' _ _ _ (by rw [read_length]; exact hi),
          getD_read s _ _ _ hi]
    · subst e
      refine ⟨fun hn => absurd (nn2 ▸ hn) (by decide), fun _ => ?_⟩
      unfold moovOk at hmok ⊢
      simp only [Bool.and_eq_true, decide_eq_true_eq] at hmok ⊢
      obtain ⟨hlim, htab⟩ := hmok
      rw [hmt] at htab
      have hmt2 : moovTables (Stream.ofBytes (md ++ s.read r.data.offset r.data.len)) b =
          some ((T.map (·.1)).map (moveRegion m.payloadOff b.payloadOff)) := by
        have hn := moovTables_norm s m ⟨m.payloadOff, 0, m.name, m.endOff, m.sized⟩ (by simp [TopBox.payloadOff]) rfl
        rw [hn] at hmt
        have := moovTables_move s (Stream.ofBytes (md ++ s.read r.data.offset r.data.len)) m.payloadOff b.payloadOff
          ⟨m.payloadOff, 0, m.name, m.endOff, m.sized⟩ (T.map (·.1)) (Nat.le_refl _) (by simp [TopBox.payloadOff]; exact hle) hmt
          (by
            intro p hp1 hp2 hout
            dsimp only at hp1 hp2
            have := p1 (p - m.payloadOff) (by omega) (by rw [show m.payloadOff + (p - m.payloadOff) = p by omega]; exact hout)
            have e : mv m.payloadOff b.payloadOff p = b.payloadOff + (p - m.payloadOff) := by unfold mv; omega
            rw [e, hmdpre _ (by omega), this]
            congr 1; omega)
        rw [← this]
        apply moovTables_norm
        · simp only [moveBox, TopBox.payloadOff, mv]; omega
        · simp only [moveBox, mv]; rw [he2, hmpl]; omega
      rw [hmt2]
      refine ⟨⟨by rw [pl2, hmpl]; exact hlim, ?_⟩, by rw [pl2, hmpl]; omega⟩
      rw [List.all_eq_true] at htab ⊢
      intro x hx
      obtain ⟨y, hy, rfl⟩ := List.mem_map.mp hx
      exact htab y hy
    · exact ⟨fun hn => absurd hn e1', fun hn => absurd hn e2'⟩
  -- the last moov of the new file starts inside the metadata
  have hmoo : b2.offset < md.length := by
    have hends := Chain.ends _ chA
    have hg := Chain.geo _ chA
    rw [hdescr] at hends hg
    have h1 := hends b2 (by simp)
    obtain ⟨_, _, g3⟩ := hg
    obtain ⟨_, g5, _⟩ := g3
    omega
  have hl2 : (Stream.ofBytes (md ++ s.read r.data.offset r.data.len)).len < u64Lim := by rw [hs2len]; exact hlen2
  have := sanitize_noop (Stream.ofBytes (md ++ s.read r.data.offset r.data.len)) kind cfg hl2 _
    (by rw [hs2len]; exact chAll) b2.offset htop2 ⟨md.length, r.data.len⟩ hspan2 hside hmoo
  exact this

end
end MediaSan.Mp4
