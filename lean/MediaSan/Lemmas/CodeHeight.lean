/-
  Every code `CanonicalHuffmanTree::new` returns is a finalized trie no deeper than its `longest_code_len`; hence
  every prefix-code group the validator reads is `ready` for the buffered sub-image loop (Lemmas/BufLoop.lean).
-/
import MediaSan.Lemmas.BufLoop
namespace MediaSan.Vp8l
open MediaSan MediaSan.Generated

theorem add_height (t t' : HTree) (c : List Bool) (s : Nat) (h : t.add c s = .ok t') :
    t'.height ≤ max t.height c.length := by
  induction c generalizing t t' with
  | nil =>
    cases t with
    | empty => simp only [HTree.add, Except.ok.injEq] at h; subst h; simp [HTree.height]
    | leaf x => simp [HTree.add] at h
    | node z o => simp [HTree.add] at h
  | cons b bs ih =>
    cases t with
    | empty =>
      simp only [HTree.add] at h
      cases hr : HTree.add .empty bs s with
      | error e => rw [hr] at h; simp at h
      | ok t2 =>
        rw [hr] at h
        simp only [Except.ok.injEq] at h
        have h2 := ih .empty t2 hr
        subst h
        simp only [HTree.height, List.length_cons] at h2 ⊢
        cases b <;> simp only [HTree.height, Bool.false_eq_true, if_false, if_true] <;> omega
    | leaf x => simp [HTree.add] at h
    | node z o =>
      simp only [HTree.add] at h
      cases b with
      | true =>
        simp only [if_true] at h
        cases hr : HTree.add o bs s with
        | error e => rw [hr] at h; simp at h
        | ok t2 =>
          rw [hr] at h
          simp only [Except.ok.injEq] at h
          subst h
          have := ih o t2 hr
          simp only [HTree.height, List.length_cons]; omega
      | false =>
        simp only [Bool.false_eq_true, if_false] at h
        cases hr : HTree.add z bs s with
        | error e => rw [hr] at h; simp at h
        | ok t2 =>
          rw [hr] at h
          simp only [Except.ok.injEq] at h
          subst h
          have := ih z t2 hr
          simp only [HTree.height, List.length_cons]; omega

theorem buildTree_height (syms : List (Nat × List Bool)) (t t' : HTree) (B : Nat) (ht : t.height ≤ B)
    (hs : ∀ x ∈ syms, x.2.length ≤ B) (h : buildTree syms t = .ok t') : t'.height ≤ B := by
  induction syms generalizing t with
  | nil => simp only [buildTree, Except.ok.injEq] at h; subst h; exact ht
  | cons x xs ih =>
    obtain ⟨s, c⟩ := x
    simp only [buildTree] at h
    cases hr : t.add c s with
    | error e => rw [hr] at h; simp at h
    | ok t2 =>
      rw [hr] at h
      have h1 := add_height t t2 c s hr
      have h2 : c.length ≤ B := hs (s, c) (List.mem_cons_self ..)
      exact ih t2 (by omega) (fun y hy => hs y (List.mem_cons_of_mem _ hy)) h

theorem le_foldl_max (l : List Nat) (init x : Nat) (h : x ≤ init ∨ x ∈ l) : x ≤ l.foldl max init := by
  induction l generalizing init with
  | nil =>
    rcases h with h | h
    · exact h
    · cases h
  | cons y ys ih =>
    simp only [List.foldl_cons]
    apply ih
    rcases h with h | h
    · left; omega
    · simp only [List.mem_cons] at h
      rcases h with h | h
      · left; omega
      · right; exact h

/-- a complete trie built from one code is a leaf: the code is empty -/
theorem add_empty_complete (c : List Bool) (s : Nat) (t : HTree) (h : HTree.add .empty c s = .ok t)
    (hc : t.complete = true) : t.height = 0 := by
  cases c with
  | nil => simp only [HTree.add, Except.ok.injEq] at h; subst h; rfl
  | cons b bs =>
    simp only [HTree.add] at h
    cases hr : HTree.add .empty bs s with
    | error e => rw [hr] at h; simp at h
    | ok t2 =>
      rw [hr] at h
      simp only [Except.ok.injEq] at h
      subst h
      cases b <;> simp [HTree.complete] at hc

theorem newCode_height (lens : List (Nat × Nat)) (lenient : Bool) (c : Code) (h : newCode lens lenient = .ok c) :
    c.tree.height ≤ c.longest := by
  simp only [newCode, fromSymbols] at h
  cases hcr : compileReadTree (canonicalSymbols lens lenient) with
  | error e => rw [hcr] at h; simp at h
  | ok t =>
    rw [hcr] at h
    simp only [Except.ok.injEq] at h
    subst h
    simp only [compileReadTree] at hcr
    cases hb : buildTree (canonicalSymbols lens lenient) .empty with
    | error e => rw [hb] at hcr; simp at hcr
    | ok t2 =>
      rw [hb] at hcr
      simp only at hcr
      split at hcr
      · rename_i hc
        simp only [Except.ok.injEq] at hcr
        subst hcr
        simp only
        split
        · -- a single symbol: the trie is a leaf
          rename_i x hx
          rw [hx] at hb
          obtain ⟨s, code⟩ := x
          simp only [buildTree] at hb
          cases hr : HTree.add .empty code s with
          | error e => rw [hr] at hb; simp at hb
          | ok t3 =>
            rw [hr] at hb
            simp only [buildTree, Except.ok.injEq] at hb
            subst hb
            have := add_empty_complete code s t3 hr hc
            omega
        · apply buildTree_height _ .empty t2 _ (by simp [HTree.height]) _ hb
          intro x hx
          apply le_foldl_max
          right
          exact List.mem_map.mpr ⟨x, hx, rfl⟩
      · simp at hcr

/-- `match newCode … with | .ok c => pure c | .error e => fail e` returns finalized codes within their depth -/
def CodeReady (c : Code) : Prop := c.tree.complete = true ∧ c.tree.height ≤ c.longest

theorem newCode_ready (lens : List (Nat × Nat)) (lenient : Bool) :
    BSafe (match newCode lens lenient with
      | .ok c => BR.pure c
      | .error e => BR.fail e) CodeReady := by
  cases h : newCode lens lenient with
  | ok c => exact BSafe.pure ⟨(newCode_good (fun _ => True) lens lenient c (fun _ _ => trivial) h).1, newCode_height lens lenient c h⟩
  | error e => exact BSafe.fail (newCode_err lens lenient e h)

theorem readPrefixCode_ready (cfg : LCfg) (alphabet : Nat) : BSafe (readPrefixCode cfg alphabet) CodeReady := by
  unfold readPrefixCode
  simp only [BR.bind_eq, BR.pure_eq]
  apply BSafe.bind _ readBit_safe
  intro simple _
  split
  · apply BSafe.bind _ readBit_safe
    intro hasSecond _
    apply BSafe.bind _ readBit_safe
    intro first8 _
    apply BSafe.bind (fun _ => True)
    · split
      · exact readBits_safe 8
      · exact readBits_safe 1
    · intro first _
      apply BSafe.bind (fun _ => True)
      · split
        · apply BSafe.bind _ (readBits_safe 8); intro _ _; exact BSafe.pure trivial
        · exact BSafe.pure trivial
      · intro named _
        exact newCode_ready _ _
  · apply BSafe.bind _ (readCodeLengthCode_safe cfg)
    intro clc hclc
    apply BSafe.bind _ readBit_safe
    intro useMax _
    apply BSafe.bind (fun _ => True)
    · split
      · apply BSafe.bind _ (readBits_safe 3)
        intro k _
        apply BSafe.bind _ (readBits_safe _)
        intro v _
        exact BSafe.pure trivial
      · exact BSafe.pure trivial
    · intro reads _
      apply BSafe.bind _ (ensure_safe _ _ np_invalidInput)
      intro _ _
      apply BSafe.bind _ (readCodeLengths_safe clc hclc _ _ _ _ _)
      intro syms _
      exact newCode_ready _ _

/-- **every group the validator reads is ready for the buffered loop** -/
theorem readGroup_ready (cfg : LCfg) (cache : Option Nat) : BSafe (readGroup cfg cache) Group.ready := by
  unfold readGroup
  simp only [BR.bind_eq, BR.pure_eq]
  apply BSafe.bind _ (readPrefixCode_ready cfg _); intro green hg
  apply BSafe.bind _ (readPrefixCode_ready cfg _); intro red hr
  apply BSafe.bind _ (readPrefixCode_ready cfg _); intro blue hb
  apply BSafe.bind _ (readPrefixCode_ready cfg _); intro alpha ha
  apply BSafe.bind _ (readPrefixCode_ready cfg _); intro dist hd
  exact BSafe.pure ⟨hg, hr, hb, ha, hd⟩

end MediaSan.Vp8l
