/-
  C19 for the buffer-only accessors: after the guarded refill with threshold `r` (r + 7 ≤ 8·cap), a run of
  buffer-only reads that asks for at most `r` bits in total - chosen adaptively from the values read - returns
  exactly what the whole-string reader returns, end of data included.
-/
import MediaSan.Vp8l.BufOnly
import MediaSan.Lemmas.BitTrace
namespace MediaSan.Vp8l
open MediaSan MediaSan.Generated

/-- `k` more bits are served by the buffer exactly as by the whole string: they are all buffered, or the buffer
    already holds everything that is left of the input -/
def Window (s : BitBuf) (k : Nat) : Prop := s.bitPos + k ≤ 8 * s.buf.length ∨ s.rest = []

theorem Window.mono {s : BitBuf} {k k' : Nat} (h : Window s k) (hk : k' ≤ k) : Window s k' := by
  rcases h with h | h
  · left; omega
  · right; exact h

/-- decoding consumes at most `height` bits -/
theorem bufDecode_consumed (l : Bytes) (t : HTree) (fuel p s q : Nat)
    (h : bufDecode l t fuel p = some (s, q)) : q ≤ p + t.height := by
  induction t generalizing fuel p with
  | empty => simp [bufDecode] at h
  | leaf x => simp only [bufDecode, Option.some.injEq, Prod.mk.injEq] at h; omega
  | node z o ihz iho =>
    cases fuel with
    | zero => simp [bufDecode] at h
    | succ f =>
      simp only [bufDecode] at h
      cases hb : bitAtL l p with
      | none => simp [hb] at h
      | some v =>
        simp only [hb] at h
        simp only [HTree.height]
        cases v
        · have := ihz f (p + 1) h; omega
        · have := iho f (p + 1) h; omega

/-- one buffer-only operation inside the window: the whole-string reader's value and verdict, the abstraction kept
    (nothing is dropped: same `d`), the window shrunk by the operation's cost -/
theorem bufStep_refines (s : BitBuf) (orig : Bytes) (d : Nat) (h : Abs s orig d) (op : BOp) (hwf : op.wellFormed)
    (k : Nat) (hk : op.cost ≤ k) (hw : Window s k) :
    match s.bufStep op with
    | some (v, s') =>
        idealStep orig (s.absPos d) op = some (v, s'.absPos d) ∧ Abs s' orig d ∧ Window s' (k - op.cost) ∧
          s'.cap = s.cap
    | none => idealStep orig (s.absPos d) op = none := by
  cases op with
  | read n =>
    simp only [BOp.cost] at hk
    have hen : s.bitPos + n ≤ 8 * s.buf.length ∨ s.rest = [] := Window.mono hw hk
    have hwin := bufReadAux_window orig s.buf s.rest d h.window n 0 0 s.bitPos hen
    simp only [BitBuf.bufStep, BitBuf.bufRead, idealStep, BitBuf.absPos]
    cases hr : bufReadAux s.buf n 0 0 s.bitPos with
    | none =>
      simp only
      rw [← hwin, hr]; rfl
    | some v =>
      simp only
      have hb := bufReadAux_some_bound s.buf n 0 0 s.bitPos v h.inside hr
      refine ⟨?_, ⟨h.window, h.dead, hb⟩, ?_, trivial⟩
      · rw [← hwin, hr]; simp only [Option.map_some, BitBuf.absPos]; congr 2; omega
      · rcases hw with hw | hw
        · left; simp only [BOp.cost]; omega
        · right; exact hw
  | sym c =>
    simp only [BOp.cost] at hk
    simp only [BOp.wellFormed] at hwf
    have hen : s.bitPos + c.tree.height ≤ 8 * s.buf.length ∨ s.rest = [] := Window.mono hw (by omega)
    have hwin := bufDecode_window orig s.buf s.rest d h.window c.tree (c.tree.height + 1) s.bitPos hen
    simp only [BitBuf.bufStep, BitBuf.bufSym, idealStep, BitBuf.absPos]
    cases hr : bufDecode s.buf c.tree (c.tree.height + 1) s.bitPos with
    | none =>
      simp only
      rw [← hwin, hr]; rfl
    | some r =>
      obtain ⟨sym, q⟩ := r
      simp only
      have hb := bufDecode_bound s.buf c.tree (c.tree.height + 1) s.bitPos sym q h.inside hr
      have hc := bufDecode_consumed s.buf c.tree (c.tree.height + 1) s.bitPos sym q hr
      refine ⟨?_, ⟨h.window, h.dead, hb.1⟩, ?_, trivial⟩
      · rw [← hwin, hr]; rfl
      · rcases hw with hw | hw
        · left; simp only [BOp.cost]; omega
        · right; exact hw

/-- a run of buffer-only operations whose total cost stays within a budget the window covers: the whole-string
    reader's values, end of data at the same operation - for every adaptive client.  `budget hs` is what the client
    may still ask for after the values `hs`. -/
theorem runBufOnly_refines (next : List Nat → Option BOp) (budget : List Nat → Nat)
    (hfit : ∀ hs op, next hs = some op →
      op.wellFormed ∧ op.cost ≤ budget hs ∧ ∀ v, budget (hs ++ [v]) ≤ budget hs - op.cost)
    (fuel : Nat) (s : BitBuf) (orig : Bytes) (d : Nat) (h : Abs s orig d) (hist : List Nat)
    (hw : Window s (budget hist)) :
    runBufOnlyStrat next fuel s hist = runIdealStrat orig next fuel (s.absPos d) hist := by
  induction fuel generalizing s hist with
  | zero => rfl
  | succ fuel ih =>
    simp only [runBufOnlyStrat, runIdealStrat]
    cases hn : next hist with
    | none => rfl
    | some op =>
      simp only
      obtain ⟨hwf, hc, hnext⟩ := hfit hist op hn
      have hs := bufStep_refines s orig d h op hwf (budget hist) hc hw
      cases hr : s.bufStep op with
      | none => rw [hr] at hs; simp only at hs; rw [hs]
      | some r =>
        obtain ⟨v, s'⟩ := r
        rw [hr] at hs
        simp only at hs
        obtain ⟨hi, ha, hw', _⟩ := hs
        rw [hi]
        simp only
        exact ih s' ha (hist ++ [v]) (hw'.mono (hnext v))

/-- the guarded refill secures the window: afterwards `r` bits are buffered or the buffer holds all that is left,
    provided the threshold fits the capacity (r + 7 ≤ 8·cap: 121 bits for the smallest capacity, 16) -/
theorem guardedFill_window (s : BitBuf) (orig : Bytes) (d : Nat) (h : Abs s orig d) (r : Nat)
    (hr : r + 7 ≤ 8 * s.cap) :
    ∃ d', Abs (s.guardedFill r) orig d' ∧ (s.guardedFill r).absPos d' = s.absPos d ∧
      (s.guardedFill r).cap = s.cap ∧ Window (s.guardedFill r) r := by
  by_cases hb : s.bufBits < r
  · have hroom : s.buf.length - s.bitPos / 8 < s.cap := by
      simp only [BitBuf.bufBits] at hb
      have := h.inside
      omega
    obtain ⟨d', ha, hp, hc, hfull⟩ := fill_abs s orig d h hroom
    have e : s.guardedFill r = s.fill := by simp [BitBuf.guardedFill, hb]
    rw [e]
    refine ⟨d', ha, hp, hc, ?_⟩
    rcases hfull with h1 | h2
    · left
      simp only [BitBuf.bufBits] at h1
      have := ha.inside
      omega
    · right; exact h2
  · have e : s.guardedFill r = s := by simp [BitBuf.guardedFill, hb]
    rw [e]
    refine ⟨d, h, rfl, rfl, ?_⟩
    left
    simp only [BitBuf.bufBits] at hb
    have := h.inside
    omega

/-! ### budgets as "bits asked for so far" -/

def costOf (next : List Nat → Option BOp) (hs : List Nat) : Nat :=
  match next hs with
  | some op => op.cost
  | none => 0

/-- the bits a client has asked for along the history `pre ++ rest`, counted from `pre` on -/
def spentAux (next : List Nat → Option BOp) : List Nat → List Nat → Nat
  | _, [] => 0
  | pre, v :: rest => costOf next pre + spentAux next (pre ++ [v]) rest

def spentOf (next : List Nat → Option BOp) (hs : List Nat) : Nat := spentAux next [] hs

theorem spentAux_snoc (next : List Nat → Option BOp) (pre rest : List Nat) (v : Nat) :
    spentAux next pre (rest ++ [v]) = spentAux next pre rest + costOf next (pre ++ rest) := by
  induction rest generalizing pre with
  | nil => simp [spentAux]
  | cons x xs ih =>
    simp only [List.cons_append, spentAux]
    rw [ih (pre ++ [x])]
    simp only [List.append_assoc, List.singleton_append]
    omega

theorem spentOf_snoc (next : List Nat → Option BOp) (hs : List Nat) (v : Nat) :
    spentOf next (hs ++ [v]) = spentOf next hs + costOf next hs := by
  simp only [spentOf]
  rw [spentAux_snoc]; simp

/-- the guarded iteration: a buffer-only client that never asks for more than `r` bits in total, after the guarded
    refill with threshold `r`, sees exactly the whole string -/
theorem guarded_run_refines (s : BitBuf) (orig : Bytes) (d : Nat) (h : Abs s orig d) (r : Nat)
    (hr : r + 7 ≤ 8 * s.cap) (next : List Nat → Option BOp)
    (hfit : ∀ hs op, next hs = some op → op.wellFormed ∧ spentOf next hs + op.cost ≤ r) (fuel : Nat) :
    runBufOnlyStrat next fuel (s.guardedFill r) [] = runIdealStrat orig next fuel (s.absPos d) [] := by
  obtain ⟨d', ha, hp, _, hw⟩ := guardedFill_window s orig d h r hr
  rw [← hp]
  apply runBufOnly_refines next (fun hs => r - spentOf next hs) ?_ fuel _ orig d' ha []
  · exact hw.mono (Nat.sub_le _ _)
  · intro hs op hn
    obtain ⟨hwf, hc⟩ := hfit hs op hn
    refine ⟨hwf, by omega, ?_⟩
    intro v
    rw [spentOf_snoc]
    simp only [costOf, hn]
    omega

/-! ### one iteration of the sub-image loop stays within `readahead_bits` -/

theorem lz77ExtraBits_le (p : Nat) (h : p ≤ lz77MaxSymbol) : lz77ExtraBits p ≤ (lz77MaxSymbol - 2) / 2 := by
  have e : lz77MaxSymbol = 39 := rfl
  rw [e] at h ⊢
  unfold lz77ExtraBits
  split <;> omega

def Group.wellFormed (g : Group) : Prop :=
  g.green.tree.height ≤ g.green.longest ∧ g.red.tree.height ≤ g.red.longest ∧ g.blue.tree.height ≤ g.blue.longest ∧
  g.alpha.tree.height ≤ g.alpha.longest ∧ g.dist.tree.height ≤ g.dist.longest

instance (g : Group) : Decidable g.wellFormed := by unfold Group.wellFormed; infer_instance

/-- whatever the values read, the iteration never asks the buffer for more than `readahead_bits` -/
theorem iterNext_within (g : Group) (hg : g.wellFormed) (hs : List Nat) (op : BOp) (hn : iterNext g hs = some op) :
    op.wellFormed ∧ spentOf (iterNext g) hs + op.cost ≤ readaheadBits g := by
  obtain ⟨h1, h2, h3, h4, h5⟩ := hg
  have e : lz77MaxSymbol = 39 := rfl
  match hs, hn with
  | [], hn =>
    simp only [iterNext, Option.some.injEq] at hn
    subst hn
    exact ⟨h1, by simp only [spentOf, spentAux, BOp.cost, readaheadBits]; omega⟩
  | [sym], hn =>
    simp only [iterNext] at hn
    split at hn
    · rename_i hlt
      simp only [Option.some.injEq] at hn; subst hn
      refine ⟨h2, ?_⟩
      simp only [spentOf, spentAux, costOf, iterNext, BOp.cost, readaheadBits, List.nil_append]
      omega
    · split at hn
      · rename_i hge hlt
        simp only [Option.some.injEq] at hn; subst hn
        refine ⟨trivial, ?_⟩
        have := lz77ExtraBits_le (sym - 256) (by rw [e]; omega)
        simp only [spentOf, spentAux, costOf, iterNext, BOp.cost, readaheadBits, List.nil_append]
        rw [e] at this ⊢
        omega
      · cases hn
  | [sym, y], hn =>
    simp only [iterNext] at hn
    split at hn
    · rename_i hlt
      simp only [Option.some.injEq] at hn; subst hn
      refine ⟨h3, ?_⟩
      simp only [spentOf, spentAux, costOf, iterNext, BOp.cost, readaheadBits, List.nil_append, List.cons_append,
        hlt, if_true]
      omega
    · split at hn
      · rename_i hge hlt
        simp only [Option.some.injEq] at hn; subst hn
        refine ⟨h5, ?_⟩
        have := lz77ExtraBits_le (sym - 256) (by rw [e]; omega)
        simp only [spentOf, spentAux, costOf, iterNext, BOp.cost, readaheadBits, List.nil_append, List.cons_append,
          hge, hlt, if_true, if_false]
        rw [e] at this ⊢
        omega
      · cases hn
  | [sym, y, x], hn =>
    simp only [iterNext] at hn
    split at hn
    · rename_i hlt
      simp only [Option.some.injEq] at hn; subst hn
      refine ⟨h4, ?_⟩
      simp only [spentOf, spentAux, costOf, iterNext, BOp.cost, readaheadBits, List.nil_append, List.cons_append,
        hlt, if_true]
      omega
    · split at hn
      · rename_i hge hlt
        split at hn
        · rename_i hx
          simp only [Option.some.injEq] at hn; subst hn
          refine ⟨trivial, ?_⟩
          have := lz77ExtraBits_le (sym - 256) (by rw [e]; omega)
          have := lz77ExtraBits_le x hx
          simp only [spentOf, spentAux, costOf, iterNext, BOp.cost, readaheadBits, List.nil_append, List.cons_append,
            hge, hlt, if_true, if_false]
          rw [e] at *
          omega
        · cases hn
      · cases hn
  | _ :: _ :: _ :: _ :: _, hn => simp [iterNext] at hn

end MediaSan.Vp8l
