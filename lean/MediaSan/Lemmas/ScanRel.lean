/-
  C03: what a successful run of the MP4 scan loop has seen IS the top-level box sequence of the independent
  walker (Spec/Mp4Walk.lean), and the span it returns IS the maximal media run of that sequence.
  Partial-correctness triples (Lemmas/Tri.lean) over the scan loop, with the walker's `headerAt` as the
  description of each box.
-/
import MediaSan.Lemmas.Tri
import MediaSan.Mp4.Sanitize
import MediaSan.Spec.Mp4Rules
namespace MediaSan.Mp4
open MediaSan MediaSan.Spec.Mp4Walk

section
variable (s : Stream) (kind : SkipKind)

def name4 (h : BoxHeader) : Bytes :=
  match h.ty with
  | .fourcc b => b
  | .uuid _ => uuidName

/-- what `BoxHeader::read` has seen at `pos` -/
def HdrAt (pos : Nat) (h : BoxHeader) : Prop :=
  name4 h = s.read (pos + 4) 4 ∧
  (match h.ty with
    | .fourcc b => b ≠ uuidName
    | .uuid _ => True) ∧
  (match h.sz with
    | .untilEof => beToNat (s.read pos 4) = 0
    | .ext n => beToNat (s.read pos 4) = 1 ∧ n = beToNat (s.read (pos + 8) 8)
    | .size n => beToNat (s.read pos 4) = n ∧ n ≠ 0 ∧ n ≠ 1)

theorem readHeader_rel (pos : Nat) :
    Tri (idealOps s kind) readHeader pos (fun h pos' => pos' = pos + h.encodedLen ∧ pos' ≤ s.len ∧ HdrAt s pos h) := by
  unfold readHeader
  apply Tri.readExact
  · intro h; cases h
  intro _ hl1
  apply Tri.readExact
  · intro h; cases h
  intro _ hl2
  dsimp only
  have tail : ∀ (sz : BoxSize) (p : Nat) (extra : Nat), p = pos + 8 + extra → p ≤ s.len →
      extra = (match sz with | .ext _ => 8 | _ => 0) →
      (match sz with
        | .untilEof => beToNat (s.read pos 4) = 0
        | .ext n => beToNat (s.read pos 4) = 1 ∧ n = beToNat (s.read (pos + 8) 8)
        | .size n => beToNat (s.read pos 4) = n ∧ n ≠ 0 ∧ n ≠ 1) →
      Tri (idealOps s kind)
        (if s.read (pos + 4) 4 = uuidName then
          Prog.readExact 16 (some PErr.truncatedBox) fun u => (Prog.done ⟨BoxType.uuid u, sz⟩ : P BoxHeader)
         else Prog.done ⟨BoxType.fourcc (s.read (pos + 4) 4), sz⟩) p
        (fun h pos' => pos' = pos + h.encodedLen ∧ pos' ≤ s.len ∧ HdrAt s pos h) := by
    intro sz p extra hp hle hex hsz
    split
    · rename_i hu
      apply Tri.readExact
      · intro h; cases h
      intro _ hl3
      refine Tri.done ⟨?_, hl3, ?_, trivial, hsz⟩
      · simp only [BoxHeader.encodedLen]; cases sz <;> simp_all <;> omega
      · simp only [name4]; exact hu.symm
    · rename_i hu
      refine Tri.done ⟨?_, hle, ?_, hu, hsz⟩
      · simp only [BoxHeader.encodedLen]; cases sz <;> simp_all <;> omega
      · simp only [name4]
  split
  · rename_i h0
    exact tail .untilEof (pos + 4 + 4) 0 (by omega) hl2 rfl h0
  · rename_i h0
    split
    · rename_i h1
      apply Tri.readExact
      · intro h; cases h
      intro _ hl3
      have e : pos + 4 + 4 = pos + 8 := by omega
      exact tail (.ext _) (pos + 4 + 4 + 8) 8 (by omega) hl3 rfl ⟨h1, by rw [e]⟩
    · rename_i h1
      exact tail (.size _) (pos + 4 + 4) 0 (by omega) hl2 rfl ⟨rfl, h0, h1⟩

def mdatN : Bytes := [0x6d, 0x64, 0x61, 0x74]

/-- the walker's reading of the same bytes -/
def specHdr (pos lim : Nat) (ovr : Option Nat) (h : BoxHeader) : Hdr :=
  match h.sz with
  | .ext n => if n < h.encodedLen then .tooSmall else .ok ⟨pos, h.encodedLen, name4 h, pos + n, true⟩
  | .size n => if n < h.encodedLen then .tooSmall else .ok ⟨pos, h.encodedLen, name4 h, pos + n, true⟩
  | .untilEof =>
    match ovr, decide (name4 h = mdatN) with
    | some t, true => if t < 8 then .tooSmall else .ok ⟨pos, 8, name4 h, pos + t, true⟩
    | _, _ => .ok ⟨pos, h.encodedLen, name4 h, lim, false⟩

theorem headerAt_of (pos lim : Nat) (ovr : Option Nat) (h : BoxHeader) (hh : HdrAt s pos h)
    (hfit : pos + h.encodedLen ≤ lim) : headerAt s pos lim ovr = specHdr pos lim ovr h := by
  obtain ⟨hn, hu, hs⟩ := hh
  have h8 : ¬ (pos + 8 > lim) := by unfold BoxHeader.encodedLen at hfit; omega
  unfold headerAt specHdr
  simp only [h8, if_false, be, ← hn]
  obtain ⟨ty, sz⟩ := h
  have eU : uuidName = [117, 117, 105, 100] := rfl
  have eM : mdatN = [109, 100, 97, 116] := rfl
  cases ty with
  | fourcc b =>
    have hb : ¬ (b = [117, 117, 105, 100]) := by rw [← eU]; exact hu
    simp only [name4, hb, if_false, BoxHeader.encodedLen, eM] at hfit ⊢
    cases sz with
    | untilEof =>
      simp only at hs hfit ⊢
      have : ¬ (pos + 8 + 0 > lim) := by omega
      simp only [hs, this, if_false, if_true]
      first | done | rfl | (simp; done) | (simp; rfl)
    | ext n =>
      simp only at hs hfit ⊢
      have : ¬ (pos + 16 + 0 > lim) := by omega
      simp only [hs.1, ← hs.2, this, if_false, if_true]
      first | done | rfl | (simp; done) | (simp; rfl)
    | size n =>
      simp only at hs hfit ⊢
      have : ¬ (pos + 8 + 0 > lim) := by omega
      simp only [hs.1, hs.2.1, hs.2.2, this, if_false]
      first | done | rfl | (simp; done) | (simp; rfl)
  | uuid u =>
    simp only [name4, eU, if_true, BoxHeader.encodedLen, eM] at hfit ⊢
    cases sz with
    | untilEof =>
      simp only at hs hfit ⊢
      have : ¬ (pos + 8 + 16 > lim) := by omega
      simp only [hs, this, if_false, if_true]
      first | done | rfl | (simp; done) | (simp; rfl)
    | ext n =>
      simp only at hs hfit ⊢
      have : ¬ (pos + 16 + 16 > lim) := by omega
      simp only [hs.1, ← hs.2, this, if_false, if_true]
      first | done | rfl | (simp; done) | (simp; rfl)
    | size n =>
      simp only at hs hfit ⊢
      have : ¬ (pos + 8 + 16 > lim) := by omega
      simp only [hs.1, hs.2.1, hs.2.2, this, if_false]
      first | done | rfl | (simp; done) | (simp; rfl)

def freeN : Bytes := [0x66, 0x72, 0x65, 0x65]
def skipN : Bytes := [0x73, 0x6b, 0x69, 0x70]
def metaN : Bytes := [0x6d, 0x65, 0x74, 0x61]
def mecoN : Bytes := [0x6d, 0x65, 0x63, 0x6f]
def ftypN : Bytes := [0x66, 0x74, 0x79, 0x70]
def moovN : Bytes := [0x6d, 0x6f, 0x6f, 0x76]

/-- the span bookkeeping of one top-level box, in terms of the walker's box: `none` = the layout is refused -/
def spanStep (d : Option Span) (b : TopBox) : Option (Option Span) :=
  if b.name = mdatN then
    match d with
    | none => some (some ⟨b.offset, b.endOff - b.offset⟩)
    | some d => if d.offset + d.len = b.offset then some (some ⟨d.offset, d.len + (b.endOff - b.offset)⟩) else none
  else if b.name = freeN ∨ b.name = skipN ∨ b.name = metaN ∨ b.name = mecoN then
    match d with
    | none => some none
    | some d => if d.offset + d.len = b.offset then some (some ⟨d.offset, d.len + (b.endOff - b.offset)⟩) else some (some d)
  else some d

/-- the model's type test and the walker's name test agree on four-character codes -/
theorem ty_eq_iff (h : BoxHeader) (n : Bytes) (hn : n ≠ uuidName)
    (hu : match h.ty with | .fourcc b => b ≠ uuidName | .uuid _ => True) : h.ty = .fourcc n ↔ name4 h = n := by
  unfold name4
  cases hty : h.ty with
  | fourcc b => simp
  | uuid u => simp; exact fun e => hn e.symm

/-- what `box_data_size` / "until EOF" evaluates to, with the cursor inside the stream in the second case -/
def SizeIs' (h : BoxHeader) (pos n : Nat) : Prop :=
  h.dataSize = .ok (some n) ∨ (h.dataSize = .ok none ∧ pos ≤ s.len ∧ n = s.len - pos)

theorem boxDataSize_rel (h : BoxHeader) (pos : Nat) :
    Tri (idealOps s kind) (boxDataSize h) pos (fun n pos' => pos' = pos ∧ SizeIs' s h pos n) := by
  unfold boxDataSize
  cases hd : h.dataSize with
  | error e => exact Tri.fail
  | ok o =>
    cases o with
    | some n => exact Tri.done ⟨rfl, Or.inl hd⟩
    | none =>
      dsimp only
      apply Tri.streamLen
      apply Tri.position
      unfold subU64
      split
      · rename_i hp; exact Tri.done ⟨rfl, Or.inr ⟨hd, hp, rfl⟩⟩
      · exact Tri.panic

theorem skipBox_rel (h : BoxHeader) (pos : Nat) :
    Tri (idealOps s kind) (skipBox h) pos (fun n pos' => pos' = pos + n ∧ SizeIs' s h pos n) := by
  unfold skipBox
  apply Tri.bind
  apply Tri.mono (boxDataSize_rel s kind h pos)
  intro n p' ⟨hp', hs⟩
  subst hp'
  apply Tri.skip
  intro p2 hk
  exact Tri.done ⟨ideal_skip_exact s kind hk, hs⟩

theorem readData_rel (h : BoxHeader) (L pos : Nat) :
    Tri (idealOps s kind) (readData h L) pos (fun _ pos' => ∃ n, pos' = pos + n ∧ SizeIs' s h pos n) := by
  unfold readData
  apply Tri.bind
  apply Tri.mono (boxDataSize_rel s kind h pos)
  intro n p' ⟨hp', hs⟩
  subst hp'
  split
  · apply Tri.readExact
    · intro h0; exact Tri.done ⟨n, by omega, hs⟩
    · intro _ _; exact Tri.done ⟨n, rfl, hs⟩
  · exact Tri.fail

def extendSpec (d0 : Option Span) (startPos boxSize : Nat) : Option Span :=
  match d0 with
  | none => none
  | some d => if d.offset + d.len = startPos then some ⟨d.offset, d.len + boxSize⟩ else some d

theorem extendData_rel (d0 : Option Span) (startPos boxSize pos : Nat) :
    Tri (idealOps s kind) (extendData d0 startPos boxSize) pos
      (fun d' pos' => pos' = pos ∧ d' = extendSpec d0 startPos boxSize) := by
  unfold extendData extendSpec
  cases d0 with
  | none => exact Tri.done ⟨rfl, rfl⟩
  | some d =>
    dsimp only
    apply Tri.bind
    unfold addU64
    split
    · apply Tri.done
      split
      · rename_i he
        apply Tri.bind
        split
        · apply Tri.done
          exact Tri.done ⟨rfl, by simp [he]⟩
        · exact Tri.panic
      · rename_i he
        exact Tri.done ⟨rfl, by simp [he]⟩
    · exact Tri.panic

/-- the walker's box for a header whose size is explicit -/
theorem spec_sized (startPos lim : Nat) (ovr : Option Nat) (h : BoxHeader) (n : Nat) (hd : h.dataSize = .ok (some n)) :
    specHdr startPos lim ovr h = .ok ⟨startPos, h.encodedLen, name4 h, startPos + h.encodedLen + n, true⟩ := by
  unfold BoxHeader.dataSize at hd
  unfold specHdr
  cases hs : h.sz with
  | untilEof => simp [hs, BoxSize.toNat?] at hd
  | size m =>
    simp only [hs, BoxSize.toNat?] at hd
    split at hd
    · rename_i hle
      simp only [Except.ok.injEq, Option.some.injEq] at hd
      have : ¬ m < h.encodedLen := by omega
      simp only [this, if_false]
      have : startPos + m = startPos + h.encodedLen + n := by omega
      rw [this]
    · cases hd
  | ext m =>
    simp only [hs, BoxSize.toNat?] at hd
    split at hd
    · rename_i hle
      simp only [Except.ok.injEq, Option.some.injEq] at hd
      have : ¬ m < h.encodedLen := by omega
      simp only [this, if_false]
      have : startPos + m = startPos + h.encodedLen + n := by omega
      rw [this]
    · cases hd

theorem dataSize_none (h : BoxHeader) (hd : h.dataSize = .ok none) : h.sz = .untilEof := by
  unfold BoxHeader.dataSize at hd
  cases hs : h.sz with
  | untilEof => rfl
  | size m => simp only [hs, BoxSize.toNat?] at hd; split at hd <;> cases hd
  | ext m => simp only [hs, BoxSize.toNat?] at hd; split at hd <;> cases hd

/-- the walker's box for an until-EOF header that is not an overridden mdat -/
theorem spec_untilEof (startPos lim : Nat) (ovr : Option Nat) (h : BoxHeader) (hd : h.dataSize = .ok none)
    (hno : ovr = none ∨ name4 h ≠ mdatN) :
    specHdr startPos lim ovr h = .ok ⟨startPos, h.encodedLen, name4 h, lim, false⟩ := by
  unfold specHdr
  rw [dataSize_none h hd]
  dsimp only
  rcases hno with h1 | h1
  · subst h1; rfl
  · have : decide (name4 h = mdatN) = false := by simp [h1]
    rw [this]
    cases ovr <;> rfl

theorem spanStep_other (d : Option Span) (b : TopBox)
    (hn : b.name = freeN ∨ b.name = skipN ∨ b.name = metaN ∨ b.name = mecoN) :
    spanStep d b = some (extendSpec d b.offset (b.endOff - b.offset)) := by
  have hm : b.name ≠ mdatN := by
    rcases hn with h | h | h | h <;> rw [h] <;> decide
  unfold spanStep extendSpec
  simp only [hm, if_false, hn, if_true]
  cases d with
  | none => rfl
  | some d => dsimp only; split <;> rfl

theorem spanStep_keep (d : Option Span) (b : TopBox) (hm : b.name ≠ mdatN)
    (hn : ¬ (b.name = freeN ∨ b.name = skipN ∨ b.name = metaN ∨ b.name = mecoN)) : spanStep d b = some d := by
  unfold spanStep
  simp only [hm, if_false, hn]

/-- the walker's box of a header read at `startPos`, when the model has determined the data size `n` without using
    the mdat size override -/
theorem box_of_size (startPos pos n : Nat) (ovr : Option Nat) (h : BoxHeader) (hpos : pos = startPos + h.encodedLen)
    (hs : SizeIs' s h pos n) (hno : h.dataSize = .ok none → ovr = none ∨ name4 h ≠ mdatN) :
    ∃ b, specHdr startPos s.len ovr h = .ok b ∧ b.offset = startPos ∧ b.endOff = pos + n ∧ b.name = name4 h := by
  rcases hs with hd | ⟨hd, hp, hn⟩
  · exact ⟨_, spec_sized startPos s.len ovr h n hd, rfl, by dsimp only; omega, rfl⟩
  · exact ⟨_, spec_untilEof startPos s.len ovr h hd (hno hd), rfl, by dsimp only; omega, rfl⟩

def BoxPost (cfg : Config) (startPos : Nat) (d0 : Option Span) (st' : ScanState) (pos' : Nat) : Prop :=
  ∃ b, headerAt s startPos s.len cfg.cumulativeMdatBoxSize = .ok b ∧ b.offset = startPos ∧ b.endOff = pos' ∧
    startPos + 8 ≤ pos' ∧ spanStep d0 b = some st'.data

theorem encodedLen_ge8 (h : BoxHeader) : 8 ≤ h.encodedLen := by unfold BoxHeader.encodedLen; omega

/-- the FREE/SKIP and META/MECO arms -/
theorem skipExtend_rel (cfg : Config) (st : ScanState) (startPos : Nat) (header : BoxHeader) (pos : Nat)
    (hpos : pos = startPos + header.encodedLen)
    (hspec : headerAt s startPos s.len cfg.cumulativeMdatBoxSize = specHdr startPos s.len cfg.cumulativeMdatBoxSize header)
    (hn : name4 header = freeN ∨ name4 header = skipN ∨ name4 header = metaN ∨ name4 header = mecoN) :
    Tri (idealOps s kind)
      (do let n ← skipBox header
          let boxSize ← addU64 "skip_box + encoded_len" n header.encodedLen
          let d ← extendData st.data startPos boxSize
          pure { st with data := d } : P ScanState) pos
      (BoxPost s cfg startPos st.data) := by
  have h8 := encodedLen_ge8 header
  have hm : name4 header ≠ mdatN := by
    rcases hn with h | h | h | h <;> rw [h] <;> decide
  apply Tri.bind
  apply Tri.mono (skipBox_rel s kind header pos)
  intro n p1 ⟨h1, h3⟩
  apply Tri.bind
  unfold addU64
  split
  · apply Tri.done
    apply Tri.bind
    apply Tri.mono (extendData_rel s kind st.data startPos (n + header.encodedLen) p1)
    intro d' p2 ⟨e, hd'⟩
    subst e
    obtain ⟨b, hb, hbo, hbe, hbn⟩ := box_of_size s startPos pos n cfg.cumulativeMdatBoxSize header hpos h3 (fun _ => Or.inr hm)
    refine Tri.done ⟨b, by rw [hspec]; exact hb, hbo, by omega, by omega, ?_⟩
    rw [spanStep_other _ b (by rw [hbn]; exact hn), hbo, hd']
    have : b.endOff - startPos = n + header.encodedLen := by omega
    rw [this]
  · exact Tri.panic

theorem spanStep_mdat (d : Option Span) (b : TopBox) (hm : b.name = mdatN) :
    spanStep d b =
      match d with
      | none => some (some ⟨b.offset, b.endOff - b.offset⟩)
      | some d => if d.offset + d.len = b.offset then some (some ⟨d.offset, d.len + (b.endOff - b.offset)⟩) else none := by
  unfold spanStep
  simp only [hm, if_true]

/-- the walker's box of an `mdat` header, through `cumulative_mdat_box_size` -/
theorem mdat_box (cfg : Config) (startPos pos n : Nat) (header : BoxHeader) (hty : header.ty = MDAT)
    (hpos : pos = startPos + header.encodedLen) (hs : SizeIs' s (applyCum cfg header) pos n) :
    (applyCum cfg header).encodedLen = header.encodedLen ∧
    ∃ b, specHdr startPos s.len cfg.cumulativeMdatBoxSize header = .ok b ∧ b.offset = startPos ∧ b.endOff = pos + n ∧
      b.name = mdatN := by
  have hnm : name4 header = mdatN := by unfold name4; rw [hty]; rfl
  cases hd : header.dataSize with
  | error e =>
    have e1 : applyCum cfg header = header := by unfold applyCum; rw [hd]
    rw [e1] at hs ⊢
    rcases hs with h | ⟨h, _⟩ <;> rw [hd] at h <;> cases h
  | ok o =>
    cases o with
    | some m =>
      have e1 : applyCum cfg header = header := by unfold applyCum; rw [hd]
      rw [e1] at hs ⊢
      obtain ⟨b, hb, h1, h2, h3⟩ := box_of_size s startPos pos n cfg.cumulativeMdatBoxSize header hpos hs
        (by intro h; rw [hd] at h; cases h)
      exact ⟨rfl, b, hb, h1, h2, by rw [h3, hnm]⟩
    | none =>
      cases hc : cfg.cumulativeMdatBoxSize with
      | none =>
        have e1 : applyCum cfg header = header := by unfold applyCum; rw [hd, hc]
        rw [e1] at hs ⊢
        obtain ⟨b, hb, h1, h2, h3⟩ := box_of_size s startPos pos n none header hpos hs (fun _ => Or.inl rfl)
        exact ⟨rfl, b, hb, h1, h2, by rw [h3, hnm]⟩
      | some t =>
        have e1 : applyCum cfg header = { header with sz := .size t } := by unfold applyCum; rw [hd, hc]
        have hsz := dataSize_none header hd
        have hel : ({ header with sz := .size t } : BoxHeader).encodedLen = 8 := by
          simp only [BoxHeader.encodedLen, hty, MDAT]
        have hel0 : header.encodedLen = 8 := by
          simp only [BoxHeader.encodedLen, hty, MDAT, hsz]
        rw [e1] at hs ⊢
        refine ⟨by rw [hel, hel0], ?_⟩
        have hds : ({ header with sz := .size t } : BoxHeader).dataSize = if 8 ≤ t then .ok (some (t - 8)) else .error .invalidInput := by
          simp only [BoxHeader.dataSize, BoxSize.toNat?, hel]
        rcases hs with h | ⟨h, _⟩
        · rw [hds] at h
          split at h
          · rename_i h8
            simp only [Except.ok.injEq, Option.some.injEq] at h
            refine ⟨⟨startPos, 8, name4 header, startPos + t, true⟩, ?_, rfl, by dsimp only; omega, hnm⟩
            unfold specHdr
            rw [hsz]
            dsimp only
            have : decide (name4 header = mdatN) = true := by simp [hnm]
            rw [this]
            have : ¬ t < 8 := by omega
            simp only [this, if_false]
          · cases h
        · rw [hds] at h
          split at h <;> cases h

theorem scanBody_rel (cfg : Config) (st : ScanState) (startPos : Nat) (header : BoxHeader) (pos : Nat)
    (hpos : pos = startPos + header.encodedLen) (hle : pos ≤ s.len) (hh : HdrAt s startPos header) :
    Tri (idealOps s kind) (scanBody cfg st startPos header) pos (BoxPost s cfg startPos st.data) := by
  have h8 := encodedLen_ge8 header
  have hspec := headerAt_of s startPos s.len cfg.cumulativeMdatBoxSize header hh (by omega)
  have hu := hh.2.1
  have tyN : ∀ n : Bytes, n ≠ uuidName → (header.ty = .fourcc n ↔ name4 header = n) :=
    fun n hn => ty_eq_iff header n hn hu
  unfold scanBody
  dsimp only
  split
  · rename_i hc
    apply skipExtend_rel s kind cfg st startPos header pos hpos hspec
    rcases hc with h | h
    · exact Or.inl ((tyN freeN (by decide)).mp h)
    · exact Or.inr (Or.inl ((tyN skipN (by decide)).mp h))
  rename_i hnfs
  split
  · -- ftyp
    rename_i hft
    have hname : name4 header = ftypN := (tyN ftypN (by decide)).mp hft
    split
    · exact Tri.fail
    · apply Tri.bind
      apply Tri.mono (readData_rel s kind header maxFtypSize pos)
      intro payload p1 ⟨n, hp1, hs⟩
      apply Tri.bind
      cases hpf : parseFtyp payload with
      | panic site => exact Tri.panic
      | err e => exact Tri.fail
      | ok f =>
        apply Tri.done
        split
        · obtain ⟨b, hb, hbo, hbe, hbn⟩ := box_of_size s startPos pos n cfg.cumulativeMdatBoxSize header hpos hs
            (fun _ => Or.inr (by rw [hname]; decide))
          refine Tri.done ⟨b, by rw [hspec]; exact hb, hbo, by omega, by omega, ?_⟩
          exact spanStep_keep _ b (by rw [hbn, hname]; decide) (by rw [hbn, hname]; decide)
        · exact Tri.fail
  rename_i hnft
  split
  · exact Tri.fail
  split
  · -- mdat
    rename_i hmd
    apply Tri.bind
    apply Tri.mono (skipBox_rel s kind (applyCum cfg header) pos)
    intro n p1 ⟨h1, h3⟩
    obtain ⟨hel, b, hb, hbo, hbe, hbn⟩ := mdat_box s cfg startPos pos n header hmd hpos h3
    apply Tri.bind
    unfold addU64
    split
    · apply Tri.done
      rw [hel]
      have hsize : b.endOff - b.offset = n + header.encodedLen := by omega
      cases hdd : st.data with
      | none =>
        dsimp only
        refine Tri.done ⟨b, by rw [hspec]; exact hb, hbo, by omega, by omega, ?_⟩
        rw [spanStep_mdat _ b hbn, hsize, hbo]
      | some d =>
        dsimp only
        apply Tri.bind
        split
        · apply Tri.done
          split
          · rename_i he
            apply Tri.bind
            split
            · apply Tri.done
              refine Tri.done ⟨b, by rw [hspec]; exact hb, hbo, by omega, by omega, ?_⟩
              rw [spanStep_mdat _ b hbn, hsize, hbo]
              dsimp only
              simp only [he, if_true]
            · exact Tri.panic
          · exact Tri.fail
        · exact Tri.panic
    · exact Tri.panic
  rename_i hnmd
  split
  · -- moov
    rename_i hmv
    have hname : name4 header = moovN := (tyN moovN (by decide)).mp hmv
    apply Tri.bind
    apply Tri.mono (readData_rel s kind header cfg.maxMetadataSize pos)
    intro payload p1 ⟨n, hp1, hs⟩
    apply Tri.bind
    cases hvm : validateMoov (.bytes payload) with
    | panic site => exact Tri.panic
    | err e => exact Tri.fail
    | ok r =>
      apply Tri.done
      obtain ⟨b, hb, hbo, hbe, hbn⟩ := box_of_size s startPos pos n cfg.cumulativeMdatBoxSize header hpos hs
        (fun _ => Or.inr (by rw [hname]; decide))
      refine Tri.done ⟨b, by rw [hspec]; exact hb, hbo, by omega, by omega, ?_⟩
      exact spanStep_keep _ b (by rw [hbn, hname]; decide) (by rw [hbn, hname]; decide)
  split
  · rename_i hc
    apply skipExtend_rel s kind cfg st startPos header pos hpos hspec
    rcases hc with h | h
    · exact Or.inr (Or.inr (Or.inl ((tyN metaN (by decide)).mp h)))
    · exact Or.inr (Or.inr (Or.inr ((tyN mecoN (by decide)).mp h)))
  · apply Tri.bind
    apply Tri.mono (skipBox_rel s kind header pos)
    intro n p1 _
    apply Tri.bind
    unfold addU64
    split
    · apply Tri.done; exact Tri.fail
    · exact Tri.panic

theorem scanBox_rel (cfg : Config) (st : ScanState) (pos : Nat) :
    Tri (idealOps s kind) (scanBox cfg st) pos (BoxPost s cfg pos st.data) := by
  unfold scanBox
  apply Tri.position
  apply Tri.bind
  apply Tri.mono (readHeader_rel s kind pos)
  intro header p1 ⟨h1, h2, h3⟩
  exact scanBody_rel s kind cfg st pos header p1 h1 h2 h3

/-- `bs` are consecutive walker boxes of the region ending at `lim`, from `off` to `pos` -/
def Chain (lim : Nat) (ovr : Option Nat) : Nat → Nat → List TopBox → Prop
  | off, pos, [] => off = pos
  | off, pos, b :: rest =>
    headerAt s off lim ovr = .ok b ∧ b.offset = off ∧ off + 8 ≤ b.endOff ∧ Chain lim ovr b.endOff pos rest

theorem Chain.le {lim : Nat} {ovr : Option Nat} {off pos : Nat} {bs : List TopBox} (h : Chain s lim ovr off pos bs) :
    off ≤ pos := by
  induction bs generalizing off with
  | nil => exact Nat.le_of_eq h
  | cons b rest ih =>
    obtain ⟨_, _, h3, h4⟩ := h
    have := ih h4
    omega

/-- the span bookkeeping over a box sequence -/
def foldSpan : Option Span → List TopBox → Option (Option Span)
  | d, [] => some d
  | d, b :: rest =>
    match spanStep d b with
    | none => none
    | some d' => foldSpan d' rest

/-- the scan loop: when it ends with a state, it has walked a chain of walker boxes up to the end of the input (or
    beyond it), and its span is the fold of the bookkeeping over that chain -/
theorem scan_rel (cfg : Config) (fuel : Nat) (st : ScanState) (pos : Nat) :
    Tri (idealOps s kind) (scan cfg fuel st) pos
      (fun r pos' => ∀ st', r = some st' →
        ∃ bs, Chain s s.len cfg.cumulativeMdatBoxSize pos pos' bs ∧ foldSpan st.data bs = some st'.data ∧ s.len ≤ pos') := by
  induction fuel generalizing st pos with
  | zero => exact Tri.done (by intro st' h; cases h)
  | succ n ih =>
    unfold scan
    apply Tri.isEof
    by_cases he : s.len ≤ pos
    · simp only [he, decide_true, if_true]
      exact Tri.done (by intro st' h; cases h; exact ⟨[], rfl, rfl, he⟩)
    · simp only [he, decide_false, Bool.false_eq_true, if_false]
      apply Tri.bind
      apply Tri.mono (scanBox_rel s kind cfg st pos)
      intro st1 p1 ⟨b, hb, hbo, hbe, h8, hstep⟩
      apply Tri.mono (ih st1 p1)
      intro r p2 hr st' hst'
      obtain ⟨bs, hc, hf, hl⟩ := hr st' hst'
      refine ⟨b :: bs, ⟨hb, hbo, by omega, by rw [hbe]; exact hc⟩, ?_, hl⟩
      simp only [foldSpan, hstep]
      exact hf

/-- a chain that ends exactly at the end of the region is what the walker finds there: a clean box sequence -/
theorem walk_of_chain (lim : Nat) (ovr : Option Nat) (bs : List TopBox) (off fuel : Nat)
    (hc : Chain s lim ovr off lim bs) (hf : lim < off + 8 * fuel ∨ (bs = [] )) :
    walk s ovr fuel off lim = .clean bs := by
  induction bs generalizing off fuel with
  | nil =>
    have : off = lim := hc
    subst this
    cases fuel with
    | zero => rfl
    | succ f => simp [walk]
  | cons b rest ih =>
    obtain ⟨h1, h2, h3, h4⟩ := hc
    have hle := Chain.le s h4
    rcases hf with hf | hf
    · cases fuel with
      | zero => omega
      | succ f =>
        have hlt : ¬ off ≥ lim := by omega
        simp only [walk, hlt, if_false, h1]
        have : ¬ b.endOff > lim := by omega
        simp only [this, if_false]
        rw [ih b.endOff f h4 (by
          by_cases hr : rest = []
          · exact Or.inr hr
          · left; omega)]
    · cases hf

end
end MediaSan.Mp4
