/-
  C01 / C04, the traversal: what a mutation of ONE chunk-offset table does to the serialisation of the freshly parsed
  box tree over a region of the stream - the region's bytes with the table's bytes replaced ("spliced"), nothing else
  touched - where the table is the one the INDEPENDENT walker finds (`trakTable`, `moovTables`).
-/
import MediaSan.Lemmas.TreeRel
import MediaSan.Lemmas.Mp4Header
namespace MediaSan.Mp4
open MediaSan MediaSan.Spec.Mp4Walk MediaSan.Spec.Mp4Rules

section
variable (s : Stream)

/-- geometry of freshly parsed children against the walker's boxes: the header re-encodes to the bytes it was read
    from, and declares the payload the walker sees (or runs to the end of the region) -/
def HGeo {C : Type} : List (Box C) → List TopBox → Prop
  | [], [] => True
  | c :: cs, b :: bs =>
    b.hdrLen = c.hdr.encodedLen ∧ encodeHeader c.hdr = s.read b.offset b.hdrLen ∧
    (c.hdr.dataSize = .ok (some b.payloadLen) ∨ c.hdr.dataSize = .ok none) ∧ HGeo cs bs
  | _, _ => False

theorem parseBoxes_geo {C : Type} (fuel off lim : Nat) (cs : List (Box C)) (hfuel : lim - off ≤ fuel) (hle : off ≤ lim)
    (hp : parseBoxes fuel (s.read off (lim - off)) = .ok cs) :
    ∃ bs, Chain s lim none off lim bs ∧ Corr s cs bs ∧ HGeo s cs bs := by
  induction fuel generalizing off cs with
  | zero =>
    simp only [parseBoxes, PureRes.ok.injEq] at hp
    subst hp
    exact ⟨[], by unfold Chain; omega, trivial, trivial⟩
  | succ f ih =>
    simp only [parseBoxes] at hp
    by_cases hem : (s.read off (lim - off)).isEmpty = true
    · simp only [hem, if_true, PureRes.ok.injEq] at hp
      subst hp
      have : lim - off = 0 := by
        have := read_length s off (lim - off)
        simp only [List.isEmpty_iff] at hem
        rw [hem] at this; simpa using this.symm
      exact ⟨[], by unfold Chain; omega, trivial, trivial⟩
    · have hem' : (s.read off (lim - off)).isEmpty = false := by simpa using hem
      simp only [hem', Bool.false_eq_true, if_false] at hp
      cases hd : decodeHeader (s.read off (lim - off)) with
      | none => rw [hd] at hp; cases hp
      | some x =>
        obtain ⟨h, rest⟩ := x
        rw [hd] at hp
        dsimp only at hp
        obtain ⟨hh, hel, hrest⟩ := decode_read s off (lim - off) h rest hd
        obtain ⟨hwf, henc⟩ := decode_wf _ h rest hd
        have hencl := encodeHeader_length h hwf
        have henc' : encodeHeader h = s.read off h.encodedLen := by
          have := congrArg (List.take h.encodedLen) henc
          rw [take_append_len _ _ _ hencl, read_take s off (lim - off) h.encodedLen hel] at this
          exact this
        have h8 := encodedLen_ge8 h
        have hspec := headerAt_of s off lim none h hh (by omega)
        cases hds : h.dataSize with
        | error e => rw [hds] at hp; cases hp
        | ok o =>
          rw [hds] at hp
          cases o with
          | none =>
            dsimp only at hp
            simp only [PureRes.ok.injEq] at hp
            subst hp
            have hb := spec_untilEof off lim none h hds (Or.inl rfl)
            refine ⟨[⟨off, h.encodedLen, name4 h, lim, false⟩], ⟨by rw [hspec]; exact hb, rfl, by dsimp only; omega, rfl⟩, ?_, ?_⟩
            · refine ⟨rfl, hh.2.1, ?_, by dsimp only [TopBox.payloadOff]; omega, trivial⟩
              dsimp only [TopBox.payloadOff, TopBox.payloadLen]
              rw [hrest]
              congr 2
              omega
            · exact ⟨rfl, henc', Or.inr hds, trivial⟩
          | some n =>
            dsimp only at hp
            rw [hrest, read_length] at hp
            by_cases hn : n ≤ lim - off - h.encodedLen
            · simp only [hn, if_true] at hp
              rw [read_drop, read_take s _ _ n hn] at hp
              have e2 : lim - off - h.encodedLen - n = lim - (off + h.encodedLen + n) := by omega
              rw [e2] at hp
              cases hrec : parseBoxes (C := C) f (s.read (off + h.encodedLen + n) (lim - (off + h.encodedLen + n))) with
              | err e => rw [hrec] at hp; cases hp
              | panic m => rw [hrec] at hp; cases hp
              | ok cs' =>
                rw [hrec] at hp
                simp only [PureRes.ok.injEq] at hp
                subst hp
                obtain ⟨bs', hc', hcorr', hgeo'⟩ := ih (off + h.encodedLen + n) cs' (by omega) (by omega) hrec
                have hb := spec_sized off lim none h n hds
                refine ⟨⟨off, h.encodedLen, name4 h, off + h.encodedLen + n, true⟩ :: bs',
                  ⟨by rw [hspec]; exact hb, rfl, by dsimp only; omega, hc'⟩, ?_, ?_⟩
                · refine ⟨rfl, hh.2.1, ?_, by dsimp only [TopBox.payloadOff]; omega, hcorr'⟩
                  dsimp only [TopBox.payloadOff, TopBox.payloadLen]
                  congr 2
                  omega
                · refine ⟨rfl, henc', Or.inl ?_, hgeo'⟩
                  rw [hds]
                  dsimp only [TopBox.payloadOff, TopBox.payloadLen]
                  congr 2
                  omega
            · simp only [hn, if_false] at hp
              cases hp

theorem children_geo {C : Type} (b : TopBox) (cs : List (Box C)) (hle : b.payloadOff ≤ b.endOff)
    (hp : parseContainer (s.read b.payloadOff b.payloadLen) = .ok cs) :
    ∃ bs, children s b = some bs ∧ Chain s b.endOff none b.payloadOff b.endOff bs ∧ Corr s cs bs ∧ HGeo s cs bs := by
  unfold parseContainer at hp
  rw [read_length] at hp
  have hlen : b.payloadLen = b.endOff - b.payloadOff := rfl
  rw [hlen] at hp
  obtain ⟨bs, hc, hcorr, hgeo⟩ := parseBoxes_geo s (b.endOff - b.payloadOff) b.payloadOff b.endOff cs (Nat.le_refl _) hle hp
  refine ⟨bs, ?_, hc, hcorr, hgeo⟩
  unfold children walkAll
  rw [walk_of_chain s b.endOff none bs b.payloadOff _ hc (by left; omega)]


/-- a freshly parsed box serialises to the bytes of its region -/
theorem box_fresh {C : Type} (K : Ser C) (c : Box C) (b : TopBox)
    (h3 : c.data = .bytes (s.read b.payloadOff b.payloadLen)) (h4 : b.payloadOff ≤ b.endOff)
    (g1 : b.hdrLen = c.hdr.encodedLen) (g2 : encodeHeader c.hdr = s.read b.offset b.hdrLen)
    (g3 : c.hdr.dataSize = .ok (some b.payloadLen) ∨ c.hdr.dataSize = .ok none) :
    Box.ser K c = s.read b.offset (b.endOff - b.offset) ∧ Box.len K c = b.endOff - b.offset := by
  have hcalc : c.calcHeader K = c.hdr := by
    rcases g3 with g | g
    · exact calcHeader_same K c b.payloadLen g (by rw [h3]; simp [Data.len, read_length])
    · exact calcHeader_eof K c g
  have hpo : b.payloadOff = b.offset + b.hdrLen := rfl
  have hpl : b.payloadLen = b.endOff - b.payloadOff := rfl
  have e : b.endOff - b.offset = b.hdrLen + b.payloadLen := by omega
  constructor
  · simp only [Box.ser, hcalc, g2, h3, Data.ser]
    rw [e, read_append, ← hpo]
  · simp only [Box.len, hcalc, ← g1, h3, Data.len, read_length]
    omega

/-- freshly parsed children serialise to the bytes of the region they tile -/
theorem ser_fresh {C : Type} (K : Ser C) (lim : Nat) (cs : List (Box C)) (bs : List TopBox) (lo hi : Nat)
    (hch : Chain s lim none lo hi bs) (hc : Corr s cs bs) (hg : HGeo s cs bs) :
    (listSer K).ser cs = s.read lo (hi - lo) ∧ (listSer K).len cs = hi - lo := by
  induction cs generalizing bs lo with
  | nil =>
    cases bs with
    | nil =>
      have : lo = hi := hch
      subst this
      simp [listSer, Stream.read]
    | cons b bs => exact hc.elim
  | cons c cs ih =>
    cases bs with
    | nil => exact hc.elim
    | cons b bs =>
      obtain ⟨_, _, h3, h4, h5⟩ := hc
      obtain ⟨g1, g2, g3, g4⟩ := hg
      obtain ⟨_, k2, k3, k4⟩ := hch
      obtain ⟨i1, i2⟩ := ih bs b.endOff k4 h5 g4
      obtain ⟨b1, b2⟩ := box_fresh s K c b h3 h4 g1 g2 g3
      have hle := Chain.le s k4
      have e : hi - lo = (b.endOff - b.offset) + (hi - b.endOff) := by omega
      constructor
      · simp only [listSer, List.map_cons, List.flatten_cons] at i1 ⊢
        rw [b1, i1, e, read_append, k2]
        congr 2; omega
      · simp only [listSer, List.map_cons, List.sum_cons] at i2 ⊢
        rw [b2, i2]; omega

theorem modify_bytes2 {C α : Type} (parse : Bytes → PureRes C) (g : C → PureRes (C × α)) (x : Bytes) (d : Data C) (a : α)
    (h : (Data.bytes x).modify parse g = .ok (d, a)) :
    ∃ inner r, parse x = .ok inner ∧ g inner = .ok (r, a) ∧ d = .parsed r := by
  unfold Data.modify at h
  obtain ⟨inner, h1, h2⟩ := pure_bind_ok _ _ _ h
  obtain ⟨ra, h3, h4⟩ := pure_bind_ok _ _ _ h2
  obtain ⟨r, a'⟩ := ra
  simp only [pure, PureRes.ok.injEq, Prod.mk.injEq] at h4
  exact ⟨inner, r, h1, by rw [h3, h4.2], h4.1.symm⟩

/-- `get_mut::<T>().next()` + mutation on freshly parsed children: the first box of that name is parsed and mutated;
    if the mutation keeps the encoded length, the children then serialise to the region's bytes with that box's payload
    replaced by the mutated one -/
theorem modifyFirst_splice {C α : Type} (K : Ser C) (nm : Bytes) (hnm : nm ≠ uuidName) (parse : Bytes → PureRes C)
    (g : C → PureRes (C × α)) (lim : Nat) (cs : List (Box C)) (bs : List TopBox) (lo hi : Nat)
    (hch : Chain s lim none lo hi bs) (hc : Corr s cs bs) (hg : HGeo s cs bs) (cs' : List (Box C)) (a : α)
    (h : modifyFirst (.fourcc nm) parse g cs = .ok (cs', a)) :
    ∃ b pre post, bs = pre ++ b :: post ∧ (∀ x ∈ pre, x.name ≠ nm) ∧ b.name = nm ∧
      lo ≤ b.offset ∧ b.payloadOff ≤ b.endOff ∧ b.endOff ≤ hi ∧
      ∃ inner r, parse (s.read b.payloadOff b.payloadLen) = .ok inner ∧ g inner = .ok (r, a) ∧
        (K.len r = b.payloadLen →
          (listSer K).ser cs' = s.read lo (b.payloadOff - lo) ++ K.ser r ++ s.read b.endOff (hi - b.endOff) ∧
          (listSer K).len cs' = hi - lo) := by
  induction cs generalizing bs cs' a lo with
  | nil => simp [modifyFirst] at h
  | cons c cs ih =>
    cases bs with
    | nil => exact hc.elim
    | cons b bs =>
      obtain ⟨h1, h2, h3, h4, h5⟩ := hc
      obtain ⟨g1, g2, g3, g4⟩ := hg
      obtain ⟨_, k2, k3, k4⟩ := hch
      have hle := Chain.le s k4
      have e := corr_ty c b nm hnm h1 h2
      unfold modifyFirst at h
      rw [e] at h
      by_cases hb : b.name = nm
      · simp only [hb, decide_true, if_true] at h
        obtain ⟨da, hm, hx⟩ := pure_bind_ok _ _ _ h
        obtain ⟨d, a'⟩ := da
        rw [h3] at hm
        obtain ⟨inner, r, p1, p2, hd⟩ := modify_bytes2 parse g _ d a' hm
        simp only [pure, PureRes.ok.injEq, Prod.mk.injEq] at hx
        obtain ⟨hx1, hx2⟩ := hx
        refine ⟨b, [], bs, rfl, (by intro x hx'; cases hx'), hb, by omega, h4, hle, inner, r, p1, by rw [p2, hx2], ?_⟩
        intro hlen
        obtain ⟨i1, i2⟩ := ser_fresh s K lim cs bs b.endOff hi k4 h5 g4
        have hcalc : (Box.mk c.hdr (Data.parsed r)).calcHeader K = c.hdr := by
          rcases g3 with g | g
          · exact calcHeader_same K _ b.payloadLen g (by simp [Data.len, hlen])
          · exact calcHeader_eof K _ g
        have hpo : b.payloadOff = b.offset + b.hdrLen := rfl
        have hpl : b.payloadLen = b.endOff - b.payloadOff := rfl
        subst hx1 hd
        constructor
        · simp only [listSer, List.map_cons, List.flatten_cons] at i1 ⊢
          simp only [Box.ser, hcalc, g2, Data.ser, i1]
          have : b.payloadOff - lo = b.hdrLen := by omega
          rw [this, k2]
        · simp only [listSer, List.map_cons, List.sum_cons] at i2 ⊢
          simp only [Box.len, hcalc, ← g1, Data.len, hlen, i2]
          omega
      · simp only [hb, decide_false, Bool.false_eq_true, if_false] at h
        obtain ⟨ba, hm, hx⟩ := pure_bind_ok _ _ _ h
        obtain ⟨bs', a'⟩ := ba
        simp only [pure, PureRes.ok.injEq, Prod.mk.injEq] at hx
        obtain ⟨hx1, hx2⟩ := hx
        obtain ⟨b0, pre, post, e0, e1, e2, q1, q2, q3, inner, r, p1, p2, p3⟩ := ih bs b.endOff k4 h5 g4 bs' a' hm
        refine ⟨b0, b :: pre, post, by rw [e0]; rfl, ?_, e2, by omega, q2, q3, inner, r, p1, by rw [p2, hx2], ?_⟩
        · intro x hx'
          rcases List.mem_cons.mp hx' with q | q
          · rw [q]; exact hb
          · exact e1 x q
        · intro hlen
          obtain ⟨j1, j2⟩ := p3 hlen
          obtain ⟨b1, b2⟩ := box_fresh s K c b h3 h4 g1 g2 g3
          subst hx1
          have hq : b0.payloadOff = b0.offset + b0.hdrLen := rfl
          constructor
          · simp only [listSer, List.map_cons, List.flatten_cons] at j1 ⊢
            rw [b1, j1]
            have : b0.payloadOff - lo = (b.endOff - b.offset) + (b0.payloadOff - b.endOff) := by omega
            rw [this, read_append, k2]
            have : lo + (b.endOff - lo) = b.endOff := by omega
            rw [this]
            simp [List.append_assoc]
          · simp only [listSer, List.map_cons, List.sum_cons] at j2 ⊢
            rw [b2, j2]; omega


/-- `get_one_mut::<T>()` on freshly parsed children: the walker's `only`, with the splice -/
theorem getOne_splice {C α : Type} (K : Ser C) (nm : Bytes) (hnm : nm ≠ uuidName) (parse : Bytes → PureRes C)
    (g : C → PureRes (C × α)) (lim : Nat) (cs : List (Box C)) (bs : List TopBox) (lo hi : Nat)
    (hch : Chain s lim none lo hi bs) (hc : Corr s cs bs) (hg : HGeo s cs bs) (cs' : List (Box C)) (a : α)
    (h : getOneMut (.fourcc nm) parse g cs = .ok (cs', a)) :
    ∃ b, only nm bs = some b ∧ lo ≤ b.offset ∧ b.payloadOff ≤ b.endOff ∧ b.endOff ≤ hi ∧
      ∃ inner r, parse (s.read b.payloadOff b.payloadLen) = .ok inner ∧ g inner = .ok (r, a) ∧
        (K.len r = b.payloadLen →
          (listSer K).ser cs' = s.read lo (b.payloadOff - lo) ++ K.ser r ++ s.read b.endOff (hi - b.endOff) ∧
          (listSer K).len cs' = hi - lo) := by
  unfold getOneMut at h
  split at h
  · rename_i hcnt
    obtain ⟨b, pre, post, e0, e1, e2, q1, q2, q3, rest⟩ := modifyFirst_splice s K nm hnm parse g lim cs bs lo hi hch hc hg cs' a h
    refine ⟨b, ?_, q1, q2, q3, rest⟩
    rw [(corr_filter_len s nm hnm cs bs hc).1] at hcnt
    unfold only
    have hpre : pre.filter (fun x => decide (x.name = nm)) = [] := by
      rw [List.filter_eq_nil_iff]; intro x hx; simpa using e1 x hx
    have hf : bs.filter (fun x => decide (x.name = nm)) = b :: post.filter (fun x => decide (x.name = nm)) := by
      rw [e0, List.filter_append, hpre, List.nil_append, List.filter_cons_of_pos (by simp [e2])]
    rw [hf] at hcnt ⊢
    cases hpost : post.filter (fun x => decide (x.name = nm)) with
    | nil => rfl
    | cons y ys => rw [hpost] at hcnt; simp at hcnt
  · cases h

/-- moving a splice of an inner region out into the enclosing one -/
theorem splice_lift (lo a p q b hi : Nat) (e : Bytes) (h1 : lo ≤ a) (h2 : a ≤ p) (h3 : q ≤ b) (h4 : b ≤ hi) :
    s.read lo (a - lo) ++ (s.read a (p - a) ++ e ++ s.read q (b - q)) ++ s.read b (hi - b) =
      s.read lo (p - lo) ++ e ++ s.read q (hi - q) := by
  have e1 : p - lo = (a - lo) + (p - a) := by omega
  have e2 : hi - q = (b - q) + (hi - b) := by omega
  rw [e1, e2, read_append, read_append]
  have : lo + (a - lo) = a := by omega
  rw [this]
  have : q + (b - q) = b := by omega
  rw [this]
  simp [List.append_assoc]

/-- a mutation of a chunk-offset table that keeps its shape (both the accessor of the scan and the displacement do) -/
def KeepsShape {α : Type} (f : Co → PureRes (Co × α)) : Prop :=
  ∀ c c' a, f c = .ok (c', a) → c'.width = c.width ∧ c'.count = c.count ∧ c'.entries.length = c.entries.length

/-- what `StcoBox::parse` / `Co64Box::parse` hold after parsing the walker's table box -/
theorem parseCo_shape (w : Nat) (b : TopBox) (co : Co) (h : parseCo w (s.read b.payloadOff b.payloadLen) = .ok co) :
    co = ⟨w, co.count, s.read (b.payloadOff + 8) (w * co.count)⟩ ∧ b.payloadLen = 8 + w * co.count ∧
    [0, 0, 0, 0] ++ natToBE 4 co.count = s.read b.payloadOff 8 := by
  have hrt := parseCo_roundtrip w _ co h
  have hlen := parseCo_len w _ co h
  simp only [read_length, coSer] at hlen
  unfold parseCo at h
  simp only [read_length] at h
  split at h; · cases h
  split at h; · cases h
  split at h; · cases h
  split at h; · cases h
  rename_i h8
  split at h; · cases h
  split at h; · cases h
  split at h; · cases h
  rename_i hrem
  simp only [PureRes.ok.injEq] at h
  have hw : co.width = w := by rw [← h]
  have hcnt : co.count = beToNat (((s.read b.payloadOff b.payloadLen).drop 4).take 4) := by rw [← h]
  have hent : co.entries = (s.read b.payloadOff b.payloadLen).drop 8 := by rw [← h]
  have hrem' : b.payloadLen - 8 = w * co.count := by rw [hcnt]; simpa using hrem
  have hpl : b.payloadLen = 8 + w * co.count := by omega
  refine ⟨?_, hpl, ?_⟩
  · cases co with | mk w' c' e' =>
    simp only at hw hent
    subst hw
    rw [hent, read_drop, hrem']
  · simp only [coSer] at hrt
    have := congrArg (List.take 8) hrt
    rw [read_take s _ _ 8 (by omega)] at this
    rw [← this, List.take_append_of_le_length (by simp [natToBE_length])]
    have e4 : (natToBE 4 co.count).length = 4 := natToBE_length 4 _
    simp [List.take_of_length_le (Nat.le_of_eq e4)]

/-- the stbl level: the one table box is parsed and mutated; the stbl's children then serialise to the region's bytes
    with the table's entries replaced by the mutated ones -/
theorem stbl_splice {α : Type} (f : Co → PureRes (Co × α)) (hf : KeepsShape f) (lim : Nat) (cs : L1) (bs : List TopBox)
    (lo hi : Nat) (hch : Chain s lim none lo hi bs) (hc : Corr s cs bs) (hg : HGeo s cs bs) (cs' : L1) (a : α)
    (h : coMutStbl f cs = .ok (cs', a)) :
    ∃ r co', (match bs.filter (fun x => decide (x.name = stcoN)), bs.filter (fun x => decide (x.name = co64N)) with
      | [b], [] => tableOf s b 4
      | [], [b] => tableOf s b 8
      | _, _ => none) = some r ∧
      f ⟨r.width, r.count, s.read r.off (r.width * r.count)⟩ = .ok (co', a) ∧ lo ≤ r.off ∧ r.endOff ≤ hi ∧
      ser1.ser cs' = s.read lo (r.off - lo) ++ co'.entries ++ s.read r.endOff (hi - r.endOff) ∧ ser1.len cs' = hi - lo := by
  unfold coMutStbl at h
  have hs := corr_filter_len s stcoN (by decide) cs bs hc
  have h6 := corr_filter_len s co64N (by decide) cs bs hc
  have eS : STCO = BoxType.fourcc stcoN := rfl
  have e6 : CO64 = BoxType.fourcc co64N := rfl
  rw [eS, e6] at h
  dsimp only at h
  -- what one table box of width `w` gives
  have leaf : ∀ (w : Nat) (nm : Bytes) (hnm : nm ≠ uuidName),
      getOneMut (.fourcc nm) (parseCo w) f cs = .ok (cs', a) →
      ∃ b r co', only nm bs = some b ∧ tableOf s b w = some r ∧
        f ⟨r.width, r.count, s.read r.off (r.width * r.count)⟩ = .ok (co', a) ∧ lo ≤ r.off ∧ r.endOff ≤ hi ∧
        ser1.ser cs' = s.read lo (r.off - lo) ++ co'.entries ++ s.read r.endOff (hi - r.endOff) ∧ ser1.len cs' = hi - lo := by
    intro w nm hnm hget
    obtain ⟨b, hb, q1, q2, q3, inner, co', p1, p2, p3⟩ := getOne_splice s coSer nm hnm (parseCo w) f lim cs bs lo hi hch hc hg cs' a hget
    obtain ⟨t1, _⟩ := parseCo_table s w b inner p1
    obtain ⟨sh1, sh2, sh3⟩ := parseCo_shape s w b inner p1
    obtain ⟨k1, k2, k3⟩ := hf inner co' a p2
    have hpo : b.payloadOff = b.offset + b.hdrLen := rfl
    have hpl : b.payloadLen = b.endOff - b.payloadOff := rfl
    have hel : inner.entries.length = w * inner.count := by rw [sh1]; simp [read_length]
    have hlen : coSer.len co' = b.payloadLen := by simp only [coSer]; rw [k3, hel, sh2]; omega
    obtain ⟨j1, j2⟩ := p3 hlen
    refine ⟨b, ⟨b.payloadOff + 8, w, inner.count⟩, co', hb, t1, ?_, by dsimp only; omega, ?_, ?_, j2⟩
    · dsimp only; rw [← sh1]; exact p2
    · simp only [Region.endOff]; omega
    · have e : ser1 = listSer coSer := rfl
      rw [e, j1]
      simp only [coSer, k2]
      rw [sh3]
      simp only [Region.endOff]
      have e1 : b.payloadOff + 8 - lo = (b.payloadOff - lo) + 8 := by omega
      have e2 : b.payloadOff + 8 + w * inner.count = b.endOff := by omega
      rw [e1, read_append, e2]
      have : lo + (b.payloadOff - lo) = b.payloadOff := by omega
      rw [this]
      simp [List.append_assoc]
  split at h
  · cases h
  rename_i hboth
  split at h
  · rename_i hst
    have hno6 : hasType (BoxType.fourcc co64N) cs = false := by
      cases hq : hasType (BoxType.fourcc co64N) cs with
      | false => rfl
      | true => rw [hst, hq] at hboth; simp at hboth
    obtain ⟨b, r, co', hb, t1, rest⟩ := leaf 4 stcoN (by decide) h
    have hf' := only_filter stcoN bs b hb
    have h6nil : bs.filter (fun x => decide (x.name = co64N)) = [] := by
      rw [h6.2] at hno6
      rw [List.filter_eq_nil_iff]
      intro x hx
      rw [List.any_eq_false] at hno6
      exact hno6 x hx
    refine ⟨r, co', ?_, rest⟩
    rw [hf', h6nil]; exact t1
  · rename_i hst
    have hsnil : bs.filter (fun x => decide (x.name = stcoN)) = [] := by
      have : hasType (BoxType.fourcc stcoN) cs = false := by simpa using hst
      rw [hs.2] at this
      rw [List.filter_eq_nil_iff]
      intro x hx
      rw [List.any_eq_false] at this
      exact this x hx
    obtain ⟨b, r, co', hb, t1, rest⟩ := leaf 8 co64N (by decide) h
    have hf' := only_filter co64N bs b hb
    refine ⟨r, co', ?_, rest⟩
    rw [hf', hsnil]; exact t1


/-- one trak: the table the walker finds (`trakTable`) is the one that is mutated, and the trak's children then
    serialise to the trak payload's bytes with that table's entries replaced -/
theorem trak_splice {α : Type} (f : Co → PureRes (Co × α)) (hf : KeepsShape f) (t : TopBox) (hle : t.payloadOff ≤ t.endOff)
    (l4 l4' : L4) (a : α)
    (hp : parseContainer (s.read t.payloadOff t.payloadLen) = .ok l4) (h : coMutTrak f l4 = .ok (l4', a)) :
    ∃ r co', trakTable s t = some r ∧
      f ⟨r.width, r.count, s.read r.off (r.width * r.count)⟩ = .ok (co', a) ∧ t.payloadOff ≤ r.off ∧ r.endOff ≤ t.endOff ∧
      ser4.ser l4' = s.read t.payloadOff (r.off - t.payloadOff) ++ co'.entries ++ s.read r.endOff (t.endOff - r.endOff) ∧
      ser4.len l4' = t.payloadLen := by
  unfold coMutTrak at h
  have eM : MDIA = BoxType.fourcc mdiaN := rfl
  have eI : MINF = BoxType.fourcc minfN := rfl
  have eS : STBL = BoxType.fourcc stblN := rfl
  rw [eM, eI, eS] at h
  obtain ⟨c1, hc1, ch1, corr1, geo1⟩ := children_geo s t l4 hle hp
  obtain ⟨mdia, hmdia, m1, m2, m3, l3, r3, p3, g3, s3⟩ :=
    getOne_splice s ser3 mdiaN (by decide) parseContainer _ t.endOff l4 c1 t.payloadOff t.endOff ch1 corr1 geo1 l4' a h
  obtain ⟨c2, hc2, ch2, corr2, geo2⟩ := children_geo s mdia l3 m2 p3
  obtain ⟨minf, hminf, n1, n2, n3, l2, r2, p2, g2, s2⟩ :=
    getOne_splice s ser2 minfN (by decide) parseContainer _ mdia.endOff l3 c2 mdia.payloadOff mdia.endOff ch2 corr2 geo2 r3 a g3
  obtain ⟨c3, hc3, ch3, corr3, geo3⟩ := children_geo s minf l2 n2 p2
  obtain ⟨stbl, hstbl, o1, o2, o3, l1, r1, p1, g1, s1⟩ :=
    getOne_splice s ser1 stblN (by decide) parseContainer _ minf.endOff l2 c3 minf.payloadOff minf.endOff ch3 corr3 geo3 r2 a g2
  obtain ⟨c4, hc4, ch4, corr4, geo4⟩ := children_geo s stbl l1 o2 p1
  obtain ⟨r, co', hr, hfr, q1, q2, q3, q4⟩ := stbl_splice s f hf stbl.endOff l1 c4 stbl.payloadOff stbl.endOff ch4 corr4 geo4 r1 a g1
  have hs : stbl.payloadOff = stbl.offset + stbl.hdrLen := rfl
  have hn : minf.payloadOff = minf.offset + minf.hdrLen := rfl
  have hm : mdia.payloadOff = mdia.offset + mdia.hdrLen := rfl
  -- back up through the three container levels
  obtain ⟨u1, u2⟩ := s1 (by rw [q4]; rfl)
  have e2 : (listSer ser1) = ser2 := rfl
  rw [e2] at u1 u2
  rw [q3, splice_lift s minf.payloadOff stbl.payloadOff r.off r.endOff stbl.endOff minf.endOff _ (by omega) q1 q2 o3] at u1
  obtain ⟨v1, v2⟩ := s2 (by rw [u2]; rfl)
  have e3 : (listSer ser2) = ser3 := rfl
  rw [e3] at v1 v2
  rw [u1, splice_lift s mdia.payloadOff minf.payloadOff r.off r.endOff minf.endOff mdia.endOff _ (by omega) (by omega) (by omega) n3] at v1
  obtain ⟨w1, w2⟩ := s3 (by rw [v2]; rfl)
  have e4 : (listSer ser3) = ser4 := rfl
  rw [e4] at w1 w2
  rw [v1, splice_lift s t.payloadOff mdia.payloadOff r.off r.endOff mdia.endOff t.endOff _ (by omega) (by omega) (by omega) m3] at w1
  refine ⟨r, co', ?_, hfr, by omega, by omega, w1, w2⟩
  unfold trakTable
  rw [cc_mdia, cc_minf, cc_stbl, cc_stco, cc_co64]
  simp only [hc1, hmdia, hc2, hminf, hc3, hstbl, hc4, Option.bind_eq_bind, Option.bind_some]
  exact hr


/-! ### every trak of the moov -/

/-- the region [lo, hi) with the bytes of each listed table replaced (tables in stream order) -/
def msplice : Nat → Nat → List (Region × Bytes) → Bytes
  | lo, hi, [] => s.read lo (hi - lo)
  | lo, hi, (r, e) :: rest => s.read lo (r.off - lo) ++ e ++ msplice r.endOff hi rest

/-- the tables lie in [lo, hi), in order, without overlap -/
def Ordered {β : Type} : Nat → Nat → List (Region × β) → Prop
  | lo, hi, [] => lo ≤ hi
  | lo, hi, (r, _) :: rest => lo ≤ r.off ∧ Ordered r.endOff hi rest

theorem msplice_prefix (lo a hi : Nat) (T : List (Region × Bytes)) (h1 : lo ≤ a) (h2 : Ordered a hi T) :
    s.read lo (a - lo) ++ msplice s a hi T = msplice s lo hi T := by
  cases T with
  | nil =>
    have h2' : a ≤ hi := h2
    simp only [msplice]
    have e : hi - lo = (a - lo) + (hi - a) := by omega
    rw [e, read_append]
    congr 2; omega
  | cons x rest =>
    obtain ⟨r, e⟩ := x
    obtain ⟨h3, _⟩ := h2
    simp only [msplice]
    have e1 : r.off - lo = (a - lo) + (r.off - a) := by omega
    rw [e1, read_append]
    have : lo + (a - lo) = a := by omega
    rw [this]
    simp [List.append_assoc]

theorem ordered_map {β γ : Type} (g : β → γ) (lo hi : Nat) (T : List (Region × β)) (h : Ordered lo hi T) :
    Ordered lo hi (T.map fun x => (x.1, g x.2)) := by
  induction T generalizing lo with
  | nil => exact h
  | cons x rest ih => obtain ⟨r, b⟩ := x; exact ⟨h.1, ih _ h.2⟩

theorem ordered_le {β : Type} (lo hi : Nat) (T : List (Region × β)) (h : Ordered lo hi T) : lo ≤ hi := by
  induction T generalizing lo with
  | nil => exact h
  | cons x rest ih =>
    obtain ⟨r, b⟩ := x
    have := ih _ h.2
    have := h.1
    simp only [Region.endOff] at *
    omega

/-- `for trak in moov.traks()`: the tables the walker finds in the traks, in order, are the ones that are mutated (each
    with the mutation applied to exactly its entries), and the children then serialise to the region with the entries of
    every table replaced, nothing else touched -/
theorem forTraks_splice {α : Type} (f : Co → PureRes (Co × α)) (hf : KeepsShape f) (lim : Nat) (cs : L5) (bs : List TopBox)
    (lo hi : Nat) (hch : Chain s lim none lo hi bs) (hc : Corr s cs bs) (hg : HGeo s cs bs) (cs' : L5) (as : List α)
    (h : forEachOfType (BoxType.fourcc trakN) parseContainer (coMutTrak f) cs = .ok (cs', as)) :
    ∃ T : List (Region × (Co × α)),
      (bs.filter (fun x => decide (x.name = trakN))).mapM (trakTable s) = some (T.map (·.1)) ∧
      as = T.map (·.2.2) ∧
      (∀ x ∈ T, f ⟨x.1.width, x.1.count, s.read x.1.off (x.1.width * x.1.count)⟩ = .ok x.2) ∧
      Ordered lo hi T ∧
      ser5.ser cs' = msplice s lo hi (T.map fun x => (x.1, x.2.1.entries)) ∧ ser5.len cs' = hi - lo := by
  induction cs generalizing bs cs' as lo with
  | nil =>
    cases bs with
    | nil =>
      simp only [forEachOfType, PureRes.ok.injEq, Prod.mk.injEq] at h
      obtain ⟨rfl, rfl⟩ := h
      have : lo = hi := hch
      subst this
      exact ⟨[], rfl, rfl, (by intro x hx; cases hx), Nat.le_refl _, by simp [ser5, listSer, msplice, Stream.read], by simp [ser5, listSer]⟩
    | cons b bs => exact hc.elim
  | cons c cs ih =>
    cases bs with
    | nil => exact hc.elim
    | cons b bs =>
      obtain ⟨h1, h2, h3, h4, h5⟩ := hc
      obtain ⟨g1, g2, g3, g4⟩ := hg
      obtain ⟨_, k2, k3, k4⟩ := hch
      have hle := Chain.le s k4
      have e := corr_ty c b trakN (by decide) h1 h2
      have e5 : ser5 = listSer ser4 := rfl
      have hpo : b.payloadOff = b.offset + b.hdrLen := rfl
      have hpl : b.payloadLen = b.endOff - b.payloadOff := rfl
      unfold forEachOfType at h
      rw [e] at h
      by_cases hb : b.name = trakN
      · simp only [hb, decide_true, if_true] at h
        obtain ⟨da, hm, hx⟩ := pure_bind_ok _ _ _ h
        obtain ⟨d, a⟩ := da
        obtain ⟨ra, hrec, hy⟩ := pure_bind_ok _ _ _ hx
        obtain ⟨bs', as'⟩ := ra
        simp only [pure, PureRes.ok.injEq, Prod.mk.injEq] at hy
        obtain ⟨hy1, hy2⟩ := hy
        rw [h3] at hm
        obtain ⟨l4, l4', p1, p2, hd⟩ := modify_bytes2 parseContainer (coMutTrak f) _ d a hm
        obtain ⟨r, co', hr, hfr, q1, q2, q3, q4⟩ := trak_splice s f hf b h4 l4 l4' a p1 p2
        obtain ⟨T, t1, t2, t3, t4, t5, t6⟩ := ih bs b.endOff k4 h5 g4 bs' as' hrec
        have hcalc : (Box.mk c.hdr (Data.parsed l4')).calcHeader ser4 = c.hdr := by
          rcases g3 with g | g
          · exact calcHeader_same ser4 _ b.payloadLen g (by simp [Data.len, q4])
          · exact calcHeader_eof ser4 _ g
        refine ⟨(r, (co', a)) :: T, ?_, ?_, ?_, ⟨by omega, ?_⟩, ?_, ?_⟩
        · rw [List.filter_cons_of_pos (by simp [hb]), List.mapM_cons, hr]
          simp only [Option.bind_eq_bind, Option.bind_some, t1]
          rfl
        · rw [← hy2, t2]; rfl
        · intro x hx'
          rcases List.mem_cons.mp hx' with q | q
          · rw [q]; exact hfr
          · exact t3 x q
        · -- the rest starts after this trak
          have : r.endOff ≤ b.endOff := q2
          cases T with
          | nil => exact Nat.le_trans this t4
          | cons y rest => obtain ⟨ry, by'⟩ := y; exact ⟨Nat.le_trans this t4.1, t4.2⟩
        · subst hy1 hd
          rw [e5] at t5 ⊢
          simp only [listSer, List.map_cons, List.flatten_cons] at t5 ⊢
          simp only [Box.ser, hcalc, g2, Data.ser, q3, t5, msplice]
          have e1 : r.off - lo = b.hdrLen + (r.off - b.payloadOff) := by omega
          have hpo' : lo + b.hdrLen = b.payloadOff := by omega
          rw [e1, read_append, k2, hpo']
          have := msplice_prefix s r.endOff b.endOff hi (T.map fun x => (x.1, x.2.1.entries)) q2 (ordered_map (fun (y : Co × α) => y.1.entries) _ _ _ t4)
          rw [← this]
          simp [List.append_assoc]
        · subst hy1 hd
          rw [e5] at t6 ⊢
          simp only [listSer, List.map_cons, List.sum_cons] at t6 ⊢
          simp only [Box.len, hcalc, ← g1, Data.len, q4, t6]
          omega
      · simp only [hb, decide_false, Bool.false_eq_true, if_false] at h
        obtain ⟨ra, hrec, hy⟩ := pure_bind_ok _ _ _ h
        obtain ⟨bs', as'⟩ := ra
        simp only [pure, PureRes.ok.injEq, Prod.mk.injEq] at hy
        obtain ⟨hy1, hy2⟩ := hy
        obtain ⟨T, t1, t2, t3, t4, t5, t6⟩ := ih bs b.endOff k4 h5 g4 bs' as' hrec
        obtain ⟨b1, b2⟩ := box_fresh s ser4 c b h3 h4 g1 g2 g3
        have ho : Ordered lo hi T := by
          cases T with
          | nil => exact Nat.le_trans (by omega) (show b.endOff ≤ hi from t4)
          | cons y rest => obtain ⟨ry, by'⟩ := y; exact ⟨by have := t4.1; omega, t4.2⟩
        refine ⟨T, by rw [List.filter_cons_of_neg (by simp [hb])]; exact t1, by rw [← hy2]; exact t2, t3, ho, ?_, ?_⟩
        · subst hy1
          rw [e5] at t5 ⊢
          simp only [listSer, List.map_cons, List.flatten_cons] at t5 ⊢
          rw [b1, t5, k2]
          have := msplice_prefix s lo b.endOff hi (T.map fun x => (x.1, x.2.1.entries)) (by omega) (ordered_map (fun (y : Co × α) => y.1.entries) _ _ _ t4)
          rw [← this]
        · subst hy1
          rw [e5] at t6 ⊢
          simp only [listSer, List.map_cons, List.sum_cons] at t6 ⊢
          rw [b2, t6]; omega


/-- the moov box: a mutation of every trak's table, applied to the freshly read payload, is applied to exactly the tables
    the walker finds in the box (`moovTables`), and the result serialises to the payload with those entries replaced -/
theorem moov_splice {α : Type} (f : Co → PureRes (Co × α)) (hf : KeepsShape f) (m : TopBox) (hle : m.payloadOff ≤ m.endOff)
    (d' : Data L5) (as : List α)
    (h : (Data.bytes (s.read m.payloadOff m.payloadLen)).modify parseMoov (forTraks f) = .ok (d', as)) :
    ∃ T : List (Region × (Co × α)),
      moovTables s m = some (T.map (·.1)) ∧ as = T.map (·.2.2) ∧
      (∀ x ∈ T, f ⟨x.1.width, x.1.count, s.read x.1.off (x.1.width * x.1.count)⟩ = .ok x.2) ∧
      Ordered m.payloadOff m.endOff T ∧
      d'.ser ser5 = msplice s m.payloadOff m.endOff (T.map fun x => (x.1, x.2.1.entries)) ∧
      d'.len ser5 = m.payloadLen := by
  obtain ⟨cs, cs', p1, p2, hd⟩ := modify_bytes2 parseMoov (forTraks f) _ d' as h
  unfold parseMoov at p1
  obtain ⟨cs0, q1, q2⟩ := pure_bind_ok _ _ _ p1
  have eT : TRAK = BoxType.fourcc trakN := rfl
  rw [eT] at q2
  split at q2
  · rename_i htr
    simp only [pure, PureRes.ok.injEq] at q2
    subst q2
    obtain ⟨bs, hch, chain, corr, geo⟩ := children_geo s m cs0 hle q1
    unfold forTraks at p2
    rw [eT] at p2
    obtain ⟨T, t1, t2, t3, t4, t5, t6⟩ := forTraks_splice s f hf m.endOff cs0 bs m.payloadOff m.endOff chain corr geo cs' as p2
    refine ⟨T, ?_, t2, t3, t4, by rw [hd]; exact t5, by rw [hd]; exact t6⟩
    unfold moovTables
    rw [cc_trak]
    simp only [hch, Option.bind_eq_bind, Option.bind_some]
    have hne : (bs.filter (fun x => decide (x.name = trakN))).isEmpty = false := by
      rw [(corr_filter_len s trakN (by decide) cs0 bs corr).2] at htr
      cases hq : (bs.filter (fun x => decide (x.name = trakN))) with
      | nil =>
        rw [List.filter_eq_nil_iff] at hq
        rw [List.any_eq_true] at htr
        obtain ⟨x, hx1, hx2⟩ := htr
        exact absurd hx2 (hq x hx1)
      | cons y ys => rfl
    simp only [hne, Bool.false_eq_true, if_false]
    exact t1
  · cases q2

/-! ### what a splice looks like, byte by byte -/

/-- every replacement has the length of the table it replaces -/
def Fits : List (Region × Bytes) → Prop
  | [] => True
  | (r, e) :: rest => e.length = r.width * r.count ∧ Fits rest

theorem msplice_length (lo hi : Nat) (T : List (Region × Bytes)) (ho : Ordered lo hi T) (hfit : Fits T) :
    (msplice s lo hi T).length = hi - lo := by
  induction T generalizing lo with
  | nil => simp [msplice, read_length]
  | cons x rest ih =>
    obtain ⟨r, e⟩ := x
    obtain ⟨h1, h2⟩ := ho
    obtain ⟨f1, f2⟩ := hfit
    have := ih _ h2 f2
    have hle := ordered_le _ _ _ h2
    simp only [msplice, List.length_append, read_length, this, f1]
    simp only [Region.endOff] at *
    omega

theorem getD_read (p n i : Nat) (h : i < n) : (s.read p n).getD i 0 = s.get (p + i) := by
  simp [Stream.read, List.getD_eq_getElem?_getD, h]

/-- outside the tables the region is untouched -/
theorem msplice_outside (lo hi : Nat) (T : List (Region × Bytes)) (ho : Ordered lo hi T) (hfit : Fits T) (p : Nat)
    (h1 : lo ≤ p) (h2 : p < hi) (hout : inRegions (T.map (·.1)) p = false) :
    (msplice s lo hi T).getD (p - lo) 0 = s.get p := by
  induction T generalizing lo with
  | nil =>
    simp only [msplice]
    rw [getD_read s lo (hi - lo) (p - lo) (by omega)]
    congr 1; omega
  | cons x rest ih =>
    obtain ⟨r, e⟩ := x
    obtain ⟨o1, o2⟩ := ho
    obtain ⟨f1, f2⟩ := hfit
    have hle := ordered_le _ _ _ o2
    simp only [inRegions, List.map_cons, List.any_cons, Bool.or_eq_false_iff, decide_eq_false_iff_not] at hout
    obtain ⟨hr, hrest⟩ := hout
    simp only [msplice]
    by_cases hp : p < r.off
    · -- before the table
      rw [List.append_assoc, List.getD_eq_getElem?_getD, List.getElem?_append_left (by simp [read_length]; omega),
        ← List.getD_eq_getElem?_getD, getD_read s lo (r.off - lo) (p - lo) (by omega)]
      congr 1; omega
    · have hp2 : r.endOff ≤ p := by
        simp only [Region.endOff] at hr ⊢
        omega
      have hl : (s.read lo (r.off - lo) ++ e).length = r.endOff - lo := by
        simp only [List.length_append, read_length, f1, Region.endOff]; omega
      have hoe : r.off ≤ r.endOff := by simp [Region.endOff]
      rw [List.getD_eq_getElem?_getD, List.getElem?_append_right (by rw [hl]; omega), hl, ← List.getD_eq_getElem?_getD]
      have : p - lo - (r.endOff - lo) = p - r.endOff := by omega
      rw [this]
      exact ih r.endOff o2 f2 hp2 (by simpa [inRegions] using hrest)

/-- each table of the splice holds exactly its replacement -/
theorem msplice_table (lo hi : Nat) (T : List (Region × Bytes)) (ho : Ordered lo hi T) (hfit : Fits T)
    (r : Region) (e : Bytes) (hm : (r, e) ∈ T) :
    ((msplice s lo hi T).drop (r.off - lo)).take (r.width * r.count) = e := by
  induction T generalizing lo with
  | nil => cases hm
  | cons x rest ih =>
    obtain ⟨r0, e0⟩ := x
    obtain ⟨o1, o2⟩ := ho
    obtain ⟨f1, f2⟩ := hfit
    simp only [msplice]
    rcases List.mem_cons.mp hm with q | q
    · simp only [Prod.mk.injEq] at q
      obtain ⟨rfl, rfl⟩ := q
      rw [List.append_assoc, List.drop_append_of_le_length (by simp [read_length])]
      have : (s.read lo (r.off - lo)).drop (r.off - lo) = [] := by
        apply List.drop_eq_nil_of_le; simp [read_length]
      rw [this, List.nil_append, List.take_append_of_le_length (by omega), List.take_of_length_le (by omega)]
    · -- a later table
      have hin : ∀ (lo' : Nat) (T' : List (Region × Bytes)), Ordered lo' hi T' → (r, e) ∈ T' → lo' ≤ r.off := by
        intro lo' T' ho' hm'
        induction T' generalizing lo' with
        | nil => cases hm'
        | cons y ys ihy =>
          obtain ⟨ry, ey⟩ := y
          rcases List.mem_cons.mp hm' with q' | q'
          · simp only [Prod.mk.injEq] at q'; rw [q'.1]; exact ho'.1
          · have := ihy _ ho'.2 q'
            have := ho'.1
            simp only [Region.endOff] at *
            omega
      have hge := hin r0.endOff rest o2 q
      have hl : (s.read lo (r0.off - lo) ++ e0).length = r0.endOff - lo := by
        simp only [List.length_append, read_length, f1, Region.endOff]; omega
      have hoe : r0.off ≤ r0.endOff := by simp [Region.endOff]
      rw [List.drop_append, List.drop_eq_nil_of_le (by rw [hl]; omega), List.nil_append, hl]
      have : r.off - lo - (r0.endOff - lo) = r.off - r0.endOff := by omega
      rw [this]
      exact ih r0.endOff o2 f2 q

end
end MediaSan.Mp4
