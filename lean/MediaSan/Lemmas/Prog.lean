/-
  Generic theorems about I/O programs (`Prog`), independent of which sanitizer is written in them:
    * `run_bind`            — sequencing
    * `run_sim`             — parametricity: cursors related by a simulation give equal outcomes   (C11)
    * `run_faulty`          — a fault injected at operation k surfaces as `ioErr` (or as the `map_eof` parse
                              error for UnexpectedEof) or is never reached                          (C13)
-/
import MediaSan.Stream
namespace MediaSan
open MediaSan

/-- run returning the final cursor state and the number of cursor operations performed -/
def Prog.runS {E α σ} (ops : CursorOps σ) : Prog E α → σ → Nat → Outcome E (α × σ × Nat)
  | .done a, st, n => .ok (a, st, n)
  | .fail e, _, _ => .parseErr e
  | .panic s, _, _ => .panic s
  | .isEof k, st, n =>
    match ops.isEof st with
    | .ok (b, st') => (k b).runS ops st' (n + 1)
    | .error e => .ioErr e
  | .position k, st, n =>
    match ops.position st with
    | .ok (p, st') => (k p).runS ops st' (n + 1)
    | .error e => .ioErr e
  | .streamLen k, st, n =>
    match ops.streamLen st with
    | .ok (p, st') => (k p).runS ops st' (n + 1)
    | .error e => .ioErr e
  | .readExact m eof k, st, n =>
    match ops.readExact st m with
    | .ok (b, st') => (k b).runS ops st' (n + 1)
    | .error e => mapEof eof e
  | .skip m eof k, st, n =>
    match ops.skip st m with
    | .ok st' => (k ()).runS ops st' (n + 1)
    | .error e => mapEof eof e
  | .readUpTo m k, st, n =>
    match ops.readUpTo st m with
    | .ok (b, st') => (k b).runS ops st' (n + 1)
    | .error e => .ioErr e

def Outcome.map {E α β} (f : α → β) : Outcome E α → Outcome E β
  | .ok a => .ok (f a)
  | .parseErr e => .parseErr e
  | .ioErr k => .ioErr k
  | .panic s => .panic s
  | .outOfFuel => .outOfFuel

theorem mapEof_map {E α β} (f : α → β) (eof : Option E) (k : IoKind) :
    (mapEof eof k : Outcome E α).map f = mapEof eof k := by
  unfold mapEof
  cases k <;> cases eof <;> rfl

theorem run_eq_runS {E α σ} (ops : CursorOps σ) (p : Prog E α) (st : σ) (n : Nat) :
    p.run ops st = (p.runS ops st n).map (·.1) := by
  induction p generalizing st n with
  | done a => rfl
  | fail e => rfl
  | panic s => rfl
  | isEof k ih =>
    simp only [Prog.run, Prog.runS]
    cases ops.isEof st with
    | ok r => exact ih _ _ _
    | error e => rfl
  | position k ih =>
    simp only [Prog.run, Prog.runS]
    cases ops.position st with
    | ok r => exact ih _ _ _
    | error e => rfl
  | streamLen k ih =>
    simp only [Prog.run, Prog.runS]
    cases ops.streamLen st with
    | ok r => exact ih _ _ _
    | error e => rfl
  | readExact m eof k ih =>
    simp only [Prog.run, Prog.runS]
    cases ops.readExact st m with
    | ok r => exact ih _ _ _
    | error e => exact (mapEof_map _ _ _).symm
  | skip m eof k ih =>
    simp only [Prog.run, Prog.runS]
    cases ops.skip st m with
    | ok r => exact ih _ _ _
    | error e => exact (mapEof_map _ _ _).symm
  | readUpTo m k ih =>
    simp only [Prog.run, Prog.runS]
    cases ops.readUpTo st m with
    | ok r => exact ih _ _ _
    | error e => rfl

/-- sequencing: run the first program, then the continuation from the state it left -/
theorem runS_bind {E α β σ} (ops : CursorOps σ) (p : Prog E α) (f : α → Prog E β) (st : σ) (n : Nat) :
    (p.bind f).runS ops st n =
      match p.runS ops st n with
      | .ok (a, st', n') => (f a).runS ops st' n'
      | .parseErr e => .parseErr e
      | .ioErr k => .ioErr k
      | .panic s => .panic s
      | .outOfFuel => .outOfFuel := by
  induction p generalizing st n with
  | done a => rfl
  | fail e => rfl
  | panic s => rfl
  | isEof k ih =>
    simp only [Prog.bind, Prog.runS]
    cases ops.isEof st with
    | ok r => exact ih _ _ _
    | error e => rfl
  | position k ih =>
    simp only [Prog.bind, Prog.runS]
    cases ops.position st with
    | ok r => exact ih _ _ _
    | error e => rfl
  | streamLen k ih =>
    simp only [Prog.bind, Prog.runS]
    cases ops.streamLen st with
    | ok r => exact ih _ _ _
    | error e => rfl
  | readExact m eof k ih =>
    simp only [Prog.bind, Prog.runS]
    cases ops.readExact st m with
    | ok r => exact ih _ _ _
    | error e => cases e <;> cases eof <;> rfl
  | skip m eof k ih =>
    simp only [Prog.bind, Prog.runS]
    cases ops.skip st m with
    | ok r => exact ih _ _ _
    | error e => cases e <;> cases eof <;> rfl
  | readUpTo m k ih =>
    simp only [Prog.bind, Prog.runS]
    cases ops.readUpTo st m with
    | ok r => exact ih _ _ _
    | error e => rfl

/-! ### parametricity (C11) -/

/-- results of one cursor operation on two implementations agree and leave related states -/
def RelRes {σ₁ σ₂ β} (R : σ₁ → σ₂ → Prop) : Except IoKind (β × σ₁) → Except IoKind (β × σ₂) → Prop
  | .ok (x, a), .ok (y, b) => x = y ∧ R a b
  | .error e, .error f => e = f
  | _, _ => False

def RelSt {σ₁ σ₂} (R : σ₁ → σ₂ → Prop) : Except IoKind σ₁ → Except IoKind σ₂ → Prop
  | .ok a, .ok b => R a b
  | .error e, .error f => e = f
  | _, _ => False

/-- `R` is a simulation between two cursor implementations: every operation gives the same answer -/
structure Sim {σ₁ σ₂} (o₁ : CursorOps σ₁) (o₂ : CursorOps σ₂) (R : σ₁ → σ₂ → Prop) : Prop where
  isEof : ∀ a b, R a b → RelRes R (o₁.isEof a) (o₂.isEof b)
  position : ∀ a b, R a b → RelRes R (o₁.position a) (o₂.position b)
  streamLen : ∀ a b, R a b → RelRes R (o₁.streamLen a) (o₂.streamLen b)
  readExact : ∀ a b n, R a b → RelRes R (o₁.readExact a n) (o₂.readExact b n)
  skip : ∀ a b n, R a b → RelSt R (o₁.skip a n) (o₂.skip b n)
  readUpTo : ∀ a b n, R a b → RelRes R (o₁.readUpTo a n) (o₂.readUpTo b n)

theorem relRes_cases {σ₁ σ₂ β} {R : σ₁ → σ₂ → Prop} {x : Except IoKind (β × σ₁)} {y : Except IoKind (β × σ₂)}
    (h : RelRes R x y) :
    (∃ v a' b', x = .ok (v, a') ∧ y = .ok (v, b') ∧ R a' b') ∨ (∃ e, x = .error e ∧ y = .error e) := by
  match x, y, h with
  | .ok (v, a'), .ok (w, b'), h => exact Or.inl ⟨v, a', b', rfl, by rw [h.1], h.2⟩
  | .error e, .error f, h => exact Or.inr ⟨e, rfl, by rw [show e = f from h]⟩

theorem relSt_cases {σ₁ σ₂} {R : σ₁ → σ₂ → Prop} {x : Except IoKind σ₁} {y : Except IoKind σ₂}
    (h : RelSt R x y) :
    (∃ a' b', x = .ok a' ∧ y = .ok b' ∧ R a' b') ∨ (∃ e, x = .error e ∧ y = .error e) := by
  match x, y, h with
  | .ok a', .ok b', h => exact Or.inl ⟨a', b', rfl, rfl, h⟩
  | .error e, .error f, h => exact Or.inr ⟨e, rfl, by rw [show e = f from h]⟩

/-- Parametricity: any program — in particular either sanitizer — returns the same outcome on two cursor
    implementations related by a simulation. -/
theorem run_sim {E α σ₁ σ₂} {o₁ : CursorOps σ₁} {o₂ : CursorOps σ₂} {R : σ₁ → σ₂ → Prop}
    (sim : Sim o₁ o₂ R) (p : Prog E α) (a : σ₁) (b : σ₂) (h : R a b) : p.run o₁ a = p.run o₂ b := by
  induction p generalizing a b with
  | done x => rfl
  | fail e => rfl
  | panic s => rfl
  | isEof k ih =>
    simp only [Prog.run]
    rcases relRes_cases (sim.isEof a b h) with ⟨v, a', b', h1, h2, hr⟩ | ⟨e, h1, h2⟩
    · rw [h1, h2]; exact ih _ _ _ hr
    · rw [h1, h2]
  | position k ih =>
    simp only [Prog.run]
    rcases relRes_cases (sim.position a b h) with ⟨v, a', b', h1, h2, hr⟩ | ⟨e, h1, h2⟩
    · rw [h1, h2]; exact ih _ _ _ hr
    · rw [h1, h2]
  | streamLen k ih =>
    simp only [Prog.run]
    rcases relRes_cases (sim.streamLen a b h) with ⟨v, a', b', h1, h2, hr⟩ | ⟨e, h1, h2⟩
    · rw [h1, h2]; exact ih _ _ _ hr
    · rw [h1, h2]
  | readExact m eof k ih =>
    simp only [Prog.run]
    rcases relRes_cases (sim.readExact a b m h) with ⟨v, a', b', h1, h2, hr⟩ | ⟨e, h1, h2⟩
    · rw [h1, h2]; exact ih _ _ _ hr
    · rw [h1, h2]
  | skip m eof k ih =>
    simp only [Prog.run]
    rcases relSt_cases (sim.skip a b m h) with ⟨a', b', h1, h2, hr⟩ | ⟨e, h1, h2⟩
    · rw [h1, h2]; exact ih _ _ _ hr
    · rw [h1, h2]
  | readUpTo m k ih =>
    simp only [Prog.run]
    rcases relRes_cases (sim.readUpTo a b m h) with ⟨v, a', b', h1, h2, hr⟩ | ⟨e, h1, h2⟩
    · rw [h1, h2]; exact ih _ _ _ hr
    · rw [h1, h2]

/-! ### fault injection (C13) -/

/-- the cursor `ops` with operation number `k` (counting from 0, over all five operations) failing with `e` -/
def faultyOps {σ} (ops : CursorOps σ) (k : Nat) (e : IoKind) : CursorOps (σ × Nat) where
  isEof s := if s.2 = k then .error e else (ops.isEof s.1).map fun (b, st) => (b, (st, s.2 + 1))
  position s := if s.2 = k then .error e else (ops.position s.1).map fun (b, st) => (b, (st, s.2 + 1))
  streamLen s := if s.2 = k then .error e else (ops.streamLen s.1).map fun (b, st) => (b, (st, s.2 + 1))
  readExact s n := if s.2 = k then .error e else (ops.readExact s.1 n).map fun (b, st) => (b, (st, s.2 + 1))
  skip s n := if s.2 = k then .error e else (ops.skip s.1 n).map fun st => (st, s.2 + 1)
  readUpTo s n := if s.2 = k then .error e else (ops.readUpTo s.1 n).map fun (b, st) => (b, (st, s.2 + 1))

/-- what a run may yield once an injected fault `e` has been consumed -/
def FaultOutcome {E α} (e : IoKind) (r : Outcome E α) : Prop :=
  r = .ioErr e ∨ (e = .unexpectedEof ∧ ∃ pe, r = .parseErr pe)

theorem mapEof_fault {E α} (eof : Option E) (e : IoKind) : FaultOutcome e (mapEof eof e : Outcome E α) := by
  unfold mapEof FaultOutcome
  cases e <;> cases eof <;> simp

/-- Fault propagation, for every program, cursor, fault position and error kind: with the fault injected at
    operation `k`, either the fault-free run performs at most `k` operations before finishing (then the
    outcome is the fault-free one), or the outcome is `ioErr e` — or, for UnexpectedEof only, the parse error of
    the `map_eof` site that consumed it.  In particular a consumed fault never yields `ok` and never a panic. -/
theorem run_faulty {E α σ} (ops : CursorOps σ) (k : Nat) (e : IoKind) (p : Prog E α) (st : σ) (n : Nat)
    (hn : n ≤ k) :
    p.run (faultyOps ops k e) (st, n) = p.run ops st ∨ FaultOutcome e (p.run (faultyOps ops k e) (st, n)) := by
  induction p generalizing st n with
  | done a => left; rfl
  | fail x => left; rfl
  | panic s => left; rfl
  | isEof f ih =>
    simp only [Prog.run, faultyOps]
    by_cases hk : n = k
    · right; simp [hk, FaultOutcome]
    · simp only [hk, if_false]
      cases ops.isEof st with
      | error x => left; rfl
      | ok r => exact ih _ _ _ (by omega)
  | position f ih =>
    simp only [Prog.run, faultyOps]
    by_cases hk : n = k
    · right; simp [hk, FaultOutcome]
    · simp only [hk, if_false]
      cases ops.position st with
      | error x => left; rfl
      | ok r => exact ih _ _ _ (by omega)
  | streamLen f ih =>
    simp only [Prog.run, faultyOps]
    by_cases hk : n = k
    · right; simp [hk, FaultOutcome]
    · simp only [hk, if_false]
      cases ops.streamLen st with
      | error x => left; rfl
      | ok r => exact ih _ _ _ (by omega)
  | readExact m eof f ih =>
    simp only [Prog.run, faultyOps]
    by_cases hk : n = k
    · right; simp only [hk, if_true]; exact mapEof_fault eof e
    · simp only [hk, if_false]
      cases ops.readExact st m with
      | error x => left; rfl
      | ok r => exact ih _ _ _ (by omega)
  | skip m eof f ih =>
    simp only [Prog.run, faultyOps]
    by_cases hk : n = k
    · right; simp only [hk, if_true]; exact mapEof_fault eof e
    · simp only [hk, if_false]
      cases ops.skip st m with
      | error x => left; rfl
      | ok r => exact ih _ _ _ (by omega)
  | readUpTo m f ih =>
    simp only [Prog.run, faultyOps]
    by_cases hk : n = k
    · right; simp [hk, FaultOutcome]
    · simp only [hk, if_false]
      cases ops.readUpTo st m with
      | error x => left; rfl
      | ok r => exact ih _ _ _ (by omega)

end MediaSan
