/-
  C09 (WebP container): termination of the chunk loops within the model's fuel, on top of the no-panic proof of
  Lemmas/WebpSafe.lean.  A header that is read from the stream (not taken from a peek) costs 8 stream bytes that
  must exist (`read_exact`), an ANMF body costs 16: a loop that still has `fuel ≥ 1` and `len + 8 ≤ pos + 8·fuel`
  (one more 8 when it starts on a peeked header) keeps that relation at every iteration, so it can never be the
  fuel that ends it.
-/
import MediaSan.Lemmas.WebpSafe
namespace MediaSan.Webp
open MediaSan

section
variable (s : Stream) (kind : SkipKind)

theorem rawRead_prog (r : RS) (k n pos : Nat) :
    Safe (idealOps s kind) (rawRead r k n) pos
      (fun x pos' => x.2 = r.consume k n ∧ pos ≤ pos' ∧ (n ≠ 0 → pos' = pos + n ∧ pos' ≤ s.len) ∧ x.1.length = n) := by
  unfold rawRead
  split
  · rename_i h0; subst h0
    refine Safe.done ⟨?_, Nat.le_refl _, fun h => absurd rfl h, rfl⟩
    simp [RS.consume]
  · split
    · apply Safe.readExact
      · intro h; rename_i h0 _; exact absurd h h0
      · intro _ hl
        refine Safe.done ⟨rfl, by omega, fun _ => ⟨rfl, hl⟩, ?_⟩
        simp [Stream.read]
    · exact Safe.fail

theorem peek_pos {r : RS} {pos k : Nat} (hk : k ≤ 2) (hinv : PeekInv r pos) (hp : isPeek (r.get k) = true) : 8 ≤ pos := by
  match k, hk with
  | 0, _ => exact hinv.1 hp
  | 1, _ => exact hinv.2.1 hp
  | 2, _ => exact hinv.2.2 hp

/-- `read_any_header` with its cost: unless it starts on a peeked header, it moves the cursor at least 8 bytes, all
    of them inside the stream -/
theorem readAnyHeader_prog (r : RS) (k pos : Nat) (hk : k ≤ 2) (hinv : PeekInv r pos) :
    Safe (idealOps s kind) (readAnyHeader r k) pos
      (fun x pos' => Post r pos k (fun c => inChunk c = true) x.2 pos' ∧
        (isPeek (r.get k) = false → pos + 8 ≤ pos' ∧ pos' ≤ s.len)) := by
  unfold readAnyHeader
  apply Safe.bind
  apply Safe.mono (readPadding_safe s kind r k pos hk hinv)
  intro r1 p1 ⟨h1, h2, h3⟩
  dsimp only
  have withHdr : ∀ (name : Bytes) (len : Nat) (r2 : RS) (p2 : Nat), p1 ≤ p2 → 8 ≤ p2 → PeekInv r2 p2 →
      (isPeek (r.get k) = false → pos + 8 ≤ p2 ∧ p2 ≤ s.len) →
      Safe (idealOps s kind)
        (Prog.position fun pos => if pos < 8 then (Prog.panic "reader.rs:127 stream_position - 8" : WP (Bytes × RS))
          else Prog.done (name, r2.set k (if len = 0 then CState.padding name len else CState.body name len len))) p2
        (fun x pos' => Post r pos k (fun c => inChunk c = true) x.2 pos' ∧
          (isPeek (r.get k) = false → pos + 8 ≤ pos' ∧ pos' ≤ s.len)) := by
    intro name len r2 p2 hp hp8 hi2 hx
    apply Safe.position
    have : ¬ p2 < 8 := by omega
    simp only [this, if_false]
    refine Safe.done ⟨⟨by omega, ?_, ?_⟩, hx⟩
    · apply hi2.set; split <;> simp [isPeek]
    · rw [get_set]; split <;> rfl
  cases hc : r1.get k with
  | peeking name len =>
    dsimp only
    have hp : isPeek (r1.get k) = true := by rw [hc]; rfl
    have h8 : 8 ≤ p1 := peek_pos hk h2 hp
    exact withHdr name len r1 p1 (Nat.le_refl _) h8 h2 (fun h => by rw [h3.2.1 hp] at h; cases h)
  | idle =>
    dsimp only
    apply Safe.bind
    apply Safe.mono (hasRemaining_safe s kind r1 k p1 hk h2)
    intro x p2 ⟨g1, g2, g3⟩
    split
    · exact Safe.fail
    · apply Safe.bind
      apply Safe.mono (rawRead_prog s kind x.2 k 8 p2)
      intro y p3 ⟨e1, e2, e3, e4⟩
      dsimp only [parseChunkHeader]
      have hp3 := e3 (by decide)
      exact withHdr (y.1.take 4) (leToNat ((y.1.drop 4).take 4)) y.2 p3 (by omega) (by omega)
        (by rw [e1]; exact (g2.consume k 8).mono e2) (fun _ => ⟨by omega, hp3.2⟩)
  | body a b c => exact Safe.fail
  | padding a b =>
    have := h3.1; rw [hc] at this; simp [isPad] at this

theorem readData_prog (r : RS) (k n pos : Nat) (hk : k ≤ 2) (hinv : PeekInv r pos) (hnp : isPeek (r.get k) = false) :
    Safe (idealOps s kind) (readData r k n) pos
      (fun x pos' => Post r pos k (fun c => inChunk c = true) x.2 pos' ∧ x.1.length = n ∧
        (n ≠ 0 → pos + n ≤ pos' ∧ pos' ≤ s.len)) := by
  unfold readData
  apply Safe.bind
  apply Safe.mono (readPadding_safe s kind r k pos hk hinv)
  intro r1 p1 ⟨h1, h2, h3⟩
  cases hc : r1.get k with
  | idle => exact Safe.fail
  | peeking a b =>
    have := h3.2.1 (by rw [hc]; rfl); rw [hnp] at this; cases this
  | body name len rem =>
    dsimp only
    split
    · exact Safe.fail
    · apply Safe.bind
      apply Safe.mono (rawRead_prog s kind r1 k n p1)
      intro y p2 ⟨e1, e2, e3, e4⟩
      refine Safe.done ⟨⟨by omega, ?_, ?_⟩, e4, fun hn => ?_⟩
      · rw [e1]; apply ((h2.consume k n).mono e2).set; split <;> simp [isPeek]
      · rw [get_set]; split <;> rfl
      · have := e3 hn; exact ⟨by omega, this.2⟩
  | padding a b =>
    have := h3.1; rw [hc] at this; simp [isPad] at this

theorem parseData_prog (r : RS) (k pos : Nat) (sc : Schema) (hk : k ≤ 2) (hinv : PeekInv r pos)
    (hnp : isPeek (r.get k) = false) :
    Safe (idealOps s kind) (parseData r k sc) pos
      (fun x pos' => Post r pos k (fun c => inChunk c = true) x.2 pos' ∧
        (sc.encodedLen ≠ 0 → pos + sc.encodedLen ≤ pos' ∧ pos' ≤ s.len)) := by
  unfold parseData
  apply Safe.bind
  apply Safe.mono (readData_prog s kind r k sc.encodedLen pos hk hinv hnp)
  intro x p1 ⟨h1, h2, h3⟩
  apply Safe.bind
  unfold liftPrim
  have := schema_parse_np sc x.1 h2
  cases hp : sc.parse x.1 with
  | ok y => exact Safe.done (Safe.done ⟨h1, h3⟩)
  | error e =>
    cases e with
    | truncated => exact Safe.fail
    | invalidInput => exact Safe.fail
    | panic => exact absurd hp this

/-- the fuel every loop of `sanitizeP` is started with is enough wherever in the stream the loop starts -/
def FuelOK (fuel : Nat) : Prop := s.len + 9 ≤ 8 * fuel

/-- the unknown-chunk loops end by themselves: on a value (`some`), or on an error — never on the fuel -/
theorem trailingLoop_term (hV : ValidateNP) (cfg : Config) (k : Nat) (inAnmf : Bool) (fuel : Nat) (r : RS) (pos : Nat)
    (hk : k ≤ 2) (hinv : PeekInv r pos)
    (hf : 1 + (if isPeek (r.get k) = true then 1 else 0) ≤ fuel)
    (hb : s.len + 8 + (if isPeek (r.get k) = true then 8 else 0) ≤ pos + 8 * fuel) :
    Safe (idealOps s kind) (trailingLoop cfg k inAnmf fuel r) pos
      (fun o pos' => ∃ r', o = some r' ∧ Fwd pos r' pos') := by
  induction fuel generalizing r pos with
  | zero => omega
  | succ n ih =>
    unfold trailingLoop
    apply Safe.bind
    apply Safe.mono (hasRemaining_safe s kind r k pos hk hinv)
    intro x p1 ⟨h1, h2, h3⟩
    obtain ⟨more, r1⟩ := x
    dsimp only at h2 h3 ⊢
    split
    · exact Safe.done ⟨r1, rfl, h1, h2⟩
    · apply Safe.bind
      apply Safe.mono (readAnyHeader_prog s kind r1 k p1 hk h2)
      intro y p2 ⟨⟨g1, g2, g3⟩, g4⟩
      obtain ⟨name, r2⟩ := y
      dsimp only at g2 g3 ⊢
      split
      · exact Safe.fail
      · split
        · exact Safe.fail
        · apply Safe.bind
          apply Safe.mono (skipData_safe s kind r2 k p2 hk g2 (inChunk_not_peek g3))
          intro r3 p3 ⟨f1, f2, f3⟩
          have hnp3 : isPeek (r3.get k) = false := f3
          have key : 1 ≤ n ∧ s.len + 8 ≤ p3 + 8 * n := by
            cases hp1 : isPeek (r1.get k) with
            | true =>
              have hpr := h3.2.1 hp1
              rw [hpr] at hf hb
              simp only [if_true] at hf hb
              exact ⟨by omega, by omega⟩
            | false =>
              have := g4 hp1
              have hb' : s.len + 8 ≤ pos + 8 * (n + 1) := by
                split at hb <;> omega
              exact ⟨by omega, by omega⟩
          apply Safe.mono (ih r3 p3 f2 (by rw [hnp3]; simp; exact key.1) (by rw [hnp3]; simp; exact key.2))
          intro o p4 ⟨r', hr, hfw⟩
          exact ⟨r', hr, by have := hfw.1; omega, hfw.2⟩

/-- from any point of the stream, the initial fuel is enough for an unknown-chunk loop -/
theorem trailingLoop_ok (hV : ValidateNP) (cfg : Config) (k : Nat) (inAnmf : Bool) (fuel : Nat) (r : RS) (pos : Nat)
    (hk : k ≤ 2) (hinv : PeekInv r pos) (hF : FuelOK s fuel) :
    Safe (idealOps s kind) (trailingLoop cfg k inAnmf fuel r) pos
      (fun o pos' => ∃ r', o = some r' ∧ Fwd pos r' pos') := by
  unfold FuelOK at hF
  apply trailingLoop_term s kind hV cfg k inAnmf fuel r pos hk hinv
  · split <;> omega
  · cases hp : isPeek (r.get k) with
    | true => have := peek_pos hk hinv hp; simp only [if_true]; omega
    | false => simp; omega


theorem anmf_len : Generated.schemaAnmfChunk.encodedLen = 16 := by decide

/-- one frame: ends on a value or an error, and a frame that is read to its end cost at least 16 stream bytes that
    exist (the ANMF body) -/
theorem sanitizeFrame_term (hV : ValidateNP) (cfg : Config) (r : RS) (flags cw ch fuel pos : Nat) (hinv : PeekInv r pos)
    (hF : FuelOK s fuel) :
    Safe (idealOps s kind) (sanitizeFrame cfg r flags cw ch fuel) pos
      (fun o pos' => ∃ r', o = some r' ∧ Fwd pos r' pos' ∧ pos + 16 ≤ pos' ∧ pos + 16 ≤ s.len) := by
  unfold sanitizeFrame
  apply Safe.bind
  apply Safe.mono (readHeader_safe s kind r 1 pos FANMF (by decide) hinv)
  intro r1 p1 ⟨a1, a2, a3⟩
  apply Safe.bind
  apply Safe.mono (parseData_prog s kind r1 1 p1 _ (by decide) a2 (inChunk_not_peek a3))
  intro x p2 ⟨⟨b1, b2, _⟩, b4⟩
  have b5 := b4 (by rw [anmf_len]; decide)
  rw [anmf_len] at b5
  obtain ⟨vs, r2⟩ := x
  dsimp only at b2 ⊢
  apply Safe.bind
  have alph : Safe (idealOps s kind)
      (if flagSet flags 16 = true then
        (peekHeader (r2.set 2 .idle) 2).bind fun x =>
          match x with
          | (nm, r) =>
            if nm = some FALPH then (readHeader r 2 FALPH).bind fun r => (alphChunk r 2 (vs.getD 2 0) (vs.getD 3 0)).bind fun r => Prog.done (true, r)
            else Prog.done (false, r)
       else Prog.done (false, r2.set 2 .idle)) p2
      (fun y pos' => Fwd p2 y.2 pos') := by
    split
    · apply Safe.bind
      apply Safe.mono (peekHeader_safe s kind (r2.set 2 .idle) 2 p2 (by decide) (b2.setIdle 2))
      intro y p3 ⟨c1, c2, _⟩
      obtain ⟨nm, r3⟩ := y
      dsimp only at c2 ⊢
      split
      · apply Safe.bind
        apply Safe.mono (readHeader_safe s kind r3 2 p3 FALPH (by decide) c2)
        intro r4 p4 ⟨d1, d2, d3⟩
        apply Safe.bind
        apply Safe.mono (alphChunk_safe s kind hV r4 2 _ _ p4 (by decide) d2 (inChunk_not_peek d3))
        intro r5 p5 ⟨e1, e2, _⟩
        exact Safe.done ⟨by omega, e2⟩
      · exact Safe.done ⟨c1, c2⟩
    · exact Safe.done ⟨Nat.le_refl _, b2.setIdle 2⟩
  apply Safe.mono alph
  intro y p3 ⟨c1, c2⟩
  obtain ⟨sawAlph, r3⟩ := y
  dsimp only at c2 ⊢
  apply Safe.bind
  apply Safe.mono (readAnyHeader_safe s kind r3 2 p3 (by decide) c2)
  intro z p4 ⟨d1, d2, d3⟩
  obtain ⟨name, r4⟩ := z
  dsimp only at d2 d3 ⊢
  apply Safe.bind
  have img : Safe (idealOps s kind)
      (if name = FVP8 then skipData r4 2
       else if name = FVP8L then
         if sawAlph = true then Prog.fail WErr.invalidChunkLayout else vp8lChunk r4 2 (some (vs.getD 2 0, vs.getD 3 0))
       else Prog.fail WErr.invalidChunkLayout) p4
      (fun r' pos' => Fwd p4 r' pos') := by
    split
    · apply Safe.mono (skipData_safe s kind r4 2 p4 (by decide) d2 (inChunk_not_peek d3))
      intro r5 p5 ⟨e1, e2, _⟩; exact ⟨e1, e2⟩
    · split
      · split
        · exact Safe.fail
        · apply Safe.mono (vp8lChunk_safe s kind hV r4 2 p4 _ (by decide) d2 (inChunk_not_peek d3))
          intro r5 p5 ⟨e1, e2, _⟩; exact ⟨e1, e2⟩
      · exact Safe.fail
  apply Safe.mono img
  intro r5 p5 ⟨e1, e2⟩
  apply Safe.mono (trailingLoop_ok s kind hV cfg 2 true fuel r5 p5 (by decide) e2 hF)
  intro o p6 ⟨r', hr, hfw⟩
  exact ⟨r', hr, ⟨by have := hfw.1; omega, hfw.2⟩, by have := hfw.1; omega, by omega⟩

/-- the frame loop ends by itself -/
theorem framesLoop_term (hV : ValidateNP) (cfg : Config) (flags cw ch fuel n : Nat) (r : RS) (pos : Nat)
    (hinv : PeekInv r pos) (hF : FuelOK s fuel) (hn : 1 ≤ n) (hb : s.len + 8 ≤ pos + 8 * n) :
    Safe (idealOps s kind) (framesLoop cfg flags cw ch fuel n r) pos
      (fun o pos' => ∃ r', o = some r' ∧ Fwd pos r' pos') := by
  induction n generalizing r pos with
  | zero => omega
  | succ m ih =>
    unfold framesLoop
    apply Safe.bind
    apply Safe.mono (peekHeader_safe s kind r 1 pos (by decide) hinv)
    intro x p1 ⟨a1, a2, _⟩
    obtain ⟨nm, r1⟩ := x
    dsimp only at a2 ⊢
    split
    · apply Safe.bind
      apply Safe.mono (sanitizeFrame_term s kind hV cfg r1 flags cw ch fuel p1 a2 hF)
      intro o p2 ⟨r2, hr2, hfw, hp, hl⟩
      subst hr2
      dsimp only
      apply Safe.mono (ih r2 p2 hfw.2 (by omega) (by omega))
      intro o' p3 ⟨r', hr, hfw'⟩
      exact ⟨r', hr, by have := hfw'.1; omega, hfw'.2⟩
    · exact Safe.done ⟨r1, rfl, a1, a2⟩

theorem sanitizeAnimated_term (hV : ValidateNP) (cfg : Config) (r : RS) (flags cw ch fuel pos : Nat) (hinv : PeekInv r pos)
    (hF : FuelOK s fuel) :
    Safe (idealOps s kind) (sanitizeAnimated cfg r flags cw ch fuel) pos
      (fun o pos' => ∃ r', o = some r' ∧ Fwd pos r' pos') := by
  unfold sanitizeAnimated
  apply Safe.bind
  apply Safe.mono (readHeader_safe s kind r 1 pos FANIM (by decide) hinv)
  intro r1 p1 ⟨a1, a2, a3⟩
  apply Safe.bind
  apply Safe.mono (parseData_safe s kind r1 1 p1 _ (by decide) a2 (inChunk_not_peek a3))
  intro x p2 ⟨b1, b2, _⟩
  obtain ⟨vs, r2⟩ := x
  dsimp only at b2 ⊢
  apply Safe.bind
  apply Safe.mono (peekHeader_safe s kind r2 1 p2 (by decide) b2)
  intro y p3 ⟨c1, c2, _⟩
  obtain ⟨nm, r3⟩ := y
  dsimp only at c2 ⊢
  split
  · have hF' := hF
    unfold FuelOK at hF'
    apply Safe.mono (framesLoop_term s kind hV cfg flags cw ch fuel fuel r3 p3 c2 hF (by omega) (by omega))
    intro o p4 ⟨r', hr, hfw⟩
    exact ⟨r', hr, by have := hfw.1; omega, hfw.2⟩
  · exact Safe.fail

theorem sanitizeExtended_term (hV : ValidateNP) (cfg : Config) (r : RS) (flags cw ch fuel pos : Nat) (hinv : PeekInv r pos)
    (hF : FuelOK s fuel) :
    Safe (idealOps s kind) (sanitizeExtended cfg r flags cw ch fuel) pos
      (fun o pos' => ∃ r', o = some r' ∧ Fwd pos r' pos') := by
  unfold sanitizeExtended
  apply Safe.bind
  apply Safe.mono (optChunk_safe s kind r pos (flagSet flags 32) FICCP hinv)
  intro r1 p1 ⟨a1, a2⟩
  apply Safe.bind
  have mid : Safe (idealOps s kind)
      (if flagSet flags 2 = true then sanitizeAnimated cfg r1 flags cw ch fuel
       else (sanitizeStill r1 flags cw ch).bind fun r => Prog.done (some r)) p1
      (fun o pos' => ∃ r', o = some r' ∧ Fwd p1 r' pos') := by
    split
    · exact sanitizeAnimated_term s kind hV cfg r1 flags cw ch fuel p1 a2 hF
    · apply Safe.bind
      apply Safe.mono (sanitizeStill_safe s kind hV r1 flags cw ch p1 a2)
      intro r2 p2 h2
      exact Safe.done ⟨r2, rfl, h2⟩
  apply Safe.mono mid
  intro o p2 ⟨r2, hr2, hf⟩
  subst hr2
  dsimp only
  apply Safe.bind
  apply Safe.mono (optChunk_safe s kind r2 p2 (flagSet flags 8) FEXIF hf.2)
  intro r3 p3 ⟨b1, b2⟩
  apply Safe.bind
  apply Safe.mono (optChunk_safe s kind r3 p3 (flagSet flags 4) FXMP b2)
  intro r4 p4 ⟨c1, c2⟩
  exact Safe.done ⟨r4, rfl, by have := hf.1; omega, c2⟩

/-- the whole WebP sanitizer, started with fuel `len/8 + 2` (or more), returns a verdict: it never panics and never
    stops on its fuel -/
theorem sanitizeP_total (hV : ValidateNP) (cfg : Config) (fuel : Nat) (hF : FuelOK s fuel) :
    Safe (idealOps s kind) (sanitizeP cfg fuel) 0 (fun o _ => o = some ()) := by
  unfold sanitizeP
  dsimp only
  have h0 : PeekInv ({} : RS) 0 := ⟨by simp [isPeek], by simp [isPeek], by simp [isPeek]⟩
  apply Safe.bind
  apply Safe.mono (readHeader_safe s kind {} 0 0 FRIFF (by decide) h0)
  intro r1 p1 ⟨a1, a2, a3⟩
  apply Safe.bind
  apply Safe.mono (readData_safe s kind r1 0 4 p1 (by decide) a2 (inChunk_not_peek a3))
  intro x p2 ⟨⟨b1, b2, _⟩, _⟩
  obtain ⟨b, r2⟩ := x
  dsimp only at b2 ⊢
  generalize riffLen r1.l0 = len
  split
  · exact Safe.fail
  · split
    · exact Safe.fail
    · apply Safe.bind
      apply Safe.mono (readAnyHeader_safe s kind (r2.set 1 .idle) 1 p2 (by decide) (b2.setIdle 1))
      intro y p3 ⟨c1, c2, c3⟩
      obtain ⟨name, r3⟩ := y
      dsimp only at c2 c3 ⊢
      apply Safe.bind
      have first : Safe (idealOps s kind)
          (if name = FVP8 then (skipData r3 1).bind fun r => Prog.done (some r)
           else if name = FVP8L then (vp8lChunk r3 1 none).bind fun r => Prog.done (some r)
           else if name = FVP8X then
             (parseData r3 1 Generated.schemaVp8xChunk).bind fun x =>
               match x with
               | (vs, r) => sanitizeExtended cfg r (vs.getD 0 0) (vs.getD 2 0) (vs.getD 3 0) fuel
           else Prog.fail WErr.invalidChunkLayout) p3
          (fun o pos' => ∃ r', o = some r' ∧ Fwd p3 r' pos') := by
        split
        · apply Safe.bind
          apply Safe.mono (skipData_safe s kind r3 1 p3 (by decide) c2 (inChunk_not_peek c3))
          intro r4 p4 ⟨d1, d2, _⟩
          exact Safe.done ⟨r4, rfl, d1, d2⟩
        · split
          · apply Safe.bind
            apply Safe.mono (vp8lChunk_safe s kind hV r3 1 p3 none (by decide) c2 (inChunk_not_peek c3))
            intro r4 p4 ⟨d1, d2, _⟩
            exact Safe.done ⟨r4, rfl, d1, d2⟩
          · split
            · apply Safe.bind
              apply Safe.mono (parseData_safe s kind r3 1 p3 _ (by decide) c2 (inChunk_not_peek c3))
              intro z p4 ⟨d1, d2, _⟩
              obtain ⟨vs, r4⟩ := z
              dsimp only at d2 ⊢
              apply Safe.mono (sanitizeExtended_term s kind hV cfg r4 _ _ _ fuel p4 d2 hF)
              intro o p5 ⟨r', hr, hfw⟩
              exact ⟨r', hr, by have := hfw.1; omega, hfw.2⟩
            · exact Safe.fail
      apply Safe.mono first
      intro o p4 ⟨r4, hr4, hf⟩
      subst hr4
      dsimp only
      apply Safe.bind
      apply Safe.mono (trailingLoop_ok s kind hV cfg 1 false fuel r4 p4 (by decide) hf.2 hF)
      intro o2 p5 ⟨r5, hr5, hf2⟩
      subst hr5
      dsimp only
      apply Safe.bind
      apply Safe.mono (hasRemaining_safe s kind r5 0 p5 (by decide) hf2.2)
      intro w p6 _
      obtain ⟨more, r6⟩ := w
      dsimp only
      split
      · exact Safe.fail
      · apply Safe.position
        apply Safe.streamLen
        split
        · exact Safe.done rfl
        · exact Safe.fail

theorem fuelOK_default : FuelOK s (s.len / 8 + 2) := by
  unfold FuelOK; omega

end
end MediaSan.Webp
