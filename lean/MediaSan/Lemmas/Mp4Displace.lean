import MediaSan.Mp4.Sanitize
import MediaSan.Generated.CheckedAddSigned
import MediaSan.Props.C20
namespace MediaSan.Mp4
open MediaSan

/-- the i-th `width`-byte big-endian entry of an array -/
def entryAt (width : Nat) (bs : Bytes) (i : Nat) : Nat := beToNat ((bs.drop (width * i)).take width)

theorem entryAt_zero (w : Nat) (bs : Bytes) : entryAt w bs 0 = beToNat (bs.take w) := by
  simp [entryAt]

theorem entryAt_succ_append (w : Nat) (a b : Bytes) (ha : a.length = w) (i : Nat) :
    entryAt w (a ++ b) (i + 1) = entryAt w b i := by
  unfold entryAt
  have : w * (i + 1) = a.length + w * i := by rw [ha]; rw [Nat.mul_succ]; omega
  rw [this, ← List.drop_drop, List.drop_left]

theorem entryAt_zero_append (w : Nat) (a b : Bytes) (ha : a.length = w) :
    entryAt w (a ++ b) 0 = beToNat a := by
  unfold entryAt
  simp only [Nat.mul_zero, List.drop_zero]
  rw [← ha, List.take_left]

/-- Exactness of the rewrite of one table (the core of C01): on success the array keeps its length, every
    complete entry equals the old entry plus `disp` as integers, and that sum fits the field. -/
theorem displaceEntries_ok (w : Nat) (hw : 0 < w) (disp : Int) (fuel : Nat) (bs out : Bytes)
    (hf : bs.length ≤ fuel) (h : displaceEntries w disp fuel bs = .ok out) :
    out.length = bs.length ∧
    ∀ i, w * (i + 1) ≤ bs.length →
      ((entryAt w out i : Nat) : Int) = (entryAt w bs i : Int) + disp ∧
      0 ≤ (entryAt w bs i : Int) + disp ∧ (entryAt w bs i : Int) + disp < (256 : Int) ^ w := by
  induction fuel generalizing bs out with
  | zero =>
    have : bs = [] := by cases bs <;> simp_all
    subst this
    simp only [displaceEntries, PureRes.ok.injEq] at h
    subst h
    refine ⟨rfl, ?_⟩
    intro i hi
    simp at hi
    have : w * (i + 1) ≥ w := Nat.le_mul_of_pos_right w (by omega)
    omega
  | succ fuel ih =>
    simp only [displaceEntries] at h
    split at h
    · rename_i hshort
      simp only [PureRes.ok.injEq] at h
      subst h
      refine ⟨rfl, ?_⟩
      intro i hi
      have : w * (i + 1) ≥ w := Nat.le_mul_of_pos_right w (by omega)
      rcases hshort with h0 | hs
      · omega
      · omega
    · rename_i hlong
      have hlen : w ≤ bs.length := by omega
      try simp only at h
      split at h
      · simp at h
      · rename_i hrange
        split at h
        · rename_i rest hrest
          simp only [PureRes.ok.injEq] at h
          subst h
          have hdl : (bs.drop w).length = bs.length - w := by simp
          obtain ⟨ihl, ihe⟩ := ih (bs.drop w) rest (by omega) hrest
          have hv0 : 0 ≤ (beToNat (bs.take w) : Int) + disp := by omega
          have hvlt : (beToNat (bs.take w) : Int) + disp < (256 : Int) ^ w := by omega
          have hnat : (((beToNat (bs.take w) : Int) + disp).toNat : Int) = (beToNat (bs.take w) : Int) + disp :=
            Int.toNat_of_nonneg hv0
          have hlt : ((beToNat (bs.take w) : Int) + disp).toNat < 256 ^ w := by
            have : (((beToNat (bs.take w) : Int) + disp).toNat : Int) < ((256 ^ w : Nat) : Int) := by
              rw [hnat]; simpa using hvlt
            exact Int.ofNat_lt.mp this
          constructor
          · simp only [List.length_append, natToBE_length, ihl, hdl]; omega
          · intro i hi
            cases i with
            | zero =>
              rw [entryAt_zero_append w _ _ (by simp), beToNat_natToBE w _ hlt, entryAt_zero, hnat]
              exact ⟨rfl, hv0, hvlt⟩
            | succ i =>
              rw [entryAt_succ_append w _ _ (by simp)]
              have hbs : bs = bs.take w ++ bs.drop w := (List.take_append_drop w bs).symm
              have e : entryAt w bs (i + 1) = entryAt w (bs.drop w) i := by
                conv => lhs; rw [hbs]
                exact entryAt_succ_append w _ _ (by simp; omega) i
              rw [e]
              apply ihe i
              rw [hdl]
              have : w * (i + 1 + 1) = w * (i + 1) + w := by rw [Nat.mul_succ]
              omega
        · simp at h
        · simp at h

/-- and conversely: a refusal means some entry would leave its field (never a wrap or truncation) -/
theorem displaceEntries_err (w : Nat) (hw : 0 < w) (disp : Int) (fuel : Nat) (bs : Bytes) (e : PErr)
    (h : displaceEntries w disp fuel bs = .err e) :
    e = .invalidInput ∧ ∃ i, w * (i + 1) ≤ bs.length ∧
      ((entryAt w bs i : Int) + disp < 0 ∨ (256 : Int) ^ w ≤ (entryAt w bs i : Int) + disp) := by
  induction fuel generalizing bs with
  | zero => simp [displaceEntries] at h
  | succ fuel ih =>
    simp only [displaceEntries] at h
    split at h
    · simp at h
    · rename_i hlong
      have hlen : w ≤ bs.length := by omega
      try simp only at h
      split at h
      · rename_i hrange
        simp only [PureRes.err.injEq] at h
        refine ⟨h.symm, 0, by simpa using hlen, ?_⟩
        rw [entryAt_zero]
        rcases hrange with h1 | h2
        · left; exact h1
        · right; exact h2
      · split at h
        · simp at h
        · rename_i e' hrest
          simp only [PureRes.err.injEq] at h
          subst h
          obtain ⟨he, i, hi, hbad⟩ := ih (bs.drop w) hrest
          refine ⟨he, i + 1, ?_, ?_⟩
          · have hdl : (bs.drop w).length = bs.length - w := by simp
            rw [hdl] at hi
            have : w * (i + 1 + 1) = w * (i + 1) + w := by rw [Nat.mul_succ]
            omega
          · have hbs : bs = bs.take w ++ bs.drop w := (List.take_append_drop w bs).symm
            have e : entryAt w bs (i + 1) = entryAt w (bs.drop w) i := by
              conv => lhs; rw [hbs]
              exact entryAt_succ_append w _ _ (by simp; omega) i
            rw [e]; exact hbad
        · simp at h

theorem displaceEntries_no_panic (w : Nat) (disp : Int) (fuel : Nat) (bs : Bytes) (s : String) :
    displaceEntries w disp fuel bs ≠ .panic s := by
  induction fuel generalizing bs s with
  | zero => simp [displaceEntries]
  | succ fuel ih =>
    simp only [displaceEntries]
    split
    · simp
    · try simp only
      split
      · simp
      · split
        · simp
        · simp
        · rename_i s' hs; exact absurd hs (ih _ _)

end MediaSan.Mp4

namespace MediaSan.Mp4
open MediaSan

theorem displaceEntries_length (w : Nat) (disp : Int) (fuel : Nat) (bs out : Bytes)
    (h : displaceEntries w disp fuel bs = .ok out) : out.length = bs.length := by
  induction fuel generalizing bs out with
  | zero => simp only [displaceEntries, PureRes.ok.injEq] at h; subst h; rfl
  | succ fuel ih =>
    simp only [displaceEntries] at h
    split at h
    · simp only [PureRes.ok.injEq] at h; subst h; rfl
    · rename_i hlong
      try simp only at h
      split at h
      · simp at h
      · split at h
        · rename_i rest hrest
          simp only [PureRes.ok.injEq] at h
          subst h
          have := ih _ _ hrest
          simp only [List.length_append, natToBE_length, this, List.length_drop]
          omega
        · simp at h
        · simp at h

end MediaSan.Mp4
