/-
  C01 / C04, the last link: the independent walker reads nothing of a chunk-offset table's entries.  If a region of a
  stream `s'` (at base `a'`) holds the bytes of a region of `s` (at base `a`) except inside the entries of the tables
  the walker finds there, the walker finds the same boxes and the same tables in `s'`, moved by `a' − a`.
-/
import MediaSan.Lemmas.ScanRel
import MediaSan.Spec.Mp4Rules
import MediaSan.Lemmas.Relocate
namespace MediaSan.Mp4
open MediaSan MediaSan.Spec.Mp4Walk MediaSan.Spec.Mp4Rules

/-- position `p` of the region based at `a`, in the region based at `a'` -/
def mv (a a' p : Nat) : Nat := p - a + a'

def moveBox (a a' : Nat) (b : TopBox) : TopBox := { b with offset := mv a a' b.offset, endOff := mv a a' b.endOff }
def moveRegion (a a' : Nat) (r : Region) : Region := { r with off := mv a a' r.off }

def moveHdr (a a' : Nat) : Hdr → Hdr
  | .ok b => .ok (moveBox a a' b)
  | .truncated => .truncated
  | .tooSmall => .tooSmall

theorem mv_add (a a' p k : Nat) (h : a ≤ p) : mv a a' (p + k) = mv a a' p + k := by unfold mv; omega

section
variable (s s' : Stream)

theorem read_eq_of_get (p p' n : Nat) (h : ∀ i, i < n → s'.get (p' + i) = s.get (p + i)) : s'.read p' n = s.read p n := by
  unfold Stream.read
  apply List.map_congr_left
  intro i hi
  exact h i (by simpa using hi)

/-- the header of a box, moved: the walker reads the 8 bytes of size and name, and the 8 bytes of the 64-bit size only
    when the size field is 1 -/
theorem headerAt_move (a a' off lim : Nat) (ha : a ≤ off) (hol : off ≤ lim)
    (e1 : s'.read (mv a a' off) 4 = s.read off 4) (e2 : s'.read (mv a a' off + 4) 4 = s.read (off + 4) 4)
    (e3 : be s off 4 = 1 → s'.read (mv a a' off + 8) 8 = s.read (off + 8) 8) :
    headerAt s' (mv a a' off) (mv a a' lim) = moveHdr a a' (headerAt s off lim) := by
  have hl : mv a a' lim = mv a a' off + (lim - off) := by unfold mv; omega
  unfold headerAt
  simp only [be, e1, e2]
  by_cases h8 : off + 8 > lim
  · have : mv a a' off + 8 > mv a a' lim := by rw [hl]; omega
    simp only [h8, this, if_true, moveHdr]
  · have : ¬ (mv a a' off + 8 > mv a a' lim) := by rw [hl]; omega
    simp only [h8, this, if_false]
    by_cases h1 : beToNat (s.read off 4) = 1
    · have e3' := e3 (by unfold be; exact h1)
      simp only [h1, if_true, e3']
      split
      · rename_i hu
        have c1 : (off + 16 + 16 > lim) = (mv a a' off + 16 + 16 > mv a a' lim) := by rw [hl]; apply propext; omega
        by_cases ht : off + 16 + 16 > lim
        · have : mv a a' off + 16 + 16 > mv a a' lim := by rw [← c1]; exact ht
          simp only [ht, this, if_true, moveHdr]
        · have : ¬ (mv a a' off + 16 + 16 > mv a a' lim) := by rw [← c1]; exact ht
          simp only [ht, this, if_false]
          split
          · rfl
          · simp only [moveHdr, moveBox, mv_add a a' off _ ha]
      · rename_i hu
        have c1 : (off + 16 + 0 > lim) = (mv a a' off + 16 + 0 > mv a a' lim) := by rw [hl]; apply propext; omega
        by_cases ht : off + 16 + 0 > lim
        · have : mv a a' off + 16 + 0 > mv a a' lim := by rw [← c1]; exact ht
          simp only [ht, this, if_true, moveHdr]
        · have : ¬ (mv a a' off + 16 + 0 > mv a a' lim) := by rw [← c1]; exact ht
          simp only [ht, this, if_false]
          split
          · rfl
          · simp only [moveHdr, moveBox, mv_add a a' off _ ha]
    · simp only [h1, if_false]
      split
      · rename_i hu
        have c1 : (off + 8 + 16 > lim) = (mv a a' off + 8 + 16 > mv a a' lim) := by rw [hl]; apply propext; omega
        by_cases ht : off + 8 + 16 > lim
        · have : mv a a' off + 8 + 16 > mv a a' lim := by rw [← c1]; exact ht
          simp only [ht, this, if_true, moveHdr]
        · have : ¬ (mv a a' off + 8 + 16 > mv a a' lim) := by rw [← c1]; exact ht
          simp only [ht, this, if_false]
          split
          · simp only [moveHdr, moveBox]
          · split
            · rfl
            · simp only [moveHdr, moveBox, mv_add a a' off _ ha]
      · rename_i hu
        split
        · simp only [moveHdr, moveBox]
        · split
          · rfl
          · simp only [moveHdr, moveBox, mv_add a a' off _ ha]


/-- what a header found by the walker looks like -/
theorem headerAt_geo (off lim : Nat) (b : TopBox) (h : headerAt s off lim = .ok b) :
    b.offset = off ∧ 8 ≤ b.hdrLen ∧ (be s off 4 = 1 → 16 ≤ b.hdrLen) ∧ off + b.hdrLen ≤ b.endOff ∧ off + 8 ≤ lim := by
  unfold headerAt at h
  split at h
  · cases h
  rename_i h8
  dsimp only at h
  generalize (if s.read (off + 4) 4 = [0x75, 0x75, 0x69, 0x64] then 16 else 0) = u at h
  split at h
  · rename_i h1
    split at h
    · cases h
    · split at h
      · cases h
      · rename_i hsz
        simp only [Hdr.ok.injEq] at h
        subst h
        refine ⟨rfl, by dsimp only; omega, fun _ => by dsimp only; omega, by dsimp only; omega, by omega⟩
  · rename_i h1
    split at h
    · cases h
    · rename_i ht
      split at h
      · simp only [Hdr.ok.injEq] at h
        subst h
        refine ⟨rfl, by dsimp only; omega, fun e => absurd e h1, by dsimp only; omega, by omega⟩
      · split at h
        · cases h
        · rename_i hsz
          simp only [Hdr.ok.injEq] at h
          subst h
          refine ⟨rfl, by dsimp only; omega, fun e => absurd e h1, by dsimp only; omega, by omega⟩

/-- a clean walk is a chain of boxes -/
theorem chain_of_walk (lim : Nat) (fuel off : Nat) (bs : List TopBox) (hle : off ≤ lim)
    (h : walk s none fuel off lim = .clean bs) (hf : lim - off < 8 * fuel) : Chain s lim none off lim bs := by
  induction fuel generalizing off bs with
  | zero => omega
  | succ n ih =>
    unfold walk at h
    split at h
    · rename_i hge
      simp only [Walk.clean.injEq] at h
      subst h
      exact show off = lim by omega
    · rename_i hlt
      split at h
      · cases h
      · cases h
      · rename_i b hb
        split at h
        · cases h
        · rename_i hover
          obtain ⟨g1, g2, g3, g4, g5⟩ := headerAt_geo s off lim b hb
          cases hw : walk s none n b.endOff lim with
          | clean rest =>
            rw [hw] at h
            simp only [Walk.clean.injEq] at h
            subst h
            exact ⟨hb, g1, by omega, ih b.endOff rest (by omega) hw (by omega)⟩
          | broken rest w => rw [hw] at h; cases h

/-- the header bytes of the box at `x.offset` are the same in both regions -/
def HdrAgree (a a' : Nat) (x : TopBox) : Prop :=
  ∀ i, i < x.hdrLen → s'.get (mv a a' x.offset + i) = s.get (x.offset + i)

theorem headerAt_move' (a a' off lim : Nat) (b : TopBox) (ha : a ≤ off) (hb : headerAt s off lim = .ok b)
    (hag : HdrAgree s s' a a' b) : headerAt s' (mv a a' off) (mv a a' lim) = .ok (moveBox a a' b) := by
  obtain ⟨g1, g2, g3, g4, g5⟩ := headerAt_geo s off lim b hb
  have := headerAt_move s s' a a' off lim ha (by omega)
    (read_eq_of_get s s' off _ 4 (fun i hi => by have := hag i (by omega); rw [g1] at this; exact this))
    (read_eq_of_get s s' (off + 4) _ 4 (fun i hi => by
      have := hag (4 + i) (by omega); rw [g1] at this
      rw [Nat.add_assoc, Nat.add_assoc]; exact this))
    (fun e => read_eq_of_get s s' (off + 8) _ 8 (fun i hi => by
      have h16 := g3 e
      have := hag (8 + i) (by omega); rw [g1] at this
      rw [Nat.add_assoc, Nat.add_assoc]; exact this))
  rw [this, hb]; rfl

theorem chain_move (a a' lim : Nat) (bs : List TopBox) (lo : Nat) (ha : a ≤ lo)
    (hch : Chain s lim none lo lim bs) (hag : ∀ x ∈ bs, HdrAgree s s' a a' x) :
    Chain s' (mv a a' lim) none (mv a a' lo) (mv a a' lim) (bs.map (moveBox a a')) := by
  induction bs generalizing lo with
  | nil =>
    have : lo = lim := hch
    subst this; rfl
  | cons b rest ih =>
    obtain ⟨k1, k2, k3, k4⟩ := hch
    obtain ⟨g1, g2, g3, g4, g5⟩ := headerAt_geo s lo lim b k1
    have hb' := headerAt_move' s s' a a' lo lim b ha k1 (hag b (by simp))
    have hle := Chain.le s k4
    have e : mv a a' b.endOff = mv a a' lo + (b.endOff - lo) := by unfold mv; omega
    refine ⟨hb', by simp only [moveBox, k2], ?_, ?_⟩
    · simp only [moveBox]; rw [e]; omega
    · exact ih b.endOff (by omega) k4 (fun x hx => hag x (by simp [hx]))

theorem payloadOff_move (a a' : Nat) (b : TopBox) (ha : a ≤ b.offset) :
    (moveBox a a' b).payloadOff = mv a a' b.payloadOff := by
  simp only [TopBox.payloadOff, moveBox, mv_add a a' b.offset _ ha]

/-- the children of a box, moved -/
theorem children_move (a a' : Nat) (b : TopBox) (bs : List TopBox) (ha : a ≤ b.offset) (hle : b.payloadOff ≤ b.endOff)
    (hc : children s b = some bs) (hag : ∀ x ∈ bs, HdrAgree s s' a a' x) :
    children s' (moveBox a a' b) = some (bs.map (moveBox a a')) := by
  unfold children at hc ⊢
  cases hw : walkAll s b.payloadOff b.endOff with
  | broken x w => rw [hw] at hc; cases hc
  | clean bs0 =>
    rw [hw] at hc
    simp only [Option.some.injEq] at hc
    subst hc
    unfold walkAll at hw
    have hch := chain_of_walk s b.endOff _ b.payloadOff bs0 hle hw (by omega)
    have hpo : a ≤ b.payloadOff := by unfold TopBox.payloadOff; omega
    have hch' := chain_move s s' a a' b.endOff bs0 b.payloadOff hpo hch hag
    rw [payloadOff_move a a' b ha]
    have e : (moveBox a a' b).endOff = mv a a' b.endOff := rfl
    rw [e]
    unfold walkAll
    rw [walk_of_chain s' (mv a a' b.endOff) none _ (mv a a' b.payloadOff) _ hch' (by left; omega)]


/-! ### agreement outside one table -/

/-- on [lo, hi) the two regions hold the same bytes, except inside `r` -/
def AgreeOn (a a' lo hi : Nat) (r : Region) : Prop :=
  ∀ p, lo ≤ p → p < hi → ¬ (r.off ≤ p ∧ p < r.endOff) → s'.get (mv a a' p) = s.get p

theorem hdrAgree_of (a a' lo hi : Nat) (r : Region) (x : TopBox) (hag : AgreeOn s s' a a' lo hi r)
    (ha : a ≤ x.offset) (h1 : lo ≤ x.offset) (h2 : x.offset + x.hdrLen ≤ hi)
    (hd : x.offset + x.hdrLen ≤ r.off ∨ r.endOff ≤ x.offset) : HdrAgree s s' a a' x := by
  intro i hi
  rw [← mv_add a a' x.offset i ha]
  exact hag (x.offset + i) (by omega) (by omega) (by omega)

/-- boxes of a chain lie inside the region, header before the end -/
theorem chain_within (lim lo hi : Nat) (bs : List TopBox) (hch : Chain s lim none lo hi bs) :
    ∀ x ∈ bs, lo ≤ x.offset ∧ x.offset + x.hdrLen ≤ x.endOff ∧ x.endOff ≤ hi := by
  induction bs generalizing lo with
  | nil => intro x hx; cases hx
  | cons b rest ih =>
    obtain ⟨k1, k2, k3, k4⟩ := hch
    obtain ⟨g1, g2, g3, g4, g5⟩ := headerAt_geo s lo lim b k1
    have hle := Chain.le s k4
    intro x hx
    rcases List.mem_cons.mp hx with e | e
    · subst e; exact ⟨by omega, by omega, hle⟩
    · have := ih b.endOff k4 x e
      omega

/-- two boxes of a chain are the same box or do not overlap -/
theorem chain_disjoint (lim lo hi : Nat) (bs : List TopBox) (hch : Chain s lim none lo hi bs) :
    ∀ x ∈ bs, ∀ y ∈ bs, x = y ∨ x.endOff ≤ y.offset ∨ y.endOff ≤ x.offset := by
  induction bs generalizing lo with
  | nil => intro x hx; cases hx
  | cons b rest ih =>
    obtain ⟨k1, k2, k3, k4⟩ := hch
    have hw := chain_within s lim b.endOff hi rest k4
    intro x hx y hy
    rcases List.mem_cons.mp hx with e | e
    · rcases List.mem_cons.mp hy with f | f
      · left; rw [e, f]
      · right; left; rw [e]; exact (hw y f).1
    · rcases List.mem_cons.mp hy with f | f
      · right; right; rw [f]; exact (hw x e).1
      · exact ih b.endOff k4 x e y f

theorem chain_of_children (b : TopBox) (bs : List TopBox) (hle : b.payloadOff ≤ b.endOff) (hc : children s b = some bs) :
    Chain s b.endOff none b.payloadOff b.endOff bs := by
  unfold children at hc
  cases hw : walkAll s b.payloadOff b.endOff with
  | broken x w => rw [hw] at hc; cases hc
  | clean bs0 =>
    rw [hw] at hc
    simp only [Option.some.injEq] at hc
    subst hc
    unfold walkAll at hw
    exact chain_of_walk s b.endOff _ b.payloadOff bs0 hle hw (by omega)

/-- one container level: the children of `b`, of which `y` holds the table `r` in its payload, are found again -/
theorem level_move (a a' lo hi : Nat) (r : Region) (b y : TopBox) (bs : List TopBox)
    (hag : AgreeOn s s' a a' lo hi r) (ha : a ≤ b.offset) (hlo : lo ≤ b.offset) (hhi : b.endOff ≤ hi)
    (hle : b.payloadOff ≤ b.endOff) (hc : children s b = some bs) (hy : y ∈ bs)
    (hr1 : y.payloadOff ≤ r.off) (hr2 : r.endOff ≤ y.endOff) :
    children s' (moveBox a a' b) = some (bs.map (moveBox a a')) := by
  have hch := chain_of_children s b bs hle hc
  have hw := chain_within s _ _ _ bs hch
  have hd := chain_disjoint s _ _ _ bs hch
  have hpo : b.payloadOff = b.offset + b.hdrLen := rfl
  apply children_move s s' a a' b bs ha hle hc
  intro x hx
  obtain ⟨w1, w2, w3⟩ := hw x hx
  obtain ⟨v1, v2, v3⟩ := hw y hy
  have hyo : y.payloadOff = y.offset + y.hdrLen := rfl
  apply hdrAgree_of s s' a a' lo hi r x hag (by omega) (by omega) (by omega)
  rcases hd x hx y hy with e | e | e
  · subst e; left; omega
  · left; omega
  · right; omega

theorem only_map (nm : Bytes) (a a' : Nat) (bs : List TopBox) (y : TopBox) (h : only nm bs = some y) :
    only nm (bs.map (moveBox a a')) = some (moveBox a a' y) := by
  unfold only at h ⊢
  have e : (bs.map (moveBox a a')).filter (fun x => decide (x.name = nm)) =
      (bs.filter (fun x => decide (x.name = nm))).map (moveBox a a') := by
    rw [List.filter_map]; rfl
  rw [e]
  split at h
  · rename_i x hx
    simp only [Option.some.injEq] at h
    subst h
    rw [hx]; rfl
  · cases h

theorem only_mem (nm : Bytes) (bs : List TopBox) (y : TopBox) (h : only nm bs = some y) : y ∈ bs := by
  unfold only at h
  split at h
  · rename_i x hx
    simp only [Option.some.injEq] at h
    subst h
    have : x ∈ bs.filter (fun x => decide (x.name = nm)) := by rw [hx]; simp
    exact (List.mem_filter.mp this).1
  · cases h

/-- the table of a table box, moved: the walker reads version/flags and the count, nothing of the entries -/
theorem tableOf_move (a a' : Nat) (b : TopBox) (w : Nat) (r : Region) (ha : a ≤ b.offset) (hle : b.payloadOff ≤ b.endOff)
    (h : tableOf s b w = some r)
    (hag : ∀ i, i < 8 → s'.get (mv a a' b.payloadOff + i) = s.get (b.payloadOff + i)) :
    tableOf s' (moveBox a a' b) w = some (moveRegion a a' r) := by
  have hpo : a ≤ b.payloadOff := by unfold TopBox.payloadOff; omega
  have e0 : (moveBox a a' b).payloadOff = mv a a' b.payloadOff := payloadOff_move a a' b ha
  have e1 : (moveBox a a' b).payloadLen = b.payloadLen := by
    unfold TopBox.payloadLen
    rw [e0]
    simp only [moveBox]
    unfold mv; omega
  unfold tableOf at h ⊢
  rw [e0, e1]
  have r1 : s'.read (mv a a' b.payloadOff) 4 = s.read b.payloadOff 4 :=
    read_eq_of_get s s' _ _ 4 (fun i hi => hag i (by omega))
  have r2 : s'.read (mv a a' b.payloadOff + 4) 4 = s.read (b.payloadOff + 4) 4 :=
    read_eq_of_get s s' _ _ 4 (fun i hi => by
      have := hag (4 + i) (by omega)
      rw [Nat.add_assoc, Nat.add_assoc]; exact this)
  simp only [be, r1, r2] at h ⊢
  by_cases h8 : b.payloadLen < 8
  · simp [h8] at h
  by_cases hz : beToNat (s.read b.payloadOff 4) ≠ 0
  · simp [h8, hz] at h
  by_cases hl : b.payloadLen ≠ 8 + w * beToNat (s.read (b.payloadOff + 4) 4)
  · simp [h8, hz, hl] at h
  simp only [h8, hz, hl, if_false, Option.some.injEq] at h ⊢
  subst h
  simp only [moveRegion, mv_add a a' b.payloadOff 8 hpo]


theorem tableOf_region (b : TopBox) (w : Nat) (r : Region) (h : tableOf s b w = some r) :
    r.off = b.payloadOff + 8 ∧ r.endOff = b.payloadOff + b.payloadLen := by
  unfold tableOf at h
  by_cases h8 : b.payloadLen < 8
  · simp [h8] at h
  by_cases hz : be s b.payloadOff 4 ≠ 0
  · simp [h8, hz] at h
  by_cases hl : b.payloadLen ≠ 8 + w * be s (b.payloadOff + 4) 4
  · simp [h8, hz, hl] at h
  simp only [h8, hz, hl, if_false, Option.some.injEq] at h
  subst h
  have : b.payloadLen = 8 + w * be s (b.payloadOff + 4) 4 := by omega
  refine ⟨rfl, ?_⟩
  simp only [Region.endOff]
  rw [this]; omega

theorem filter_map_move (nm : Bytes) (a a' : Nat) (bs : List TopBox) :
    (bs.map (moveBox a a')).filter (fun x => decide (x.name = nm)) =
      (bs.filter (fun x => decide (x.name = nm))).map (moveBox a a') := by
  rw [List.filter_map]; rfl

/-- one trak: if the two regions agree on the trak except inside its table, the walker finds the table again, moved -/
theorem trakTable_move (a a' : Nat) (t : TopBox) (r : Region) (ha : a ≤ t.offset) (hle : t.payloadOff ≤ t.endOff)
    (h : trakTable s t = some r) (hag : AgreeOn s s' a a' t.offset t.endOff r) :
    trakTable s' (moveBox a a' t) = some (moveRegion a a' r) ∧ t.payloadOff ≤ r.off ∧ r.endOff ≤ t.endOff := by
  unfold trakTable at h
  simp only [Option.bind_eq_bind] at h
  cases h1 : children s t with
  | none => rw [h1] at h; cases h
  | some c1 =>
    rw [h1] at h; simp only [Option.bind_some] at h
    cases h2 : only (cc 'm' 'd' 'i' 'a') c1 with
    | none => rw [h2] at h; cases h
    | some mdia =>
      rw [h2] at h; simp only [Option.bind_some] at h
      cases h3 : children s mdia with
      | none => rw [h3] at h; cases h
      | some c2 =>
        rw [h3] at h; simp only [Option.bind_some] at h
        cases h4 : only (cc 'm' 'i' 'n' 'f') c2 with
        | none => rw [h4] at h; cases h
        | some minf =>
          rw [h4] at h; simp only [Option.bind_some] at h
          cases h5 : children s minf with
          | none => rw [h5] at h; cases h
          | some c3 =>
            rw [h5] at h; simp only [Option.bind_some] at h
            cases h6 : only (cc 's' 't' 'b' 'l') c3 with
            | none => rw [h6] at h; cases h
            | some stbl =>
              rw [h6] at h; simp only [Option.bind_some] at h
              cases h7 : children s stbl with
              | none => rw [h7] at h; cases h
              | some c4 =>
                rw [h7] at h; simp only [Option.bind_some] at h
                -- geometry of the path
                have m1 := only_mem _ c1 mdia h2
                have w1 := chain_within s _ _ _ c1 (chain_of_children s t c1 hle h1) mdia m1
                have hmo : mdia.payloadOff = mdia.offset + mdia.hdrLen := rfl
                have hle2 : mdia.payloadOff ≤ mdia.endOff := by omega
                have m2 := only_mem _ c2 minf h4
                have w2 := chain_within s _ _ _ c2 (chain_of_children s mdia c2 hle2 h3) minf m2
                have hno : minf.payloadOff = minf.offset + minf.hdrLen := rfl
                have hle3 : minf.payloadOff ≤ minf.endOff := by omega
                have m3 := only_mem _ c3 stbl h6
                have w3 := chain_within s _ _ _ c3 (chain_of_children s minf c3 hle3 h5) stbl m3
                have hso : stbl.payloadOff = stbl.offset + stbl.hdrLen := rfl
                have hle4 : stbl.payloadOff ≤ stbl.endOff := by omega
                have hto : t.payloadOff = t.offset + t.hdrLen := rfl
                -- the table box and its width
                have key : ∀ (tb : TopBox) (w : Nat), tb ∈ c4 → tableOf s tb w = some r →
                    (∀ q : TopBox, tableOf s' (moveBox a a' tb) w = some (moveRegion a a' r)) ∧
                    t.payloadOff ≤ r.off ∧ r.endOff ≤ t.endOff ∧
                    children s' (moveBox a a' t) = some (c1.map (moveBox a a')) ∧
                    children s' (moveBox a a' mdia) = some (c2.map (moveBox a a')) ∧
                    children s' (moveBox a a' minf) = some (c3.map (moveBox a a')) ∧
                    children s' (moveBox a a' stbl) = some (c4.map (moveBox a a')) := by
                  intro tb w m4 htab
                  have w4 := chain_within s _ _ _ c4 (chain_of_children s stbl c4 hle4 h7) tb m4
                  have hbo : tb.payloadOff = tb.offset + tb.hdrLen := rfl
                  have hle5 : tb.payloadOff ≤ tb.endOff := by omega
                  obtain ⟨r1, r2⟩ := tableOf_region s tb w r htab
                  have hpl : tb.payloadLen = tb.endOff - tb.payloadOff := rfl
                  have rend : r.endOff = tb.endOff := by omega
                  have roff : r.off ≤ r.endOff := by simp [Region.endOff]
                  refine ⟨fun _ => ?_, by omega, by omega, ?_, ?_, ?_, ?_⟩
                  · apply tableOf_move s s' a a' tb w r (by omega) hle5 htab
                    intro i hi
                    rw [← mv_add a a' tb.payloadOff i (by omega)]
                    exact hag (tb.payloadOff + i) (by omega) (by omega) (by omega)
                  · exact level_move s s' a a' t.offset t.endOff r t mdia c1 hag ha (Nat.le_refl _) (Nat.le_refl _) hle h1 m1
                      (by omega) (by omega)
                  · exact level_move s s' a a' t.offset t.endOff r mdia minf c2 hag (by omega) (by omega) (by omega) hle2 h3 m2
                      (by omega) (by omega)
                  · exact level_move s s' a a' t.offset t.endOff r minf stbl c3 hag (by omega) (by omega) (by omega) hle3 h5 m3
                      (by omega) (by omega)
                  · exact level_move s s' a a' t.offset t.endOff r stbl tb c4 hag (by omega) (by omega) (by omega) hle4 h7 m4
                      (by omega) (by omega)
                have o2 := only_map _ a a' c1 mdia h2
                have o4 := only_map _ a a' c2 minf h4
                have o6 := only_map _ a a' c3 stbl h6
                split at h
                · rename_i tb hs1 hs2
                  have m4 : tb ∈ c4 := by
                    have : tb ∈ c4.filter (fun x => decide (x.name = cc 's' 't' 'c' 'o')) := by rw [hs1]; simp
                    exact (List.mem_filter.mp this).1
                  obtain ⟨k0, k1, k2, k3, k4, k5, k6⟩ := key tb 4 m4 h
                  refine ⟨?_, k1, k2⟩
                  unfold trakTable
                  simp only [Option.bind_eq_bind, k3, Option.bind_some, o2, k4, o4, k5, o6, k6, filter_map_move, hs1, hs2,
                    List.map_cons, List.map_nil]
                  exact k0 tb
                · rename_i tb hs1 hs2
                  have m4 : tb ∈ c4 := by
                    have : tb ∈ c4.filter (fun x => decide (x.name = cc 'c' 'o' '6' '4')) := by rw [hs2]; simp
                    exact (List.mem_filter.mp this).1
                  obtain ⟨k0, k1, k2, k3, k4, k5, k6⟩ := key tb 8 m4 h
                  refine ⟨?_, k1, k2⟩
                  unfold trakTable
                  simp only [Option.bind_eq_bind, k3, Option.bind_some, o2, k4, o4, k5, o6, k6, filter_map_move, hs1, hs2,
                    List.map_cons, List.map_nil]
                  exact k0 tb
                · cases h


theorem mv_self (a p : Nat) (h : a ≤ p) : mv a a p = p := by unfold mv; omega

/-- the table of a trak lies inside the trak's payload -/
theorem trakTable_within (t : TopBox) (r : Region) (hle : t.payloadOff ≤ t.endOff) (h : trakTable s t = some r) :
    t.payloadOff ≤ r.off ∧ r.endOff ≤ t.endOff := by
  have := trakTable_move s s t.offset t.offset t r (Nat.le_refl _) hle h
    (by intro p h1 h2 _; rw [mv_self _ _ h1])
  exact this.2

theorem mapM_map_of {α β α' β' : Type} (g : α → Option β) (g' : α' → Option β') (fa : α → α') (fb : β → β')
    (L : List α) (R : List β) (h : L.mapM g = some R) (hg : ∀ t ∈ L, ∀ r, g t = some r → g' (fa t) = some (fb r)) :
    (L.map fa).mapM g' = some (R.map fb) := by
  induction L generalizing R with
  | nil => simp only [List.mapM_nil, pure, Option.some.injEq] at h; subst h; rfl
  | cons x xs ih =>
    rw [List.mapM_cons] at h
    cases hx : g x with
    | none => rw [hx] at h; cases h
    | some b =>
      rw [hx] at h
      simp only [Option.bind_eq_bind, Option.bind_some] at h
      cases hm : xs.mapM g with
      | none => rw [hm] at h; cases h
      | some bs =>
        rw [hm] at h
        simp only [Option.bind_some, pure, Option.some.injEq] at h
        subst h
        rw [List.map_cons, List.mapM_cons, hg x (by simp) b hx]
        simp only [Option.bind_eq_bind, Option.bind_some, ih bs hm (fun t ht r hr => hg t (by simp [ht]) r hr)]
        rfl

theorem inRegions_false (rs : List Region) (p : Nat) (h : ∀ r ∈ rs, ¬ (r.off ≤ p ∧ p < r.endOff)) : inRegions rs p = false := by
  unfold inRegions
  rw [List.any_eq_false]
  intro r hr
  simpa using h r hr

/-- the moov box: if the two regions agree on the box except inside the tables the walker finds in it, the walker finds
    the same tables in the other region, moved -/
theorem moovTables_move (a a' : Nat) (m : TopBox) (rs : List Region) (ha : a ≤ m.offset) (hle : m.payloadOff ≤ m.endOff)
    (h : moovTables s m = some rs)
    (hag : ∀ p, m.offset ≤ p → p < m.endOff → inRegions rs p = false → s'.get (mv a a' p) = s.get p) :
    moovTables s' (moveBox a a' m) = some (rs.map (moveRegion a a')) := by
  unfold moovTables at h
  simp only [Option.bind_eq_bind] at h
  cases h1 : children s m with
  | none => rw [h1] at h; cases h
  | some cs =>
    rw [h1] at h; simp only [Option.bind_some] at h
    split at h
    · cases h
    rename_i hne
    have hch := chain_of_children s m cs hle h1
    have hw := chain_within s _ _ _ cs hch
    have hd := chain_disjoint s _ _ _ cs hch
    have hmo : m.payloadOff = m.offset + m.hdrLen := rfl
    -- every table sits in the payload of one of the traks
    have src : ∀ r ∈ rs, ∃ t ∈ cs, trakTable s t = some r ∧ t.payloadOff ≤ r.off ∧ r.endOff ≤ t.endOff := by
      intro r hr
      obtain ⟨t, ht, htr⟩ := mapM_mem (trakTable s) _ rs h r hr
      have htc : t ∈ cs := (List.mem_filter.mp ht).1
      obtain ⟨w1, w2, w3⟩ := hw t htc
      have hto : t.payloadOff = t.offset + t.hdrLen := rfl
      obtain ⟨q1, q2⟩ := trakTable_within s t r (by omega) htr
      exact ⟨t, htc, htr, q1, q2⟩
    -- headers of the children are outside every table
    have hc' : children s' (moveBox a a' m) = some (cs.map (moveBox a a')) := by
      apply children_move s s' a a' m cs ha hle h1
      intro x hx i hi
      obtain ⟨w1, w2, w3⟩ := hw x hx
      rw [← mv_add a a' x.offset i (by omega)]
      apply hag (x.offset + i) (by omega) (by omega)
      apply inRegions_false
      intro r hr
      obtain ⟨t, htc, htr, q1, q2⟩ := src r hr
      obtain ⟨v1, v2, v3⟩ := hw t htc
      have hto : t.payloadOff = t.offset + t.hdrLen := rfl
      rcases hd x hx t htc with e | e | e
      · subst e; omega
      · omega
      · omega
    -- each trak
    have htr' : ((cs.filter (fun x => decide (x.name = cc 't' 'r' 'a' 'k'))).map (moveBox a a')).mapM (trakTable s') =
        some (rs.map (moveRegion a a')) := by
      apply mapM_map_of (trakTable s) (trakTable s') (moveBox a a') (moveRegion a a') _ rs h
      intro t ht r htr
      have htc : t ∈ cs := (List.mem_filter.mp ht).1
      obtain ⟨w1, w2, w3⟩ := hw t htc
      have hto : t.payloadOff = t.offset + t.hdrLen := rfl
      refine (trakTable_move s s' a a' t r (by omega) (by omega) htr ?_).1
      intro p hp1 hp2 hnr
      apply hag p (by omega) (by omega)
      apply inRegions_false
      intro r' hr'
      obtain ⟨t', htc', htr'', q1, q2⟩ := src r' hr'
      obtain ⟨v1, v2, v3⟩ := hw t' htc'
      have hto' : t'.payloadOff = t'.offset + t'.hdrLen := rfl
      rcases hd t htc t' htc' with e | e | e
      · subst e
        rw [htr] at htr''
        simp only [Option.some.injEq] at htr''
        subst htr''
        exact hnr
      · omega
      · omega
    unfold moovTables
    simp only [Option.bind_eq_bind, hc', Option.bind_some, filter_map_move]
    have : ((cs.filter (fun x => decide (x.name = cc 't' 'r' 'a' 'k'))).map (moveBox a a')).isEmpty = false := by
      cases hq : cs.filter (fun x => decide (x.name = cc 't' 'r' 'a' 'k')) with
      | nil => rw [hq] at hne; simp at hne
      | cons y ys => rfl
    simp only [this, Bool.false_eq_true, if_false]
    exact htr'

end
end MediaSan.Mp4
