/-
  C01 / C04: the movie box the scan keeps is the LAST moov the independent walker finds at the top level, validated
  from exactly the bytes of its payload.
-/
import MediaSan.Lemmas.TopRel
import MediaSan.Lemmas.MetaWalk
namespace MediaSan.Mp4
open MediaSan MediaSan.Spec.Mp4Walk MediaSan.Spec.Mp4Rules

section
variable (s : Stream) (kind : SkipKind)

/-- the kept moov is the validated payload of the walker's box `m` -/
def MoovKept (st : ScanState) (m : TopBox) : Prop :=
  ∃ hdr d total, st.moov = some ⟨hdr, d⟩ ∧ validateMoov (.bytes (s.read m.payloadOff m.payloadLen)) = .ok (d, total)

theorem specHdr_name (pos lim : Nat) (ovr : Option Nat) (h : BoxHeader) (b : TopBox) (hb : specHdr pos lim ovr h = .ok b) :
    b.name = name4 h := by
  unfold specHdr at hb
  cases hs : h.sz with
  | ext n => rw [hs] at hb; dsimp only at hb; split at hb <;> cases hb; rfl
  | size n => rw [hs] at hb; dsimp only at hb; split at hb <;> cases hb; rfl
  | untilEof =>
    rw [hs] at hb; dsimp only at hb
    split at hb
    · split at hb <;> cases hb
      rfl
    · cases hb; rfl

/-- one iteration, as far as the kept moov is concerned -/
def KeepPost (cfg : Config) (startPos : Nat) (st st' : ScanState) : Prop :=
  ∃ b, headerAt s startPos s.len cfg.cumulativeMdatBoxSize = .ok b ∧
    (b.name = moovN → MoovKept s st' b) ∧ (b.name ≠ moovN → st'.moov = st.moov)

theorem skipArm_keep (st : ScanState) (startPos : Nat) (header : BoxHeader) (pos : Nat) :
    Tri (idealOps s kind)
      (do let n ← skipBox header
          let boxSize ← addU64 "skip_box + encoded_len" n header.encodedLen
          let d ← extendData st.data startPos boxSize
          pure { st with data := d } : P ScanState) pos
      (fun st' _ => st'.moov = st.moov) := by
  apply Tri.bind
  apply Tri.mono Tri.any
  intro n p1 _
  apply Tri.bind
  apply Tri.mono Tri.any
  intro b p2 _
  apply Tri.bind
  apply Tri.mono Tri.any
  intro d p3 _
  exact Tri.done rfl

theorem scanBody_keep (cfg : Config) (st : ScanState) (startPos : Nat) (header : BoxHeader) (pos : Nat)
    (hpos : pos = startPos + header.encodedLen) (hle : pos ≤ s.len) (hh : HdrAt s startPos header) :
    Tri (idealOps s kind) (scanBody cfg st startPos header) pos (fun st' _ =>
      (name4 header = moovN → ∃ b, headerAt s startPos s.len cfg.cumulativeMdatBoxSize = .ok b ∧ MoovKept s st' b) ∧
      (name4 header ≠ moovN → st'.moov = st.moov)) := by
  have h8 := encodedLen_ge8 header
  have hspec := headerAt_of s startPos s.len cfg.cumulativeMdatBoxSize header hh (by omega)
  have hu := hh.2.1
  have tyN : ∀ n : Bytes, n ≠ uuidName → (header.ty = .fourcc n ↔ name4 header = n) :=
    fun n hn => ty_eq_iff header n hn hu
  have other : ∀ (Q : Prop), (name4 header ≠ moovN) → Q →
      ((name4 header = moovN → ∃ b, headerAt s startPos s.len cfg.cumulativeMdatBoxSize = .ok b ∧ MoovKept s st b) ∧
        (name4 header ≠ moovN → Q)) := fun Q hne q => ⟨fun h => absurd h hne, fun _ => q⟩
  unfold scanBody
  dsimp only
  split
  · rename_i hc
    have hne : name4 header ≠ moovN := by
      rcases hc with h | h
      · rw [(tyN freeN (by decide)).mp h]; decide
      · rw [(tyN skipN (by decide)).mp h]; decide
    apply Tri.mono (skipArm_keep s kind st startPos header pos)
    intro st' _ hq
    exact ⟨fun h => absurd h hne, fun _ => hq⟩
  split
  · rename_i hft
    have hne : name4 header ≠ moovN := by rw [(tyN ftypN (by decide)).mp hft]; decide
    split
    · exact Tri.fail
    · apply Tri.bind
      apply Tri.mono Tri.any
      intro payload p1 _
      apply Tri.bind
      cases hpf : parseFtyp payload with
      | panic site => exact Tri.panic
      | err e => exact Tri.fail
      | ok f =>
        apply Tri.done
        split
        · exact Tri.done ⟨fun h => absurd h hne, fun _ => rfl⟩
        · exact Tri.fail
  split
  · exact Tri.fail
  split
  · rename_i hmd
    have hne : name4 header ≠ moovN := by rw [(tyN mdatN (by decide)).mp hmd]; decide
    apply Tri.bind
    apply Tri.mono Tri.any
    intro n p1 _
    apply Tri.bind
    apply Tri.mono Tri.any
    intro b p2 _
    cases hdd : st.data with
    | none => exact Tri.done ⟨fun h => absurd h hne, fun _ => rfl⟩
    | some d =>
      dsimp only
      apply Tri.bind
      apply Tri.mono Tri.any
      intro e p3 _
      split
      · apply Tri.bind
        apply Tri.mono Tri.any
        intro l p4 _
        exact Tri.done ⟨fun h => absurd h hne, fun _ => rfl⟩
      · exact Tri.fail
  split
  · rename_i hmv
    have hname : name4 header = moovN := (tyN moovN (by decide)).mp hmv
    apply Tri.bind
    apply Tri.mono (readData_rel' s kind header cfg.maxMetadataSize pos)
    intro payload p1 ⟨n, hp1, hs, hnL, hpl⟩
    apply Tri.bind
    cases hvm : validateMoov (.bytes payload) with
    | panic site => exact Tri.panic
    | err e => exact Tri.fail
    | ok r =>
      apply Tri.done
      obtain ⟨b, hb, hbo, hbe, hbn, hbh⟩ := box_of_size' s startPos pos n cfg.cumulativeMdatBoxSize header hpos hs
        (fun _ => Or.inr (by rw [hname]; decide))
      have hpo : b.payloadOff = pos := by unfold TopBox.payloadOff; omega
      have hpn : b.payloadLen = n := by unfold TopBox.payloadLen TopBox.payloadOff; omega
      obtain ⟨d, total⟩ := r
      refine Tri.done ⟨fun _ => ⟨b, by rw [hspec]; exact hb, header, d, total, rfl, ?_⟩, fun h => absurd hname h⟩
      rw [hpo, hpn, ← hpl]; exact hvm
  split
  · rename_i hc
    have hne : name4 header ≠ moovN := by
      rcases hc with h | h
      · rw [(tyN metaN (by decide)).mp h]; decide
      · rw [(tyN mecoN (by decide)).mp h]; decide
    apply Tri.mono (skipArm_keep s kind st startPos header pos)
    intro st' _ hq
    exact ⟨fun h => absurd h hne, fun _ => hq⟩
  · apply Tri.bind
    apply Tri.mono Tri.any
    intro n p1 _
    apply Tri.bind
    apply Tri.mono Tri.any
    intro b p2 _
    exact Tri.fail

theorem scanBox_keep (cfg : Config) (st : ScanState) (pos : Nat) :
    Tri (idealOps s kind) (scanBox cfg st) pos (fun st' _ => KeepPost s cfg pos st st') := by
  unfold scanBox
  apply Tri.position
  apply Tri.bind
  apply Tri.mono (readHeader_rel s kind pos)
  intro header p1 ⟨h1, h2, h3⟩
  have h8 := encodedLen_ge8 header
  have hspec := headerAt_of s pos s.len cfg.cumulativeMdatBoxSize header h3 (by omega)
  apply Tri.mono (Tri.and (scanBody_rel s kind cfg st pos header p1 h1 h2 h3) (scanBody_keep s kind cfg st pos header p1 h1 h2 h3))
  intro st' p2 ⟨⟨b, hb, _⟩, k1, k2⟩
  have hbn : b.name = name4 header := specHdr_name pos s.len _ header b (by rw [← hspec]; exact hb)
  refine ⟨b, hb, ?_, ?_⟩
  · intro hm
    obtain ⟨b', hb', hk⟩ := k1 (by rw [← hbn]; exact hm)
    have : b' = b := by rw [hb] at hb'; cases hb'; rfl
    subst this; exact hk
  · intro hm
    exact k2 (by rw [← hbn]; exact hm)

/-- the kept moov after the loop: the walker's last moov among the boxes walked, or what was kept before -/
def KeptIs (st0 st' : ScanState) (bs : List TopBox) : Prop :=
  match lastMoov bs with
  | some m => MoovKept s st' m
  | none => st'.moov = st0.moov

theorem lastMoov_cons (b : TopBox) (bs : List TopBox) :
    lastMoov (b :: bs) = match lastMoov bs with
      | some m => some m
      | none => if b.name = moovN then some b else none := by
  unfold lastMoov
  rw [cc_moov]
  by_cases hb : b.name = moovN
  · rw [List.filter_cons_of_pos (by simp [hb])]
    cases hf : bs.filter (fun x => decide (x.name = moovN)) with
    | nil => simp [hb]
    | cons y ys =>
      rw [List.getLast?_cons_cons]
      cases hq : (y :: ys).getLast? with
      | none => simp at hq
      | some m => rfl
  · rw [List.filter_cons_of_neg (by simp [hb])]
    cases hf : (bs.filter (fun x => decide (x.name = moovN))).getLast? with
    | none => simp [hb]
    | some m => rfl

theorem scan_keep (cfg : Config) (fuel : Nat) (st : ScanState) (pos : Nat) :
    Tri (idealOps s kind) (scan cfg fuel st) pos
      (fun r pos' => ∀ st', r = some st' →
        ∃ bs, Chain s s.len cfg.cumulativeMdatBoxSize pos pos' bs ∧ KeptIs s st st' bs ∧ s.len ≤ pos') := by
  induction fuel generalizing st pos with
  | zero => exact Tri.done (by intro st' h; cases h)
  | succ n ih =>
    unfold scan
    apply Tri.isEof
    by_cases he : s.len ≤ pos
    · simp only [he, decide_true, if_true]
      exact Tri.done (by intro st' h; cases h; exact ⟨[], rfl, rfl, he⟩)
    · simp only [he, decide_false, Bool.false_eq_true, if_false]
      apply Tri.bind
      apply Tri.mono (Tri.and (scanBox_rel s kind cfg st pos) (scanBox_keep s kind cfg st pos))
      intro st1 p1 ⟨⟨b, hb, hbo, hbe, h8, hstep⟩, ⟨b', hb', k1, k2⟩⟩
      have hbb : b' = b := by rw [hb] at hb'; cases hb'; rfl
      subst hbb
      apply Tri.mono (ih st1 p1)
      intro r p2 hr st' hst'
      obtain ⟨bs, hc, hk, hl⟩ := hr st' hst'
      refine ⟨b' :: bs, ⟨hb, hbo, by omega, by rw [hbe]; exact hc⟩, ?_, hl⟩
      unfold KeptIs at hk ⊢
      rw [lastMoov_cons]
      cases hlm : lastMoov bs with
      | some m => rw [hlm] at hk; exact hk
      | none =>
        rw [hlm] at hk
        dsimp only at hk ⊢
        by_cases hm : b'.name = moovN
        · simp only [hm, if_true]
          obtain ⟨hdr, d, total, e1, e2⟩ := k1 hm
          exact ⟨hdr, d, total, by rw [hk, e1], e2⟩
        · simp only [hm, if_false]
          rw [hk, k2 hm]


/-! ### the kept ftyp is the first ftyp box, byte for byte -/

theorem parseFtyp_ser (b : Bytes) (f : Ftyp) (h : parseFtyp b = .ok f) : ftypSer.ser f = b := by
  unfold parseFtyp at h
  split at h
  · simp at h
  · split at h
    · simp at h
    · rename_i h4 h8
      simp only [PureRes.ok.injEq] at h
      subst h
      have hl : ((b.drop 4).take 4).length = 4 := by simp; omega
      have e := natToBE_beToNat ((b.drop 4).take 4)
      rw [hl] at e
      simp only [ftypSer, e]
      have : b.drop 8 = (b.drop 4).drop 4 := by rw [List.drop_drop]
      rw [this, List.append_assoc, List.take_append_drop, List.take_append_drop]

def FtypKept (st : ScanState) (b : TopBox) : Prop :=
  ∃ f, st.ftyp = some f ∧ f.data.ser ftypSer = s.read b.payloadOff b.payloadLen

theorem skipArm_keepF (st : ScanState) (startPos : Nat) (header : BoxHeader) (pos : Nat) :
    Tri (idealOps s kind)
      (do let n ← skipBox header
          let boxSize ← addU64 "skip_box + encoded_len" n header.encodedLen
          let d ← extendData st.data startPos boxSize
          pure { st with data := d } : P ScanState) pos
      (fun st' _ => st'.ftyp = st.ftyp) := by
  apply Tri.bind
  apply Tri.mono Tri.any
  intro n p1 _
  apply Tri.bind
  apply Tri.mono Tri.any
  intro b p2 _
  apply Tri.bind
  apply Tri.mono Tri.any
  intro d p3 _
  exact Tri.done rfl

theorem scanBody_keepF (cfg : Config) (st : ScanState) (startPos : Nat) (header : BoxHeader) (pos : Nat)
    (hpos : pos = startPos + header.encodedLen) (hle : pos ≤ s.len) (hh : HdrAt s startPos header) :
    Tri (idealOps s kind) (scanBody cfg st startPos header) pos (fun st' _ =>
      (name4 header = ftypN → st.ftyp = none ∧
        ∃ b, headerAt s startPos s.len cfg.cumulativeMdatBoxSize = .ok b ∧ FtypKept s st' b) ∧
      (name4 header ≠ ftypN → st'.ftyp = st.ftyp)) := by
  have h8 := encodedLen_ge8 header
  have hspec := headerAt_of s startPos s.len cfg.cumulativeMdatBoxSize header hh (by omega)
  have hu := hh.2.1
  have tyN : ∀ n : Bytes, n ≠ uuidName → (header.ty = .fourcc n ↔ name4 header = n) :=
    fun n hn => ty_eq_iff header n hn hu
  unfold scanBody
  dsimp only
  split
  · rename_i hc
    have hne : name4 header ≠ ftypN := by
      rcases hc with h | h
      · rw [(tyN freeN (by decide)).mp h]; decide
      · rw [(tyN skipN (by decide)).mp h]; decide
    apply Tri.mono (skipArm_keepF s kind st startPos header pos)
    intro st' _ hq
    exact ⟨fun h => absurd h hne, fun _ => hq⟩
  split
  · rename_i hft
    have hname : name4 header = ftypN := (tyN ftypN (by decide)).mp hft
    split
    · exact Tri.fail
    · rename_i hnone
      have hnone' : st.ftyp = none := by
        cases hq : st.ftyp with
        | none => rfl
        | some f => rw [hq] at hnone; simp at hnone
      apply Tri.bind
      apply Tri.mono (readData_rel' s kind header maxFtypSize pos)
      intro payload p1 ⟨n, hp1, hs, hnL, hpl⟩
      apply Tri.bind
      cases hpf : parseFtyp payload with
      | panic site => exact Tri.panic
      | err e => exact Tri.fail
      | ok f =>
        apply Tri.done
        split
        · obtain ⟨b, hb, hbo, hbe, hbn, hbh⟩ := box_of_size' s startPos pos n cfg.cumulativeMdatBoxSize header hpos hs
            (fun _ => Or.inr (by rw [hname]; decide))
          have hpo : b.payloadOff = pos := by unfold TopBox.payloadOff; omega
          have hpn : b.payloadLen = n := by unfold TopBox.payloadLen TopBox.payloadOff; omega
          refine Tri.done ⟨fun _ => ⟨hnone', b, by rw [hspec]; exact hb, ⟨header, .parsed f⟩, rfl, ?_⟩, fun h => absurd hname h⟩
          rw [hpo, hpn, ← hpl]
          exact parseFtyp_ser payload f hpf
        · exact Tri.fail
  split
  · exact Tri.fail
  split
  · rename_i hmd
    have hne : name4 header ≠ ftypN := by rw [(tyN mdatN (by decide)).mp hmd]; decide
    apply Tri.bind
    apply Tri.mono Tri.any
    intro n p1 _
    apply Tri.bind
    apply Tri.mono Tri.any
    intro b p2 _
    cases hdd : st.data with
    | none => exact Tri.done ⟨fun h => absurd h hne, fun _ => rfl⟩
    | some d =>
      dsimp only
      apply Tri.bind
      apply Tri.mono Tri.any
      intro e p3 _
      split
      · apply Tri.bind
        apply Tri.mono Tri.any
        intro l p4 _
        exact Tri.done ⟨fun h => absurd h hne, fun _ => rfl⟩
      · exact Tri.fail
  split
  · rename_i hmv
    have hne : name4 header ≠ ftypN := by rw [(tyN moovN (by decide)).mp hmv]; decide
    apply Tri.bind
    apply Tri.mono Tri.any
    intro payload p1 _
    apply Tri.bind
    cases hvm : validateMoov (.bytes payload) with
    | panic site => exact Tri.panic
    | err e => exact Tri.fail
    | ok r =>
      apply Tri.done
      exact Tri.done ⟨fun h => absurd h hne, fun _ => rfl⟩
  split
  · rename_i hc
    have hne : name4 header ≠ ftypN := by
      rcases hc with h | h
      · rw [(tyN metaN (by decide)).mp h]; decide
      · rw [(tyN mecoN (by decide)).mp h]; decide
    apply Tri.mono (skipArm_keepF s kind st startPos header pos)
    intro st' _ hq
    exact ⟨fun h => absurd h hne, fun _ => hq⟩
  · apply Tri.bind
    apply Tri.mono Tri.any
    intro n p1 _
    apply Tri.bind
    apply Tri.mono Tri.any
    intro b p2 _
    exact Tri.fail

def KeepPostF (cfg : Config) (startPos : Nat) (st st' : ScanState) : Prop :=
  ∃ b, headerAt s startPos s.len cfg.cumulativeMdatBoxSize = .ok b ∧
    (b.name = ftypN → st.ftyp = none ∧ FtypKept s st' b) ∧ (b.name ≠ ftypN → st'.ftyp = st.ftyp)

theorem scanBox_keepF (cfg : Config) (st : ScanState) (pos : Nat) :
    Tri (idealOps s kind) (scanBox cfg st) pos (fun st' _ => KeepPostF s cfg pos st st') := by
  unfold scanBox
  apply Tri.position
  apply Tri.bind
  apply Tri.mono (readHeader_rel s kind pos)
  intro header p1 ⟨h1, h2, h3⟩
  have h8 := encodedLen_ge8 header
  have hspec := headerAt_of s pos s.len cfg.cumulativeMdatBoxSize header h3 (by omega)
  apply Tri.mono (Tri.and (scanBody_rel s kind cfg st pos header p1 h1 h2 h3) (scanBody_keepF s kind cfg st pos header p1 h1 h2 h3))
  intro st' p2 ⟨⟨b, hb, _⟩, k1, k2⟩
  have hbn : b.name = name4 header := specHdr_name pos s.len _ header b (by rw [← hspec]; exact hb)
  refine ⟨b, hb, ?_, ?_⟩
  · intro hm
    obtain ⟨hn, b', hb', hk⟩ := k1 (by rw [← hbn]; exact hm)
    have : b' = b := by rw [hb] at hb'; cases hb'; rfl
    subst this; exact ⟨hn, hk⟩
  · intro hm
    exact k2 (by rw [← hbn]; exact hm)

/-- the kept ftyp after the loop: the first ftyp box among the boxes walked, or what was kept before -/
def KeptFIs (st0 st' : ScanState) (bs : List TopBox) : Prop :=
  match bs.find? (fun b => decide (b.name = ftypN)) with
  | some b => st0.ftyp = none ∧ FtypKept s st' b
  | none => st'.ftyp = st0.ftyp

theorem scan_keepF (cfg : Config) (fuel : Nat) (st : ScanState) (pos : Nat) :
    Tri (idealOps s kind) (scan cfg fuel st) pos
      (fun r pos' => ∀ st', r = some st' →
        ∃ bs, Chain s s.len cfg.cumulativeMdatBoxSize pos pos' bs ∧ KeptFIs s st st' bs ∧ s.len ≤ pos') := by
  induction fuel generalizing st pos with
  | zero => exact Tri.done (by intro st' h; cases h)
  | succ n ih =>
    unfold scan
    apply Tri.isEof
    by_cases he : s.len ≤ pos
    · simp only [he, decide_true, if_true]
      exact Tri.done (by intro st' h; cases h; exact ⟨[], rfl, rfl, he⟩)
    · simp only [he, decide_false, Bool.false_eq_true, if_false]
      apply Tri.bind
      apply Tri.mono (Tri.and (scanBox_rel s kind cfg st pos) (scanBox_keepF s kind cfg st pos))
      intro st1 p1 ⟨⟨b, hb, hbo, hbe, h8, hstep⟩, ⟨b', hb', k1, k2⟩⟩
      have hbb : b' = b := by rw [hb] at hb'; cases hb'; rfl
      subst hbb
      apply Tri.mono (ih st1 p1)
      intro r p2 hr st' hst'
      obtain ⟨bs, hc, hk, hl⟩ := hr st' hst'
      refine ⟨b' :: bs, ⟨hb, hbo, by omega, by rw [hbe]; exact hc⟩, ?_, hl⟩
      unfold KeptFIs at hk ⊢
      by_cases hm : b'.name = ftypN
      · rw [List.find?_cons_of_pos (by simp [hm])]
        obtain ⟨hn, f, e1, e2⟩ := k1 hm
        cases hfd : bs.find? (fun b => decide (b.name = ftypN)) with
        | some b2 => rw [hfd] at hk; rw [hk.1] at e1; cases e1
        | none =>
          rw [hfd] at hk
          exact ⟨hn, f, by rw [hk, e1], e2⟩
      · rw [List.find?_cons_of_neg (by simp [hm])]
        cases hfd : bs.find? (fun b => decide (b.name = ftypN)) with
        | some b2 => rw [hfd] at hk; dsimp only at hk ⊢; exact ⟨by rw [← k2 hm]; exact hk.1, hk.2⟩
        | none => rw [hfd] at hk; dsimp only at hk ⊢; rw [hk, k2 hm]

end
end MediaSan.Mp4
