/-
  C05 (converse) / C02 (fixpoint): one iteration of the scan loop RETURNS on a box the independent walker accepts and
  the top-level state machine admits, and leaves the loop state the state machines predict.
-/
import MediaSan.Lemmas.Tot
import MediaSan.Lemmas.TopRel
import MediaSan.Lemmas.TreeConv
import MediaSan.Lemmas.KeepRel
namespace MediaSan.Mp4
open MediaSan MediaSan.Spec.Mp4Walk MediaSan.Spec.Mp4Rules

section
variable (s : Stream) (kind : SkipKind)

/-- the bytes of the header the walker read are there for `BoxHeader::read` -/
theorem headerAt_avail (off lim : Nat) (ovr : Option Nat) (b : TopBox) (h : headerAt s off lim ovr = .ok b) :
    off + 8 ≤ lim ∧ (be s off 4 = 1 → off + 16 ≤ lim) ∧
    (s.read (off + 4) 4 = uuidName → off + 8 + (if be s off 4 = 1 then 8 else 0) + 16 ≤ lim) := by
  unfold headerAt at h
  split at h
  · cases h
  rename_i h8
  dsimp only at h
  have eU : uuidName = [0x75, 0x75, 0x69, 0x64] := rfl
  rw [eU]
  by_cases hu : s.read (off + 4) 4 = [0x75, 0x75, 0x69, 0x64]
  · simp only [hu, if_true] at h ⊢
    by_cases h1 : be s off 4 = 1
    · simp only [h1, if_true] at h ⊢
      split at h
      · cases h
      · exact ⟨by omega, fun _ => by omega, fun _ => by omega⟩
    · simp only [h1, if_false] at h ⊢
      split at h
      · cases h
      · exact ⟨by omega, fun e => by first | exact e.elim | exact absurd e h1, fun _ => by omega⟩
  · simp only [hu, if_false] at h ⊢
    by_cases h1 : be s off 4 = 1
    · simp only [h1, if_true] at h ⊢
      split at h
      · cases h
      · exact ⟨by omega, fun _ => by omega, fun e => by first | exact e.elim | exact absurd e hu⟩
    · exact ⟨by omega, fun e => by first | exact e.elim | exact absurd e h1, fun e => by first | exact e.elim | exact absurd e hu⟩

/-- `BoxHeader::read` returns when the bytes are there -/
theorem readHeader_tot (pos : Nat) (h8 : pos + 8 ≤ s.len) (h16 : be s pos 4 = 1 → pos + 16 ≤ s.len)
    (hu : s.read (pos + 4) 4 = uuidName → pos + 8 + (if be s pos 4 = 1 then 8 else 0) + 16 ≤ s.len) :
    Tot (idealOps s kind) readHeader pos (fun hd pos' => pos' = pos + hd.encodedLen ∧ pos' ≤ s.len ∧ HdrAt s pos hd) := by
  have core : Tot (idealOps s kind) readHeader pos (fun _ _ => True) := by
    unfold readHeader
    apply Tot.readExact s kind (by omega)
    apply Tot.readExact s kind (by omega)
    dsimp only
    have tail : ∀ (sz : BoxSize) (p : Nat), (s.read (pos + 4) 4 = uuidName → p + 16 ≤ s.len) →
        Tot (idealOps s kind)
          (if s.read (pos + 4) 4 = uuidName then
            Prog.readExact 16 (some PErr.truncatedBox) fun u => (Prog.done ⟨BoxType.uuid u, sz⟩ : P BoxHeader)
           else Prog.done ⟨BoxType.fourcc (s.read (pos + 4) 4), sz⟩) p (fun _ _ => True) := by
      intro sz p hp
      split
      · rename_i hq
        apply Tot.readExact s kind (hp hq)
        exact Tot.done trivial
      · exact Tot.done trivial
    split
    · rename_i h0
      apply tail
      intro hq
      have := hu hq
      have h1 : ¬ be s pos 4 = 1 := by unfold be; omega
      simp only [h1, if_false] at this
      omega
    · split
      · rename_i h0 h1
        have h1' : be s pos 4 = 1 := h1
        apply Tot.readExact s kind (by have := h16 h1'; omega)
        apply tail
        intro hq
        have := hu hq
        simp only [h1', if_true] at this
        omega
      · rename_i h0 h1
        apply tail
        intro hq
        have := hu hq
        have h1' : ¬ be s pos 4 = 1 := h1
        simp only [h1', if_false] at this
        omega
  exact Tot.mono (Tot.and_tri core (readHeader_rel s kind pos)) (fun _ _ h => h.2)


/-! ### the pieces of an iteration -/

theorem boxDataSize_tot (h : BoxHeader) (pos n : Nat) (hs : SizeIs' s h pos n) :
    Tot (idealOps s kind) (boxDataSize h) pos (fun r pos' => r = n ∧ pos' = pos) := by
  unfold boxDataSize
  rcases hs with hd | ⟨hd, hp, hn⟩
  · rw [hd]; exact Tot.done ⟨rfl, rfl⟩
  · rw [hd]
    dsimp only
    apply Tot.streamLen
    apply Tot.position
    unfold subU64
    simp only [hp, if_true]
    exact Tot.done ⟨hn.symm, rfl⟩

theorem skipBox_tot (h : BoxHeader) (pos n : Nat) (hl : s.len < u64Lim) (hs : SizeIs' s h pos n) (hfit : pos + n ≤ s.len) :
    Tot (idealOps s kind) (skipBox h) pos (fun r pos' => r = n ∧ pos' = pos + n) := by
  unfold skipBox
  apply Tot.bind
  apply Tot.mono (boxDataSize_tot s kind h pos n hs)
  intro r p ⟨hr, hp⟩
  subst hr hp
  apply Tot.skip s kind hl hfit
  exact Tot.done ⟨rfl, rfl⟩

theorem readData_tot (h : BoxHeader) (L pos n : Nat) (hs : SizeIs' s h pos n) (hfit : pos + n ≤ s.len) (hL : n ≤ L) :
    Tot (idealOps s kind) (readData h L) pos (fun r pos' => r = s.read pos n ∧ pos' = pos + n) := by
  unfold readData
  apply Tot.bind
  apply Tot.mono (boxDataSize_tot s kind h pos n hs)
  intro r p ⟨hr, hp⟩
  subst hr hp
  simp only [hL, if_true]
  apply Tot.readExact s kind hfit
  exact Tot.done ⟨rfl, rfl⟩

theorem addU64_tot (site : String) (a b pos : Nat) (h : a + b ≤ u64Max) :
    Tot (idealOps s kind) (addU64 site a b) pos (fun r pos' => r = a + b ∧ pos' = pos) := by
  unfold addU64
  simp only [h, if_true]
  exact Tot.done ⟨rfl, rfl⟩

theorem extendData_tot (d0 : Option Span) (startPos boxSize pos : Nat)
    (hb : ∀ d, d0 = some d → d.offset + d.len ≤ u64Max ∧ d.len + boxSize ≤ u64Max) :
    Tot (idealOps s kind) (extendData d0 startPos boxSize) pos (fun _ pos' => pos' = pos) := by
  unfold extendData
  cases d0 with
  | none => exact Tot.done rfl
  | some d =>
    obtain ⟨b1, b2⟩ := hb d rfl
    dsimp only
    apply Tot.bind
    apply Tot.mono (addU64_tot s kind _ _ _ pos b1)
    intro e p ⟨he, hp⟩
    subst he
    split
    · apply Tot.bind
      apply Tot.mono (addU64_tot s kind _ _ _ p b2)
      intro l p' ⟨hl', hp'⟩
      exact Tot.done (by rw [hp', hp])
    · exact Tot.done hp

/-- what the walker's reading of a header says about the model's size computation (no mdat override in play) -/
theorem spec_sizes (startPos lim : Nat) (ovr : Option Nat) (h : BoxHeader) (b : TopBox)
    (hsp : specHdr startPos lim ovr h = .ok b) (hno : ovr = none ∨ name4 h ≠ mdatN ∨ h.sz ≠ .untilEof) :
    b.offset = startPos ∧ b.hdrLen = h.encodedLen ∧
    ((∃ n, h.dataSize = .ok (some n) ∧ b.endOff = startPos + h.encodedLen + n) ∨ (h.dataSize = .ok none ∧ b.endOff = lim)) := by
  unfold specHdr at hsp
  cases hs : h.sz with
  | ext n =>
    rw [hs] at hsp; dsimp only at hsp
    split at hsp
    · cases hsp
    · rename_i hle
      simp only [Hdr.ok.injEq] at hsp
      subst hsp
      refine ⟨rfl, rfl, Or.inl ⟨n - h.encodedLen, ?_, by dsimp only; omega⟩⟩
      simp only [BoxHeader.dataSize, hs, BoxSize.toNat?]
      have : h.encodedLen ≤ n := by omega
      simp only [this, if_true]
  | size n =>
    rw [hs] at hsp; dsimp only at hsp
    split at hsp
    · cases hsp
    · rename_i hle
      simp only [Hdr.ok.injEq] at hsp
      subst hsp
      refine ⟨rfl, rfl, Or.inl ⟨n - h.encodedLen, ?_, by dsimp only; omega⟩⟩
      simp only [BoxHeader.dataSize, hs, BoxSize.toNat?]
      have : h.encodedLen ≤ n := by omega
      simp only [this, if_true]
  | untilEof =>
    rw [hs] at hsp; dsimp only at hsp
    have hds : h.dataSize = .ok none := by simp [BoxHeader.dataSize, hs, BoxSize.toNat?]
    rcases hno with h0 | h0 | h0
    · subst h0
      simp only [Hdr.ok.injEq] at hsp
      subst hsp
      exact ⟨rfl, rfl, Or.inr ⟨hds, rfl⟩⟩
    · have : decide (name4 h = mdatN) = false := by simp [h0]
      rw [this] at hsp
      cases ovr <;> (simp only [Hdr.ok.injEq] at hsp; subst hsp; exact ⟨rfl, rfl, Or.inr ⟨hds, rfl⟩⟩)
    · exact absurd hs h0

theorem sizeIs_of (startPos lim pos : Nat) (h : BoxHeader) (b : TopBox) (hpos : pos = startPos + h.encodedLen)
    (hlim : lim = s.len) (hle : pos ≤ s.len)
    (hc : (∃ n, h.dataSize = .ok (some n) ∧ b.endOff = startPos + h.encodedLen + n) ∨ (h.dataSize = .ok none ∧ b.endOff = lim)) :
    SizeIs' s h pos (b.endOff - pos) ∧ pos ≤ b.endOff := by
  rcases hc with ⟨n, h1, h2⟩ | ⟨h1, h2⟩
  · exact ⟨Or.inl (by rw [h1, h2, hpos]; congr 2; omega), by omega⟩
  · exact ⟨Or.inr ⟨h1, hle, by rw [h2, hlim]⟩, by omega⟩


/-- the specification's ftyp test is the model's -/
theorem model_of_ftypOk (b : TopBox) (h : ftypOk s b = true) :
    b.payloadLen ≤ maxFtypSize ∧ ∃ f, parseFtyp (s.read b.payloadOff b.payloadLen) = .ok f ∧ f.hasIsom = true := by
  unfold ftypOk brands at h
  simp only [decide_eq_true_eq] at h
  obtain ⟨h8, hmax, hany⟩ := h
  have hp : parseFtyp (s.read b.payloadOff b.payloadLen) =
      .ok ⟨(s.read b.payloadOff b.payloadLen).take 4, beToNat (((s.read b.payloadOff b.payloadLen).drop 4).take 4),
        (s.read b.payloadOff b.payloadLen).drop 8⟩ := by
    unfold parseFtyp
    simp only [read_length]
    have e1 : ¬ b.payloadLen < 4 := by omega
    have e2 : ¬ b.payloadLen < 8 := by omega
    simp only [e1, e2, if_false]
  refine ⟨by unfold maxFtypSize; exact hmax, _, hp, ?_⟩
  unfold Ftyp.hasIsom
  simp only [read_drop, read_length]
  rw [brandList_read s _ _ _ (by omega)]
  rw [cc_isom] at hany
  rw [List.any_eq_true] at hany ⊢
  obtain ⟨x, hx, he⟩ := hany
  refine ⟨x, ?_, by simpa using he⟩
  rw [List.mem_map] at hx ⊢
  obtain ⟨i, hi1, hi2⟩ := hx
  exact ⟨i, hi1, by rw [← hi2]⟩

/-- what the loop needs to know about the payload of a box it keeps (as `BoxSide`, plus the size bound that every sane
    limit implies) -/
def BoxSideT (cfg : Config) (b : TopBox) : Prop :=
  (b.name = ftypN → ftypOk s b = true) ∧
  (b.name = moovN → moovOk s ⟨cfg.maxMetadataSize, cfg.cumulativeMdatBoxSize⟩ b = true ∧ b.payloadLen ≤ 4 * Mp4.u32Max)

theorem skipArm_tot (st : ScanState) (startPos : Nat) (header : BoxHeader) (pos n : Nat) (hl : s.len < u64Lim)
    (hs : SizeIs' s header pos n) (hfit : pos + n ≤ s.len) (hpos : pos = startPos + header.encodedLen)
    (hinv : ∀ d, st.data = some d → d.offset + d.len ≤ startPos) :
    Tot (idealOps s kind)
      (do let n ← skipBox header
          let boxSize ← addU64 "skip_box + encoded_len" n header.encodedLen
          let d ← extendData st.data startPos boxSize
          pure { st with data := d } : P ScanState) pos (fun _ _ => True) := by
  have hu : u64Max + 1 = u64Lim := rfl
  apply Tot.bind
  apply Tot.mono (skipBox_tot s kind header pos n hl hs hfit)
  intro r p1 ⟨hr, hp1⟩
  subst hr
  apply Tot.bind
  apply Tot.mono (addU64_tot s kind _ _ _ p1 (by omega))
  intro bsz p2 ⟨hb, hp2⟩
  subst hb
  apply Tot.bind
  apply Tot.mono (extendData_tot s kind st.data startPos _ p2 (fun d hd => by have := hinv d hd; omega))
  intro d p3 _
  exact Tot.done trivial

/-- one iteration after the header: it returns -/
theorem scanBody_tot (cfg : Config) (st : ScanState) (startPos : Nat) (header : BoxHeader) (pos : Nat) (b : TopBox)
    (hl : s.len < u64Lim) (hpos : pos = startPos + header.encodedLen) (hle : pos ≤ s.len) (hh : HdrAt s startPos header)
    (hb : headerAt s startPos s.len cfg.cumulativeMdatBoxSize = .ok b) (hend : b.endOff ≤ s.len)
    (t' : TopSt) (htop : topStep (topOf st) b = some t') (d' : Option Span) (hspan : spanStep st.data b = some d')
    (hside : BoxSideT s cfg b) (hinv : ∀ d, st.data = some d → d.offset + d.len ≤ startPos) :
    Tot (idealOps s kind) (scanBody cfg st startPos header) pos (fun _ _ => True) := by
  have h8 := encodedLen_ge8 header
  have hspec := headerAt_of s startPos s.len cfg.cumulativeMdatBoxSize header hh (by omega)
  rw [hspec] at hb
  have hbn : b.name = name4 header := specHdr_name startPos s.len _ header b hb
  have hu := hh.2.1
  have tyN : ∀ n : Bytes, n ≠ uuidName → (header.ty = .fourcc n ↔ name4 header = n) :=
    fun n hn => ty_eq_iff header n hn hu
  have hu64 : u64Max + 1 = u64Lim := rfl
  -- sizes, when no override is in play
  have plain : name4 header ≠ mdatN → SizeIs' s header pos (b.endOff - pos) ∧ pos ≤ b.endOff := by
    intro hnm
    obtain ⟨_, _, hc⟩ := spec_sizes startPos s.len _ header b hb (Or.inr (Or.inl hnm))
    exact sizeIs_of s startPos s.len pos header b hpos rfl hle hc
  unfold scanBody
  dsimp only
  split
  · rename_i hc
    have hne : name4 header ≠ mdatN := by
      rcases hc with h | h
      · rw [(tyN freeN (by decide)).mp h]; decide
      · rw [(tyN skipN (by decide)).mp h]; decide
    obtain ⟨hs, hpe⟩ := plain hne
    exact skipArm_tot s kind st startPos header pos _ hl hs (by omega) hpos hinv
  rename_i hnfs
  split
  · -- ftyp
    rename_i hft
    have hname : name4 header = ftypN := (tyN ftypN (by decide)).mp hft
    have hne : name4 header ≠ mdatN := by rw [hname]; decide
    obtain ⟨hs, hpe⟩ := plain hne
    have hbf : b.name = ftypN := by rw [hbn, hname]
    -- the state machine admits an ftyp only when none was seen
    have hnone : st.ftyp.isSome = false := by
      unfold topStep at htop
      have e1 : ¬ (b.name = freeN ∨ b.name = skipN) := by rw [hbf]; decide
      rw [if_neg e1, if_pos hbf] at htop
      cases hq : (topOf st).ftyp with
      | true => rw [hq] at htop; simp at htop
      | false => exact hq
    obtain ⟨hmaxf, f, hpf, hiso⟩ := model_of_ftypOk s b (hside.1 hbf)
    obtain ⟨g1, g2, _⟩ := spec_sizes startPos s.len _ header b hb (Or.inr (Or.inl hne))
    have hpo : b.payloadOff = pos := by unfold TopBox.payloadOff; omega
    have hpl : b.payloadLen = b.endOff - pos := by unfold TopBox.payloadLen; rw [hpo]
    simp only [hnone, Bool.false_eq_true, if_false]
    apply Tot.bind
    apply Tot.mono (readData_tot s kind header maxFtypSize pos _ hs (by omega) (by rw [← hpl]; exact hmaxf))
    intro payload p1 ⟨hpay, hp1⟩
    subst hpay
    rw [← hpl, ← hpo, hpf]
    apply Tot.bind
    apply Tot.done
    simp only [hiso, if_true]
    exact Tot.done trivial
  rename_i hnft
  -- every other box needs the ftyp
  have hsome : st.ftyp.isSome = true := by
    unfold topStep at htop
    by_cases e1 : b.name = freeN ∨ b.name = skipN
    · exfalso
      rcases e1 with e | e
      · exact hnfs (Or.inl ((tyN freeN (by decide)).mpr (by rw [← hbn]; exact e)))
      · exact hnfs (Or.inr ((tyN skipN (by decide)).mpr (by rw [← hbn]; exact e)))
    · rw [if_neg e1] at htop
      have e2 : ¬ b.name = ftypN := fun e => hnft ((tyN ftypN (by decide)).mpr (by rw [← hbn]; exact e))
      rw [if_neg e2] at htop
      cases hq : (topOf st).ftyp with
      | true => exact hq
      | false => rw [hq] at htop; simp at htop
  have hisn : st.ftyp.isNone = false := by
    cases hq : st.ftyp with
    | none => rw [hq] at hsome; simp at hsome
    | some f => rfl
  simp only [hisn, Bool.false_eq_true, if_false]
  split
  · -- mdat
    rename_i hmd
    have hnm : name4 header = mdatN := (tyN mdatN (by decide)).mp hmd
    have hbm : b.name = mdatN := by rw [hbn, hnm]
    -- the size after the override
    have hsz : ∃ n, SizeIs' s (applyCum cfg header) pos n ∧ pos + n = b.endOff ∧ (applyCum cfg header).encodedLen = header.encodedLen := by
      cases hd : header.dataSize with
      | error e =>
        exfalso
        unfold specHdr at hb
        unfold BoxHeader.dataSize at hd
        cases hs : header.sz with
        | untilEof => rw [hs] at hd; simp [BoxSize.toNat?] at hd
        | size n =>
          rw [hs] at hd hb; simp only [BoxSize.toNat?] at hd
          dsimp only at hb
          split at hd
          · cases hd
          · split at hb
            · cases hb
            · omega
        | ext n =>
          rw [hs] at hd hb; simp only [BoxSize.toNat?] at hd
          dsimp only at hb
          split at hd
          · cases hd
          · split at hb
            · cases hb
            · omega
      | ok o =>
        cases o with
        | some m =>
          have e1 : applyCum cfg header = header := by unfold applyCum; rw [hd]
          rw [e1]
          have hnu : header.sz ≠ .untilEof := by
            intro hq; unfold BoxHeader.dataSize at hd; rw [hq] at hd; simp [BoxSize.toNat?] at hd
          obtain ⟨_, _, hc⟩ := spec_sizes startPos s.len _ header b hb (Or.inr (Or.inr hnu))
          obtain ⟨q1, q2⟩ := sizeIs_of s startPos s.len pos header b hpos rfl hle hc
          exact ⟨_, q1, by omega, rfl⟩
        | none =>
          cases hc : cfg.cumulativeMdatBoxSize with
          | none =>
            have e1 : applyCum cfg header = header := by unfold applyCum; rw [hd, hc]
            rw [e1]
            rw [hc] at hb
            obtain ⟨_, _, hcc⟩ := spec_sizes startPos s.len none header b hb (Or.inl rfl)
            obtain ⟨q1, q2⟩ := sizeIs_of s startPos s.len pos header b hpos rfl hle hcc
            exact ⟨_, q1, by omega, rfl⟩
          | some t =>
            have e1 : applyCum cfg header = { header with sz := .size t } := by unfold applyCum; rw [hd, hc]
            have hsz := dataSize_none header hd
            have hel : ({ header with sz := .size t } : BoxHeader).encodedLen = 8 := by
              simp only [BoxHeader.encodedLen, hmd, MDAT]
            have hel0 : header.encodedLen = 8 := by
              simp only [BoxHeader.encodedLen, hmd, MDAT, hsz]
            rw [e1]
            rw [hc] at hb
            unfold specHdr at hb
            rw [hsz] at hb
            dsimp only at hb
            have : decide (name4 header = mdatN) = true := by simp [hnm]
            rw [this] at hb
            dsimp only at hb
            split at hb
            · cases hb
            · rename_i ht8
              simp only [Hdr.ok.injEq] at hb
              subst hb
              refine ⟨t - 8, Or.inl ?_, by dsimp only; omega, by rw [hel, hel0]⟩
              simp only [BoxHeader.dataSize, BoxSize.toNat?, hel]
              have : 8 ≤ t := by omega
              simp only [this, if_true]
    obtain ⟨n, hsn, hpn, hel⟩ := hsz
    apply Tot.bind
    apply Tot.mono (skipBox_tot s kind (applyCum cfg header) pos n hl hsn (by omega))
    intro r p1 ⟨hr, hp1⟩
    subst hr
    apply Tot.bind
    apply Tot.mono (addU64_tot s kind _ _ _ p1 (by rw [hel]; omega))
    intro bsz p2 ⟨hbz, hp2⟩
    subst hbz
    -- the span bookkeeping admits the box: contiguous with the span so far
    rw [spanStep_mdat _ b hbm] at hspan
    have hbo : b.offset = startPos := by
      unfold specHdr at hb
      cases hq : header.sz with
      | ext m => rw [hq] at hb; dsimp only at hb; split at hb <;> cases hb; rfl
      | size m => rw [hq] at hb; dsimp only at hb; split at hb <;> cases hb; rfl
      | untilEof =>
        rw [hq] at hb; dsimp only at hb
        split at hb
        · split at hb <;> cases hb; rfl
        · cases hb; rfl
    cases hdd : st.data with
    | none => exact Tot.done trivial
    | some d =>
      rw [hdd] at hspan
      dsimp only at hspan ⊢
      have hdi := hinv d hdd
      apply Tot.bind
      apply Tot.mono (addU64_tot s kind _ _ _ p2 (by omega))
      intro e p3 ⟨he, hp3⟩
      subst he
      split at hspan
      · rename_i hcont
        rw [hbo] at hcont
        simp only [hcont, if_true]
        apply Tot.bind
        apply Tot.mono (addU64_tot s kind _ _ _ p3 (by rw [hel]; omega))
        intro l p4 _
        exact Tot.done trivial
      · cases hspan
  rename_i hnmd
  have hne : name4 header ≠ mdatN := fun e => hnmd ((tyN mdatN (by decide)).mpr e)
  obtain ⟨hs, hpe⟩ := plain hne
  split
  · -- moov
    rename_i hmv
    have hname : name4 header = moovN := (tyN moovN (by decide)).mp hmv
    have hbmv : b.name = moovN := by rw [hbn, hname]
    obtain ⟨hok, hsz4⟩ := hside.2 hbmv
    obtain ⟨g1, g2, _⟩ := spec_sizes startPos s.len _ header b hb (Or.inr (Or.inl hne))
    have hpo : b.payloadOff = pos := by unfold TopBox.payloadOff; omega
    have hpl : b.payloadLen = b.endOff - pos := by unfold TopBox.payloadLen; rw [hpo]
    unfold moovOk at hok
    simp only [Bool.and_eq_true, decide_eq_true_eq] at hok
    obtain ⟨hlim, htab⟩ := hok
    cases hmt : moovTables s b with
    | none => rw [hmt] at htab; cases htab
    | some rs =>
      rw [hmt] at htab
      have hbound : ∀ r ∈ rs, r.width * r.count ≤ 4294967295 := by
        intro r hr
        have := List.all_eq_true.mp htab r hr
        have := of_decide_eq_true this
        unfold Spec.Mp4Rules.u32Max at this
        exact this
      obtain ⟨d, total, hv⟩ := validate_of_tables s b (by rw [hpo]; exact hpe) rs hmt hbound hsz4
      apply Tot.bind
      apply Tot.mono (readData_tot s kind header cfg.maxMetadataSize pos _ hs (by omega) (by rw [← hpl]; exact hlim))
      intro payload p1 ⟨hpay, hp1⟩
      subst hpay
      rw [← hpl, ← hpo, hv]
      apply Tot.bind
      apply Tot.done
      exact Tot.done trivial
  rename_i hnmv
  split
  · exact skipArm_tot s kind st startPos header pos _ hl hs (by omega) hpos hinv
  · -- an unknown box: the state machine does not admit it
    rename_i hnmm
    exfalso
    unfold topStep at htop
    have e1 : ¬ (b.name = freeN ∨ b.name = skipN) := by
      intro e; rcases e with e | e
      · exact hnfs (Or.inl ((tyN freeN (by decide)).mpr (by rw [← hbn]; exact e)))
      · exact hnfs (Or.inr ((tyN skipN (by decide)).mpr (by rw [← hbn]; exact e)))
    have e2 : ¬ b.name = ftypN := fun e => hnft ((tyN ftypN (by decide)).mpr (by rw [← hbn]; exact e))
    have e3 : ¬ (b.name = mdatN ∨ b.name = metaN ∨ b.name = mecoN) := by
      intro e; rcases e with e | e | e
      · exact hnmd ((tyN mdatN (by decide)).mpr (by rw [← hbn]; exact e))
      · exact hnmm (Or.inl ((tyN metaN (by decide)).mpr (by rw [← hbn]; exact e)))
      · exact hnmm (Or.inr ((tyN mecoN (by decide)).mpr (by rw [← hbn]; exact e)))
    have e4 : ¬ b.name = moovN := fun e => hnmv ((tyN moovN (by decide)).mpr (by rw [← hbn]; exact e))
    rw [if_neg e1, if_neg e2] at htop
    split at htop
    · cases htop
    · first | cases htop | (rw [if_neg e3, if_neg e4] at htop; cases htop)


theorem scanBox_tot (cfg : Config) (st : ScanState) (pos : Nat) (b : TopBox) (hl : s.len < u64Lim)
    (hb : headerAt s pos s.len cfg.cumulativeMdatBoxSize = .ok b) (hend : b.endOff ≤ s.len)
    (t' : TopSt) (htop : topStep (topOf st) b = some t') (d' : Option Span) (hspan : spanStep st.data b = some d')
    (hside : BoxSideT s cfg b) (hinv : ∀ d, st.data = some d → d.offset + d.len ≤ pos) :
    Tot (idealOps s kind) (scanBox cfg st) pos (fun st' pos' => pos' = b.endOff ∧ topOf st' = t' ∧ st'.data = d') := by
  have core : Tot (idealOps s kind) (scanBox cfg st) pos (fun _ _ => True) := by
    unfold scanBox
    apply Tot.position
    apply Tot.bind
    obtain ⟨a1, a2, a3⟩ := headerAt_avail s pos s.len _ b hb
    apply Tot.mono (readHeader_tot s kind pos a1 a2 a3)
    intro header p1 ⟨h1, h2, h3⟩
    exact scanBody_tot s kind cfg st pos header p1 b hl h1 h2 h3 hb hend t' htop d' hspan hside hinv
  apply Tot.mono (Tot.and_tri core (Tri.and (scanBox_rel s kind cfg st pos) (scanBox_top s kind cfg st pos)))
  intro st' p' ⟨_, ⟨b1, hb1, _, he1, _, hs1⟩, ⟨b2, hb2, ht2, _⟩⟩
  have e1 : b1 = b := by rw [hb] at hb1; cases hb1; rfl
  have e2 : b2 = b := by rw [hb] at hb2; cases hb2; rfl
  subst e1 e2
  rw [htop] at ht2
  rw [hspan] at hs1
  simp only [Option.some.injEq] at ht2 hs1
  exact ⟨he1.symm, ht2.symm, hs1.symm⟩

theorem spanStep_inv (d d' : Option Span) (b : TopBox) (h : spanStep d b = some d') (hle : b.offset ≤ b.endOff)
    (hinv : ∀ x, d = some x → x.offset + x.len ≤ b.offset) : ∀ x, d' = some x → x.offset + x.len ≤ b.endOff := by
  intro x hx
  unfold spanStep at h
  split at h
  · cases d with
    | none => simp only [Option.some.injEq] at h; rw [← h] at hx; simp only [Option.some.injEq] at hx; rw [← hx]; dsimp only; omega
    | some y =>
      dsimp only at h
      have := hinv y rfl
      split at h
      · simp only [Option.some.injEq] at h; rw [← h] at hx; simp only [Option.some.injEq] at hx; rw [← hx]; dsimp only; omega
      · cases h
  · split at h
    · cases d with
      | none => simp only [Option.some.injEq] at h; rw [← h] at hx; cases hx
      | some y =>
        dsimp only at h
        have := hinv y rfl
        split at h
        · simp only [Option.some.injEq] at h; rw [← h] at hx; simp only [Option.some.injEq] at hx; rw [← hx]; dsimp only; omega
        · simp only [Option.some.injEq] at h; rw [← h] at hx; simp only [Option.some.injEq] at hx; rw [← hx]; omega
    · simp only [Option.some.injEq] at h
      rw [← h] at hx
      have := hinv x hx
      omega

/-- the scan loop returns on a clean chain of boxes that both state machines admit -/
theorem scan_tot (cfg : Config) (hl : s.len < u64Lim) (fuel : Nat) (st : ScanState) (pos : Nat) (bs : List TopBox)
    (hch : Chain s s.len cfg.cumulativeMdatBoxSize pos s.len bs) (hf : s.len - pos < 8 * fuel)
    (tF : TopSt) (htop : foldTop (topOf st) bs = some tF) (dF : Option Span) (hspan : foldSpan st.data bs = some dF)
    (hside : ∀ b ∈ bs, BoxSideT s cfg b) (hinv : ∀ d, st.data = some d → d.offset + d.len ≤ pos) :
    Tot (idealOps s kind) (scan cfg fuel st) pos
      (fun r pos' => ∃ st', r = some st' ∧ pos' = s.len ∧ topOf st' = tF ∧ st'.data = dF) := by
  induction fuel generalizing st pos bs with
  | zero => omega
  | succ n ih =>
    unfold scan
    apply Tot.isEof
    cases bs with
    | nil =>
      have : pos = s.len := hch
      subst this
      simp only [Nat.le_refl, decide_true, if_true]
      simp only [foldTop, Option.some.injEq] at htop
      simp only [foldSpan, Option.some.injEq] at hspan
      exact Tot.done ⟨st, rfl, rfl, htop, hspan⟩
    | cons b rest =>
      obtain ⟨k1, k2, k3, k4⟩ := hch
      have hle := Chain.le s k4
      have hnot : ¬ s.len ≤ pos := by omega
      simp only [hnot, decide_false, Bool.false_eq_true, if_false]
      simp only [foldTop] at htop
      simp only [foldSpan] at hspan
      cases ht1 : topStep (topOf st) b with
      | none => rw [ht1] at htop; cases htop
      | some t1 =>
        rw [ht1] at htop
        cases hs1 : spanStep st.data b with
        | none => rw [hs1] at hspan; cases hspan
        | some d1 =>
          rw [hs1] at hspan
          apply Tot.bind
          apply Tot.mono (scanBox_tot s kind cfg st pos b hl k1 hle t1 ht1 d1 hs1 (hside b (by simp)) hinv)
          intro st1 p1 ⟨hp1, hts, hds⟩
          subst hp1
          exact ih st1 b.endOff rest k4 (by omega) (by rw [hts]; exact htop) (by rw [hds]; exact hspan)
            (fun x hx => hside x (by simp [hx]))
            (by rw [hds]; exact spanStep_inv st.data d1 b hs1 (by omega) (by rw [k2]; exact hinv))

end
end MediaSan.Mp4
