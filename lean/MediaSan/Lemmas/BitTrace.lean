/-
  C19, lifted from single operations to runs: whatever sequence of operations a client performs - fixed in advance or
  chosen from the values read so far - the buffered reader returns the values the whole-string reader returns and
  reports the end of data at the same operation.  Induction over the run with the abstraction `Abs` as invariant.
-/
import MediaSan.Vp8l.BitTrace
import MediaSan.Lemmas.BitBuf
namespace MediaSan.Vp8l
open MediaSan

/-- one step: same answer, abstraction re-established at the position the whole-string reader reaches -/
theorem step_refines (s : BitBuf) (orig : Bytes) (d : Nat) (h : Abs s orig d) (op : BOp) (hfit : op.fits s.cap) :
    match s.step op with
    | some (v, s') => ∃ d', idealStep orig (s.absPos d) op = some (v, s'.absPos d') ∧ Abs s' orig d' ∧ s'.cap = s.cap
    | none => idealStep orig (s.absPos d) op = none := by
  cases op with
  | read n =>
    have hr := read_refines s orig d h n hfit
    simp only [BitBuf.step, idealStep]
    cases hq : s.read n with
    | none => rw [hq] at hr; simp only at hr ⊢; rw [hr]; rfl
    | some x =>
      obtain ⟨v, s'⟩ := x
      rw [hq] at hr
      obtain ⟨h1, d', h2, h3, h4⟩ := hr
      exact ⟨d', by rw [h1, h3]; rfl, h2, h4⟩
  | sym c =>
    have hr := readSym_refines s orig d h c hfit.1 hfit.2
    simp only [BitBuf.step, idealStep]
    cases hq : s.readSym c with
    | none => rw [hq] at hr; exact hr
    | some x =>
      obtain ⟨v, s'⟩ := x
      rw [hq] at hr
      obtain ⟨d', h1, h2, h3⟩ := hr
      exact ⟨d', h1, h2, h3⟩

/-- runs over a fixed list of operations -/
theorem runOps_refines (ops : List BOp) (s : BitBuf) (orig : Bytes) (d : Nat) (h : Abs s orig d)
    (hfit : ∀ op ∈ ops, op.fits s.cap) :
    runBufOps ops s = runIdealOps orig ops (s.absPos d) := by
  induction ops generalizing s d with
  | nil => rfl
  | cons op rest ih =>
    have hs := step_refines s orig d h op (hfit op (List.mem_cons_self ..))
    simp only [runBufOps, runIdealOps]
    cases hq : s.step op with
    | none => rw [hq] at hs; simp only at hs; rw [hs]
    | some x =>
      obtain ⟨v, s'⟩ := x
      rw [hq] at hs
      obtain ⟨d', h1, h2, h3⟩ := hs
      rw [h1]
      simp only
      rw [ih s' d' h2 (fun o ho => by rw [h3]; exact hfit o (List.mem_cons_of_mem _ ho))]

/-- runs of an adaptive client -/
theorem runStrat_refines (next : List Nat → Option BOp) (fuel : Nat) (s : BitBuf) (orig : Bytes) (d : Nat)
    (h : Abs s orig d) (hist : List Nat) (hfit : ∀ hs op, next hs = some op → op.fits s.cap) :
    runBufStrat next fuel s hist = runIdealStrat orig next fuel (s.absPos d) hist := by
  induction fuel generalizing s d hist with
  | zero => rfl
  | succ n ih =>
    simp only [runBufStrat, runIdealStrat]
    cases hn : next hist with
    | none => rfl
    | some op =>
      simp only
      have hs := step_refines s orig d h op (hfit hist op hn)
      cases hq : s.step op with
      | none => rw [hq] at hs; simp only at hs; rw [hs]
      | some x =>
        obtain ⟨v, s'⟩ := x
        rw [hq] at hs
        obtain ⟨d', h1, h2, h3⟩ := hs
        rw [h1]
        simp only
        exact ih s' d' h2 (hist ++ [v]) (fun a o ho => by rw [h3]; exact hfit a o ho)

end MediaSan.Vp8l
