/-
  C05 (converse) / C02 (fixpoint): the whole sanitizer RETURNS on a stream whose top level the independent walker finds
  clean and both state machines admit; when the last moov precedes the media the answer is "nothing to do".
-/
import MediaSan.Lemmas.ScanTot
namespace MediaSan.Mp4
open MediaSan MediaSan.Spec.Mp4Walk MediaSan.Spec.Mp4Rules

section
variable (s : Stream) (kind : SkipKind)

/-- the loop over a clean, admitted top level: it returns, with the state the machines predict and the moov kept -/
theorem scan_all (cfg : Config) (hl : s.len < u64Lim) (bs : List TopBox)
    (hch : Chain s s.len cfg.cumulativeMdatBoxSize 0 s.len bs)
    (tF : TopSt) (htop : foldTop ⟨false, none⟩ bs = some tF) (dF : Option Span) (hspan : foldSpan none bs = some dF)
    (hside : ∀ b ∈ bs, BoxSideT s cfg b) :
    Tot (idealOps s kind) (scan cfg (fuelFor s) {}) 0
      (fun r pos' => ∃ st', r = some st' ∧ pos' = s.len ∧ topOf st' = tF ∧ st'.data = dF ∧ KeptIs s {} st' bs ∧ SerOk st') := by
  have h0 := scan_tot s kind cfg hl (fuelFor s) {} 0 bs hch (by unfold fuelFor; omega) tF htop dF hspan hside
    (by intro d h; cases h)
  have h1 := Tot.and_tri h0 (Tri.and (scan_keep s kind cfg (fuelFor s) {} 0)
    (scan_ser s kind cfg (fuelFor s) {} 0 ⟨(by intro f h; cases h), (by intro m h; cases h)⟩))
  apply Tot.mono h1
  intro r p ⟨⟨st', hr, hp, ht, hd⟩, hk, hser⟩
  obtain ⟨bs2, hc2, hk2, _⟩ := hk st' hr
  have hbs : bs2 = bs := by
    have w1 := walk_of_chain s s.len cfg.cumulativeMdatBoxSize bs 0 (s.len / 8 + 1) hch (by left; omega)
    rw [hp] at hc2
    have w2 := walk_of_chain s s.len cfg.cumulativeMdatBoxSize bs2 0 (s.len / 8 + 1) hc2 (by left; omega)
    rw [w1] at w2
    cases w2; rfl
  subst hbs
  exact ⟨st', hr, hp, ht, hd, hk2, hser st' hr⟩

/-- "nothing to do": the walker finds a clean top level, the state machines admit it, and the last moov starts before
    the media - then the sanitizer returns no metadata and the span the bookkeeping computes -/
theorem sanitize_noop (cfg : Config) (hl : s.len < u64Lim) (bs : List TopBox)
    (hch : Chain s s.len cfg.cumulativeMdatBoxSize 0 s.len bs)
    (mo : Nat) (htop : foldTop ⟨false, none⟩ bs = some ⟨true, some mo⟩) (d : Span) (hspan : foldSpan none bs = some (some d))
    (hside : ∀ b ∈ bs, BoxSideT s cfg b) (hmo : mo < d.offset) :
    Mp4.sanitize s kind cfg = .ok ⟨none, d⟩ := by
  have hscan := scan_all s kind cfg hl bs hch _ htop _ hspan hside
  obtain ⟨r, p, hrun, st', hr, hp, ht, hd, hk, hser⟩ := hscan
  subst hr hp
  -- the kept moov
  have hm : ∃ mv, st'.moov = some mv := by
    unfold KeptIs at hk
    cases hlm : lastMoov bs with
    | some m => rw [hlm] at hk; obtain ⟨hdr, dd, total, e, _⟩ := hk; exact ⟨_, e⟩
    | none =>
      exfalso
      have := foldTop_moov bs _ _ htop
      unfold lastMoov at hlm
      rw [cc_moov] at hlm
      rw [hlm] at this
      simp at this
  obtain ⟨mv, hmv⟩ := hm
  have hf : ∃ fy, st'.ftyp = some fy := by
    have : (topOf st').ftyp = true := by rw [ht]
    unfold topOf at this
    cases hq : st'.ftyp with
    | none => rw [hq] at this; simp at this
    | some fy => exact ⟨fy, rfl⟩
  obtain ⟨fy, hfy⟩ := hf
  have hmoff : st'.moovOffset = some mo := by
    have : (topOf st').moov = some mo := by rw [ht]
    exact this
  have hfin : finish st' = .ok ⟨none, d⟩ := by
    unfold finish
    simp only [hfy, hmv, hmoff, hd, hmo, if_true]
  -- the whole program
  simp only [Mp4.sanitize, Mp4.sanitizeWith, run_eq_runF]
  have hprog : (sanitizeP cfg (fuelFor s)).runF (idealOps s kind) 0 = .ok (some ⟨none, d⟩, s.len) := by
    unfold sanitizeP
    rw [runF_bind, hrun]
    dsimp only
    rw [runF_bind]
    have hce : checkEnd.runF (idealOps s kind) s.len = .ok ((), s.len) := by
      unfold checkEnd
      simp only [Prog.runF, idealOps, Nat.le_refl, if_true]
    rw [hce]
    dsimp only
    rw [runF_bind, hfin]
    rfl
  rw [hprog]
  rfl

end
end MediaSan.Mp4
