/-
  Restartability of the hand-written poll functions under every schedule (C12).
-/
import MediaSan.Lemmas.RawSim
namespace MediaSan
open MediaSan

theorem chunkLimit_le' (chunk n avail : Nat) : chunkLimit chunk n avail ≤ avail := by
  unfold chunkLimit; omega

/-! ### native AsyncSkip readers -/

theorem driveNative_spec {ρ α : Type} (f : ρ → Except IoKind (α × ρ)) (r : ρ) (sch : Sched) :
    ∃ sch', driveNative f (r, sch) =
      match f r with
      | .ok (a, r') => .ok (a, (r', sch'))
      | .error e => .error e := by
  induction sch with
  | nil =>
    refine ⟨[], ?_⟩
    simp only [driveNative, drive, pollNative, tick, List.length_nil]
    cases f r with
    | ok x => rfl
    | error e => rfl
  | cons b t ih =>
    cases b with
    | true =>
      obtain ⟨sch', h⟩ := ih
      refine ⟨sch', ?_⟩
      simp only [driveNative, List.length_cons] at h ⊢
      rw [drive]
      simp only [pollNative, tick, if_true]
      exact h
    | false =>
      refine ⟨t, ?_⟩
      simp only [driveNative, drive, pollNative, tick, List.length_cons]
      cases f r with
      | ok x => rfl
      | error e => rfl

/-- a native reader under any schedule simulates the same reader never suspended -/
theorem pendRaw_sim {ρ : Type} (raw : RawOps ρ) :
    RawSimU raw (pendRaw raw) (fun a b => b.1 = a) (fun _ => false) where
  read a b n h := by
    obtain ⟨r, sch⟩ := b; subst h
    obtain ⟨sch', e⟩ := driveNative_spec (fun r => raw.read r n) r sch
    simp only [pendRaw, e]
    cases raw.read r n with
    | ok x => exact ⟨rfl, rfl⟩
    | error e => rfl
  skip a b n h := by
    obtain ⟨r, sch⟩ := b; subst h
    obtain ⟨sch', e⟩ := driveNative_spec (fun r => (raw.skip r n).map fun r' => ((), r')) r sch
    simp only [pendRaw, e]
    cases raw.skip r n with
    | ok x => exact rfl
    | error e => rfl
  position a b h := by
    obtain ⟨r, sch⟩ := b; subst h
    obtain ⟨sch', e⟩ := driveNative_spec raw.position r sch
    simp only [pendRaw, e]
    cases raw.position r with
    | ok x => exact ⟨rfl, rfl⟩
    | error e => rfl
  len a b h := by
    left
    obtain ⟨r, sch⟩ := b; subst h
    obtain ⟨sch', e⟩ := driveNative_spec raw.len r sch
    simp only [pendRaw, e]
    cases raw.len r with
    | ok x => exact ⟨rfl, rfl⟩
    | error e => rfl

/-! ### SeekSkipAdapter over AsyncSeek -/

/-- what a poll function must satisfy to be restartable: a `Pending` changes nothing but the schedule, a `Ready`
    returns what the synchronous operation `f` returns from the same position -/
def Restartable {α : Type} (poll : SeekSt → Poll (Except IoKind α) × SeekSt) (f : Nat → Except IoKind (α × Nat)) : Prop :=
  ∀ st : SeekSt,
    match poll st with
    | (.pending, st') => st'.pos = st.pos ∧ st'.sched.length < st.sched.length ∧ st'.restoreSuspended = st.restoreSuspended
    | (.ready b, st') =>
      st'.sched.length ≤ st.sched.length ∧ st'.restoreSuspended = st.restoreSuspended ∧
      match f st.pos with
      | .ok (a, p') => b = .ok a ∧ st'.pos = p'
      | .error e => b = .error e

theorem drive_restartable {α : Type} {poll : SeekSt → Poll (Except IoKind α) × SeekSt} {f : Nat → Except IoKind (α × Nat)}
    (h : Restartable poll f) (fuel : Nat) (st : SeekSt) (hf : st.sched.length < fuel) :
    ∃ b st', drive poll fuel st = some (b, st') ∧ st'.sched.length ≤ st.sched.length ∧
      st'.restoreSuspended = st.restoreSuspended ∧
      match f st.pos with
      | .ok (a, p') => b = .ok a ∧ st'.pos = p'
      | .error e => b = .error e := by
  induction fuel generalizing st with
  | zero => omega
  | succ n ih =>
    have hs := h st
    rw [drive]
    cases hp : poll st with
    | mk r st1 =>
      rw [hp] at hs
      cases r with
      | ready b => exact ⟨b, st1, rfl, hs.1, hs.2.1, hs.2.2⟩
      | pending =>
        dsimp only at hs ⊢
        obtain ⟨b, st', e, h1, h2, h3⟩ := ih st1 (by omega)
        refine ⟨b, st', e, by omega, by rw [h2, hs.2.2], ?_⟩
        rw [hs.1] at h3; exact h3

theorem driveA_spec {α : Type} {poll : SeekSt → Poll (Except IoKind α) × SeekSt} {f : Nat → Except IoKind (α × Nat)}
    (h : Restartable poll f) (st : SeekSt) :
    match f st.pos with
    | .ok (a, p') => ∃ st', driveA poll st = .ok (a, st') ∧ st'.pos = p' ∧ st'.restoreSuspended = st.restoreSuspended
    | .error e => driveA poll st = .error e := by
  obtain ⟨b, st', e, _, h2, h3⟩ := drive_restartable h (st.sched.length + 1) st (by omega)
  simp only [driveA, e]
  cases hf : f st.pos with
  | ok x =>
    obtain ⟨a, p'⟩ := x
    rw [hf] at h3; dsimp only at h3 ⊢
    rw [h3.1]; exact ⟨st', rfl, h3.2, h2⟩
  | error e =>
    rw [hf] at h3; dsimp only at h3 ⊢
    rw [h3]

/-- the synchronous operations the adapter should behave as -/
def syncSeek (len : Nat) (sf : SeekFrom) (pos : Nat) : Except IoKind (Nat × Nat) :=
  (cursorSeek len pos sf).map fun p => (p, p)

theorem pollSeek_restartable (len : Nat) (sf : SeekFrom) :
    Restartable (fun st => pollSeek len st sf) (syncSeek len sf) := by
  intro st
  obtain ⟨pos, sched, fl⟩ := st
  cases sched with
  | nil =>
    simp only [pollSeek, SeekSt.tick, tick, syncSeek]
    cases cursorSeek len pos sf <;> simp [Except.map]
  | cons b t =>
    cases b with
    | true => simp [pollSeek, SeekSt.tick, tick]
    | false =>
      simp only [pollSeek, SeekSt.tick, tick, syncSeek]
      cases cursorSeek len pos sf <;> simp [Except.map]

theorem pollPositionA_restartable (len : Nat) :
    Restartable (pollPositionA len) (syncSeek len (.current 0)) := pollSeek_restartable len (.current 0)

/-- `poll_skip` is restartable under every schedule: the two-step branch only repeats a `SeekFrom::Current(0)` -/
theorem pollSkipA_restartable (len : Nat) (amount : Nat) :
    Restartable (fun st => pollSkipA len st amount) (fun pos => (seekSkip len pos amount).map fun p => ((), p)) := by
  intro st
  obtain ⟨pos, sched, fl⟩ := st
  by_cases h1 : amount ≤ i64Max
  · by_cases h0 : amount = 0
    · simp [pollSkipA, seekSkip, h0, i64Max, Except.map]
    · have := pollSeek_restartable len (.current amount) ⟨pos, sched, fl⟩
      simp only [pollSkipA, seekSkip, h1, h0, if_true, if_false]
      dsimp only at this
      cases hp : pollSeek len ⟨pos, sched, fl⟩ (.current amount) with
      | mk r st1 =>
        rw [hp] at this
        cases r with
        | pending => exact this
        | ready b =>
          dsimp only at this ⊢
          simp only [syncSeek] at this
          cases hc : cursorSeek len pos (.current amount) with
          | ok p =>
            rw [hc] at this; simp only [Except.map] at this ⊢
            obtain ⟨t1, t2, t3, t4⟩ := this
            subst t3
            exact ⟨t1, t2, rfl, t4⟩
          | error e =>
            rw [hc] at this; simp only [Except.map] at this ⊢
            obtain ⟨t1, t2, t3⟩ := this
            subst t3
            exact ⟨t1, t2, rfl⟩
  · simp only [pollSkipA, seekSkip, h1, if_false, pollPositionA]
    cases sched with
    | nil =>
      simp only [pollSeek, SeekSt.tick, tick, cursorSeek, Nat.add_zero]
      by_cases hp : pos < u64Lim
      · simp only [hp, if_true, Bool.false_eq_true, if_false]
        by_cases hq : pos + amount < u64Lim
        · simp [hq, Except.map]
        · simp [hq, Except.map]
      · simp [hp, Except.map]
    | cons b t =>
      cases b with
      | true => simp [pollSeek, SeekSt.tick, tick]
      | false =>
        simp only [pollSeek, SeekSt.tick, tick, cursorSeek, Nat.add_zero, Bool.false_eq_true, if_false]
        by_cases hp : pos < u64Lim
        · simp only [hp, if_true]
          by_cases hq : pos + amount < u64Lim
          · simp only [hq, if_true]
            cases t with
            | nil => simp [Except.map]
            | cons b2 t2 =>
              cases b2 with
              | true => simp; omega
              | false => simp [Except.map]; omega
          · simp [hq, Except.map]
        · simp [hp, Except.map]

/-- `poll_read` of the underlying reader -/
theorem pollReadA_restartable (s : Stream) (chunk n : Nat) :
    Restartable (fun st => pollReadA s chunk st n)
      (fun pos => .ok (s.read pos (chunkLimit chunk n (s.len - pos)), pos + chunkLimit chunk n (s.len - pos))) := by
  intro st
  obtain ⟨pos, sched, fl⟩ := st
  cases sched with
  | nil => simp [pollReadA, SeekSt.tick, tick]
  | cons b t =>
    cases b with
    | true => simp [pollReadA, SeekSt.tick, tick]
    | false => simp [pollReadA, SeekSt.tick, tick]

theorem pollSeek_true (len pos : Nat) (t : Sched) (fl : Bool) (sf : SeekFrom) :
    pollSeek len ⟨pos, true :: t, fl⟩ sf = (.pending, ⟨pos, t, fl⟩) := rfl

theorem pollSeek_false (len pos : Nat) (t : Sched) (fl : Bool) (sf : SeekFrom) :
    pollSeek len ⟨pos, false :: t, fl⟩ sf =
      match cursorSeek len pos sf with
      | .ok p => (.ready (.ok p), ⟨p, t, fl⟩)
      | .error e => (.ready (.error e), ⟨pos, t, fl⟩) := rfl

theorem pollSeek_nil (len pos : Nat) (fl : Bool) (sf : SeekFrom) :
    pollSeek len ⟨pos, [], fl⟩ sf =
      match cursorSeek len pos sf with
      | .ok p => (.ready (.ok p), ⟨p, [], fl⟩)
      | .error e => (.ready (.error e), ⟨pos, [], fl⟩) := rfl

/-- `poll_stream_len` under every schedule: it returns the length, and either leaves the position where it was or a
    restoring seek was suspended (the ghost flag is set) — in which case the position is lost (F5) -/
theorem drive_len (len : Nat) (hl : len < u64Lim) (fuel : Nat) (st : SeekSt) (hf : st.sched.length < fuel)
    (hp : st.pos < u64Lim) :
    ∃ st', drive (pollLenA len) fuel st = some (.ok len, st') ∧ st'.sched.length ≤ st.sched.length ∧
      (st'.restoreSuspended = true ∨ (st'.pos = st.pos ∧ st'.restoreSuspended = st.restoreSuspended)) ∧
      (st.restoreSuspended = true → st'.restoreSuspended = true) ∧ st'.pos < u64Lim := by
  induction fuel generalizing st with
  | zero => omega
  | succ n ih =>
    obtain ⟨pos, sched, fl⟩ := st
    dsimp only at hp hf
    rw [drive]
    have c0 : cursorSeek len pos (.current 0) = .ok pos := by
      simp only [cursorSeek, Nat.add_zero, hp, if_true]
    have cE : ∀ p, cursorSeek len p (.endOff 0) = .ok len := by
      intro p; simp only [cursorSeek, Nat.add_zero, hl, if_true]
    have cS : ∀ p q, cursorSeek len p (.start q) = .ok q := fun _ _ => rfl
    -- the schedule entries for the (up to) three seeks of this poll
    cases sched with
    | nil =>
      simp only [pollLenA, pollPositionA, pollSeek_nil, c0, cE, cS]
      by_cases he : pos = len
      · simp [he, hl]
      · simp [he, hp]
    | cons b1 t1 =>
      cases b1 with
      | true =>
        simp only [pollLenA, pollPositionA, pollSeek_true]
        obtain ⟨st', e, h1, h2, h3, h4⟩ := ih ⟨pos, t1, fl⟩ (by simp at hf ⊢; omega) hp
        exact ⟨st', e, by simp at h1 ⊢; omega, h2, h3, h4⟩
      | false =>
        cases t1 with
        | nil =>
          simp only [pollLenA, pollPositionA, pollSeek_false, pollSeek_nil, c0, cE, cS]
          by_cases he : pos = len
          · simp [he, hl]
          · simp [he, hp]
        | cons b2 t2 =>
          cases b2 with
          | true =>
            simp only [pollLenA, pollPositionA, pollSeek_false, pollSeek_true, c0]
            obtain ⟨st', e, h1, h2, h3, h4⟩ := ih ⟨pos, t2, fl⟩ (by simp at hf ⊢; omega) hp
            exact ⟨st', e, by simp at h1 ⊢; omega, h2, h3, h4⟩
          | false =>
            cases t2 with
            | nil =>
              simp only [pollLenA, pollPositionA, pollSeek_false, pollSeek_nil, c0, cE, cS]
              by_cases he : pos = len
              · simp [he, hl]
              · simp [he, hp]
            | cons b3 t3 =>
              by_cases he : pos = len
              · simp only [pollLenA, pollPositionA, pollSeek_false, c0, cE]
                simp [he, hl]
              · cases b3 with
                | false =>
                  simp only [pollLenA, pollPositionA, pollSeek_false, c0, cE, cS]
                  simp [he, hp]
                  omega
                | true =>
                  simp only [pollLenA, pollPositionA, pollSeek_false, pollSeek_true, c0, cE, ne_eq, he,
                    not_false_eq_true, if_true]
                  obtain ⟨st', e, h1, h2, h3, h4⟩ := ih ⟨len, t3, true⟩ (by simp at hf ⊢; omega) hl
                  exact ⟨st', e, by simp at h1 ⊢; omega, Or.inl (h3 rfl), fun _ => h3 rfl, h4⟩

/-- the relation between the never-suspended seek-based input and the adapter under a schedule -/
def SeekR (a : Nat) (b : SeekSt) : Prop := b.pos = a ∧ a < u64Lim

/-- `SeekSkipAdapter` over a suspended `AsyncSeek` simulates the seek-based ideal input under EVERY schedule, except
    that `stream_len` may set the ghost flag (a suspended restoring seek) -/
theorem asyncSeekRaw_sim (s : Stream) (chunk : Nat) (hlen : s.len < u64Lim) :
    RawSimU (idealRaw s .seekable chunk) (asyncSeekRaw s chunk) SeekR (fun b => b.restoreSuspended) where
  read a b n h := by
    obtain ⟨h1, h2⟩ := h
    have := driveA_spec (pollReadA_restartable s chunk n) b
    dsimp only at this
    obtain ⟨st', e, hp, _⟩ := this
    simp only [asyncSeekRaw, idealRaw, e, h1]
    refine ⟨rfl, by rw [hp, h1], ?_⟩
    have := (chunkLimit_le' chunk n (s.len - a))
    omega
  skip a b n h := by
    obtain ⟨h1, h2⟩ := h
    have := driveA_spec (pollSkipA_restartable s.len n) b
    rw [h1] at this
    simp only [asyncSeekRaw, idealRaw]
    have hk : seekSkip s.len a n = (idealOps s .seekable).skip a n := by
      simp only [seekSkip, idealOps, cursorSeek, Nat.add_zero, h2, if_true]
      by_cases c1 : n ≤ i64Max
      · by_cases c0 : n = 0
        · simp [c0]
        · by_cases c2 : a + n < u64Lim <;> simp [c1, c0, c2]
      · have c0 : n ≠ 0 := by intro h; rw [h] at c1; exact c1 (by decide)
        by_cases c2 : a + n < u64Lim <;> simp [c1, c0, c2]
    rw [← hk]
    cases hs : seekSkip s.len a n with
    | ok p =>
      rw [hs] at this; simp only [Except.map] at this
      obtain ⟨st', e, hp, _⟩ := this
      rw [e]; simp only [Except.map]
      refine ⟨hp, ?_⟩
      -- the new position is below 2^64 because the synchronous skip checked it
      rw [hk] at hs
      simp only [idealOps] at hs
      split at hs
      · cases hs; exact h2
      · split at hs
        · cases hs; assumption
        · split at hs <;> cases hs
    | error e =>
      rw [hs] at this; simp only [Except.map] at this
      rw [this]; rfl
  position a b h := by
    obtain ⟨h1, h2⟩ := h
    have := driveA_spec (pollPositionA_restartable s.len) b
    rw [h1] at this
    simp only [syncSeek, cursorSeek, h2, if_true, Except.map, Nat.add_zero] at this
    obtain ⟨st', e, hp, _⟩ := this
    simp only [asyncSeekRaw, idealRaw, e]
    exact ⟨rfl, hp, h2⟩
  len a b h := by
    obtain ⟨h1, h2⟩ := h
    obtain ⟨st', e, _, h3, _, h5⟩ := drive_len s.len hlen (b.sched.length + 1) b (by omega) (by rw [h1]; exact h2)
    simp only [asyncSeekRaw, idealRaw, driveA, e]
    rcases h3 with h3 | h3
    · right; exact ⟨s.len, st', rfl, h3⟩
    · left; exact ⟨rfl, by rw [h3.1, h1], h2⟩

end MediaSan
