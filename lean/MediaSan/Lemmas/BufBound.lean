/-
  The bit buffer never holds more than its capacity: `fill_buf` tops the kept bytes up to `cap`, the read operations
  leave the buffer's bytes alone.  With Lemmas/CodeSize.lean this bounds everything the buffered validator holds.
-/
import MediaSan.Vp8l.BufValidator
namespace MediaSan.Vp8l
open MediaSan

theorem fill_buf_le (s : BitBuf) (h : s.buf.length ≤ s.cap) : s.fill.buf.length ≤ s.fill.cap ∧ s.fill.cap = s.cap := by
  unfold BitBuf.fill
  split
  · exact ⟨h, rfl⟩
  · simp only [List.length_append, List.length_drop, List.length_take]
    refine ⟨?_, trivial⟩
    omega

theorem read_buf_le (s s' : BitBuf) (n v : Nat) (h : s.buf.length ≤ s.cap) (hr : s.read n = some (v, s')) :
    s'.buf.length ≤ s'.cap ∧ s'.cap = s.cap := by
  simp only [BitBuf.read, BitBuf.bufRead] at hr
  generalize hs1 : (if s.bufBits < n then s.fill else s) = s1 at hr
  have hb : s1.buf.length ≤ s1.cap ∧ s1.cap = s.cap := by
    rw [← hs1]; split
    · exact fill_buf_le s h
    · exact ⟨h, rfl⟩
  cases hq : bufReadAux s1.buf n 0 0 s1.bitPos with
  | none => simp [hq] at hr
  | some w =>
    simp only [hq, Option.some.injEq, Prod.mk.injEq] at hr
    obtain ⟨_, e⟩ := hr
    subst e
    exact hb

theorem readSym_buf_le (s s' : BitBuf) (c : Code) (v : Nat) (h : s.buf.length ≤ s.cap)
    (hr : s.readSym c = some (v, s')) : s'.buf.length ≤ s'.cap ∧ s'.cap = s.cap := by
  simp only [BitBuf.readSym] at hr
  generalize hs1 : (if s.bufBits < c.longest then s.fill else s) = s1 at hr
  have hb : s1.buf.length ≤ s1.cap ∧ s1.cap = s.cap := by
    rw [← hs1]; split
    · exact fill_buf_le s h
    · exact ⟨h, rfl⟩
  cases hq : bufDecode s1.buf c.tree (c.tree.height + 1) s1.bitPos with
  | none => simp [hq] at hr
  | some w =>
    obtain ⟨sym, p⟩ := w
    simp only [hq, Option.some.injEq, Prod.mk.injEq] at hr
    obtain ⟨_, e⟩ := hr
    subst e
    exact hb

theorem guardedFill_buf_le (s : BitBuf) (r : Nat) (h : s.buf.length ≤ s.cap) :
    (s.guardedFill r).buf.length ≤ (s.guardedFill r).cap ∧ (s.guardedFill r).cap = s.cap := by
  unfold BitBuf.guardedFill
  split
  · exact fill_buf_le s h
  · exact ⟨h, rfl⟩

end MediaSan.Vp8l
