/-
  C09: panic-freedom of the pure MP4 tree code.  The only `panic` constructor the tree code can *create* is the
  u32 overflow of the chunk-count sum (`sumU32`); every combinator merely propagates.
-/
import MediaSan.Mp4.Tree
namespace MediaSan.Mp4
open MediaSan

def NP {α} (r : PureRes α) : Prop := ∀ site, r ≠ .panic site

theorem NP.ok {α} (a : α) : NP (.ok a : PureRes α) := by intro s h; cases h
theorem NP.err {α} (e : PErr) : NP (.err e : PureRes α) := by intro s h; cases h

theorem NP.bind {α β} {m : PureRes α} {f : α → PureRes β} (hm : NP m) (hf : ∀ a, NP (f a)) : NP (m >>= f) := by
  cases m with
  | ok a => exact hf a
  | err e => exact NP.err e
  | panic s => exact absurd rfl (hm s)

theorem parseBoxes_np {C} (fuel : Nat) (bs : Bytes) : NP (parseBoxes (C := C) fuel bs) := by
  induction fuel generalizing bs with
  | zero => exact NP.ok _
  | succ n ih =>
    unfold parseBoxes
    split
    · exact NP.ok _
    · split
      · exact NP.err _
      · split
        · exact NP.err _
        · exact NP.ok _
        · split
          · rename_i _ hh rest _ _ nn _ _
            have := ih (rest.drop nn)
            revert this
            generalize parseBoxes n (rest.drop nn) = r
            intro this
            cases r with
            | ok cs => exact NP.ok _
            | err e => exact NP.err _
            | panic s => exact absurd rfl (this s)
          · exact NP.err _

theorem parseContainer_np {C} (bs : Bytes) : NP (parseContainer (C := C) bs) := parseBoxes_np _ _

theorem parseCo_np (w : Nat) (b : Bytes) : NP (parseCo w b) := by
  unfold parseCo
  repeat (first | exact NP.ok _ | exact NP.err _ | split | dsimp only)

theorem modify_np {C α} {parse : Bytes → PureRes C} {f : C → PureRes (C × α)} (hp : ∀ b, NP (parse b))
    (hf : ∀ c, NP (f c)) (d : Data C) : NP (d.modify parse f) := by
  cases d with
  | bytes b =>
    unfold Data.modify
    exact NP.bind (hp b) fun c => NP.bind (hf c) fun r => NP.ok _
  | parsed c =>
    unfold Data.modify
    exact NP.bind (hf c) fun r => NP.ok _

theorem modifyFirst_np {C α} (ty : BoxType) {parse : Bytes → PureRes C} {f : C → PureRes (C × α)}
    (hp : ∀ b, NP (parse b)) (hf : ∀ c, NP (f c)) (cs : List (Box C)) : NP (modifyFirst ty parse f cs) := by
  induction cs with
  | nil => exact NP.err _
  | cons b bs ih =>
    unfold modifyFirst
    split
    · exact NP.bind (modify_np hp hf _) fun r => NP.ok _
    · exact NP.bind ih fun r => NP.ok _

theorem getOneMut_np {C α} (ty : BoxType) {parse : Bytes → PureRes C} {f : C → PureRes (C × α)}
    (hp : ∀ b, NP (parse b)) (hf : ∀ c, NP (f c)) (cs : List (Box C)) : NP (getOneMut ty parse f cs) := by
  unfold getOneMut
  split
  · exact modifyFirst_np ty hp hf cs
  · exact NP.err _

theorem forEachOfType_np {C α} (ty : BoxType) {parse : Bytes → PureRes C} {f : C → PureRes (C × α)}
    (hp : ∀ b, NP (parse b)) (hf : ∀ c, NP (f c)) (cs : List (Box C)) : NP (forEachOfType ty parse f cs) := by
  induction cs with
  | nil => exact NP.ok _
  | cons b bs ih =>
    unfold forEachOfType
    split
    · exact NP.bind (modify_np hp hf _) fun r => NP.bind ih fun r2 => NP.ok _
    · exact NP.bind ih fun r => NP.ok _

theorem coMutStbl_np {α} {f : Co → PureRes (Co × α)} (hf : ∀ c, NP (f c)) (cs : L1) : NP (coMutStbl f cs) := by
  unfold coMutStbl
  dsimp only
  split
  · exact NP.err _
  · split
    · exact getOneMut_np _ (parseCo_np 4) hf cs
    · exact getOneMut_np _ (parseCo_np 8) hf cs

theorem coMutTrak_np {α} {f : Co → PureRes (Co × α)} (hf : ∀ c, NP (f c)) (cs : L4) : NP (coMutTrak f cs) := by
  unfold coMutTrak
  exact getOneMut_np _ parseContainer_np (fun l3 => getOneMut_np _ parseContainer_np
    (fun l2 => getOneMut_np _ parseContainer_np (coMutStbl_np hf) l2) l3) cs

theorem forTraks_np {α} {f : Co → PureRes (Co × α)} (hf : ∀ c, NP (f c)) (cs : L5) : NP (forTraks f cs) := by
  unfold forTraks
  exact forEachOfType_np _ parseContainer_np (coMutTrak_np hf) cs

theorem parseMoov_np (b : Bytes) : NP (parseMoov b) := by
  unfold parseMoov
  refine NP.bind (parseContainer_np b) fun cs => ?_
  split
  · exact NP.ok _
  · exact NP.err _

theorem displaceEntries_np (width : Nat) (disp : Int) (fuel : Nat) (bs : Bytes) : NP (displaceEntries width disp fuel bs) := by
  induction fuel generalizing bs with
  | zero => exact NP.ok _
  | succ n ih =>
    unfold displaceEntries
    split
    · exact NP.ok _
    · dsimp only
      split
      · exact NP.err _
      · have := ih (bs.drop width)
        revert this
        generalize displaceEntries width disp n _ = r
        intro this
        cases r with
        | ok x => exact NP.ok _
        | err e => exact NP.err _
        | panic s => exact absurd rfl (this s)

theorem displaceCo_np (disp : Int) (c : Co) : NP (displaceCo disp c) := by
  unfold displaceCo
  have := displaceEntries_np c.width disp c.entries.length c.entries
  revert this
  generalize displaceEntries c.width disp c.entries.length c.entries = r
  intro this
  cases r with
  | ok x => exact NP.ok _
  | err e => exact NP.err _
  | panic s => exact absurd rfl (this s)

/-- the whole chunk-offset rewrite never panics, for any moov tree and displacement -/
theorem displaceMoov_np (disp : Int) (d : Data L5) : NP (displaceMoov disp d) := by
  unfold displaceMoov
  exact NP.bind (modify_np parseMoov_np (forTraks_np (displaceCo_np disp)) d) fun r => NP.ok _

end MediaSan.Mp4
