/-
  C05 (converse) / C02 (fixpoint), the tree: what the independent walker calls a well-formed moov - children a clean
  box sequence, at least one trak, each trak with exactly one mdia > minf > stbl chain and exactly one well-formed
  stco xor co64 - is accepted by the model's lazily parsing tree code, for any mutation that succeeds on the tables.
-/
import MediaSan.Lemmas.Splice
import MediaSan.Lemmas.WalkFrame
import MediaSan.Lemmas.Weight
namespace MediaSan.Mp4
open MediaSan MediaSan.Spec.Mp4Walk MediaSan.Spec.Mp4Rules

section
variable (s : Stream)

theorem dataSize_sized (hd : BoxHeader) (n : Nat) (hs : hd.sz.toNat? = some n) (hle : hd.encodedLen ≤ n) :
    hd.dataSize = .ok (some (n - hd.encodedLen)) := by
  simp only [BoxHeader.dataSize, hs, hle, if_true]

/-- a header the walker accepts (inside the region) is a header the model decodes, with the same geometry -/
theorem decode_of_headerAt (off lim : Nat) (b : TopBox) (h : headerAt s off lim = .ok b) (hend : b.endOff ≤ lim) :
    ∃ hd rest, decodeHeader (s.read off (lim - off)) = some (hd, rest) ∧ name4 hd = b.name ∧
      (match hd.ty with | .fourcc x => x ≠ uuidName | .uuid _ => True) ∧ hd.encodedLen = b.hdrLen ∧
      rest = s.read (off + b.hdrLen) (lim - off - b.hdrLen) ∧
      ((b.sized = true ∧ hd.dataSize = .ok (some b.payloadLen)) ∨ (b.sized = false ∧ hd.dataSize = .ok none ∧ b.endOff = lim)) := by
  unfold headerAt at h
  split at h
  · cases h
  rename_i h8
  dsimp only at h
  have hlen : (s.read off (lim - off)).length = lim - off := read_length s _ _
  have t4 : (s.read off (lim - off)).take 4 = s.read off 4 := read_take s off _ 4 (by omega)
  have n4 : ((s.read off (lim - off)).drop 4).take 4 = s.read (off + 4) 4 := by
    rw [read_drop, read_take s _ _ 4 (by omega)]
  have r8 : (s.read off (lim - off)).drop 8 = s.read (off + 8) (lim - off - 8) := read_drop s off _ 8
  have hl8 : ¬ (s.read off (lim - off)).length < 8 := by rw [hlen]; omega
  have hl8' : ¬ (lim - off < 8) := by omega
  have eU : uuidName = [0x75, 0x75, 0x69, 0x64] := rfl
  simp only [be] at h
  by_cases h1 : beToNat (s.read off 4) = 1
  · simp only [h1, if_true] at h
    have h10 : ¬ ((1 : Nat) = 0) := by omega
    by_cases hu : s.read (off + 4) 4 = [0x75, 0x75, 0x69, 0x64]
    · simp only [hu, if_true] at h
      split at h
      · cases h
      rename_i ht
      split at h
      · cases h
      rename_i hsz
      simp only [Hdr.ok.injEq] at h
      subst h
      have hr : ¬ (lim - off - 8 < 8) := by omega
      have e8 : (s.read (off + 8) (lim - off - 8)).take 8 = s.read (off + 8) 8 := read_take s _ _ 8 (by omega)
      have d8 : (s.read (off + 8) (lim - off - 8)).drop 8 = s.read (off + 16) (lim - off - 16) := by
        rw [read_drop]; congr 1 <;> omega
      have hr2 : ¬ (lim - off - 16 < 16) := by omega
      refine ⟨⟨.uuid ((s.read (off + 16) (lim - off - 16)).take 16), .ext (beToNat (s.read (off + 8) 8))⟩,
        (s.read (off + 16) (lim - off - 16)).drop 16, ?_, ?_, trivial, ?_, ?_, Or.inl ⟨rfl, ?_⟩⟩
      · unfold decodeHeader
        simp only [hl8, hl8', if_false, t4, n4, r8, h1, h10, if_true, read_length, hr, e8, d8, eU, hu, hr2]
      · simp [name4, eU]
      · simp [BoxHeader.encodedLen]
      · rw [read_drop]; congr 1 <;> omega
      · rw [dataSize_sized _ (beToNat (s.read (off + 8) 8)) rfl (by simp only [BoxHeader.encodedLen]; omega)]
        simp only [BoxHeader.encodedLen, TopBox.payloadLen, TopBox.payloadOff]
        generalize beToNat (s.read (off + 8) 8) = z
        have : ∀ a b : Nat, a = b → (Except.ok (some a) : Except PErr (Option Nat)) = Except.ok (some b) := fun a b h => by rw [h]
        apply this; omega
    · simp only [hu, if_false] at h
      split at h
      · cases h
      rename_i ht
      split at h
      · cases h
      rename_i hsz
      simp only [Hdr.ok.injEq] at h
      subst h
      have hr : ¬ (lim - off - 8 < 8) := by omega
      have e8 : (s.read (off + 8) (lim - off - 8)).take 8 = s.read (off + 8) 8 := read_take s _ _ 8 (by omega)
      have d8 : (s.read (off + 8) (lim - off - 8)).drop 8 = s.read (off + 16) (lim - off - 16) := by
        rw [read_drop]; congr 1 <;> omega
      refine ⟨⟨.fourcc (s.read (off + 4) 4), .ext (beToNat (s.read (off + 8) 8))⟩,
        s.read (off + 16) (lim - off - 16), ?_, ?_, ?_, ?_, ?_, Or.inl ⟨rfl, ?_⟩⟩
      · unfold decodeHeader
        simp only [hl8, hl8', if_false, t4, n4, r8, h1, h10, if_true, read_length, hr, e8, d8, eU, hu]
      · simp [name4]
      · simpa [eU] using hu
      · simp [BoxHeader.encodedLen]
      · congr 1 <;> omega
      · rw [dataSize_sized _ (beToNat (s.read (off + 8) 8)) rfl (by simp only [BoxHeader.encodedLen]; omega)]
        simp only [BoxHeader.encodedLen, TopBox.payloadLen, TopBox.payloadOff]
        generalize beToNat (s.read (off + 8) 8) = z
        have : ∀ a b : Nat, a = b → (Except.ok (some a) : Except PErr (Option Nat)) = Except.ok (some b) := fun a b h => by rw [h]
        apply this; omega
  · simp only [h1, if_false] at h
    by_cases hu : s.read (off + 4) 4 = [0x75, 0x75, 0x69, 0x64]
    · simp only [hu, if_true] at h
      split at h
      · cases h
      rename_i ht
      have hr2 : ¬ (lim - off - 8 < 16) := by omega
      by_cases h0 : beToNat (s.read off 4) = 0
      · simp only [h0, if_true] at h
        simp only [Hdr.ok.injEq] at h
        subst h
        refine ⟨⟨.uuid ((s.read (off + 8) (lim - off - 8)).take 16), .untilEof⟩,
          (s.read (off + 8) (lim - off - 8)).drop 16, ?_, ?_, trivial, ?_, ?_, Or.inr ⟨rfl, ?_, rfl⟩⟩
        · unfold decodeHeader
          simp only [hl8, hl8', if_false, t4, n4, r8, h0, if_true, read_length, eU, hu, hr2]
        · simp [name4, eU]
        · simp [BoxHeader.encodedLen]
        · rw [read_drop]; congr 1 <;> omega
        · simp [BoxHeader.dataSize, BoxSize.toNat?]
      · simp only [h0, if_false] at h
        split at h
        · cases h
        rename_i hsz
        simp only [Hdr.ok.injEq] at h
        subst h
        refine ⟨⟨.uuid ((s.read (off + 8) (lim - off - 8)).take 16), .size (beToNat (s.read off 4))⟩,
          (s.read (off + 8) (lim - off - 8)).drop 16, ?_, ?_, trivial, ?_, ?_, Or.inl ⟨rfl, ?_⟩⟩
        · unfold decodeHeader
          simp only [hl8, hl8', if_false, t4, n4, r8, h0, h1, read_length, eU, hu, hr2, if_true]
        · simp [name4, eU]
        · simp [BoxHeader.encodedLen]
        · rw [read_drop]; congr 1 <;> omega
        · rw [dataSize_sized _ (beToNat (s.read off 4)) rfl (by simp only [BoxHeader.encodedLen]; omega)]
          simp only [BoxHeader.encodedLen, TopBox.payloadLen, TopBox.payloadOff]
          generalize beToNat (s.read off 4) = z
          have : ∀ a b : Nat, a = b → (Except.ok (some a) : Except PErr (Option Nat)) = Except.ok (some b) := fun a b h => by rw [h]
          apply this; omega
    · simp only [hu, if_false] at h
      split at h
      · cases h
      rename_i ht
      by_cases h0 : beToNat (s.read off 4) = 0
      · simp only [h0, if_true] at h
        simp only [Hdr.ok.injEq] at h
        subst h
        refine ⟨⟨.fourcc (s.read (off + 4) 4), .untilEof⟩, s.read (off + 8) (lim - off - 8), ?_, ?_, ?_, ?_, ?_, Or.inr ⟨rfl, ?_, rfl⟩⟩
        · unfold decodeHeader
          simp only [hl8, hl8', if_false, t4, n4, r8, h0, if_true, eU, hu]
        · simp [name4]
        · simpa [eU] using hu
        · simp [BoxHeader.encodedLen]
        · congr 1 <;> omega
        · simp [BoxHeader.dataSize, BoxSize.toNat?]
      · simp only [h0, if_false] at h
        split at h
        · cases h
        rename_i hsz
        simp only [Hdr.ok.injEq] at h
        subst h
        refine ⟨⟨.fourcc (s.read (off + 4) 4), .size (beToNat (s.read off 4))⟩, s.read (off + 8) (lim - off - 8), ?_, ?_, ?_, ?_, ?_, Or.inl ⟨rfl, ?_⟩⟩
        · unfold decodeHeader
          simp only [hl8, hl8', if_false, t4, n4, r8, h0, h1, eU, hu]
        · simp [name4]
        · simpa [eU] using hu
        · simp [BoxHeader.encodedLen]
        · congr 1 <;> omega
        · rw [dataSize_sized _ (beToNat (s.read off 4)) rfl (by simp only [BoxHeader.encodedLen]; omega)]
          simp only [BoxHeader.encodedLen, TopBox.payloadLen, TopBox.payloadOff]
          generalize beToNat (s.read off 4) = z
          have : ∀ a b : Nat, a = b → (Except.ok (some a) : Except PErr (Option Nat)) = Except.ok (some b) := fun a b h => by rw [h]
          apply this; omega


theorem chain_at_end (lim : Nat) (bs : List TopBox) (h : Chain s lim none lim lim bs) : bs = [] := by
  cases bs with
  | nil => rfl
  | cons b rest =>
    obtain ⟨k1, _⟩ := h
    unfold headerAt at k1
    simp at k1

/-- a clean chain of walker boxes is what `Boxes::parse` produces over the region -/
theorem parse_of_chain {C : Type} (fuel off lim : Nat) (bs : List TopBox) (hfuel : lim - off ≤ fuel)
    (hch : Chain s lim none off lim bs) :
    ∃ cs : List (Box C), parseBoxes fuel (s.read off (lim - off)) = .ok cs ∧ Corr s cs bs ∧ HGeo s cs bs := by
  induction fuel generalizing off bs with
  | zero =>
    have hle := Chain.le s hch
    have : off = lim := by omega
    subst this
    have := chain_at_end s off bs hch
    subst this
    exact ⟨[], by simp [parseBoxes], trivial, trivial⟩
  | succ f ih =>
    cases bs with
    | nil =>
      have : off = lim := hch
      subst this
      refine ⟨[], ?_, trivial, trivial⟩
      simp [parseBoxes, Stream.read]
    | cons b rest =>
      obtain ⟨k1, k2, k3, k4⟩ := hch
      have hle := Chain.le s k4
      obtain ⟨hd, rst, d1, d2, d3, d4, d5, d6⟩ := decode_of_headerAt s off lim b k1 hle
      obtain ⟨g1, g2, g3, g4, g5⟩ := headerAt_geo s off lim b k1
      obtain ⟨hwf, henc⟩ := decode_wf _ hd rst d1
      have hencl := encodeHeader_length hd hwf
      have henc' : encodeHeader hd = s.read b.offset b.hdrLen := by
        have := congrArg (List.take hd.encodedLen) henc
        rw [take_append_len _ _ _ hencl, read_take s off (lim - off) hd.encodedLen (by omega)] at this
        rw [k2, ← d4]; exact this
      have hne : (s.read off (lim - off)).isEmpty = false := by
        have : (s.read off (lim - off)).length = lim - off := read_length s _ _
        cases hq : s.read off (lim - off) with
        | nil => rw [hq] at this; simp at this; omega
        | cons x xs => rfl
      have hpo : b.payloadOff = off + b.hdrLen := by unfold TopBox.payloadOff; rw [k2]
      have hpl : b.payloadLen = b.endOff - b.payloadOff := rfl
      simp only [parseBoxes, hne, Bool.false_eq_true, if_false, d1]
      rcases d6 with ⟨hs, hds⟩ | ⟨hs, hds, hel⟩
      · -- a sized box: the rest of the region follows
        rw [hds]
        dsimp only
        have hn : b.payloadLen ≤ rst.length := by rw [d5, read_length]; omega
        simp only [hn, if_true]
        have hdrop : rst.drop b.payloadLen = s.read b.endOff (lim - b.endOff) := by
          rw [d5, read_drop]; congr 1 <;> omega
        obtain ⟨cs', p1, p2, p3⟩ := ih b.endOff rest (by omega) k4
        rw [hdrop, p1]
        refine ⟨_, rfl, ⟨d2, d3, ?_, by omega, p2⟩, ⟨d4.symm, henc', Or.inl hds, p3⟩⟩
        dsimp only
        rw [d5, read_take s _ _ b.payloadLen (by omega), hpo]
      · -- the box runs to the end of the region
        rw [hds]
        dsimp only
        rw [hel] at k4
        have := chain_at_end s lim rest k4
        subst this
        refine ⟨_, rfl, ⟨d2, d3, ?_, by omega, trivial⟩, ⟨d4.symm, henc', Or.inr hds, trivial⟩⟩
        dsimp only
        rw [d5, hpo]
        congr 2
        omega

/-- the walker's children of a box are what the model parses from its payload -/
theorem parse_of_children {C : Type} (b : TopBox) (bs : List TopBox) (hle : b.payloadOff ≤ b.endOff) (hc : children s b = some bs) :
    ∃ cs : List (Box C), parseContainer (s.read b.payloadOff b.payloadLen) = .ok cs ∧
      Chain s b.endOff none b.payloadOff b.endOff bs ∧ Corr s cs bs ∧ HGeo s cs bs := by
  have hch := chain_of_children s b bs hle hc
  obtain ⟨cs, p1, p2, p3⟩ := parse_of_chain (C := C) s (b.endOff - b.payloadOff) b.payloadOff b.endOff bs (Nat.le_refl _) hch
  refine ⟨cs, ?_, hch, p2, p3⟩
  unfold parseContainer
  rw [read_length]
  exact p1


theorem modify_bytes_ok {C α : Type} (parse : Bytes → PureRes C) (g : C → PureRes (C × α)) (x : Bytes) (inner r : C) (a : α)
    (h1 : parse x = .ok inner) (h2 : g inner = .ok (r, a)) : (Data.bytes x).modify parse g = .ok (.parsed r, a) := by
  simp only [Data.modify, bind, h1, h2, pure]

/-- `get_mut().next()` succeeds on the first box of the name when the mutation does -/
theorem modifyFirst_of {C α : Type} (nm : Bytes) (hnm : nm ≠ uuidName) (parse : Bytes → PureRes C)
    (g : C → PureRes (C × α)) (cs : List (Box C)) (bs : List TopBox) (hc : Corr s cs bs) (b : TopBox)
    (hf : bs.filter (fun x => decide (x.name = nm)) = [b]) (inner r : C) (a : α)
    (hp : parse (s.read b.payloadOff b.payloadLen) = .ok inner) (hg : g inner = .ok (r, a)) :
    ∃ cs', modifyFirst (.fourcc nm) parse g cs = .ok (cs', a) := by
  induction cs generalizing bs with
  | nil =>
    cases bs with
    | nil => simp at hf
    | cons x xs => exact hc.elim
  | cons c cs ih =>
    cases bs with
    | nil => exact hc.elim
    | cons x xs =>
      obtain ⟨h1, h2, h3, h4, h5⟩ := hc
      have e := corr_ty c x nm hnm h1 h2
      unfold modifyFirst
      rw [e]
      by_cases hx : x.name = nm
      · rw [List.filter_cons_of_pos (by simp [hx])] at hf
        simp only [List.cons.injEq] at hf
        obtain ⟨rfl, _⟩ := hf
        simp only [hx, decide_true, if_true]
        rw [h3, modify_bytes_ok parse g _ inner r a hp hg]
        exact ⟨_, rfl⟩
      · rw [List.filter_cons_of_neg (by simp [hx])] at hf
        simp only [hx, decide_false, Bool.false_eq_true, if_false]
        obtain ⟨cs', hcs'⟩ := ih xs h5 hf
        rw [hcs']
        exact ⟨_, rfl⟩

theorem getOne_of {C α : Type} (nm : Bytes) (hnm : nm ≠ uuidName) (parse : Bytes → PureRes C)
    (g : C → PureRes (C × α)) (cs : List (Box C)) (bs : List TopBox) (hc : Corr s cs bs) (b : TopBox)
    (ho : only nm bs = some b) (inner r : C) (a : α)
    (hp : parse (s.read b.payloadOff b.payloadLen) = .ok inner) (hg : g inner = .ok (r, a)) :
    ∃ cs', getOneMut (.fourcc nm) parse g cs = .ok (cs', a) := by
  have hf := only_filter nm bs b ho
  unfold getOneMut
  have hcnt : countType (.fourcc nm) cs ≤ 1 := by
    rw [(corr_filter_len s nm hnm cs bs hc).1, hf]; simp
  simp only [hcnt, if_true]
  exact modifyFirst_of s nm hnm parse g cs bs hc b hf inner r a hp hg

theorem be4_zero (x : Bytes) (hl : x.length = 4) (h : beToNat x = 0) : x = [0, 0, 0, 0] := by
  match x, hl with
  | [a, b, c, d], _ =>
    simp only [beToNat, List.reverse_cons, List.reverse_nil, List.nil_append, List.cons_append, leToNat] at h
    have ha := a.toNat_lt
    have hb := b.toNat_lt
    have hcc := c.toNat_lt
    have hd := d.toNat_lt
    have : a.toNat = 0 ∧ b.toNat = 0 ∧ c.toNat = 0 ∧ d.toNat = 0 := by omega
    obtain ⟨e1, e2, e3, e4⟩ := this
    have z : ∀ u : UInt8, u.toNat = 0 → u = 0 := fun u hu => UInt8.toNat_inj.mp (by simpa using hu)
    rw [z a e1, z b e2, z c e3, z d e4]


/-- what the walker calls a well-formed table box is accepted by `StcoBox::parse` / `Co64Box::parse` -/
theorem parseCo_of_table (w : Nat) (b : TopBox) (r : Region) (hle : b.payloadOff ≤ b.endOff) (h : tableOf s b w = some r)
    (hbound : r.width * r.count ≤ 4294967295) :
    parseCo w (s.read b.payloadOff b.payloadLen) = .ok ⟨r.width, r.count, s.read r.off (r.width * r.count)⟩ := by
  unfold tableOf at h
  by_cases h8 : b.payloadLen < 8
  · simp [h8] at h
  by_cases hz : be s b.payloadOff 4 ≠ 0
  · simp [h8, hz] at h
  by_cases hl : b.payloadLen ≠ 8 + w * be s (b.payloadOff + 4) 4
  · simp [h8, hz, hl] at h
  simp only [h8, hz, hl, if_false, Option.some.injEq] at h
  subst h
  dsimp only at hbound ⊢
  have hz' : beToNat (s.read b.payloadOff 4) = 0 := by simpa [be] using hz
  have hzero := be4_zero _ (read_length s _ 4) hz'
  have hl' : b.payloadLen = 8 + w * be s (b.payloadOff + 4) 4 := by omega
  have t1 : (s.read b.payloadOff b.payloadLen).take 1 = [0] := by
    rw [read_take s _ _ 1 (by omega)]
    have := congrArg (List.take 1) hzero
    rw [read_take s _ 4 1 (by omega)] at this
    exact this
  have t3 : ((s.read b.payloadOff b.payloadLen).drop 1).take 3 = [0, 0, 0] := by
    rw [read_drop, read_take s _ _ 3 (by omega)]
    have := congrArg (fun l => (l.drop 1).take 3) hzero
    simp only [read_drop, List.drop_succ_cons, List.drop_zero, List.take_succ_cons, List.take_zero] at this
    rw [read_take s _ _ 3 (by omega)] at this
    exact this
  have c4 : ((s.read b.payloadOff b.payloadLen).drop 4).take 4 = s.read (b.payloadOff + 4) 4 := by
    rw [read_drop, read_take s _ _ 4 (by omega)]
  have d8 : (s.read b.payloadOff b.payloadLen).drop 8 = s.read (b.payloadOff + 8) (w * be s (b.payloadOff + 4) 4) := by
    rw [read_drop]; congr 1; omega
  unfold parseCo
  simp only [read_length, t1, t3, c4, d8]
  have e1 : ¬ b.payloadLen < 4 := by omega
  have e2 : ¬ (w * beToNat (s.read (b.payloadOff + 4) 4) > Mp4.u32Max) := by unfold Mp4.u32Max; unfold be at hbound; omega
  have e3 : ¬ ((b.payloadLen - 8) % 4294967296 < w * beToNat (s.read (b.payloadOff + 4) 4)) := by
    unfold be at hl' hbound
    have : b.payloadLen - 8 = w * beToNat (s.read (b.payloadOff + 4) 4) := by omega
    rw [this, Nat.mod_eq_of_lt (by omega)]; omega
  have e4 : ¬ (b.payloadLen - 8 ≠ w * beToNat (s.read (b.payloadOff + 4) 4)) := by unfold be at hl'; omega
  simp only [e1, h8, e2, e3, e4, if_false, ne_eq, not_true_eq_false, be]

/-- the stbl level -/
theorem stbl_of_table {α : Type} (f : Co → PureRes (Co × α)) (cs : L1) (bs : List TopBox) (hc : Corr s cs bs) (r : Region)
    (hr : (match bs.filter (fun x => decide (x.name = stcoN)), bs.filter (fun x => decide (x.name = co64N)) with
      | [b], [] => tableOf s b 4
      | [], [b] => tableOf s b 8
      | _, _ => none) = some r)
    (hbound : r.width * r.count ≤ 4294967295) (co' : Co) (a : α)
    (hf : f ⟨r.width, r.count, s.read r.off (r.width * r.count)⟩ = .ok (co', a)) :
    ∃ cs', coMutStbl f cs = .ok (cs', a) := by
  have hs := corr_filter_len s stcoN (by decide) cs bs hc
  have h6 := corr_filter_len s co64N (by decide) cs bs hc
  have eS : STCO = BoxType.fourcc stcoN := rfl
  have e6 : CO64 = BoxType.fourcc co64N := rfl
  have hmem := corr_mem s cs bs hc
  unfold coMutStbl
  rw [eS, e6, hs.2, h6.2]
  dsimp only
  split at hr
  · rename_i tb hs1 hs2
    have hany1 : bs.any (fun b => decide (b.name = stcoN)) = true := by
      rw [List.any_eq_true]
      have : tb ∈ bs.filter (fun x => decide (x.name = stcoN)) := by rw [hs1]; simp
      exact ⟨tb, (List.mem_filter.mp this).1, (List.mem_filter.mp this).2⟩
    have hany2 : bs.any (fun b => decide (b.name = co64N)) = false := by
      rw [List.any_eq_false]
      intro x hx
      have := List.filter_eq_nil_iff.mp hs2 x hx
      simpa using this
    simp only [hany1, hany2, Bool.and_false, Bool.false_eq_true, if_false, if_true]
    have htb : tb ∈ bs := by
      have : tb ∈ bs.filter (fun x => decide (x.name = stcoN)) := by rw [hs1]; simp
      exact (List.mem_filter.mp this).1
    have ho : only stcoN bs = some tb := by unfold only; rw [hs1]
    have hp := parseCo_of_table s 4 tb r (hmem tb htb) hr hbound
    exact getOne_of s stcoN (by decide) (parseCo 4) f cs bs hc tb ho _ co' a hp hf
  · rename_i tb hs1 hs2
    have hany1 : bs.any (fun b => decide (b.name = stcoN)) = false := by
      rw [List.any_eq_false]
      intro x hx
      have := List.filter_eq_nil_iff.mp hs1 x hx
      simpa using this
    simp only [hany1, Bool.false_and, Bool.false_eq_true, if_false]
    have htb : tb ∈ bs := by
      have : tb ∈ bs.filter (fun x => decide (x.name = co64N)) := by rw [hs2]; simp
      exact (List.mem_filter.mp this).1
    have ho : only co64N bs = some tb := by unfold only; rw [hs2]
    have hp := parseCo_of_table s 8 tb r (hmem tb htb) hr hbound
    exact getOne_of s co64N (by decide) (parseCo 8) f cs bs hc tb ho _ co' a hp hf
  · cases hr


/-- one trak: if the walker finds its table and the mutation succeeds on it, `TrakBox::co_mut` + mutation succeeds -/
theorem trak_of_table {α : Type} (f : Co → PureRes (Co × α)) (t : TopBox) (hle : t.payloadOff ≤ t.endOff) (r : Region)
    (h : trakTable s t = some r) (hbound : r.width * r.count ≤ 4294967295) (co' : Co) (a : α)
    (hf : f ⟨r.width, r.count, s.read r.off (r.width * r.count)⟩ = .ok (co', a)) :
    ∃ l4 l4', parseContainer (s.read t.payloadOff t.payloadLen) = .ok l4 ∧ coMutTrak f l4 = .ok (l4', a) := by
  unfold trakTable at h
  simp only [Option.bind_eq_bind] at h
  cases h1 : children s t with
  | none => rw [h1] at h; cases h
  | some c1 =>
    rw [h1] at h; simp only [Option.bind_some] at h
    cases h2 : only (cc 'm' 'd' 'i' 'a') c1 with
    | none => rw [h2] at h; cases h
    | some mdia =>
      rw [h2] at h; simp only [Option.bind_some] at h
      cases h3 : children s mdia with
      | none => rw [h3] at h; cases h
      | some c2 =>
        rw [h3] at h; simp only [Option.bind_some] at h
        cases h4 : only (cc 'm' 'i' 'n' 'f') c2 with
        | none => rw [h4] at h; cases h
        | some minf =>
          rw [h4] at h; simp only [Option.bind_some] at h
          cases h5 : children s minf with
          | none => rw [h5] at h; cases h
          | some c3 =>
            rw [h5] at h; simp only [Option.bind_some] at h
            cases h6 : only (cc 's' 't' 'b' 'l') c3 with
            | none => rw [h6] at h; cases h
            | some stbl =>
              rw [h6] at h; simp only [Option.bind_some] at h
              cases h7 : children s stbl with
              | none => rw [h7] at h; cases h
              | some c4 =>
                rw [h7] at h; simp only [Option.bind_some] at h
                rw [cc_stco, cc_co64] at h
                rw [cc_mdia] at h2
                rw [cc_minf] at h4
                rw [cc_stbl] at h6
                have m1 := only_mem _ c1 mdia h2
                have w1 := chain_within s _ _ _ c1 (chain_of_children s t c1 hle h1) mdia m1
                have hmo : mdia.payloadOff = mdia.offset + mdia.hdrLen := rfl
                have hle2 : mdia.payloadOff ≤ mdia.endOff := by omega
                have m2 := only_mem _ c2 minf h4
                have w2 := chain_within s _ _ _ c2 (chain_of_children s mdia c2 hle2 h3) minf m2
                have hno : minf.payloadOff = minf.offset + minf.hdrLen := rfl
                have hle3 : minf.payloadOff ≤ minf.endOff := by omega
                have m3 := only_mem _ c3 stbl h6
                have w3 := chain_within s _ _ _ c3 (chain_of_children s minf c3 hle3 h5) stbl m3
                have hso : stbl.payloadOff = stbl.offset + stbl.hdrLen := rfl
                have hle4 : stbl.payloadOff ≤ stbl.endOff := by omega
                obtain ⟨l4, p4, _, corr4, _⟩ := parse_of_children (C := L3) s t c1 hle h1
                obtain ⟨l3, p3, _, corr3, _⟩ := parse_of_children (C := L2) s mdia c2 hle2 h3
                obtain ⟨l2, p2, _, corr2, _⟩ := parse_of_children (C := L1) s minf c3 hle3 h5
                obtain ⟨l1, p1, _, corr1, _⟩ := parse_of_children (C := Co) s stbl c4 hle4 h7
                obtain ⟨l1', q1⟩ := stbl_of_table s f l1 c4 corr1 r h hbound co' a hf
                have eM : MDIA = BoxType.fourcc mdiaN := rfl
                have eI : MINF = BoxType.fourcc minfN := rfl
                have eS : STBL = BoxType.fourcc stblN := rfl
                obtain ⟨l2', q2⟩ := getOne_of s stblN (by decide) parseContainer (coMutStbl f) l2 c3 corr2 stbl h6 l1 l1' a p1 q1
                obtain ⟨l3', q3⟩ := getOne_of s minfN (by decide) parseContainer
                  (fun (l2 : L2) => getOneMut (BoxType.fourcc stblN) parseContainer (coMutStbl f) l2) l3 c2 corr3 minf h4 l2 l2' a p2 q2
                obtain ⟨l4', q4⟩ := getOne_of s mdiaN (by decide) parseContainer
                  (fun (l3 : L3) => getOneMut (BoxType.fourcc minfN) parseContainer
                    (fun (l2 : L2) => getOneMut (BoxType.fourcc stblN) parseContainer (coMutStbl f) l2) l3) l4 c1 corr4 mdia h2 l3 l3' a p3 q3
                refine ⟨l4, l4', p4, ?_⟩
                unfold coMutTrak
                rw [eM, eI, eS]
                exact q4

/-- every trak, in order -/
theorem forTraks_of_tables {α : Type} (f : Co → PureRes (Co × α)) (cs : L5) (bs : List TopBox) (hc : Corr s cs bs)
    (rs : List Region) (hrs : (bs.filter (fun x => decide (x.name = trakN))).mapM (trakTable s) = some rs)
    (hbound : ∀ r ∈ rs, r.width * r.count ≤ 4294967295)
    (hf : ∀ r ∈ rs, ∃ co' a, f ⟨r.width, r.count, s.read r.off (r.width * r.count)⟩ = .ok (co', a)) :
    ∃ cs' as, forEachOfType (BoxType.fourcc trakN) parseContainer (coMutTrak f) cs = .ok (cs', as) := by
  induction cs generalizing bs rs with
  | nil => exact ⟨[], [], rfl⟩
  | cons c cs ih =>
    cases bs with
    | nil => exact hc.elim
    | cons b bs =>
      obtain ⟨h1, h2, h3, h4, h5⟩ := hc
      have e := corr_ty c b trakN (by decide) h1 h2
      unfold forEachOfType
      rw [e]
      by_cases hb : b.name = trakN
      · rw [List.filter_cons_of_pos (by simp [hb]), List.mapM_cons] at hrs
        cases ht : trakTable s b with
        | none => rw [ht] at hrs; cases hrs
        | some r =>
          rw [ht] at hrs
          simp only [Option.bind_eq_bind, Option.bind_some] at hrs
          cases hm : (bs.filter (fun x => decide (x.name = trakN))).mapM (trakTable s) with
          | none => rw [hm] at hrs; cases hrs
          | some rs' =>
            rw [hm] at hrs
            simp only [Option.bind_some, pure, Option.some.injEq] at hrs
            subst hrs
            obtain ⟨co', a, hfr⟩ := hf r (by simp)
            obtain ⟨l4, l4', p1, p2⟩ := trak_of_table s f b h4 r ht (hbound r (by simp)) co' a hfr
            obtain ⟨cs', as, hrec⟩ := ih bs h5 rs' hm (fun x hx => hbound x (by simp [hx])) (fun x hx => hf x (by simp [hx]))
            simp only [hb, decide_true, if_true]
            rw [h3, modify_bytes_ok parseContainer (coMutTrak f) _ l4 l4' a p1 p2]
            simp only [bind, hrec, pure]
            exact ⟨_, _, rfl⟩
      · rw [List.filter_cons_of_neg (by simp [hb])] at hrs
        obtain ⟨cs', as, hrec⟩ := ih bs h5 rs hrs hbound hf
        simp only [hb, decide_false, Bool.false_eq_true, if_false, bind, hrec, pure]
        exact ⟨_, _, rfl⟩

/-- the moov box: what the walker calls well-formed (`moovTables`) is accepted by the tree code, for every mutation that
    succeeds on the tables -/
theorem moov_of_tables {α : Type} (f : Co → PureRes (Co × α)) (m : TopBox) (hle : m.payloadOff ≤ m.endOff)
    (rs : List Region) (h : moovTables s m = some rs) (hbound : ∀ r ∈ rs, r.width * r.count ≤ 4294967295)
    (hf : ∀ r ∈ rs, ∃ co' a, f ⟨r.width, r.count, s.read r.off (r.width * r.count)⟩ = .ok (co', a)) :
    ∃ d' as, (Data.bytes (s.read m.payloadOff m.payloadLen)).modify parseMoov (forTraks f) = .ok (d', as) := by
  unfold moovTables at h
  simp only [Option.bind_eq_bind] at h
  cases h1 : children s m with
  | none => rw [h1] at h; cases h
  | some cs =>
    rw [h1] at h; simp only [Option.bind_some] at h
    split at h
    · cases h
    rename_i hne
    rw [cc_trak] at h hne
    obtain ⟨l5, p5, _, corr5, _⟩ := parse_of_children (C := L4) s m cs hle h1
    obtain ⟨cs', as, hft⟩ := forTraks_of_tables s f l5 cs corr5 rs h hbound hf
    have eT : TRAK = BoxType.fourcc trakN := rfl
    have hhas : hasType (BoxType.fourcc trakN) l5 = true := by
      rw [(corr_filter_len s trakN (by decide) l5 cs corr5).2]
      rw [List.any_eq_true]
      cases hq : cs.filter (fun x => decide (x.name = trakN)) with
      | nil => rw [hq] at hne; simp at hne
      | cons y ys =>
        have : y ∈ cs.filter (fun x => decide (x.name = trakN)) := by rw [hq]; simp
        exact ⟨y, (List.mem_filter.mp this).1, (List.mem_filter.mp this).2⟩
    have hpm : parseMoov (s.read m.payloadOff m.payloadLen) = .ok l5 := by
      unfold parseMoov
      simp only [bind, p5, eT, hhas, if_true, pure]
    refine ⟨_, _, modify_bytes_ok parseMoov (forTraks f) _ l5 cs' as hpm ?_⟩
    unfold forTraks
    rw [eT]; exact hft


theorem sumU32_not_err (acc : Nat) (l : List Nat) (e : PErr) : sumU32 acc l ≠ .err e := by
  induction l generalizing acc with
  | nil => intro h; cases h
  | cons c cs ih =>
    simp only [sumU32]
    split
    · exact ih _
    · intro h; cases h

/-- the eager validation of the scan accepts what the walker calls a well-formed moov (payload within 4·(2^32−1)
    bytes, as every sane limit enforces) -/
theorem validate_of_tables (m : TopBox) (hle : m.payloadOff ≤ m.endOff) (rs : List Region) (h : moovTables s m = some rs)
    (hbound : ∀ r ∈ rs, r.width * r.count ≤ 4294967295) (hsz : m.payloadLen ≤ 4 * Mp4.u32Max) :
    ∃ d total, validateMoov (.bytes (s.read m.payloadOff m.payloadLen)) = .ok (d, total) := by
  obtain ⟨d', counts, hm⟩ := moov_of_tables s (fun co => (.ok (co, co.count) : PureRes (Co × Nat))) m hle rs h hbound
    (fun r _ => ⟨_, _, rfl⟩)
  have hnp := validateMoov_np (s.read m.payloadOff m.payloadLen) (by rw [read_length]; exact hsz)
  cases hv : validateMoov (.bytes (s.read m.payloadOff m.payloadLen)) with
  | ok x => exact ⟨x.1, x.2, rfl⟩
  | panic site => exact absurd hv (hnp site)
  | err e =>
    unfold validateMoov at hv
    simp only [bind, hm] at hv
    cases counts with
    | nil => simp [pure] at hv
    | cons c cs =>
      dsimp only at hv
      cases hsum : sumU32 c cs with
      | ok t => rw [hsum] at hv; simp [pure] at hv
      | err e' => exact absurd hsum (sumU32_not_err c cs e')
      | panic p => rw [hsum] at hv; cases hv

end
end MediaSan.Mp4
