/-
  C06, soundness of the WebP container grammar: what a successful run of the chunk-reader stack has read IS a
  tiling of the enclosing region by chunks in the sense of the independent recogniser (Spec/WebpGrammar.lean).
  Partial-correctness triples (Lemmas/Tri.lean) over the reader stack, in absolute stream offsets.
-/
import MediaSan.Lemmas.Tri
import MediaSan.Lemmas.Slices
import MediaSan.Webp.Sanitize
import MediaSan.Spec.WebpGrammar
import MediaSan.Lemmas.WebpCodecRel
namespace MediaSan.Webp
open MediaSan MediaSan.Spec.WebpGrammar

section
variable (s : Stream) (kind : SkipKind)

theorem bodyRemaining_consume (c : CState) (n : Nat) : bodyRemaining (consumeState c n) = bodyRemaining c - n := by
  cases c with
  | body name len rem =>
    simp only [consumeState]
    split
    · rename_i h; simp only [bodyRemaining]; omega
    · simp only [bodyRemaining]
  | idle => simp [consumeState, bodyRemaining]
  | peeking a b => simp [consumeState, bodyRemaining]
  | padding a b => simp [consumeState, bodyRemaining]

/-- `read_exact(n)` at level k: the bytes at the cursor, inside the stream and inside every enclosing chunk -/
theorem rawRead_rel (r : RS) (k n pos : Nat) :
    Tri (idealOps s kind) (rawRead r k n) pos
      (fun x pos' => x.1 = s.read pos n ∧ x.2 = r.consume k n ∧ pos' = pos + n ∧
        (∀ m, r.bound k = some m → n ≤ m) ∧ (n ≠ 0 → pos + n ≤ s.len)) := by
  unfold rawRead
  split
  · rename_i h0; subst h0
    refine Tri.done ⟨by simp [Stream.read], by simp [RS.consume], rfl, fun m _ => Nat.zero_le _, fun h => absurd rfl h⟩
  · split
    · rename_i hn hw
      apply Tri.readExact
      · intro h; exact absurd h hn
      · intro _ hl
        refine Tri.done ⟨rfl, rfl, rfl, ?_, fun _ => hl⟩
        intro m hm
        rw [hm] at hw
        simpa [within] using hw
    · exact Tri.fail

theorem rawSkip_rel (r : RS) (k n pos : Nat) :
    Tri (idealOps s kind) (rawSkip r k n) pos
      (fun r' pos' => r' = r.consume k n ∧ pos' = pos + n ∧ (∀ m, r.bound k = some m → n ≤ m)) := by
  unfold rawSkip
  split
  · rename_i hw
    have hb : ∀ m, r.bound k = some m → n ≤ m := by
      intro m hm; rw [hm] at hw; simpa [within] using hw
    split
    · rename_i h0; subst h0
      exact Tri.done ⟨by simp [RS.consume], rfl, hb⟩
    · apply Tri.skip
      intro p' hk
      exact Tri.done ⟨rfl, ideal_skip_exact s kind hk, hb⟩
  · exact Tri.fail

theorem rawIsEmpty_rel (r : RS) (k pos : Nat) :
    Tri (idealOps s kind) (rawIsEmpty r k) pos
      (fun e pos' => pos' = pos ∧ (e = true ↔ (r.bound k = some 0 ∨ s.len ≤ pos))) := by
  unfold rawIsEmpty
  split
  · rename_i h; exact Tri.done ⟨rfl, by simp [h]⟩
  · rename_i h
    apply Tri.isEof
    refine Tri.done ⟨rfl, ?_⟩
    constructor
    · intro he; right; simpa using he
    · intro he
      rcases he with he | he
      · exact absurd he (by intro hh; exact h hh)
      · simpa using he

/-! ### absolute geometry of the reader stack -/

/-- absolute end of the payload of the chunk level 0 / level 1 is in (the cursor itself when it is not in a body) -/
def E0 (r : RS) (pos : Nat) : Nat := pos + bodyRemaining r.l0
def E1 (r : RS) (pos : Nat) : Nat := pos + bodyRemaining r.l1

/-- the absolute limit of reads and skips at level `k ≥ 1` -/
def limOf (r : RS) (k pos : Nat) : Nat :=
  match k with
  | 0 => 0
  | 1 => E0 r pos
  | _ => min (E1 r pos) (E0 r pos)

theorem bound_lim (r : RS) (k pos : Nat) (hk : 1 ≤ k) : r.bound k = some (limOf r k pos - pos) := by
  match k, hk with
  | 1, _ => simp [RS.bound, limOf, E0]
  | k + 2, _ => simp only [RS.bound, limOf, E0, E1]; congr 1; omega

/-- which chunk a level is in (its name and declared length), if any -/
def chunkId : CState → Option (Bytes × Nat)
  | .body n l _ => some (n, l)
  | .padding n l => some (n, l)
  | _ => none

/-- a `body` state always has payload left -/
def bodyPos (c : CState) : Prop := ∀ n l rem, c = .body n l rem → 0 < rem

theorem chunkId_consume (c : CState) (n : Nat) : chunkId (consumeState c n) = chunkId c := by
  cases c with
  | body name len rem => simp only [consumeState]; split <;> rfl
  | idle => rfl
  | peeking a b => rfl
  | padding a b => rfl

theorem bodyPos_consume (c : CState) (n : Nat) (h : bodyPos c) : bodyPos (consumeState c n) := by
  cases c with
  | body name len rem =>
    simp only [consumeState]
    split
    · intro a b c' hc; cases hc
    · rename_i hz
      intro a b c' hc
      simp only [CState.body.injEq] at hc
      omega
  | idle => exact h
  | peeking a b => exact h
  | padding a b => exact h

/-- what an operation at level `k` that moved the cursor from `pos` to `pos'` leaves of the enclosing levels -/
def Keeps (k : Nat) (r : RS) (pos : Nat) (r' : RS) (pos' : Nat) : Prop :=
  pos ≤ pos' ∧ (1 ≤ k → E0 r' pos' = E0 r pos) ∧ (2 ≤ k → E1 r' pos' = E1 r pos) ∧
  (1 ≤ k → chunkId r'.l0 = chunkId r.l0 ∧ (bodyPos r.l0 → bodyPos r'.l0)) ∧
  (2 ≤ k → chunkId r'.l1 = chunkId r.l1 ∧ (bodyPos r.l1 → bodyPos r'.l1))

theorem Keeps.refl (k : Nat) (r : RS) (pos : Nat) : Keeps k r pos r pos :=
  ⟨Nat.le_refl _, fun _ => rfl, fun _ => rfl, fun _ => ⟨rfl, id⟩, fun _ => ⟨rfl, id⟩⟩

theorem Keeps.trans {k : Nat} {r1 r2 r3 : RS} {p1 p2 p3 : Nat} (a : Keeps k r1 p1 r2 p2) (b : Keeps k r2 p2 r3 p3) :
    Keeps k r1 p1 r3 p3 :=
  ⟨Nat.le_trans a.1 b.1, fun h => (b.2.1 h).trans (a.2.1 h), fun h => (b.2.2.1 h).trans (a.2.2.1 h),
    fun h => ⟨(b.2.2.2.1 h).1.trans (a.2.2.2.1 h).1, fun x => (b.2.2.2.1 h).2 ((a.2.2.2.1 h).2 x)⟩,
    fun h => ⟨(b.2.2.2.2 h).1.trans (a.2.2.2.2 h).1, fun x => (b.2.2.2.2 h).2 ((a.2.2.2.2 h).2 x)⟩⟩

theorem Keeps.lim {k : Nat} {r r' : RS} {pos pos' : Nat} (h : Keeps k r pos r' pos') (hk : 1 ≤ k) :
    limOf r' k pos' = limOf r k pos := by
  match k, hk with
  | 1, _ => simp only [limOf]; exact h.2.1 (by omega)
  | k + 2, _ => simp only [limOf]; rw [h.2.1 (by omega), h.2.2.1 (by omega)]

/-- consuming `n` bytes within the limit, then setting level `k`, keeps the enclosing geometry -/
theorem keeps_consume_set (r : RS) (k n pos : Nat) (c : CState) (hk : k ≤ 2)
    (hn : ∀ m, r.bound k = some m → n ≤ m) : Keeps k r pos ((r.consume k n).set k c) (pos + n) := by
  refine ⟨by omega, ?_, ?_, ?_, ?_⟩
  · intro h1
    match k, hk, h1 with
    | 1, _, _ =>
      have hb := hn _ (bound_lim r 1 pos (by omega))
      simp only [limOf, E0] at hb
      simp only [E0, RS.consume, RS.set]
      split
      · rename_i h0; subst h0; rfl
      · dsimp only; rw [bodyRemaining_consume]; omega
    | 2, _, _ =>
      have hb := hn _ (bound_lim r 2 pos (by omega))
      simp only [limOf, E0, E1] at hb
      simp only [E0, RS.consume, RS.set]
      split
      · rename_i h0; subst h0; rfl
      · dsimp only; rw [bodyRemaining_consume]; omega
  · intro h2
    have hk2 : k = 2 := by omega
    subst hk2
    have hb := hn _ (bound_lim r 2 pos (by omega))
    simp only [limOf, E0, E1] at hb
    simp only [E1, RS.consume, RS.set]
    split
    · rename_i h0; subst h0; rfl
    · dsimp only; rw [bodyRemaining_consume]; omega
  · intro h1
    match k, hk, h1 with
    | 1, _, _ =>
      simp only [RS.consume, RS.set]
      split
      · exact ⟨rfl, id⟩
      · exact ⟨chunkId_consume _ _, bodyPos_consume _ _⟩
    | 2, _, _ =>
      simp only [RS.consume, RS.set]
      split
      · exact ⟨rfl, id⟩
      · exact ⟨chunkId_consume _ _, bodyPos_consume _ _⟩
  · intro h2
    have hk2 : k = 2 := by omega
    subst hk2
    simp only [RS.consume, RS.set]
    split
    · exact ⟨rfl, id⟩
    · exact ⟨chunkId_consume _ _, bodyPos_consume _ _⟩

theorem get_consume_set (r : RS) (k n : Nat) (c : CState) : ((r.consume k n).set k c).get k = c := by
  match k with
  | 0 => rfl
  | 1 => rfl
  | _ + 2 => rfl

theorem get_consume' (r : RS) (k n : Nat) (hk : k ≤ 2) : (r.consume k n).get k = r.get k := by
  unfold RS.consume
  split
  · rfl
  · match k, hk with
    | 0, _ => rfl
    | 1, _ => rfl
    | 2, _ => rfl

theorem consume_as_set (r : RS) (k n : Nat) (hk : k ≤ 2) : r.consume k n = (r.consume k n).set k (r.get k) := by
  obtain ⟨a, b, c⟩ := r
  match k, hk with
  | 0, _ => simp only [RS.consume, RS.set, RS.get]; split <;> rfl
  | 1, _ => simp only [RS.consume, RS.set, RS.get]; split <;> rfl
  | 2, _ => simp only [RS.consume, RS.set, RS.get]; split <;> rfl

theorem keeps_consume (r : RS) (k n pos : Nat) (hk : k ≤ 2) (hn : ∀ m, r.bound k = some m → n ≤ m) :
    Keeps k r pos (r.consume k n) (pos + n) := by
  rw [consume_as_set r k n hk]
  exact keeps_consume_set r k n pos _ hk hn

theorem keeps_set (r : RS) (k pos : Nat) (c : CState) (hk : k ≤ 2) : Keeps k r pos (r.set k c) pos := by
  have := keeps_consume_set r k 0 pos c hk (fun _ _ => Nat.zero_le _)
  simpa [RS.consume] using this

/-! ### the chunk reader, in absolute offsets -/

/-- the chunk whose header sits at `e` -/
def hdrAt (e : Nat) : Chunk := ⟨s.read e 4, e + 8, le32 s (e + 4)⟩

/-- the pad byte after a payload of `len` bytes ending at `p` is there (inside the limit, for `k ≥ 1`) and is zero -/
def PadOk (k lim p len : Nat) : Prop := len % 2 = 1 → (1 ≤ k → p + 1 ≤ lim) ∧ s.get p = 0

theorem read_one (p : Nat) : s.read p 1 = [s.get p] := by simp [Stream.read]

theorem readPadding_rel (r : RS) (k pos : Nat) (hk : k ≤ 2) :
    Tri (idealOps s kind) (readPadding r k) pos
      (fun r' pos' => Keeps k r pos r' pos' ∧
        match r.get k with
        | .padding _ len => r'.get k = .idle ∧ pos' = pos + len % 2 ∧ PadOk s k (limOf r k pos) pos len
        | c => r'.get k = c ∧ pos' = pos) := by
  unfold readPadding
  cases hc : r.get k with
  | padding name len =>
    dsimp only
    split
    · rename_i hodd
      apply Tri.bind
      apply Tri.mono (rawRead_rel s kind r k 1 pos)
      intro x p1 ⟨h1, h2, h3, h4, h5⟩
      obtain ⟨b, r1⟩ := x
      dsimp only at h1 h2 ⊢
      split
      · rename_i hb
        subst h2 h3
        refine Tri.done ⟨keeps_consume_set r k 1 pos _ hk h4, get_consume_set r k 1 _, by omega, ?_⟩
        intro _
        refine ⟨?_, ?_⟩
        · intro h1k
          have := h4 _ (bound_lim r k pos h1k)
          omega
        · rw [h1, read_one] at hb
          simpa using hb
      · exact Tri.fail
    · rename_i heven
      refine Tri.done ⟨keeps_set r k pos _ hk, ?_, by omega, ?_⟩
      · match k with
        | 0 => rfl
        | 1 => rfl
        | _ + 2 => rfl
      · intro h; omega
  | idle => exact Tri.done ⟨Keeps.refl _ _ _, hc, rfl⟩
  | peeking a b => exact Tri.done ⟨Keeps.refl _ _ _, hc, rfl⟩
  | body a b c => exact Tri.done ⟨Keeps.refl _ _ _, hc, rfl⟩

/-- where the next chunk header is expected, given the state of level `k` at `pos` -/
def bdry (c : CState) (pos : Nat) : Nat :=
  match c with
  | .padding _ len => pos + len % 2
  | _ => pos

/-- the pending pad byte (if any) of the state has been checked -/
def PadDone (k lim : Nat) (c : CState) (pos : Nat) : Prop :=
  match c with
  | .padding _ len => PadOk s k lim pos len
  | _ => True

theorem hasRemaining_rel (r : RS) (k pos : Nat) (hk : k ≤ 2) :
    Tri (idealOps s kind) (hasRemaining r k) pos
      (fun x pos' => Keeps k r pos x.2 pos' ∧ pos' = bdry (r.get k) pos ∧ PadDone s k (limOf r k pos) (r.get k) pos ∧
        match r.get k with
        | .body _ _ _ => x.2.get k = r.get k ∧ x.1 = true
        | .peeking _ _ => x.2.get k = r.get k ∧ x.1 = true
        | _ => x.2.get k = .idle ∧ (x.1 = false ↔ ((1 ≤ k ∧ limOf r k pos ≤ pos') ∨ s.len ≤ pos'))) := by
  unfold hasRemaining
  apply Tri.bind
  apply Tri.mono (readPadding_rel s kind r k pos hk)
  intro r1 p1 ⟨hkeep, hst⟩
  -- after the padding: level k is idle (if it was idle or padding) or unchanged
  have key : ∀ (hidle : r1.get k = .idle), Tri (idealOps s kind)
      (match r1.get k with
        | CState.idle => (rawIsEmpty r1 k).bind fun e => Prog.done (!e, r1)
        | _ => Prog.done (true, r1)) p1
      (fun x pos' => x.2 = r1 ∧ pos' = p1 ∧ (x.1 = false ↔ ((1 ≤ k ∧ limOf r k pos ≤ pos') ∨ s.len ≤ pos'))) := by
    intro hidle
    rw [hidle]
    dsimp only
    apply Tri.bind
    apply Tri.mono (rawIsEmpty_rel s kind r1 k p1)
    intro e p2 ⟨hp2, he⟩
    rw [hp2]
    refine Tri.done ⟨rfl, rfl, ?_⟩
    have hiff : (e = true) ↔ ((1 ≤ k ∧ limOf r k pos ≤ p1) ∨ s.len ≤ p1) := by
      rw [he]
      constructor
      · intro h
        rcases h with h | h
        · left
          by_cases h1 : 1 ≤ k
          · rw [bound_lim r1 k p1 h1, hkeep.lim h1] at h
            simp only [Option.some.injEq] at h
            exact ⟨h1, by omega⟩
          · have : k = 0 := by omega
            subst this; simp [RS.bound] at h
        · right; exact h
      · intro h
        rcases h with ⟨h1, h2⟩ | h
        · left; rw [bound_lim r1 k p1 h1, hkeep.lim h1]; congr 1; omega
        · right; exact h
    cases e
    · simp only [Bool.not_false, Bool.true_eq_false, false_iff]
      intro h; have := hiff.mpr h; cases this
    · simp only [Bool.not_true, true_iff]
      exact hiff.mp rfl
  cases hc : r.get k with
  | padding name len =>
    rw [hc] at hst
    obtain ⟨h1, h2, h3⟩ := hst
    apply Tri.mono (key h1)
    intro x p2 ⟨e1, e2, e3⟩
    subst e1 e2
    exact ⟨hkeep, h2, h3, h1, e3⟩
  | idle =>
    rw [hc] at hst
    obtain ⟨h1, h2⟩ := hst
    apply Tri.mono (key h1)
    intro x p2 ⟨e1, e2, e3⟩
    subst e1 e2
    exact ⟨hkeep, h2, trivial, h1, e3⟩
  | peeking a b =>
    rw [hc] at hst
    obtain ⟨h1, h2⟩ := hst
    rw [h1]
    exact Tri.done ⟨hkeep, h2, trivial, h1, rfl⟩
  | body a b c =>
    rw [hc] at hst
    obtain ⟨h1, h2⟩ := hst
    rw [h1]
    exact Tri.done ⟨hkeep, h2, trivial, h1, rfl⟩

/-- the state a freshly read header leaves level `k` in -/
def fresh (name : Bytes) (len : Nat) : CState := if len = 0 then .padding name len else .body name len len

theorem hdr_parse (e : Nat) : parseChunkHeader (s.read e 8) = ((hdrAt s e).name, (hdrAt s e).len) := by
  unfold parseChunkHeader hdrAt le32
  rw [Mp4.read_take s e 8 4 (by omega), Mp4.read_drop s e 8 4, Mp4.read_take s (e + 4) (8 - 4) 4 (by omega)]

/-- `read_any_header` when level `k` is between chunks: the pending pad byte is checked, the next 8 bytes are the
    header of the chunk `hdrAt e`, inside the limit and inside the stream -/
theorem readAnyHeader_rel (r : RS) (k pos : Nat) (hk : k ≤ 2)
    (hst : r.get k = .idle ∨ ∃ n l, r.get k = .padding n l) :
    Tri (idealOps s kind) (readAnyHeader r k) pos
      (fun x pos' => Keeps k r pos x.2 pos' ∧ PadDone s k (limOf r k pos) (r.get k) pos ∧
        let e := bdry (r.get k) pos
        (1 ≤ k → e + 8 ≤ limOf r k pos) ∧ e + 8 ≤ s.len ∧ pos' = e + 8 ∧ x.1 = (hdrAt s e).name ∧
        x.2.get k = fresh (hdrAt s e).name (hdrAt s e).len) := by
  unfold readAnyHeader
  apply Tri.bind
  apply Tri.mono (readPadding_rel s kind r k pos hk)
  intro r1 p1 ⟨hkeep, hst1⟩
  have hidle : r1.get k = .idle ∧ p1 = bdry (r.get k) pos ∧ PadDone s k (limOf r k pos) (r.get k) pos := by
    rcases hst with h | ⟨n, l, h⟩
    · rw [h] at hst1 ⊢; exact ⟨hst1.1, hst1.2, trivial⟩
    · rw [h] at hst1 ⊢; exact ⟨hst1.1, hst1.2.1, hst1.2.2⟩
  obtain ⟨hi, hp1, hpad⟩ := hidle
  dsimp only
  rw [hi]
  dsimp only
  apply Tri.bind
  apply Tri.mono (hasRemaining_rel s kind r1 k p1 hk)
  intro x p2 ⟨hk2, hp2, _, hrest⟩
  obtain ⟨more, r2⟩ := x
  rw [hi] at hp2 hrest
  simp only [bdry] at hp2
  dsimp only at hk2 hrest ⊢
  split
  · exact Tri.fail
  · apply Tri.bind
    apply Tri.mono (rawRead_rel s kind r2 k 8 p2)
    intro y p3 ⟨h1, h2, h3, h4, h5⟩
    obtain ⟨b, r3⟩ := y
    dsimp only at h1 h2 ⊢
    rw [h1, hdr_parse]
    dsimp only
    apply Tri.position
    split
    · exact Tri.panic
    · subst hp2 h2 h3
      have hkall : Keeps k r pos ((r2.consume k 8).set k (fresh (hdrAt s p2).name (hdrAt s p2).len)) (p2 + 8) :=
        (hkeep.trans hk2).trans (keeps_consume_set r2 k 8 p2 _ hk h4)
      refine Tri.done ⟨hkall, hpad, ?_⟩
      rw [← hp1]
      refine ⟨?_, h5 (by decide), rfl, rfl, ?_⟩
      · intro h1k
        have := h4 _ (bound_lim r2 k p2 h1k)
        rw [(hkeep.trans hk2).lim h1k] at this
        have hle := (hkeep.trans hk2).1
        omega
      · exact get_consume_set r2 k 8 _

/-- `read_any_header` on a peeked header: no I/O, the peeked chunk becomes the current one -/
theorem readAnyHeader_peeked (r : RS) (k pos : Nat) (hk : k ≤ 2) (name : Bytes) (len : Nat)
    (hst : r.get k = .peeking name len) :
    Tri (idealOps s kind) (readAnyHeader r k) pos
      (fun x pos' => Keeps k r pos x.2 pos' ∧ pos' = pos ∧ x.1 = name ∧ x.2.get k = fresh name len) := by
  unfold readAnyHeader
  apply Tri.bind
  apply Tri.mono (readPadding_rel s kind r k pos hk)
  intro r1 p1 ⟨hkeep, hst1⟩
  rw [hst] at hst1
  obtain ⟨h1, h2⟩ := hst1
  dsimp only
  rw [h1]
  dsimp only
  apply Tri.position
  split
  · exact Tri.panic
  · subst h2
    refine Tri.done ⟨hkeep.trans (keeps_set r1 k p1 _ hk), rfl, rfl, ?_⟩
    have := get_consume_set r1 k 0 (fresh name len)
    simpa [RS.consume, fresh] using this

/-- `peek_header` between chunks: either the region (or the input) ends here, or the next header is read and kept -/
theorem peekHeader_rel (r : RS) (k pos : Nat) (hk : k ≤ 2)
    (hst : r.get k = .idle ∨ ∃ n l, r.get k = .padding n l) :
    Tri (idealOps s kind) (peekHeader r k) pos
      (fun x pos' => Keeps k r pos x.2 pos' ∧ PadDone s k (limOf r k pos) (r.get k) pos ∧
        let e := bdry (r.get k) pos
        ((x.1 = none ∧ x.2.get k = .idle ∧ pos' = e ∧ ((1 ≤ k ∧ limOf r k pos ≤ e) ∨ s.len ≤ e)) ∨
         (x.1 = some (hdrAt s e).name ∧ (1 ≤ k → e + 8 ≤ limOf r k pos) ∧ e + 8 ≤ s.len ∧ pos' = e + 8 ∧
           x.2.get k = .peeking (hdrAt s e).name (hdrAt s e).len))) := by
  unfold peekHeader
  apply Tri.bind
  apply Tri.mono (readPadding_rel s kind r k pos hk)
  intro r1 p1 ⟨hkeep, hst1⟩
  have hidle : r1.get k = .idle ∧ p1 = bdry (r.get k) pos ∧ PadDone s k (limOf r k pos) (r.get k) pos := by
    rcases hst with h | ⟨n, l, h⟩
    · rw [h] at hst1 ⊢; exact ⟨hst1.1, hst1.2, trivial⟩
    · rw [h] at hst1 ⊢; exact ⟨hst1.1, hst1.2.1, hst1.2.2⟩
  obtain ⟨hi, hp1, hpad⟩ := hidle
  rw [hi]
  dsimp only
  apply Tri.bind
  apply Tri.mono (hasRemaining_rel s kind r1 k p1 hk)
  intro x p2 ⟨hk2, hp2, _, hrest⟩
  obtain ⟨more, r2⟩ := x
  rw [hi] at hp2 hrest
  simp only [bdry] at hp2
  dsimp only at hk2 hrest ⊢
  subst hp2
  split
  · rename_i hm
    have hmf : more = false := by simpa using hm
    refine Tri.done ⟨hkeep.trans hk2, hpad, ?_⟩
    rw [← hp1]
    left
    refine ⟨rfl, hrest.1, rfl, ?_⟩
    rcases hrest.2.mp hmf with ⟨h1k, hle⟩ | hle
    · left; exact ⟨h1k, by rw [← hkeep.lim h1k]; exact hle⟩
    · right; exact hle
  · apply Tri.bind
    apply Tri.mono (rawRead_rel s kind r2 k 8 p2)
    intro y p3 ⟨h1, h2, h3, h4, h5⟩
    obtain ⟨b, r3⟩ := y
    dsimp only at h1 h2 ⊢
    rw [h1, hdr_parse]
    dsimp only
    subst h2 h3
    refine Tri.done ⟨(hkeep.trans hk2).trans (keeps_consume_set r2 k 8 p2 _ hk h4), hpad, ?_⟩
    rw [← hp1]
    right
    refine ⟨rfl, ?_, h5 (by decide), rfl, get_consume_set r2 k 8 _⟩
    intro h1k
    have := h4 _ (bound_lim r2 k p2 h1k)
    rw [(hkeep.trans hk2).lim h1k] at this
    have hle := (hkeep.trans hk2).1
    omega

theorem readHeader_rel (r : RS) (k pos : Nat) (name : Bytes) (hk : k ≤ 2)
    (hst : r.get k = .idle ∨ ∃ n l, r.get k = .padding n l) :
    Tri (idealOps s kind) (readHeader r k name) pos
      (fun r' pos' => Keeps k r pos r' pos' ∧ PadDone s k (limOf r k pos) (r.get k) pos ∧
        let e := bdry (r.get k) pos
        (1 ≤ k → e + 8 ≤ limOf r k pos) ∧ e + 8 ≤ s.len ∧ pos' = e + 8 ∧ (hdrAt s e).name = name ∧
        r'.get k = fresh name (hdrAt s e).len) := by
  unfold readHeader
  apply Tri.bind
  apply Tri.mono (readPadding_rel s kind r k pos hk)
  intro r1 p1 ⟨hkeep, hst1⟩
  have hidle : r1.get k = .idle ∧ p1 = bdry (r.get k) pos ∧ PadDone s k (limOf r k pos) (r.get k) pos := by
    rcases hst with h | ⟨n, l, h⟩
    · rw [h] at hst1 ⊢; exact ⟨hst1.1, hst1.2, trivial⟩
    · rw [h] at hst1 ⊢; exact ⟨hst1.1, hst1.2.1, hst1.2.2⟩
  obtain ⟨hi, hp1, hpad⟩ := hidle
  dsimp only
  rw [hi]
  dsimp only
  apply Tri.bind
  apply Tri.mono (hasRemaining_rel s kind r1 k p1 hk)
  intro x p2 ⟨hk2, hp2, _, hrest⟩
  obtain ⟨more, r2⟩ := x
  rw [hi] at hp2 hrest
  simp only [bdry] at hp2
  dsimp only at hk2 hrest ⊢
  subst hp2
  split
  · apply Tri.bind
    apply Tri.mono (readAnyHeader_rel s kind r2 k p2 hk (Or.inl hrest.1))
    intro y p3 ⟨hk3, _, hy⟩
    obtain ⟨got, r3⟩ := y
    rw [hrest.1] at hy
    simp only [bdry] at hy
    obtain ⟨y1, y2, y3, y4, y5⟩ := hy
    dsimp only at hk3 y4 y5 ⊢
    split
    · rename_i hgot
      refine Tri.done ⟨(hkeep.trans hk2).trans hk3, hpad, ?_⟩
      rw [← hp1]
      refine ⟨?_, y2, y3, by rw [← y4]; exact hgot, by rw [y5, ← y4, hgot]⟩
      intro h1k
      have := y1 h1k
      rw [(hkeep.trans hk2).lim h1k] at this
      exact this
    · exact Tri.fail
  · exact Tri.fail

theorem readHeader_peeked (r : RS) (k pos : Nat) (name : Bytes) (hk : k ≤ 2) (n : Bytes) (l : Nat)
    (hst : r.get k = .peeking n l) :
    Tri (idealOps s kind) (readHeader r k name) pos
      (fun r' pos' => Keeps k r pos r' pos' ∧ pos' = pos ∧ n = name ∧ r'.get k = fresh n l) := by
  unfold readHeader
  apply Tri.bind
  apply Tri.mono (readPadding_rel s kind r k pos hk)
  intro r1 p1 ⟨hkeep, hst1⟩
  rw [hst] at hst1
  obtain ⟨h1, h2⟩ := hst1
  dsimp only
  rw [h1]
  dsimp only
  apply Tri.bind
  apply Tri.mono (readAnyHeader_peeked s kind r1 k p1 hk n l h1)
  intro y p3 ⟨hk3, y1, y2, y3⟩
  obtain ⟨got, r3⟩ := y
  dsimp only at hk3 y2 y3 ⊢
  split
  · rename_i hgot
    exact Tri.done ⟨hkeep.trans hk3, by omega, by rw [← y2]; exact hgot, y3⟩
  · exact Tri.fail

/-- the current chunk of level `k`, in absolute offsets: `c`, with `rem` payload bytes still ahead of the cursor, or
    with its payload consumed — and then known to lie inside the limit `lim` of the level -/
def Cur (lim : Nat) (r : RS) (k pos : Nat) (c : Chunk) : Prop :=
  match r.get k with
  | .body name len rem => name = c.name ∧ len = c.len ∧ pos + rem = c.off + c.len ∧ 0 < rem
  | .padding name len => name = c.name ∧ len = c.len ∧ pos = c.off + c.len ∧ (1 ≤ k → c.off + c.len ≤ lim)
  | _ => False

theorem cur_fresh (lim : Nat) (r : RS) (k e : Nat) (h : r.get k = fresh (hdrAt s e).name (hdrAt s e).len)
    (hl : 1 ≤ k → e + 8 ≤ lim) : Cur lim r k (e + 8) (hdrAt s e) := by
  unfold Cur
  rw [h]
  unfold fresh
  by_cases h0 : (hdrAt s e).len = 0
  · rw [if_pos h0]
    refine ⟨rfl, rfl, by simp only [hdrAt] at h0 ⊢; omega, ?_⟩
    intro h1k
    have := hl h1k
    simp only [hdrAt] at h0 ⊢
    omega
  · rw [if_neg h0]
    exact ⟨rfl, rfl, by simp only [hdrAt], by omega⟩

/-- `read_data(n)` inside the current chunk -/
theorem readData_rel (r : RS) (k n pos : Nat) (hk : k ≤ 2) (c : Chunk) (hc : Cur (limOf r k pos) r k pos c) :
    Tri (idealOps s kind) (readData r k n) pos
      (fun x pos' => Keeps k r pos x.2 pos' ∧ x.1 = s.read pos n ∧ pos' = pos + n ∧ pos + n ≤ c.off + c.len ∧
        (n ≠ 0 → pos + n ≤ s.len) ∧ Cur (limOf r k pos) x.2 k pos' c) := by
  unfold readData
  apply Tri.bind
  apply Tri.mono (readPadding_rel s kind r k pos hk)
  intro r1 p1 ⟨hkeep, hst1⟩
  unfold Cur at hc
  cases hs : r.get k with
  | idle => rw [hs] at hc; exact hc.elim
  | peeking a b => rw [hs] at hc; exact hc.elim
  | padding name len =>
    -- the payload is already consumed: after the pad byte the level is idle and `read_data` is refused
    rw [hs] at hst1
    rw [hst1.1]
    exact Tri.fail
  | body name len rem =>
    rw [hs] at hst1 hc
    obtain ⟨h1, h2⟩ := hst1
    obtain ⟨c1, c2, c3, c4⟩ := hc
    subst h2
    rw [h1]
    dsimp only
    split
    · exact Tri.fail
    · rename_i hlt
      apply Tri.bind
      apply Tri.mono (rawRead_rel s kind r1 k n p1)
      intro y p2 ⟨y1, y2, y3, y4, y5⟩
      obtain ⟨b, r2⟩ := y
      dsimp only at y1 y2 ⊢
      subst y2 y3
      refine Tri.done ⟨hkeep.trans (keeps_consume_set r1 k n p1 _ hk y4), y1, rfl, by omega, y5, ?_⟩
      unfold Cur
      rw [get_consume_set]
      by_cases hz : rem - n = 0
      · rw [if_pos hz]
        refine ⟨c1, c2, by omega, ?_⟩
        intro h1k
        have := y4 _ (bound_lim r1 k p1 h1k)
        rw [hkeep.lim h1k] at this
        omega
      · rw [if_neg hz]
        exact ⟨c1, c2, by omega, by omega⟩

/-- level `k` has finished chunk `c`: its payload is consumed and lies inside the limit; the pad byte is still
    pending, or has been read and checked -/
def Fin (lim : Nat) (r : RS) (k pos : Nat) (c : Chunk) : Prop :=
  (1 ≤ k → c.off + c.len ≤ lim) ∧
  ((r.get k = .padding c.name c.len ∧ pos = c.off + c.len) ∨
   (r.get k = .idle ∧ pos = c.endOff ∧ PadOk s k lim (c.off + c.len) c.len))

/-- `skip_data`: the rest of the current chunk is skipped (inside the limit) -/
theorem skipData_rel (r : RS) (k pos : Nat) (hk : k ≤ 2) (c : Chunk) (hc : Cur (limOf r k pos) r k pos c) :
    Tri (idealOps s kind) (skipData r k) pos
      (fun r' pos' => Keeps k r pos r' pos' ∧ Fin s (limOf r k pos) r' k pos' c) := by
  unfold skipData
  apply Tri.bind
  apply Tri.mono (readPadding_rel s kind r k pos hk)
  intro r1 p1 ⟨hkeep, hst1⟩
  unfold Cur at hc
  cases hs : r.get k with
  | idle => rw [hs] at hc; exact hc.elim
  | peeking a b => rw [hs] at hc; exact hc.elim
  | padding name len =>
    rw [hs] at hst1 hc
    obtain ⟨h1, h2, h3⟩ := hst1
    obtain ⟨c1, c2, c3, c4⟩ := hc
    rw [h1]
    dsimp only
    refine Tri.done ⟨hkeep, c4, Or.inr ⟨h1, ?_, ?_⟩⟩
    · unfold Chunk.endOff; rw [h2, c3, c2]
    · rw [← c3, ← c2]; exact h3
  | body name len rem =>
    rw [hs] at hst1 hc
    obtain ⟨h1, h2⟩ := hst1
    obtain ⟨c1, c2, c3, c4⟩ := hc
    subst h2
    rw [h1]
    dsimp only
    apply Tri.bind
    apply Tri.mono (rawSkip_rel s kind r1 k rem p1)
    intro r2 p2 ⟨y1, y2, y3⟩
    subst y1 y2
    have hfit : 1 ≤ k → c.off + c.len ≤ limOf r k p1 := by
      intro h1k
      have := y3 _ (bound_lim r1 k p1 h1k)
      rw [hkeep.lim h1k] at this
      omega
    refine Tri.done ⟨hkeep.trans (keeps_consume_set r1 k rem p1 _ hk y3), hfit, Or.inl ⟨?_, by omega⟩⟩
    rw [get_consume_set, c1, c2]

/-- `parse_data::<T>()`: the next `ENCODED_LEN` bytes of the current chunk -/
theorem parseData_rel (r : RS) (k pos : Nat) (sc : Schema) (hk : k ≤ 2) (c : Chunk) (hc : Cur (limOf r k pos) r k pos c) :
    Tri (idealOps s kind) (parseData r k sc) pos
      (fun x pos' => Keeps k r pos x.2 pos' ∧ pos' = pos + sc.encodedLen ∧ pos + sc.encodedLen ≤ c.off + c.len ∧
        (∃ rest, sc.parse (s.read pos sc.encodedLen) = .ok (x.1, rest)) ∧ Cur (limOf r k pos) x.2 k pos' c) := by
  unfold parseData
  apply Tri.bind
  apply Tri.mono (readData_rel s kind r k sc.encodedLen pos hk c hc)
  intro x p1 ⟨h1, h2, h3, h4, _, h6⟩
  obtain ⟨b, r1⟩ := x
  dsimp only at h1 h2 h6 ⊢
  apply Tri.bind
  unfold liftPrim
  cases hp : sc.parse b with
  | ok y =>
    obtain ⟨vs, rest⟩ := y
    exact Tri.done (Tri.done ⟨h1, h3, h4, ⟨rest, by rw [← h2]; exact hp⟩, h6⟩)
  | error e =>
    cases e with
    | truncated => exact Tri.fail
    | invalidInput => exact Tri.fail
    | panic => exact Tri.panic

/-! ### tilings -/

/-- one step of the recogniser's `chunks`: the chunk whose header is at `e` fits the region ending at `lim`, pad byte
    included -/
def StepOk (lim e : Nat) (c : Chunk) : Prop :=
  c = hdrAt s e ∧ e + 8 ≤ lim ∧ c.off + c.len ≤ lim ∧ (c.len % 2 = 1 → c.off + c.len + 1 ≤ lim ∧ s.get (c.off + c.len) = 0)

/-- `cs` tile [e, e') inside the region ending at `lim` -/
def CChain (lim : Nat) : Nat → Nat → List Chunk → Prop
  | e, e', [] => e = e'
  | e, e', c :: cs => StepOk s lim e c ∧ CChain lim c.endOff e' cs

theorem CChain.snoc {lim a b : Nat} {cs : List Chunk} {c : Chunk} (h : CChain s lim a b cs) (hc : StepOk s lim b c) :
    CChain s lim a c.endOff (cs ++ [c]) := by
  induction cs generalizing a with
  | nil => have : a = b := h; subst this; exact ⟨hc, rfl⟩
  | cons x xs ih => exact ⟨h.1, ih h.2⟩

theorem CChain.le {lim a b : Nat} {cs : List Chunk} (h : CChain s lim a b cs) : a ≤ b := by
  induction cs generalizing a with
  | nil => exact Nat.le_of_eq h
  | cons x xs ih =>
    have := ih h.2
    obtain ⟨h1, _, _, _⟩ := h.1
    have : x.off = a + 8 := by rw [h1]; rfl
    unfold Chunk.endOff at *
    omega

/-- a tiling that reaches the end of the region is what the recogniser's tokenizer returns -/
theorem chunks_of_cchain (lim : Nat) (cs : List Chunk) (off fuel : Nat) (h : CChain s lim off lim cs)
    (hf : lim < off + 8 * fuel) : chunks s fuel off lim = some cs := by
  induction cs generalizing off fuel with
  | nil =>
    have : off = lim := h
    subst this
    cases fuel with
    | zero => omega
    | succ f => simp [chunks]
  | cons c cs ih =>
    obtain ⟨⟨h1, h2, h3, h4⟩, hrest⟩ := h
    subst h1
    have hle := CChain.le s hrest
    cases fuel with
    | zero => omega
    | succ f =>
      have hne : ¬ off = lim := by omega
      have h8 : ¬ off + 8 > lim := by omega
      simp only [hdrAt] at h3 h4
      unfold chunks
      simp only [hne, if_false, h8]
      have e3 : ¬ off + 8 + le32 s (off + 4) > lim := by omega
      have e4 : ¬ (le32 s (off + 4) % 2 = 1 ∧ (off + 8 + le32 s (off + 4) + 1 > lim ∨ s.get (off + 8 + le32 s (off + 4)) ≠ 0)) := by
        intro ⟨ho, hbad⟩
        obtain ⟨p1, p2⟩ := h4 ho
        rcases hbad with hb | hb
        · omega
        · exact hb p2
      simp only [e3, if_false, e4]
      have := ih (hdrAt s off).endOff f hrest (by unfold Chunk.endOff; simp only [hdrAt]; omega)
      simp only [hdrAt] at this
      rw [this]
      rfl

/-! ### a level of the reader stack walking its region -/

/-- level `k` is inside chunk `c`, whose header follows the tiling `cs` of the region [start, ·) ending at `L` -/
def Open (L start : Nat) (r : RS) (k pos : Nat) (cs : List Chunk) (c : Chunk) : Prop :=
  ∃ e, CChain s L start e cs ∧ c = hdrAt s e ∧ e + 8 ≤ L ∧ Cur L r k pos c

/-- level `k` is between chunks: `cs` tile the region up to the cursor, except that the pad byte of the last chunk may
    still be pending -/
def Closed (L start : Nat) (r : RS) (k pos : Nat) (cs : List Chunk) : Prop :=
  (r.get k = .idle ∧ CChain s L start pos cs) ∨
  (∃ cs' c e, cs = cs' ++ [c] ∧ CChain s L start e cs' ∧ c = hdrAt s e ∧ e + 8 ≤ L ∧ c.off + c.len ≤ L ∧
     r.get k = .padding c.name c.len ∧ pos = c.off + c.len)

theorem Closed.state {L start : Nat} {r : RS} {k pos : Nat} {cs : List Chunk} (h : Closed s L start r k pos cs) :
    r.get k = .idle ∨ ∃ n l, r.get k = .padding n l := by
  rcases h with ⟨h, _⟩ | ⟨_, c, _, _, _, _, _, _, h, _⟩
  · exact Or.inl h
  · exact Or.inr ⟨_, _, h⟩

/-- once the pending pad byte has been checked, the tiling reaches the boundary -/
theorem Closed.bdry {L start : Nat} {r : RS} {k pos : Nat} {cs : List Chunk} (h : Closed s L start r k pos cs)
    (hk : 1 ≤ k) (hp : PadDone s k L (r.get k) pos) : CChain s L start (bdry (r.get k) pos) cs := by
  rcases h with ⟨h, hc⟩ | ⟨cs', c, e, e0, e1, e2, e3, e4, e5, e6⟩
  · rw [h]; exact hc
  · rw [e5] at hp ⊢
    simp only [PadDone, PadOk] at hp
    show CChain s L start (pos + c.len % 2) cs
    rw [e0]
    have : pos + c.len % 2 = c.endOff := by unfold Chunk.endOff; omega
    rw [this]
    apply CChain.snoc s e1
    refine ⟨e2, e3, e4, ?_⟩
    intro ho
    have := hp ho
    rw [e6] at this
    exact ⟨this.1 hk, this.2⟩

/-- a fresh level at `pos` -/
theorem Closed.start (L : Nat) (r : RS) (k pos : Nat) (h : r.get k = .idle) : Closed s L pos r k pos [] :=
  Or.inl ⟨h, rfl⟩

/-- T1: reading the next header opens the next chunk -/
theorem next_header (L start : Nat) (r : RS) (k pos : Nat) (cs : List Chunk) (hk : k ≤ 2) (h1k : 1 ≤ k)
    (hL : limOf r k pos = L) (hc : Closed s L start r k pos cs) :
    Tri (idealOps s kind) (readAnyHeader r k) pos
      (fun x pos' => Keeps k r pos x.2 pos' ∧ limOf x.2 k pos' = L ∧
        ∃ c, x.1 = c.name ∧ Open s L start x.2 k pos' cs c ∧ pos' = c.off ∧ c.off ≤ s.len) := by
  apply Tri.mono (readAnyHeader_rel s kind r k pos hk hc.state)
  intro x p1 ⟨hkeep, hpad, hrest⟩
  obtain ⟨g1, g2, g3, g4, g5⟩ := hrest
  rw [hL] at hpad g1
  refine ⟨hkeep, by rw [hkeep.lim h1k, hL], hdrAt s (bdry (r.get k) pos), g4, ?_, by rw [g3]; rfl, by rw [show (hdrAt s (bdry (r.get k) pos)).off = bdry (r.get k) pos + 8 from rfl]; exact g2⟩
  refine ⟨bdry (r.get k) pos, hc.bdry s h1k hpad, rfl, g1 h1k, ?_⟩
  rw [g3]
  exact cur_fresh s L x.2 k _ g5 (fun _ => g1 h1k)

/-- T2: skipping the rest of the open chunk closes it -/
theorem close_chunk (L start : Nat) (r : RS) (k pos : Nat) (cs : List Chunk) (c : Chunk) (hk : k ≤ 2) (h1k : 1 ≤ k)
    (hL : limOf r k pos = L) (ho : Open s L start r k pos cs c) :
    Tri (idealOps s kind) (skipData r k) pos
      (fun r' pos' => Keeps k r pos r' pos' ∧ limOf r' k pos' = L ∧ Closed s L start r' k pos' (cs ++ [c])) := by
  obtain ⟨e, e1, e2, e3, e4⟩ := ho
  apply Tri.mono (skipData_rel s kind r k pos hk c (by rw [hL]; exact e4))
  intro r' p1 ⟨hkeep, hfit, hfin⟩
  rw [hL] at hfit hfin
  refine ⟨hkeep, by rw [hkeep.lim h1k, hL], ?_⟩
  rcases hfin with ⟨f1, f2⟩ | ⟨f1, f2, f3⟩
  · exact Or.inr ⟨cs, c, e, rfl, e1, e2, e3, hfit h1k, f1, f2⟩
  · left
    refine ⟨f1, ?_⟩
    rw [f2]
    apply CChain.snoc s e1
    refine ⟨e2, e3, hfit h1k, ?_⟩
    intro hodd
    have := f3 hodd
    exact ⟨this.1 h1k, this.2⟩

/-- T3: asking whether the region has more chunks resolves the pending pad byte -/
theorem more_chunks (L start : Nat) (r : RS) (k pos : Nat) (cs : List Chunk) (hk : k ≤ 2) (h1k : 1 ≤ k)
    (hL : limOf r k pos = L) (hc : Closed s L start r k pos cs) :
    Tri (idealOps s kind) (hasRemaining r k) pos
      (fun x pos' => Keeps k r pos x.2 pos' ∧ limOf x.2 k pos' = L ∧ x.2.get k = .idle ∧ CChain s L start pos' cs ∧
        (x.1 = false → (L ≤ pos' ∨ s.len ≤ pos'))) := by
  apply Tri.mono (hasRemaining_rel s kind r k pos hk)
  intro x p1 ⟨hkeep, hp, hpad, hrest⟩
  rw [hL] at hpad hrest
  have hch := hc.bdry s h1k hpad
  rw [← hp] at hch
  refine ⟨hkeep, by rw [hkeep.lim h1k, hL], ?_, hch, ?_⟩
  · rcases hc.state with h | ⟨n, l, h⟩
    · rw [h] at hrest; exact hrest.1
    · rw [h] at hrest; exact hrest.1
  · intro hf
    rcases hc.state with h | ⟨n, l, h⟩
    · rw [h] at hrest
      rcases hrest.2.mp hf with ⟨_, a⟩ | a
      · exact Or.inl a
      · exact Or.inr a
    · rw [h] at hrest
      rcases hrest.2.mp hf with ⟨_, a⟩ | a
      · exact Or.inl a
      · exact Or.inr a

/-! ### lossless payloads -/

/-- the lossless validator accepted the bytes it was given at `p`: as much of the chunk's payload as the level's limit
    and the input hold -/
def ImgOk (L : Nat) (c : Chunk) (p w h : Nat) : Prop :=
  Vp8l.validate (ByteArray.mk (s.read p (min (min (c.off + c.len - p) (L - p)) (s.len - p))).toArray) w h = .ok ()

/-- when the chunk turns out to lie inside its region and inside the input, that was its whole payload -/
theorem ImgOk.full {L : Nat} {c : Chunk} {p w h : Nat} (hi : ImgOk s L c p w h) (h1 : c.off + c.len ≤ L)
    (h2 : c.off + c.len ≤ s.len) :
    Vp8l.validate (ByteArray.mk (s.read p (c.off + c.len - p)).toArray) w h = .ok () := by
  unfold ImgOk at hi
  have : min (min (c.off + c.len - p) (L - p)) (s.len - p) = c.off + c.len - p := by omega
  rw [this] at hi
  exact hi

theorem sanitizeImageData_rel (L : Nat) (r : RS) (k w h pos : Nat) (hk : k ≤ 2) (h1k : 1 ≤ k) (c : Chunk)
    (hL : limOf r k pos = L) (hc : Cur L r k pos c) :
    Tri (idealOps s kind) (sanitizeImageData r k w h) pos
      (fun r' pos' => Keeps k r pos r' pos' ∧ limOf r' k pos' = L ∧ Cur L r' k pos' c ∧ ImgOk s L c pos w h) := by
  unfold sanitizeImageData
  unfold Cur at hc
  cases hs : r.get k with
  | idle => rw [hs] at hc; exact hc.elim
  | peeking a b => rw [hs] at hc; exact hc.elim
  | padding name len =>
    rw [hs] at hc
    obtain ⟨c1, c2, c3, c4⟩ := hc
    dsimp only
    apply Tri.bind
    unfold liftLossless
    cases hv : Vp8l.validate ByteArray.empty w h with
    | error e => cases e <;> first | exact Tri.fail | exact Tri.panic
    | ok u =>
      apply Tri.done
      refine Tri.done ⟨Keeps.refl _ _ _, hL, ?_, ?_⟩
      · unfold Cur; rw [hs]; exact ⟨c1, c2, c3, c4⟩
      · unfold ImgOk
        have : min (min (c.off + c.len - pos) (L - pos)) (s.len - pos) = 0 := by omega
        rw [this]
        exact hv
  | body name len rem =>
    rw [hs] at hc
    obtain ⟨c1, c2, c3, c4⟩ := hc
    dsimp only
    rw [bound_lim r k pos h1k, hL]
    dsimp only
    apply Tri.readUpTo
    apply Tri.bind
    unfold liftLossless
    have hm : min (min rem (L - pos)) (s.len - pos) = min (min (c.off + c.len - pos) (L - pos)) (s.len - pos) := by
      congr 2; omega
    cases hv : Vp8l.validate (ByteArray.mk (s.read pos (min (min rem (L - pos)) (s.len - pos))).toArray) w h with
    | error e => cases e <;> first | exact Tri.fail | exact Tri.panic
    | ok u =>
      apply Tri.done
      have hlen : (s.read pos (min (min rem (L - pos)) (s.len - pos))).length = min (min rem (L - pos)) (s.len - pos) := by
        simp [Stream.read]
      rw [hlen]
      have hn : ∀ m, r.bound k = some m → min (min rem (L - pos)) (s.len - pos) ≤ m := by
        intro m hm'
        rw [bound_lim r k pos h1k, hL] at hm'
        simp only [Option.some.injEq] at hm'
        omega
      have hkeep := keeps_consume_set r k (min (min rem (L - pos)) (s.len - pos)) pos
        (if rem - min (min rem (L - pos)) (s.len - pos) = 0 then CState.padding name len
          else CState.body name len (rem - min (min rem (L - pos)) (s.len - pos))) hk hn
      refine Tri.done ⟨hkeep, by rw [hkeep.lim h1k, hL], ?_, ?_⟩
      · unfold Cur
        rw [get_consume_set]
        by_cases hz : rem - min (min rem (L - pos)) (s.len - pos) = 0
        · rw [if_pos hz]
          exact ⟨c1, c2, by omega, fun _ => by omega⟩
        · rw [if_neg hz]
          exact ⟨c1, c2, by omega, by omega⟩
      · unfold ImgOk
        rw [← hm]
        exact hv

/-- what the model has established about a VP8L chunk -/
def Vp8lSeen (L : Nat) (c : Chunk) (expect : Option (Nat × Nat)) : Prop :=
  5 ≤ c.len ∧ ∃ w h, Vp8l.parseVp8lHeader (ByteArray.mk (s.read c.off 5).toArray) = .ok (w, h) ∧
    (match expect with
      | none => True
      | some (ew, eh) => w = ew ∧ h = eh) ∧
    ImgOk s L c (c.off + 5) w h

theorem Open.cur {L start : Nat} {r : RS} {k pos : Nat} {cs : List Chunk} {c : Chunk} (h : Open s L start r k pos cs c) :
    Cur L r k pos c := by
  obtain ⟨_, _, _, _, h4⟩ := h; exact h4

theorem Open.recur {L start : Nat} {r r' : RS} {k pos pos' : Nat} {cs : List Chunk} {c : Chunk}
    (h : Open s L start r k pos cs c) (h' : Cur L r' k pos' c) : Open s L start r' k pos' cs c := by
  obtain ⟨e, h1, h2, h3, _⟩ := h; exact ⟨e, h1, h2, h3, h'⟩

/-- VP8L chunk: header, optional dimension check, lossless validation, then the chunk is closed -/
theorem vp8lChunk_rel (L start : Nat) (r : RS) (k pos : Nat) (cs : List Chunk) (c : Chunk)
    (expect : Option (Nat × Nat)) (hk : k ≤ 2) (h1k : 1 ≤ k) (hL : limOf r k pos = L)
    (ho : Open s L start r k pos cs c) (hpos : pos = c.off) :
    Tri (idealOps s kind) (vp8lChunk r k expect) pos
      (fun r' pos' => Keeps k r pos r' pos' ∧ limOf r' k pos' = L ∧ Closed s L start r' k pos' (cs ++ [c]) ∧
        Vp8lSeen s L c expect) := by
  unfold vp8lChunk
  apply Tri.bind
  apply Tri.mono (readData_rel s kind r k 5 pos hk c (by rw [hL]; exact ho.cur s))
  intro x p1 ⟨hk1, hx1, hp1, hle, _, hcur1⟩
  rw [hL] at hcur1
  cases hp : Vp8l.parseVp8lHeader (ByteArray.mk x.1.toArray) with
  | error e => cases e <;> exact Tri.fail
  | ok wh =>
    obtain ⟨w, h⟩ := wh
    have hL1 : limOf x.2 k p1 = L := by rw [hk1.lim h1k, hL]
    -- the dimension check
    have hdim : ∀ (X : WP RS) (Q : RS → Nat → Prop),
        ((match expect with
            | none => True
            | some (ew, eh) => w = ew ∧ h = eh) → Tri (idealOps s kind) X p1 Q) →
        Tri (idealOps s kind)
          (if (!(match expect with
                  | none => true
                  | some (ew, eh) => decide (w = ew ∧ h = eh))) = true then Prog.fail WErr.invalidInput else X) p1 Q := by
      intro X Q hX
      cases expect with
      | none => simp only [Bool.not_true, Bool.false_eq_true, if_false]; exact hX trivial
      | some p =>
        obtain ⟨ew, eh⟩ := p
        by_cases hd : w = ew ∧ h = eh
        · simp only [hd, and_self, decide_true, Bool.not_true, Bool.false_eq_true, if_false]; exact hX hd
        · simp only [hd, decide_false, Bool.not_false, if_true]; exact Tri.fail
    apply hdim
    intro hdims
    apply Tri.bind
    apply Tri.mono (sanitizeImageData_rel s kind L x.2 k w h p1 hk h1k c hL1 hcur1)
    intro r2 p2 ⟨hk2, hL2, hcur2, himg⟩
    apply Tri.mono (close_chunk s kind L start r2 k p2 cs c hk h1k hL2 (ho.recur s hcur2))
    intro r3 p3 ⟨hk3, hL3, hcl⟩
    refine ⟨(hk1.trans hk2).trans hk3, hL3, hcl, ?_⟩
    refine ⟨by omega, w, h, ?_, hdims, ?_⟩
    · rw [← hpos, ← hx1]; exact hp
    · rw [← hpos, ← hp1]; exact himg

/-- what the model has established about an ALPH chunk, for the dimensions it was checked against -/
def AlphSeen (L : Nat) (c : Chunk) (w h : Nat) : Prop :=
  1 ≤ c.len ∧ (s.get c.off).toNat &&& 29 = (s.get c.off).toNat ∧
  ((s.get c.off).toNat % 2 = 1 → ImgOk s L c (c.off + 1) w h)

theorem alphChunk_rel (L start : Nat) (r : RS) (k pos : Nat) (cs : List Chunk) (c : Chunk) (w h : Nat)
    (hk : k ≤ 2) (h1k : 1 ≤ k) (hL : limOf r k pos = L) (ho : Open s L start r k pos cs c) (hpos : pos = c.off) :
    Tri (idealOps s kind) (alphChunk r k w h) pos
      (fun r' pos' => Keeps k r pos r' pos' ∧ limOf r' k pos' = L ∧ Closed s L start r' k pos' (cs ++ [c]) ∧
        AlphSeen s L c w h) := by
  unfold alphChunk
  apply Tri.bind
  apply Tri.mono (parseData_rel s kind r k pos Generated.schemaAlphChunk hk c (by rw [hL]; exact ho.cur s))
  intro x p1 ⟨hk1, hp1, hle, ⟨rest, hparse⟩, hcur1⟩
  obtain ⟨vs, r1⟩ := x
  rw [hL] at hcur1
  rw [alph_len] at hp1 hle hparse
  rw [read_one] at hparse
  obtain ⟨hmask, hvs⟩ := alph_parse_spec _ vs rest hparse
  have hL1 : limOf r1 k p1 = L := by rw [hk1.lim h1k, hL]
  dsimp only at hk1 hcur1 hL1 ⊢
  have hflag : vs.getD 0 0 = (s.get pos).toNat := by rw [hvs]; rfl
  rw [hflag]
  apply Tri.bind
  have mid : Tri (idealOps s kind)
      (if (s.get pos).toNat % 2 = 1 then sanitizeImageData r1 k w h else Prog.done r1) p1
      (fun r2 p2 => Keeps k r1 p1 r2 p2 ∧ limOf r2 k p2 = L ∧ Cur L r2 k p2 c ∧
        ((s.get pos).toNat % 2 = 1 → ImgOk s L c p1 w h)) := by
    split
    · rename_i hodd
      apply Tri.mono (sanitizeImageData_rel s kind L r1 k w h p1 hk h1k c hL1 hcur1)
      intro r2 p2 ⟨a, b, c', d⟩
      exact ⟨a, b, c', fun _ => d⟩
    · rename_i hev
      exact Tri.done ⟨Keeps.refl _ _ _, hL1, hcur1, fun ho' => absurd ho' hev⟩
  apply Tri.mono mid
  intro r2 p2 ⟨hk2, hL2, hcur2, himg⟩
  apply Tri.mono (close_chunk s kind L start r2 k p2 cs c hk h1k hL2 (ho.recur s hcur2))
  intro r3 p3 ⟨hk3, hL3, hcl⟩
  refine ⟨(hk1.trans hk2).trans hk3, hL3, hcl, by omega, ?_, ?_⟩
  · rw [← hpos]; exact hmask
  · rw [← hpos, ← hp1]; exact himg

/-! ### the loops over unknown chunks -/

theorem cc_ALPH : cc 'A' 'L' 'P' 'H' = FALPH := by decide
theorem cc_ANIM : cc 'A' 'N' 'I' 'M' = FANIM := by decide
theorem cc_ANMF : cc 'A' 'N' 'M' 'F' = FANMF := by decide
theorem cc_EXIF : cc 'E' 'X' 'I' 'F' = FEXIF := by decide
theorem cc_ICCP : cc 'I' 'C' 'C' 'P' = FICCP := by decide
theorem cc_VP8 : cc 'V' 'P' '8' ' ' = FVP8 := by decide
theorem cc_VP8L : cc 'V' 'P' '8' 'L' = FVP8L := by decide
theorem cc_VP8X : cc 'V' 'P' '8' 'X' = FVP8X := by decide
theorem cc_XMP : cc 'X' 'M' 'P' ' ' = FXMP := by decide
theorem cc_RIFF : cc 'R' 'I' 'F' 'F' = FRIFF := by decide
theorem cc_WEBP : cc 'W' 'E' 'B' 'P' = FWEBP := by decide

theorem isUnknown_of (c : Chunk) (h : ¬ (knownTrailing c.name = true ∨ c.name = FANMF)) : isUnknown c = true := by
  unfold isUnknown known
  rw [cc_ALPH, cc_ANIM, cc_ANMF, cc_EXIF, cc_ICCP, cc_VP8, cc_VP8L, cc_VP8X, cc_XMP]
  unfold knownTrailing at h
  simp only [decide_eq_true_eq, not_or] at h
  obtain ⟨⟨h1, h2, h3, h4, h5, h6, h7, h8⟩, h9⟩ := h
  have e : ∀ x : Bytes, ¬ c.name = x → (c.name == x) = false := by
    intro x hx; exact beq_eq_false_iff_ne.mpr hx
  simp [List.contains, List.elem, e _ h1, e _ h2, e _ h3, e _ h4, e _ h5, e _ h6, e _ h7, e _ h8, e _ h9]

/-- the unknown-chunk loop: when it ends with a value, level `k` is idle at a boundary, the chunks it walked are all
    unknown (and allowed), and either the region or the input ends here -/
theorem trailing_rel (cfg : Config) (L start : Nat) (k : Nat) (inAnmf : Bool) (hk : k ≤ 2) (h1k : 1 ≤ k)
    (fuel : Nat) (r : RS) (pos : Nat) (cs : List Chunk) (hL : limOf r k pos = L) (hc : Closed s L start r k pos cs) :
    Tri (idealOps s kind) (trailingLoop cfg k inAnmf fuel r) pos
      (fun o pos' => ∀ r', o = some r' → Keeps k r pos r' pos' ∧ limOf r' k pos' = L ∧ r'.get k = .idle ∧
        ∃ us, CChain s L start pos' (cs ++ us) ∧ us.all isUnknown = true ∧
          (us.isEmpty = true ∨ cfg.allowUnknownChunks = true) ∧ (L ≤ pos' ∨ s.len ≤ pos')) := by
  induction fuel generalizing r pos cs with
  | zero => exact Tri.done (by intro r' h; cases h)
  | succ n ih =>
    unfold trailingLoop
    apply Tri.bind
    apply Tri.mono (more_chunks s kind L start r k pos cs hk h1k hL hc)
    intro x p1 ⟨hk1, hL1, hidle, hch, hmore⟩
    obtain ⟨more, r1⟩ := x
    dsimp only at hk1 hL1 hidle hmore ⊢
    split
    · rename_i hm
      have hmf : more = false := by simpa using hm
      refine Tri.done ?_
      intro r' hr'
      simp only [Option.some.injEq] at hr'
      subst hr'
      exact ⟨hk1, hL1, hidle, [], by rw [List.append_nil]; exact hch, rfl, Or.inl rfl, hmore hmf⟩
    · apply Tri.bind
      apply Tri.mono (next_header s kind L start r1 k p1 cs hk h1k hL1 (Or.inl ⟨hidle, hch⟩))
      intro y p2 ⟨hk2, hL2, c, hname, hopen, _, _⟩
      obtain ⟨name, r2⟩ := y
      dsimp only at hk2 hL2 hname hopen ⊢
      split
      · exact Tri.fail
      · rename_i hunk
        split
        · exact Tri.fail
        · rename_i hallow
          apply Tri.bind
          apply Tri.mono (close_chunk s kind L start r2 k p2 cs c hk h1k hL2 hopen)
          intro r3 p3 ⟨hk3, hL3, hcl⟩
          apply Tri.mono (ih r3 p3 (cs ++ [c]) hL3 hcl)
          intro o p4 ho r' hr'
          obtain ⟨a1, a2, a3, us, b1, b2, b3, b4⟩ := ho r' hr'
          refine ⟨((hk1.trans hk2).trans hk3).trans a1, a2, a3, c :: us, ?_, ?_, ?_, b4⟩
          · rw [List.append_assoc] at b1; exact b1
          · rw [List.all_cons, b2, Bool.and_true]
            apply isUnknown_of
            rw [← hname]
            simpa using hunk
          · right; simpa using hallow

/-! ### the image data of a still picture -/

/-- T1 for `read_header(name)`: the next chunk has the expected name -/
theorem next_named (L start : Nat) (r : RS) (k pos : Nat) (cs : List Chunk) (name : Bytes) (hk : k ≤ 2) (h1k : 1 ≤ k)
    (hL : limOf r k pos = L) (hc : Closed s L start r k pos cs) :
    Tri (idealOps s kind) (readHeader r k name) pos
      (fun r' pos' => Keeps k r pos r' pos' ∧ limOf r' k pos' = L ∧
        ∃ c, c.name = name ∧ Open s L start r' k pos' cs c ∧ pos' = c.off) := by
  apply Tri.mono (readHeader_rel s kind r k pos name hk hc.state)
  intro r' p1 ⟨hkeep, hpad, hrest⟩
  obtain ⟨g1, g2, g3, g4, g5⟩ := hrest
  rw [hL] at hpad g1
  refine ⟨hkeep, by rw [hkeep.lim h1k, hL], hdrAt s (bdry (r.get k) pos), g4, ?_, by rw [g3]; rfl⟩
  refine ⟨bdry (r.get k) pos, hc.bdry s h1k hpad, rfl, g1 h1k, ?_⟩
  rw [g3]
  apply cur_fresh s L r' k _ _ (fun _ => g1 h1k)
  rw [g5, g4]

/-- what the model has established about the image data of a still picture (or of one frame) -/
def StillImg (L : Nat) (hasAlph : Bool) (cw ch : Nat) (img : List Chunk) : Prop :=
  (hasAlph = true ∧ ∃ a v, img = [a, v] ∧ a.name = FALPH ∧ AlphSeen s L a cw ch ∧ v.name = FVP8) ∨
  (hasAlph = false ∧ ∃ v, img = [v] ∧ (v.name = FVP8 ∨ (v.name = FVP8L ∧ Vp8lSeen s L v (some (cw, ch)))))

theorem still_rel (L start : Nat) (r : RS) (pos : Nat) (cs : List Chunk) (flags cw ch : Nat)
    (hL : limOf r 1 pos = L) (hc : Closed s L start r 1 pos cs) :
    Tri (idealOps s kind) (sanitizeStill r flags cw ch) pos
      (fun r' pos' => Keeps 1 r pos r' pos' ∧ limOf r' 1 pos' = L ∧
        ∃ img, Closed s L start r' 1 pos' (cs ++ img) ∧ StillImg s L (flagSet flags 16) cw ch img) := by
  unfold sanitizeStill
  dsimp only
  apply Tri.bind
  -- the optional ALPH chunk
  have first : Tri (idealOps s kind)
      (if flagSet flags 16 = true then (readHeader r 1 FALPH).bind fun r => alphChunk r 1 cw ch else Prog.done r) pos
      (fun r1 p1 => Keeps 1 r pos r1 p1 ∧ limOf r1 1 p1 = L ∧
        ((flagSet flags 16 = true ∧ ∃ a, Closed s L start r1 1 p1 (cs ++ [a]) ∧ a.name = FALPH ∧ AlphSeen s L a cw ch) ∨
         (flagSet flags 16 = false ∧ Closed s L start r1 1 p1 cs))) := by
    split
    · rename_i hf
      apply Tri.bind
      apply Tri.mono (next_named s kind L start r 1 pos cs FALPH (by decide) (by decide) hL hc)
      intro r1 p1 ⟨k1, l1, a, an, ao, ap⟩
      apply Tri.mono (alphChunk_rel s kind L start r1 1 p1 cs a cw ch (by decide) (by decide) l1 ao ap)
      intro r2 p2 ⟨k2, l2, cl, seen⟩
      exact ⟨k1.trans k2, l2, Or.inl ⟨hf, a, cl, an, seen⟩⟩
    · rename_i hf
      exact Tri.done ⟨Keeps.refl _ _ _, hL, Or.inr ⟨by simpa using hf, hc⟩⟩
  apply Tri.mono first
  intro r1 p1 ⟨k1, l1, hcase⟩
  -- whichever case, level 1 is closed after some prefix `pre`
  have hpre : ∃ pre, Closed s L start r1 1 p1 (cs ++ pre) ∧
      ((flagSet flags 16 = true ∧ ∃ a, pre = [a] ∧ a.name = FALPH ∧ AlphSeen s L a cw ch) ∨
       (flagSet flags 16 = false ∧ pre = [])) := by
    rcases hcase with ⟨hf, a, cl, an, seen⟩ | ⟨hf, cl⟩
    · exact ⟨[a], cl, Or.inl ⟨hf, a, rfl, an, seen⟩⟩
    · exact ⟨[], by rw [List.append_nil]; exact cl, Or.inr ⟨hf, rfl⟩⟩
  obtain ⟨pre, hcl, hpre'⟩ := hpre
  apply Tri.bind
  apply Tri.mono (more_chunks s kind L start r1 1 p1 (cs ++ pre) (by decide) (by decide) l1 hcl)
  intro x p2 ⟨k2, l2, hidle, hch, _⟩
  obtain ⟨more, r2⟩ := x
  dsimp only at k2 l2 hidle ⊢
  split
  · exact Tri.fail
  · apply Tri.bind
    apply Tri.mono (next_header s kind L start r2 1 p2 (cs ++ pre) (by decide) (by decide) l2 (Or.inl ⟨hidle, hch⟩))
    intro y p3 ⟨k3, l3, v, hname, hopen, hp3, _⟩
    obtain ⟨name, r3⟩ := y
    dsimp only at k3 l3 hname hopen ⊢
    split
    · rename_i hv8
      apply Tri.mono (close_chunk s kind L start r3 1 p3 (cs ++ pre) v (by decide) (by decide) l3 hopen)
      intro r4 p4 ⟨k4, l4, cl4⟩
      refine ⟨((k1.trans k2).trans k3).trans k4, l4, pre ++ [v], by rw [← List.append_assoc]; exact cl4, ?_⟩
      rcases hpre' with ⟨hf, a, ha, an, seen⟩ | ⟨hf, ha⟩
      · exact Or.inl ⟨hf, a, v, by rw [ha]; rfl, an, seen, by rw [← hname]; exact hv8⟩
      · exact Or.inr ⟨hf, v, by rw [ha]; rfl, Or.inl (by rw [← hname]; exact hv8)⟩
    · split
      · rename_i hv8l
        split
        · exact Tri.fail
        · rename_i hnoalph
          apply Tri.mono (vp8lChunk_rel s kind L start r3 1 p3 (cs ++ pre) v (some (cw, ch)) (by decide) (by decide) l3 hopen hp3)
          intro r4 p4 ⟨k4, l4, cl4, seen4⟩
          refine ⟨((k1.trans k2).trans k3).trans k4, l4, pre ++ [v], by rw [← List.append_assoc]; exact cl4, ?_⟩
          rcases hpre' with ⟨hf, _⟩ | ⟨hf, ha⟩
          · exact absurd hf hnoalph
          · exact Or.inr ⟨hf, v, by rw [ha]; rfl, Or.inr ⟨by rw [← hname]; exact hv8l, seen4⟩⟩
      · exact Tri.fail

/-! ### peeked headers, and the view of a level from the level above -/

/-- the header of chunk `c` has been read ahead at level `k` (after the tiling `cs`) and is kept for the next call -/
def Peeked (L start : Nat) (r : RS) (k pos : Nat) (cs : List Chunk) (c : Chunk) : Prop :=
  ∃ e, CChain s L start e cs ∧ c = hdrAt s e ∧ e + 8 ≤ L ∧ r.get k = .peeking c.name c.len ∧ pos = c.off

/-- level `k` is between chunks, possibly with the next header already peeked -/
def Bnd (L start : Nat) (r : RS) (k pos : Nat) (cs : List Chunk) : Prop :=
  Closed s L start r k pos cs ∨ ∃ c, Peeked s L start r k pos cs c

theorem pos_le_lim (r : RS) (k pos : Nat) (h1k : 1 ≤ k) : pos ≤ limOf r k pos := by
  match k, h1k with
  | 1, _ => simp only [limOf, E0]; omega
  | k + 2, _ => simp only [limOf, E0, E1]; omega

/-- T4: peeking at the next header -/
theorem peek_next (L start : Nat) (r : RS) (k pos : Nat) (cs : List Chunk) (hk : k ≤ 2) (h1k : 1 ≤ k)
    (hL : limOf r k pos = L) (hc : Closed s L start r k pos cs) :
    Tri (idealOps s kind) (peekHeader r k) pos
      (fun x pos' => Keeps k r pos x.2 pos' ∧ limOf x.2 k pos' = L ∧
        ((x.1 = none ∧ x.2.get k = .idle ∧ CChain s L start pos' cs ∧ (L ≤ pos' ∨ s.len ≤ pos')) ∨
         (∃ c, x.1 = some c.name ∧ Peeked s L start x.2 k pos' cs c))) := by
  apply Tri.mono (peekHeader_rel s kind r k pos hk hc.state)
  intro x p1 ⟨hkeep, hpad, hrest⟩
  rw [hL] at hpad hrest
  have hch := hc.bdry s h1k hpad
  refine ⟨hkeep, by rw [hkeep.lim h1k, hL], ?_⟩
  rcases hrest with ⟨a1, a2, a3, a4⟩ | ⟨a1, a2, a3, a4, a5⟩
  · left
    refine ⟨a1, a2, by rw [a3]; exact hch, ?_⟩
    rw [a3]
    rcases a4 with ⟨_, b⟩ | b
    · exact Or.inl b
    · exact Or.inr b
  · right
    exact ⟨hdrAt s (bdry (r.get k) pos), a1, bdry (r.get k) pos, hch, rfl, a2 h1k, a5, by rw [a4]; rfl⟩

/-- peeking again returns the kept header -/
theorem peek_again (L start : Nat) (r : RS) (k pos : Nat) (cs : List Chunk) (c : Chunk) (hk : k ≤ 2) (h1k : 1 ≤ k)
    (hL : limOf r k pos = L) (hp : Peeked s L start r k pos cs c) :
    Tri (idealOps s kind) (peekHeader r k) pos
      (fun x pos' => Keeps k r pos x.2 pos' ∧ limOf x.2 k pos' = L ∧ Peeked s L start x.2 k pos' cs c ∧
        x.1 = some c.name) := by
  obtain ⟨e, e1, e2, e3, hst, e5⟩ := hp
  unfold peekHeader
  apply Tri.bind
  apply Tri.mono (readPadding_rel s kind r k pos hk)
  intro r1 p1 ⟨hkeep, hst1⟩
  rw [hst] at hst1
  obtain ⟨h1, h2⟩ := hst1
  rw [h1]
  dsimp only
  refine Tri.done ⟨hkeep, by rw [hkeep.lim h1k, hL], ⟨e, e1, e2, e3, h1, by rw [h2]; exact e5⟩, rfl⟩

/-- T5: `read_header(name)` on a peeked header opens that chunk (if it has the expected name) -/
theorem open_peeked (L start : Nat) (r : RS) (k pos : Nat) (cs : List Chunk) (c : Chunk) (name : Bytes) (hk : k ≤ 2)
    (h1k : 1 ≤ k) (hL : limOf r k pos = L) (hp : Peeked s L start r k pos cs c) :
    Tri (idealOps s kind) (readHeader r k name) pos
      (fun r' pos' => Keeps k r pos r' pos' ∧ limOf r' k pos' = L ∧ c.name = name ∧ Open s L start r' k pos' cs c ∧
        pos' = c.off) := by
  obtain ⟨e, e1, e2, e3, hst, e5⟩ := hp
  apply Tri.mono (readHeader_peeked s kind r k pos name hk c.name c.len hst)
  intro r' p1 ⟨hkeep, hp1, hn, hget⟩
  refine ⟨hkeep, by rw [hkeep.lim h1k, hL], hn, ⟨e, e1, e2, e3, ?_⟩, by rw [hp1]; exact e5⟩
  have : p1 = e + 8 := by rw [hp1, e5, e2]; rfl
  rw [this]
  have hc := cur_fresh s L r' k e (by rw [← e2]; exact hget) (fun _ => e3)
  rw [← e2] at hc
  exact hc

/-- T5': `read_any_header` on a peeked header -/
theorem open_peeked_any (L start : Nat) (r : RS) (k pos : Nat) (cs : List Chunk) (c : Chunk) (hk : k ≤ 2)
    (h1k : 1 ≤ k) (hL : limOf r k pos = L) (hp : Peeked s L start r k pos cs c) :
    Tri (idealOps s kind) (readAnyHeader r k) pos
      (fun x pos' => Keeps k r pos x.2 pos' ∧ limOf x.2 k pos' = L ∧ x.1 = c.name ∧ Open s L start x.2 k pos' cs c ∧
        pos' = c.off) := by
  obtain ⟨e, e1, e2, e3, hst, e5⟩ := hp
  apply Tri.mono (readAnyHeader_peeked s kind r k pos hk c.name c.len hst)
  intro x p1 ⟨hkeep, hp1, hn, hget⟩
  refine ⟨hkeep, by rw [hkeep.lim h1k, hL], hn, ⟨e, e1, e2, e3, ?_⟩, by rw [hp1]; exact e5⟩
  have : p1 = e + 8 := by rw [hp1, e5, e2]; rfl
  rw [this]
  have hc := cur_fresh s L x.2 k e (by rw [← e2]; exact hget) (fun _ => e3)
  rw [← e2] at hc
  exact hc

/-- the chunk a lower level is in, seen again after operations of a higher level: the same chunk, with the cursor
    where those operations left it -/
theorem cur_keep1 (L : Nat) (r r' : RS) (pos pos' : Nat) (c : Chunk) (hc : Cur L r 1 pos c)
    (hk : Keeps 2 r pos r' pos') (hle : pos' ≤ L) : Cur L r' 1 pos' c := by
  unfold Cur at hc ⊢
  have hE := hk.2.2.1 (by decide)
  obtain ⟨hid, hbp⟩ := hk.2.2.2.2 (by decide)
  simp only [RS.get] at hc ⊢
  simp only [E1] at hE
  cases h1 : r.l1 with
  | idle => rw [h1] at hc; exact hc.elim
  | peeking a b => rw [h1] at hc; exact hc.elim
  | body name len rem =>
    rw [h1] at hc hid hE hbp
    obtain ⟨c1, c2, c3, c4⟩ := hc
    have hbp' : bodyPos r'.l1 := hbp (by intro a b c' hh; simp only [CState.body.injEq] at hh; omega)
    cases h2 : r'.l1 with
    | idle => rw [h2] at hid; simp [chunkId] at hid
    | peeking a b => rw [h2] at hid; simp [chunkId] at hid
    | body n2 l2 rem2 =>
      rw [h2] at hid hE
      simp only [chunkId, Option.some.injEq, Prod.mk.injEq] at hid
      simp only [bodyRemaining] at hE
      exact ⟨by rw [hid.1]; exact c1, by rw [hid.2]; exact c2, by omega, hbp' _ _ _ h2⟩
    | padding n2 l2 =>
      rw [h2] at hid hE
      simp only [chunkId, Option.some.injEq, Prod.mk.injEq] at hid
      simp only [bodyRemaining] at hE
      exact ⟨by rw [hid.1]; exact c1, by rw [hid.2]; exact c2, by omega, fun _ => by omega⟩
  | padding name len =>
    rw [h1] at hc hid hE hbp
    obtain ⟨c1, c2, c3, c4⟩ := hc
    have hbp' : bodyPos r'.l1 := hbp (by intro a b c' hh; cases hh)
    have hp := hk.1
    cases h2 : r'.l1 with
    | idle => rw [h2] at hid; simp [chunkId] at hid
    | peeking a b => rw [h2] at hid; simp [chunkId] at hid
    | body n2 l2 rem2 =>
      rw [h2] at hE
      simp only [bodyRemaining] at hE
      have := hbp' _ _ _ h2
      omega
    | padding n2 l2 =>
      rw [h2] at hid hE
      simp only [chunkId, Option.some.injEq, Prod.mk.injEq] at hid
      simp only [bodyRemaining] at hE
      exact ⟨by rw [hid.1]; exact c1, by rw [hid.2]; exact c2, by omega, fun _ => by omega⟩

/-! ### one animation frame -/

theorem read3 (p : Nat) : s.read p 3 = [s.get p, s.get (p + 1), s.get (p + 2)] := by
  simp [Stream.read, List.range_succ]

theorem read16 (p : Nat) : s.read p 16 = [s.get p, s.get (p+1), s.get (p+2), s.get (p+3), s.get (p+4), s.get (p+5),
    s.get (p+6), s.get (p+7), s.get (p+8), s.get (p+9), s.get (p+10), s.get (p+11), s.get (p+12), s.get (p+13),
    s.get (p+14), s.get (p+15)] := by
  simp [Stream.read, List.range_succ]

/-- T1 from a boundary where the next header may already have been peeked -/
theorem next_header_b (L start : Nat) (r : RS) (k pos : Nat) (cs : List Chunk) (hk : k ≤ 2) (h1k : 1 ≤ k)
    (hL : limOf r k pos = L) (hb : Bnd s L start r k pos cs) :
    Tri (idealOps s kind) (readAnyHeader r k) pos
      (fun x pos' => Keeps k r pos x.2 pos' ∧ limOf x.2 k pos' = L ∧
        ∃ c, x.1 = c.name ∧ Open s L start x.2 k pos' cs c ∧ pos' = c.off) := by
  rcases hb with hc | ⟨c, hp⟩
  · apply Tri.mono (next_header s kind L start r k pos cs hk h1k hL hc)
    intro x p1 ⟨a, b, c, d, e, f, _⟩
    exact ⟨a, b, c, d, e, f⟩
  · apply Tri.mono (open_peeked_any s kind L start r k pos cs c hk h1k hL hp)
    intro x p1 ⟨a, b, d, e, f⟩
    exact ⟨a, b, c, d, e, f⟩

/-- what the model has established about the chunks inside one ANMF frame of declared size fw x fh -/
def FrameBody (L2 : Nat) (alphaFlag allow : Bool) (fw fh : Nat) (inner : List Chunk) : Prop :=
  ∃ pre v us, inner = pre ++ [v] ++ us ∧ us.all isUnknown = true ∧ (us.isEmpty = true ∨ allow = true) ∧
    ((pre = [] ∧ (v.name = FVP8 ∨ (v.name = FVP8L ∧ Vp8lSeen s L2 v (some (fw, fh))))) ∨
     (∃ a, pre = [a] ∧ alphaFlag = true ∧ a.name = FALPH ∧ AlphSeen s L2 a fw fh ∧ v.name = FVP8))

/-- what the model has established about an ANMF chunk `c` of the region ending at `L1` -/
def FrameSeen (L1 : Nat) (c : Chunk) (alphaFlag allow : Bool) (e2 : Nat) : Prop :=
  16 ≤ c.len ∧ (s.get (c.off + 15)).toNat &&& 3 = (s.get (c.off + 15)).toNat ∧
  ∃ inner, CChain s (min (c.off + c.len) L1) (c.off + 16) e2 inner ∧ (min (c.off + c.len) L1 ≤ e2 ∨ s.len ≤ e2) ∧
    FrameBody s (min (c.off + c.len) L1) alphaFlag allow (1 + leToNat (s.read (c.off + 6) 3))
      (1 + leToNat (s.read (c.off + 9) 3)) inner

theorem frame_rel (cfg : Config) (L1 start : Nat) (r : RS) (pos : Nat) (cs : List Chunk) (c : Chunk)
    (flags cw ch fuel : Nat) (hL : limOf r 1 pos = L1) (hp : Peeked s L1 start r 1 pos cs c) :
    Tri (idealOps s kind) (sanitizeFrame cfg r flags cw ch fuel) pos
      (fun o pos' => ∀ r', o = some r' → Keeps 1 r pos r' pos' ∧ limOf r' 1 pos' = L1 ∧ c.name = FANMF ∧
        Open s L1 start r' 1 pos' cs c ∧ FrameSeen s L1 c (flagSet flags 16) cfg.allowUnknownChunks pos') := by
  unfold sanitizeFrame
  apply Tri.bind
  apply Tri.mono (open_peeked s kind L1 start r 1 pos cs c FANMF (by decide) (by decide) hL hp)
  intro r1 p1 ⟨k1, l1, hname, hopen1, hp1⟩
  subst hp1
  apply Tri.bind
  apply Tri.mono (parseData_rel s kind r1 1 c.off Generated.schemaAnmfChunk (by decide) c (by rw [l1]; exact hopen1.cur s))
  intro x q2 ⟨k2, hq2, hle2, ⟨rest, hparse⟩, hcur2⟩
  obtain ⟨vs, r2⟩ := x
  rw [l1] at hcur2
  rw [anmf_len'] at hq2 hle2 hparse
  subst hq2
  rw [read16] at hparse
  obtain ⟨hfl, hfw, hfh⟩ := anmf_parse_spec _ _ _ _ _ _ _ _ _ _ _ _ _ _ _ _ vs rest hparse
  dsimp only at k2 hcur2 ⊢
  rw [hfw, hfh]
  have hl2 : limOf r2 1 (c.off + 16) = L1 := by rw [k2.lim (by decide), l1]
  -- level 2 starts here
  have hE1 : E1 (r2.set 2 .idle) (c.off + 16) = c.off + c.len := by
    have hc := hcur2
    unfold Cur at hc
    simp only [RS.get] at hc
    simp only [E1, RS.set]
    cases h : r2.l1 with
    | idle => rw [h] at hc; exact hc.elim
    | peeking a b => rw [h] at hc; exact hc.elim
    | body n l rem => rw [h] at hc; simp only [bodyRemaining]; exact hc.2.2.1
    | padding n l => rw [h] at hc; simp only [bodyRemaining]; omega
  have hE0 : E0 (r2.set 2 .idle) (c.off + 16) = L1 := by
    have : E0 (r2.set 2 .idle) (c.off + 16) = E0 r2 (c.off + 16) := by simp [E0, RS.set]
    rw [this]; simpa [limOf] using hl2
  have hL2 : limOf (r2.set 2 .idle) 2 (c.off + 16) = min (c.off + c.len) L1 := by
    simp only [limOf, hE1, hE0]
  have hks : Keeps 2 r2 (c.off + 16) (r2.set 2 .idle) (c.off + 16) := keeps_set r2 2 (c.off + 16) .idle (by decide)
  have hcl0 : Closed s (min (c.off + c.len) L1) (c.off + 16) (r2.set 2 .idle) 2 (c.off + 16) [] :=
    Closed.start s _ _ 2 (c.off + 16) (by simp [RS.get, RS.set])
  apply Tri.bind
  -- the optional ALPH of the frame
  have alph : Tri (idealOps s kind)
      (if flagSet flags 16 = true then
        (peekHeader (r2.set 2 .idle) 2).bind fun x =>
          match x with
          | (nm, r) =>
            if nm = some FALPH then
              (readHeader r 2 FALPH).bind fun r =>
                (alphChunk r 2 (1 + leToNat [s.get (c.off + 6), s.get (c.off + 7), s.get (c.off + 8)])
                  (1 + leToNat [s.get (c.off + 9), s.get (c.off + 10), s.get (c.off + 11)])).bind fun r => Prog.done (true, r)
            else Prog.done (false, r)
       else Prog.done (false, r2.set 2 .idle)) (c.off + 16)
      (fun y p3 => Keeps 2 (r2.set 2 .idle) (c.off + 16) y.2 p3 ∧ limOf y.2 2 p3 = min (c.off + c.len) L1 ∧
        ((y.1 = false ∧ Bnd s (min (c.off + c.len) L1) (c.off + 16) y.2 2 p3 []) ∨
         (y.1 = true ∧ flagSet flags 16 = true ∧ ∃ a, Closed s (min (c.off + c.len) L1) (c.off + 16) y.2 2 p3 [a] ∧ a.name = FALPH ∧
            AlphSeen s (min (c.off + c.len) L1) a (1 + leToNat [s.get (c.off + 6), s.get (c.off + 7), s.get (c.off + 8)])
              (1 + leToNat [s.get (c.off + 9), s.get (c.off + 10), s.get (c.off + 11)])))) := by
    split
    · rename_i hfl16
      apply Tri.bind
      apply Tri.mono (peek_next s kind _ (c.off + 16) (r2.set 2 .idle) 2 (c.off + 16) [] (by decide) (by decide) hL2 hcl0)
      intro y p3 ⟨k3, l3, hy⟩
      obtain ⟨nm, r3⟩ := y
      dsimp only at k3 l3 hy ⊢
      rcases hy with ⟨y1, y2, y3, y4⟩ | ⟨a, y1, ypk⟩
      · -- nothing to peek at
        rw [y1]
        simp only [reduceCtorEq, if_false]
        exact Tri.done ⟨k3, l3, Or.inl ⟨rfl, Or.inl (Or.inl ⟨y2, y3⟩)⟩⟩
      · rw [y1]
        split
        · rename_i hal
          simp only [Option.some.injEq] at hal
          apply Tri.bind
          apply Tri.mono (open_peeked s kind _ (c.off + 16) r3 2 p3 [] a FALPH (by decide) (by decide) l3 ypk)
          intro r4 p4 ⟨k4, l4, _, hop4, hp4⟩
          apply Tri.bind
          apply Tri.mono (alphChunk_rel s kind _ (c.off + 16) r4 2 p4 [] a _ _ (by decide) (by decide) l4 hop4 hp4)
          intro r5 p5 ⟨k5, l5, cl5, seen5⟩
          exact Tri.done ⟨(k3.trans k4).trans k5, l5, Or.inr ⟨rfl, hfl16, a, cl5, hal, seen5⟩⟩
        · exact Tri.done ⟨k3, l3, Or.inl ⟨rfl, Or.inr ⟨a, ypk⟩⟩⟩
    · exact Tri.done ⟨Keeps.refl _ _ _, hL2, Or.inl ⟨rfl, Or.inl hcl0⟩⟩
  apply Tri.mono alph
  intro y p3 ⟨k3, l3, hy⟩
  obtain ⟨sawAlph, r3⟩ := y
  dsimp only at k3 l3 hy ⊢
  -- whichever way, level 2 is at a boundary after `pre`
  have hb3 : ∃ pre, Bnd s (min (c.off + c.len) L1) (c.off + 16) r3 2 p3 pre ∧
      ((sawAlph = false ∧ pre = []) ∨
       (sawAlph = true ∧ flagSet flags 16 = true ∧ ∃ a, pre = [a] ∧ a.name = FALPH ∧
          AlphSeen s (min (c.off + c.len) L1) a (1 + leToNat [s.get (c.off + 6), s.get (c.off + 7), s.get (c.off + 8)])
            (1 + leToNat [s.get (c.off + 9), s.get (c.off + 10), s.get (c.off + 11)]))) := by
    rcases hy with ⟨y1, y2⟩ | ⟨y1, y2, a, y3, y4, y5⟩
    · exact ⟨[], y2, Or.inl ⟨y1, rfl⟩⟩
    · exact ⟨[a], Or.inl y3, Or.inr ⟨y1, y2, a, rfl, y4, y5⟩⟩
  obtain ⟨pre, hbnd, hpre⟩ := hb3
  apply Tri.bind
  apply Tri.mono (next_header_b s kind _ (c.off + 16) r3 2 p3 pre (by decide) (by decide) l3 hbnd)
  intro z p4 ⟨k4, l4, v, hvname, hopen4, hp4⟩
  obtain ⟨name, r4⟩ := z
  dsimp only at k4 l4 hvname hopen4 ⊢
  apply Tri.bind
  have img : Tri (idealOps s kind)
      (if name = FVP8 then skipData r4 2
       else if name = FVP8L then
         if sawAlph = true then Prog.fail WErr.invalidChunkLayout
         else vp8lChunk r4 2 (some (1 + leToNat [s.get (c.off + 6), s.get (c.off + 7), s.get (c.off + 8)],
           1 + leToNat [s.get (c.off + 9), s.get (c.off + 10), s.get (c.off + 11)]))
       else Prog.fail WErr.invalidChunkLayout) p4
      (fun r5 p5 => Keeps 2 r4 p4 r5 p5 ∧ limOf r5 2 p5 = min (c.off + c.len) L1 ∧
        Closed s (min (c.off + c.len) L1) (c.off + 16) r5 2 p5 (pre ++ [v]) ∧
        (v.name = FVP8 ∨ (sawAlph = false ∧ v.name = FVP8L ∧ Vp8lSeen s (min (c.off + c.len) L1) v
          (some (1 + leToNat [s.get (c.off + 6), s.get (c.off + 7), s.get (c.off + 8)],
            1 + leToNat [s.get (c.off + 9), s.get (c.off + 10), s.get (c.off + 11)]))))) := by
    split
    · rename_i hv8
      apply Tri.mono (close_chunk s kind _ (c.off + 16) r4 2 p4 pre v (by decide) (by decide) l4 hopen4)
      intro r5 p5 ⟨a, b, cl⟩
      exact ⟨a, b, cl, Or.inl (by rw [← hvname]; exact hv8)⟩
    · split
      · rename_i hv8l
        split
        · exact Tri.fail
        · rename_i hns
          apply Tri.mono (vp8lChunk_rel s kind _ (c.off + 16) r4 2 p4 pre v _ (by decide) (by decide) l4 hopen4 hp4)
          intro r5 p5 ⟨a, b, cl, seen⟩
          exact ⟨a, b, cl, Or.inr ⟨by simpa using hns, by rw [← hvname]; exact hv8l, seen⟩⟩
      · exact Tri.fail
  apply Tri.mono img
  intro r5 p5 ⟨k5, l5, cl5, himg⟩
  apply Tri.mono (trailing_rel s kind cfg _ (c.off + 16) 2 true (by decide) (by decide) fuel r5 p5 (pre ++ [v]) l5 cl5)
  intro o p6 ho r' hr'
  obtain ⟨k6, l6, hidle6, us, hch6, hunk, hallow, hend⟩ := ho r' hr'
  -- back on level 1
  have hk2all : Keeps 2 r2 (c.off + 16) r' p6 := (((hks.trans k3).trans k4).trans k5).trans k6
  have hE0' : E0 r' p6 = L1 := by
    rw [hk2all.2.1 (by decide)]
    simpa [limOf] using hl2
  have hlim1 : limOf r' 1 p6 = L1 := by simpa [limOf] using hE0'
  have hple : p6 ≤ L1 := by
    have := pos_le_lim r' 1 p6 (by decide)
    rw [hlim1] at this; exact this
  have hcur' : Cur L1 r' 1 p6 c := cur_keep1 L1 r2 r' (c.off + 16) p6 c hcur2 hk2all hple
  have hk1all : Keeps 1 r pos r' p6 := by
    refine ⟨by have := k1.1; have := k2.1; have := hk2all.1; omega, ?_, fun h => by omega, ?_, fun h => by omega⟩
    · intro _
      rw [hk2all.2.1 (by decide), k2.2.1 (by decide), k1.2.1 (by decide)]
    · intro _
      have a := hk2all.2.2.2.1 (by decide)
      have b := k2.2.2.2.1 (by decide)
      have c' := k1.2.2.2.1 (by decide)
      exact ⟨a.1.trans (b.1.trans c'.1), fun x => a.2 (b.2 (c'.2 x))⟩
  refine ⟨hk1all, hlim1, hname, hopen1.recur s hcur', by omega, hfl, pre ++ [v] ++ us, hch6, hend, ?_⟩
  · refine ⟨pre, v, us, rfl, hunk, hallow, ?_⟩
    rw [read3, read3]
    have e6 : c.off + 6 + 1 = c.off + 7 := by omega
    have e7 : c.off + 6 + 2 = c.off + 8 := by omega
    have e9 : c.off + 9 + 1 = c.off + 10 := by omega
    have e10 : c.off + 9 + 2 = c.off + 11 := by omega
    rw [e6, e7, e9, e10]
    rcases hpre with ⟨h1, h2⟩ | ⟨h1, h2, a, h3, h4, h5⟩
    · left
      refine ⟨h2, ?_⟩
      rcases himg with hv | ⟨_, hv, hs⟩
      · exact Or.inl hv
      · exact Or.inr ⟨hv, hs⟩
    · right
      rcases himg with hv | ⟨hf, _, _⟩
      · exact ⟨a, h3, h2, h4, h5, hv⟩
      · rw [h1] at hf; cases hf

/-! ### the frame loop -/

/-- an open chunk whose payload is consumed is a closed one -/
theorem Open.closed {L start : Nat} {r : RS} {k pos : Nat} {cs : List Chunk} {c : Chunk} (h1k : 1 ≤ k)
    (ho : Open s L start r k pos cs c) (n : Bytes) (l : Nat) (hst : r.get k = .padding n l) :
    Closed s L start r k pos (cs ++ [c]) ∧ pos = c.off + c.len := by
  obtain ⟨e, e1, e2, e3, e4⟩ := ho
  unfold Cur at e4
  rw [hst] at e4
  obtain ⟨c1, c2, c3, c4⟩ := e4
  exact ⟨Or.inr ⟨cs, c, e, rfl, e1, e2, e3, c4 h1k, by rw [hst, c1, c2], c3⟩, c3⟩

/-- peeking from inside a chunk: refused while payload is left; otherwise the chunk is closed first -/
theorem peek_open (L start : Nat) (r : RS) (k pos : Nat) (cs : List Chunk) (c : Chunk) (hk : k ≤ 2) (h1k : 1 ≤ k)
    (hL : limOf r k pos = L) (ho : Open s L start r k pos cs c) :
    Tri (idealOps s kind) (peekHeader r k) pos
      (fun x pos' => Keeps k r pos x.2 pos' ∧ limOf x.2 k pos' = L ∧ pos = c.off + c.len ∧
        ((x.1 = none ∧ x.2.get k = .idle ∧ CChain s L start pos' (cs ++ [c]) ∧ (L ≤ pos' ∨ s.len ≤ pos')) ∨
         (∃ c', x.1 = some c'.name ∧ Peeked s L start x.2 k pos' (cs ++ [c]) c'))) := by
  have hcur := ho.cur s
  unfold Cur at hcur
  cases hst : r.get k with
  | idle => rw [hst] at hcur; exact hcur.elim
  | peeking a b => rw [hst] at hcur; exact hcur.elim
  | body n l rem =>
    -- `peek_header` inside a body is InvalidInput
    unfold peekHeader
    apply Tri.bind
    apply Tri.mono (readPadding_rel s kind r k pos hk)
    intro r1 p1 ⟨_, hst1⟩
    rw [hst] at hst1
    rw [hst1.1]
    exact Tri.fail
  | padding n l =>
    obtain ⟨hcl, hpos⟩ := ho.closed s h1k n l hst
    apply Tri.mono (peek_next s kind L start r k pos (cs ++ [c]) hk h1k hL hcl)
    intro x p1 ⟨a, b, d⟩
    exact ⟨a, b, hpos, d⟩

/-- a finished frame: an ANMF chunk whose inner chunks have been walked up to its end -/
def FrameDone (L1 : Nat) (alphaFlag allow : Bool) (c : Chunk) : Prop :=
  c.name = FANMF ∧ FrameSeen s L1 c alphaFlag allow (c.off + c.len)

/-- how the frame loop leaves level 1: at the end of the region (or of the input), or with a peeked header that is
    not an ANMF -/
def LoopExit (L1 start : Nat) (r' : RS) (pos' : Nat) (all : List Chunk) : Prop :=
  (r'.get 1 = .idle ∧ CChain s L1 start pos' all ∧ (L1 ≤ pos' ∨ s.len ≤ pos')) ∨
  (∃ c', c'.name ≠ FANMF ∧ Peeked s L1 start r' 1 pos' all c')

/-- the frame loop, re-entered after a frame whose ANMF chunk `c` is still open at level 1 -/
theorem frames_from_open (cfg : Config) (L1 start : Nat) (flags cw ch fuel n : Nat) (r : RS) (pos : Nat)
    (prev : List Chunk) (c : Chunk) (hL : limOf r 1 pos = L1) (ho : Open s L1 start r 1 pos prev c)
    (hn : c.name = FANMF) (hseen : FrameSeen s L1 c (flagSet flags 16) cfg.allowUnknownChunks pos) :
    Tri (idealOps s kind) (framesLoop cfg flags cw ch fuel n r) pos
      (fun o pos' => ∀ r', o = some r' → Keeps 1 r pos r' pos' ∧ limOf r' 1 pos' = L1 ∧
        ∃ fs', (∀ f ∈ c :: fs', FrameDone s L1 (flagSet flags 16) cfg.allowUnknownChunks f) ∧
          LoopExit s L1 start r' pos' (prev ++ c :: fs')) := by
  induction n generalizing r pos prev c with
  | zero => exact Tri.done (by intro r' h; cases h)
  | succ m ih =>
    unfold framesLoop
    apply Tri.bind
    apply Tri.mono (peek_open s kind L1 start r 1 pos prev c (by decide) (by decide) hL ho)
    intro x p1 ⟨k1, l1, hpos, hx⟩
    obtain ⟨nm, r1⟩ := x
    dsimp only at k1 l1 hx ⊢
    have hdone : FrameDone s L1 (flagSet flags 16) cfg.allowUnknownChunks c := ⟨hn, by rw [← hpos]; exact hseen⟩
    rcases hx with ⟨x1, x2, x3, x4⟩ | ⟨c', x1, xpk⟩
    · rw [x1]
      simp only [reduceCtorEq, if_false]
      refine Tri.done ?_
      intro r' hr'
      simp only [Option.some.injEq] at hr'
      subst hr'
      refine ⟨k1, l1, [], ?_, Or.inl ⟨x2, x3, x4⟩⟩
      intro f hf
      simp only [List.mem_singleton] at hf
      rw [hf]; exact hdone
    · rw [x1]
      split
      · rename_i hanmf
        simp only [Option.some.injEq] at hanmf
        apply Tri.bind
        apply Tri.mono (frame_rel s kind cfg L1 start r1 p1 (prev ++ [c]) c' flags cw ch fuel l1 xpk)
        intro o p2 ho2
        cases o with
        | none => exact Tri.done (by intro r' h; cases h)
        | some r2 =>
          obtain ⟨k2, l2, hn2, hop2, hseen2⟩ := ho2 r2 rfl
          dsimp only
          apply Tri.mono (ih r2 p2 (prev ++ [c]) c' l2 hop2 hn2 hseen2)
          intro o3 p3 ho3 r' hr'
          obtain ⟨k3, l3, fs', hall, hexit⟩ := ho3 r' hr'
          refine ⟨(k1.trans k2).trans k3, l3, c' :: fs', ?_, ?_⟩
          · intro f hf
            rcases List.mem_cons.mp hf with e | e
            · rw [e]; exact hdone
            · exact hall f e
          · have : prev ++ c :: c' :: fs' = prev ++ [c] ++ c' :: fs' := by simp
            rw [this]; exact hexit
      · rename_i hno
        refine Tri.done ?_
        intro r' hr'
        simp only [Option.some.injEq] at hr'
        subst hr'
        refine ⟨k1, l1, [], ?_, Or.inr ⟨c', ?_, xpk⟩⟩
        · intro f hf
          simp only [List.mem_singleton] at hf
          rw [hf]; exact hdone
        · intro h; exact hno (by rw [h])

/-- the frame loop entered on a peeked ANMF header -/
theorem frames_from_peeked (cfg : Config) (L1 start : Nat) (flags cw ch fuel n : Nat) (r : RS) (pos : Nat)
    (done : List Chunk) (c : Chunk) (hL : limOf r 1 pos = L1) (hp : Peeked s L1 start r 1 pos done c)
    (hn : c.name = FANMF) :
    Tri (idealOps s kind) (framesLoop cfg flags cw ch fuel n r) pos
      (fun o pos' => ∀ r', o = some r' → Keeps 1 r pos r' pos' ∧ limOf r' 1 pos' = L1 ∧
        ∃ fs', (∀ f ∈ c :: fs', FrameDone s L1 (flagSet flags 16) cfg.allowUnknownChunks f) ∧
          LoopExit s L1 start r' pos' (done ++ c :: fs')) := by
  cases n with
  | zero => exact Tri.done (by intro r' h; cases h)
  | succ m =>
    unfold framesLoop
    apply Tri.bind
    apply Tri.mono (peek_again s kind L1 start r 1 pos done c (by decide) (by decide) hL hp)
    intro x p1 ⟨k1, l1, hpk, hnm⟩
    obtain ⟨nm, r1⟩ := x
    dsimp only at k1 l1 hpk hnm ⊢
    rw [hnm, hn]
    simp only [if_true]
    apply Tri.bind
    apply Tri.mono (frame_rel s kind cfg L1 start r1 p1 done c flags cw ch fuel l1 hpk)
    intro o p2 ho2
    cases o with
    | none => exact Tri.done (by intro r' h; cases h)
    | some r2 =>
      obtain ⟨k2, l2, hn2, hop2, hseen2⟩ := ho2 r2 rfl
      dsimp only
      apply Tri.mono (frames_from_open s kind cfg L1 start flags cw ch fuel m r2 p2 done c l2 hop2 hn2 hseen2)
      intro o3 p3 ho3 r' hr'
      obtain ⟨k3, l3, fs', hall, hexit⟩ := ho3 r' hr'
      exact ⟨(k1.trans k2).trans k3, l3, fs', hall, hexit⟩

/-- ANIM and the frames -/
theorem animated_rel (cfg : Config) (L1 start : Nat) (r : RS) (pos : Nat) (cs : List Chunk) (flags cw ch fuel : Nat)
    (hL : limOf r 1 pos = L1) (hc : Closed s L1 start r 1 pos cs) :
    Tri (idealOps s kind) (sanitizeAnimated cfg r flags cw ch fuel) pos
      (fun o pos' => ∀ r', o = some r' → Keeps 1 r pos r' pos' ∧ limOf r' 1 pos' = L1 ∧
        ∃ anim f fs, anim.name = FANIM ∧ anim.len = 6 ∧
          (∀ x ∈ f :: fs, FrameDone s L1 (flagSet flags 16) cfg.allowUnknownChunks x) ∧
          LoopExit s L1 start r' pos' (cs ++ anim :: f :: fs)) := by
  unfold sanitizeAnimated
  apply Tri.bind
  apply Tri.mono (next_named s kind L1 start r 1 pos cs FANIM (by decide) (by decide) hL hc)
  intro r1 p1 ⟨k1, l1, anim, han, hop1, hp1⟩
  apply Tri.bind
  apply Tri.mono (parseData_rel s kind r1 1 p1 Generated.schemaAnimChunk (by decide) anim (by rw [l1]; exact hop1.cur s))
  intro x p2 ⟨k2, hp2, hle2, _, hcur2⟩
  obtain ⟨vs, r2⟩ := x
  rw [l1] at hcur2
  rw [anim_len] at hp2 hle2
  dsimp only at k2 hcur2 ⊢
  have l2 : limOf r2 1 p2 = L1 := by rw [k2.lim (by decide), l1]
  apply Tri.bind
  apply Tri.mono (peek_open s kind L1 start r2 1 p2 cs anim (by decide) (by decide) l2 (hop1.recur s hcur2))
  intro y p3 ⟨k3, l3, hpos, hy⟩
  obtain ⟨nm, r3⟩ := y
  dsimp only at k3 l3 hy ⊢
  have hlen : anim.len = 6 := by omega
  rcases hy with ⟨y1, _⟩ | ⟨c', y1, ypk⟩
  · rw [y1]
    simp only [reduceCtorEq, if_false]
    exact Tri.fail
  · rw [y1]
    split
    · rename_i hanmf
      simp only [Option.some.injEq] at hanmf
      apply Tri.mono (frames_from_peeked s kind cfg L1 start flags cw ch fuel fuel r3 p3 (cs ++ [anim]) c' l3 ypk hanmf)
      intro o p4 ho r' hr'
      obtain ⟨k4, l4, fs', hall, hexit⟩ := ho r' hr'
      refine ⟨((k1.trans k2).trans k3).trans k4, l4, anim, c', fs', han, hlen, hall, ?_⟩
      have : cs ++ anim :: c' :: fs' = cs ++ [anim] ++ c' :: fs' := by simp
      rw [this]; exact hexit
    · exact Tri.fail

/-! ### the extended format -/

theorem LoopExit.bnd {L1 start : Nat} {r : RS} {pos : Nat} {all : List Chunk} (h : LoopExit s L1 start r pos all) :
    Bnd s L1 start r 1 pos all := by
  rcases h with ⟨a, b, _⟩ | ⟨c, _, hp⟩
  · exact Or.inl (Or.inl ⟨a, b⟩)
  · exact Or.inr ⟨c, hp⟩

/-- T1 for `read_header(name)` from a boundary where the next header may already have been peeked -/
theorem next_named_b (L start : Nat) (r : RS) (k pos : Nat) (cs : List Chunk) (name : Bytes) (hk : k ≤ 2) (h1k : 1 ≤ k)
    (hL : limOf r k pos = L) (hb : Bnd s L start r k pos cs) :
    Tri (idealOps s kind) (readHeader r k name) pos
      (fun r' pos' => Keeps k r pos r' pos' ∧ limOf r' k pos' = L ∧
        ∃ c, c.name = name ∧ Open s L start r' k pos' cs c ∧ pos' = c.off) := by
  rcases hb with hc | ⟨c, hp⟩
  · exact next_named s kind L start r k pos cs name hk h1k hL hc
  · apply Tri.mono (open_peeked s kind L start r k pos cs c name hk h1k hL hp)
    intro r' p1 ⟨a, b, d, e, f⟩
    exact ⟨a, b, c, d, e, f⟩

/-- an optional metadata chunk: `read_header(name)` + `skip_data` when the flag says it is there -/
theorem opt_rel (L start : Nat) (r : RS) (pos : Nat) (cs : List Chunk) (present : Bool) (name : Bytes)
    (hL : limOf r 1 pos = L) (hb : Bnd s L start r 1 pos cs) :
    Tri (idealOps s kind) (if present = true then (readHeader r 1 name).bind fun r => skipData r 1 else Prog.done r) pos
      (fun r' pos' => Keeps 1 r pos r' pos' ∧ limOf r' 1 pos' = L ∧
        ((present = true ∧ ∃ x, x.name = name ∧ Closed s L start r' 1 pos' (cs ++ [x])) ∨
         (present = false ∧ r' = r ∧ pos' = pos))) := by
  split
  · rename_i hp
    apply Tri.bind
    apply Tri.mono (next_named_b s kind L start r 1 pos cs name (by decide) (by decide) hL hb)
    intro r1 p1 ⟨k1, l1, x, hx, hop, _⟩
    apply Tri.mono (close_chunk s kind L start r1 1 p1 cs x (by decide) (by decide) l1 hop)
    intro r2 p2 ⟨k2, l2, hcl⟩
    exact ⟨k1.trans k2, l2, Or.inl ⟨hp, x, hx, hcl⟩⟩
  · rename_i hp
    exact Tri.done ⟨Keeps.refl _ _ _, hL, Or.inr ⟨by simpa using hp, rfl, rfl⟩⟩

/-- what the model has established about the chunks that follow VP8X -/
def ExtBody (L1 : Nat) (flags cw ch : Nat) (allow : Bool) (body : List Chunk) : Prop :=
  ∃ iccp img exif xmp,
    body = iccp ++ img ++ exif ++ xmp ∧
    ((flagSet flags 32 = true ∧ ∃ x, iccp = [x] ∧ x.name = FICCP) ∨ (flagSet flags 32 = false ∧ iccp = [])) ∧
    ((flagSet flags 2 = true ∧ ∃ anim f fs, img = anim :: f :: fs ∧ anim.name = FANIM ∧ anim.len = 6 ∧
        ∀ x ∈ f :: fs, FrameDone s L1 (flagSet flags 16) allow x) ∨
     (flagSet flags 2 = false ∧ StillImg s L1 (flagSet flags 16) cw ch img)) ∧
    ((flagSet flags 8 = true ∧ ∃ x, exif = [x] ∧ x.name = FEXIF) ∨ (flagSet flags 8 = false ∧ exif = [])) ∧
    ((flagSet flags 4 = true ∧ ∃ x, xmp = [x] ∧ x.name = FXMP) ∨ (flagSet flags 4 = false ∧ xmp = []))

theorem extended_rel (cfg : Config) (L1 start : Nat) (r : RS) (pos : Nat) (cs : List Chunk) (flags cw ch fuel : Nat)
    (hL : limOf r 1 pos = L1) (hc : Closed s L1 start r 1 pos cs) :
    Tri (idealOps s kind) (sanitizeExtended cfg r flags cw ch fuel) pos
      (fun o pos' => ∀ r', o = some r' → Keeps 1 r pos r' pos' ∧ limOf r' 1 pos' = L1 ∧
        ∃ body, Bnd s L1 start r' 1 pos' (cs ++ body) ∧ ExtBody s L1 flags cw ch cfg.allowUnknownChunks body) := by
  unfold sanitizeExtended
  apply Tri.bind
  apply Tri.mono (opt_rel s kind L1 start r pos cs (flagSet flags 32) FICCP hL (Or.inl hc))
  intro r1 p1 ⟨k1, l1, hiccp⟩
  have h1 : ∃ iccp, Closed s L1 start r1 1 p1 (cs ++ iccp) ∧
      ((flagSet flags 32 = true ∧ ∃ x, iccp = [x] ∧ x.name = FICCP) ∨ (flagSet flags 32 = false ∧ iccp = [])) := by
    rcases hiccp with ⟨hp, x, hx, hcl⟩ | ⟨hp, e1, e2⟩
    · exact ⟨[x], hcl, Or.inl ⟨hp, x, rfl, hx⟩⟩
    · subst e1 e2; exact ⟨[], by rw [List.append_nil]; exact hc, Or.inr ⟨hp, rfl⟩⟩
  obtain ⟨iccp, hcl1, hic⟩ := h1
  apply Tri.bind
  have mid : Tri (idealOps s kind)
      (if flagSet flags 2 = true then sanitizeAnimated cfg r1 flags cw ch fuel
       else (sanitizeStill r1 flags cw ch).bind fun r => Prog.done (some r)) p1
      (fun o p2 => ∀ r2, o = some r2 → Keeps 1 r1 p1 r2 p2 ∧ limOf r2 1 p2 = L1 ∧
        ∃ img, Bnd s L1 start r2 1 p2 (cs ++ iccp ++ img) ∧
          ((flagSet flags 2 = true ∧ ∃ anim f fs, img = anim :: f :: fs ∧ anim.name = FANIM ∧ anim.len = 6 ∧
              ∀ x ∈ f :: fs, FrameDone s L1 (flagSet flags 16) cfg.allowUnknownChunks x) ∨
           (flagSet flags 2 = false ∧ StillImg s L1 (flagSet flags 16) cw ch img))) := by
    split
    · rename_i hf2
      apply Tri.mono (animated_rel s kind cfg L1 start r1 p1 (cs ++ iccp) flags cw ch fuel l1 hcl1)
      intro o p2 ho r2 hr2
      obtain ⟨k2, l2, anim, f, fs, a1, a2, a3, a4⟩ := ho r2 hr2
      exact ⟨k2, l2, anim :: f :: fs, a4.bnd s, Or.inl ⟨hf2, anim, f, fs, rfl, a1, a2, a3⟩⟩
    · rename_i hf2
      apply Tri.bind
      apply Tri.mono (still_rel s kind L1 start r1 p1 (cs ++ iccp) flags cw ch l1 hcl1)
      intro r2 p2 ⟨k2, l2, img, hcl2, himg⟩
      refine Tri.done ?_
      intro r' hr'
      simp only [Option.some.injEq] at hr'
      subst hr'
      exact ⟨k2, l2, img, Or.inl hcl2, Or.inr ⟨by simpa using hf2, himg⟩⟩
  apply Tri.mono mid
  intro o p2 ho
  cases o with
  | none => exact Tri.done (by intro r' h; cases h)
  | some r2 =>
    obtain ⟨k2, l2, img, hb2, himg⟩ := ho r2 rfl
    dsimp only
    apply Tri.bind
    apply Tri.mono (opt_rel s kind L1 start r2 p2 (cs ++ iccp ++ img) (flagSet flags 8) FEXIF l2 hb2)
    intro r3 p3 ⟨k3, l3, hexif⟩
    have h3 : ∃ exif, Bnd s L1 start r3 1 p3 (cs ++ iccp ++ img ++ exif) ∧
        ((flagSet flags 8 = true ∧ ∃ x, exif = [x] ∧ x.name = FEXIF) ∨ (flagSet flags 8 = false ∧ exif = [])) := by
      rcases hexif with ⟨hp, x, hx, hcl⟩ | ⟨hp, e1, e2⟩
      · exact ⟨[x], Or.inl hcl, Or.inl ⟨hp, x, rfl, hx⟩⟩
      · subst e1 e2; exact ⟨[], by rw [List.append_nil]; exact hb2, Or.inr ⟨hp, rfl⟩⟩
    obtain ⟨exif, hb3, hex⟩ := h3
    apply Tri.bind
    apply Tri.mono (opt_rel s kind L1 start r3 p3 (cs ++ iccp ++ img ++ exif) (flagSet flags 4) FXMP l3 hb3)
    intro r4 p4 ⟨k4, l4, hxmp⟩
    have h4 : ∃ xmp, Bnd s L1 start r4 1 p4 (cs ++ iccp ++ img ++ exif ++ xmp) ∧
        ((flagSet flags 4 = true ∧ ∃ x, xmp = [x] ∧ x.name = FXMP) ∨ (flagSet flags 4 = false ∧ xmp = [])) := by
      rcases hxmp with ⟨hp, x, hx, hcl⟩ | ⟨hp, e1, e2⟩
      · exact ⟨[x], Or.inl hcl, Or.inl ⟨hp, x, rfl, hx⟩⟩
      · subst e1 e2; exact ⟨[], by rw [List.append_nil]; exact hb3, Or.inr ⟨hp, rfl⟩⟩
    obtain ⟨xmp, hb4, hxm⟩ := h4
    refine Tri.done ?_
    intro r' hr'
    simp only [Option.some.injEq] at hr'
    subst hr'
    refine ⟨((k1.trans k2).trans k3).trans k4, l4, iccp ++ img ++ exif ++ xmp, ?_, iccp, img, exif, xmp, rfl, hic, himg, hex, hxm⟩
    simpa [List.append_assoc] using hb4

/-- the unknown-chunk loop entered at a boundary where the next header may already have been peeked -/
theorem trailing_rel_b (cfg : Config) (L start : Nat) (inAnmf : Bool) (fuel : Nat) (r : RS) (pos : Nat)
    (cs : List Chunk) (hL : limOf r 1 pos = L) (hb : Bnd s L start r 1 pos cs) :
    Tri (idealOps s kind) (trailingLoop cfg 1 inAnmf fuel r) pos
      (fun o pos' => ∀ r', o = some r' → Keeps 1 r pos r' pos' ∧ limOf r' 1 pos' = L ∧ r'.get 1 = .idle ∧
        ∃ us, CChain s L start pos' (cs ++ us) ∧ us.all isUnknown = true ∧
          (us.isEmpty = true ∨ cfg.allowUnknownChunks = true) ∧ (L ≤ pos' ∨ s.len ≤ pos')) := by
  rcases hb with hc | ⟨c, hp⟩
  · exact trailing_rel s kind cfg L start 1 inAnmf (by decide) (by decide) fuel r pos cs hL hc
  · cases fuel with
    | zero => exact Tri.done (by intro r' h; cases h)
    | succ n =>
      unfold trailingLoop
      apply Tri.bind
      apply Tri.mono (hasRemaining_rel s kind r 1 pos (by decide))
      intro x p1 ⟨k1, hp1, _, hrest⟩
      obtain ⟨more, r1⟩ := x
      obtain ⟨e, e1, e2, e3, hst, e5⟩ := hp
      rw [hst] at hp1 hrest
      simp only [bdry] at hp1
      dsimp only at k1 hrest ⊢
      obtain ⟨hst1, hm⟩ := hrest
      subst hp1
      rw [hm]
      simp only [Bool.not_true, Bool.false_eq_true, if_false]
      have l1 : limOf r1 1 p1 = L := by rw [k1.lim (by decide), hL]
      have hpk1 : Peeked s L start r1 1 p1 cs c := ⟨e, e1, e2, e3, hst1, e5⟩
      apply Tri.bind
      apply Tri.mono (open_peeked_any s kind L start r1 1 p1 cs c (by decide) (by decide) l1 hpk1)
      intro y p2 ⟨k2, l2, hname, hopen, _⟩
      obtain ⟨name, r2⟩ := y
      dsimp only at k2 l2 hname hopen ⊢
      split
      · exact Tri.fail
      · rename_i hunk
        split
        · exact Tri.fail
        · rename_i hallow
          apply Tri.bind
          apply Tri.mono (close_chunk s kind L start r2 1 p2 cs c (by decide) (by decide) l2 hopen)
          intro r3 p3 ⟨k3, l3, hcl⟩
          apply Tri.mono (trailing_rel s kind cfg L start 1 inAnmf (by decide) (by decide) n r3 p3 (cs ++ [c]) l3 hcl)
          intro o p4 ho r' hr'
          obtain ⟨a1, a2, a3, us, b1, b2, b3, b4⟩ := ho r' hr'
          refine ⟨((k1.trans k2).trans k3).trans a1, a2, a3, c :: us, ?_, ?_, ?_, b4⟩
          · rw [List.append_assoc] at b1; exact b1
          · rw [List.all_cons, b2, Bool.and_true]
            apply isUnknown_of
            rw [← hname]
            simpa using hunk
          · right; simpa using hallow

/-! ### the file level -/

/-- the RIFF chunk level 0 is in, seen again after operations of level 1 (and 2) -/
theorem cur_keep0 (L : Nat) (r r' : RS) (pos pos' : Nat) (c : Chunk) (hc : Cur L r 0 pos c)
    (hk : Keeps 1 r pos r' pos') : Cur L r' 0 pos' c := by
  unfold Cur at hc ⊢
  have hE := hk.2.1 (by decide)
  obtain ⟨hid, hbp⟩ := hk.2.2.2.1 (by decide)
  simp only [RS.get] at hc ⊢
  simp only [E0] at hE
  have hp := hk.1
  cases h1 : r.l0 with
  | idle => rw [h1] at hc; exact hc.elim
  | peeking a b => rw [h1] at hc; exact hc.elim
  | body name len rem =>
    rw [h1] at hc hid hE hbp
    obtain ⟨c1, c2, c3, c4⟩ := hc
    have hbp' : bodyPos r'.l0 := hbp (by intro a b c' hh; simp only [CState.body.injEq] at hh; omega)
    cases h2 : r'.l0 with
    | idle => rw [h2] at hid; simp [chunkId] at hid
    | peeking a b => rw [h2] at hid; simp [chunkId] at hid
    | body n2 l2 rem2 =>
      rw [h2] at hid hE
      simp only [chunkId, Option.some.injEq, Prod.mk.injEq] at hid
      simp only [bodyRemaining] at hE
      exact ⟨by rw [hid.1]; exact c1, by rw [hid.2]; exact c2, by omega, hbp' _ _ _ h2⟩
    | padding n2 l2 =>
      rw [h2] at hid hE
      simp only [chunkId, Option.some.injEq, Prod.mk.injEq] at hid
      simp only [bodyRemaining] at hE
      exact ⟨by rw [hid.1]; exact c1, by rw [hid.2]; exact c2, by omega, fun h => by omega⟩
  | padding name len =>
    rw [h1] at hc hid hE hbp
    obtain ⟨c1, c2, c3, c4⟩ := hc
    have hbp' : bodyPos r'.l0 := hbp (by intro a b c' hh; cases hh)
    cases h2 : r'.l0 with
    | idle => rw [h2] at hid; simp [chunkId] at hid
    | peeking a b => rw [h2] at hid; simp [chunkId] at hid
    | body n2 l2 rem2 =>
      rw [h2] at hE
      simp only [bodyRemaining] at hE
      have := hbp' _ _ _ h2
      omega
    | padding n2 l2 =>
      rw [h2] at hid hE
      simp only [chunkId, Option.some.injEq, Prod.mk.injEq] at hid
      simp only [bodyRemaining] at hE
      exact ⟨by rw [hid.1]; exact c1, by rw [hid.2]; exact c2, by omega, fun h => by omega⟩

/-- inside a body, asking for a header is refused -/
theorem readAnyHeader_body (r : RS) (k pos : Nat) (hk : k ≤ 2) (n : Bytes) (l rem : Nat) (hst : r.get k = .body n l rem) :
    Tri (idealOps s kind) (readAnyHeader r k) pos (fun _ _ => False) := by
  unfold readAnyHeader
  apply Tri.bind
  apply Tri.mono (readPadding_rel s kind r k pos hk)
  intro r1 p1 ⟨_, hst1⟩
  rw [hst] at hst1
  dsimp only
  rw [hst1.1]
  exact Tri.fail

theorem readHeader_body (r : RS) (k pos : Nat) (name : Bytes) (hk : k ≤ 2) (n : Bytes) (l rem : Nat)
    (hst : r.get k = .body n l rem) : Tri (idealOps s kind) (readHeader r k name) pos (fun _ _ => False) := by
  unfold readHeader
  apply Tri.bind
  apply Tri.mono (readPadding_rel s kind r k pos hk)
  intro r1 p1 ⟨_, hst1⟩
  rw [hst] at hst1
  dsimp only
  rw [hst1.1]
  dsimp only
  apply Tri.bind
  apply Tri.mono (readAnyHeader_body s kind r1 k p1 hk n l rem hst1.1)
  intro _ _ h
  exact h.elim

theorem Tri.of_false {E α β : Type} {p : Prog E α} {f : α → Prog E β} {pos : Nat} {Q : β → Nat → Prop}
    (h : Tri (idealOps s kind) p pos (fun _ _ => False)) : Tri (idealOps s kind) (p.bind f) pos Q := by
  apply Tri.bind
  apply Tri.mono h
  intro _ _ hf
  exact hf.elim

/-- inside the body of a chunk that was not finished, the extended-format walk is refused -/
theorem extended_body (cfg : Config) (r : RS) (pos flags cw ch fuel : Nat) (n : Bytes) (l rem : Nat)
    (hst : r.get 1 = .body n l rem) :
    Tri (idealOps s kind) (sanitizeExtended cfg r flags cw ch fuel) pos (fun _ _ => False) := by
  unfold sanitizeExtended
  by_cases h32 : flagSet flags 32 = true
  · simp only [h32, if_true]
    apply Tri.of_false
    apply Tri.of_false
    exact readHeader_body s kind r 1 pos FICCP (by decide) n l rem hst
  · simp only [h32, Bool.false_eq_true, if_false]
    apply Tri.bind
    apply Tri.done
    apply Tri.of_false
    by_cases h2 : flagSet flags 2 = true
    · simp only [h2, if_true]
      unfold sanitizeAnimated
      apply Tri.of_false
      exact readHeader_body s kind r 1 pos FANIM (by decide) n l rem hst
    · simp only [h2, Bool.false_eq_true, if_false]
      apply Tri.of_false
      unfold sanitizeStill
      dsimp only
      by_cases h16 : flagSet flags 16 = true
      · simp only [h16, if_true]
        apply Tri.of_false
        apply Tri.of_false
        exact readHeader_body s kind r 1 pos FALPH (by decide) n l rem hst
      · simp only [h16, Bool.false_eq_true, if_false]
        apply Tri.bind
        apply Tri.done
        apply Tri.bind
        apply Tri.mono (hasRemaining_rel s kind r 1 pos (by decide))
        intro x p1 ⟨_, _, _, hrest⟩
        obtain ⟨more, r1⟩ := x
        rw [hst] at hrest
        dsimp only at hrest ⊢
        rw [hrest.2]
        simp only [Bool.not_true, Bool.false_eq_true, if_false]
        apply Tri.of_false
        exact readAnyHeader_body s kind r1 1 p1 (by decide) n l rem hrest.1

theorem read10 (p : Nat) : s.read p 10 = [s.get p, s.get (p+1), s.get (p+2), s.get (p+3), s.get (p+4), s.get (p+5),
    s.get (p+6), s.get (p+7), s.get (p+8), s.get (p+9)] := by
  simp [Stream.read, List.range_succ]

def TrailingFacts (allow : Bool) (us : List Chunk) : Prop :=
  us.all isUnknown = true ∧ (us.isEmpty = true ∨ allow = true)

/-- what the model has read out of a VP8X chunk -/
def Vp8xFacts (c : Chunk) (flags cw ch : Nat) : Prop :=
  c.len = 10 ∧ flags = (s.get c.off).toNat ∧ flags &&& 62 = flags ∧
  s.get (c.off + 1) = 0 ∧ s.get (c.off + 2) = 0 ∧ s.get (c.off + 3) = 0 ∧
  cw = 1 + leToNat [s.get (c.off + 4), s.get (c.off + 5), s.get (c.off + 6)] ∧
  ch = 1 + leToNat [s.get (c.off + 7), s.get (c.off + 8), s.get (c.off + 9)] ∧ ch * cw ≤ 4294967295

/-- what the model has established about the chunks of the RIFF body -/
def TopFacts (L1 : Nat) (allow : Bool) (all : List Chunk) : Prop :=
  ∃ first rest, all = first :: rest ∧
    ((first.name = FVP8 ∧ TrailingFacts allow rest) ∨
     (first.name = FVP8L ∧ Vp8lSeen s L1 first none ∧ TrailingFacts allow rest) ∨
     (first.name = FVP8X ∧ ∃ flags cw ch body us, rest = body ++ us ∧ Vp8xFacts s first flags cw ch ∧
        ExtBody s L1 flags cw ch allow body ∧ TrailingFacts allow us))

/-- everything the model has established about an accepted file -/
def FileFacts (allow : Bool) : Prop :=
  12 ≤ s.len ∧ s.read 0 4 = FRIFF ∧ s.read 8 4 = FWEBP ∧ 4 ≤ le32 s 4 ∧ le32 s 4 + 8 ≤ 4294967294 ∧
  le32 s 4 + 8 + le32 s 4 % 2 = s.len ∧ (le32 s 4 % 2 = 1 → s.get (8 + le32 s 4) = 0) ∧
  ∃ all, CChain s (8 + le32 s 4) 12 (8 + le32 s 4) all ∧ TopFacts s (8 + le32 s 4) allow all

theorem sanitizeP_rel (cfg : Config) (fuel : Nat) :
    Tri (idealOps s kind) (sanitizeP cfg fuel) 0 (fun o _ => o = some () → FileFacts s cfg.allowUnknownChunks) := by
  unfold sanitizeP
  dsimp only
  apply Tri.bind
  apply Tri.mono (readHeader_rel s kind {} 0 0 FRIFF (by decide) (Or.inl rfl))
  intro r1 p1 ⟨k1, _, hrest⟩
  have hb0 : bdry (({} : RS).get 0) 0 = 0 := rfl
  rw [hb0] at hrest
  obtain ⟨_, h8, hp1, hriff, hget1⟩ := hrest
  subst hp1
  -- the RIFF chunk, in absolute terms
  have hcur1 : Cur 0 r1 0 (0 + 8) (hdrAt s 0) := cur_fresh s 0 r1 0 0 (by rw [hget1, hriff]) (fun h => by omega)
  have hsize : (hdrAt s 0).len = le32 s 4 := rfl
  have hoff : (hdrAt s 0).off = 8 := rfl
  have hrl : riffLen r1.l0 = le32 s 4 + 8 := by
    have : r1.l0 = fresh FRIFF (hdrAt s 0).len := hget1
    rw [this, hsize]
    unfold fresh
    by_cases h0 : le32 s 4 = 0
    · simp [h0, riffLen]
    · simp [h0, riffLen]
  rw [hrl]
  apply Tri.bind
  apply Tri.mono (readData_rel s kind r1 0 4 (0 + 8) (by decide) (hdrAt s 0) (by simpa [limOf] using hcur1))
  intro x p2 ⟨k2, hx1, hp2, hle2, hlen2, hcur2⟩
  obtain ⟨b, r2⟩ := x
  dsimp only at k2 hx1 hcur2 ⊢
  subst hp2
  rw [hoff, hsize] at hle2
  split
  · exact Tri.fail
  rename_i hwebp
  split
  · exact Tri.fail
  rename_i hmax
  have hwebp' : s.read 8 4 = FWEBP := by
    have : b = FWEBP := by simpa using hwebp
    rw [← this, hx1]
  -- level 1 starts here
  have hcur2' : Cur 0 r2 0 12 (hdrAt s 0) := by simpa [limOf] using hcur2
  have hE0 : E0 (r2.set 1 .idle) 12 = 8 + le32 s 4 := by
    have hc := hcur2'
    unfold Cur at hc
    simp only [RS.get] at hc
    simp only [E0, RS.set]
    cases h : r2.l0 with
    | idle => rw [h] at hc; exact hc.elim
    | peeking a b => rw [h] at hc; exact hc.elim
    | body n l rem =>
      rw [h] at hc; simp only [bodyRemaining]
      have := hc.2.2.1; rw [hoff, hsize] at this; omega
    | padding n l =>
      rw [h] at hc; simp only [bodyRemaining]
      have := hc.2.2.1; rw [hoff, hsize] at this; omega
  have hL1 : limOf (r2.set 1 .idle) 1 12 = 8 + le32 s 4 := by simpa [limOf] using hE0
  have hks : Keeps 1 r2 12 (r2.set 1 .idle) 12 := keeps_set r2 1 12 .idle (by decide)
  have hcl0 : Closed s (8 + le32 s 4) 12 (r2.set 1 .idle) 1 12 [] := Closed.start s _ _ 1 12 (by simp [RS.get, RS.set])
  apply Tri.bind
  apply Tri.mono (next_header s kind _ 12 (r2.set 1 .idle) 1 12 [] (by decide) (by decide) hL1 hcl0)
  intro y q3 ⟨k3, l3, first, hfn, hop3, hq3, _⟩
  obtain ⟨name, r3⟩ := y
  dsimp only at k3 l3 hfn hop3 hq3 ⊢
  subst hq3
  apply Tri.bind
  have firstPart : Tri (idealOps s kind)
      (if name = FVP8 then (skipData r3 1).bind fun r => Prog.done (some r)
       else if name = FVP8L then (vp8lChunk r3 1 none).bind fun r => Prog.done (some r)
       else if name = FVP8X then
         (parseData r3 1 Generated.schemaVp8xChunk).bind fun x =>
           match x with
           | (vs, r) => sanitizeExtended cfg r (vs.getD 0 0) (vs.getD 2 0) (vs.getD 3 0) fuel
       else Prog.fail WErr.invalidChunkLayout) first.off
      (fun o p4 => ∀ r4, o = some r4 → Keeps 1 r3 first.off r4 p4 ∧ limOf r4 1 p4 = 8 + le32 s 4 ∧
        ∃ mid, Bnd s (8 + le32 s 4) 12 r4 1 p4 (first :: mid) ∧
          ((first.name = FVP8 ∧ mid = []) ∨
           (first.name = FVP8L ∧ Vp8lSeen s (8 + le32 s 4) first none ∧ mid = []) ∨
           (first.name = FVP8X ∧ ∃ flags cw ch, Vp8xFacts s first flags cw ch ∧
              ExtBody s (8 + le32 s 4) flags cw ch cfg.allowUnknownChunks mid))) := by
    split
    · rename_i hv
      apply Tri.bind
      apply Tri.mono (close_chunk s kind _ 12 r3 1 first.off [] first (by decide) (by decide) l3 hop3)
      intro r4 p4 ⟨k4, l4, hcl⟩
      refine Tri.done ?_
      intro r' hr'
      simp only [Option.some.injEq] at hr'
      subst hr'
      exact ⟨k4, l4, [], Or.inl hcl, Or.inl ⟨by rw [← hfn]; exact hv, rfl⟩⟩
    · split
      · rename_i hv
        apply Tri.bind
        apply Tri.mono (vp8lChunk_rel s kind _ 12 r3 1 first.off [] first none (by decide) (by decide) l3 hop3 rfl)
        intro r4 p4 ⟨k4, l4, hcl, hseen⟩
        refine Tri.done ?_
        intro r' hr'
        simp only [Option.some.injEq] at hr'
        subst hr'
        exact ⟨k4, l4, [], Or.inl hcl, Or.inr (Or.inl ⟨by rw [← hfn]; exact hv, hseen, rfl⟩)⟩
      · split
        · rename_i hv
          apply Tri.bind
          apply Tri.mono (parseData_rel s kind r3 1 first.off Generated.schemaVp8xChunk (by decide) first (by rw [l3]; exact hop3.cur s))
          intro z p4 ⟨k4, hp4, hle4, ⟨rest, hparse⟩, hcur4⟩
          obtain ⟨vs, r4⟩ := z
          rw [l3] at hcur4
          rw [vp8x_len] at hp4 hle4 hparse
          rw [read10] at hparse
          obtain ⟨q1, q2, q3, q4, q5, q6⟩ := vp8x_parse_spec _ _ _ _ _ _ _ _ _ _ vs rest hparse
          dsimp only at k4 hcur4 ⊢
          have l4 : limOf r4 1 p4 = 8 + le32 s 4 := by rw [k4.lim (by decide), l3]
          have hop4 := hop3.recur s hcur4
          -- the VP8X chunk must be finished
          cases hst : r4.get 1 with
          | idle => have := hcur4; unfold Cur at this; rw [hst] at this; exact this.elim
          | peeking a b => have := hcur4; unfold Cur at this; rw [hst] at this; exact this.elim
          | body n l rem =>
            apply Tri.mono (extended_body s kind cfg r4 p4 _ _ _ fuel n l rem hst)
            intro _ _ h; exact h.elim
          | padding n l =>
            obtain ⟨hcl4, hpos4⟩ := hop4.closed s (by decide) n l hst
            apply Tri.mono (extended_rel s kind cfg _ 12 r4 p4 ([] ++ [first]) _ _ _ fuel l4 hcl4)
            intro o p5 ho r' hr'
            obtain ⟨k5, l5, body, hbnd, hext⟩ := ho r' hr'
            refine ⟨k4.trans k5, l5, body, by simpa using hbnd, Or.inr (Or.inr ⟨by rw [← hfn]; exact hv, _, _, _, ?_, hext⟩)⟩
            rw [q5]
            simp only [List.getD_cons_zero, List.getD_cons_succ]
            exact ⟨by omega, rfl, q1, q2, q3, q4, rfl, rfl, q6⟩
        · exact Tri.fail
  apply Tri.mono firstPart
  intro o p4 ho
  cases o with
  | none => exact Tri.done (by intro h; cases h)
  | some r4 =>
    obtain ⟨k4, l4, mid, hbnd4, hmid⟩ := ho r4 rfl
    dsimp only
    apply Tri.bind
    apply Tri.mono (trailing_rel_b s kind cfg _ 12 false fuel r4 p4 (first :: mid) l4 hbnd4)
    intro o2 p5 ho2
    cases o2 with
    | none => exact Tri.done (by intro h; cases h)
    | some r5 =>
      obtain ⟨k5, l5, hidle5, us, hch5, hunk, hallow, hend5⟩ := ho2 r5 rfl
      dsimp only
      -- back on level 0
      have hk1all : Keeps 1 r2 12 r5 p5 := ((hks.trans k3).trans k4).trans k5
      have hcur5 : Cur 0 r5 0 p5 (hdrAt s 0) := cur_keep0 0 r2 r5 12 p5 (hdrAt s 0) hcur2' hk1all
      apply Tri.bind
      apply Tri.mono (hasRemaining_rel s kind r5 0 p5 (by decide))
      intro w p6 ⟨k6, hp6, hpad6, hrest6⟩
      obtain ⟨more, r6⟩ := w
      dsimp only at hrest6 ⊢
      split
      · exact Tri.fail
      · rename_i hmore
        have hmf : more = false := by simpa using hmore
        apply Tri.position
        apply Tri.streamLen
        split
        · rename_i hfin
          refine Tri.done ?_
          intro _
          -- the RIFF chunk is finished: level 0 is in its padding state
          have hc := hcur5
          unfold Cur at hc
          cases hst : r5.get 0 with
          | idle => rw [hst] at hc; exact hc.elim
          | peeking a b => rw [hst] at hc; exact hc.elim
          | body n l rem => rw [hst] at hrest6; rw [hrest6.2] at hmf; cases hmf
          | padding n l =>
            rw [hst] at hc hp6 hpad6 hrest6
            obtain ⟨c1, c2, c3, _⟩ := hc
            rw [hoff, hsize] at c3
            rw [hsize] at c2
            simp only [bdry] at hp6
            simp only [PadDone, PadOk] at hpad6
            have hsl : s.len ≤ p6 := by
              rcases hrest6.2.mp hmf with ⟨h0, _⟩ | h
              · omega
              · exact h
            have hp5 : p5 = 8 + le32 s 4 := c3
            refine ⟨by have := hlen2 (by decide); omega, hriff, hwebp', by omega, by unfold Generated.webpMaxFileLen at hmax; omega, by omega, ?_, first :: mid ++ us, ?_, ?_⟩
            · intro hodd
              rw [c2] at hpad6
              have := (hpad6 hodd).2
              rw [hp5] at this
              exact this
            · rw [hp5] at hch5; exact hch5
            · refine ⟨first, mid ++ us, rfl, ?_⟩
              rcases hmid with ⟨a, b⟩ | ⟨a, b, c⟩ | ⟨a, fl, cw, ch, b, c⟩
              · left; subst b; exact ⟨a, hunk, hallow⟩
              · right; left; subst c; exact ⟨a, b, hunk, hallow⟩
              · right; right; exact ⟨a, fl, cw, ch, mid, us, rfl, b, c, hunk, hallow⟩
        · exact Tri.fail

end
end MediaSan.Webp
