/-
  Size of what the lossless validator holds (C10, webpsan half): every prefix code it builds is a trie whose node
  count is bounded by twice its alphabet, whatever the payload says - the alphabet is 256, 40 or 280 + the colour-cache
  length (≤ 2048); the code-length vector never grows beyond the alphabet, and the canonical symbol table never beyond
  the vector.  Together with the fixed bit buffer (C19) that is all the state the model carries between two reads.
-/
import MediaSan.Lemmas.Vp8lSafe
namespace MediaSan.Vp8l
open MediaSan MediaSan.Generated

/-- number of leaves / of nodes (empty slots count as nodes) of a trie -/
def HTree.leaves : HTree → Nat
  | .empty => 0
  | .leaf _ => 1
  | .node z o => z.leaves + o.leaves

def HTree.nodes : HTree → Nat
  | .node z o => 1 + z.nodes + o.nodes
  | _ => 1

theorem add_leaves_count (t t' : HTree) (c : List Bool) (s : Nat) (h : t.add c s = .ok t') :
    t'.leaves = t.leaves + 1 := by
  induction c generalizing t t' with
  | nil =>
    cases t with
    | empty => simp only [HTree.add, Except.ok.injEq] at h; subst h; rfl
    | leaf x => simp [HTree.add] at h
    | node z o => simp [HTree.add] at h
  | cons b bs ih =>
    cases t with
    | empty =>
      simp only [HTree.add] at h
      cases hr : HTree.add .empty bs s with
      | error e => rw [hr] at h; simp at h
      | ok t2 =>
        rw [hr] at h
        simp only [Except.ok.injEq] at h
        have h2 := ih .empty t2 hr
        subst h
        cases b <;> simp [HTree.leaves, h2]
    | leaf x => simp [HTree.add] at h
    | node z o =>
      simp only [HTree.add] at h
      cases b with
      | true =>
        simp only [if_true] at h
        cases hr : HTree.add o bs s with
        | error e => rw [hr] at h; simp at h
        | ok t2 =>
          rw [hr] at h
          simp only [Except.ok.injEq] at h
          subst h
          simp only [HTree.leaves, ih o t2 hr]; omega
      | false =>
        simp only [Bool.false_eq_true, if_false] at h
        cases hr : HTree.add z bs s with
        | error e => rw [hr] at h; simp at h
        | ok t2 =>
          rw [hr] at h
          simp only [Except.ok.injEq] at h
          subst h
          simp only [HTree.leaves, ih z t2 hr]; omega

theorem buildTree_leaves_count (syms : List (Nat × List Bool)) (t t' : HTree) (h : buildTree syms t = .ok t') :
    t'.leaves = t.leaves + syms.length := by
  induction syms generalizing t with
  | nil => simp only [buildTree, Except.ok.injEq] at h; subst h; rfl
  | cons x xs ih =>
    obtain ⟨s, c⟩ := x
    simp only [buildTree] at h
    cases hr : t.add c s with
    | error e => rw [hr] at h; simp at h
    | ok t2 =>
      rw [hr] at h
      rw [ih t2 h, add_leaves_count t t2 c s hr, List.length_cons]; omega

/-- a finalized (complete) trie is a full binary tree: nodes = 2·leaves − 1 -/
theorem complete_nodes (t : HTree) (h : t.complete = true) : t.nodes + 1 = 2 * t.leaves := by
  induction t with
  | empty => simp [HTree.complete] at h
  | leaf s => rfl
  | node z o ihz iho =>
    simp only [HTree.complete, Bool.and_eq_true] at h
    have := ihz h.1; have := iho h.2
    simp only [HTree.nodes, HTree.leaves]; omega

/-! ### the canonical symbol table is no longer than the length vector -/

theorem insertBySym_length (x : Nat × Nat) (l : List (Nat × Nat)) : (insertBySym x l).length = l.length + 1 := by
  induction l with
  | nil => rfl
  | cons y ys ih =>
    simp only [insertBySym]
    split
    · simp
    · simp [ih]

theorem sortBySym_length (l : List (Nat × Nat)) : (sortBySym l).length = l.length := by
  induction l with
  | nil => rfl
  | cons x xs ih =>
    simp only [sortBySym, List.foldr_cons] at ih ⊢
    rw [insertBySym_length, ih]; rfl

theorem filter_lt_succ (l : List (Nat × Nat)) (m : Nat) :
    (l.filter (fun x => decide (x.2 < m))).length + (l.filter (·.2 == m)).length =
      (l.filter (fun x => decide (x.2 < m + 1))).length := by
  induction l with
  | nil => rfl
  | cons x xs ihx =>
    simp only [List.filter_cons]
    by_cases h1 : x.2 < m
    · have h2 : ¬ x.2 = m := by omega
      have h3 : x.2 < m + 1 := by omega
      simp [h1, h2, h3]; omega
    · by_cases h2 : x.2 = m
      · have h3 : x.2 < m + 1 := by omega
        simp [h2]; omega
      · have h3 : ¬ x.2 < m + 1 := by omega
        simp [h1, h2, h3]; omega

theorem buckets_length (l : List (Nat × Nat)) (m : Nat) :
    ((List.range m).flatMap fun len => sortBySym (l.filter (·.2 == len))).length =
      (l.filter (fun x => decide (x.2 < m))).length := by
  induction m with
  | zero =>
    have : ∀ l : List (Nat × Nat), (l.filter (fun _ => false)).length = 0 := by
      intro l; induction l with
      | nil => rfl
      | cons x xs ih => simpa [List.filter_cons] using ih
    simp [this]
  | succ m ih =>
    rw [List.range_succ, List.flatMap_append, List.length_append, ih]
    simp only [List.flatMap_cons, List.flatMap_nil, List.append_nil, sortBySym_length]
    exact filter_lt_succ l m

theorem sortByLenSym_length_le (l : List (Nat × Nat)) : (sortByLenSym l).length ≤ l.length := by
  simp only [sortByLenSym]
  rw [buckets_length]
  exact List.length_filter_le _ _

theorem assignCodes_length (rest : List (Nat × Nat)) (prev : List Bool) :
    (assignCodes rest prev).length = rest.length := by
  induction rest generalizing prev with
  | nil => rfl
  | cons x xs ih => obtain ⟨s, len⟩ := x; simp [assignCodes, ih]

theorem canonicalSymbols_length_le (lens : List (Nat × Nat)) (lenient : Bool) :
    (canonicalSymbols lens lenient).length ≤ lens.length := by
  have h1 := sortByLenSym_length_le lens
  have h2 := List.length_filter_le (fun x : Nat × Nat => decide (x.2 ≠ 0)) (sortByLenSym lens)
  simp only [canonicalSymbols]
  split
  · simp
  · rename_i e; rw [e] at h2; simp only [List.length_cons, List.length_nil] at h2 ⊢; omega
  · rename_i e; rw [e] at h2
    split <;> (simp only [List.length_cons, List.length_nil] at h2 ⊢; omega)
  · rename_i e; rw [e] at h2
    simp only [List.length_cons, assignCodes_length] at h2 ⊢; omega

/-- **size of a built code**: a code accepted by `CanonicalHuffmanTree::new` has at most 2·|lengths| − 1 trie nodes -/
theorem newCode_size (lens : List (Nat × Nat)) (lenient : Bool) (c : Code) (h : newCode lens lenient = .ok c) :
    c.tree.nodes + 1 ≤ 2 * lens.length := by
  simp only [newCode, fromSymbols] at h
  cases hcr : compileReadTree (canonicalSymbols lens lenient) with
  | error e => rw [hcr] at h; simp at h
  | ok t =>
    rw [hcr] at h
    simp only [Except.ok.injEq] at h
    subst h
    simp only [compileReadTree] at hcr
    cases hb : buildTree (canonicalSymbols lens lenient) .empty with
    | error e => rw [hb] at hcr; simp at hcr
    | ok t2 =>
      rw [hb] at hcr
      simp only at hcr
      split at hcr
      · rename_i hc
        simp only [Except.ok.injEq] at hcr
        subst hcr
        have hn := complete_nodes t2 hc
        have hl := buildTree_leaves_count _ _ _ hb
        have := canonicalSymbols_length_le lens lenient
        simp only [HTree.leaves, Nat.zero_add] at hl
        simp only
        omega
      · simp at hcr

/-- `match newCode … with | .ok c => pure c | .error e => fail e`, with the size bound -/
theorem newCode_sized (lens : List (Nat × Nat)) (lenient : Bool) (n : Nat) (hn : lens.length ≤ n) :
    BSafe (match newCode lens lenient with
      | .ok c => BR.pure c
      | .error e => BR.fail e) (fun c => c.tree.nodes + 1 ≤ 2 * n) := by
  cases h : newCode lens lenient with
  | ok c => exact BSafe.pure (by have := newCode_size lens lenient c h; omega)
  | error e => exact BSafe.fail (newCode_err lens lenient e h)

/-! ### the length vector never outgrows the alphabet -/

theorem readCodeLengths_sized (clc : Code) (hc : GoodCode (· ≤ 18) clc) (maxCount reads n lnz : Nat)
    (syms : List (Nat × Nat)) (hs : syms.length = n) (hn : n ≤ maxCount) :
    BSafe (readCodeLengths clc maxCount reads n lnz syms) (fun out => out.length ≤ maxCount) := by
  induction reads generalizing n lnz syms with
  | zero => simp only [readCodeLengths]; exact BSafe.pure (by omega)
  | succ reads ih =>
    simp only [readCodeLengths]
    split
    · exact BSafe.pure (by omega)
    · simp only [BR.bind_eq, BR.pure_eq]
      apply BSafe.bind _ (readSym_safe _ clc hc)
      intro code hcode
      apply BSafe.bind (fun _ => True)
      · split
        · exact BSafe.pure trivial
        · split
          · apply BSafe.bind _ (readBits_safe _); intro _ _; exact BSafe.pure trivial
          · split
            · apply BSafe.bind _ (readBits_safe _); intro _ _; exact BSafe.pure trivial
            · split
              · apply BSafe.bind _ (readBits_safe _); intro _ _; exact BSafe.pure trivial
              · exfalso; omega
      · intro x _
        obtain ⟨len, rep⟩ := x
        dsimp only
        apply BSafe.bind _ (ensure_safe _ _ np_invalidPrefixCode)
        intro _ hle
        have hle' : n + rep ≤ maxCount := by simpa using hle
        apply ih
        · simp [hs]; omega
        · exact hle'

/-- **size of every prefix code the validator reads**: a trie of fewer than 2·max(alphabet, 2) nodes, for every
    payload and bit position -/
theorem readPrefixCode_sized (cfg : LCfg) (alphabet : Nat) :
    BSafe (readPrefixCode cfg alphabet) (fun c => c.tree.nodes + 1 ≤ 2 * max alphabet 2) := by
  unfold readPrefixCode
  simp only [BR.bind_eq, BR.pure_eq]
  apply BSafe.bind _ readBit_safe
  intro simple _
  split
  · apply BSafe.bind _ readBit_safe
    intro hasSecond _
    apply BSafe.bind _ readBit_safe
    intro first8 _
    apply BSafe.bind (fun _ => True)
    · split
      · exact readBits_safe 8
      · exact readBits_safe 1
    · intro first _
      apply BSafe.bind (fun named : List Nat => named.length ≤ 2)
      · split
        · apply BSafe.bind _ (readBits_safe 8); intro _ _; exact BSafe.pure (by simp)
        · exact BSafe.pure (by simp)
      · intro named hnamed
        apply newCode_sized
        have h0 : ∀ l : List Nat, (dedupNamed l).length ≤ l.length := by
          intro l; unfold dedupNamed; split
          · split <;> simp
          · exact Nat.le_refl _
        have h1 := h0 (named.filter (· < alphabet))
        have h2 := List.length_filter_le (fun x => decide (x < alphabet)) named
        simp only [List.length_map]
        omega
  · apply BSafe.bind _ (readCodeLengthCode_safe cfg)
    intro clc hclc
    apply BSafe.bind _ readBit_safe
    intro useMax _
    apply BSafe.bind (fun _ => True)
    · split
      · apply BSafe.bind _ (readBits_safe 3)
        intro k _
        apply BSafe.bind _ (readBits_safe _)
        intro v _
        exact BSafe.pure trivial
      · exact BSafe.pure trivial
    · intro reads _
      apply BSafe.bind _ (ensure_safe _ _ np_invalidInput)
      intro _ _
      apply BSafe.bind _ (readCodeLengths_sized clc hclc alphabet reads 0 8 [] rfl (Nat.zero_le _))
      intro syms hsyms
      apply newCode_sized
      simp only [List.length_reverse]
      omega

/-- the transient code-length code: 19 lengths, a trie of at most 37 nodes -/
theorem clcGo_length (count : Nat) (order : List Nat) (k : Nat) (acc : List (Nat × Nat)) :
    BSafe (readCodeLengthCode.go count order k acc) (fun l => l.length = acc.length + order.length) := by
  induction order generalizing k acc with
  | nil => simp only [readCodeLengthCode.go]; exact BSafe.pure rfl
  | cons idx rest ih =>
    simp only [readCodeLengthCode.go]
    split
    · simp only [BR.bind_eq]
      apply BSafe.bind _ (readBits_safe 3)
      intro l _
      exact (ih (k + 1) ((idx, l) :: acc)).mono (fun a h => by simp only [List.length_cons] at h ⊢; omega)
    · exact (ih (k + 1) ((idx, 0) :: acc)).mono (fun a h => by simp only [List.length_cons] at h ⊢; omega)

theorem readCodeLengthCode_sized (cfg : LCfg) : BSafe (readCodeLengthCode cfg) (fun c => c.tree.nodes + 1 ≤ 2 * 19) := by
  unfold readCodeLengthCode
  simp only [BR.bind_eq, BR.pure_eq]
  apply BSafe.bind _ (readBits_safe 4)
  intro n _
  apply BSafe.bind _ (clcGo_length (4 + n) codeOrder 0 [])
  intro lens hl
  apply newCode_sized
  rw [hl]; decide

/-- total trie nodes of a prefix-code group -/
def Group.nodes (g : Group) : Nat :=
  g.green.tree.nodes + g.red.tree.nodes + g.blue.tree.nodes + g.alpha.tree.nodes + g.dist.tree.nodes

/-- the colour cache order the validator passes on is at most `cacheOrderMax` -/
theorem readColorCache_bounded : BSafe readColorCache (fun c => ∀ o, c = some o → o ≤ cacheOrderMax) := by
  unfold readColorCache
  simp only [BR.bind_eq, BR.pure_eq]
  apply BSafe.bind _ readBit_safe
  intro has _
  split
  · apply BSafe.bind _ (readBits_safe 4)
    intro order _
    apply BSafe.bind _ (ensure_safe _ _ np_invalidInput)
    intro _ h1
    apply BSafe.bind _ (ensure_safe _ _ np_invalidInput)
    intro _ _
    exact BSafe.pure (by intro o ho; cases ho; simpa using h1)
  · exact BSafe.pure (by intro o ho; cases ho)

theorem cacheLen_le (cache : Option Nat) (h : ∀ o, cache = some o → o ≤ cacheOrderMax) : cacheLen cache ≤ 2048 := by
  cases cache with
  | none => simp [cacheLen]
  | some o =>
    have ho : o ≤ 11 := h o rfl
    simp only [cacheLen]
    calc 2 ^ o ≤ 2 ^ 11 := Nat.pow_le_pow_right (by decide) ho
      _ = 2048 := by decide

/-- **size of a prefix-code group**: the five tries of any group the validator reads have fewer than 6272 nodes
    together (2·(280 + 2048) + 3·2·256 + 2·40), whatever the payload, the declared dimensions or the chunk size -/
theorem readGroup_sized (cfg : LCfg) (cache : Option Nat) (h : ∀ o, cache = some o → o ≤ cacheOrderMax) :
    BSafe (readGroup cfg cache) (fun g => g.nodes ≤ 6272) := by
  have hc := cacheLen_le cache h
  unfold readGroup
  simp only [BR.bind_eq, BR.pure_eq]
  apply BSafe.bind _ (readPrefixCode_sized cfg _); intro green hg
  apply BSafe.bind _ (readPrefixCode_sized cfg _); intro red hr
  apply BSafe.bind _ (readPrefixCode_sized cfg _); intro blue hb
  apply BSafe.bind _ (readPrefixCode_sized cfg _); intro alpha ha
  apply BSafe.bind _ (readPrefixCode_sized cfg _); intro dist hd
  apply BSafe.pure
  have hda : distAlphabet = 40 := rfl
  simp only [Group.nodes]
  rw [hda] at hd
  omega

end MediaSan.Vp8l
