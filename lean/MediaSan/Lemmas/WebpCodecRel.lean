/-
  C06: what the generated chunk schemas accept, byte by byte (the conditions the independent grammar states over the
  stream).  The schemas are regenerated from webpsan/src/parse/*.rs on every run; these lemmas are re-checked
  against them.
-/
import MediaSan.Webp.Prim
import MediaSan.Generated.WebpCodec
namespace MediaSan.Webp
open MediaSan MediaSan.Generated

theorem le3_lt (a b c : UInt8) : leToNat [a, b, c] < 16777216 := by
  have ha := a.toNat_lt
  have hb := b.toNat_lt
  have hc := c.toNat_lt
  simp only [leToNat]
  omega

theorem min_le3 (a b c : UInt8) : min (1 + leToNat [a, b, c]) u32Max = 1 + leToNat [a, b, c] := by
  have := le3_lt a b c
  unfold u32Max
  omega

/-- VP8X: only defined flag bits, three zero bytes, the one-based canvas size with width × height within 32 bits -/
theorem vp8x_parse_spec (b0 b1 b2 b3 b4 b5 b6 b7 b8 b9 : UInt8) (vs : List Nat) (rest : Bytes)
    (h : schemaVp8xChunk.parse [b0, b1, b2, b3, b4, b5, b6, b7, b8, b9] = .ok (vs, rest)) :
    b0.toNat &&& 62 = b0.toNat ∧ b1 = 0 ∧ b2 = 0 ∧ b3 = 0 ∧
    vs = [b0.toNat, 0, 1 + leToNat [b4, b5, b6], 1 + leToNat [b7, b8, b9]] ∧
    (1 + leToNat [b7, b8, b9]) * (1 + leToNat [b4, b5, b6]) ≤ 4294967295 := by
  have hl : leToNat [b0] = b0.toNat := by simp [leToNat]
  simp only [Schema.parse, schemaVp8xChunk, Schema.tys, List.map, parseFields, parseField, List.length_cons, List.length_nil,
    List.take, List.drop, toNatE, hl] at h
  by_cases hf : b0.toNat &&& 62 = b0.toNat
  · simp only [hf, if_true] at h
    simp [parseReserved] at h
    by_cases h1 : b1 = 0
    · by_cases h2 : b2 = 0
      · by_cases h3 : b3 = 0
        · simp [h1, h2, h3] at h
          split at h
          · rename_i hp
            simp only [Except.ok.injEq, Prod.mk.injEq] at h
            rw [min_le3, min_le3] at hp h
            exact ⟨hf, h1, h2, h3, h.1.symm, hp⟩
          · cases h
        · simp [h1, h2, h3] at h
      · simp [h1, h2] at h
    · simp [h1] at h
  · simp [hf] at h

/-- ANMF: the one-based frame size and only defined flag bits -/
theorem anmf_parse_spec (b0 b1 b2 b3 b4 b5 b6 b7 b8 b9 b10 b11 b12 b13 b14 b15 : UInt8) (vs : List Nat) (rest : Bytes)
    (h : schemaAnmfChunk.parse [b0, b1, b2, b3, b4, b5, b6, b7, b8, b9, b10, b11, b12, b13, b14, b15] = .ok (vs, rest)) :
    b15.toNat &&& 3 = b15.toNat ∧ vs.getD 2 0 = 1 + leToNat [b6, b7, b8] ∧ vs.getD 3 0 = 1 + leToNat [b9, b10, b11] := by
  have hl : leToNat [b15] = b15.toNat := by simp [leToNat]
  simp only [Schema.parse, schemaAnmfChunk, Schema.tys, List.map, parseFields, parseField, List.length_cons, List.length_nil,
    List.take, List.drop, toNatE, hl] at h
  simp at h
  by_cases hf : leToNat [b15] &&& 3 = leToNat [b15]
  · simp [hf] at h
    rw [← h.1]
    rw [hl] at hf
    refine ⟨hf, ?_, ?_⟩
    · show min (1 + leToNat [b6, b7, b8]) u32Max = _; exact min_le3 _ _ _
    · show min (1 + leToNat [b9, b10, b11]) u32Max = _; exact min_le3 _ _ _
  · simp [hf] at h

/-- ALPH: only defined bits in the header byte -/
theorem alph_parse_spec (b0 : UInt8) (vs : List Nat) (rest : Bytes)
    (h : schemaAlphChunk.parse [b0] = .ok (vs, rest)) : b0.toNat &&& 29 = b0.toNat ∧ vs = [b0.toNat] := by
  have hl : leToNat [b0] = b0.toNat := by simp [leToNat]
  simp only [Schema.parse, schemaAlphChunk, Schema.tys, List.map, parseFields, parseField, List.length_cons, List.length_nil,
    List.take, List.drop, toNatE, hl] at h
  simp at h
  by_cases hf : b0.toNat &&& 29 = b0.toNat
  · simp [hf, hl] at h
    exact ⟨hf, h.1.symm⟩
  · simp [hf, hl] at h

theorem vp8x_len : schemaVp8xChunk.encodedLen = 10 := by decide
theorem anim_len : schemaAnimChunk.encodedLen = 6 := by decide
theorem anmf_len' : schemaAnmfChunk.encodedLen = 16 := by decide
theorem alph_len : schemaAlphChunk.encodedLen = 1 := by decide

end MediaSan.Webp
