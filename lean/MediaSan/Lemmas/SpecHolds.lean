/-
  C01 / C04 as the executable specifications state them: `Spec_C01` and `Spec_C04` - the independent walker run on the
  input AND on the returned metadata - have no complaint about any result the model returns.
-/
import MediaSan.Lemmas.RelocateFinal
import MediaSan.Lemmas.WalkFrame
namespace MediaSan.Props.C01R
open MediaSan MediaSan.Mp4 MediaSan.Spec.Mp4Walk MediaSan.Spec.Mp4Rules MediaSan.Props.C02

theorem read_ofBytes (b : Bytes) (p n : Nat) (h : p + n ≤ b.length) : (Stream.ofBytes b).read p n = (b.drop p).take n := by
  apply List.ext_getElem
  · simp [Stream.read]; omega
  · intro i h1 h2
    simp only [Stream.read, Stream.ofBytes, List.getElem_map, List.getElem_range, List.getElem_take, List.getElem_drop]
    rw [List.getD_eq_getElem?_getD, List.getElem?_eq_getElem (by simp [Stream.read] at h1; omega)]
    rfl

/-- the walker's tables of a box depend on where its payload starts and ends, not on its header -/
theorem moovTables_norm (s : Stream) (b b' : TopBox) (h1 : b.payloadOff = b'.payloadOff) (h2 : b.endOff = b'.endOff) :
    moovTables s b = moovTables s b' := by
  unfold moovTables children
  rw [h1, h2]

theorem zip_map_all {α β : Type} (g : α → β) (P : α × β → Bool) (l : List α) (h : ∀ x ∈ l, P (x, g x) = true) :
    (l.zip (l.map g)).all P = true := by
  induction l with
  | nil => rfl
  | cons x xs ih =>
    simp only [List.map_cons, List.zip_cons_cons, List.all_cons, Bool.and_eq_true]
    exact ⟨h x (by simp), ih (fun y hy => h y (by simp [hy]))⟩

section
variable (s : Stream) (kind : SkipKind)

/-- what the walker sees in the returned metadata -/
theorem md_walk (fh mh : BoxHeader) (fp mp : Bytes) (pad : Nat)
    (hall : ∀ hp ∈ mdBoxes fh mh fp mp pad, hp.1.WF ∧ hp.1.dataSize = .ok (some hp.2.length))
    (hf : fh.ty = FTYP) (hm : mh.ty = MOOV) :
    ∃ b1 b2 rest, (mdTop (Stream.ofBytes (serBoxes (mdBoxes fh mh fp mp pad)))).boxes = b1 :: b2 :: rest ∧
      b1.name = cc 'f' 't' 'y' 'p' ∧ b1.payloadOff = fh.encodedLen ∧ b1.payloadLen = fp.length ∧
      b2.name = cc 'm' 'o' 'o' 'v' ∧ b2.payloadOff = fh.encodedLen + fp.length + mh.encodedLen ∧ b2.payloadLen = mp.length ∧
      b2.endOff = b2.payloadOff + mp.length ∧
      (∀ x ∈ rest, x.name = cc 'f' 'r' 'e' 'e') := by
  have hw := walk_ser _ hall
  have hlen : (Stream.ofBytes (serBoxes (mdBoxes fh mh fp mp pad))).len = (serBoxes (mdBoxes fh mh fp mp pad)).length := rfl
  have nf : name4 fh = cc 'f' 't' 'y' 'p' := by rw [name4_of_ty fh _ hf]; decide
  have nm : name4 mh = cc 'm' 'o' 'o' 'v' := by rw [name4_of_ty mh _ hm]; decide
  unfold mdTop
  rw [hlen, hw]
  by_cases hp0 : pad = 0
  · refine ⟨⟨0, fh.encodedLen, name4 fh, 0 + fh.encodedLen + fp.length, true⟩, ⟨0 + fh.encodedLen + fp.length, mh.encodedLen, name4 mh, 0 + fh.encodedLen + fp.length + mh.encodedLen + mp.length, true⟩, [], by simp only [mdBoxes, hp0, if_true, List.append_nil, descr, Walk.boxes], nf, ?_, ?_, nm, ?_, ?_, ?_, ?_⟩
    · simp [TopBox.payloadOff]
    · simp [TopBox.payloadLen, TopBox.payloadOff]
    · simp [TopBox.payloadOff]
    · simp [TopBox.payloadLen, TopBox.payloadOff]
    · simp [TopBox.payloadOff]
    · intro x hx; cases hx
  · have nfr : name4 ⟨FREE, .size pad⟩ = cc 'f' 'r' 'e' 'e' := by rw [name4_of_ty _ _ rfl]; decide
    refine ⟨⟨0, fh.encodedLen, name4 fh, 0 + fh.encodedLen + fp.length, true⟩, ⟨0 + fh.encodedLen + fp.length, mh.encodedLen, name4 mh, 0 + fh.encodedLen + fp.length + mh.encodedLen + mp.length, true⟩, _, by simp only [mdBoxes, hp0, if_false, List.cons_append, List.nil_append, descr, Walk.boxes]; rfl, nf, ?_, ?_, nm, ?_, ?_, ?_, ?_⟩
    · simp [TopBox.payloadOff]
    · simp [TopBox.payloadLen, TopBox.payloadOff]
    · simp [TopBox.payloadOff]
    · simp [TopBox.payloadLen, TopBox.payloadOff]
    · simp [TopBox.payloadOff]
    · intro x hx
      simp only [List.mem_cons, List.not_mem_nil, or_false] at hx
      rw [hx]; exact nfr


theorem lastMoov_md (b1 b2 : TopBox) (rest : List TopBox) (n1 : b1.name = cc 'f' 't' 'y' 'p') (n2 : b2.name = cc 'm' 'o' 'o' 'v')
    (hrest : ∀ x ∈ rest, x.name = cc 'f' 'r' 'e' 'e') : lastMoov (b1 :: b2 :: rest) = some b2 := by
  unfold lastMoov
  have e1 : decide (b1.name = cc 'm' 'o' 'o' 'v') = false := by rw [n1]; decide
  have e2 : decide (b2.name = cc 'm' 'o' 'o' 'v') = true := by rw [n2]; decide
  have e3 : rest.filter (fun x => decide (x.name = cc 'm' 'o' 'o' 'v')) = [] := by
    rw [List.filter_eq_nil_iff]
    intro x hx
    rw [hrest x hx]; decide
  simp only [List.filter_cons, e1, e2, e3, Bool.false_eq_true, if_false, if_true]
  rfl

/-- the common ground of both specifications: the walker's view of the metadata against its view of the input -/
theorem md_view (cfg : Config) (r : Sanitized) (md : Bytes)
    (h : Mp4.sanitize s kind cfg = .ok r) (hmd : r.metadata = some md) :
    ∃ (bs : List TopBox) (f m f' m' : TopBox) (rs : List Region),
      (top s ⟨cfg.maxMetadataSize, cfg.cumulativeMdatBoxSize⟩).boxes = bs ∧
      bs.find? (fun b => decide (b.name = cc 'f' 't' 'y' 'p')) = some f ∧ lastMoov bs = some m ∧
      (mdTop (Stream.ofBytes md)).boxes.find? (fun b => decide (b.name = cc 'f' 't' 'y' 'p')) = some f' ∧
      lastMoov (mdTop (Stream.ofBytes md)).boxes = some m' ∧
      moovTables s m = some rs ∧ m.payloadOff ≤ m.endOff ∧
      moovTables (Stream.ofBytes md) m' = some (rs.map (moveRegion m.payloadOff m'.payloadOff)) ∧
      f'.payloadLen = f.payloadLen ∧ (Stream.ofBytes md).read f'.payloadOff f'.payloadLen = s.read f.payloadOff f.payloadLen ∧
      m'.payloadLen = m.payloadLen ∧
      (∀ i, i < m.payloadLen → inRegions rs (m.payloadOff + i) = false →
        (Stream.ofBytes md).get (m'.payloadOff + i) = s.get (m.payloadOff + i)) ∧
      (∀ t ∈ rs, m.payloadOff ≤ t.off ∧ ∀ i, i < t.count →
        (entryAt (Stream.ofBytes md) (moveRegion m.payloadOff m'.payloadOff t) i : Int) =
          (entryAt s t i : Int) + ((md.length : Int) - (r.data.offset : Int))) ∧
      -2147483648 ≤ (md.length : Int) - (r.data.offset : Int) ∧ (md.length : Int) - (r.data.offset : Int) ≤ 2147483647 := by
  obtain ⟨bs, f, m, T, fh, mh, pad, mp, hw, hf, hlm, hmt, hle, ho, hfit, hmdeq, hall, hfty, hmty, hmp, hmpl, hent, hb1, hb2⟩ :=
    relocated_full s kind cfg r md h hmd
  obtain ⟨b1, b2, rest, hmbs, n1, po1, pl1, n2, po2, pl2, he2, hrest⟩ :=
    md_walk fh mh (s.read f.payloadOff f.payloadLen) mp pad hall hfty hmty
  have hfw := (hall (fh, s.read f.payloadOff f.payloadLen) (by simp [mdBoxes])).1
  have hmw := (hall (mh, mp) (by simp [mdBoxes])).1
  obtain ⟨q1, q2⟩ := md_moov_payload fh mh (s.read f.payloadOff f.payloadLen) mp pad hfw hmw
  rw [← hmdeq] at hmbs q1 q2
  rw [← po2] at q1 q2
  rw [hmpl] at q1 q2
  have hsl : (md.drop b2.payloadOff).take m.payloadLen = msplice s m.payloadOff m.endOff T := by rw [q1, hmp]
  obtain ⟨p1, p2⟩ := relocated_pointwise s m T b2.payloadOff md _ hle ho hfit hsl (fun x hx i hi => (hent x hx i hi).1)
  have hget : ∀ q, (Stream.ofBytes md).get q = md.getD q 0 := fun _ => rfl
  have hpl : m.payloadLen = m.endOff - m.payloadOff := rfl
  -- the tables in the metadata
  have hmt2 : moovTables (Stream.ofBytes md) b2 = some ((T.map (·.1)).map (moveRegion m.payloadOff b2.payloadOff)) := by
    have hn := moovTables_norm s m ⟨m.payloadOff, 0, m.name, m.endOff, m.sized⟩ (by simp [TopBox.payloadOff]) rfl
    rw [hn] at hmt
    have := moovTables_move s (Stream.ofBytes md) m.payloadOff b2.payloadOff ⟨m.payloadOff, 0, m.name, m.endOff, m.sized⟩
      (T.map (·.1)) (Nat.le_refl _) (by simp [TopBox.payloadOff]; exact hle) hmt
      (by
        intro p hp1 hp2 hout
        dsimp only at hp1 hp2
        have := p1 (p - m.payloadOff) (by omega) (by rw [show m.payloadOff + (p - m.payloadOff) = p by omega]; exact hout)
        rw [hget]
        have e : mv m.payloadOff b2.payloadOff p = b2.payloadOff + (p - m.payloadOff) := by unfold mv; omega
        rw [e, this]
        congr 1; omega)
    rw [← this]
    apply moovTables_norm
    · simp only [moveBox, TopBox.payloadOff, mv]; omega
    · simp only [moveBox, mv]
      rw [he2, hmpl]; omega
  refine ⟨bs, f, m, b1, b2, T.map (·.1), by simp only [top, hw, Walk.boxes], by rw [cc_ftyp]; exact hf, hlm, ?_, ?_, hmt, hle, hmt2,
    by rw [pl1, read_length], ?_, by rw [pl2, hmpl], ?_, ?_, hb1, hb2⟩
  · rw [hmbs]; simp [List.find?, n1]
  · rw [hmbs]; exact lastMoov_md b1 b2 rest n1 n2 hrest
  · -- the ftyp payload
    have hlen : fh.encodedLen + (s.read f.payloadOff f.payloadLen).length ≤ md.length := by
      rw [hmdeq]
      simp only [mdBoxes, serBoxes, List.cons_append, List.nil_append, List.map_cons, List.flatten_cons, List.length_append,
        encodeHeader_length _ hfw]
      omega
    rw [po1, pl1, read_ofBytes md _ _ hlen]
    have e : ∃ tail, md = encodeHeader fh ++ (s.read f.payloadOff f.payloadLen) ++ tail := by
      rw [hmdeq]
      by_cases hp0 : pad = 0
      · exact ⟨encodeHeader mh ++ mp, by simp [mdBoxes, hp0, serBoxes, List.append_assoc]⟩
      · exact ⟨encodeHeader mh ++ mp ++ (encodeHeader ⟨FREE, .size pad⟩ ++ List.replicate (pad - 8) 0), by simp [mdBoxes, hp0, serBoxes, List.append_assoc]⟩
    obtain ⟨tail, ht⟩ := e
    have hl := encodeHeader_length _ hfw
    rw [ht, List.append_assoc, List.drop_append_of_le_length (by rw [hl]; exact Nat.le_refl _),
      List.drop_eq_nil_of_le (by rw [hl]; exact Nat.le_refl _), List.nil_append,
      List.take_append_of_le_length (Nat.le_refl _), List.take_of_length_le (Nat.le_refl _)]
  · intro i hi hout
    rw [hget]; exact p1 i hi hout
  · intro t ht
    obtain ⟨x, hx, rfl⟩ := List.mem_map.mp ht
    obtain ⟨o1, o2⟩ := ordered_mem _ _ T ho x hx
    refine ⟨o1, ?_⟩
    intro i hi
    have := p2 x hx i hi
    rw [← this]
    unfold Spec.Mp4Walk.entryAt be
    have h1 : x.1.width * i + x.1.width ≤ x.1.width * x.1.count := by
      have : x.1.width * (i + 1) ≤ x.1.width * x.1.count := Nat.mul_le_mul_left _ hi
      rw [Nat.mul_add, Nat.mul_one] at this; exact this
    have hend : x.1.endOff = x.1.off + x.1.width * x.1.count := rfl
    have e : (moveRegion m.payloadOff b2.payloadOff x.1).off = b2.payloadOff + (x.1.off - m.payloadOff) := by
      simp only [moveRegion, mv]; omega
    have ew : (moveRegion m.payloadOff b2.payloadOff x.1).width = x.1.width := rfl
    rw [e, ew, read_ofBytes md _ _ (by omega)]


/-- C01 as the executable specification states it: `Spec_C01` - the independent walker run on the input and on the
    returned metadata: same tables, every entry shifted by |metadata| − span.offset, shift within i32 - has no
    complaint about any result of the model, for every input, configuration and cursor kind -/
theorem spec_C01_holds (cfg : Config) (r : Sanitized) (md : Bytes)
    (h : Mp4.sanitize s kind cfg = .ok r) (hmd : r.metadata = some md) :
    Spec_C01 s ⟨cfg.maxMetadataSize, cfg.cumulativeMdatBoxSize⟩ (.rewritten (Stream.ofBytes md) r.data.offset r.data.len) = none := by
  obtain ⟨bs, f, m, f', m', rs, hbs, hf, hlm, hf', hlm', hmt, hle, hmt', _, _, hpl, _, hent, hb1, hb2⟩ := md_view s kind cfg r md h hmd
  have hlen : (Stream.ofBytes md).len = md.length := rfl
  unfold Spec_C01
  simp only [hbs, hlm, hlm', hmt, hmt', hlen]
  have c1 : ¬ (rs.length ≠ (rs.map (moveRegion m.payloadOff m'.payloadOff)).length) := by simp
  have c2 : (rs.zip (rs.map (moveRegion m.payloadOff m'.payloadOff))).all (fun x => match x with
      | (r, r') => decide (r.width = r'.width ∧ r.count = r'.count ∧ r.off - m.payloadOff = r'.off - m'.payloadOff)) = true := by
    apply zip_map_all
    intro t ht
    have := (hent t ht).1
    simp only [moveRegion, mv, true_and, decide_eq_true_eq]
    omega
  have c3 : ¬ ((md.length : Int) - (r.data.offset : Int) < -2147483648 ∨ (md.length : Int) - (r.data.offset : Int) > 2147483647) := by omega
  have c4 : (rs.zip (rs.map (moveRegion m.payloadOff m'.payloadOff))).all (fun x => match x with
      | (r', r'') => (List.range r'.count).all fun i =>
          decide ((entryAt (Stream.ofBytes md) r'' i : Int) = (entryAt s r' i : Int) + ((md.length : Int) - (r.data.offset : Int)))) = true := by
    apply zip_map_all
    intro t ht
    rw [List.all_eq_true]
    intro i hi
    simp only [List.mem_range] at hi
    simp only [decide_eq_true_eq]
    exact (hent t ht).2 i hi
  simp only [c1, c2, c3, c4, if_false, not_true_eq_false]

/-- C04 as the executable specification states it: `Spec_C04` - ftyp payload identical, moov payload of the same length
    and identical outside the tables the walker finds in the input - has no complaint about any result of the model -/
theorem spec_C04_holds (cfg : Config) (r : Sanitized) (md : Bytes)
    (h : Mp4.sanitize s kind cfg = .ok r) (hmd : r.metadata = some md) :
    Spec_C04 s ⟨cfg.maxMetadataSize, cfg.cumulativeMdatBoxSize⟩ (.rewritten (Stream.ofBytes md) r.data.offset r.data.len) = none := by
  obtain ⟨bs, f, m, f', m', rs, hbs, hf, hlm, hf', hlm', hmt, hle, hmt', hfl, hfr, hpl, hout, _, _, _⟩ := md_view s kind cfg r md h hmd
  unfold Spec_C04
  simp only [hbs, hf, hf', hlm, hlm', hmt, Option.getD_some]
  have c1 : ¬ (s.read f.payloadOff f.payloadLen ≠ (Stream.ofBytes md).read f'.payloadOff f'.payloadLen) := by
    rw [hfr]; simp
  have c2 : ¬ (m.payloadLen ≠ m'.payloadLen) := by rw [hpl]; simp
  have c3 : ((List.range m.payloadLen).any fun i =>
      decide (¬ inRegions rs (m.payloadOff + i) = true ∧ s.get (m.payloadOff + i) ≠ (Stream.ofBytes md).get (m'.payloadOff + i))) = false := by
    rw [List.any_eq_false]
    intro i hi
    simp only [List.mem_range] at hi
    simp only [decide_eq_true_eq, not_and, ne_eq, Decidable.not_not]
    intro hin
    have : inRegions rs (m.payloadOff + i) = false := by simpa using hin
    exact (hout i hi this).symm
  simp only [c1, c2, c3, if_false]
  simp

end
end MediaSan.Props.C01R
