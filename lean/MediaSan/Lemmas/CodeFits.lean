/-
  Every prefix code the validator model builds is at most 15 bits long (`longest_code_len ≤ 15`; the code-length
  code at most 7): lengths come from 3-bit fields, from code-length symbols 0..15 or from the last non-zero length,
  and the canonical assignment gives every symbol a code of exactly its length.
-/
import MediaSan.Lemmas.CodeHeight
namespace MediaSan.Vp8l
open MediaSan MediaSan.Generated

theorem readBitsAux_lt (b : ByteArray) (n k acc p : Nat) (hacc : acc < 2 ^ k) :
    Good (fun v => v < 2 ^ (k + n)) (readBitsAux b n k acc p) := by
  induction n generalizing k acc p with
  | zero => simp only [readBitsAux]; exact hacc
  | succ n ih =>
    simp only [readBitsAux]
    cases bitAt b p with
    | none => trivial
    | some v =>
      simp only
      have h2 : acc + (if v = true then 2 ^ k else 0) < 2 ^ (k + 1) := by
        have : 2 ^ (k + 1) = 2 * 2 ^ k := by rw [Nat.pow_succ]; omega
        split <;> omega
      have := ih (k + 1) _ (p + 1) h2
      have e : k + 1 + n = k + (n + 1) := by omega
      rw [e] at this
      exact this

theorem readBits_lt (n : Nat) : BSafe (readBits n) (fun v => v < 2 ^ n) := by
  intro b p
  have := readBitsAux_lt b n 0 0 p (by simp)
  simpa [readBits] using this

theorem foldl_max_le (l : List Nat) (init B : Nat) (hi : init ≤ B) (h : ∀ x ∈ l, x ≤ B) : l.foldl max init ≤ B := by
  induction l generalizing init with
  | nil => exact hi
  | cons y ys ih =>
    simp only [List.foldl_cons]
    apply ih
    · have := h y (List.mem_cons_self ..); omega
    · exact fun x hx => h x (List.mem_cons_of_mem _ hx)

theorem resizeCode_length (c : List Bool) (n : Nat) : (resizeCode c n).length = n := by
  simp only [resizeCode, List.length_append, List.length_take, List.length_replicate]
  omega

theorem assignCodes_len (rest : List (Nat × Nat)) (prev : List Bool) (x : Nat × List Bool)
    (hx : x ∈ assignCodes rest prev) : ∃ y ∈ rest, x.2.length = y.2 := by
  induction rest generalizing prev with
  | nil => simp [assignCodes] at hx
  | cons a as ih =>
    obtain ⟨s, len⟩ := a
    simp only [assignCodes, List.mem_cons] at hx
    rcases hx with h | h
    · exact ⟨(s, len), List.mem_cons_self .., by rw [h]; exact resizeCode_length _ _⟩
    · obtain ⟨y, hy, e⟩ := ih _ h
      exact ⟨y, List.mem_cons_of_mem _ hy, e⟩

/-- every canonical code is as long as a length of the vector, or empty -/
theorem canonicalSymbols_len (lens : List (Nat × Nat)) (lenient : Bool) (x : Nat × List Bool)
    (hx : x ∈ canonicalSymbols lens lenient) : x.2.length = 0 ∨ ∃ y ∈ lens, x.2.length = y.2 := by
  have hsub : ∀ y ∈ (sortByLenSym lens).filter (fun x => x.2 ≠ 0), y ∈ lens :=
    fun y hy => mem_sortByLenSym lens y (List.mem_filter.mp hy).1
  simp only [canonicalSymbols] at hx
  generalize (sortByLenSym lens).filter (fun x => x.2 ≠ 0) = nz at hx hsub
  split at hx
  · simp at hx
  · simp only [List.mem_singleton] at hx
    left; rw [hx]; rfl
  · split at hx
    · simp only [List.mem_singleton] at hx
      left; rw [hx]; rfl
    · simp only [List.mem_singleton] at hx
      right
      exact ⟨_, hsub _ (List.mem_cons_self ..), by rw [hx]; simp⟩
  · simp only [List.mem_cons] at hx
    rcases hx with h | h
    · right
      exact ⟨_, hsub _ (List.mem_cons_self ..), by rw [h]; simp⟩
    · right
      obtain ⟨y, hy, e⟩ := assignCodes_len _ _ x h
      exact ⟨y, hsub _ (List.mem_cons_of_mem _ hy), e⟩

theorem newCode_longest (lens : List (Nat × Nat)) (lenient : Bool) (B : Nat) (hB : ∀ x ∈ lens, x.2 ≤ B)
    (c : Code) (h : newCode lens lenient = .ok c) : c.longest ≤ B := by
  simp only [newCode, fromSymbols] at h
  cases hcr : compileReadTree (canonicalSymbols lens lenient) with
  | error e => rw [hcr] at h; simp at h
  | ok t =>
    rw [hcr] at h
    simp only [Except.ok.injEq] at h
    subst h
    simp only
    split
    · omega
    · apply foldl_max_le _ 0 B (Nat.zero_le _)
      intro n hn
      obtain ⟨x, hx, e⟩ := List.mem_map.mp hn
      rcases canonicalSymbols_len lens lenient x hx with h0 | ⟨y, hy, e2⟩
      · omega
      · have := hB y hy; omega

/-- finalized, within its depth, and short enough for every buffer of ≥ 3 bytes (`B` = 15, or 7 for the code-length
    code) -/
def CodeFits (B : Nat) (c : Code) : Prop := CodeReady c ∧ c.longest ≤ B

theorem newCode_fits (lens : List (Nat × Nat)) (lenient : Bool) (B : Nat) (hB : ∀ x ∈ lens, x.2 ≤ B) :
    BSafe (match newCode lens lenient with
      | .ok c => BR.pure c
      | .error e => BR.fail e) (CodeFits B) := by
  cases h : newCode lens lenient with
  | ok c =>
    exact BSafe.pure ⟨⟨(newCode_good (fun _ => True) lens lenient c (fun _ _ => trivial) h).1,
      newCode_height lens lenient c h⟩, newCode_longest lens lenient B hB c h⟩
  | error e => exact BSafe.fail (newCode_err lens lenient e h)

theorem clcGo_lens (count : Nat) (order : List Nat) (k : Nat) (acc : List (Nat × Nat)) (ha : ∀ x ∈ acc, x.2 ≤ 7) :
    BSafe (readCodeLengthCode.go count order k acc) (fun l => ∀ x ∈ l, x.2 ≤ 7) := by
  induction order generalizing k acc with
  | nil => simp only [readCodeLengthCode.go]; exact BSafe.pure ha
  | cons idx rest ih =>
    simp only [readCodeLengthCode.go]
    split
    · simp only [BR.bind_eq]
      apply BSafe.bind _ (readBits_lt 3)
      intro l hl
      apply ih
      intro x hx
      simp only [List.mem_cons] at hx
      rcases hx with h | h
      · rw [h]; simp only; omega
      · exact ha x h
    · apply ih
      intro x hx
      simp only [List.mem_cons] at hx
      rcases hx with h | h
      · rw [h]; simp
      · exact ha x h

theorem BSafe.and {α} {m : BR α} {P Q : α → Prop} (hp : BSafe m P) (hq : BSafe m Q) :
    BSafe m (fun a => P a ∧ Q a) := by
  intro b p
  have h1 := hp b p
  have h2 := hq b p
  cases hr : m b p with
  | ok x => obtain ⟨a, p'⟩ := x; rw [hr] at h1 h2; exact ⟨h1, h2⟩
  | error e =>
    rw [hr] at h1
    cases e with
    | panic s => exact h1.elim
    | _ => trivial

theorem readCodeLengthCode_fits (cfg : LCfg) : BSafe (readCodeLengthCode cfg) (CodeFits 7) := by
  unfold readCodeLengthCode
  simp only [BR.bind_eq, BR.pure_eq]
  apply BSafe.bind _ (readBits_safe 4)
  intro n _
  apply BSafe.bind _ (clcGo_lens (4 + n) codeOrder 0 [] (by intro x hx; cases hx))
  intro lens hl
  exact newCode_fits lens _ 7 hl

theorem readCodeLengths_lens (clc : Code) (hc : GoodCode (· ≤ 18) clc) (maxCount reads n lnz : Nat)
    (syms : List (Nat × Nat)) (hl : lnz ≤ 15) (hs : ∀ x ∈ syms, x.2 ≤ 15) :
    BSafe (readCodeLengths clc maxCount reads n lnz syms) (fun out => ∀ x ∈ out, x.2 ≤ 15) := by
  induction reads generalizing n lnz syms with
  | zero => simp only [readCodeLengths]; exact BSafe.pure hs
  | succ reads ih =>
    simp only [readCodeLengths]
    split
    · exact BSafe.pure hs
    · simp only [BR.bind_eq, BR.pure_eq]
      apply BSafe.bind _ (readSym_safe _ clc hc)
      intro code hcode
      apply BSafe.bind (fun x : Nat × Nat => x.1 ≤ 15)
      · split
        · rename_i h15; exact BSafe.pure h15
        · split
          · apply BSafe.bind _ (readBits_safe _); intro _ _; exact BSafe.pure hl
          · split
            · apply BSafe.bind _ (readBits_safe _); intro _ _; exact BSafe.pure (by simp)
            · split
              · apply BSafe.bind _ (readBits_safe _); intro _ _; exact BSafe.pure (by simp)
              · exfalso; omega
      · intro x hx
        obtain ⟨len, rep⟩ := x
        dsimp only at hx ⊢
        apply BSafe.bind _ (ensure_safe _ _ np_invalidPrefixCode)
        intro _ _
        apply ih
        · split <;> omega
        · intro y hy
          simp only [List.mem_append, List.mem_reverse, List.mem_map, List.mem_range] at hy
          rcases hy with ⟨i, _, e⟩ | h
          · rw [← e]; exact hx
          · exact hs y h

theorem readPrefixCode_fits (cfg : LCfg) (alphabet : Nat) : BSafe (readPrefixCode cfg alphabet) (CodeFits 15) := by
  unfold readPrefixCode
  simp only [BR.bind_eq, BR.pure_eq]
  apply BSafe.bind _ readBit_safe
  intro simple _
  split
  · apply BSafe.bind _ readBit_safe
    intro hasSecond _
    apply BSafe.bind _ readBit_safe
    intro first8 _
    apply BSafe.bind (fun _ => True)
    · split
      · exact readBits_safe 8
      · exact readBits_safe 1
    · intro first _
      apply BSafe.bind (fun _ => True)
      · split
        · apply BSafe.bind _ (readBits_safe 8); intro _ _; exact BSafe.pure trivial
        · exact BSafe.pure trivial
      · intro named _
        apply newCode_fits
        intro x hx
        simp only [List.mem_map] at hx
        obtain ⟨s, _, e⟩ := hx
        rw [← e]; simp
  · apply BSafe.bind _ (readCodeLengthCode_safe cfg)
    intro clc hclc
    apply BSafe.bind _ readBit_safe
    intro useMax _
    apply BSafe.bind (fun _ => True)
    · split
      · apply BSafe.bind _ (readBits_safe 3)
        intro k _
        apply BSafe.bind _ (readBits_safe _)
        intro v _
        exact BSafe.pure trivial
      · exact BSafe.pure trivial
    · intro reads _
      apply BSafe.bind _ (ensure_safe _ _ np_invalidInput)
      intro _ _
      apply BSafe.bind _ (readCodeLengths_lens clc hclc alphabet reads 0 8 [] (by omega) (by intro x hx; cases hx))
      intro syms hsyms
      apply newCode_fits
      intro x hx
      exact hsyms x (List.mem_reverse.mp hx)

/-- a group whose five codes are finalized, within their depth and at most 15 bits long -/
def Group.fits (g : Group) : Prop :=
  CodeFits 15 g.green ∧ CodeFits 15 g.red ∧ CodeFits 15 g.blue ∧ CodeFits 15 g.alpha ∧ CodeFits 15 g.dist

theorem readGroup_fits (cfg : LCfg) (cache : Option Nat) : BSafe (readGroup cfg cache) Group.fits := by
  unfold readGroup
  simp only [BR.bind_eq, BR.pure_eq]
  apply BSafe.bind _ (readPrefixCode_fits cfg _); intro green hg
  apply BSafe.bind _ (readPrefixCode_fits cfg _); intro red hr
  apply BSafe.bind _ (readPrefixCode_fits cfg _); intro blue hb
  apply BSafe.bind _ (readPrefixCode_fits cfg _); intro alpha ha
  apply BSafe.bind _ (readPrefixCode_fits cfg _); intro dist hd
  exact BSafe.pure ⟨hg, hr, hb, ha, hd⟩

theorem Group.fits_ready {g : Group} (h : g.fits) : g.ready :=
  ⟨h.1.1, h.2.1.1, h.2.2.1.1, h.2.2.2.1.1, h.2.2.2.2.1⟩

theorem Group.fits_readahead {g : Group} (h : g.fits) : readaheadBits g ≤ 81 := by
  have e : lz77MaxSymbol = 39 := rfl
  obtain ⟨h1, h2, h3, h4, h5⟩ := h
  have := h1.2; have := h2.2; have := h3.2; have := h4.2; have := h5.2
  simp only [readaheadBits, e]
  omega

end MediaSan.Vp8l
