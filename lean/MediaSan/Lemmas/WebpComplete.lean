/-
  C06, completeness: a stream the independent recogniser `Grammar` accepts is accepted by the model of webpsan.
  Top level: the RIFF header, the first chunk, the trailing unknown chunks, the end of the file.
-/
import MediaSan.Lemmas.WebpTot
namespace MediaSan.Webp
open MediaSan MediaSan.Spec.WebpGrammar

section
variable (s : Stream) (kind : SkipKind)

/-- what the part of `sanitize_with_config` that handles the first chunk has to deliver: the chunks `first :: mid` are
    walked, the rest `us` is for the trailing loop -/
def FirstDone (L1 : Nat) (allow : Bool) (first : Chunk) (rest : List Chunk) (r3 : RS) (o : Option RS) (p4 : Nat) : Prop :=
  ∃ r4 mid us, o = some r4 ∧ limOf r4 1 p4 = L1 ∧ Keeps 1 r3 first.off r4 p4 ∧ Bnd s L1 12 r4 1 p4 (first :: mid) ∧
    rest = mid ++ us ∧ trailingOk us allow = true

/-- the trailing loop from a boundary where the next header may already have been peeked -/
theorem trailing_tot_b (cfg : Config) (L : Nat) (hLs : L ≤ s.len) (hs : s.len < u64Lim) (us : List Chunk) (fuel : Nat)
    (hfuel : us.length < fuel) (r : RS) (pos : Nat) (cs : List Chunk) (hL : limOf r 1 pos = L)
    (hb : Bnd s L 12 r 1 pos cs) (hall : CChain s L 12 L (cs ++ us)) (hunk : us.all isUnknown = true)
    (hallow : us = [] ∨ cfg.allowUnknownChunks = true) :
    Tot (idealOps s kind) (trailingLoop cfg 1 false fuel r) pos
      (fun o pos' => ∃ r', o = some r' ∧ limOf r' 1 pos' = L ∧ r'.get 1 = .idle ∧ pos' = L ∧ Keeps 1 r pos r' pos') := by
  rcases hb with hc | ⟨c, hp⟩
  · exact trailing_tot s kind cfg L 12 1 false (by decide) (by decide) hLs hs us fuel hfuel r pos cs hL hc hall hunk hallow
  · -- the peeked header is the header of the first of `us`
    obtain ⟨e, e1, e2, e3, e4, e5⟩ := hp
    cases us with
    | nil =>
      exfalso
      rw [List.append_nil] at hall
      have := cchain_split s L 12 e L cs [] e1 (by rw [List.append_nil]; exact hall)
      have : e = L := this
      omega
    | cons u us' =>
      have hstep : StepOk s L e u := (cchain_split s L 12 e L cs (u :: us') e1 hall).1
      have hcu : c = u := by rw [e2, hstep.1]
      subst hcu
      cases fuel with
      | zero => cases hfuel
      | succ n =>
        unfold trailingLoop
        have hpad : readPadding r 1 = .done r := by unfold readPadding; rw [e4]
        have hhas : hasRemaining r 1 = .done (true, r) := by
          unfold hasRemaining
          rw [hpad]
          show (match r.get 1 with
            | .idle => (rawIsEmpty r 1).bind fun e => .done (!e, r)
            | _ => .done (true, r)) = _
          rw [e4]
        rw [hhas]
        show Tot _ ((readAnyHeader r 1).bind _) _ _
        have hany : readAnyHeader r 1 = .position fun pos => if pos < 8 then .panic "reader.rs:127 stream_position - 8"
            else .done (c.name, r.set 1 (if c.len = 0 then .padding c.name c.len else .body c.name c.len c.len)) := by
          unfold readAnyHeader
          rw [hpad]
          show (match r.get 1 with
            | .peeking name len => _
            | .idle => _
            | .body _ _ _ => _
            | .padding _ _ => _) = _
          rw [e4]
        rw [hany]
        apply Tot.position
        have hpos8 : ¬ pos < 8 := by rw [e5, e2]; simp only [hdrAt]; omega
        dsimp only
        rw [if_neg hpos8]
        show Tot _ (if knownTrailing c.name ∨ c.name = FANMF then _ else _) _ _
        rw [List.all_cons, Bool.and_eq_true] at hunk
        have hnk := not_known_of_unknown c hunk.1
        have hal : cfg.allowUnknownChunks = true := by
          rcases hallow with h | h
          · cases h
          · exact h
        rw [if_neg (by simpa using hnk), if_neg (by simp [hal])]
        -- the chunk is now open
        have hset : (r.set 1 (if c.len = 0 then CState.padding c.name c.len else .body c.name c.len c.len)).get 1 =
            fresh c.name c.len := by simp [RS.get, RS.set, fresh]
        have hks := keeps_set r 1 pos (if c.len = 0 then CState.padding c.name c.len else .body c.name c.len c.len) (by decide)
        have hL2 : limOf (r.set 1 (if c.len = 0 then CState.padding c.name c.len else .body c.name c.len c.len)) 1 pos = L := by
          rw [hks.lim (by decide), hL]
        have hopen : Open s L 12 (r.set 1 (if c.len = 0 then CState.padding c.name c.len else .body c.name c.len c.len)) 1 pos cs c := by
          refine ⟨e, e1, e2, e3, ?_⟩
          have := cur_fresh s L (r.set 1 (if c.len = 0 then CState.padding c.name c.len else .body c.name c.len c.len)) 1 e
            (by rw [hset, e2]) (fun _ => e3)
          rw [e5]
          have hoff : c.off = e + 8 := by rw [e2]; rfl
          rw [hoff]
          rw [← e2] at this
          exact this
        apply Tot.bind
        apply Tot.mono (close_chunk_tot s kind L 12 _ 1 pos cs c (by decide) (by decide) hL2 hLs hs hopen (stepOk_fits s L e c hstep))
        intro r3 p3 ⟨hk3, hL3, hcl⟩
        apply Tot.mono (trailing_tot s kind cfg L 12 1 false (by decide) (by decide) hLs hs us' n (by simpa using hfuel)
          r3 p3 (cs ++ [c]) hL3 hcl (by rw [List.append_assoc]; exact hall) hunk.2 (Or.inr hal))
        intro o p4 ⟨r', a1, a2, a3, a4, a5⟩
        exact ⟨r', a1, a2, a3, a4, (hks.trans hk3).trans a5⟩

/-- what `sanitize_with_config` does with the first chunk of the RIFF body, after its header -/
def firstProg (cfg : Config) (fuel : Nat) (name : Bytes) (r3 : RS) : WP (Option RS) :=
  if name = FVP8 then (skipData r3 1).bind fun r => Prog.done (some r)
  else if name = FVP8L then (vp8lChunk r3 1 none).bind fun r => Prog.done (some r)
  else if name = FVP8X then
    (parseData r3 1 Generated.schemaVp8xChunk).bind fun x =>
      match x with
      | (vs, r) => sanitizeExtended cfg r (vs.getD 0 0) (vs.getD 2 0) (vs.getD 3 0) fuel
  else Prog.fail WErr.invalidChunkLayout

/-- the frame of `sanitize_with_config`: RIFF header, form type, first chunk (delegated), trailing chunks, end of file -/
theorem sanitizeP_tot (cfg : Config) (fuel : Nat)
    (h12 : 12 ≤ s.len) (hriff : s.read 0 4 = FRIFF) (hwebp : s.read 8 4 = FWEBP)
    (hsz : le32 s 4 + 8 + le32 s 4 % 2 = s.len) (hpad : le32 s 4 % 2 = 1 → s.get (8 + le32 s 4) = 0)
    (hmax : le32 s 4 ≤ 4294967286) (h4 : 4 ≤ le32 s 4)
    (first : Chunk) (rest : List Chunk) (hall : CChain s (8 + le32 s 4) 12 (8 + le32 s 4) (first :: rest))
    (hfuel : rest.length < fuel)
    (hfirst : ∀ r3, Open s (8 + le32 s 4) 12 r3 1 first.off [] first → limOf r3 1 first.off = 8 + le32 s 4 →
      Tot (idealOps s kind) (firstProg cfg fuel first.name r3) first.off
        (FirstDone s (8 + le32 s 4) cfg.allowUnknownChunks first rest r3)) :
    Tot (idealOps s kind) (sanitizeP cfg fuel) 0 (fun o _ => o = some ()) := by
  have hs : s.len < u64Lim := by unfold u64Lim; omega
  have hLs : 8 + le32 s 4 ≤ s.len := by omega
  unfold sanitizeP
  dsimp only
  -- level 0: the RIFF header
  have hlim0 : LimIs s ({} : RS) 0 0 s.len := ⟨fun h => by omega, fun _ => rfl⟩
  apply Ret.bind s kind
    (readHeader_ret s kind {} 0 0 s.len FRIFF (by decide) hlim0 (Nat.le_refl _) (Or.inl rfl) (by intro n len h; cases h)
      (by show 0 + 8 ≤ s.len; omega) (by show s.read 0 4 = FRIFF; exact hriff))
    (readHeader_rel s kind {} 0 0 FRIFF (by decide) (Or.inl rfl))
  intro r1 p1 ⟨k1, _, hrest⟩
  have hb0 : bdry (({} : RS).get 0) 0 = 0 := rfl
  rw [hb0] at hrest
  obtain ⟨_, h8, hp1, hriff', hget1⟩ := hrest
  subst hp1
  have hcur1 : Cur 0 r1 0 (0 + 8) (hdrAt s 0) := cur_fresh s 0 r1 0 0 (by rw [hget1, hriff']) (fun h => by omega)
  have hsize : (hdrAt s 0).len = le32 s 4 := rfl
  have hoff : (hdrAt s 0).off = 8 := rfl
  have hst1 : r1.get 0 = .body FRIFF (le32 s 4) (le32 s 4) := by
    rw [hget1, hsize]; unfold fresh; rw [if_neg (by omega)]
  have hrl : riffLen r1.l0 = le32 s 4 + 8 := by
    have : r1.l0 = .body FRIFF (le32 s 4) (le32 s 4) := hst1
    rw [this]; rfl
  rw [hrl]
  have hlim1 : LimIs s r1 0 (0 + 8) s.len := ⟨fun h => by omega, fun _ => rfl⟩
  apply Ret.bind s kind
    (readData_ret s kind r1 0 4 (0 + 8) s.len hlim1 (Nat.le_refl _) FRIFF (le32 s 4) (le32 s 4) hst1 h4 (by omega))
    (readData_rel s kind r1 0 4 (0 + 8) (by decide) (hdrAt s 0) (by simpa [limOf] using hcur1))
  intro x p2 ⟨k2, hx1, hp2, hle2, hlen2, hcur2⟩
  obtain ⟨b, r2⟩ := x
  dsimp only at k2 hx1 hcur2 ⊢
  subst hp2
  have hb : b = FWEBP := by rw [hx1]; exact hwebp
  rw [if_neg (by rw [hb]; simp)]
  rw [if_neg (by unfold Generated.webpMaxFileLen; omega)]
  -- level 1 starts here
  have hcur2' : Cur 0 r2 0 12 (hdrAt s 0) := by simpa [limOf] using hcur2
  have hE0 : E0 (r2.set 1 .idle) 12 = 8 + le32 s 4 := by
    have hc := hcur2'
    unfold Cur at hc
    simp only [RS.get] at hc
    simp only [E0, RS.set]
    cases h : r2.l0 with
    | idle => rw [h] at hc; exact hc.elim
    | peeking a b => rw [h] at hc; exact hc.elim
    | body n l rem =>
      rw [h] at hc; simp only [bodyRemaining]
      have := hc.2.2.1; rw [hoff, hsize] at this; omega
    | padding n l =>
      rw [h] at hc; simp only [bodyRemaining]
      have := hc.2.2.1; rw [hoff, hsize] at this; omega
  have hL1 : limOf (r2.set 1 .idle) 1 12 = 8 + le32 s 4 := by simpa [limOf] using hE0
  have hks : Keeps 1 r2 12 (r2.set 1 .idle) 12 := keeps_set r2 1 12 .idle (by decide)
  have hcl0 : Closed s (8 + le32 s 4) 12 (r2.set 1 .idle) 1 12 [] := Closed.start s _ _ 1 12 (by simp [RS.get, RS.set])
  apply Tot.bind
  apply Tot.mono (next_header_tot s kind _ 12 (r2.set 1 .idle) 1 12 [] first rest (by decide) (by decide) hL1 hLs hcl0 hall)
  intro y q3 ⟨k3, l3, hfn, hop3, hq3⟩
  obtain ⟨name, r3⟩ := y
  dsimp only at k3 l3 hfn hop3 hq3 ⊢
  subst hq3
  subst hfn
  apply Tot.bind
  apply Tot.mono (hfirst r3 hop3 l3)
  intro o p4 ⟨r4, mid, us, ho, l4, k4, hbnd4, hsplit, htr⟩
  subst ho
  dsimp only
  unfold trailingOk at htr
  rw [Bool.and_eq_true] at htr
  have hall' : CChain s (8 + le32 s 4) 12 (8 + le32 s 4) ((first :: mid) ++ us) := by
    rw [List.cons_append, ← hsplit]; exact hall
  apply Tot.bind
  apply Tot.mono (trailing_tot_b s kind cfg (8 + le32 s 4) hLs hs us fuel
    (by rw [hsplit] at hfuel; simp only [List.length_append] at hfuel; omega) r4 p4 (first :: mid) l4 hbnd4 hall' htr.1
    (by
      rcases Bool.or_eq_true _ _ |>.mp htr.2 with h | h
      · left; simpa using h
      · right; exact h))
  intro o2 p5 ⟨r5, ho2, l5, hidle5, hp5, k5⟩
  subst ho2
  dsimp only
  -- back on level 0: the RIFF chunk is finished
  have hk1all : Keeps 1 r2 12 r5 p5 := ((hks.trans k3).trans k4).trans k5
  have hcur5 : Cur 0 r5 0 p5 (hdrAt s 0) := cur_keep0 0 r2 r5 12 p5 (hdrAt s 0) hcur2' hk1all
  have hst5 : r5.get 0 = .padding FRIFF (le32 s 4) := by
    have hc := hcur5
    unfold Cur at hc
    cases hst : r5.get 0 with
    | idle => rw [hst] at hc; exact hc.elim
    | peeking a b => rw [hst] at hc; exact hc.elim
    | body n l rem => rw [hst] at hc; obtain ⟨_, _, c3, c4⟩ := hc; rw [hoff, hsize] at c3; omega
    | padding n l =>
      rw [hst] at hc
      obtain ⟨c1, c2, _, _⟩ := hc
      rw [c1, c2, hsize]
      have : (hdrAt s 0).name = FRIFF := hriff
      rw [this]
  have hlim5 : LimIs s r5 0 p5 s.len := ⟨fun h => by omega, fun _ => rfl⟩
  apply Ret.bind s kind
    (hasRemaining_ret s kind r5 0 p5 s.len (by decide) hlim5 (Nat.le_refl _) (by
      intro n len h hodd
      rw [hst5] at h
      simp only [CState.padding.injEq] at h
      rw [← h.2] at hodd
      rw [hp5]
      exact ⟨by omega, hpad hodd⟩))
    (hasRemaining_rel s kind r5 0 p5 (by decide))
  intro w p6 ⟨k6, hp6, _, hrest6⟩
  obtain ⟨more, r6⟩ := w
  rw [hst5] at hrest6 hp6
  dsimp only at hrest6 hp6 ⊢
  have hp6' : p6 = p5 + le32 s 4 % 2 := hp6
  have hmf : more = false := hrest6.2.mpr (Or.inr (by omega))
  subst hmf
  rw [if_neg (by simp)]
  apply Tot.position
  apply Tot.streamLen
  rw [if_pos (by omega)]
  exact Tot.done rfl

/-- T1 for `read_header(name)`, total: the next chunk of the tiling has that name -/
theorem next_named_tot (L start : Nat) (r : RS) (k pos : Nat) (cs : List Chunk) (c : Chunk) (rest : List Chunk)
    (hk : k ≤ 2) (h1k : 1 ≤ k) (hL : limOf r k pos = L) (hLs : L ≤ s.len) (hc : Closed s L start r k pos cs)
    (hall : CChain s L start L (cs ++ c :: rest)) :
    Tot (idealOps s kind) (readHeader r k c.name) pos
      (fun r' pos' => Keeps k r pos r' pos' ∧ limOf r' k pos' = L ∧ Open s L start r' k pos' cs c ∧ pos' = c.off) := by
  obtain ⟨hstep, hb⟩ := closed_next s L start r k pos cs c rest h1k hc hall
  apply Tot.mono (Ret.with s kind
    (readHeader_ret s kind r k pos L c.name hk (limIs_of s r k pos L h1k hL) hLs hc.state
      (closed_pad s L start r k pos cs (c :: rest) hc hall) hstep.2.1 (by rw [hstep.1]))
    (next_named s kind L start r k pos cs c.name hk h1k hL hc))
  intro r' p1 ⟨hkeep, hL1, c', _, hopen, hp1⟩
  have hcc : c' = c := by
    obtain ⟨e, e1, e2, _, _⟩ := hopen
    have := (cchain_split s L start e L cs (c :: rest) e1 hall).1.1
    rw [e2, this]
  subst hcc
  exact ⟨hkeep, hL1, hopen, hp1⟩

theorem flagSet_iff (flags b : Nat) : flagSet flags b = decide (flags / b % 2 = 1) := rfl

/-- the image data of a still picture, as the recogniser accepts it, is read through -/
theorem still_tot (L start : Nat) (r : RS) (pos : Nat) (cs tail rem : List Chunk) (flags cw ch : Nat)
    (hL : limOf r 1 pos = L) (hLs : L ≤ s.len) (hs : s.len < u64Lim) (hc : Closed s L start r 1 pos cs)
    (hall : CChain s L start L (cs ++ tail))
    (himg : imageData s tail (flagSet flags 16) (flagSet flags 16) cw ch = some rem) :
    Tot (idealOps s kind) (sanitizeStill r flags cw ch) pos
      (fun r' pos' => Keeps 1 r pos r' pos' ∧ limOf r' 1 pos' = L ∧
        ∃ img, tail = img ++ rem ∧ Closed s L start r' 1 pos' (cs ++ img)) := by
  unfold imageData at himg
  cases tail with
  | nil => simp at himg
  | cons a rest =>
    dsimp only at himg
    rw [cc_ALPH, cc_VP8, cc_VP8L] at himg
    unfold sanitizeStill
    dsimp only
    by_cases ha : a.name = FALPH
    · rw [if_pos ha] at himg
      cases hf : flagSet flags 16 with
      | false => rw [hf] at himg; simp at himg
      | true =>
        rw [hf] at himg
        simp only [Bool.not_true, Bool.false_eq_true, if_false] at himg
        split at himg
        · cases himg
        rename_i hok
        have hok' : alphOk s a cw ch = true := by simpa using hok
        cases rest with
        | nil => simp at himg
        | cons v rest' =>
          dsimp only at himg
          split at himg
          · rename_i hv
            simp only [Option.some.injEq] at himg
            subst himg
            rw [if_pos rfl]
            -- ALPH
            apply Tot.bind
            apply Tot.bind
            have hn := next_named_tot s kind L start r 1 pos cs a (v :: rest') (by decide) (by decide) hL hLs hc hall
            rw [ha] at hn
            apply Tot.mono hn
            intro r1 p1 ⟨k1, l1, ao, ap⟩
            have hfa : Fits s L a := by
              obtain ⟨e, e1, e2, _, _⟩ := ao
              exact stepOk_fits s L e a (cchain_split s L start e L cs (a :: v :: rest') e1 hall).1
            apply Tot.mono (Ret.with s kind
              (alphChunk_ret s kind L start r1 1 p1 cs a cw ch (by decide) (by decide) l1 hLs hs ao ap hfa hok')
              (alphChunk_rel s kind L start r1 1 p1 cs a cw ch (by decide) (by decide) l1 ao ap))
            intro r2 p2 ⟨k2, l2, cl2, _⟩
            -- more chunks? the image
            have hall2 : CChain s L start L ((cs ++ [a]) ++ v :: rest') := by rw [List.append_assoc]; exact hall
            apply Tot.bind
            apply Tot.mono (more_chunks_tot s kind L start r2 1 p2 (cs ++ [a]) (v :: rest') (by decide) (by decide) l2 hLs cl2 hall2)
            intro x p3 ⟨k3, l3, hidle, hch, hmore⟩
            obtain ⟨more, r3⟩ := x
            have hm : more = true := hmore.mpr (by intro h; cases h)
            subst hm
            dsimp only at k3 l3 hidle ⊢
            rw [if_neg (by simp)]
            apply Tot.bind
            apply Tot.mono (next_header_tot s kind L start r3 1 p3 (cs ++ [a]) v rest' (by decide) (by decide) l3 hLs
              (Or.inl ⟨hidle, hch⟩) hall2)
            intro y p4 ⟨k4, l4, hname, hopen, hp4⟩
            obtain ⟨name, r4⟩ := y
            dsimp only at k4 l4 hname hopen ⊢
            rw [hname, if_pos hv]
            have hfv : Fits s L v := by
              obtain ⟨e, e1, e2, _, _⟩ := hopen
              exact stepOk_fits s L e v (cchain_split s L start e L (cs ++ [a]) (v :: rest') e1 hall2).1
            apply Tot.mono (close_chunk_tot s kind L start r4 1 p4 (cs ++ [a]) v (by decide) (by decide) l4 hLs hs hopen hfv)
            intro r5 p5 ⟨k5, l5, cl5⟩
            exact ⟨(((k1.trans k2).trans k3).trans k4).trans k5, l5, [a, v], rfl, by
              rw [List.append_assoc] at cl5; exact cl5⟩
          · cases himg
    · rw [if_neg ha] at himg
      cases hf : flagSet flags 16 with
      | true => rw [hf] at himg; simp at himg
      | false =>
        rw [hf] at himg
        simp only [Bool.false_eq_true, if_false] at himg
        rw [if_neg (by simp)]
        show Tot _ (Prog.bind (hasRemaining r 1) _) pos _
        apply Tot.bind
        apply Tot.mono (more_chunks_tot s kind L start r 1 pos cs (a :: rest) (by decide) (by decide) hL hLs hc hall)
        intro x p3 ⟨k3, l3, hidle, hch, hmore⟩
        obtain ⟨more, r3⟩ := x
        have hm : more = true := hmore.mpr (by intro h; cases h)
        subst hm
        dsimp only at k3 l3 hidle ⊢
        rw [if_neg (by simp)]
        apply Tot.bind
        apply Tot.mono (next_header_tot s kind L start r3 1 p3 cs a rest (by decide) (by decide) l3 hLs
          (Or.inl ⟨hidle, hch⟩) hall)
        intro y p4 ⟨k4, l4, hname, hopen, hp4⟩
        obtain ⟨name, r4⟩ := y
        dsimp only at k4 l4 hname hopen ⊢
        have hfa : Fits s L a := by
          obtain ⟨e, e1, e2, _, _⟩ := hopen
          exact stepOk_fits s L e a (cchain_split s L start e L cs (a :: rest) e1 hall).1
        rw [hname]
        by_cases hv : a.name = FVP8
        · rw [if_pos hv] at himg
          simp only [Option.some.injEq] at himg
          subst himg
          rw [if_pos hv]
          apply Tot.mono (close_chunk_tot s kind L start r4 1 p4 cs a (by decide) (by decide) l4 hLs hs hopen hfa)
          intro r5 p5 ⟨k5, l5, cl5⟩
          exact ⟨(k3.trans k4).trans k5, l5, [a], rfl, cl5⟩
        · rw [if_neg hv] at himg ⊢
          by_cases hvl : a.name = FVP8L
          · rw [if_pos hvl] at himg ⊢
            split at himg
            · rename_i hok
              simp only [Option.some.injEq] at himg
              subst himg
              rw [if_neg (by simp)]
              apply Tot.mono (Ret.with s kind
                (vp8lChunk_ret s kind L start r4 1 p4 cs a (some (cw, ch)) (by decide) (by decide) l4 hLs hs hopen hp4 hfa hok)
                (vp8lChunk_rel s kind L start r4 1 p4 cs a (some (cw, ch)) (by decide) (by decide) l4 hopen hp4))
              intro r5 p5 ⟨k5, l5, cl5, _⟩
              exact ⟨(k3.trans k4).trans k5, l5, [a], rfl, cl5⟩
            · cases himg
          · rw [if_neg hvl] at himg
            cases himg

theorem cchain_length (L a b : Nat) (cs : List Chunk) (h : CChain s L a b cs) : a + 8 * cs.length ≤ b := by
  induction cs generalizing a with
  | nil => have : a = b := h; simp; omega
  | cons x xs ih =>
    have := ih x.endOff h.2
    obtain ⟨h1, _, _, _⟩ := h.1
    have hx : x.off = a + 8 := by rw [h1]; rfl
    unfold Chunk.endOff at this
    simp only [List.length_cons]
    omega

/-- the first chunk is a lossy image -/
theorem first_vp8 (cfg : Config) (fuel : Nat) (L1 : Nat) (hLs : L1 ≤ s.len) (hs : s.len < u64Lim) (first : Chunk)
    (rest : List Chunk) (hall : CChain s L1 12 L1 (first :: rest)) (hname : first.name = FVP8)
    (htr : trailingOk rest cfg.allowUnknownChunks = true) (r3 : RS) (hop : Open s L1 12 r3 1 first.off [] first)
    (hL : limOf r3 1 first.off = L1) :
    Tot (idealOps s kind) (firstProg cfg fuel first.name r3) first.off (FirstDone s L1 cfg.allowUnknownChunks first rest r3) := by
  unfold firstProg
  rw [if_pos hname]
  apply Tot.bind
  apply Tot.mono (close_chunk_tot s kind L1 12 r3 1 first.off [] first (by decide) (by decide) hL hLs hs hop
    (stepOk_fits s L1 12 first hall.1))
  intro r4 p4 ⟨k4, l4, hcl⟩
  exact Tot.done ⟨r4, [], rest, rfl, l4, k4, Or.inl hcl, rfl, htr⟩

/-- the first chunk is a lossless image the recogniser accepts -/
theorem first_vp8l (cfg : Config) (fuel : Nat) (L1 : Nat) (hLs : L1 ≤ s.len) (hs : s.len < u64Lim) (first : Chunk)
    (rest : List Chunk) (hall : CChain s L1 12 L1 (first :: rest)) (hname : first.name = FVP8L)
    (hok : vp8lOk s first none = true)
    (htr : trailingOk rest cfg.allowUnknownChunks = true) (r3 : RS) (hop : Open s L1 12 r3 1 first.off [] first)
    (hL : limOf r3 1 first.off = L1) :
    Tot (idealOps s kind) (firstProg cfg fuel first.name r3) first.off (FirstDone s L1 cfg.allowUnknownChunks first rest r3) := by
  unfold firstProg
  rw [if_neg (by rw [hname]; decide), if_pos hname]
  apply Tot.bind
  apply Tot.mono (Ret.with s kind
    (vp8lChunk_ret s kind L1 12 r3 1 first.off [] first none (by decide) (by decide) hL hLs hs hop rfl
      (stepOk_fits s L1 12 first hall.1) hok)
    (vp8lChunk_rel s kind L1 12 r3 1 first.off [] first none (by decide) (by decide) hL hop rfl))
  intro r4 p4 ⟨k4, l4, hcl, _⟩
  exact Tot.done ⟨r4, [], rest, rfl, l4, k4, Or.inl hcl, rfl, htr⟩

end
end MediaSan.Webp
