/-
  A small program logic for runs of I/O programs on the ideal cursor: `Safe s kind p pos Q` says the run of `p`
  from position `pos` does not panic and, when it returns a value, the value and the final position satisfy `Q`.
-/
import MediaSan.Stream
namespace MediaSan
open MediaSan

/-- run returning the final cursor state -/
def Prog.runF {E α σ} (ops : CursorOps σ) : Prog E α → σ → Outcome E (α × σ)
  | .done a, st => .ok (a, st)
  | .fail e, _ => .parseErr e
  | .panic s, _ => .panic s
  | .isEof k, st =>
    match ops.isEof st with
    | .ok (b, st') => (k b).runF ops st'
    | .error e => .ioErr e
  | .position k, st =>
    match ops.position st with
    | .ok (p, st') => (k p).runF ops st'
    | .error e => .ioErr e
  | .streamLen k, st =>
    match ops.streamLen st with
    | .ok (p, st') => (k p).runF ops st'
    | .error e => .ioErr e
  | .readExact n eof k, st =>
    match ops.readExact st n with
    | .ok (b, st') => (k b).runF ops st'
    | .error e => mapEof eof e
  | .skip n eof k, st =>
    match ops.skip st n with
    | .ok st' => (k ()).runF ops st'
    | .error e => mapEof eof e
  | .readUpTo n k, st =>
    match ops.readUpTo st n with
    | .ok (b, st') => (k b).runF ops st'
    | .error e => .ioErr e

def Outcome.fst {E α σ} : Outcome E (α × σ) → Outcome E α
  | .ok (a, _) => .ok a
  | .parseErr e => .parseErr e
  | .ioErr k => .ioErr k
  | .panic s => .panic s
  | .outOfFuel => .outOfFuel

theorem mapEof_fst {E α σ} (eof : Option E) (k : IoKind) :
    (mapEof eof k : Outcome E (α × σ)).fst = (mapEof eof k : Outcome E α) := by
  unfold mapEof; cases k <;> cases eof <;> rfl

theorem run_eq_runF {E α σ} (ops : CursorOps σ) (p : Prog E α) (st : σ) : p.run ops st = (p.runF ops st).fst := by
  induction p generalizing st with
  | done a => rfl
  | fail e => rfl
  | panic s => rfl
  | isEof k ih => simp only [Prog.run, Prog.runF]; cases ops.isEof st with | ok r => exact ih _ _ | error e => rfl
  | position k ih => simp only [Prog.run, Prog.runF]; cases ops.position st with | ok r => exact ih _ _ | error e => rfl
  | streamLen k ih => simp only [Prog.run, Prog.runF]; cases ops.streamLen st with | ok r => exact ih _ _ | error e => rfl
  | readExact m eof k ih =>
    simp only [Prog.run, Prog.runF]; cases ops.readExact st m with | ok r => exact ih _ _ | error e => exact (mapEof_fst _ _).symm
  | skip m eof k ih =>
    simp only [Prog.run, Prog.runF]; cases ops.skip st m with | ok r => exact ih _ _ | error e => exact (mapEof_fst _ _).symm
  | readUpTo m k ih => simp only [Prog.run, Prog.runF]; cases ops.readUpTo st m with | ok r => exact ih _ _ | error e => rfl

theorem mapEof_cast {E α β} (eof : Option E) (k : IoKind) :
    (match (mapEof eof k : Outcome E α) with
      | .ok _ => (Outcome.outOfFuel : Outcome E β)
      | .parseErr e => .parseErr e
      | .ioErr k => .ioErr k
      | .panic s => .panic s
      | .outOfFuel => .outOfFuel) = mapEof eof k := by
  unfold mapEof; cases k <;> cases eof <;> rfl

theorem runF_bind {E α β σ} (ops : CursorOps σ) (p : Prog E α) (f : α → Prog E β) (st : σ) :
    (p.bind f).runF ops st =
      match p.runF ops st with
      | .ok (a, st') => (f a).runF ops st'
      | .parseErr e => .parseErr e
      | .ioErr k => .ioErr k
      | .panic s => .panic s
      | .outOfFuel => .outOfFuel := by
  induction p generalizing st with
  | done a => rfl
  | fail e => rfl
  | panic s => rfl
  | isEof k ih => simp only [Prog.bind, Prog.runF]; cases ops.isEof st with | ok r => exact ih _ _ | error e => rfl
  | position k ih => simp only [Prog.bind, Prog.runF]; cases ops.position st with | ok r => exact ih _ _ | error e => rfl
  | streamLen k ih => simp only [Prog.bind, Prog.runF]; cases ops.streamLen st with | ok r => exact ih _ _ | error e => rfl
  | readExact m eof k ih =>
    simp only [Prog.bind, Prog.runF]
    cases ops.readExact st m with
    | ok r => exact ih _ _
    | error e => cases e <;> cases eof <;> rfl
  | skip m eof k ih =>
    simp only [Prog.bind, Prog.runF]
    cases ops.skip st m with
    | ok r => exact ih _ _
    | error e => cases e <;> cases eof <;> rfl
  | readUpTo m k ih => simp only [Prog.bind, Prog.runF]; cases ops.readUpTo st m with | ok r => exact ih _ _ | error e => rfl

/-- the run does not panic (or run out of fuel) and a returned value satisfies `Q` together with the final state -/
def Safe {E α σ} (ops : CursorOps σ) (p : Prog E α) (st : σ) (Q : α → σ → Prop) : Prop :=
  match p.runF ops st with
  | .ok (a, st') => Q a st'
  | .parseErr _ => True
  | .ioErr _ => True
  | .panic _ => False
  | .outOfFuel => False

namespace Safe
variable {E α β σ : Type} {ops : CursorOps σ}

theorem done {a : α} {st : σ} {Q : α → σ → Prop} (h : Q a st) : Safe ops (.done a : Prog E α) st Q := h

theorem fail {e : E} {st : σ} {Q : α → σ → Prop} : Safe ops (.fail e : Prog E α) st Q := trivial

theorem mono {p : Prog E α} {st : σ} {Q Q' : α → σ → Prop} (h : Safe ops p st Q) (hq : ∀ a s, Q a s → Q' a s) :
    Safe ops p st Q' := by
  unfold Safe at *
  cases hr : p.runF ops st with
  | ok x => obtain ⟨a, s⟩ := x; rw [hr] at h; exact hq a s h
  | parseErr e => trivial
  | ioErr k => trivial
  | panic s => rw [hr] at h; exact h
  | outOfFuel => rw [hr] at h; exact h

theorem bind {p : Prog E α} {f : α → Prog E β} {st : σ} {Q : β → σ → Prop}
    (h : Safe ops p st (fun a s => Safe ops (f a) s Q)) : Safe ops (p.bind f) st Q := by
  unfold Safe at *
  rw [runF_bind]
  cases hr : p.runF ops st with
  | ok x => obtain ⟨a, s⟩ := x; rw [hr] at h; exact h
  | parseErr e => trivial
  | ioErr k => trivial
  | panic s => rw [hr] at h; exact h
  | outOfFuel => rw [hr] at h; exact h

theorem mapEof_safe {eof : Option E} {k : IoKind} {Q : α → σ → Prop} :
    (match (mapEof eof k : Outcome E (α × σ)) with
      | .ok (a, st') => Q a st' | .parseErr _ => True | .ioErr _ => True | .panic _ => False | .outOfFuel => False) := by
  unfold mapEof; cases k <;> cases eof <;> trivial

end Safe

/-! ### rules for the ideal cursor -/
section Ideal
variable {E α : Type} (s : Stream) (kind : SkipKind)

theorem Safe.isEof {k : Bool → Prog E α} {pos : Nat} {Q : α → Nat → Prop}
    (h : Safe (idealOps s kind) (k (decide (s.len ≤ pos))) pos Q) : Safe (idealOps s kind) (.isEof k) pos Q := by
  unfold Safe at *; simpa only [Prog.runF, idealOps] using h

theorem Safe.position {k : Nat → Prog E α} {pos : Nat} {Q : α → Nat → Prop}
    (h : Safe (idealOps s kind) (k pos) pos Q) : Safe (idealOps s kind) (.position k) pos Q := by
  unfold Safe at *; simpa only [Prog.runF, idealOps] using h

theorem Safe.streamLen {k : Nat → Prog E α} {pos : Nat} {Q : α → Nat → Prop}
    (h : Safe (idealOps s kind) (k s.len) pos Q) : Safe (idealOps s kind) (.streamLen k) pos Q := by
  unfold Safe at *; simpa only [Prog.runF, idealOps] using h

/-- `read_exact(n)`: continues only when the bytes are there -/
theorem Safe.readExact {n : Nat} {eof : Option E} {k : Bytes → Prog E α} {pos : Nat} {Q : α → Nat → Prop}
    (h0 : n = 0 → Safe (idealOps s kind) (k []) pos Q)
    (h1 : n ≠ 0 → pos + n ≤ s.len → Safe (idealOps s kind) (k (s.read pos n)) (pos + n) Q) :
    Safe (idealOps s kind) (.readExact n eof k) pos Q := by
  unfold Safe at *
  simp only [Prog.runF, idealOps]
  by_cases hn : n = 0
  · subst hn; simp only [if_true]; exact h0 rfl
  · by_cases hl : pos + n ≤ s.len
    · simp only [hn, if_false, hl, if_true]; exact h1 hn hl
    · simp only [hn, if_false, hl]; exact Safe.mapEof_safe

/-- `skip(n)`: continues from wherever the skip leaves the cursor -/
theorem Safe.skip {n : Nat} {eof : Option E} {k : Unit → Prog E α} {pos : Nat} {Q : α → Nat → Prop}
    (h : ∀ pos', (idealOps s kind).skip pos n = .ok pos' → Safe (idealOps s kind) (k ()) pos' Q) :
    Safe (idealOps s kind) (.skip n eof k) pos Q := by
  unfold Safe
  simp only [Prog.runF]
  cases hr : (idealOps s kind).skip pos n with
  | ok p' => exact h p' hr
  | error e => exact Safe.mapEof_safe

/-- `take(n).read_to_end()`: whatever is there, up to `n` bytes -/
theorem Safe.readUpTo {n : Nat} {k : Bytes → Prog E α} {pos : Nat} {Q : α → Nat → Prop}
    (h : Safe (idealOps s kind) (k (s.read pos (min n (s.len - pos)))) (pos + min n (s.len - pos)) Q) :
    Safe (idealOps s kind) (.readUpTo n k) pos Q := by
  unfold Safe at *
  simpa only [Prog.runF, idealOps] using h

end Ideal
end MediaSan
