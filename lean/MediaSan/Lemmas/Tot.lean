/-
  Total-correctness triples over I/O programs on the ideal cursor: `Tot ops p st Q` - the run of `p` from `st` RETURNS a
  value, and the value and the final state satisfy `Q`.  The companion of `Tri` (partial correctness) used for the
  converse directions: every file that meets the rules is accepted.
-/
import MediaSan.Lemmas.Tri
namespace MediaSan

def Tot {E α σ} (ops : CursorOps σ) (p : Prog E α) (st : σ) (Q : α → σ → Prop) : Prop :=
  ∃ a st', p.runF ops st = .ok (a, st') ∧ Q a st'

namespace Tot
variable {E α β σ : Type} {ops : CursorOps σ}

theorem done {a : α} {st : σ} {Q : α → σ → Prop} (h : Q a st) : Tot ops (.done a : Prog E α) st Q := ⟨a, st, rfl, h⟩

theorem mono {p : Prog E α} {st : σ} {Q Q' : α → σ → Prop} (h : Tot ops p st Q) (hq : ∀ a s, Q a s → Q' a s) :
    Tot ops p st Q' := by
  obtain ⟨a, s', hr, hq'⟩ := h
  exact ⟨a, s', hr, hq a s' hq'⟩

theorem bind {p : Prog E α} {f : α → Prog E β} {st : σ} {Q : β → σ → Prop}
    (h : Tot ops p st (fun a s => Tot ops (f a) s Q)) : Tot ops (p.bind f) st Q := by
  obtain ⟨a, s', hr, b, s'', hr2, hq⟩ := h
  refine ⟨b, s'', ?_, hq⟩
  rw [runF_bind, hr]
  exact hr2

/-- what a run that is known to return establishes, through a partial-correctness triple -/
theorem and_tri {p : Prog E α} {st : σ} {Q R : α → σ → Prop} (h : Tot ops p st Q) (ht : Tri ops p st R) :
    Tot ops p st (fun a s => Q a s ∧ R a s) := by
  obtain ⟨a, s', hr, hq⟩ := h
  exact ⟨a, s', hr, hq, Tri.elim ht hr⟩

end Tot

section Ideal
variable {E α : Type} (s : Stream) (kind : SkipKind)

theorem Tot.isEof {k : Bool → Prog E α} {pos : Nat} {Q : α → Nat → Prop}
    (h : Tot (idealOps s kind) (k (decide (s.len ≤ pos))) pos Q) : Tot (idealOps s kind) (.isEof k) pos Q := by
  unfold Tot at *; simpa only [Prog.runF, idealOps] using h

theorem Tot.position {k : Nat → Prog E α} {pos : Nat} {Q : α → Nat → Prop}
    (h : Tot (idealOps s kind) (k pos) pos Q) : Tot (idealOps s kind) (.position k) pos Q := by
  unfold Tot at *; simpa only [Prog.runF, idealOps] using h

theorem Tot.streamLen {k : Nat → Prog E α} {pos : Nat} {Q : α → Nat → Prop}
    (h : Tot (idealOps s kind) (k s.len) pos Q) : Tot (idealOps s kind) (.streamLen k) pos Q := by
  unfold Tot at *; simpa only [Prog.runF, idealOps] using h

theorem Tot.readExact {n : Nat} {eof : Option E} {k : Bytes → Prog E α} {pos : Nat} {Q : α → Nat → Prop}
    (hfit : pos + n ≤ s.len) (h : Tot (idealOps s kind) (k (s.read pos n)) (pos + n) Q) :
    Tot (idealOps s kind) (.readExact n eof k) pos Q := by
  have hre : (idealOps s kind).readExact pos n = .ok (s.read pos n, pos + n) := by
    simp only [idealOps]
    by_cases hn : n = 0
    · subst hn; rfl
    · simp only [hn, if_false, hfit, if_true]
  unfold Tot at *
  simp only [Prog.runF, hre]
  exact h

theorem ideal_skip_within (pos n : Nat) (hl : s.len < u64Lim) (h : pos + n ≤ s.len) :
    (idealOps s kind).skip pos n = .ok (pos + n) := by
  simp only [idealOps]
  cases kind with
  | strict => simp [h]
  | seekable =>
    dsimp only
    by_cases h0 : n = 0
    · simp [h0]
    · have : pos + n < u64Lim := by omega
      simp [h0, this]

theorem Tot.skip {n : Nat} {eof : Option E} {k : Unit → Prog E α} {pos : Nat} {Q : α → Nat → Prop}
    (hl : s.len < u64Lim) (hfit : pos + n ≤ s.len) (h : Tot (idealOps s kind) (k ()) (pos + n) Q) :
    Tot (idealOps s kind) (.skip n eof k) pos Q := by
  unfold Tot at *
  simp only [Prog.runF, ideal_skip_within s kind pos n hl hfit]
  exact h

end Ideal
end MediaSan
