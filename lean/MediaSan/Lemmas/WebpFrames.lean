/-
  C06, completeness: peeked headers, the frames of an animation, the extended format.
-/
import MediaSan.Lemmas.WebpComplete
namespace MediaSan.Webp
open MediaSan MediaSan.Spec.WebpGrammar

section
variable (s : Stream) (kind : SkipKind)

/-! ### a header that has been peeked -/

theorem readPadding_peeking (r : RS) (k : Nat) (n : Bytes) (l : Nat) (hst : r.get k = .peeking n l) :
    readPadding r k = .done r := by unfold readPadding; rw [hst]

theorem readAnyHeader_peeked_ret (r : RS) (k pos : Nat) (n : Bytes) (l : Nat) (hst : r.get k = .peeking n l)
    (hpos : 8 ≤ pos) : Ret s kind (readAnyHeader r k) pos := by
  unfold readAnyHeader
  rw [readPadding_peeking r k n l hst]
  show Ret s kind (match r.get k with
    | .peeking name len => _
    | .idle => _
    | .body _ _ _ => _
    | .padding _ _ => _) pos
  rw [hst]
  dsimp only
  apply Tot.position
  rw [if_neg (by omega)]
  exact Tot.done trivial

theorem readHeader_peeked_ret (r : RS) (k pos : Nat) (hk : k ≤ 2) (n : Bytes) (l : Nat) (hst : r.get k = .peeking n l)
    (hpos : 8 ≤ pos) (name : Bytes) (hname : n = name) : Ret s kind (readHeader r k name) pos := by
  unfold readHeader
  rw [readPadding_peeking r k n l hst]
  show Ret s kind (match r.get k with
    | .idle => _
    | _ => _) pos
  rw [hst]
  dsimp only
  apply Ret.bind s kind (readAnyHeader_peeked_ret s kind r k pos n l hst hpos) (readAnyHeader_peeked s kind r k pos hk n l hst)
  intro y p1 ⟨_, _, y2, _⟩
  obtain ⟨got, r1⟩ := y
  dsimp only at y2 ⊢
  rw [if_pos (by rw [y2, hname])]
  exact Tot.done trivial

theorem peekHeader_peeked_ret (r : RS) (k pos : Nat) (n : Bytes) (l : Nat) (hst : r.get k = .peeking n l) :
    Ret s kind (peekHeader r k) pos := by
  unfold peekHeader
  rw [readPadding_peeking r k n l hst]
  show Ret s kind (match r.get k with
    | .peeking name _ => _
    | .idle => _
    | .body _ _ _ => _
    | .padding _ _ => _) pos
  rw [hst]
  exact Tot.done trivial

/-- the peeked chunk is the next chunk of the tiling -/
theorem peeked_is_next (L start : Nat) (r : RS) (k pos : Nat) (cs : List Chunk) (c' c : Chunk) (rest : List Chunk)
    (hp : Peeked s L start r k pos cs c') (hall : CChain s L start L (cs ++ c :: rest)) : c' = c := by
  obtain ⟨e, e1, e2, _, _, _⟩ := hp
  have := (cchain_split s L start e L cs (c :: rest) e1 hall).1.1
  rw [e2, this]

theorem peeked_pos (L start : Nat) (r : RS) (k pos : Nat) (cs : List Chunk) (c : Chunk)
    (hp : Peeked s L start r k pos cs c) : 8 ≤ pos := by
  obtain ⟨e, _, e2, _, _, e5⟩ := hp
  rw [e5, e2]; simp only [hdrAt]; omega

/-- T1 from a boundary where the next header may have been peeked -/
theorem next_header_tot_b (L start : Nat) (r : RS) (k pos : Nat) (cs : List Chunk) (c : Chunk) (rest : List Chunk)
    (hk : k ≤ 2) (h1k : 1 ≤ k) (hL : limOf r k pos = L) (hLs : L ≤ s.len) (hb : Bnd s L start r k pos cs)
    (hall : CChain s L start L (cs ++ c :: rest)) :
    Tot (idealOps s kind) (readAnyHeader r k) pos
      (fun x pos' => Keeps k r pos x.2 pos' ∧ limOf x.2 k pos' = L ∧ x.1 = c.name ∧ Open s L start x.2 k pos' cs c ∧
        pos' = c.off) := by
  rcases hb with hc | ⟨c', hp⟩
  · exact next_header_tot s kind L start r k pos cs c rest hk h1k hL hLs hc hall
  · have hcc := peeked_is_next s L start r k pos cs c' c rest hp hall
    subst hcc
    obtain ⟨e, e1, e2, e3, hst, e5⟩ := hp
    exact Ret.with s kind
      (readAnyHeader_peeked_ret s kind r k pos c'.name c'.len hst (peeked_pos s L start r k pos cs c' ⟨e, e1, e2, e3, hst, e5⟩))
      (open_peeked_any s kind L start r k pos cs c' hk h1k hL ⟨e, e1, e2, e3, hst, e5⟩)

/-- T1 for `read_header(name)` from such a boundary -/
theorem next_named_tot_b (L start : Nat) (r : RS) (k pos : Nat) (cs : List Chunk) (c : Chunk) (rest : List Chunk)
    (hk : k ≤ 2) (h1k : 1 ≤ k) (hL : limOf r k pos = L) (hLs : L ≤ s.len) (hb : Bnd s L start r k pos cs)
    (hall : CChain s L start L (cs ++ c :: rest)) :
    Tot (idealOps s kind) (readHeader r k c.name) pos
      (fun r' pos' => Keeps k r pos r' pos' ∧ limOf r' k pos' = L ∧ Open s L start r' k pos' cs c ∧ pos' = c.off) := by
  rcases hb with hc | ⟨c', hp⟩
  · exact next_named_tot s kind L start r k pos cs c rest hk h1k hL hLs hc hall
  · have hcc := peeked_is_next s L start r k pos cs c' c rest hp hall
    subst hcc
    obtain ⟨e, e1, e2, e3, hst, e5⟩ := hp
    apply Tot.mono (Ret.with s kind
      (readHeader_peeked_ret s kind r k pos hk c'.name c'.len hst (peeked_pos s L start r k pos cs c' ⟨e, e1, e2, e3, hst, e5⟩)
        c'.name rfl)
      (open_peeked s kind L start r k pos cs c' c'.name hk h1k hL ⟨e, e1, e2, e3, hst, e5⟩))
    intro r' p1 ⟨a, b, _, d, e'⟩
    exact ⟨a, b, d, e'⟩

/-- peeking from a closed level: the header of the next chunk of the tiling, or nothing at the end of the region -/
theorem peek_tot (L start : Nat) (r : RS) (k pos : Nat) (cs rest : List Chunk) (hk : k ≤ 2) (h1k : 1 ≤ k)
    (hL : limOf r k pos = L) (hLs : L ≤ s.len) (hc : Closed s L start r k pos cs) (hall : CChain s L start L (cs ++ rest)) :
    Tot (idealOps s kind) (peekHeader r k) pos
      (fun x pos' => Keeps k r pos x.2 pos' ∧ limOf x.2 k pos' = L ∧
        match rest with
        | [] => x.1 = none ∧ x.2.get k = .idle ∧ pos' = L
        | c :: _ => x.1 = some c.name ∧ Peeked s L start x.2 k pos' cs c) := by
  have hpad := closed_pad s L start r k pos cs rest hc hall
  have hb : CChain s L start (bdry (r.get k) pos) cs := by
    apply hc.bdry s h1k
    cases hq : r.get k with
    | padding n len =>
      intro hodd
      have := hpad n len hq hodd
      exact ⟨fun _ => this.1, this.2⟩
    | idle => trivial
    | peeking a b => trivial
    | body a b c' => trivial
  have hsplit := cchain_split s L start _ L cs rest hb hall
  have hfit : bdry (r.get k) pos + 8 ≤ L ∨ L ≤ bdry (r.get k) pos := by
    cases rest with
    | nil => right; have : bdry (r.get k) pos = L := hsplit; omega
    | cons c rest' => left; exact hsplit.1.2.1
  apply Tot.mono (Ret.with s kind
    (peekHeader_ret s kind r k pos L hk (limIs_of s r k pos L h1k hL) hLs hc.state hpad hfit)
    (peek_next s kind L start r k pos cs hk h1k hL hc))
  intro x p1 ⟨hkeep, hL1, hcase⟩
  refine ⟨hkeep, hL1, ?_⟩
  cases rest with
  | nil =>
    rcases hcase with ⟨a1, a2, a3, _⟩ | ⟨c', _, hp⟩
    · exact ⟨a1, a2, cchain_split s L start p1 L cs [] a3 hall⟩
    · exfalso
      obtain ⟨e, e1, _, e3, _, _⟩ := hp
      have : e = L := cchain_split s L start e L cs [] e1 hall
      omega
  | cons c rest' =>
    rcases hcase with ⟨_, _, a3, a4⟩ | ⟨c', a1, hp⟩
    · exfalso
      have := (cchain_split s L start p1 L cs (c :: rest') a3 hall).1.2.1
      rcases a4 with h | h <;> omega
    · have hcc := peeked_is_next s L start x.2 k p1 cs c' c rest' hp hall
      subst hcc
      exact ⟨a1, hp⟩

/-- what the recogniser's `imageData` accepts -/
theorem imageData_some (cs : List Chunk) (alphaFlag alphReq : Bool) (w h : Nat) (rem : List Chunk)
    (himg : imageData s cs alphaFlag alphReq w h = some rem) :
    (∃ a v, cs = a :: v :: rem ∧ a.name = FALPH ∧ alphaFlag = true ∧ alphOk s a w h = true ∧ v.name = FVP8) ∨
    (∃ v, cs = v :: rem ∧ v.name ≠ FALPH ∧ alphReq = false ∧
      (v.name = FVP8 ∨ (v.name = FVP8L ∧ vp8lOk s v (some (w, h)) = true))) := by
  unfold imageData at himg
  cases cs with
  | nil => simp at himg
  | cons a rest1 =>
    dsimp only at himg
    rw [cc_ALPH, cc_VP8, cc_VP8L] at himg
    by_cases ha : a.name = FALPH
    · rw [if_pos ha] at himg
      cases hf : alphaFlag with
      | false => rw [hf] at himg; simp at himg
      | true =>
        rw [hf] at himg
        rw [if_neg (by simp)] at himg
        cases hao : alphOk s a w h with
        | false => rw [hao] at himg; simp at himg
        | true =>
          rw [hao] at himg
          rw [if_neg (by simp)] at himg
          cases rest1 with
          | nil => simp at himg
          | cons v rest' =>
            dsimp only at himg
            by_cases hv : v.name = FVP8
            · rw [if_pos hv] at himg
              simp only [Option.some.injEq] at himg
              subst himg
              exact Or.inl ⟨a, v, rfl, ha, rfl, hao, hv⟩
            · rw [if_neg hv] at himg; cases himg
    · rw [if_neg ha] at himg
      cases hr : alphReq with
      | true => rw [hr] at himg; simp at himg
      | false =>
        rw [hr] at himg
        rw [if_neg (by simp)] at himg
        by_cases hv : a.name = FVP8
        · rw [if_pos hv] at himg
          simp only [Option.some.injEq] at himg
          subst himg
          exact Or.inr ⟨a, rfl, ha, rfl, Or.inl hv⟩
        · rw [if_neg hv] at himg
          by_cases hvl : a.name = FVP8L
          · rw [if_pos hvl] at himg
            cases hk : vp8lOk s a (some (w, h)) with
            | false => rw [hk] at himg; simp at himg
            | true =>
              rw [hk] at himg
              simp only [if_true, Option.some.injEq] at himg
              subst himg
              exact Or.inr ⟨a, rfl, ha, rfl, Or.inr ⟨hvl, hk⟩⟩
          · rw [if_neg hvl] at himg; cases himg

/-! ### one frame -/

/-- what `sanitize_animated` does in a frame after the optional ALPH chunk -/
def frameTail (cfg : Config) (sawAlph : Bool) (fw fh fuel : Nat) (r : RS) : WP (Option RS) :=
  (readAnyHeader r 2).bind fun (name, r) =>
    (if name = FVP8 then skipData r 2
     else if name = FVP8L then
       if sawAlph then .fail .invalidChunkLayout else vp8lChunk r 2 (some (fw, fh))
     else .fail .invalidChunkLayout).bind fun r =>
    trailingLoop cfg 2 true fuel r

theorem frameTail_tot (cfg : Config) (L2 start2 : Nat) (hLs : L2 ≤ s.len) (hs : s.len < u64Lim) (sawAlph : Bool)
    (fw fh fuel : Nat) (r : RS) (pos : Nat) (pre : List Chunk) (v : Chunk) (us : List Chunk)
    (hL : limOf r 2 pos = L2) (hb : Bnd s L2 start2 r 2 pos pre) (hall : CChain s L2 start2 L2 (pre ++ v :: us))
    (hv : v.name = FVP8 ∨ (v.name = FVP8L ∧ sawAlph = false ∧ vp8lOk s v (some (fw, fh)) = true))
    (htr : trailingOk us cfg.allowUnknownChunks = true) (hfuel : us.length < fuel) :
    Tot (idealOps s kind) (frameTail cfg sawAlph fw fh fuel r) pos
      (fun o pos' => ∃ r', o = some r' ∧ pos' = L2 ∧ Keeps 2 r pos r' pos') := by
  unfold frameTail
  apply Tot.bind
  apply Tot.mono (next_header_tot_b s kind L2 start2 r 2 pos pre v us (by decide) (by decide) hL hLs hb hall)
  intro y p4 ⟨k4, l4, hname, hopen, hp4⟩
  obtain ⟨name, r4⟩ := y
  dsimp only at k4 l4 hname hopen ⊢
  have hfv : Fits s L2 v := by
    obtain ⟨e, e1, e2, _, _⟩ := hopen
    exact stepOk_fits s L2 e v (cchain_split s L2 start2 e L2 pre (v :: us) e1 hall).1
  have img : Tot (idealOps s kind)
      (if name = FVP8 then skipData r4 2
       else if name = FVP8L then
         if sawAlph = true then Prog.fail WErr.invalidChunkLayout else vp8lChunk r4 2 (some (fw, fh))
       else Prog.fail WErr.invalidChunkLayout) p4
      (fun r5 p5 => Keeps 2 r4 p4 r5 p5 ∧ limOf r5 2 p5 = L2 ∧ Closed s L2 start2 r5 2 p5 (pre ++ [v])) := by
    rw [hname]
    rcases hv with hv | ⟨hv, hsa, hok⟩
    · rw [if_pos hv]
      exact close_chunk_tot s kind L2 start2 r4 2 p4 pre v (by decide) (by decide) l4 hLs hs hopen hfv
    · rw [if_neg (by rw [hv]; decide), if_pos hv, hsa]
      rw [if_neg (by simp)]
      apply Tot.mono (Ret.with s kind
        (vp8lChunk_ret s kind L2 start2 r4 2 p4 pre v (some (fw, fh)) (by decide) (by decide) l4 hLs hs hopen hp4 hfv hok)
        (vp8lChunk_rel s kind L2 start2 r4 2 p4 pre v (some (fw, fh)) (by decide) (by decide) l4 hopen hp4))
      intro r5 p5 ⟨a, b, c, _⟩
      exact ⟨a, b, c⟩
  apply Tot.bind
  apply Tot.mono img
  intro r5 p5 ⟨k5, l5, cl5⟩
  unfold trailingOk at htr
  rw [Bool.and_eq_true] at htr
  apply Tot.mono (trailing_tot s kind cfg L2 start2 2 true (by decide) (by decide) hLs hs us fuel hfuel r5 p5 (pre ++ [v]) l5 cl5
    (by rw [List.append_assoc]; exact hall) htr.1
    (by
      rcases Bool.or_eq_true _ _ |>.mp htr.2 with h | h
      · left; simpa using h
      · right; exact h))
  intro o p6 ⟨r', e1, _, _, e4, e5⟩
  exact ⟨r', e1, e4, (k4.trans k5).trans e5⟩

theorem sanitizeFrame_eq (cfg : Config) (r : RS) (flags cw ch fuel : Nat) :
    sanitizeFrame cfg r flags cw ch fuel =
      (readHeader r 1 FANMF).bind fun r =>
      (parseData r 1 Generated.schemaAnmfChunk).bind fun (vs, r) =>
      (if flagSet flags 16 then
          (peekHeader (r.set 2 .idle) 2).bind fun (nm, r) =>
            if nm = some FALPH then (readHeader r 2 FALPH).bind fun r =>
              (alphChunk r 2 (vs.getD 2 0) (vs.getD 3 0)).bind fun r => .done (true, r)
            else .done (false, r)
        else .done (false, r.set 2 .idle)).bind fun (sawAlph, r) =>
      frameTail cfg sawAlph (vs.getD 2 0) (vs.getD 3 0) fuel r := rfl

/-- a frame the recogniser accepts is read through; afterwards the cursor is at the end of the ANMF chunk -/
theorem frame_tot (cfg : Config) (L1 start : Nat) (r : RS) (pos : Nat) (cs : List Chunk) (c : Chunk)
    (flags cw ch fuel : Nat) (hL : limOf r 1 pos = L1) (hLs : L1 ≤ s.len) (hs : s.len < u64Lim)
    (hp : Peeked s L1 start r 1 pos cs c) (hname : c.name = FANMF) (hfit : Fits s L1 c)
    (hok : frameOk s c (flagSet flags 16) cfg.allowUnknownChunks = true) (hfuel : s.len / 8 + 2 ≤ fuel) :
    Tot (idealOps s kind) (sanitizeFrame cfg r flags cw ch fuel) pos
      (fun o pos' => ∃ r', o = some r' ∧ pos' = c.off + c.len) := by
  -- what the recogniser says about the frame
  unfold frameOk at hok
  split at hok
  · cases hok
  rename_i h16
  dsimp only at hok
  split at hok
  · cases hok
  rename_i hflb
  have hflb' : (s.get (c.off + 15)).toNat &&& 3 = (s.get (c.off + 15)).toNat := by
    apply Classical.byContradiction; intro hne; exact hflb hne
  cases hcl : chunkList s (c.off + 16) (c.off + c.len) with
  | none => rw [hcl] at hok; cases hok
  | some inner =>
  rw [hcl] at hok
  dsimp only at hok
  cases himg : imageData s inner (flagSet flags 16) false (1 + leToNat (s.read (c.off + 6) 3)) (1 + leToNat (s.read (c.off + 9) 3)) with
  | none => rw [himg] at hok; cases hok
  | some rem =>
  rw [himg] at hok
  dsimp only at hok
  have hall2 : CChain s (c.off + c.len) (c.off + 16) (c.off + c.len) inner := cchain_of_chunks s _ _ _ inner hcl
  have hL2s : c.off + c.len ≤ s.len := Nat.le_trans hfit.inL hLs
  -- the ANMF header
  rw [sanitizeFrame_eq]
  apply Tot.bind
  apply Tot.mono (Ret.with s kind
    (readHeader_peeked_ret s kind r 1 pos (by decide) c.name c.len hp.choose_spec.2.2.2.1 (peeked_pos s L1 start r 1 pos cs c hp) FANMF hname)
    (open_peeked s kind L1 start r 1 pos cs c FANMF (by decide) (by decide) hL hp))
  intro r1 p1 ⟨k1, l1, _, hopen1, hp1⟩
  subst hp1
  apply Tot.bind
  apply Tot.mono (Ret.with s kind
    (parseData_ret_cur s kind r1 1 c.off L1 Generated.schemaAnmfChunk (by decide) (by decide) l1 hLs c (hopen1.cur s)
      (by rw [anmf_len']; omega) (by rw [anmf_len']; omega) hfit.inL
      (by rw [anmf_len', read16]; exact anmf_parse_ok _ _ _ _ _ _ _ _ _ _ _ _ _ _ _ _ hflb'))
    (parseData_rel s kind r1 1 c.off Generated.schemaAnmfChunk (by decide) c (by rw [l1]; exact hopen1.cur s)))
  intro x q2 ⟨k2, hq2, hle2, ⟨rest0, hparse⟩, hcur2⟩
  obtain ⟨vs, r2⟩ := x
  rw [l1] at hcur2
  rw [anmf_len'] at hq2 hle2 hparse
  subst hq2
  rw [read16] at hparse
  obtain ⟨_, hfw, hfh⟩ := anmf_parse_spec _ _ _ _ _ _ _ _ _ _ _ _ _ _ _ _ vs rest0 hparse
  dsimp only at k2 hcur2 ⊢
  have hfw' : vs.getD 2 0 = 1 + leToNat (s.read (c.off + 6) 3) := by
    rw [hfw, read3]
  have hfh' : vs.getD 3 0 = 1 + leToNat (s.read (c.off + 9) 3) := by
    rw [hfh, read3]
  rw [hfw', hfh']
  have hl2 : limOf r2 1 (c.off + 16) = L1 := by rw [k2.lim (by decide), l1]
  -- level 2 starts here
  have hE1 : E1 (r2.set 2 .idle) (c.off + 16) = c.off + c.len := by
    have hc := hcur2
    unfold Cur at hc
    simp only [RS.get] at hc
    simp only [E1, RS.set]
    cases h : r2.l1 with
    | idle => rw [h] at hc; exact hc.elim
    | peeking a b => rw [h] at hc; exact hc.elim
    | body n l rem' => rw [h] at hc; simp only [bodyRemaining]; exact hc.2.2.1
    | padding n l => rw [h] at hc; simp only [bodyRemaining]; omega
  have hE0 : E0 (r2.set 2 .idle) (c.off + 16) = L1 := by
    have : E0 (r2.set 2 .idle) (c.off + 16) = E0 r2 (c.off + 16) := by simp [E0, RS.set]
    rw [this]; simpa [limOf] using hl2
  have hL2 : limOf (r2.set 2 .idle) 2 (c.off + 16) = c.off + c.len := by
    simp only [limOf, hE1, hE0]
    have := hfit.inL
    omega
  have hcl0 : Closed s (c.off + c.len) (c.off + 16) (r2.set 2 .idle) 2 (c.off + 16) [] :=
    Closed.start s _ _ 2 (c.off + 16) (by simp [RS.get, RS.set])
  have hlen := cchain_length s _ _ _ inner hall2
  rcases imageData_some s inner (flagSet flags 16) false _ _ rem himg with
    ⟨a, v, hinner, ha, hf, haok, hv⟩ | ⟨v, hinner, ha, _, hv⟩
  · -- ALPH then VP8
    subst hinner
    have hremlen : rem.length < fuel := by simp only [List.length_cons] at hlen; omega
    rw [hf, if_pos rfl]
    apply Tot.bind
    apply Tot.bind
    apply Tot.mono (peek_tot s kind _ (c.off + 16) (r2.set 2 .idle) 2 (c.off + 16) [] (a :: v :: rem) (by decide) (by decide)
      hL2 hL2s hcl0 hall2)
    intro y p3 ⟨k3, l3, hy1, hy2⟩
    obtain ⟨nm, r3⟩ := y
    dsimp only at k3 l3 hy1 hy2 ⊢
    rw [hy1, ha, if_pos rfl]
    apply Tot.bind
    have hn := next_named_tot_b s kind _ (c.off + 16) r3 2 p3 [] a (v :: rem) (by decide) (by decide) l3 hL2s
      (Or.inr ⟨a, hy2⟩) hall2
    rw [ha] at hn
    apply Tot.mono hn
    intro r4 p4 ⟨k4, l4, hop4, hp4⟩
    have hfa : Fits s (c.off + c.len) a := stepOk_fits s _ _ a hall2.1
    apply Tot.bind
    apply Tot.mono (Ret.with s kind
      (alphChunk_ret s kind _ (c.off + 16) r4 2 p4 [] a _ _ (by decide) (by decide) l4 hL2s hs hop4 hp4 hfa haok)
      (alphChunk_rel s kind _ (c.off + 16) r4 2 p4 [] a _ _ (by decide) (by decide) l4 hop4 hp4))
    intro r5 p5 ⟨k5, l5, cl5, _⟩
    apply Tot.done
    dsimp only
    apply Tot.mono (frameTail_tot s kind cfg _ (c.off + 16) hL2s hs true _ _ fuel r5 p5 [a] v rem l5 (Or.inl cl5) hall2
      (Or.inl hv) hok hremlen)
    intro o p6 ⟨r', e1, e2, _⟩
    exact ⟨r', e1, e2⟩
  · -- no ALPH: VP8 or VP8L
    subst hinner
    have hremlen : rem.length < fuel := by simp only [List.length_cons] at hlen; omega
    have hva1 : v.name = FVP8 ∨ (v.name = FVP8L ∧ false = false ∧
        vp8lOk s v (some (1 + leToNat (s.read (c.off + 6) 3), 1 + leToNat (s.read (c.off + 9) 3))) = true) := by
      rcases hv with h | ⟨h1, h2⟩
      · exact Or.inl h
      · exact Or.inr ⟨h1, rfl, h2⟩
    have alph : Tot (idealOps s kind)
        (if flagSet flags 16 = true then
          (peekHeader (r2.set 2 .idle) 2).bind fun x =>
            match x with
            | (nm, r) =>
              if nm = some FALPH then
                (readHeader r 2 FALPH).bind fun r =>
                  (alphChunk r 2 (1 + leToNat (s.read (c.off + 6) 3)) (1 + leToNat (s.read (c.off + 9) 3))).bind fun r =>
                    Prog.done (true, r)
              else Prog.done (false, r)
         else Prog.done (false, r2.set 2 .idle)) (c.off + 16)
        (fun y p3 => y.1 = false ∧ limOf y.2 2 p3 = c.off + c.len ∧ Bnd s (c.off + c.len) (c.off + 16) y.2 2 p3 []) := by
      split
      · apply Tot.bind
        apply Tot.mono (peek_tot s kind _ (c.off + 16) (r2.set 2 .idle) 2 (c.off + 16) [] (v :: rem) (by decide) (by decide)
          hL2 hL2s hcl0 hall2)
        intro y p3 ⟨k3, l3, hy1, hy2⟩
        obtain ⟨nm, r3⟩ := y
        dsimp only at k3 l3 hy1 hy2 ⊢
        rw [hy1, if_neg (by intro h; simp only [Option.some.injEq] at h; exact ha h)]
        exact Tot.done ⟨rfl, l3, Or.inr ⟨v, hy2⟩⟩
      · exact Tot.done ⟨rfl, hL2, Or.inl hcl0⟩
    apply Tot.bind
    apply Tot.mono alph
    intro y p3 ⟨hy1, l3, hb3⟩
    obtain ⟨sawAlph, r3⟩ := y
    dsimp only at hy1 l3 hb3 ⊢
    subst hy1
    apply Tot.mono (frameTail_tot s kind cfg _ (c.off + 16) hL2s hs false _ _ fuel r3 p3 [] v rem l3 hb3 hall2 hva1 hok hremlen)
    intro o p6 ⟨r', e1, e2, _⟩
    exact ⟨r', e1, e2⟩

/-! ### the frame loop and the animation -/

/-- an open chunk whose payload is consumed is a closed one -/
theorem open_done_closed (L start : Nat) (r : RS) (k pos : Nat) (cs : List Chunk) (c : Chunk) (h1k : 1 ≤ k)
    (ho : Open s L start r k pos cs c) (hpos : pos = c.off + c.len) : Closed s L start r k pos (cs ++ [c]) := by
  have hcur := ho.cur s
  unfold Cur at hcur
  cases hst : r.get k with
  | idle => rw [hst] at hcur; exact hcur.elim
  | peeking a b => rw [hst] at hcur; exact hcur.elim
  | body n l rem => rw [hst] at hcur; obtain ⟨_, _, c3, c4⟩ := hcur; omega
  | padding n l => exact (ho.closed s h1k n l hst).1

/-- peeking from a boundary (closed, or with the header already peeked) -/
theorem peek_tot_b (L start : Nat) (r : RS) (k pos : Nat) (cs rest : List Chunk) (hk : k ≤ 2) (h1k : 1 ≤ k)
    (hL : limOf r k pos = L) (hLs : L ≤ s.len) (hb : Bnd s L start r k pos cs) (hall : CChain s L start L (cs ++ rest)) :
    Tot (idealOps s kind) (peekHeader r k) pos
      (fun x pos' => Keeps k r pos x.2 pos' ∧ limOf x.2 k pos' = L ∧
        match rest with
        | [] => x.1 = none ∧ x.2.get k = .idle ∧ pos' = L
        | c :: _ => x.1 = some c.name ∧ Peeked s L start x.2 k pos' cs c) := by
  rcases hb with hc | ⟨c', hp⟩
  · exact peek_tot s kind L start r k pos cs rest hk h1k hL hLs hc hall
  · cases rest with
    | nil =>
      exfalso
      obtain ⟨e, e1, _, e3, _, _⟩ := hp
      have : e = L := cchain_split s L start e L cs [] e1 hall
      omega
    | cons c rest' =>
      have hcc := peeked_is_next s L start r k pos cs c' c rest' hp hall
      subst hcc
      apply Tot.mono (Ret.with s kind (peekHeader_peeked_ret s kind r k pos c'.name c'.len hp.choose_spec.2.2.2.1)
        (peek_again s kind L start r k pos cs c' hk h1k hL hp))
      intro x p1 ⟨a, b, c, d⟩
      exact ⟨a, b, d, c⟩

/-- the frames `fs` (every one accepted by the recogniser) are read through; the loop stops at the first chunk that
    is not an ANMF -/
theorem frames_tot (cfg : Config) (L1 start : Nat) (flags cw ch fuel : Nat) (hLs : L1 ≤ s.len) (hs : s.len < u64Lim)
    (hfuel : s.len / 8 + 2 ≤ fuel) (fs after : List Chunk)
    (hfs : ∀ f ∈ fs, f.name = FANMF ∧ frameOk s f (flagSet flags 16) cfg.allowUnknownChunks = true)
    (hafter : ∀ a, after.head? = some a → a.name ≠ FANMF)
    (n : Nat) (hn : fs.length < n) (r : RS) (pos : Nat) (cs : List Chunk) (hL : limOf r 1 pos = L1)
    (hb : Bnd s L1 start r 1 pos cs) (hall : CChain s L1 start L1 (cs ++ (fs ++ after))) :
    Tot (idealOps s kind) (framesLoop cfg flags cw ch fuel n r) pos
      (fun o pos' => ∃ r', o = some r' ∧ Keeps 1 r pos r' pos' ∧ limOf r' 1 pos' = L1 ∧ Bnd s L1 start r' 1 pos' (cs ++ fs)) := by
  induction fs generalizing n r pos cs with
  | nil =>
    cases n with
    | zero => cases hn
    | succ m =>
      unfold framesLoop
      apply Tot.bind
      apply Tot.mono (peek_tot_b s kind L1 start r 1 pos cs after (by decide) (by decide) hL hLs hb (by simpa using hall))
      intro x p1 ⟨k1, l1, hx⟩
      obtain ⟨nm, r1⟩ := x
      dsimp only at k1 l1 hx ⊢
      cases after with
      | nil =>
        dsimp only at hx
        obtain ⟨x1, x2, x3⟩ := hx
        rw [x1, if_neg (by simp)]
        refine Tot.done ⟨r1, rfl, k1, l1, ?_⟩
        rw [List.append_nil]
        left; left
        refine ⟨x2, ?_⟩
        rw [x3]
        simpa using hall
      | cons a after' =>
        dsimp only at hx
        obtain ⟨x1, x2⟩ := hx
        have hna := hafter a rfl
        rw [x1, if_neg (by intro h; simp only [Option.some.injEq] at h; exact hna h)]
        refine Tot.done ⟨r1, rfl, k1, l1, ?_⟩
        rw [List.append_nil]
        exact Or.inr ⟨a, x2⟩
  | cons f fs ih =>
    cases n with
    | zero => cases hn
    | succ m =>
      obtain ⟨hfn, hfok⟩ := hfs f (List.mem_cons_self ..)
      unfold framesLoop
      apply Tot.bind
      apply Tot.mono (peek_tot_b s kind L1 start r 1 pos cs (f :: fs ++ after) (by decide) (by decide) hL hLs hb
        (by simpa using hall))
      intro x p1 ⟨k1, l1, hx⟩
      obtain ⟨nm, r1⟩ := x
      dsimp only at k1 l1 hx ⊢
      obtain ⟨x1, x2⟩ := hx
      rw [x1, hfn, if_pos rfl]
      have hff : Fits s L1 f := by
        obtain ⟨e, e1, e2, _, _, _⟩ := x2
        exact stepOk_fits s L1 e f (cchain_split s L1 start e L1 cs (f :: (fs ++ after)) e1 (by simpa using hall)).1
      apply Tot.bind
      apply Tot.mono (Tot.and_tri
        (frame_tot s kind cfg L1 start r1 p1 cs f flags cw ch fuel l1 hLs hs x2 hfn hff hfok hfuel)
        (frame_rel s kind cfg L1 start r1 p1 cs f flags cw ch fuel l1 x2))
      intro o p2 ⟨⟨r2, ho, hp2⟩, hrel⟩
      subst ho
      obtain ⟨k2, l2, _, hop2, _⟩ := hrel r2 rfl
      dsimp only
      have hcl2 := open_done_closed s L1 start r2 1 p2 cs f (by decide) hop2 hp2
      apply Tot.mono (ih (fun g hg => hfs g (List.mem_cons_of_mem _ hg)) m (by simpa using hn) r2 p2 (cs ++ [f]) l2
        (Or.inl hcl2) (by simpa using hall))
      intro o3 p3 ⟨r', e1, e2, e3, e4⟩
      exact ⟨r', e1, (k1.trans k2).trans e2, e3, by simpa using e4⟩

/-- ANIM and the frames, as the recogniser accepts them -/
theorem animated_tot (cfg : Config) (L1 start : Nat) (r : RS) (pos : Nat) (cs : List Chunk) (flags cw ch fuel : Nat)
    (hL : limOf r 1 pos = L1) (hLs : L1 ≤ s.len) (hs : s.len < u64Lim) (hfuel : s.len / 8 + 2 ≤ fuel)
    (hc : Closed s L1 start r 1 pos cs) (anim : Chunk) (f : Chunk) (fs after : List Chunk)
    (hall : CChain s L1 start L1 (cs ++ anim :: (f :: fs ++ after)))
    (han : anim.name = FANIM) (hlen : anim.len = 6)
    (hfs : ∀ g ∈ f :: fs, g.name = FANMF ∧ frameOk s g (flagSet flags 16) cfg.allowUnknownChunks = true)
    (hafter : ∀ a, after.head? = some a → a.name ≠ FANMF) :
    Tot (idealOps s kind) (sanitizeAnimated cfg r flags cw ch fuel) pos
      (fun o pos' => ∃ r', o = some r' ∧ Keeps 1 r pos r' pos' ∧ limOf r' 1 pos' = L1 ∧
        Bnd s L1 start r' 1 pos' (cs ++ anim :: f :: fs)) := by
  unfold sanitizeAnimated
  apply Tot.bind
  have hn := next_named_tot s kind L1 start r 1 pos cs anim (f :: fs ++ after) (by decide) (by decide) hL hLs hc hall
  rw [han] at hn
  apply Tot.mono hn
  intro r1 p1 ⟨k1, l1, hop1, hp1⟩
  have hfa : Fits s L1 anim := by
    obtain ⟨e, e1, e2, _, _⟩ := hop1
    exact stepOk_fits s L1 e anim (cchain_split s L1 start e L1 cs (anim :: (f :: fs ++ after)) e1 hall).1
  apply Tot.bind
  apply Tot.mono (Ret.with s kind
    (parseData_ret_cur s kind r1 1 p1 L1 Generated.schemaAnimChunk (by decide) (by decide) l1 hLs anim (hop1.cur s)
      (by rw [anim_len]; omega) (by rw [anim_len]; omega) hfa.inL
      (by
        rw [anim_len]
        have : s.read p1 6 = [s.get p1, s.get (p1+1), s.get (p1+2), s.get (p1+3), s.get (p1+4), s.get (p1+5)] := by
          simp [Stream.read, List.range_succ]
        rw [this]
        exact anim_parse_ok _ _ _ _ _ _))
    (parseData_rel s kind r1 1 p1 Generated.schemaAnimChunk (by decide) anim (by rw [l1]; exact hop1.cur s)))
  intro x p2 ⟨k2, hp2, _, _, hcur2⟩
  obtain ⟨vs, r2⟩ := x
  rw [l1] at hcur2
  rw [anim_len] at hp2
  dsimp only at k2 hcur2 ⊢
  have l2 : limOf r2 1 p2 = L1 := by rw [k2.lim (by decide), l1]
  have hcl2 := open_done_closed s L1 start r2 1 p2 cs anim (by decide) (hop1.recur s hcur2) (by omega)
  have hall2 : CChain s L1 start L1 ((cs ++ [anim]) ++ (f :: fs ++ after)) := by simpa using hall
  apply Tot.bind
  apply Tot.mono (peek_tot s kind L1 start r2 1 p2 (cs ++ [anim]) (f :: fs ++ after) (by decide) (by decide) l2 hLs hcl2 hall2)
  intro y p3 ⟨k3, l3, hy⟩
  obtain ⟨nm, r3⟩ := y
  dsimp only at k3 l3 hy ⊢
  obtain ⟨y1, y2⟩ := hy
  rw [y1, (hfs f (List.mem_cons_self ..)).1, if_pos rfl]
  have hlenf : (f :: fs).length < fuel := by
    have := cchain_length s L1 start L1 _ hall
    simp only [List.length_append, List.length_cons] at this ⊢
    omega
  apply Tot.mono (frames_tot s kind cfg L1 start flags cw ch fuel hLs hs hfuel (f :: fs) after hfs hafter fuel hlenf r3 p3
    (cs ++ [anim]) l3 (Or.inr ⟨f, y2⟩) (by simpa using hall))
  intro o p4 ⟨r', e1, e2, e3, e4⟩
  exact ⟨r', e1, ((k1.trans k2).trans k3).trans e2, e3, by simpa using e4⟩

/-! ### the extended format -/

/-- an optional chunk (ICCP, EXIF, XMP): read and skipped when its flag is set -/
theorem opt_tot_b (L start : Nat) (r : RS) (pos : Nat) (cs tail tail' : List Chunk) (present : Bool) (name nm : Bytes)
    (hnm : nm = name)
    (hL : limOf r 1 pos = L) (hLs : L ≤ s.len) (hs : s.len < u64Lim) (hb : Bnd s L start r 1 pos cs)
    (hall : CChain s L start L (cs ++ tail)) (hopt : optChunk name present tail = some tail') :
    Tot (idealOps s kind) (if present = true then (readHeader r 1 nm).bind fun r => skipData r 1 else Prog.done r) pos
      (fun r' pos' => Keeps 1 r pos r' pos' ∧ limOf r' 1 pos' = L ∧
        ∃ pre, tail = pre ++ tail' ∧ Bnd s L start r' 1 pos' (cs ++ pre)) := by
  subst hnm
  unfold optChunk at hopt
  cases present with
  | false =>
    simp only [Bool.false_eq_true, if_false, Option.some.injEq] at hopt ⊢
    subst hopt
    exact Tot.done ⟨Keeps.refl _ _ _, hL, [], rfl, by rw [List.append_nil]; exact hb⟩
  | true =>
    simp only [if_true] at hopt ⊢
    cases tail with
    | nil => simp at hopt
    | cons c rest =>
      dsimp only at hopt
      split at hopt
      · rename_i hcn
        simp only [Option.some.injEq] at hopt
        subst hopt
        apply Tot.bind
        have hn := next_named_tot_b s kind L start r 1 pos cs c rest (by decide) (by decide) hL hLs hb hall
        rw [hcn] at hn
        apply Tot.mono hn
        intro r1 p1 ⟨k1, l1, hop1, _⟩
        have hfc : Fits s L c := by
          obtain ⟨e, e1, e2, _, _⟩ := hop1
          exact stepOk_fits s L e c (cchain_split s L start e L cs (c :: rest) e1 hall).1
        apply Tot.mono (close_chunk_tot s kind L start r1 1 p1 cs c (by decide) (by decide) l1 hLs hs hop1 hfc)
        intro r2 p2 ⟨k2, l2, cl2⟩
        exact ⟨k1.trans k2, l2, [c], rfl, Or.inl cl2⟩
      · cases hopt

/-- the recogniser's `extendedOk` after the checks on the VP8X record itself -/
def extTail (flags cw ch : Nat) (cs : List Chunk) (allowUnknown : Bool) : Bool :=
  let bit (b : Nat) : Bool := flags / b % 2 = 1
  match optChunk (cc 'I' 'C' 'C' 'P') (bit 32) cs with
  | none => false
  | some cs =>
    let afterImage : Option (List Chunk) :=
      if bit 2 then
        match cs with
        | anim :: rest =>
          if anim.name ≠ (cc 'A' 'N' 'I' 'M') ∨ anim.len ≠ 6 then none
          else
            let frames := rest.takeWhile (·.name = (cc 'A' 'N' 'M' 'F'))
            if frames.isEmpty then none
            else if frames.all (fun f => frameOk s f (bit 16) allowUnknown) then some (rest.drop frames.length)
            else none
        | [] => none
      else imageData s cs (bit 16) (bit 16) cw ch
    match afterImage with
    | none => false
    | some cs =>
      match optChunk (cc 'E' 'X' 'I' 'F') (bit 8) cs with
      | none => false
      | some cs =>
        match optChunk (cc 'X' 'M' 'P' ' ') (bit 4) cs with
        | none => false
        | some cs => trailingOk cs allowUnknown

theorem extendedOk_eq (vp8x : Chunk) (cs : List Chunk) (allow : Bool) :
    extendedOk s vp8x cs allow =
      (if vp8x.len ≠ 10 then false else
        if (s.get vp8x.off).toNat &&& 0x3e ≠ (s.get vp8x.off).toNat then false else
        if s.read (vp8x.off + 1) 3 ≠ [0, 0, 0] then false else
        if (1 + leToNat (s.read (vp8x.off + 4) 3)) * (1 + leToNat (s.read (vp8x.off + 7) 3)) > 4294967295 then false else
        extTail s (s.get vp8x.off).toNat (1 + leToNat (s.read (vp8x.off + 4) 3)) (1 + leToNat (s.read (vp8x.off + 7) 3)) cs allow) := rfl

/-- an optional chunk from a closed level: the level is closed again afterwards -/
theorem opt_tot (L start : Nat) (r : RS) (pos : Nat) (cs tail tail' : List Chunk) (present : Bool) (name nm : Bytes)
    (hnm : nm = name)
    (hL : limOf r 1 pos = L) (hLs : L ≤ s.len) (hs : s.len < u64Lim) (hc : Closed s L start r 1 pos cs)
    (hall : CChain s L start L (cs ++ tail)) (hopt : optChunk name present tail = some tail') :
    Tot (idealOps s kind) (if present = true then (readHeader r 1 nm).bind fun r => skipData r 1 else Prog.done r) pos
      (fun r' pos' => Keeps 1 r pos r' pos' ∧ limOf r' 1 pos' = L ∧
        ∃ pre, tail = pre ++ tail' ∧ Closed s L start r' 1 pos' (cs ++ pre)) := by
  subst hnm
  unfold optChunk at hopt
  cases present with
  | false =>
    simp only [Bool.false_eq_true, if_false, Option.some.injEq] at hopt ⊢
    subst hopt
    exact Tot.done ⟨Keeps.refl _ _ _, hL, [], rfl, by rw [List.append_nil]; exact hc⟩
  | true =>
    simp only [if_true] at hopt ⊢
    cases tail with
    | nil => simp at hopt
    | cons c rest =>
      dsimp only at hopt
      split at hopt
      · rename_i hcn
        simp only [Option.some.injEq] at hopt
        subst hopt
        apply Tot.bind
        have hn := next_named_tot s kind L start r 1 pos cs c rest (by decide) (by decide) hL hLs hc hall
        rw [hcn] at hn
        apply Tot.mono hn
        intro r1 p1 ⟨k1, l1, hop1, _⟩
        have hfc : Fits s L c := by
          obtain ⟨e, e1, e2, _, _⟩ := hop1
          exact stepOk_fits s L e c (cchain_split s L start e L cs (c :: rest) e1 hall).1
        apply Tot.mono (close_chunk_tot s kind L start r1 1 p1 cs c (by decide) (by decide) l1 hLs hs hop1 hfc)
        intro r2 p2 ⟨k2, l2, cl2⟩
        exact ⟨k1.trans k2, l2, [c], rfl, cl2⟩
      · cases hopt

theorem mem_takeWhile' {α} (p : α → Bool) (l : List α) (a : α) (h : a ∈ l.takeWhile p) : p a = true := by
  induction l with
  | nil => simp at h
  | cons x xs ih =>
    by_cases hx : p x = true
    · rw [List.takeWhile_cons_of_pos hx] at h
      rcases List.mem_cons.mp h with rfl | h
      · exact hx
      · exact ih h
    · rw [List.takeWhile_cons_of_neg hx] at h; simp at h

theorem takeWhile_drop {α} (p : α → Bool) (l : List α) :
    l = l.takeWhile p ++ l.drop (l.takeWhile p).length ∧
    ∀ a, (l.drop (l.takeWhile p).length).head? = some a → p a = false := by
  induction l with
  | nil => simp
  | cons x xs ih =>
    by_cases hx : p x = true
    · rw [List.takeWhile_cons_of_pos hx]
      simp only [List.length_cons, List.drop_succ_cons, List.cons_append]
      exact ⟨by rw [← ih.1], ih.2⟩
    · rw [List.takeWhile_cons_of_neg hx]
      simp only [List.length_nil, List.drop_zero, List.nil_append, List.head?_cons, Option.some.injEq, true_and]
      intro a ha; rw [← ha]; simpa using hx

/-- everything after the VP8X chunk, as the recogniser accepts it -/
theorem extended_tot (cfg : Config) (L1 : Nat) (r : RS) (pos : Nat) (first : Chunk) (rest : List Chunk)
    (flags cw ch fuel : Nat) (hL : limOf r 1 pos = L1) (hLs : L1 ≤ s.len) (hs : s.len < u64Lim)
    (hfuel : s.len / 8 + 2 ≤ fuel) (hc : Closed s L1 12 r 1 pos [first]) (hall : CChain s L1 12 L1 (first :: rest))
    (hext : extTail s flags cw ch rest cfg.allowUnknownChunks = true) :
    Tot (idealOps s kind) (sanitizeExtended cfg r flags cw ch fuel) pos
      (fun o pos' => ∃ r' mid us, o = some r' ∧ Keeps 1 r pos r' pos' ∧ limOf r' 1 pos' = L1 ∧
        Bnd s L1 12 r' 1 pos' (first :: mid) ∧ rest = mid ++ us ∧ trailingOk us cfg.allowUnknownChunks = true) := by
  unfold extTail at hext
  dsimp only at hext
  have eb : ∀ b, decide (flags / b % 2 = 1) = flagSet flags b := fun b => rfl
  simp only [eb] at hext
  cases h1 : optChunk (cc 'I' 'C' 'C' 'P') (flagSet flags 32) rest with
  | none => rw [h1] at hext; cases hext
  | some cs1 =>
  rw [h1] at hext
  dsimp only at hext
  unfold sanitizeExtended
  have hall0 : CChain s L1 12 L1 ([first] ++ rest) := hall
  apply Tot.bind
  apply Tot.mono (opt_tot s kind L1 12 r pos [first] rest cs1 (flagSet flags 32) _ FICCP cc_ICCP.symm hL hLs hs hc hall0 h1)
  intro r1 p1 ⟨k1, l1, pre1, hrest1, cl1⟩
  -- animation or still image
  have mid : Tot (idealOps s kind)
      (if flagSet flags 2 = true then sanitizeAnimated cfg r1 flags cw ch fuel
       else (sanitizeStill r1 flags cw ch).bind fun r => Prog.done (some r)) p1
      (fun o p2 => ∃ r2 img cs2, o = some r2 ∧ Keeps 1 r1 p1 r2 p2 ∧ limOf r2 1 p2 = L1 ∧ cs1 = img ++ cs2 ∧
        Bnd s L1 12 r2 1 p2 ([first] ++ pre1 ++ img) ∧
        (match optChunk (cc 'E' 'X' 'I' 'F') (flagSet flags 8) cs2 with
          | none => false
          | some cs =>
            match optChunk (cc 'X' 'M' 'P' ' ') (flagSet flags 4) cs with
            | none => false
            | some cs => trailingOk cs cfg.allowUnknownChunks) = true) := by
    have hall1 : CChain s L1 12 L1 (([first] ++ pre1) ++ cs1) := by
      rw [List.append_assoc, ← hrest1]; exact hall0
    cases hf2 : flagSet flags 2 with
    | true =>
      rw [hf2] at hext
      simp only [if_true] at hext ⊢
      cases cs1 with
      | nil => simp at hext
      | cons anim rest' =>
        dsimp only at hext
        rw [cc_ANIM, cc_ANMF] at hext
        by_cases hbad : anim.name ≠ FANIM ∨ anim.len ≠ 6
        · rw [if_pos hbad] at hext; cases hext
        · rw [if_neg hbad] at hext
          have han : anim.name = FANIM := by
            apply Classical.byContradiction; intro h; exact hbad (Or.inl h)
          have hlen : anim.len = 6 := by
            apply Classical.byContradiction; intro h; exact hbad (Or.inr h)
          by_cases hemp : (rest'.takeWhile (fun x => decide (x.name = FANMF))).isEmpty = true
          · rw [if_pos hemp] at hext; cases hext
          · rw [if_neg hemp] at hext
            by_cases hallok : (rest'.takeWhile (fun x => decide (x.name = FANMF))).all
                (fun f => frameOk s f (flagSet flags 16) cfg.allowUnknownChunks) = true
            · rw [if_pos hallok] at hext
              dsimp only at hext
              obtain ⟨hsplit, hhead⟩ := takeWhile_drop (fun x : Chunk => decide (x.name = FANMF)) rest'
              cases hfr : rest'.takeWhile (fun x => decide (x.name = FANMF)) with
              | nil => rw [hfr] at hemp; simp at hemp
              | cons f fs =>
                rw [hfr] at hsplit hhead hallok hext
                have hfs : ∀ g ∈ f :: fs, g.name = FANMF ∧ frameOk s g (flagSet flags 16) cfg.allowUnknownChunks = true := by
                  intro g hg
                  constructor
                  · have : g ∈ rest'.takeWhile (fun x => decide (x.name = FANMF)) := by rw [hfr]; exact hg
                    have := mem_takeWhile' _ _ _ this
                    simpa using this
                  · exact List.all_eq_true.mp hallok g hg
                have hallA : CChain s L1 12 L1 (([first] ++ pre1) ++ anim :: (f :: fs ++ rest'.drop (f :: fs).length)) := by
                  rw [← hsplit]; exact hall1
                apply Tot.mono (animated_tot s kind cfg L1 12 r1 p1 ([first] ++ pre1) flags cw ch fuel l1 hLs hs hfuel cl1 anim f fs
                  (rest'.drop (f :: fs).length) hallA han hlen hfs
                  (by intro a ha; have := hhead a ha; simpa using this))
                intro o p2 ⟨r2, e1, e2, e3, e4⟩
                refine ⟨r2, anim :: f :: fs, rest'.drop (f :: fs).length, e1, e2, e3, ?_, e4, hext⟩
                rw [List.cons_append, ← hsplit]
            · rw [if_neg hallok] at hext; cases hext
    | false =>
      rw [hf2] at hext
      simp only [Bool.false_eq_true, if_false] at hext ⊢
      cases himg : imageData s cs1 (flagSet flags 16) (flagSet flags 16) cw ch with
      | none => rw [himg] at hext; cases hext
      | some cs2 =>
        rw [himg] at hext
        dsimp only at hext
        apply Tot.bind
        apply Tot.mono (still_tot s kind L1 12 r1 p1 ([first] ++ pre1) cs1 cs2 flags cw ch l1 hLs hs cl1 hall1 himg)
        intro r2 p2 ⟨k2, l2, img, himgs, cl2⟩
        exact Tot.done ⟨r2, img, cs2, rfl, k2, l2, himgs, Or.inl cl2, hext⟩
  apply Tot.bind
  apply Tot.mono mid
  intro o p2 ⟨r2, img, cs2, ho, k2, l2, hcs1, hb2, hext2⟩
  subst ho
  dsimp only
  cases h3 : optChunk (cc 'E' 'X' 'I' 'F') (flagSet flags 8) cs2 with
  | none => rw [h3] at hext2; cases hext2
  | some cs3 =>
  rw [h3] at hext2
  dsimp only at hext2
  cases h4 : optChunk (cc 'X' 'M' 'P' ' ') (flagSet flags 4) cs3 with
  | none => rw [h4] at hext2; cases hext2
  | some cs4 =>
  rw [h4] at hext2
  dsimp only at hext2
  have hall2 : CChain s L1 12 L1 (([first] ++ pre1 ++ img) ++ cs2) := by
    rw [List.append_assoc, ← hcs1, List.append_assoc, ← hrest1]; exact hall0
  apply Tot.bind
  apply Tot.mono (opt_tot_b s kind L1 12 r2 p2 ([first] ++ pre1 ++ img) cs2 cs3 (flagSet flags 8) _ FEXIF cc_EXIF.symm l2 hLs hs hb2 hall2 h3)
  intro r3 p3 ⟨k3, l3, pre3, hcs2, hb3⟩
  have hall3 : CChain s L1 12 L1 (([first] ++ pre1 ++ img ++ pre3) ++ cs3) := by
    rw [List.append_assoc _ pre3, ← hcs2]; exact hall2
  apply Tot.bind
  apply Tot.mono (opt_tot_b s kind L1 12 r3 p3 ([first] ++ pre1 ++ img ++ pre3) cs3 cs4 (flagSet flags 4) _ FXMP cc_XMP.symm l3 hLs hs hb3 hall3 h4)
  intro r4 p4 ⟨k4, l4, pre4, hcs3, hb4⟩
  refine Tot.done ⟨r4, pre1 ++ img ++ pre3 ++ pre4, cs4, rfl, ((k1.trans k2).trans k3).trans k4, l4, ?_, ?_, hext2⟩
  · have : first :: (pre1 ++ img ++ pre3 ++ pre4) = [first] ++ pre1 ++ img ++ pre3 ++ pre4 := by simp
    rw [this]; exact hb4
  · rw [hrest1, hcs1, hcs2, hcs3]; simp

/-- the first chunk is a VP8X the recogniser accepts, with what follows it -/
theorem first_vp8x (cfg : Config) (fuel : Nat) (L1 : Nat) (hLs : L1 ≤ s.len) (hs : s.len < u64Lim)
    (hfuel : s.len / 8 + 2 ≤ fuel) (first : Chunk)
    (rest : List Chunk) (hall : CChain s L1 12 L1 (first :: rest)) (hname : first.name = FVP8X)
    (hok : extendedOk s first rest cfg.allowUnknownChunks = true) (r3 : RS) (hop : Open s L1 12 r3 1 first.off [] first)
    (hL : limOf r3 1 first.off = L1) :
    Tot (idealOps s kind) (firstProg cfg fuel first.name r3) first.off (FirstDone s L1 cfg.allowUnknownChunks first rest r3) := by
  rw [extendedOk_eq] at hok
  by_cases h10 : first.len ≠ 10
  · rw [if_pos h10] at hok; cases hok
  rw [if_neg h10] at hok
  have hlen : first.len = 10 := by apply Classical.byContradiction; intro h; exact h10 h
  by_cases hfl : (s.get first.off).toNat &&& 0x3e ≠ (s.get first.off).toNat
  · rw [if_pos hfl] at hok; cases hok
  rw [if_neg hfl] at hok
  have hfl' : (s.get first.off).toNat &&& 62 = (s.get first.off).toNat := by
    apply Classical.byContradiction; intro h; exact hfl h
  by_cases hres : s.read (first.off + 1) 3 ≠ [0, 0, 0]
  · rw [if_pos hres] at hok; cases hok
  rw [if_neg hres] at hok
  have hres' : s.read (first.off + 1) 3 = [0, 0, 0] := by apply Classical.byContradiction; intro h; exact hres h
  by_cases hdim : (1 + leToNat (s.read (first.off + 4) 3)) * (1 + leToNat (s.read (first.off + 7) 3)) > 4294967295
  · rw [if_pos hdim] at hok; cases hok
  rw [if_neg hdim] at hok
  rw [read3] at hres'
  simp only [List.cons.injEq, and_true] at hres'
  obtain ⟨z1, z2, z3⟩ := hres'
  have e1 : first.off + 1 + 1 = first.off + 2 := by omega
  have e2 : first.off + 1 + 2 = first.off + 3 := by omega
  rw [e1] at z2
  rw [e2] at z3
  rw [read3, read3] at hdim hok
  have e5 : first.off + 4 + 1 = first.off + 5 := by omega
  have e6 : first.off + 4 + 2 = first.off + 6 := by omega
  have e8 : first.off + 7 + 1 = first.off + 8 := by omega
  have e9 : first.off + 7 + 2 = first.off + 9 := by omega
  rw [e5, e6, e8, e9] at hdim hok
  have hfit := stepOk_fits s L1 12 first hall.1
  obtain ⟨restb, hparse0⟩ := vp8x_parse_ok (s.get first.off) (s.get (first.off + 4)) (s.get (first.off + 5)) (s.get (first.off + 6))
    (s.get (first.off + 7)) (s.get (first.off + 8)) (s.get (first.off + 9)) hfl' (by omega)
  have hread : s.read first.off 10 = [s.get first.off, 0, 0, 0, s.get (first.off + 4), s.get (first.off + 5), s.get (first.off + 6),
      s.get (first.off + 7), s.get (first.off + 8), s.get (first.off + 9)] := by
    rw [read10, z1, z2, z3]
  unfold firstProg
  rw [if_neg (by rw [hname]; decide), if_neg (by rw [hname]; decide), if_pos hname]
  apply Tot.bind
  apply Tot.mono (Ret.with s kind
    (parseData_ret_cur s kind r3 1 first.off L1 Generated.schemaVp8xChunk (by decide) (by decide) hL hLs first (hop.cur s)
      (by rw [vp8x_len]; omega) (by rw [vp8x_len]; omega) hfit.inL (by rw [vp8x_len, hread]; exact ⟨_, _, hparse0⟩))
    (parseData_rel s kind r3 1 first.off Generated.schemaVp8xChunk (by decide) first (by rw [hL]; exact hop.cur s)))
  intro z p4 ⟨k4, hp4, _, ⟨rest', hparse⟩, hcur4⟩
  obtain ⟨vs, r4⟩ := z
  rw [hL] at hcur4
  rw [vp8x_len] at hp4 hparse
  rw [hread, hparse0] at hparse
  simp only [Except.ok.injEq, Prod.mk.injEq] at hparse
  obtain ⟨hvs, _⟩ := hparse
  subst hvs
  dsimp only at k4 hcur4 ⊢
  simp only [List.getD_cons_zero, List.getD_cons_succ]
  have l4 : limOf r4 1 p4 = L1 := by rw [k4.lim (by decide), hL]
  have hcl4 : Closed s L1 12 r4 1 p4 ([] ++ [first]) :=
    open_done_closed s L1 12 r4 1 p4 [] first (by decide) (hop.recur s hcur4) (by omega)
  apply Tot.mono (extended_tot s kind cfg L1 r4 p4 first rest _ _ _ fuel l4 hLs hs hfuel hcl4 hall hok)
  intro o p5 ⟨r', mid, us, ho, k5, l5, hb5, hsplit, htr⟩
  exact ⟨r', mid, us, ho, l5, k4.trans k5, hb5, hsplit, htr⟩

/-- **C06, completeness**: what the independent recogniser `Grammar` accepts, the model of webpsan accepts -/
theorem sanitize_of_grammar (cfg : Config) (h : Grammar s cfg.allowUnknownChunks = true) :
    Webp.sanitize s kind cfg = .ok () := by
  unfold Grammar at h
  by_cases h12 : s.len < 12
  · rw [if_pos h12] at h; cases h
  rw [if_neg h12] at h
  rw [cc_RIFF, cc_WEBP] at h
  by_cases hmag : s.read 0 4 ≠ FRIFF ∨ s.read 8 4 ≠ FWEBP
  · rw [if_pos hmag] at h; cases h
  rw [if_neg hmag] at h
  have hriff : s.read 0 4 = FRIFF := by apply Classical.byContradiction; intro hc; exact hmag (Or.inl hc)
  have hwebp : s.read 8 4 = FWEBP := by apply Classical.byContradiction; intro hc; exact hmag (Or.inr hc)
  dsimp only at h
  by_cases hsz : le32 s 4 + 8 + le32 s 4 % 2 ≠ s.len
  · rw [if_pos hsz] at h; cases h
  rw [if_neg hsz] at h
  have hsz' : le32 s 4 + 8 + le32 s 4 % 2 = s.len := by apply Classical.byContradiction; intro hc; exact hsz hc
  by_cases hpd : le32 s 4 % 2 = 1 ∧ s.get (8 + le32 s 4) ≠ 0
  · rw [if_pos hpd] at h; cases h
  rw [if_neg hpd] at h
  have hpad : le32 s 4 % 2 = 1 → s.get (8 + le32 s 4) = 0 := by
    intro ho; apply Classical.byContradiction; intro hc; exact hpd ⟨ho, hc⟩
  by_cases hmx : le32 s 4 > 4294967286
  · rw [if_pos hmx] at h; cases h
  rw [if_neg hmx] at h
  by_cases h4 : le32 s 4 < 4
  · rw [if_pos h4] at h; cases h
  rw [if_neg h4] at h
  cases hcl : chunkList s 12 (8 + le32 s 4) with
  | none => rw [hcl] at h; cases h
  | some all =>
  rw [hcl] at h
  cases all with
  | nil => cases h
  | cons first rest =>
  dsimp only at h
  rw [cc_VP8, cc_VP8L, cc_VP8X] at h
  have hall : CChain s (8 + le32 s 4) 12 (8 + le32 s 4) (first :: rest) := cchain_of_chunks s _ _ _ _ hcl
  have hLs : 8 + le32 s 4 ≤ s.len := by omega
  have hs : s.len < u64Lim := by unfold u64Lim; omega
  have hlen := cchain_length s _ _ _ _ hall
  have hfuel : rest.length < s.len / 8 + 2 := by simp only [List.length_cons] at hlen; omega
  have key : Tot (idealOps s kind) (sanitizeP cfg (s.len / 8 + 2)) 0 (fun o _ => o = some ()) := by
    apply sanitizeP_tot s kind cfg (s.len / 8 + 2) (by omega) hriff hwebp hsz' hpad (by omega) (by omega) first rest hall hfuel
    intro r3 hop hL
    by_cases hv : first.name = FVP8
    · rw [if_pos hv] at h
      exact first_vp8 s kind cfg _ _ hLs hs first rest hall hv h r3 hop hL
    · rw [if_neg hv] at h
      by_cases hvl : first.name = FVP8L
      · rw [if_pos hvl] at h
        rw [Bool.and_eq_true] at h
        exact first_vp8l s kind cfg _ _ hLs hs first rest hall hvl h.1 h.2 r3 hop hL
      · rw [if_neg hvl] at h
        by_cases hvx : first.name = FVP8X
        · rw [if_pos hvx] at h
          exact first_vp8x s kind cfg _ _ hLs hs (Nat.le_refl _) first rest hall hvx h r3 hop hL
        · rw [if_neg hvx] at h; cases h
  obtain ⟨o, p, hrun, ho⟩ := key
  subst ho
  simp only [Webp.sanitize, Webp.sanitizeWith, run_eq_runF, hrun]
  rfl

end
end MediaSan.Webp
