/-
  C09 (WebP container): the chunk-reader protocol assertions of webpsan/src/reader.rs ("read_header must be read after
  peek_header", the unreachable padding states, `stream_position - 8`) and the codec's short-buffer panic are
  unreachable on the ideal cursor, for every input — proved with the program logic of Lemmas/Hoare.lean and a
  typestate invariant over the three-level reader stack.
-/
import MediaSan.Lemmas.Hoare
import MediaSan.Webp.Sanitize
namespace MediaSan.Webp
open MediaSan

def isPeek : CState → Bool
  | .peeking _ _ => true
  | _ => false

def isPad : CState → Bool
  | .padding _ _ => true
  | _ => false

def inChunk : CState → Bool
  | .body _ _ _ => true
  | .padding _ _ => true
  | _ => false

/-- a peeked header was read, so the cursor is at least 8 bytes into the stream -/
def PeekInv (r : RS) (pos : Nat) : Prop :=
  (isPeek r.l0 = true → 8 ≤ pos) ∧ (isPeek r.l1 = true → 8 ≤ pos) ∧ (isPeek r.l2 = true → 8 ≤ pos)

theorem PeekInv.mono {r : RS} {pos pos' : Nat} (h : PeekInv r pos) (hp : pos ≤ pos') : PeekInv r pos' :=
  ⟨fun x => by have := h.1 x; omega, fun x => by have := h.2.1 x; omega, fun x => by have := h.2.2 x; omega⟩

theorem isPeek_consumeState (c : CState) (n : Nat) : isPeek (consumeState c n) = isPeek c := by
  cases c with
  | body name len rem => simp only [consumeState]; by_cases h : rem - n = 0 <;> simp [h, isPeek]
  | idle => rfl
  | peeking a b => rfl
  | padding a b => rfl

theorem inChunk_consumeState (c : CState) (n : Nat) : inChunk (consumeState c n) = inChunk c := by
  cases c with
  | body name len rem => simp only [consumeState]; by_cases h : rem - n = 0 <;> simp [h, inChunk]
  | idle => rfl
  | peeking a b => rfl
  | padding a b => rfl

theorem PeekInv.consume {r : RS} {pos : Nat} (h : PeekInv r pos) (k n : Nat) : PeekInv (r.consume k n) pos := by
  unfold RS.consume
  split
  · exact h
  · match k with
    | 0 => exact h
    | 1 => exact ⟨by simp only [isPeek_consumeState]; exact h.1, h.2.1, h.2.2⟩
    | _ + 2 => exact ⟨by simp only [isPeek_consumeState]; exact h.1, by simp only [isPeek_consumeState]; exact h.2.1, h.2.2⟩

theorem get_consume (r : RS) (k n : Nat) (hk : k ≤ 2) : (r.consume k n).get k = r.get k := by
  unfold RS.consume
  split
  · rfl
  · match k, hk with
    | 0, _ => rfl
    | 1, _ => rfl
    | 2, _ => rfl

theorem get_set (r : RS) (k : Nat) (c : CState) : (r.set k c).get k = c := by
  match k with
  | 0 => rfl
  | 1 => rfl
  | _ + 2 => rfl

theorem PeekInv.set {r : RS} {pos : Nat} (h : PeekInv r pos) (k : Nat) (c : CState) (hc : isPeek c = true → 8 ≤ pos) :
    PeekInv (r.set k c) pos := by
  match k with
  | 0 => exact ⟨hc, h.2.1, h.2.2⟩
  | 1 => exact ⟨h.1, hc, h.2.2⟩
  | _ + 2 => exact ⟨h.1, h.2.1, hc⟩

/-! ### the codecs never hit their short-buffer panic on a buffer of the schema's length -/

theorem parseReserved_np (n : Nat) (bs : Bytes) (h : n ≤ bs.length) :
    parseReserved n bs ≠ .error .panic ∧ ∀ rest, parseReserved n bs = .ok rest → rest.length = bs.length - n := by
  induction n generalizing bs with
  | zero => exact ⟨by simp [parseReserved], by intro rest hr; simp [parseReserved] at hr; subst hr; simp⟩
  | succ m ih =>
    cases bs with
    | nil => simp at h
    | cons b bs' =>
      simp only [List.length_cons] at h
      simp only [parseReserved]
      split
      · obtain ⟨a1, a2⟩ := ih bs' (by omega)
        exact ⟨a1, by intro rest hr; rw [a2 rest hr]; simp⟩
      · exact ⟨by simp, by intro rest hr; cases hr⟩

theorem parseField_np (t : FieldTy) (bs : Bytes) (h : t.encodedLen ≤ bs.length) :
    parseField t bs ≠ .error .panic ∧ ∀ v rest, parseField t bs = .ok (v, rest) → rest.length = bs.length - t.encodedLen := by
  cases t with
  | int c =>
    simp only [parseField, FieldTy.encodedLen] at h ⊢
    have : ¬ bs.length < c.bytes := by omega
    simp only [this, if_false]
    exact ⟨by simp, by intro v rest hr; simp only [Except.ok.injEq, Prod.mk.injEq] at hr; rw [← hr.2]; simp⟩
  | oneBased c =>
    simp only [parseField, FieldTy.encodedLen] at h ⊢
    have : ¬ bs.length < c.bytes := by omega
    simp only [this, if_false]
    exact ⟨by simp, by intro v rest hr; simp only [Except.ok.injEq, Prod.mk.injEq] at hr; rw [← hr.2]; simp⟩
  | reserved n =>
    simp only [parseField, FieldTy.encodedLen] at h ⊢
    obtain ⟨a1, a2⟩ := parseReserved_np n bs h
    cases hp : parseReserved n bs with
    | ok rest => exact ⟨by simp, by intro v r hr; simp only [Except.ok.injEq, Prod.mk.injEq] at hr; rw [← hr.2]; exact a2 rest hp⟩
    | error e =>
      refine ⟨?_, by intro v r hr; cases hr⟩
      intro hh
      simp only [Except.error.injEq] at hh
      subst hh
      exact a1 hp
  | flags c mask =>
    simp only [parseField, FieldTy.encodedLen] at h ⊢
    have : ¬ bs.length < c.bytes := by omega
    simp only [this, if_false]
    split
    · exact ⟨by simp, by intro v rest hr; simp only [Except.ok.injEq, Prod.mk.injEq] at hr; rw [← hr.2]; simp⟩
    · exact ⟨by simp, by intro v rest hr; cases hr⟩

theorem parseFields_np (tys : List FieldTy) (bs : Bytes) (h : (tys.map FieldTy.encodedLen).sum ≤ bs.length) :
    parseFields tys bs ≠ .error .panic := by
  induction tys generalizing bs with
  | nil => simp [parseFields]
  | cons t ts ih =>
    simp only [List.map_cons, List.sum_cons] at h
    simp only [parseFields]
    obtain ⟨a1, a2⟩ := parseField_np t bs (by omega)
    cases hp : parseField t bs with
    | error e =>
      intro hh
      simp only [Except.error.injEq] at hh
      subst hh
      exact a1 hp
    | ok x =>
      obtain ⟨v, rest⟩ := x
      have hl := a2 v rest hp
      have := ih rest (by omega)
      dsimp only
      cases hq : parseFields ts rest with
      | error e =>
        intro hh
        simp only [Except.error.injEq] at hh
        subst hh
        exact this hq
      | ok y => simp

theorem schema_parse_np (sc : Schema) (bs : Bytes) (h : bs.length = sc.encodedLen) : sc.parse bs ≠ .error .panic := by
  simp only [Schema.parse]
  have := parseFields_np sc.tys bs (by rw [h]; exact Nat.le_refl _)
  cases hp : parseFields sc.tys bs with
  | error e =>
    intro hh
    simp only [Except.error.injEq] at hh
    subst hh
    exact this hp
  | ok x => dsimp only; split <;> simp

section
variable (s : Stream) (kind : SkipKind) (hlen : s.len < u64Lim)

theorem wskip_ok {pos n pos' : Nat} (h : (idealOps s kind).skip pos n = .ok pos') : pos ≤ pos' := by
  simp only [idealOps] at h
  cases kind with
  | strict => dsimp only at h; split at h <;> cases h; omega
  | seekable =>
    dsimp only at h
    split at h
    · cases h; exact Nat.le_refl _
    · split at h
      · cases h; omega
      · split at h <;> cases h

theorem rawIsEmpty_safe (r : RS) (k pos : Nat) :
    Safe (idealOps s kind) (rawIsEmpty r k) pos (fun _ pos' => pos' = pos) := by
  unfold rawIsEmpty
  split
  · exact Safe.done rfl
  · apply Safe.isEof; exact Safe.done rfl

theorem rawRead_safe (r : RS) (k n pos : Nat) :
    Safe (idealOps s kind) (rawRead r k n) pos
      (fun x pos' => x.2 = r.consume k n ∧ pos ≤ pos' ∧ (n ≠ 0 → pos' = pos + n) ∧ x.1.length = n) := by
  unfold rawRead
  split
  · rename_i h0; subst h0
    refine Safe.done ⟨?_, Nat.le_refl _, fun h => absurd rfl h, rfl⟩
    simp [RS.consume]
  · split
    · apply Safe.readExact
      · intro h; rename_i h0 _; exact absurd h h0
      · intro _ _
        refine Safe.done ⟨rfl, by omega, fun _ => rfl, ?_⟩
        simp [Stream.read]
    · exact Safe.fail

theorem rawSkip_safe (r : RS) (k n pos : Nat) :
    Safe (idealOps s kind) (rawSkip r k n) pos (fun r' pos' => r' = r.consume k n ∧ pos ≤ pos') := by
  unfold rawSkip
  split
  · split
    · rename_i h0; subst h0; exact Safe.done ⟨by simp [RS.consume], Nat.le_refl _⟩
    · apply Safe.skip
      intro p' hk
      exact Safe.done ⟨rfl, wskip_ok s kind hk⟩
  · exact Safe.fail

/-- what the reader operations guarantee about the stack: the cursor only moves forward, peeked headers stay
    justified, and level `k` ends in a state satisfying `T` -/
def Post (r : RS) (pos : Nat) (k : Nat) (T : CState → Prop) (r' : RS) (pos' : Nat) : Prop :=
  pos ≤ pos' ∧ PeekInv r' pos' ∧ T (r'.get k)

theorem readPadding_safe (r : RS) (k pos : Nat) (hk : k ≤ 2) (hinv : PeekInv r pos) :
    Safe (idealOps s kind) (readPadding r k) pos
      (fun r' pos' => Post r pos k (fun c => isPad c = false ∧ (isPeek c = true → isPeek (r.get k) = true) ∧
        (inChunk (r.get k) = true → isPad (r.get k) = false → c = r.get k)) r' pos') := by
  unfold readPadding
  cases hc : r.get k with
  | padding name len =>
    dsimp only
    split
    · apply Safe.bind
      apply Safe.mono (rawRead_safe s kind r k 1 pos)
      intro x p1 ⟨h1, h2, _, _⟩
      split
      · refine Safe.done ⟨h2, ?_, ?_⟩
        · rw [h1]; exact ((hinv.consume k 1).mono h2).set k .idle (by simp [isPeek])
        · rw [get_set]; simp [isPad, isPeek, inChunk]
      · exact Safe.fail
    · refine Safe.done ⟨Nat.le_refl _, hinv.set k .idle (by simp [isPeek]), ?_⟩
      rw [get_set]; simp [isPad, isPeek, inChunk]
  | idle => exact Safe.done ⟨Nat.le_refl _, hinv, by rw [hc]; simp [isPad, isPeek]⟩
  | peeking n l => exact Safe.done ⟨Nat.le_refl _, hinv, by rw [hc]; simp [isPad, isPeek]⟩
  | body n l rem => exact Safe.done ⟨Nat.le_refl _, hinv, by rw [hc]; simp [isPad, isPeek]⟩


theorem hasRemaining_safe (r : RS) (k pos : Nat) (hk : k ≤ 2) (hinv : PeekInv r pos) :
    Safe (idealOps s kind) (hasRemaining r k) pos
      (fun x pos' => Post r pos k (fun c => isPad c = false ∧ (isPeek c = true → isPeek (r.get k) = true) ∧
        (inChunk (r.get k) = true → isPad (r.get k) = false → c = r.get k)) x.2 pos') := by
  unfold hasRemaining
  apply Safe.bind
  apply Safe.mono (readPadding_safe s kind r k pos hk hinv)
  intro r1 p1 ⟨h1, h2, h3⟩
  cases hc : r1.get k with
  | idle =>
    dsimp only
    apply Safe.bind
    apply Safe.mono (rawIsEmpty_safe s kind r1 k p1)
    intro e p2 hp2
    subst hp2
    exact Safe.done ⟨h1, h2, h3⟩
  | peeking a b => exact Safe.done ⟨h1, h2, h3⟩
  | body a b c => exact Safe.done ⟨h1, h2, h3⟩
  | padding a b => exact Safe.done ⟨h1, h2, h3⟩

/-- `read_any_header`: never panics; on success level `k` is inside a chunk -/
theorem readAnyHeader_safe (r : RS) (k pos : Nat) (hk : k ≤ 2) (hinv : PeekInv r pos) :
    Safe (idealOps s kind) (readAnyHeader r k) pos
      (fun x pos' => Post r pos k (fun c => inChunk c = true) x.2 pos') := by
  unfold readAnyHeader
  apply Safe.bind
  apply Safe.mono (readPadding_safe s kind r k pos hk hinv)
  intro r1 p1 ⟨h1, h2, h3⟩
  dsimp only
  -- the header is known (name, len), the cursor is at least 8 bytes in
  have withHdr : ∀ (name : Bytes) (len : Nat) (r2 : RS) (p2 : Nat), p1 ≤ p2 → 8 ≤ p2 → PeekInv r2 p2 →
      Safe (idealOps s kind)
        (Prog.position fun pos => if pos < 8 then (Prog.panic "reader.rs:127 stream_position - 8" : WP (Bytes × RS))
          else Prog.done (name, r2.set k (if len = 0 then CState.padding name len else CState.body name len len))) p2
        (fun x pos' => Post r pos k (fun c => inChunk c = true) x.2 pos') := by
    intro name len r2 p2 hp hp8 hi2
    apply Safe.position
    have : ¬ p2 < 8 := by omega
    simp only [this, if_false]
    refine Safe.done ⟨by omega, ?_, ?_⟩
    · apply hi2.set; split <;> simp [isPeek]
    · rw [get_set]; split <;> rfl
  cases hc : r1.get k with
  | peeking name len =>
    dsimp only
    have h8 : 8 ≤ p1 := by
      have hp : isPeek (r1.get k) = true := by rw [hc]; rfl
      match k, hk with
      | 0, _ => exact h2.1 hp
      | 1, _ => exact h2.2.1 hp
      | 2, _ => exact h2.2.2 hp
    exact withHdr name len r1 p1 (Nat.le_refl _) h8 h2
  | idle =>
    dsimp only
    apply Safe.bind
    apply Safe.mono (hasRemaining_safe s kind r1 k p1 hk h2)
    intro x p2 ⟨g1, g2, g3⟩
    split
    · exact Safe.fail
    · apply Safe.bind
      apply Safe.mono (rawRead_safe s kind x.2 k 8 p2)
      intro y p3 ⟨e1, e2, e3, e4⟩
      dsimp only [parseChunkHeader]
      have hp3 : p3 = p2 + 8 := e3 (by decide)
      have := withHdr (y.1.take 4) (leToNat ((y.1.drop 4).take 4)) y.2 p3 (by omega) (by omega)
        (by rw [e1]; exact (g2.consume k 8).mono e2)
      exact this
  | body a b c => exact Safe.fail
  | padding a b =>
    have := h3.1; rw [hc] at this; simp [isPad] at this

/-- `peek_header`: never panics; a peeked header is remembered with the cursor ≥ 8 -/
theorem peekHeader_safe (r : RS) (k pos : Nat) (hk : k ≤ 2) (hinv : PeekInv r pos) :
    Safe (idealOps s kind) (peekHeader r k) pos (fun x pos' => Post r pos k (fun _ => True) x.2 pos') := by
  unfold peekHeader
  apply Safe.bind
  apply Safe.mono (readPadding_safe s kind r k pos hk hinv)
  intro r1 p1 ⟨h1, h2, h3⟩
  cases hc : r1.get k with
  | peeking name len => exact Safe.done ⟨h1, h2, trivial⟩
  | idle =>
    dsimp only
    apply Safe.bind
    apply Safe.mono (hasRemaining_safe s kind r1 k p1 hk h2)
    intro x p2 ⟨g1, g2, g3⟩
    split
    · exact Safe.done ⟨by omega, g2, trivial⟩
    · apply Safe.bind
      apply Safe.mono (rawRead_safe s kind x.2 k 8 p2)
      intro y p3 ⟨e1, e2, e3, e4⟩
      dsimp only [parseChunkHeader]
      have hp3 : p3 = p2 + 8 := e3 (by decide)
      refine Safe.done ⟨by omega, ?_, trivial⟩
      rw [e1]
      exact ((g2.consume k 8).mono e2).set k _ (by intro _; omega)
  | body a b c => exact Safe.fail
  | padding a b =>
    have := h3.1; rw [hc] at this; simp [isPad] at this

/-- `read_header(name)`: never panics; on success level `k` is inside a chunk -/
theorem readHeader_safe (r : RS) (k pos : Nat) (name : Bytes) (hk : k ≤ 2) (hinv : PeekInv r pos) :
    Safe (idealOps s kind) (readHeader r k name) pos (fun r' pos' => Post r pos k (fun c => inChunk c = true) r' pos') := by
  unfold readHeader
  apply Safe.bind
  apply Safe.mono (readPadding_safe s kind r k pos hk hinv)
  intro r1 p1 ⟨h1, h2, h3⟩
  dsimp only
  have go : ∀ (r2 : RS) (p2 : Nat), p1 ≤ p2 → PeekInv r2 p2 →
      Safe (idealOps s kind)
        ((readAnyHeader r2 k).bind fun x => if x.1 = name then (Prog.done x.2 : WP RS) else Prog.fail WErr.invalidChunkLayout) p2
        (fun r' pos' => Post r pos k (fun c => inChunk c = true) r' pos') := by
    intro r2 p2 hp hi
    apply Safe.bind
    apply Safe.mono (readAnyHeader_safe s kind r2 k p2 hk hi)
    intro x p3 ⟨f1, f2, f3⟩
    split
    · exact Safe.done ⟨by omega, f2, f3⟩
    · exact Safe.fail
  cases hc : r1.get k with
  | idle =>
    dsimp only
    apply Safe.bind
    apply Safe.mono (hasRemaining_safe s kind r1 k p1 hk h2)
    intro x p2 ⟨g1, g2, g3⟩
    split
    · exact go x.2 p2 g1 g2
    · exact Safe.fail
  | peeking a b => exact go r1 p1 (Nat.le_refl _) h2
  | body a b c => exact go r1 p1 (Nat.le_refl _) h2
  | padding a b => exact go r1 p1 (Nat.le_refl _) h2

/-- `read_data(n)`: no panic when level `k` is not in the peeking state; on success it is inside a chunk and the
    data has the requested length -/
theorem readData_safe (r : RS) (k n pos : Nat) (hk : k ≤ 2) (hinv : PeekInv r pos) (hnp : isPeek (r.get k) = false) :
    Safe (idealOps s kind) (readData r k n) pos
      (fun x pos' => Post r pos k (fun c => inChunk c = true) x.2 pos' ∧ x.1.length = n) := by
  unfold readData
  apply Safe.bind
  apply Safe.mono (readPadding_safe s kind r k pos hk hinv)
  intro r1 p1 ⟨h1, h2, h3⟩
  cases hc : r1.get k with
  | idle => exact Safe.fail
  | peeking a b =>
    have := h3.2.1 (by rw [hc]; rfl); rw [hnp] at this; cases this
  | body name len rem =>
    dsimp only
    split
    · exact Safe.fail
    · apply Safe.bind
      apply Safe.mono (rawRead_safe s kind r1 k n p1)
      intro y p2 ⟨e1, e2, e3, e4⟩
      refine Safe.done ⟨⟨by omega, ?_, ?_⟩, e4⟩
      · rw [e1]; apply ((h2.consume k n).mono e2).set; split <;> simp [isPeek]
      · rw [get_set]; split <;> rfl
  | padding a b =>
    have := h3.1; rw [hc] at this; simp [isPad] at this

/-- `skip_data`: no panic when level `k` is not in the peeking state -/
theorem skipData_safe (r : RS) (k pos : Nat) (hk : k ≤ 2) (hinv : PeekInv r pos) (hnp : isPeek (r.get k) = false) :
    Safe (idealOps s kind) (skipData r k) pos (fun r' pos' => Post r pos k (fun c => isPeek c = false) r' pos') := by
  unfold skipData
  apply Safe.bind
  apply Safe.mono (readPadding_safe s kind r k pos hk hinv)
  intro r1 p1 ⟨h1, h2, h3⟩
  cases hc : r1.get k with
  | idle => exact Safe.done ⟨h1, h2, by rw [hc]; rfl⟩
  | peeking a b =>
    have := h3.2.1 (by rw [hc]; rfl); rw [hnp] at this; cases this
  | body name len rem =>
    dsimp only
    apply Safe.bind
    apply Safe.mono (rawSkip_safe s kind r1 k rem p1)
    intro r2 p2 ⟨e1, e2⟩
    refine Safe.done ⟨by omega, ?_, ?_⟩
    · rw [e1]; exact ((h2.consume k rem).mono e2).set k _ (by simp [isPeek])
    · rw [get_set]; rfl
  | padding a b =>
    have := h3.1; rw [hc] at this; simp [isPad] at this


/-- the lossless validator does not panic (hypothesis of the container theorem; its own panic sites are the subject
    of C18_decode_no_panic and the totality check) -/
def ValidateNP : Prop := ∀ (data : ByteArray) (w h : Nat) (site : String), Vp8l.validate data w h ≠ .error (.panic site)

theorem liftLossless_safe (hV : ValidateNP) (data : ByteArray) (w h pos : Nat) (Q : Unit → Nat → Prop) (hq : Q () pos) :
    Safe (idealOps s kind) (liftLossless (Vp8l.validate data w h)) pos Q := by
  unfold liftLossless
  cases hv : Vp8l.validate data w h with
  | ok u => exact Safe.done hq
  | error e =>
    cases e with
    | truncated => exact Safe.fail
    | invalidInput => exact Safe.fail
    | invalidPrefixCode => exact Safe.fail
    | panic site => exact absurd hv (hV data w h site)

theorem parseData_safe (r : RS) (k pos : Nat) (sc : Schema) (hk : k ≤ 2) (hinv : PeekInv r pos)
    (hnp : isPeek (r.get k) = false) :
    Safe (idealOps s kind) (parseData r k sc) pos (fun x pos' => Post r pos k (fun c => inChunk c = true) x.2 pos') := by
  unfold parseData
  apply Safe.bind
  apply Safe.mono (readData_safe s kind r k sc.encodedLen pos hk hinv hnp)
  intro x p1 ⟨h1, h2⟩
  apply Safe.bind
  unfold liftPrim
  have := schema_parse_np sc x.1 h2
  cases hp : sc.parse x.1 with
  | ok y => exact Safe.done (Safe.done h1)
  | error e =>
    cases e with
    | truncated => exact Safe.fail
    | invalidInput => exact Safe.fail
    | panic => exact absurd hp this

theorem isPeek_ite_pb (c : Prop) [Decidable c] (n : Bytes) (l m : Nat) :
    isPeek (if c then CState.padding n l else CState.body n l m) = false := by split <;> rfl

theorem inChunk_ite_pb (c : Prop) [Decidable c] (n : Bytes) (l m : Nat) :
    inChunk (if c then CState.padding n l else CState.body n l m) = true := by split <;> rfl

theorem inChunk_not_peek {c : CState} (h : inChunk c = true) : isPeek c = false := by
  cases c <;> simp_all [inChunk, isPeek]

theorem sanitizeImageData_safe (hV : ValidateNP) (r : RS) (k w h pos : Nat) (hk : k ≤ 2) (hinv : PeekInv r pos)
    (hin : inChunk (r.get k) = true) :
    Safe (idealOps s kind) (sanitizeImageData r k w h) pos (fun r' pos' => Post r pos k (fun c => inChunk c = true) r' pos') := by
  unfold sanitizeImageData
  cases hc : r.get k with
  | body name len rem =>
    dsimp only
    apply Safe.readUpTo
    -- read_to_end of the available bytes, then the validator, then the bookkeeping
    apply Safe.bind
    apply liftLossless_safe s kind hV
    refine Safe.done ⟨by omega, ?_, ?_⟩
    · exact ((hinv.consume k _).mono (by omega)).set k _ (by rw [isPeek_ite_pb]; simp)
    · rw [get_set]; exact inChunk_ite_pb _ _ _ _
  | idle => rw [hc] at hin; simp [inChunk] at hin
  | peeking a b => rw [hc] at hin; simp [inChunk] at hin
  | padding a b =>
    dsimp only
    apply Safe.bind
    apply liftLossless_safe s kind hV
    exact Safe.done ⟨Nat.le_refl _, hinv, hin⟩

theorem safe_ite_notb {α σ : Type} {ops : CursorOps σ} (b : Bool) (e : WErr) {X : WP α} {st : σ} {Q : α → σ → Prop}
    (hx : Safe ops X st Q) : Safe ops (if (!b) = true then Prog.fail e else X) st Q := by
  cases b
  · exact Safe.fail
  · simpa using hx

theorem vp8lChunk_safe (hV : ValidateNP) (r : RS) (k pos : Nat) (expect : Option (Nat × Nat)) (hk : k ≤ 2)
    (hinv : PeekInv r pos) (hnp : isPeek (r.get k) = false) :
    Safe (idealOps s kind) (vp8lChunk r k expect) pos (fun r' pos' => Post r pos k (fun c => isPeek c = false) r' pos') := by
  unfold vp8lChunk
  apply Safe.bind
  apply Safe.mono (readData_safe s kind r k 5 pos hk hinv hnp)
  intro x p1 ⟨⟨h1, h2, h3⟩, _⟩
  cases hp : Vp8l.parseVp8lHeader (ByteArray.mk x.1.toArray) with
  | error e => cases e <;> exact Safe.fail
  | ok wh =>
    obtain ⟨w, h⟩ := wh
    apply safe_ite_notb
    · apply Safe.bind
      apply Safe.mono (sanitizeImageData_safe s kind hV x.2 k _ _ p1 hk h2 h3)
      intro r2 p2 ⟨g1, g2, g3⟩
      apply Safe.mono (skipData_safe s kind r2 k p2 hk g2 (inChunk_not_peek g3))
      intro r3 p3 ⟨f1, f2, f3⟩
      exact ⟨by omega, f2, f3⟩

theorem alphChunk_safe (hV : ValidateNP) (r : RS) (k w h pos : Nat) (hk : k ≤ 2)
    (hinv : PeekInv r pos) (hnp : isPeek (r.get k) = false) :
    Safe (idealOps s kind) (alphChunk r k w h) pos (fun r' pos' => Post r pos k (fun c => isPeek c = false) r' pos') := by
  unfold alphChunk
  apply Safe.bind
  apply Safe.mono (parseData_safe s kind r k pos _ hk hinv hnp)
  intro x p1 ⟨h1, h2, h3⟩
  dsimp only
  apply Safe.bind
  have inner : Safe (idealOps s kind)
      (if x.1.getD 0 0 % 2 = 1 then sanitizeImageData x.2 k w h else Prog.done x.2) p1
      (fun r' pos' => Post x.2 p1 k (fun c => inChunk c = true) r' pos') := by
    split
    · exact sanitizeImageData_safe s kind hV x.2 k w h p1 hk h2 h3
    · exact Safe.done ⟨Nat.le_refl _, h2, h3⟩
  apply Safe.mono inner
  intro r2 p2 ⟨g1, g2, g3⟩
  apply Safe.mono (skipData_safe s kind r2 k p2 hk g2 (inChunk_not_peek g3))
  intro r3 p3 ⟨f1, f2, f3⟩
  exact ⟨by omega, f2, f3⟩


/-- "nothing bad happened": the cursor moved forward and peeked headers are still justified -/
def Fwd (pos : Nat) (r' : RS) (pos' : Nat) : Prop := pos ≤ pos' ∧ PeekInv r' pos'

theorem trailingLoop_safe (hV : ValidateNP) (cfg : Config) (k : Nat) (inAnmf : Bool) (fuel : Nat) (r : RS) (pos : Nat)
    (hk : k ≤ 2) (hinv : PeekInv r pos) :
    Safe (idealOps s kind) (trailingLoop cfg k inAnmf fuel r) pos
      (fun o pos' => ∀ r', o = some r' → Fwd pos r' pos') := by
  induction fuel generalizing r pos with
  | zero => exact Safe.done (by intro r' h; cases h)
  | succ n ih =>
    unfold trailingLoop
    apply Safe.bind
    apply Safe.mono (hasRemaining_safe s kind r k pos hk hinv)
    intro x p1 ⟨h1, h2, h3⟩
    obtain ⟨more, r1⟩ := x
    dsimp only at h2 h3 ⊢
    split
    · exact Safe.done (by intro r' h; cases h; exact ⟨h1, h2⟩)
    · apply Safe.bind
      apply Safe.mono (readAnyHeader_safe s kind r1 k p1 hk h2)
      intro y p2 ⟨g1, g2, g3⟩
      obtain ⟨name, r2⟩ := y
      dsimp only at g2 g3 ⊢
      split
      · exact Safe.fail
      · split
        · exact Safe.fail
        · apply Safe.bind
          apply Safe.mono (skipData_safe s kind r2 k p2 hk g2 (inChunk_not_peek g3))
          intro r3 p3 ⟨f1, f2, f3⟩
          apply Safe.mono (ih r3 p3 f2)
          intro o p4 ho r' hr
          have := ho r' hr
          exact ⟨by have := this.1; omega, this.2⟩

theorem sanitizeStill_safe (hV : ValidateNP) (r : RS) (flags cw ch pos : Nat) (hinv : PeekInv r pos) :
    Safe (idealOps s kind) (sanitizeStill r flags cw ch) pos (fun r' pos' => Fwd pos r' pos') := by
  unfold sanitizeStill
  dsimp only
  apply Safe.bind
  have first : Safe (idealOps s kind)
      (if flagSet flags 16 = true then (readHeader r 1 FALPH).bind fun r => alphChunk r 1 cw ch else Prog.done r) pos
      (fun r' pos' => Fwd pos r' pos') := by
    split
    · apply Safe.bind
      apply Safe.mono (readHeader_safe s kind r 1 pos FALPH (by decide) hinv)
      intro r1 p1 ⟨a1, a2, a3⟩
      apply Safe.mono (alphChunk_safe s kind hV r1 1 cw ch p1 (by decide) a2 (inChunk_not_peek a3))
      intro r2 p2 ⟨b1, b2, _⟩
      exact ⟨by omega, b2⟩
    · exact Safe.done ⟨Nat.le_refl _, hinv⟩
  apply Safe.mono first
  intro r1 p1 ⟨a1, a2⟩
  apply Safe.bind
  apply Safe.mono (hasRemaining_safe s kind r1 1 p1 (by decide) a2)
  intro x p2 ⟨b1, b2, _⟩
  obtain ⟨more, r2⟩ := x
  dsimp only at b2 ⊢
  split
  · exact Safe.fail
  · apply Safe.bind
    apply Safe.mono (readAnyHeader_safe s kind r2 1 p2 (by decide) b2)
    intro y p3 ⟨c1, c2, c3⟩
    obtain ⟨name, r3⟩ := y
    dsimp only at c2 c3 ⊢
    split
    · apply Safe.mono (skipData_safe s kind r3 1 p3 (by decide) c2 (inChunk_not_peek c3))
      intro r4 p4 ⟨d1, d2, _⟩
      exact ⟨by omega, d2⟩
    · split
      · split
        · exact Safe.fail
        · apply Safe.mono (vp8lChunk_safe s kind hV r3 1 p3 _ (by decide) c2 (inChunk_not_peek c3))
          intro r4 p4 ⟨d1, d2, _⟩
          exact ⟨by omega, d2⟩
      · exact Safe.fail


theorem PeekInv.setIdle {r : RS} {pos : Nat} (h : PeekInv r pos) (k : Nat) : PeekInv (r.set k .idle) pos :=
  h.set k .idle (by simp [isPeek])

theorem sanitizeFrame_safe (hV : ValidateNP) (cfg : Config) (r : RS) (flags cw ch fuel pos : Nat) (hinv : PeekInv r pos) :
    Safe (idealOps s kind) (sanitizeFrame cfg r flags cw ch fuel) pos
      (fun o pos' => ∀ r', o = some r' → Fwd pos r' pos') := by
  unfold sanitizeFrame
  apply Safe.bind
  apply Safe.mono (readHeader_safe s kind r 1 pos FANMF (by decide) hinv)
  intro r1 p1 ⟨a1, a2, a3⟩
  apply Safe.bind
  apply Safe.mono (parseData_safe s kind r1 1 p1 _ (by decide) a2 (inChunk_not_peek a3))
  intro x p2 ⟨b1, b2, _⟩
  obtain ⟨vs, r2⟩ := x
  dsimp only at b2 ⊢
  apply Safe.bind
  -- optional ALPH inside the frame
  have alph : Safe (idealOps s kind)
      (if flagSet flags 16 = true then
        (peekHeader (r2.set 2 .idle) 2).bind fun x =>
          match x with
          | (nm, r) =>
            if nm = some FALPH then (readHeader r 2 FALPH).bind fun r => (alphChunk r 2 (vs.getD 2 0) (vs.getD 3 0)).bind fun r => Prog.done (true, r)
            else Prog.done (false, r)
       else Prog.done (false, r2.set 2 .idle)) p2
      (fun y pos' => Fwd p2 y.2 pos') := by
    split
    · apply Safe.bind
      apply Safe.mono (peekHeader_safe s kind (r2.set 2 .idle) 2 p2 (by decide) (b2.setIdle 2))
      intro y p3 ⟨c1, c2, _⟩
      obtain ⟨nm, r3⟩ := y
      dsimp only at c2 ⊢
      split
      · apply Safe.bind
        apply Safe.mono (readHeader_safe s kind r3 2 p3 FALPH (by decide) c2)
        intro r4 p4 ⟨d1, d2, d3⟩
        apply Safe.bind
        apply Safe.mono (alphChunk_safe s kind hV r4 2 _ _ p4 (by decide) d2 (inChunk_not_peek d3))
        intro r5 p5 ⟨e1, e2, _⟩
        exact Safe.done ⟨by omega, e2⟩
      · exact Safe.done ⟨c1, c2⟩
    · exact Safe.done ⟨Nat.le_refl _, b2.setIdle 2⟩
  apply Safe.mono alph
  intro y p3 ⟨c1, c2⟩
  obtain ⟨sawAlph, r3⟩ := y
  dsimp only at c2 ⊢
  apply Safe.bind
  apply Safe.mono (readAnyHeader_safe s kind r3 2 p3 (by decide) c2)
  intro z p4 ⟨d1, d2, d3⟩
  obtain ⟨name, r4⟩ := z
  dsimp only at d2 d3 ⊢
  apply Safe.bind
  have img : Safe (idealOps s kind)
      (if name = FVP8 then skipData r4 2
       else if name = FVP8L then
         if sawAlph = true then Prog.fail WErr.invalidChunkLayout else vp8lChunk r4 2 (some (vs.getD 2 0, vs.getD 3 0))
       else Prog.fail WErr.invalidChunkLayout) p4
      (fun r' pos' => Fwd p4 r' pos') := by
    split
    · apply Safe.mono (skipData_safe s kind r4 2 p4 (by decide) d2 (inChunk_not_peek d3))
      intro r5 p5 ⟨e1, e2, _⟩; exact ⟨e1, e2⟩
    · split
      · split
        · exact Safe.fail
        · apply Safe.mono (vp8lChunk_safe s kind hV r4 2 p4 _ (by decide) d2 (inChunk_not_peek d3))
          intro r5 p5 ⟨e1, e2, _⟩; exact ⟨e1, e2⟩
      · exact Safe.fail
  apply Safe.mono img
  intro r5 p5 ⟨e1, e2⟩
  apply Safe.mono (trailingLoop_safe s kind hV cfg 2 true fuel r5 p5 (by decide) e2)
  intro o p6 ho r' hr
  have := ho r' hr
  exact ⟨by have := this.1; omega, this.2⟩

theorem framesLoop_safe (hV : ValidateNP) (cfg : Config) (flags cw ch fuel n : Nat) (r : RS) (pos : Nat)
    (hinv : PeekInv r pos) :
    Safe (idealOps s kind) (framesLoop cfg flags cw ch fuel n r) pos
      (fun o pos' => ∀ r', o = some r' → Fwd pos r' pos') := by
  induction n generalizing r pos with
  | zero => exact Safe.done (by intro r' h; cases h)
  | succ m ih =>
    unfold framesLoop
    apply Safe.bind
    apply Safe.mono (peekHeader_safe s kind r 1 pos (by decide) hinv)
    intro x p1 ⟨a1, a2, _⟩
    obtain ⟨nm, r1⟩ := x
    dsimp only at a2 ⊢
    split
    · apply Safe.bind
      apply Safe.mono (sanitizeFrame_safe s kind hV cfg r1 flags cw ch fuel p1 a2)
      intro o p2 ho
      cases o with
      | none => exact Safe.done (by intro r' h; cases h)
      | some r2 =>
        have hf := ho r2 rfl
        apply Safe.mono (ih r2 p2 hf.2)
        intro o' p3 ho' r' hr
        have := ho' r' hr
        exact ⟨by have := this.1; have := hf.1; omega, this.2⟩
    · exact Safe.done (by intro r' h; cases h; exact ⟨a1, a2⟩)

theorem sanitizeAnimated_safe (hV : ValidateNP) (cfg : Config) (r : RS) (flags cw ch fuel pos : Nat) (hinv : PeekInv r pos) :
    Safe (idealOps s kind) (sanitizeAnimated cfg r flags cw ch fuel) pos
      (fun o pos' => ∀ r', o = some r' → Fwd pos r' pos') := by
  unfold sanitizeAnimated
  apply Safe.bind
  apply Safe.mono (readHeader_safe s kind r 1 pos FANIM (by decide) hinv)
  intro r1 p1 ⟨a1, a2, a3⟩
  apply Safe.bind
  apply Safe.mono (parseData_safe s kind r1 1 p1 _ (by decide) a2 (inChunk_not_peek a3))
  intro x p2 ⟨b1, b2, _⟩
  obtain ⟨vs, r2⟩ := x
  dsimp only at b2 ⊢
  apply Safe.bind
  apply Safe.mono (peekHeader_safe s kind r2 1 p2 (by decide) b2)
  intro y p3 ⟨c1, c2, _⟩
  obtain ⟨nm, r3⟩ := y
  dsimp only at c2 ⊢
  split
  · apply Safe.mono (framesLoop_safe s kind hV cfg flags cw ch fuel fuel r3 p3 c2)
    intro o p4 ho r' hr
    have := ho r' hr
    exact ⟨by have := this.1; omega, this.2⟩
  · exact Safe.fail


theorem optChunk_safe (r : RS) (pos : Nat) (c : Bool) (name : Bytes) (hinv : PeekInv r pos) :
    Safe (idealOps s kind) (if c = true then (readHeader r 1 name).bind fun r => skipData r 1 else Prog.done r) pos
      (fun r' pos' => Fwd pos r' pos') := by
  split
  · apply Safe.bind
    apply Safe.mono (readHeader_safe s kind r 1 pos name (by decide) hinv)
    intro r1 p1 ⟨a1, a2, a3⟩
    apply Safe.mono (skipData_safe s kind r1 1 p1 (by decide) a2 (inChunk_not_peek a3))
    intro r2 p2 ⟨b1, b2, _⟩
    exact ⟨by omega, b2⟩
  · exact Safe.done ⟨Nat.le_refl _, hinv⟩

theorem sanitizeExtended_safe (hV : ValidateNP) (cfg : Config) (r : RS) (flags cw ch fuel pos : Nat) (hinv : PeekInv r pos) :
    Safe (idealOps s kind) (sanitizeExtended cfg r flags cw ch fuel) pos
      (fun o pos' => ∀ r', o = some r' → Fwd pos r' pos') := by
  unfold sanitizeExtended
  apply Safe.bind
  apply Safe.mono (optChunk_safe s kind r pos (flagSet flags 32) FICCP hinv)
  intro r1 p1 ⟨a1, a2⟩
  apply Safe.bind
  have mid : Safe (idealOps s kind)
      (if flagSet flags 2 = true then sanitizeAnimated cfg r1 flags cw ch fuel
       else (sanitizeStill r1 flags cw ch).bind fun r => Prog.done (some r)) p1
      (fun o pos' => ∀ r', o = some r' → Fwd p1 r' pos') := by
    split
    · exact sanitizeAnimated_safe s kind hV cfg r1 flags cw ch fuel p1 a2
    · apply Safe.bind
      apply Safe.mono (sanitizeStill_safe s kind hV r1 flags cw ch p1 a2)
      intro r2 p2 h2
      exact Safe.done (by intro r' h; cases h; exact h2)
  apply Safe.mono mid
  intro o p2 ho
  cases o with
  | none => exact Safe.done (by intro r' h; cases h)
  | some r2 =>
    have hf := ho r2 rfl
    dsimp only
    apply Safe.bind
    apply Safe.mono (optChunk_safe s kind r2 p2 (flagSet flags 8) FEXIF hf.2)
    intro r3 p3 ⟨b1, b2⟩
    apply Safe.bind
    apply Safe.mono (optChunk_safe s kind r3 p3 (flagSet flags 4) FXMP b2)
    intro r4 p4 ⟨c1, c2⟩
    exact Safe.done (by intro r' h; cases h; exact ⟨by have := hf.1; omega, c2⟩)

/-- the whole WebP container sanitizer on the ideal cursor never panics (given that the lossless validator does
    not): no chunk-reader protocol assertion, no unreachable padding state, no `stream_position - 8` underflow, no
    codec read on a short buffer is reachable, for any input -/
theorem sanitizeP_safe (hV : ValidateNP) (cfg : Config) (fuel : Nat) :
    Safe (idealOps s kind) (sanitizeP cfg fuel) 0 (fun _ _ => True) := by
  unfold sanitizeP
  dsimp only
  have h0 : PeekInv ({} : RS) 0 := ⟨by simp [isPeek], by simp [isPeek], by simp [isPeek]⟩
  apply Safe.bind
  apply Safe.mono (readHeader_safe s kind {} 0 0 FRIFF (by decide) h0)
  intro r1 p1 ⟨a1, a2, a3⟩
  apply Safe.bind
  apply Safe.mono (readData_safe s kind r1 0 4 p1 (by decide) a2 (inChunk_not_peek a3))
  intro x p2 ⟨⟨b1, b2, _⟩, _⟩
  obtain ⟨b, r2⟩ := x
  dsimp only at b2 ⊢
  generalize riffLen r1.l0 = len
  split
  · exact Safe.fail
  · split
    · exact Safe.fail
    · apply Safe.bind
      apply Safe.mono (readAnyHeader_safe s kind (r2.set 1 .idle) 1 p2 (by decide) (b2.setIdle 1))
      intro y p3 ⟨c1, c2, c3⟩
      obtain ⟨name, r3⟩ := y
      dsimp only at c2 c3 ⊢
      apply Safe.bind
      have first : Safe (idealOps s kind)
          (if name = FVP8 then (skipData r3 1).bind fun r => Prog.done (some r)
           else if name = FVP8L then (vp8lChunk r3 1 none).bind fun r => Prog.done (some r)
           else if name = FVP8X then
             (parseData r3 1 Generated.schemaVp8xChunk).bind fun x =>
               match x with
               | (vs, r) => sanitizeExtended cfg r (vs.getD 0 0) (vs.getD 2 0) (vs.getD 3 0) fuel
           else Prog.fail WErr.invalidChunkLayout) p3
          (fun o pos' => ∀ r', o = some r' → Fwd p3 r' pos') := by
        split
        · apply Safe.bind
          apply Safe.mono (skipData_safe s kind r3 1 p3 (by decide) c2 (inChunk_not_peek c3))
          intro r4 p4 ⟨d1, d2, _⟩
          exact Safe.done (by intro r' h; cases h; exact ⟨d1, d2⟩)
        · split
          · apply Safe.bind
            apply Safe.mono (vp8lChunk_safe s kind hV r3 1 p3 none (by decide) c2 (inChunk_not_peek c3))
            intro r4 p4 ⟨d1, d2, _⟩
            exact Safe.done (by intro r' h; cases h; exact ⟨d1, d2⟩)
          · split
            · apply Safe.bind
              apply Safe.mono (parseData_safe s kind r3 1 p3 _ (by decide) c2 (inChunk_not_peek c3))
              intro z p4 ⟨d1, d2, _⟩
              obtain ⟨vs, r4⟩ := z
              dsimp only at d2 ⊢
              apply Safe.mono (sanitizeExtended_safe s kind hV cfg r4 _ _ _ fuel p4 d2)
              intro o p5 ho r' hr
              have := ho r' hr
              exact ⟨by have := this.1; omega, this.2⟩
            · exact Safe.fail
      apply Safe.mono first
      intro o p4 ho
      cases o with
      | none => exact Safe.done trivial
      | some r4 =>
        have hf := ho r4 rfl
        dsimp only
        apply Safe.bind
        apply Safe.mono (trailingLoop_safe s kind hV cfg 1 false fuel r4 p4 (by decide) hf.2)
        intro o2 p5 ho2
        cases o2 with
        | none => exact Safe.done trivial
        | some r5 =>
          have hf2 := ho2 r5 rfl
          dsimp only
          apply Safe.bind
          apply Safe.mono (hasRemaining_safe s kind r5 0 p5 (by decide) hf2.2)
          intro w p6 _
          obtain ⟨more, r6⟩ := w
          dsimp only
          split
          · exact Safe.fail
          · apply Safe.position
            apply Safe.streamLen
            split
            · exact Safe.done trivial
            · exact Safe.fail

end
end MediaSan.Webp
