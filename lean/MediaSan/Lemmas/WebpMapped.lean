/-
  C13 (WebP): every `read_exact` / `skip` request of the WebP sanitizer program carries a `map_eof` annotation —
  a structural fact about the program, proved function by function.
-/
import MediaSan.Lemmas.EofMapped
import MediaSan.Webp.Sanitize
namespace MediaSan.Webp
open MediaSan

/-- structural steps shared by all the functions below -/
macro "eom_step" : tactic =>
  `(tactic| first
    | exact EofMapped.done _
    | exact EofMapped.fail _
    | exact EofMapped.panic _
    | assumption
    | (apply EofMapped.bind)
    | (apply EofMapped.isEof; intro _)
    | (apply EofMapped.position; intro _)
    | (apply EofMapped.streamLen; intro _)
    | (apply EofMapped.readExact; intro _)
    | (apply EofMapped.skip; intro _)
    | (apply EofMapped.readUpTo; intro _)
    | (intro _)
    | (dsimp only)
    | split)

macro "eom" : tactic => `(tactic| repeat eom_step)

theorem rawIsEmpty_mapped (r : RS) (k : Nat) : EofMapped (rawIsEmpty r k) := by unfold rawIsEmpty; eom
theorem rawRead_mapped (r : RS) (k n : Nat) : EofMapped (rawRead r k n) := by unfold rawRead; eom
theorem rawSkip_mapped (r : RS) (k n : Nat) : EofMapped (rawSkip r k n) := by unfold rawSkip; eom

theorem readPadding_mapped (r : RS) (k : Nat) : EofMapped (readPadding r k) := by
  unfold readPadding
  have := rawRead_mapped r k 1
  eom

theorem hasRemaining_mapped (r : RS) (k : Nat) : EofMapped (hasRemaining r k) := by
  unfold hasRemaining
  apply EofMapped.bind (readPadding_mapped r k)
  intro r1
  have := rawIsEmpty_mapped r1 k
  eom

macro "eom1_step" : tactic =>
  `(tactic| first
    | exact rawIsEmpty_mapped _ _
    | exact rawRead_mapped _ _ _
    | exact rawSkip_mapped _ _ _
    | exact readPadding_mapped _ _
    | exact hasRemaining_mapped _ _
    | eom_step)
macro "eom1" : tactic => `(tactic| repeat eom1_step)

theorem readAnyHeader_mapped (r : RS) (k : Nat) : EofMapped (readAnyHeader r k) := by unfold readAnyHeader; eom1
theorem peekHeader_mapped (r : RS) (k : Nat) : EofMapped (peekHeader r k) := by unfold peekHeader; eom1

theorem readHeader_mapped (r : RS) (k : Nat) (name : Bytes) : EofMapped (readHeader r k name) := by
  unfold readHeader
  have h := readAnyHeader_mapped
  have go : ∀ r' : RS, EofMapped ((readAnyHeader r' k).bind fun x =>
      if x.1 = name then (Prog.done x.2 : WP RS) else Prog.fail WErr.invalidChunkLayout) := by
    intro r'; apply EofMapped.bind (h r' k); eom
  eom1
  all_goals first | exact go _ | skip

theorem readData_mapped (r : RS) (k n : Nat) : EofMapped (readData r k n) := by unfold readData; eom1
theorem skipData_mapped (r : RS) (k : Nat) : EofMapped (skipData r k) := by unfold skipData; eom1
theorem liftPrim_mapped {α} (x : Except PrimErr α) : EofMapped (liftPrim x) := by unfold liftPrim; eom
theorem liftLossless_mapped (x : Except Vp8l.LErr Unit) : EofMapped (liftLossless x) := by unfold liftLossless; eom

macro "eom2_step" : tactic =>
  `(tactic| first
    | exact readAnyHeader_mapped _ _
    | exact peekHeader_mapped _ _
    | exact readHeader_mapped _ _ _
    | exact readData_mapped _ _ _
    | exact skipData_mapped _ _
    | exact liftPrim_mapped _
    | exact liftLossless_mapped _
    | eom1_step)
macro "eom2" : tactic => `(tactic| repeat eom2_step)

theorem parseData_mapped (r : RS) (k : Nat) (sc : Schema) : EofMapped (parseData r k sc) := by unfold parseData; eom2
theorem sanitizeImageData_mapped (r : RS) (k w h : Nat) : EofMapped (sanitizeImageData r k w h) := by
  unfold sanitizeImageData; eom2

macro "eom3_step" : tactic =>
  `(tactic| first
    | exact parseData_mapped _ _ _
    | exact sanitizeImageData_mapped _ _ _ _
    | eom2_step)
macro "eom3" : tactic => `(tactic| repeat eom3_step)

theorem mapped_ite_notb {α : Type} (b : Bool) (e : WErr) {X : WP α} (h : EofMapped X) :
    EofMapped (if (!b) = true then (Prog.fail e : WP α) else X) := by
  cases b
  · exact EofMapped.fail _
  · exact h

theorem vp8lChunk_mapped (r : RS) (k : Nat) (e : Option (Nat × Nat)) : EofMapped (vp8lChunk r k e) := by
  unfold vp8lChunk
  apply EofMapped.bind (readData_mapped r k 5)
  intro x
  cases hp : Vp8l.parseVp8lHeader (ByteArray.mk x.1.toArray) with
  | error e => cases e <;> exact EofMapped.fail _
  | ok wh =>
    obtain ⟨w, h⟩ := wh
    apply mapped_ite_notb
    apply EofMapped.bind (sanitizeImageData_mapped _ _ _ _)
    intro r2
    exact skipData_mapped _ _
theorem alphChunk_mapped (r : RS) (k w h : Nat) : EofMapped (alphChunk r k w h) := by unfold alphChunk; eom3

theorem trailingLoop_mapped (cfg : Config) (k : Nat) (a : Bool) (fuel : Nat) (r : RS) :
    EofMapped (trailingLoop cfg k a fuel r) := by
  induction fuel generalizing r with
  | zero => unfold trailingLoop; eom
  | succ n ih => unfold trailingLoop; eom3; all_goals first | exact ih _ | skip

macro "eom4_step" : tactic =>
  `(tactic| first
    | exact vp8lChunk_mapped _ _ _
    | exact alphChunk_mapped _ _ _ _
    | exact trailingLoop_mapped _ _ _ _ _
    | eom3_step)
macro "eom4" : tactic => `(tactic| repeat eom4_step)

theorem sanitizeStill_mapped (r : RS) (f cw ch : Nat) : EofMapped (sanitizeStill r f cw ch) := by
  unfold sanitizeStill; eom4
theorem sanitizeFrame_mapped (cfg : Config) (r : RS) (f cw ch fuel : Nat) : EofMapped (sanitizeFrame cfg r f cw ch fuel) := by
  unfold sanitizeFrame; eom4

theorem framesLoop_mapped (cfg : Config) (f cw ch fuel n : Nat) (r : RS) : EofMapped (framesLoop cfg f cw ch fuel n r) := by
  induction n generalizing r with
  | zero => unfold framesLoop; eom
  | succ m ih =>
    unfold framesLoop
    apply EofMapped.bind (peekHeader_mapped r 1)
    intro x
    obtain ⟨nm, r1⟩ := x
    dsimp only
    split
    · apply EofMapped.bind (sanitizeFrame_mapped cfg _ f cw ch fuel)
      intro o
      cases o with
      | none => exact EofMapped.done _
      | some r' => exact ih r'
    · exact EofMapped.done _

theorem sanitizeAnimated_mapped (cfg : Config) (r : RS) (f cw ch fuel : Nat) : EofMapped (sanitizeAnimated cfg r f cw ch fuel) := by
  unfold sanitizeAnimated
  have := framesLoop_mapped cfg f cw ch fuel fuel
  eom4
  all_goals first | exact this _ | eom4

theorem sanitizeExtended_mapped (cfg : Config) (r : RS) (f cw ch fuel : Nat) : EofMapped (sanitizeExtended cfg r f cw ch fuel) := by
  unfold sanitizeExtended
  have h1 := sanitizeAnimated_mapped cfg
  have h2 := sanitizeStill_mapped
  apply EofMapped.bind
  · eom4
  intro r1
  apply EofMapped.bind
  · split
    · exact h1 r1 f cw ch fuel
    · apply EofMapped.bind (h2 r1 f cw ch); intro _; exact EofMapped.done _
  intro o
  cases o with
  | none => exact EofMapped.done _
  | some r2 => dsimp only; eom4

/-- the whole WebP sanitizer program -/
theorem sanitizeP_mapped (cfg : Config) (fuel : Nat) : EofMapped (sanitizeP cfg fuel) := by
  unfold sanitizeP
  dsimp only
  apply EofMapped.bind (readHeader_mapped _ _ _)
  intro r1
  apply EofMapped.bind (readData_mapped _ _ _)
  intro x
  split
  · exact EofMapped.fail _
  split
  · exact EofMapped.fail _
  apply EofMapped.bind (readAnyHeader_mapped _ _)
  intro y
  apply EofMapped.bind
  · split
    · eom4
    split
    · eom4
    split
    · apply EofMapped.bind (parseData_mapped _ _ _)
      intro z
      exact sanitizeExtended_mapped cfg _ _ _ _ fuel
    · exact EofMapped.fail _
  intro o
  cases o with
  | none => exact EofMapped.done _
  | some r4 =>
    dsimp only
    apply EofMapped.bind (trailingLoop_mapped cfg 1 false fuel r4)
    intro o2
    cases o2 with
    | none => exact EofMapped.done _
    | some r5 => dsimp only; eom4

end MediaSan.Webp
